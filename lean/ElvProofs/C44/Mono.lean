/-
C44 helper: the specified position is monotone in the offset (so a range
`[from, to]` with `from ≤ to` becomes a well-ordered LSP range).
-/
import ElvProofs.C44.Lemmas
import ElvProofs.C44.Chars
namespace C44
open Go

/-- `p` is `q` or before it. -/
def Pos.le (p q : Pos) : Prop := p = q ∨ Pos.lt p q

theorem Pos.le_trans {p q r : Pos} (h1 : Pos.le p q) (h2 : Pos.le q r) : Pos.le p r := by
  rcases h1 with rfl | h1
  · exact h2
  · rcases h2 with rfl | h2
    · exact .inr h1
    · exact .inr (Pos.lt_trans h1 h2)

theorem specOfPrefix_le_append : ∀ (suf pre : List Ch), Pos.le (specOfPrefix pre) (specOfPrefix (pre ++ suf))
  | [], pre => by rw [List.append_nil]; exact .inl rfl
  | c :: rest, pre => by
    have h1 : Pos.le (specOfPrefix pre) (specOfPrefix (pre ++ [c])) := by
      rw [← step_spec pre false c]
      exact .inr (step_lt _ _ _)
    have h2 := specOfPrefix_le_append rest (pre ++ [c])
    rw [List.append_assoc] at h2
    exact Pos.le_trans h1 h2

theorem takeWhile_prefix (i j : Int) (h : i ≤ j) : ∀ (cs : List Ch),
    ∃ suf, (cs.takeWhile fun c => decide ((c.off : Int) < j)) = (cs.takeWhile fun c => decide ((c.off : Int) < i)) ++ suf
  | [] => ⟨[], rfl⟩
  | c :: cs => by
    by_cases hc : (c.off : Int) < i
    · have hj : (c.off : Int) < j := by omega
      obtain ⟨suf, hs⟩ := takeWhile_prefix i j h cs
      exact ⟨suf, by simp [List.takeWhile_cons, hc, hj, hs]⟩
    · refine ⟨(c :: cs).takeWhile fun c => decide ((c.off : Int) < j), ?_⟩
      simp [List.takeWhile_cons, hc]

theorem specPos_eq_takeWhile (s : Bytes) (i : Int) :
    specPos s i = specOfPrefix ((chars s).takeWhile fun c => decide ((c.off : Int) < i)) := by
  unfold specPos
  rw [takeWhile_eq_filter_of_sorted _ _ (chars_sorted s)]

/-- The specified position is monotone in the offset. -/
theorem specPos_mono (s : Bytes) (i j : Int) (h : i ≤ j) : Pos.le (specPos s i) (specPos s j) := by
  rw [specPos_eq_takeWhile, specPos_eq_takeWhile]
  obtain ⟨suf, hs⟩ := takeWhile_prefix i j h (chars s)
  rw [hs]
  exact specOfPrefix_le_append suf _

end C44
