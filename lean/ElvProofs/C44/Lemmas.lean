/-
Helper lemmas for C44: the walk of the fixed `walkString` computes the
specification; positions strictly increase along the walk; offsets of `chars`
strictly increase and stay below the length.
-/
import ElvModel.C44.Spec
namespace C44
open Go

/-! ### one step of the walk = appending one character to the prefix -/

theorem specOfPrefix_snoc (pre : List Ch) (c : Ch) :
    specOfPrefix (pre ++ [c]) =
      if c.endsLine then ⟨(specOfPrefix pre).line + 1, 0⟩
      else ⟨(specOfPrefix pre).line, (specOfPrefix pre).char + c.units⟩ := by
  unfold specOfPrefix
  cases h : c.endsLine <;>
    simp [List.countP_append, List.reverse_append, List.takeWhile_cons, h, Nat.add_comm]

theorem step_spec (pre : List Ch) (b : Bool) (c : Ch) :
    step .fixed (specOfPrefix pre) b c = specOfPrefix (pre ++ [c]) := by
  rw [specOfPrefix_snoc]
  obtain ⟨off, r, nl⟩ := c
  unfold step Ch.endsLine Ch.units
  by_cases h13 : r = 13
  · cases nl <;> simp [h13]
  · by_cases h10 : r = 10
    · simp [h10]
    · by_cases hu : r ≤ 0xFFFF <;> simp [h13, h10, hu]

/-! ### `lspPositionFromIdx` over the walk -/

theorem fromIdx_visitsFrom (n : Nat) (idx : Int) (cs : List Ch) :
    ∀ (pre : List Ch) (b : Bool) (st : Pos),
      runCb (fun _ i p => (p, decide ((i : Int) < idx))) (visitsFrom .fixed n cs (specOfPrefix pre) b) st
        = specOfPrefix (pre ++ cs.takeWhile fun c => decide ((c.off : Int) < idx)) := by
  induction cs with
  | nil => intro pre b st; simp [visitsFrom, runCb]
  | cons c cs ih =>
    intro pre b st
    simp only [visitsFrom, runCb, List.takeWhile_cons]
    by_cases h : (c.off : Int) < idx
    · simp only [h, decide_true, if_true]
      rw [step_spec, ih]
      simp
    · simp [h]

theorem takeWhile_eq_filter_of_sorted (idx : Int) (cs : List Ch)
    (h : cs.Pairwise fun a b => a.off < b.off) :
    (cs.takeWhile fun c => decide ((c.off : Int) < idx)) = cs.filter fun c => decide ((c.off : Int) < idx) := by
  induction cs with
  | nil => rfl
  | cons c cs ih =>
    rw [List.pairwise_cons] at h
    by_cases hc : (c.off : Int) < idx
    · simp [hc, ih h.2]
    · simp only [List.takeWhile_cons, List.filter_cons, hc, decide_false]
      simp only [Bool.false_eq_true, if_false]
      symm
      rw [List.filter_eq_nil_iff]
      intro a ha
      have := h.1 a ha
      simp; omega

/-! ### positions strictly increase along the walk -/

theorem step_lt (p : Pos) (b : Bool) (c : Ch) : Pos.lt p (step .fixed p b c) := by
  unfold step Pos.lt
  by_cases h13 : c.r = 13
  · cases c.nextLF <;> simp [h13]
  · by_cases h10 : c.r = 10
    · simp [h10]
    · by_cases hu : c.r ≤ 0xFFFF <;> simp [h13, h10, hu]

theorem Pos.lt_trans {p q r : Pos} (h1 : Pos.lt p q) (h2 : Pos.lt q r) : Pos.lt p r := by
  unfold Pos.lt at *; omega

theorem Pos.lt_irrefl (p : Pos) : ¬ Pos.lt p p := by
  unfold Pos.lt; omega

theorem posLt_eq (p q : Pos) : posLt p q.line q.char = decide (Pos.lt p q) := by
  unfold posLt Pos.lt
  by_cases h1 : p.line < q.line <;> by_cases h2 : p.line = q.line <;> by_cases h3 : p.char < q.char <;>
    simp [h1, h2, h3] <;> omega

/-- Every pair offered after the first has a position strictly above the first's. -/
theorem visitsFrom_head_tail (n : Nat) (cs : List Ch) :
    ∀ (p : Pos) (b : Bool), ∃ i rest, visitsFrom .fixed n cs p b = (i, p) :: rest ∧
      ∀ x ∈ rest, Pos.lt p x.2 := by
  induction cs with
  | nil => intro p b; exact ⟨n, [], rfl, by simp⟩
  | cons c cs ih =>
    intro p b
    obtain ⟨i, rest, hr, hlt⟩ := ih (step .fixed p b c) (c.r == 13)
    refine ⟨c.off, _, rfl, ?_⟩
    intro x hx
    rw [hr] at hx
    rcases List.mem_cons.mp hx with rfl | hx
    · exact step_lt p b c
    · exact Pos.lt_trans (step_lt p b c) (hlt x hx)

/-- `lspPositionToIdx` at the position of an offered pair returns that pair's offset. -/
theorem toIdx_visitsFrom (n : Nat) (cs : List Ch) :
    ∀ (p : Pos) (b : Bool) (st : Nat) (x : Nat × Pos), x ∈ visitsFrom .fixed n cs p b →
      runCb (fun _ i p => (i, posLt p x.2.line x.2.char)) (visitsFrom .fixed n cs p b) st = x.1 := by
  induction cs with
  | nil =>
    intro p b st x hx
    simp [visitsFrom] at hx
    subst hx
    simp [visitsFrom, runCb]
  | cons c cs ih =>
    intro p b st x hx
    simp only [visitsFrom] at hx ⊢
    rcases List.mem_cons.mp hx with rfl | hx
    · have h : posLt p p.line p.char = false := by rw [posLt_eq]; simp [Pos.lt_irrefl]
      simp [runCb, h]
    · obtain ⟨i, rest, hr, hlt⟩ := visitsFrom_head_tail n cs (step .fixed p b c) (c.r == 13)
      have hpx : Pos.lt p x.2 := by
        rw [hr] at hx
        rcases List.mem_cons.mp hx with rfl | hx
        · exact step_lt p b c
        · exact Pos.lt_trans (step_lt p b c) (hlt x hx)
      have h : posLt p x.2.line x.2.char = true := by rw [posLt_eq]; simp [hpx]
      simp only [runCb, h, if_true]
      exact ih _ _ _ x hx

/-- The result of `lspPositionToIdx` is one of the offered offsets. -/
theorem toIdx_mem (v : Variant) (n : Nat) (line char : Int) (cs : List Ch) :
    ∀ (p : Pos) (b : Bool) (st : Nat),
      runCb (fun _ i p => (i, posLt p line char)) (visitsFrom v n cs p b) st
        ∈ (visitsFrom v n cs p b).map (·.1) := by
  induction cs with
  | nil => intro p b st; simp [visitsFrom, runCb]
  | cons c cs ih =>
    intro p b st
    simp only [visitsFrom, runCb, List.map_cons]
    by_cases h : posLt p line char = true
    · simp only [h, if_true]
      exact List.mem_cons_of_mem _ (ih _ _ _)
    · simp [h]

theorem visitsFrom_offsets (v : Variant) (n : Nat) (cs : List Ch) :
    ∀ (p : Pos) (b : Bool), (visitsFrom v n cs p b).map (·.1) = cs.map (·.off) ++ [n] := by
  induction cs with
  | nil => intro p b; rfl
  | cons c cs ih => intro p b; simp [visitsFrom, ih]

/-- Each boundary offset is offered by the walk together with its specified position. -/
theorem mem_visitsFrom_of_boundary (n : Nat) (cs : List Ch) :
    cs.Pairwise (fun a b => a.off < b.off) → (∀ c ∈ cs, c.off < n) →
    ∀ (pre : List Ch) (b : Bool) (i : Nat), i ∈ cs.map (·.off) ++ [n] →
      (i, specOfPrefix (pre ++ cs.filter fun c => decide ((c.off : Int) < (i : Int))))
        ∈ visitsFrom .fixed n cs (specOfPrefix pre) b := by
  induction cs with
  | nil =>
    intro _ _ pre b i hi
    simp at hi
    subst hi
    simp [visitsFrom]
  | cons c cs ih =>
    intro hs hn pre b i hi
    rw [List.pairwise_cons] at hs
    have hn' : ∀ c ∈ cs, c.off < n := fun c hc => hn c (List.mem_cons_of_mem _ hc)
    simp only [List.map_cons, List.cons_append, List.mem_cons] at hi
    simp only [visitsFrom]
    rcases hi with rfl | hi
    · -- the first character's offset: nothing starts before it
      have : (List.filter (fun d : Ch => decide ((d.off : Int) < (c.off : Int))) (c :: cs)) = [] := by
        rw [List.filter_eq_nil_iff]
        intro a ha
        rcases List.mem_cons.mp ha with rfl | ha
        · simp
        · have := hs.1 a ha
          simp; omega
      rw [this]
      simp
    · -- a later boundary: the first character starts before it
      have hlt : c.off < i := by
        rcases List.mem_append.mp hi with h | h
        · obtain ⟨a, ha, rfl⟩ := List.mem_map.mp h
          exact hs.1 a ha
        · simp at h; subst h; exact hn c (List.mem_cons_self ..)
      have hc : decide ((c.off : Int) < (i : Int)) = true := by simp; omega
      rw [List.filter_cons, if_pos hc, step_spec]
      have := ih hs.2 hn' (pre ++ [c]) (c.r == 13) i hi
      rw [List.append_assoc] at this
      exact List.mem_cons_of_mem _ this

end C44
