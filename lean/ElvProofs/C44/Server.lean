/-
Helper definitions and lemmas for the server part of C44.
-/
import ElvModel.C44.Server
import ElvProofs.C44.Lemmas
import ElvProofs.C44.Chars
import ElvProofs.C44.Hover
namespace C44
open Go

/-- The completer parameter of a text is defined at every boundary offset
(`complete.Complete` is a total function; the model only sees a table). -/
def Text.wf (t : Text) : Prop := ∀ b ∈ boundaries t.code, (t.comp.lookup b).isSome = true

def Doc.wf (d : Doc) : Prop := ∀ b ∈ boundaries d.code, (d.comp.lookup b).isSome = true

/-- The stored tree and errors are what `parse.Parse` returns for the stored text. -/
def Doc.Parsed (lib : Lib) (d : Doc) : Prop := C01.parse lib.isPrint d.code = .ok d.tree d.errs

def Server.wf (lib : Lib) (s : Server) : Prop := ∀ e ∈ s.docs, e.2.wf ∧ e.2.Parsed lib

def Req.wf : Req → Prop
  | .didOpen _ t => t.wf
  | .didChange _ cs => ∀ t ∈ cs, t.wf
  | _ => True

/-- The diagnostic the property specifies for ONE parse error of a text: the
error's own range, both ends converted by the position specification, and the
error's own message. -/
def specDiag (code : Bytes) (e : C01.PErr) : DiagItem :=
  ((specPos code e.frm, specPos code e.to), e.msg)

/-- The diagnostics the property specifies for a document: one per parse
error, in order. -/
def specDiags (d : Doc) : List DiagItem := d.errs.map (specDiag d.code)

/-- `parse.Parse` returns for every text (`C01_total_lossless`): the document is built. -/
theorem parseText_ok (lib : Lib) (t : Text) :
    ∃ d, parseText lib t = .ok d ∧ d.code = t.code ∧ d.comp = t.comp ∧ d.Parsed lib := by
  obtain ⟨tree, errs, h, _⟩ := C01_total_lossless lib.isPrint t.code
  refine ⟨⟨t.code, tree, errs, t.comp⟩, ?_, rfl, rfl, h⟩
  simp only [parseText, h]

theorem parseText_inv {lib : Lib} {t : Text} {d : Doc} (h : parseText lib t = .ok d) :
    d.code = t.code ∧ d.comp = t.comp ∧ d.Parsed lib := by
  unfold parseText at h
  cases hp : C01.parse lib.isPrint t.code with
  | ok tree errs =>
    simp only [hp, Res.ok.injEq] at h
    subst h
    exact ⟨rfl, rfl, hp⟩
  | panic w => simp [hp] at h
  | fuel => simp [hp] at h

theorem mem_of_lookup {β : Type} (k : Bytes) (v : β) : ∀ (l : List (Bytes × β)), l.lookup k = some v → (k, v) ∈ l := by
  intro l
  induction l with
  | nil => simp [List.lookup]
  | cons e l ih =>
    obtain ⟨k', v'⟩ := e
    intro h
    simp only [List.lookup] at h
    split at h
    · rename_i heq
      have : k = k' := by simpa using heq
      simp at h
      subst this; subst h
      exact List.mem_cons_self ..
    · exact List.mem_cons_of_mem _ (ih h)

theorem lookup_filter_ne {β : Type} (k u : Bytes) (hku : k ≠ u) : ∀ (l : List (Bytes × β)),
    (l.filter fun e => e.1 != u).lookup k = l.lookup k := by
  intro l
  induction l with
  | nil => rfl
  | cons e l ih =>
    obtain ⟨k', v'⟩ := e
    by_cases h : k' = u
    · subst h
      have h1 : ((k', v').1 != k') = false := by simp
      have h2 : (k == k') = false := by simpa using hku
      rw [List.filter_cons, h1]
      simp only [Bool.false_eq_true, if_false, List.lookup, h2, ih]
    · have h1 : ((k', v').1 != u) = true := by simpa using h
      rw [List.filter_cons, h1]
      simp only [if_true, List.lookup]
      split <;> simp_all

theorem updateDocument_wf (lib : Lib) (s : Server) (uri : Bytes) (d : Doc) (hs : s.wf lib)
    (hd : d.wf ∧ d.Parsed lib) : (updateDocument .fixed s uri d).1.wf lib := by
  intro e he
  simp only [updateDocument] at he
  rcases List.mem_cons.mp he with rfl | he
  · exact hd
  · exact hs e (List.mem_filter.mp he).1

theorem updateDocument_find_self (v : Variant) (s : Server) (uri : Bytes) (d : Doc) :
    (updateDocument v s uri d).1.find uri = some d := by
  simp [updateDocument, Server.find, List.lookup]

theorem updateDocument_find_ne (v : Variant) (s : Server) (uri k : Bytes) (d : Doc) (h : k ≠ uri) :
    (updateDocument v s uri d).1.find k = s.find k := by
  have h2 : (k == uri) = false := by simpa using h
  simp only [updateDocument, Server.find, List.lookup, h2]
  exact lookup_filter_ne k uri h s.docs

theorem rangeOfVisits_spec (s : Bytes) (f t : Int) :
    rangeOfVisits (visits .fixed s) f t = (specPos s f, specPos s t) := by
  have h0 : (⟨0, 0⟩ : Pos) = specOfPrefix [] := by simp [specOfPrefix]
  have key : ∀ idx, fromIdxOfVisits (visits .fixed s) idx = specPos s idx := by
    intro idx
    show runCb _ (visitsFrom .fixed s.length (chars s) (⟨0, 0⟩ : Pos) false) (⟨0, 0⟩ : Pos) = _
    rw [h0, fromIdx_visitsFrom, takeWhile_eq_filter_of_sorted _ _ (chars_sorted s)]
    rfl
  simp [rangeOfVisits, key]

theorem updateDocument_diag (s : Server) (uri : Bytes) (d : Doc) :
    (updateDocument .fixed s uri d).2 = (uri, specDiags d) := by
  simp [updateDocument, specDiags, specDiag, rangeOfVisits_spec]

/-- `updateDocument` of the code = parse, store, publish. -/
theorem updateText_eq (lib : Lib) (s : Server) (uri : Bytes) (t : Text) :
    ∃ d, parseText lib t = .ok d ∧
      updateText .fixed lib s uri t =
        .ok ⟨(updateDocument .fixed s uri d).1, .null, some (updateDocument .fixed s uri d).2⟩ := by
  obtain ⟨d, hd, _⟩ := parseText_ok lib t
  exact ⟨d, hd, by simp only [updateText, hd, bind, Res.bind, pure]⟩

theorem updateText_ok (lib : Lib) (s : Server) (uri : Bytes) (t : Text) (hs : s.wf lib) (ht : t.wf) :
    ∃ o, updateText .fixed lib s uri t = .ok o ∧ o.srv.wf lib := by
  obtain ⟨d, hd, he⟩ := updateText_eq lib s uri t
  obtain ⟨hc, hm, hp⟩ := parseText_inv hd
  refine ⟨_, he, updateDocument_wf lib s uri d hs ⟨?_, hp⟩⟩
  intro b hb
  rw [hm]; rw [hc] at hb
  exact ht b hb

theorem didOpen_ok (lib : Lib) (s : Server) (uri : Bytes) (t : Text) (hs : s.wf lib) (ht : t.wf) :
    ∃ o, didOpen .fixed lib s uri t = .ok o ∧ o.srv.wf lib :=
  updateText_ok lib s uri t hs ht

theorem didChange_ok (lib : Lib) (s : Server) (uri : Bytes) (cs : List Text) (hs : s.wf lib)
    (hd : ∀ t ∈ cs, t.wf) : ∃ o, didChange .fixed lib s uri cs = .ok o ∧ o.srv.wf lib := by
  unfold didChange
  cases h : cs.getLast? with
  | none => exact ⟨_, rfl, hs⟩
  | some t => exact updateText_ok lib s uri t hs (hd t (List.mem_of_getLast? h))

theorem hover_ok (lib : Lib) (s : Server) (uri : Bytes) (l c : Int) (hs : s.wf lib)
    (hh : ParserHeads lib.isPrint) : ∃ o, hover .fixed lib s uri l c = .ok o ∧ o.srv.wf lib := by
  unfold hover
  cases hf : s.find uri with
  | none => exact ⟨_, rfl, hs⟩
  | some d =>
    have hp : d.Parsed lib := (hs _ (mem_of_lookup uri d s.docs hf)).2
    obtain ⟨c', hc⟩ := hoverContent_ok lib d.tree (toIdxV .fixed d.code l c) (hh _ _ _ hp)
    exact ⟨⟨s, .hover c', none⟩, by simp only [hc, bind, Res.bind, pure], hs⟩

theorem toIdx_boundary (s : Bytes) (line char : Int) : toIdxV .fixed s line char ∈ boundaries s := by
  have := toIdx_mem .fixed s.length line char (chars s) ⟨0, 0⟩ false 0
  rw [visitsFrom_offsets] at this
  exact this

theorem completion_ok (lib : Lib) (s : Server) (uri : Bytes) (l c : Int) (hs : s.wf lib) :
    ∃ o, completion .fixed s uri l c = .ok o ∧ o.srv.wf lib := by
  unfold completion
  cases hf : s.find uri with
  | none => exact ⟨_, rfl, hs⟩
  | some d =>
    have hd : d.wf := (hs _ (mem_of_lookup uri d s.docs hf)).1
    have := hd _ (toIdx_boundary d.code l c)
    simp only
    cases hl : d.comp.lookup (toIdxV .fixed d.code l c) with
    | none => simp [hl] at this
    | some r =>
      cases r with
      | err => exact ⟨_, rfl, hs⟩
      | ok n name f t =>
        simp only
        split
        · exact ⟨_, rfl, hs⟩
        · exact ⟨_, rfl, hs⟩

theorem handle_ok (lib : Lib) (empty : Text) (s : Server) (r : Req) (he : empty.wf) (hs : s.wf lib)
    (hr : r.wf) (hh : ParserHeads lib.isPrint) :
    ∃ o, handle .fixed lib empty s r = .ok o ∧ o.srv.wf lib := by
  cases r with
  | didOpen uri d => exact didOpen_ok lib s uri d hs hr
  | didChange uri cs => exact didChange_ok lib s uri cs hs hr
  | hover uri l c => exact hover_ok lib s uri l c hs hh
  | completion uri l c => exact completion_ok lib s uri l c hs
  | raw m pk =>
    simp only [handle]
    split
    · exact ⟨_, rfl, hs⟩
    split
    · rename_i h; simp at h
    split
    · exact ⟨_, rfl, hs⟩
    split
    · exact ⟨_, rfl, hs⟩
    split
    · exact ⟨_, rfl, hs⟩
    split
    · exact didOpen_ok lib s [] empty hs he
    split
    · exact didChange_ok lib s [] [] hs (by simp)
    split
    · exact hover_ok lib s [] 0 0 hs hh
    · exact completion_ok lib s [] 0 0 hs

/-! ### the last diagnostics on the wire describe the stored document -/

/-- The diagnostics a client currently shows for `uri`: those of the last
`publishDiagnostics` it received for that URI. -/
def lastFor (uri : Bytes) (sent : List Diag) : Option (List DiagItem) :=
  (sent.reverse.find? fun d => d.1 == uri).map (·.2)

def Inv (s : Server) (sent : List Diag) : Prop :=
  ∀ uri, lastFor uri sent = (s.find uri).map specDiags

theorem lastFor_snoc (uri u : Bytes) (r : List DiagItem) (sent : List Diag) :
    lastFor uri (sent ++ [(u, r)]) = if u = uri then some r else lastFor uri sent := by
  unfold lastFor
  by_cases h : u = uri <;> simp [List.reverse_append, List.find?_cons, h]

/-- A handler either leaves the table alone and publishes nothing, or is one
`updateDocument` of a text it has parsed. -/
theorem handle_shape (lib : Lib) (empty : Text) (s : Server) (r : Req) (o : HOut)
    (h : handle .fixed lib empty s r = .ok o) :
    (o.srv = s ∧ o.diag = none) ∨
    ∃ uri t d, parseText lib t = .ok d ∧
      o.srv = (updateDocument .fixed s uri d).1 ∧ o.diag = some (updateDocument .fixed s uri d).2 := by
  have upd_ : ∀ uri t o, updateText .fixed lib s uri t = .ok o →
      ∃ uri t d, parseText lib t = .ok d ∧
        o.srv = (updateDocument .fixed s uri d).1 ∧ o.diag = some (updateDocument .fixed s uri d).2 := by
    intro uri t o h
    obtain ⟨d, hd, he⟩ := updateText_eq lib s uri t
    rw [he] at h
    simp only [Res.ok.injEq] at h
    subst h
    exact ⟨uri, t, d, hd, rfl, rfl⟩
  have change_ : ∀ uri cs o, didChange .fixed lib s uri cs = .ok o →
      (o.srv = s ∧ o.diag = none) ∨
      ∃ uri t d, parseText lib t = .ok d ∧
        o.srv = (updateDocument .fixed s uri d).1 ∧ o.diag = some (updateDocument .fixed s uri d).2 := by
    intro uri cs o h
    unfold didChange at h
    cases hl : cs.getLast? with
    | none => simp only [hl, pure, Res.ok.injEq] at h; subst h; exact .inl ⟨rfl, rfl⟩
    | some t => simp only [hl] at h; exact .inr (upd_ uri t o h)
  have hover_ : ∀ uri l c o, hover .fixed lib s uri l c = .ok o → (o.srv = s ∧ o.diag = none) := by
    intro uri l c o h
    unfold hover at h
    cases hf : s.find uri with
    | none => simp only [hf, pure, Res.ok.injEq] at h; subst h; exact ⟨rfl, rfl⟩
    | some d =>
      simp only [hf, bind, Res.bind] at h
      cases hc : hoverContent lib d.tree (toIdxV .fixed d.code l c) with
      | ok c' => simp only [hc, pure, Res.ok.injEq] at h; subst h; exact ⟨rfl, rfl⟩
      | exc e => simp [hc] at h
      | panic w => simp [hc] at h
  have comp_ : ∀ uri l c o, completion .fixed s uri l c = .ok o → (o.srv = s ∧ o.diag = none) := by
    intro uri l c o h
    unfold completion at h
    cases hf : s.find uri with
    | none => simp only [hf, pure, Res.ok.injEq] at h; subst h; exact ⟨rfl, rfl⟩
    | some d =>
      simp only [hf] at h
      cases hl : d.comp.lookup (toIdxV .fixed d.code l c) with
      | none => simp [hl] at h
      | some r =>
        cases r with
        | err => simp only [hl, pure, Res.ok.injEq] at h; subst h; exact ⟨rfl, rfl⟩
        | ok n name f t =>
          simp only [hl] at h
          split at h <;> simp only [pure, Res.ok.injEq] at h <;> subst h <;> exact ⟨rfl, rfl⟩
  cases r with
  | didOpen uri t => exact .inr (upd_ uri t o h)
  | didChange uri cs => exact change_ uri cs o h
  | hover uri l c => exact .inl (hover_ uri l c o h)
  | completion uri l c => exact .inl (comp_ uri l c o h)
  | raw m pk =>
    simp only [handle] at h
    split at h
    · simp only [pure, Res.ok.injEq] at h; subst h; exact .inl ⟨rfl, rfl⟩
    split at h
    · rename_i h'; simp at h'
    split at h
    · simp only [pure, Res.ok.injEq] at h; subst h; exact .inl ⟨rfl, rfl⟩
    split at h
    · simp only [pure, Res.ok.injEq] at h; subst h; exact .inl ⟨rfl, rfl⟩
    split at h
    · simp only [pure, Res.ok.injEq] at h; subst h; exact .inl ⟨rfl, rfl⟩
    split at h
    · exact .inr (upd_ _ _ o h)
    split at h
    · exact change_ _ _ o h
    split at h
    · exact .inl (hover_ _ _ _ o h)
    · exact .inl (comp_ _ _ _ o h)

theorem Inv_step (lib : Lib) (empty : Text) (s : Server) (r : Req) (o : HOut) (sent : List Diag)
    (h : handle .fixed lib empty s r = .ok o) (hi : Inv s sent) : Inv o.srv (sent ++ o.diag.toList) := by
  rcases handle_shape lib empty s r o h with ⟨h1, h2⟩ | ⟨uri, _, d, _, h1, h2⟩
  · rw [h1, h2]; simpa using hi
  · rw [h1, h2, updateDocument_diag]
    intro k
    simp only [Option.toList_some, lastFor_snoc]
    by_cases hk : uri = k
    · subst hk; simp [updateDocument_find_self]
    · have hk' : k ≠ uri := fun e => hk e.symm
      simp [hk, updateDocument_find_ne _ _ _ _ _ hk', hi k]

theorem Inv_serveAll (lib : Lib) (empty : Text) : ∀ (reqs : List (Bool × Req)) (s : Server) (sent : List Diag)
    (s' : Server) (os : List Out), serveAll .fixed lib empty s reqs = .ok (s', os) → Inv s sent →
    Inv s' (sent ++ published os) := by
  intro reqs
  induction reqs with
  | nil =>
    intro s sent s' os h hi
    simp only [serveAll, pure, Res.ok.injEq, Prod.mk.injEq] at h
    obtain ⟨rfl, rfl⟩ := h
    simpa [published] using hi
  | cons q reqs ih =>
    intro s sent s' os h hi
    obtain ⟨hasId, r⟩ := q
    simp only [serveAll, serve, bind, Res.bind] at h
    cases hh : handle .fixed lib empty s r with
    | exc e => simp [hh] at h
    | panic w => simp [hh] at h
    | ok o =>
      simp only [hh, pure] at h
      cases hr : serveAll .fixed lib empty o.srv reqs with
      | exc e => simp [hr] at h
      | panic w => simp [hr] at h
      | ok p =>
        obtain ⟨s2, os2⟩ := p
        simp only [hr, Res.ok.injEq, Prod.mk.injEq] at h
        obtain ⟨rfl, rfl⟩ := h
        have := ih o.srv (sent ++ o.diag.toList) s2 os2 hr (Inv_step lib empty s r o sent hh hi)
        have e : published (⟨o.srv, if hasId then Reply.res o.res else Reply.none, o.diag⟩ :: os2)
            = o.diag.toList ++ published os2 := by
          cases hd : o.diag <;> simp [published, List.filterMap_cons, hd]
        rw [e, ← List.append_assoc]
        exact this

end C44
