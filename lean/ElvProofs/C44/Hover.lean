/-
Helper lemmas for the hover part of C44: `np.Find` on the trees the parser
returns (C01), and `hover` does not panic.
-/
import ElvModel.C44.Hover
import ElvProofs.C01
import ElvProofs.C43.Range
namespace C44
open Go C01
open Gen.C01Chars

/-! ### `np.Find` -/

/-- Every node of `n`'s subtree is as C01 says (`C01_wf_nodes`). -/
def AllOk (src : Bytes) (n : Node) : Prop := ∀ m, C01_Desc n m → C01_NodeOk src m

theorem AllOk.child {src : Bytes} {n c : Node} (h : AllOk src n) (hc : c ∈ n.children) : AllOk src c :=
  fun m hm => h m (.child hc hm)

/-- `pos` is inside the node's range. -/
def Inside (p : Int) (n : Node) : Prop := (n.frm : Int) ≤ p ∧ p < (n.to : Int)

mutual
/-- `np.Find` on a C01 tree finds a leaf whenever the position is inside the
node (or the node is a leaf itself): the children tile the range, so the
`descend:` loop never falls through to `return nil`. -/
theorem findN_some (src : Bytes) (p : Int) : ∀ (n : Node) (i : Nat), AllOk src n →
    (n.children = [] ∨ Inside p n) → ∃ path, C43.findN p false i n = some path
  | .mk k a b t f cs, i, hok, hin => by
    cases cs with
    | nil => exact ⟨_, rfl⟩
    | cons c cs' =>
      have hn := hok _ (.self _)
      rcases hin with hin | hin
      · simp [Node.children] at hin
      · rcases hn.2.2.2 with hnil | ⟨hcon, hend⟩
        · simp [Node.children] at hnil
        · simp only [Node.children, Node.frm, Node.to] at hcon hend
          have hch : ∀ c0 ∈ c :: cs', AllOk src c0 := fun c0 hc0 => hok.child (by simpa [Node.children] using hc0)
          obtain ⟨pth, hp⟩ := findL_some src p (c :: cs') 0 a hch hcon
            (by simpa [Inside, Node.frm] using hin.1) (by rw [hend]; simpa [Inside, Node.to] using hin.2)
          exact ⟨pth ++ [(.mk k a b t f (c :: cs'), i)], by simp only [C43.findN, hp]⟩
theorem findL_some (src : Bytes) (p : Int) : ∀ (cs : List Node) (i a : Nat), (∀ c ∈ cs, AllOk src c) →
    Consec a cs → (a : Int) ≤ p → p < (endOf a cs : Nat) → ∃ path, C43.findL p false i cs = some path
  | [], _, a, _, _, h1, h2 => by simp only [endOf] at h2; omega
  | c :: rest, i, a, hok, hcon, h1, h2 => by
    simp only [Consec] at hcon
    simp only [endOf] at h2
    simp only [C43.findL]
    by_cases hc : p < (c.to : Int)
    · have hcond : (((c.frm : Int) ≤ p && p < (c.to : Int)) || (false && p == (c.to : Int))) = true := by
        simp [hcon.1, h1, hc]
      rw [if_pos hcond]
      exact findN_some src p c i (hok c List.mem_cons_self) (.inr ⟨by rw [hcon.1]; exact h1, hc⟩)
    · have hcond : ¬ (((c.frm : Int) ≤ p && p < (c.to : Int)) || (false && p == (c.to : Int))) = true := by
        simp [hc]
      rw [if_neg hcond]
      exact findL_some src p rest (i + 1) c.to (fun c0 hc0 => hok c0 (List.mem_cons_of_mem _ hc0)) hcon.2
        (by omega) h2
end

mutual
/-- the path `np.Find` returns: it starts at a leaf and ends at the node the
search started from; every node before that one contains the position. -/
theorem findN_path (p : Int) : ∀ (n : Node) (i : Nat) (path : C43.Path),
    C43.findN p false i n = some path →
    ∃ pre, path = pre ++ [(n, i)] ∧ (∀ x ∈ pre, Inside p x.1) ∧
      ∃ leaf, path.head? = some leaf ∧ leaf.1.children = []
  | .mk k a b t f cs, i, path => by
    intro h
    cases cs with
    | nil =>
      simp only [C43.findN, Option.some.injEq] at h
      subst h
      exact ⟨[], rfl, by simp, _, rfl, rfl⟩
    | cons c cs' =>
      simp only [C43.findN] at h
      cases hl : C43.findL p false 0 (c :: cs') with
      | none => rw [hl] at h; cases h
      | some pth =>
        rw [hl] at h
        simp only [Option.some.injEq] at h
        subst h
        obtain ⟨hall, leaf, hhead, hleaf⟩ := findL_path p (c :: cs') 0 pth hl
        refine ⟨pth, rfl, hall, leaf, ?_, hleaf⟩
        cases pth with
        | nil => simp at hhead
        | cons x xs => simpa using hhead
theorem findL_path (p : Int) : ∀ (cs : List Node) (i : Nat) (path : C43.Path),
    C43.findL p false i cs = some path →
    (∀ x ∈ path, Inside p x.1) ∧ ∃ leaf, path.head? = some leaf ∧ leaf.1.children = []
  | [], _, _ => by intro h; simp [C43.findL] at h
  | c :: rest, i, path => by
    intro h
    simp only [C43.findL] at h
    split at h
    · rename_i hc
      obtain ⟨pre, hp, hall, hleaf⟩ := findN_path p c i path h
      refine ⟨?_, hleaf⟩
      intro x hx
      rw [hp] at hx
      rcases List.mem_append.mp hx with hx | hx
      · exact hall x hx
      · have : x = (c, i) := by simpa using hx
        rw [this]
        simpa [Inside] using hc
    · exact findL_path p rest (i + 1) path h
end

theorem desc_child {a b c : Node} (h : C01_Desc a b) (hc : c ∈ b.children) : C01_Desc a c := by
  induction h with
  | self n => exact .child hc (.self _)
  | child hc' _ ih => exact .child hc' (ih hc)

/-! ### `hover` does not panic -/

/-- Every `Indexing` node of the tree has its `Head`. -/
def HeadsOk (t : Node) : Prop := ∀ m, C01_Desc t m → m.kind = .indexing → (C43.headOf m).isSome = true

/-- What `hover` needs of the parser beyond C01's theorems: `(*Indexing).parse`
always sets `Head` (the model adds the parsed `Primary` as the first child). -/
def ParserHeads (isPrint : Int → Bool) : Prop :=
  ∀ (src : Bytes) (t : Node) (errs : List PErr), parse isPrint src = .ok t errs → HeadsOk t

theorem pepcLoop_ok (env : C43.Env) (upto : Int) : ∀ (l : List Node) (t : Bool) (h : Bytes),
    (∀ inn ∈ l, (C43.headOf inn).isSome = true) → ∃ r, C43.pepcLoop env upto l t h = .ok r
  | [], t, h, _ => ⟨_, rfl⟩
  | inn :: rest, t, h, hl => by
    have hi := hl inn List.mem_cons_self
    have hr := fun t h => pepcLoop_ok env upto rest t h (fun x hx => hl x (List.mem_cons_of_mem _ hx))
    unfold C43.pepcLoop
    split
    · exact ⟨_, rfl⟩
    split
    · exact ⟨_, rfl⟩
    cases hh : C43.headOf inn with
    | none => simp [hh] at hi
    | some hd =>
      simp only
      split
      · exact hr _ _
      split
      · exact hr _ _
      split
      · split
        · exact hr _ _
        · exact ⟨_, rfl⟩
      · exact ⟨_, rfl⟩

theorem pepc_ok (env : C43.Env) (cn : Node) (upto : Int)
    (h : ∀ inn ∈ cn.childrenOf .indexing, (C43.headOf inn).isSome = true) :
    ∃ r, C43.purelyEvalPartialCompound env cn upto = .ok r := by
  obtain ⟨r, hr⟩ := pepcLoop_ok env upto (cn.childrenOf .indexing) false [] h
  unfold C43.purelyEvalPartialCompound
  rw [hr]
  cases r with
  | none => exact ⟨_, rfl⟩
  | some th =>
    obtain ⟨tl, hd⟩ := th
    simp only
    split
    · split <;> exact ⟨_, rfl⟩
    · exact ⟨_, rfl⟩

theorem matchSimpleExpr_ok (env : C43.Env) (root : Node) (p : C43.Path) (hh : HeadsOk root)
    (hd : ∀ x ∈ p, C01_Desc root x.1) : ∃ r, C43.matchSimpleExpr env p = .ok r := by
  match p, hd with
  | (pn, _) :: (inn, _) :: (cn, ci) :: rest, hd =>
    simp only [C43.matchSimpleExpr]
    split
    · rename_i hk
      have hcn : C01_Desc root cn := hd (cn, ci) (by simp)
      have : ∀ inn' ∈ cn.childrenOf .indexing, (C43.headOf inn').isSome = true := by
        intro inn' hi
        simp only [Node.childrenOf, List.mem_filter, beq_iff_eq] at hi
        exact hh inn' (desc_child hcn hi.1) hi.2
      obtain ⟨r, hr⟩ := pepc_ok env cn (inn.to : Int) this
      rw [hr]
      cases r <;> exact ⟨_, rfl⟩
    · exact ⟨_, rfl⟩
  | [], _ => exact ⟨_, rfl⟩
  | [_], _ => exact ⟨_, rfl⟩
  | [_, _], _ => exact ⟨_, rfl⟩

theorem npFind_desc (root : Node) (pos : Int) : ∀ x ∈ npFind root pos, C01_Desc root x.1 := by
  unfold npFind
  cases h : C43.findN pos false 0 root with
  | none => simp
  | some p => exact C43.findN_desc pos false root 0 p h

theorem hoverCommand_ok (lib : Lib) (tree : Node) (pos : Int) (hh : HeadsOk tree) :
    ∃ q, hoverCommand lib (npFind tree pos) = .ok q := by
  obtain ⟨r, hr⟩ := matchSimpleExpr_ok (nilEvalerEnv lib) tree (npFind tree pos) hh (npFind_desc tree pos)
  unfold hoverCommand
  rw [hr]
  cases r with
  | none => exact ⟨_, rfl⟩
  | some er =>
    obtain ⟨expr, rest⟩ := er
    simp only
    cases C43.matchKind .form rest with
    | none => exact ⟨_, rfl⟩
    | some fr =>
      simp only
      split <;> exact ⟨_, rfl⟩

/-- `hover`'s content selection returns (no nil dereference) on every tree whose
`Indexing` nodes have heads. -/
theorem hoverContent_ok (lib : Lib) (tree : Node) (pos : Int) (hh : HeadsOk tree) :
    ∃ c, hoverContent lib tree pos = .ok c := by
  obtain ⟨q, hq⟩ := hoverCommand_ok lib tree pos hh
  unfold hoverContent
  simp only [hq]
  cases hoverVariable (npFind tree pos) with
  | none => cases q <;> exact ⟨_, rfl⟩
  | some v =>
    simp only
    cases docSource lib.docs v with
    | none => cases q <;> exact ⟨_, rfl⟩
    | some md => exact ⟨_, rfl⟩

/-! ### which documentation is shown -/

theorem matchKind_inv {k : Kind} {p : C43.Path} {n : Node} {rest : C43.Path}
    (h : C43.matchKind k p = some (n, rest)) : ∃ i, p = (n, i) :: rest ∧ n.kind = k := by
  cases p with
  | nil => simp [C43.matchKind] at h
  | cons x xs =>
    obtain ⟨m, i⟩ := x
    simp only [C43.matchKind] at h
    split at h
    · rename_i hk
      simp only [Option.some.injEq, Prod.mk.injEq] at h
      exact ⟨i, by rw [h.1, h.2], by rw [← h.1]; simpa using hk⟩
    · cases h

theorem hoverVariable_some {p : C43.Path} {q : Bytes} (h : hoverVariable p = some q) :
    ∃ leaf rest, p = leaf :: rest ∧ leaf.1.kind = .primary ∧ leaf.1.ptype = Variable ∧
      q = 36 :: leaf.1.value := by
  unfold hoverVariable at h
  cases hm : C43.matchKind .primary p with
  | none => simp [hm] at h
  | some nr =>
    obtain ⟨n, r⟩ := nr
    simp only [hm] at h
    obtain ⟨i, hp, hk⟩ := matchKind_inv hm
    split at h
    · rename_i hv
      simp only [Option.some.injEq] at h
      exact ⟨(n, i), r, hp, hk, by simpa using hv, h.symm⟩
    · cases h

theorem matchSimpleExpr_inv {env : C43.Env} {p : C43.Path} {d : C43.SimpleExprData} {rest : C43.Path}
    (h : C43.matchSimpleExpr env p = .ok (some (d, rest))) :
    ∃ pn inn, p = pn :: inn :: (d.compound, d.cidx) :: rest ∧
      pn.1.kind = .primary ∧ inn.1.kind = .indexing ∧ d.compound.kind = .compound ∧
      C43.purelyEvalPartialCompound env d.compound (inn.1.to : Int) = .ok (some d.value) := by
  match p, h with
  | (pn, i) :: (inn, j) :: (cn, ci) :: rest', h =>
    simp only [C43.matchSimpleExpr] at h
    split at h
    · rename_i hk
      simp only [Bool.and_eq_true, beq_iff_eq] at hk
      cases he : C43.purelyEvalPartialCompound env cn (inn.to : Int) with
      | ok r =>
        cases r with
        | none => simp [he] at h
        | some v =>
          simp only [he, Res.ok.injEq, Option.some.injEq, Prod.mk.injEq] at h
          obtain ⟨h1, h2⟩ := h
          subst h1
          exact ⟨(pn, i), (inn, j), by rw [h2], hk.1.1, hk.1.2, hk.2, he⟩
      | exc e => simp [he] at h
      | panic w => simp [he] at h
    · cases h
  | [], h => simp [C43.matchSimpleExpr] at h
  | [_], h => simp [C43.matchSimpleExpr] at h
  | [_, _], h => simp [C43.matchSimpleExpr] at h

theorem hoverCommand_some {lib : Lib} {p : C43.Path} {q : Bytes} (h : hoverCommand lib p = .ok (some q)) :
    ∃ pn inn cn form rest, p = pn :: inn :: (cn, 0) :: form :: rest ∧
      pn.1.kind = .primary ∧ inn.1.kind = .indexing ∧ cn.kind = .compound ∧ form.1.kind = .form ∧
      C43.purelyEvalPartialCompound (nilEvalerEnv lib) cn (inn.1.to : Int) = .ok (some q) := by
  unfold hoverCommand at h
  cases hm0 : C43.matchSimpleExpr (nilEvalerEnv lib) p with
  | ok r =>
    cases r with
    | none => simp [hm0] at h
    | some er =>
      obtain ⟨expr, rest⟩ := er
      simp only [hm0] at h
      obtain ⟨pn, inn, hp, h1, h2, h3, h4⟩ := matchSimpleExpr_inv hm0
      cases hm : C43.matchKind .form rest with
      | none => simp [hm] at h
      | some fr =>
        obtain ⟨form, rest'⟩ := fr
        simp only [hm] at h
        obtain ⟨fi, hrest, hfk⟩ := matchKind_inv hm
        split at h
        · rename_i hc
          simp only [Bool.and_eq_true, beq_iff_eq] at hc
          simp only [Res.ok.injEq, Option.some.injEq] at h
          refine ⟨pn, inn, expr.compound, (form, fi), rest', ?_, h1, h2, h3, hfk, ?_⟩
          · rw [hp, hc.2, hrest]
          · rw [h4, h]
        · simp at h
  | exc e => simp [hm0] at h
  | panic w => simp [hm0] at h

theorem hoverContent_some (lib : Lib) (tree : Node) (pos : Int) (md : String)
    (h : hoverContent lib tree pos = .ok (some md)) :
    ∃ leaf rest, npFind tree pos = leaf :: rest ∧ leaf.1.kind = .primary ∧
      ((leaf.1.ptype = Variable ∧ docSource lib.docs (36 :: leaf.1.value) = some md) ∨
       (∃ inn cn form rest' v, rest = inn :: (cn, 0) :: form :: rest' ∧
          inn.1.kind = .indexing ∧ cn.kind = .compound ∧ form.1.kind = .form ∧
          C43.purelyEvalPartialCompound (nilEvalerEnv lib) cn (inn.1.to : Int) = .ok (some v) ∧
          docSource lib.docs v = some md)) := by
  unfold hoverContent at h
  simp only at h
  have cmd : ∀ {r : Res (Option String)},
      (match hoverCommand lib (npFind tree pos) with
        | .ok (some q) => Res.ok (docSource lib.docs q)
        | .ok none => .ok none
        | .exc e => .exc e
        | .panic w => .panic w) = r → r = .ok (some md) →
      ∃ q, hoverCommand lib (npFind tree pos) = .ok (some q) ∧ docSource lib.docs q = some md := by
    intro r hr hrm
    subst hr
    cases hc : hoverCommand lib (npFind tree pos) with
    | ok oq =>
      cases oq with
      | none => simp [hc] at hrm
      | some q => exact ⟨q, rfl, by simpa [hc] using hrm⟩
    | exc e => simp [hc] at hrm
    | panic w => simp [hc] at hrm
  have fromCmd : (∃ q, hoverCommand lib (npFind tree pos) = .ok (some q) ∧ docSource lib.docs q = some md) →
      ∃ leaf rest, npFind tree pos = leaf :: rest ∧ leaf.1.kind = .primary ∧
        ((leaf.1.ptype = Variable ∧ docSource lib.docs (36 :: leaf.1.value) = some md) ∨
         (∃ inn cn form rest' v, rest = inn :: (cn, 0) :: form :: rest' ∧
            inn.1.kind = .indexing ∧ cn.kind = .compound ∧ form.1.kind = .form ∧
            C43.purelyEvalPartialCompound (nilEvalerEnv lib) cn (inn.1.to : Int) = .ok (some v) ∧
            docSource lib.docs v = some md)) := by
    intro ⟨q, hq, hd⟩
    obtain ⟨pn, inn, cn, form, rest, hp, h1, h2, h3, h4, h5⟩ := hoverCommand_some hq
    exact ⟨pn, _, hp, h1, .inr ⟨inn, cn, form, rest, q, rfl, h2, h3, h4, h5, hd⟩⟩
  cases hv : hoverVariable (npFind tree pos) with
  | none =>
    simp only [hv] at h
    exact fromCmd (cmd rfl h)
  | some q =>
    simp only [hv] at h
    cases hd : docSource lib.docs q with
    | none =>
      simp only [hd] at h
      exact fromCmd (cmd rfl h)
    | some md' =>
      simp only [hd, Res.ok.injEq, Option.some.injEq] at h
      subst h
      obtain ⟨leaf, rest, hp, hk, hty, hq⟩ := hoverVariable_some hv
      exact ⟨leaf, rest, hp, hk, .inl ⟨hty, by rw [← hq]; exact hd⟩⟩

end C44
