/-
C44: the offsets of `chars s` (Go's `range`) strictly increase, start at 0 and
stay below `len(s)`; `chars` agrees with the prelude's `Go.runes`.
-/
import ElvModel.C44.Spec
namespace C44
open Go

theorem decodeRune_size (b : UInt8) (t : Bytes) :
    1 ≤ (decodeRune (b :: t)).2 ∧ (decodeRune (b :: t)).2 ≤ (b :: t).length := by
  unfold decodeRune
  simp only []
  repeat' split
  all_goals simp

theorem charsFrom_bounds (fuel : Nat) : ∀ (off : Nat) (s : Bytes),
    (∀ c ∈ charsFrom fuel off s, off ≤ c.off ∧ c.off < off + s.length) ∧
    (charsFrom fuel off s).Pairwise (fun a b => a.off < b.off) := by
  induction fuel with
  | zero => intro off s; simp [charsFrom]
  | succ fuel ih =>
    intro off s
    cases s with
    | nil => simp [charsFrom]
    | cons b t =>
      have hs := decodeRune_size b t
      obtain ⟨ih1, ih2⟩ := ih (off + (decodeRune (b :: t)).2) ((b :: t).drop (decodeRune (b :: t)).2)
      have hlen : ((b :: t).drop (decodeRune (b :: t)).2).length = (b :: t).length - (decodeRune (b :: t)).2 :=
        List.length_drop
      simp only [charsFrom]
      constructor
      · intro c hc
        rcases List.mem_cons.mp hc with rfl | hc
        · simp
        · have := ih1 c hc
          rw [hlen] at this
          simp only [List.length_cons] at this hs ⊢
          omega
      · rw [List.pairwise_cons]
        refine ⟨?_, ih2⟩
        intro c hc
        have := ih1 c hc
        simp only
        omega

theorem chars_sorted (s : Bytes) : (chars s).Pairwise (fun a b => a.off < b.off) :=
  (charsFrom_bounds s.length 0 s).2

theorem chars_off_lt (s : Bytes) : ∀ c ∈ chars s, c.off < s.length := by
  intro c hc
  have := (charsFrom_bounds s.length 0 s).1 c hc
  omega

/-- `chars` is the prelude's `for i, r := range s`. -/
theorem charsFrom_runesFrom (fuel : Nat) : ∀ (off : Nat) (s : Bytes),
    (charsFrom fuel off s).map (fun c => (c.off, c.r)) = (runesFrom fuel off s).map (fun t => (t.1, t.2.1)) := by
  induction fuel with
  | zero => intro off s; simp [charsFrom, runesFrom]
  | succ fuel ih =>
    intro off s
    cases s with
    | nil => simp [charsFrom, runesFrom]
    | cons b t => simp [charsFrom, runesFrom, ih]

end C44
