import ElvProofs.C19.Inv
import ElvProofs.C19.Replay
import ElvProofs.C19.Interp
/-!
C19 — interrupting evaluation at any moment is handled cleanly.

The theorems quantify over ALL executions `C19.Run tr s` of the transition
system `C19.step` (ElvModel/C19/Model.lean): the environment label `cancel`
may occur at any position, pipelines, chunks, sleeps and any number of `peach`
calls (each an instance of the C20 system for the fixed code) interleave
arbitrarily.
-/
open C19

/-- (1) Once the interrupt is delivered no further foreground pipeline starts: whenever a
foreground pipeline passes its check, `cancel` has not occurred.  (Frames of background jobs have
their own context and are excluded, as the property says.) -/
theorem C19_no_foreground_pipeline_after_cancel (tr : List Label) (s s' : State) (pid : Nat) (opBg : Bool)
    (h : Run tr s) (hst : step s (.pstart pid false opBg) = some s') : Label.cancel ∉ tr := by
  intro hm
  have hc := (inv_cancelled h).mpr hm
  unfold step at hst
  split at hst
  · simp at hst
  · simp [hc] at hst

/-- (2) `Eval` returns an interrupted exception unless it had already finished: if the interrupt
was delivered before the top-level chunk ended, the result is not OK; it is exactly the interrupted
exception when the chunk ended at its own final check; and a result OK means the interrupt had not
been delivered when the top-level chunk ended. -/
theorem C19_interrupted_unless_finished (tr : List Label) (s : State) (r : Res) (h : Run tr s)
    (hr : s.result = some r) :
    ∃ e c, s.topExit = some (e, c) ∧ (c = true → r ≠ .ok) ∧ (e = .cint → r = .int) ∧ (r = .ok → c = false) := by
  obtain ⟨e, c, hte, hfit, _, _⟩ := inv_result h r hr
  obtain ⟨h1, h2⟩ := inv_topExit h e c hte
  refine ⟨e, c, hte, ?_, ?_, ?_⟩
  · intro hc hrok; subst hrok
    cases e <;> simp_all [fits]
  · intro he; subst he; cases r <;> simp_all [fits]
  · intro hrok; subst hrok
    cases e <;> simp_all [fits]

/-- (3) When `Eval` returns, everything it started has completed: no foreground pipeline is open
(every form, goroutine or inline, has signalled its WaitGroup and `Wait` has returned), and in
every foreground `peach` call no callback is running and every started callback has finished. -/
theorem C19_everything_finished_at_return (tr : List Label) (s : State) (r : Res) (h : Run tr s)
    (hr : s.result = some r) :
    s.pipes = [] ∧ ∀ i ∈ s.insts, i.bg = false →
      i.st.fpc = .ret ∧ i.st.running = 0 ∧
        ∃ ptr, C20.Run i.cfg ptr i.st ∧ ∀ j, 0 < ptr.count (.start j) → ∃ o, C20.Label.finish j o ∈ ptr := by
  obtain ⟨e, c, _, _, hp, hall⟩ := inv_result h r hr
  refine ⟨hp, fun i hi hbg => ?_⟩
  have hret : i.st.fpc = .ret := by
    have := List.all_eq_true.mp hall i hi
    simpa [hbg] using this
  obtain ⟨_, _, ptr, hrun⟩ := inv_insts h i hi
  obtain ⟨h1, h2⟩ := C20_return_after_all_finished i.cfg ptr i.st hrun hret
  exact ⟨hret, h1, ptr, hrun, h2⟩

/-- (4) A `peach` call with `&num-workers = K` never runs more than `K` callbacks at once in any
reachable state — before, while and after the interrupt is delivered — and never hits the
semaphore's "released more than held" panic. -/
theorem C19_bound_while_interrupted (tr : List Label) (s : State) (h : Run tr s) :
    ∀ i ∈ s.insts, ∀ K, i.cfg.k = some K → i.st.running ≤ K ∧ i.st.panicked = false := by
  intro i hi K hk
  obtain ⟨hca, _, ptr, hrun⟩ := inv_insts h i hi
  exact ⟨C20_running_le_bound i.cfg K ptr i.st hrun hk (Or.inl hca),
    C20_never_panics i.cfg ptr i.st hrun (Or.inl hca)⟩

/-- The unchanged tree ignores the error of `workerSema.Acquire(ctx, 1)`.  After `cancel` the
feeder spawns without a permit: two callbacks run with `&num-workers=1`, and the second worker's
`Release` finds the semaphore empty (`panic: semaphore: released more than held`).
(`harness/corpus/C19.txt` replays it on the real code.) -/
def C19.witness : List C20.Label :=
  [.chk1 false, .acqOk, .spawn, .start 0, .chk1 false, .cancel, .acqErr, .spawn, .start 1]

def C19.witnessPanic : List C20.Label :=
  C19.witness ++ [.finish 0 .exc, .mark 0, .done 0, .release 0, .finish 1 .exc, .mark 1, .done 1, .release 1]

/-- (4) is false for the unchanged code: the bound is exceeded and the process panics. -/
theorem C19_counterexample :
    ¬ (∀ (tr : List C20.Label) (s : C20.State), C20.Run (C20.unfixed (some 1) 2) tr s →
        s.running ≤ 1 ∧ s.panicked = false) := by
  intro hall
  have h1 : C20.Run (C20.unfixed (some 1) 2) C19.witness _ := C20.run_of_replay rfl
  have h2 : C20.Run (C20.unfixed (some 1) 2) C19.witnessPanic _ := C20.run_of_replay rfl
  have := (hall _ _ h1).1
  have := (hall _ _ h2).2
  simp_all [C20.State.running, C20.WPc.isRunning]

/-- (1)+(2) for the sequential fragment, through every nesting of loops, closure calls and
try/finally: if the interrupt is delivered (synchronously, at the `t`-th step) the evaluation
returns `interrupted` and exactly `t` steps have run — nothing starts after the interrupt;
otherwise it returns OK.  Once the interrupt has been delivered, executing any program does
nothing and yields `interrupted`. -/
theorem C19_sequential_interrupt (t : Nat) (p : Prog) :
    ((exec t p {}).2.cancelled = true → (exec t p {}).1 = .int ∧ (exec t p {}).2.steps = t) ∧
    ((exec t p {}).2.cancelled = false → (exec t p {}).1 = .ok) ∧
    (∀ st, st.cancelled = true → exec t p st = (.int, st)) := by
  have ha := exec_agree t p {}
  have hw := exec_W t p {} (by unfold W; left; simp; omega)
  unfold Agree at ha
  refine ⟨fun hc => ⟨ha.mp hc, ?_⟩, fun hc => ?_, fun st h => exec_cancelled t p st h⟩
  · rcases hw with ⟨h, _⟩ | ⟨_, h⟩
    · simp [hc] at h
    · exact h
  · cases hr : (exec t p {}).1 with
    | ok => rfl
    | int => have := ha.mpr hr; simp [hc] at this

/-! ### non-vacuity -/

/-- `for i [(range 3)] { -vstep; try { -vstep } finally { -vstep } }` interrupted at step 4 -/
example : exec 4 (.loop 3 (.step (.tryFinally (.step .done) (.step .done) .done)) .done) {} =
    (.int, { steps := 4, cancelled := true }) := by decide


/-- an evaluation `range 2 | peach &num-workers=1 {…}` interrupted while a callback runs: the
interrupt arrives (`cancel`), `Acquire` fails, the callback's pipeline check aborts, `Eval`
returns the interrupted exception -/
def C19.sample : List Label :=
  [.cbegin true, .pstart 1 false false, .pform 1 false, .pform 1 false, .pbegin 2 (some 1) 2 false,
   .pformdone 1 false, .peach 2 (.chk1 false), .peach 2 .acqOk, .peach 2 (.chk2 false), .peach 2 .spawn,
   .peach 2 (.chk1 false), .peach 2 (.start 0), .cbegin false, .cancel, .pabort 3 false,
   .cexit false false .cexc, .peach 2 .acqErr, .peach 2 .eof, .peach 2 (.finish 0 .exc), .peach 2 (.mark 0),
   .peach 2 (.done 0), .peach 2 .waitRet, .peach 2 (.release 0), .pformdone 1 false, .pend 1 false,
   .cexit true false .cexc, .ret .int]

example : ∃ s, Run C19.sample s ∧ s.result = some .int ∧ s.pipes = [] ∧ s.cancelled = true ∧
    s.topExit = some (.cexc, true) :=
  ⟨_, run_of_replay rfl, rfl, rfl, rfl, rfl⟩

/-- a foreground pipeline start is enabled before the interrupt (hypothesis of theorem 1) -/
example : ∃ s s', Run (C19.sample.take 1) s ∧ step s (.pstart 1 false false) = some s' :=
  ⟨_, _, run_of_replay rfl, rfl⟩

/-- an uninterrupted evaluation returns OK -/
example : ∃ s, Run [.cbegin true, .pstart 1 false false, .pform 1 false, .sleepOk, .pformdone 1 false,
    .pend 1 false, .cexit true false .cok, .cancel, .ret .ok] s ∧ s.result = some .ok ∧
    s.topExit = some (.cok, false) :=
  ⟨_, run_of_replay rfl, rfl, rfl⟩
