import ElvProofs.C19.Inv
import ElvProofs.C19.Replay
import ElvProofs.C19.Interp
import ElvProofs.C19.Nested
import ElvProofs.C19.Signal
/-!
C19 — interrupting evaluation at any moment is handled cleanly.

The theorems quantify over ALL executions `C19.Run tr s` of the transition
system `C19.step` (ElvModel/C19/Model.lean): the environment label `cancel`
may occur at any position, pipelines, chunks, sleeps and any number of `peach`
calls (each an instance of the C20 system for the fixed code) interleave
arbitrarily.
-/
open C19

/-- (1) Once the interrupt is delivered no further foreground pipeline starts: whenever a
foreground pipeline passes its check, `cancel` has not occurred.  (Frames of background jobs have
their own context and are excluded, as the property says.) -/
theorem C19_no_foreground_pipeline_after_cancel (tr : List Label) (s s' : State) (pid : Nat) (opBg : Bool)
    (h : Run tr s) (hst : step s (.pstart pid false opBg) = some s') : Label.cancel ∉ tr := by
  intro hm
  have hc := (inv_cancelled h).mpr hm
  unfold step at hst
  split at hst
  · simp at hst
  · simp [hc] at hst

/-- (2) `Eval` returns an interrupted exception unless it had already finished: if the interrupt
was delivered before the top-level chunk ended, the result is not OK; it is exactly the interrupted
exception when the chunk ended at its own final check; and a result OK means the interrupt had not
been delivered when the top-level chunk ended. -/
theorem C19_interrupted_unless_finished (tr : List Label) (s : State) (r : Res) (h : Run tr s)
    (hr : s.result = some r) :
    ∃ e c, s.topExit = some (e, c) ∧ (c = true → r ≠ .ok) ∧ (e = .cint → r = .int) ∧ (r = .ok → c = false) := by
  obtain ⟨e, c, hte, hfit, _, _⟩ := inv_result h r hr
  obtain ⟨h1, h2⟩ := inv_topExit h e c hte
  refine ⟨e, c, hte, ?_, ?_, ?_⟩
  · intro hc hrok; subst hrok
    cases e <;> simp_all [fits]
  · intro he; subst he; cases r <;> simp_all [fits]
  · intro hrok; subst hrok
    cases e <;> simp_all [fits]

/-- (3) When `Eval` returns, everything it started has completed: no foreground pipeline is open
(every form, goroutine or inline, has signalled its WaitGroup and `Wait` has returned), and in
every foreground `peach` call no callback is running and every started callback has finished. -/
theorem C19_everything_finished_at_return (tr : List Label) (s : State) (r : Res) (h : Run tr s)
    (hr : s.result = some r) :
    s.pipes = [] ∧ ∀ i ∈ s.insts, i.bg = false →
      i.st.fpc = .ret ∧ i.st.running = 0 ∧
        ∃ ptr, C20.Run i.cfg ptr i.st ∧ ∀ j, 0 < ptr.count (.start j) → ∃ o, C20.Label.finish j o ∈ ptr := by
  obtain ⟨e, c, _, _, hp, hall⟩ := inv_result h r hr
  refine ⟨hp, fun i hi hbg => ?_⟩
  have hret : i.st.fpc = .ret := by
    have := List.all_eq_true.mp hall i hi
    simpa [hbg] using this
  obtain ⟨_, _, ptr, hrun⟩ := inv_insts h i hi
  obtain ⟨h1, h2⟩ := C20_return_after_all_finished i.cfg ptr i.st hrun hret
  exact ⟨hret, h1, ptr, hrun, h2⟩

/-- (4) A `peach` call with `&num-workers = K` never runs more than `K` callbacks at once in any
reachable state — before, while and after the interrupt is delivered — and never hits the
semaphore's "released more than held" panic. -/
theorem C19_bound_while_interrupted (tr : List Label) (s : State) (h : Run tr s) :
    ∀ i ∈ s.insts, ∀ K, i.cfg.k = some K → i.st.running ≤ K ∧ i.st.panicked = false := by
  intro i hi K hk
  obtain ⟨hca, _, ptr, hrun⟩ := inv_insts h i hi
  exact ⟨C20_running_le_bound i.cfg K ptr i.st hrun hk (Or.inl hca),
    C20_never_panics i.cfg ptr i.st hrun (Or.inl hca)⟩

/-- The unchanged tree ignores the error of `workerSema.Acquire(ctx, 1)`.  After `cancel` the
feeder spawns without a permit: two callbacks run with `&num-workers=1`, and the second worker's
`Release` finds the semaphore empty (`panic: semaphore: released more than held`).
(`harness/corpus/C19.txt` replays it on the real code.) -/
def C19.witness : List C20.Label :=
  [.chk1 false, .acqOk, .spawn, .start 0, .chk1 false, .cancel, .acqErr, .spawn, .start 1]

def C19.witnessPanic : List C20.Label :=
  C19.witness ++ [.finish 0 .exc, .mark 0, .done 0, .release 0, .finish 1 .exc, .mark 1, .done 1, .release 1]

/-- (4) is false for the unchanged code: the bound is exceeded and the process panics. -/
theorem C19_counterexample :
    ¬ (∀ (tr : List C20.Label) (s : C20.State), C20.Run (C20.unfixed (some 1) 2) tr s →
        s.running ≤ 1 ∧ s.panicked = false) := by
  intro hall
  have h1 : C20.Run (C20.unfixed (some 1) 2) C19.witness _ := C20.run_of_replay rfl
  have h2 : C20.Run (C20.unfixed (some 1) 2) C19.witnessPanic _ := C20.run_of_replay rfl
  have := (hall _ _ h1).1
  have := (hall _ _ h2).2
  simp_all [C20.State.running, C20.WPc.isRunning]

/-- (1)+(2) for the sequential fragment, through every nesting of loops, closure calls and
try/finally: if the interrupt is delivered (synchronously, at the `t`-th step) the evaluation
returns `interrupted` and exactly `t` steps have run — nothing starts after the interrupt;
otherwise it returns OK.  Once the interrupt has been delivered, executing any program does
nothing and yields `interrupted`. -/
theorem C19_sequential_interrupt (t : Nat) (p : Prog) :
    ((exec t p {}).2.cancelled = true → (exec t p {}).1 = .int ∧ (exec t p {}).2.steps = t) ∧
    ((exec t p {}).2.cancelled = false → (exec t p {}).1 = .ok) ∧
    (∀ st, st.cancelled = true → exec t p st = (.int, st)) := by
  have ha := exec_agree t p {}
  have hw := exec_W t p {} (by unfold W; left; simp; omega)
  unfold Agree at ha
  refine ⟨fun hc => ⟨ha.mp hc, ?_⟩, fun hc => ?_, fun st h => exec_cancelled t p st h⟩
  · rcases hw with ⟨h, _⟩ | ⟨_, h⟩
    · simp [hc] at h
    · exact h
  · cases hr : (exec t p {}).1 with
    | ok => rfl
    | int => have := ha.mpr hr; simp [hc] at this

/-! ### nested and concurrent constructs, asynchronous interrupt (`ElvModel/C19/Nested.lean`)

Programs: chunks of pipelines whose forms run concurrently (`par`), loops, closure calls,
try/finally, `sleep`, `peach` with overlapping callbacks — nested arbitrarily.  The interrupt is
delivered at an arbitrary time `T`; every interleaving is an assignment of time stamps
(`evP T p t0 r t1`: started at `t0`, the chunk can end at `t1` with result `r`). -/

/-- (2) at EVERY nesting depth, in every concurrent branch, for every delivery time and every
interleaving: a chunk (the top-level one evaluated by `Eval`, a closure body, a loop body, a
`peach` callback, a form of a pipeline) returns the interrupted exception if and only if the
interrupt had been delivered by the time the chunk ended (its final check, or the check / form that
aborted it).  In particular `Eval` never returns OK once the interrupt was delivered before the
top-level chunk ended, never returns an exception that is not `interrupted`, and returns OK when
the interrupt is never delivered. -/
theorem C19_nested_interrupt (T : Option Nat) (p : Chunk) (t0 t1 : Nat) (r : R) (h : evP T p t0 r t1) :
    t0 ≤ t1 ∧ (r = .int ↔ can T t1 = true) ∧ (r = .ok ↔ can T t1 = false) ∧ (T = none → r = .ok) := by
  obtain ⟨h1, h2⟩ := evP_agree T p t0 r t1 h
  refine ⟨h1, h2, ?_, ?_⟩
  · cases r <;> cases hc : can T t1 <;> simp_all
  · intro hT; subst hT
    cases r with
    | ok => rfl
    | int => have := h2.mp rfl; simp [can] at this

/-- A single command (pipeline form) — `sleep`, a loop, a closure call, try/finally, a nested
multi-form pipeline, `peach` — raises the interrupted exception only if the interrupt has been
delivered by the time it ends: no spurious `interrupted`, at any depth. -/
theorem C19_nested_no_spurious_interrupt (T : Option Nat) (c : Cmd) (t0 t1 : Nat) (r : R)
    (h : evC T c t0 r t1) : t0 ≤ t1 ∧ (r = .int → can T t1 = true) :=
  evC_sound T c t0 r t1 h

/-- The semantics is not empty: for every program, every start time and every delivery time the
executable schedule `runP` (everything back to back) is one of the executions. -/
theorem C19_nested_schedule_exists (T : Option Nat) (p : Chunk) (t : Nat) :
    evP T p t (runP T p t).1 (runP T p t).2 :=
  runP_ev T p t

/-- The sequential interpreter `exec` of `C19_sequential_interrupt` (the one the differential
`seq` ops compare with the real interpreter) is an instance of the nested semantics: every run of
it, with the interrupt delivered synchronously at the `t`-th step, is an execution of the embedded
program with delivery time `t` on the clock that counts steps. -/
theorem C19_nested_extends_sequential (t : Nat) (p : Prog) :
    evP (syncT t) (emb p) 0 (exec t p {}).1 (exec t p {}).2.steps := by
  have h : Wn t {} := ⟨by unfold W; left; simp; omega, by simp⟩
  exact exec_ev t p {} h

/-! ### real signals: `eval.ListenInterrupts` and the process-wide registration table of os/signal
(`ElvModel/C19/Signal.lean`)

State = the set of listeners (one per `ListenInterrupts` call) with their registration, the
shell's session-wide channel, the disposition of SIGINT / SIGQUIT.  `Sig.Run c` = all interleavings
of `listen`, `done`, the listener goroutines' `wakeSig` / `wakeDone` (followed by the cleanup `c`),
`session` / `unsession`, and `deliver` of a signal — the latter only while a handler is expected
(`Sig.expectsHandler`: session channel installed or the goroutine of some listener not finished). -/

/-- "Never crashes the interpreter", signal side.  With the cleanup of the code
(`signal.Stop(sigCh)`: removes the listener's own channel, never another) in every reachable state:
the process has not been killed by a signal and no signal was dropped; while the goroutine of ANY
listener has not finished, or the session channel is installed, the process HANDLES SIGINT and
SIGQUIT; so the next signal does not kill it either. -/
theorem C19_signal_handled_while_listener_live (tr : List Sig.Label) (s : Sig.State)
    (h : Sig.Run .stopOwn tr s) :
    (s.killed = none ∧ s.lost = 0) ∧
    (Sig.expectsHandler s → ∀ sg, Sig.handles s sg = true) ∧
    (Sig.expectsHandler s → ∀ sg s', Sig.step .stopOwn s (.deliver sg) = some s' →
      s'.killed = none ∧ s'.lost = 0) := by
  have hi := Sig.inv_run h
  refine ⟨⟨hi.alive, hi.lost⟩, fun he sg => Sig.handles_of_expected hi he sg, fun he sg s' hs => ?_⟩
  have hi' := Sig.inv_step hi (fun _ _ => he) hs
  exact ⟨hi'.alive, hi'.lost⟩

/-- `Stop` removes one registration, never others: the cleanup of listener `i` leaves the session
channel, the dispositions and every other listener exactly as they were. -/
theorem C19_signal_stop_removes_only_own (i : Nat) (s : Sig.State) :
    (Sig.cleanup .stopOwn i s).sess = s.sess ∧ (Sig.cleanup .stopOwn i s).ign = s.ign ∧
    ∀ l ∈ s.ls, l.id ≠ i → l ∈ (Sig.cleanup .stopOwn i s).ls := by
  refine ⟨rfl, rfl, fun l hl hne => ?_⟩
  simp only [Sig.cleanup, Sig.upd_eq_map]
  exact List.mem_map.mpr ⟨l, hl, by simp [hne]⟩

/-- A signal that arrives while listener `l` is live reaches it: `deliver` puts the signal in its
channel, its goroutine can take the `sigCh` branch, and then the context is cancelled by the signal
(`intr`) exactly if the evaluation had not returned yet — which, by `C19_nested_interrupt` with this
moment as the delivery time, makes `Eval` return the interrupted exception. -/
theorem C19_signal_interrupts_running (tr : List Sig.Label) (s : Sig.State) (h : Sig.Run .stopOwn tr s)
    (l : Sig.Lst) (hl : l ∈ s.ls) (hx : l.exited = false) (sg : Sig.Sg) :
    ∃ s1 s2 l2, Sig.step .stopOwn s (.deliver sg) = some s1 ∧
      Sig.step .stopOwn s1 (.wakeSig l.id) = some s2 ∧
      Sig.find l.id s2.ls = some l2 ∧ l2.intr = (!l.done) ∧ l2.exited = true := by
  have hi := Sig.inv_run h
  obtain ⟨s1, hs1, hk1, hf1⟩ := Sig.deliver_reaches hi hl hx sg
  obtain ⟨s2, hs2, hf2⟩ := Sig.wakeSig_intr (l1 := { l with pend := true }) hk1 hf1 rfl hx
  exact ⟨s1, s2, _, hs1, hs2, hf2, rfl, rfl⟩

/-- The script semantics of the `sig` ops (what the driver prints for them): with the cleanup of
the code no script ends `KILLED` — a token is executed or refused (`unhandled`: a signal while
nothing is supposed to handle it; `bad-script`). -/
theorem C19_signal_script_never_killed (ts : List Sig.Tok) (j : Nat) :
    Sig.runToks .stopOwn {} 0 ts ≠ .inr (j, .killed) :=
  Sig.runToks_not_killed ts {} 0 [] Sig.Run.init j

/-- The seeded change `signal.Reset(syscall.SIGINT, syscall.SIGQUIT)` in the cleanup (and its
sibling `signal.Ignore`) breaks exactly this.  (a) session channel installed, one evaluation ends,
its listener cleans up, Ctrl-C: the process is KILLED although the session channel is installed;
(b) two overlapping listeners, the second evaluation ends, Ctrl-C while the first one is still
running: KILLED while a listener is live; (c) with `Ignore` the process survives but the signal is
dropped and the running evaluation is never interrupted.  All three runs are guarded (a handler was
expected at every `deliver`).  `harness/corpus/C19.txt` replays the scripts on the real code. -/
theorem C19_signal_reset_counterexample :
    (∃ tr s, Sig.Run (.resetSigs Sig.Reg.all) tr s ∧ s.sess.isSome = true ∧ s.killed = some .int) ∧
    (∃ tr s, Sig.Run (.resetSigs Sig.Reg.all) tr s ∧
      (∃ l ∈ s.ls, l.exited = false ∧ l.done = false) ∧ s.killed = some .int) ∧
    (∃ tr s, Sig.Run (.ignoreSigs Sig.Reg.all) tr s ∧
      (∃ l ∈ s.ls, l.exited = false ∧ l.done = false ∧ l.pend = false) ∧ s.lost = 1) := by
  refine ⟨⟨[.session, .listen 1, .done 1, .wakeDone 1, .deliver .int], _,
      Sig.run_of_replayG rfl, rfl, rfl⟩,
    ⟨[.listen 1, .listen 2, .done 2, .wakeDone 2, .deliver .int], _,
      Sig.run_of_replayG rfl, ⟨_, List.mem_cons_of_mem _ List.mem_cons_self, rfl, rfl⟩, rfl⟩,
    ⟨[.listen 1, .listen 2, .done 2, .wakeDone 2, .deliver .int], _,
      Sig.run_of_replayG rfl, ⟨_, List.mem_cons_of_mem _ List.mem_cons_self, rfl, rfl, rfl⟩, rfl⟩⟩

/-- the same as scripts of the harness: `S B1:while I W1 Z I` (second Ctrl-C after the command
stopped) and `B1:while B2:gate F2 W2 Z I W1` (overlap), run with the three cleanups -/
example :
    (match Sig.runToks (.resetSigs Sig.Reg.all) {} 0 [.sess, .begin 1 false, .sig .int, .wait 1, .delay, .sig .int] with
      | .inr (5, .killed) => true | _ => false) = true ∧
    (match Sig.runToks (.resetSigs Sig.Reg.all) {} 0
        [.begin 1 false, .begin 2 true, .fin 2, .wait 2, .delay, .sig .int, .wait 1] with
      | .inr (5, .killed) => true | _ => false) = true ∧
    (match Sig.runToks .stopOwn {} 0 [.sess, .begin 1 false, .sig .int, .wait 1, .delay, .sig .int] with
      | .inl x => x.res == [(1, true)] && x.st.sessSeen == 2 | _ => false) = true ∧
    (match Sig.runToks .stopOwn {} 0
        [.begin 1 false, .begin 2 true, .fin 2, .wait 2, .delay, .sig .int, .wait 1] with
      | .inl x => x.res == [(2, false), (1, true)] | _ => false) = true := by
  refine ⟨?_, ?_, ?_, ?_⟩ <;> decide

/-- non-vacuity of the signal theorems: a guarded run of the code's cleanup with the session
channel, two overlapping listeners, one finishing, a SIGQUIT reaching the other -/
example : ∃ s, Sig.Run .stopOwn [.session, .listen 1, .listen 2, .done 2, .wakeDone 2, .deliver .quit,
      .wakeSig 1, .done 1, .deliver .int] s ∧ s.sessSeen = 2 ∧ s.killed = none ∧
    (Sig.find 1 s.ls).map (·.intr) = some true ∧ (Sig.find 2 s.ls).map (·.intr) = some false :=
  ⟨_, Sig.run_of_replayG rfl, rfl, rfl, rfl, rfl⟩

/-! ### non-vacuity -/

/-- `for i [(range 3)] { -vstep; try { -vstep } finally { -vstep } }` interrupted at step 4 -/
example : exec 4 (.loop 3 (.step (.tryFinally (.step .done) (.step .done) .done)) .done) {} =
    (.int, { steps := 4, cancelled := true }) := by decide


/-- an evaluation `range 2 | peach &num-workers=1 {…}` interrupted while a callback runs: the
interrupt arrives (`cancel`), `Acquire` fails, the callback's pipeline check aborts, `Eval`
returns the interrupted exception -/
def C19.sample : List Label :=
  [.cbegin true, .pstart 1 false false, .pform 1 false, .pform 1 false, .pbegin 2 (some 1) 2 false,
   .pformdone 1 false, .peach 2 (.chk1 false), .peach 2 .acqOk, .peach 2 (.chk2 false), .peach 2 .spawn,
   .peach 2 (.chk1 false), .peach 2 (.start 0), .cbegin false, .cancel, .pabort 3 false,
   .cexit false false .cexc, .peach 2 .acqErr, .peach 2 .eof, .peach 2 (.finish 0 .exc), .peach 2 (.mark 0),
   .peach 2 (.done 0), .peach 2 .waitRet, .peach 2 (.release 0), .pformdone 1 false, .pend 1 false,
   .cexit true false .cexc, .ret .int]

example : ∃ s, Run C19.sample s ∧ s.result = some .int ∧ s.pipes = [] ∧ s.cancelled = true ∧
    s.topExit = some (.cexc, true) :=
  ⟨_, run_of_replay rfl, rfl, rfl, rfl, rfl⟩

/-- a foreground pipeline start is enabled before the interrupt (hypothesis of theorem 1) -/
example : ∃ s s', Run (C19.sample.take 1) s ∧ step s (.pstart 1 false false) = some s' :=
  ⟨_, _, run_of_replay rfl, rfl⟩

/-- an uninterrupted evaluation returns OK -/
example : ∃ s, Run [.cbegin true, .pstart 1 false false, .pform 1 false, .sleepOk, .pformdone 1 false,
    .pend 1 false, .cexit true false .cok, .cancel, .ret .ok] s ∧ s.result = some .ok ∧
    s.topExit = some (.cok, false) :=
  ⟨_, run_of_replay rfl, rfl, rfl⟩

/-- `peach {|_| for _ [1 2] { { -vstep } | { sleep; -vstep } } } [1 2]`, interrupt delivered at
time 5 (inside the first callback's second loop round): the executable schedule ends `interrupted`;
delivered at time 50 (after the end) or never: OK -/
def C19.sampleN : Chunk :=
  .pipe (.peach 2 (.pipe (.loop 2 (.pipe (.par (.call (.pipe .step .done))
    (.call (.pipe .sleep (.pipe .step .done)))) .done)) .done)) .done

example : runP (some 5) C19.sampleN 0 = (.int, 8) ∧ runP (some 50) C19.sampleN 0 = (.ok, 46) ∧
    runP none C19.sampleN 0 = (.ok, 46) := by decide

example : evP (some 5) C19.sampleN 0 .int 8 := by
  have h := C19_nested_schedule_exists (some 5) C19.sampleN 0
  rwa [show runP (some 5) C19.sampleN 0 = (.int, 8) by decide] at h

/-- a genuinely overlapping execution of `sleep | -vstep`: both forms start at time 1, the step
ends at 2, the interrupt arrives at 2, the sleep notices it and ends at 3; the pipeline's error is
`interrupted` and so is the chunk's (hypotheses of `C19_nested_interrupt` /
`C19_nested_no_spurious_interrupt` with real concurrency) -/
example : evP (some 2) (.pipe (.par .sleep .step) .done) 0 .int 3 := by
  simp only [evP]
  refine ⟨0, Nat.le_refl _, Or.inr ⟨by decide, .int, 3, ?_, Or.inl ⟨by simp, rfl, rfl⟩⟩⟩
  simp only [evC]
  exact ⟨1, .int, 3, 1, .ok, 2, by omega, by omega, by omega, by omega,
    ⟨by omega, fun _ => by decide⟩, ⟨by omega, rfl⟩, rfl⟩

/-- the same pipeline when the interrupt arrives only after both forms and the final check: OK -/
example : evP (some 9) (.pipe (.par .sleep .step) .done) 0 .ok 4 := by
  simp only [evP]
  refine ⟨0, Nat.le_refl _, Or.inr ⟨by decide, .ok, 3, ?_, Or.inr ⟨rfl, by omega, by decide⟩⟩⟩
  simp only [evC]
  exact ⟨1, .ok, 3, 1, .ok, 2, by omega, by omega, by omega, by omega,
    ⟨by omega, fun h => by cases h⟩, ⟨by omega, rfl⟩, rfl⟩

/-- the sequential sample of `C19_sequential_interrupt` seen through the nested semantics -/
example : evP (syncT 4) (emb (.loop 3 (.step (.tryFinally (.step .done) (.step .done) .done)) .done)) 0 .int 4 := by
  have h := C19_nested_extends_sequential 4 (.loop 3 (.step (.tryFinally (.step .done) (.step .done) .done)) .done)
  rwa [show exec 4 (.loop 3 (.step (.tryFinally (.step .done) (.step .done) .done)) .done) {} =
    (.int, { steps := 4, cancelled := true }) by decide] at h
