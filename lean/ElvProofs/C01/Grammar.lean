/-
Specifications of the grammar functions: given that the recursive calls
return well-formed nodes (`RecSpec`), every body keeps the tiling invariant,
hence `wrap` returns a well-formed node, hence (induction on fuel) `parseNT`
does.
-/
import ElvProofs.C01.Builder
namespace C01
open Go
open Gen.C01Chars

/-- precondition of `parse(ps, n)`: a `Redir` literal with a left operand gets
an operand that was just parsed (ends at `pos`). -/
def NTPre (e : Env) (nt : NT) (s : St) : Prop :=
  match nt with
  | .redir (some l) => WF e.src l ∧ l.to = s.pos
  | _ => True

/-- where the node returned by `parse(ps, n)` starts -/
def NTFrm (nt : NT) (s : St) : Nat :=
  match nt with
  | .redir (some l) => l.frm
  | _ => s.pos

def NodePost (e : Env) (nt : NT) (s : St) (n : Node) (s' : St) : Prop :=
  Fwd e s s' ∧ WF e.src n ∧ n.to = s'.pos ∧ n.frm = NTFrm nt s

/-- what is assumed of the recursive calls -/
def RecSpec (e : Env) (rec : NT → M Node) : Prop :=
  ∀ nt s, Inv e s → NTPre e nt s → Ok (rec nt e s) (NodePost e nt s)

theorem Ok.bpost {α} {d d2 : Nat} {e : Env} {nb nb1 : NB} {s s1 : St} {o : Out α} {f : α → NB}
    (h1 : BPostD d e nb s nb1 s1) (h : Ok o (fun a s' => BPostD d2 e nb1 s1 (f a) s')) :
    Ok o (fun a s' => BPostD d e nb s (f a) s') :=
  h.mono (fun _ _ h2 => h1.trans h2)

section
variable {e : Env} {rec : NT → M Node}

/-- parse a child where the builder stands and add it -/
theorem child_add (hrec : RecSpec e rec) (nt : NT) {nb : NB} {s : St} (hpre : NTPre e nt s)
    (hfrm : NTFrm nt s = s.pos) (h : BInv e nb s) :
    Ok (rec nt e s) (fun n s' => BPost e nb s (nb.add n) s') :=
  (hrec nt s h.inv hpre).mono (fun _ _ ⟨hf, hw, hto, hfr⟩ =>
    ⟨BInv.add h hf.1 hw (hfr.trans hfrm) hto, rfl, hf.2⟩)

theorem parseSepsLoop_spec : ∀ (n k : Nat) (nb : NB) (s : St), BInv e nb s →
    Ok (parseSepsLoop n k nb e s) (fun p s' => BPost e nb s p.2 s')
  | 0, _, _, _, _ => Ok_fuel
  | n + 1, k, nb, s, h => by
    unfold parseSepsLoop
    rw [bind_of_eq (peek_eq h.inv)]
    split
    · refine Ok_bind (parseSep_spec _ h) ?_
      intro ⟨_, nb1⟩ s1 b1
      exact (parseSepsLoop_spec n _ nb1 s1 b1.1).bpost b1
    split
    · refine Ok_bind (parseSpaces_spec h) ?_
      intro nb1 s1 b1
      exact (parseSepsLoop_spec n _ nb1 s1 b1.1).bpost b1
    · exact Ok_pure (BPost.refl h)

theorem parseSeps_spec {nb : NB} {s : St} (h : BInv e nb s) :
    Ok (parseSeps nb e s) (fun p s' => BPost e nb s p.2 s') := by
  unfold parseSeps
  rw [bind_of_eq (loopFuel_eq _ _)]
  exact parseSepsLoop_spec _ _ _ _ h

theorem chunkLoop_spec (hrec : RecSpec e rec) : ∀ (n : Nat) (nb : NB) (s : St), BInv e nb s →
    Ok (chunkLoop rec n nb e s) (fun nb' s' => BPost e nb s nb' s')
  | 0, _, _, _ => Ok_fuel
  | n + 1, nb, s, h => by
    unfold chunkLoop
    rw [bind_of_eq (getEnv_eq _ _), bind_of_eq (peek_eq h.inv)]
    split
    · refine Ok_bind (child_add hrec .pipeline trivial rfl h) ?_
      intro p s1 b1
      refine Ok_bind (parseSeps_spec b1.1) ?_
      intro ⟨k, nb2⟩ s2 b2
      simp only []
      split
      · exact Ok_pure (b1.trans b2)
      · exact (chunkLoop_spec hrec n nb2 s2 b2.1).bpost (b1.trans b2)
    · exact Ok_pure (BPost.refl h)

theorem chunkBody_spec (hrec : RecSpec e rec) {nb : NB} {s : St} (h : BInv e nb s) :
    Ok (chunkBody rec nb e s) (fun nb' s' => BPost e nb s nb' s') := by
  unfold chunkBody
  refine Ok_bind (parseSeps_spec h) ?_
  intro ⟨_, nb1⟩ s1 b1
  simp only []
  rw [bind_of_eq (loopFuel_eq _ _)]
  exact (chunkLoop_spec hrec _ nb1 s1 b1.1).bpost b1

theorem pipelineLoop_spec (hrec : RecSpec e rec) : ∀ (n : Nat) (nb : NB) (s : St), BInv e nb s →
    Ok (pipelineLoop rec n nb e s) (fun p s' => BPost e nb s p.2 s')
  | 0, _, _, _ => Ok_fuel
  | n + 1, nb, s, h => by
    unfold pipelineLoop
    rw [bind_of_eq (getEnv_eq _ _)]
    refine Ok_bind (parseSep_spec _ h) ?_
    intro ⟨ok, nb1⟩ s1 b1
    simp only []
    split
    · refine Ok_bind (parseSpacesAndNewlines_spec b1.1) ?_
      intro nb2 s2 b2
      have b12 := b1.trans b2
      rw [bind_of_eq (peek_eq b2.1.inv)]
      split
      · rw [bind_of_eq (error_eq b2.1.inv _)]
        exact Ok_pure ⟨⟨errSt_inv b2.1.inv _, b2.1.wfs, b2.1.consec, b2.1.sync⟩, b12.2.1, b12.2.2⟩
      · refine Ok_bind (child_add hrec .form trivial rfl b2.1) ?_
        intro f s3 b3
        exact (pipelineLoop_spec hrec n _ s3 b3.1).bpost (b12.trans b3)
    · exact Ok_pure b1

/-- recording an error does not disturb the builder -/
theorem BPostD.err {d : Nat} {nb nb' : NB} {s s' : St} (h : BPostD d e nb s nb' s') (m : Msg) :
    BPostD d e nb s nb' (errSt e s' m) :=
  ⟨⟨errSt_inv h.1.inv _, h.1.wfs, h.1.consec, h.1.sync⟩, h.2.1, h.2.2⟩

theorem BInv.err {nb : NB} {s : St} (h : BInv e nb s) (m : Msg) : BInv e nb (errSt e s m) :=
  ⟨errSt_inv h.inv _, h.wfs, h.consec, h.sync⟩

/-- changing the fields only -/
theorem BPostD.setf {d : Nat} {nb nb' : NB} {s s' : St} (h : BPostD d e nb s nb' s') (f : Fields) :
    BPostD d e nb s { nb' with f := f } s' :=
  ⟨h.1.congr rfl rfl, h.2.1, h.2.2⟩

theorem pipelineBody_specD {d : Nat} (hrec : RecSpec e rec) {nb : NB} {s : St}
    (hfirst : Ok (rec .form e s) (fun f s' => BPostD d e nb s (nb.add f) s')) :
    Ok (pipelineBody rec nb e s) (fun nb' s' => BPostD d e nb s nb' s') := by
  unfold pipelineBody
  refine Ok_bind hfirst ?_
  intro f s1 b1
  rw [bind_of_eq (loopFuel_eq _ _)]
  refine Ok_bind ((pipelineLoop_spec hrec _ _ s1 b1.1).bpost b1) ?_
  intro ⟨returned, nb2⟩ s2 b2
  simp only []
  split
  · exact Ok_pure b2
  · refine Ok_bind ((parseSpaces_spec b2.1).bpost b2) ?_
    intro nb3 s3 b3
    rw [bind_of_eq (peek_eq b3.1.inv)]
    split
    · rw [bind_of_eq (next_eq b3.1.inv)]
      have f4 := nextSt_fwd b3.1.inv
      refine Ok_bind (addSep_spec (BPre.of_fwd b3.1 f4)) ?_
      intro nb4 s4 ⟨hs, hb, hf⟩
      subst hs
      have b4 : BPostD d e nb s nb4 (nextSt e s3) := b3.trans (d2 := 0) ⟨hb, hf, f4.2⟩
      exact (parseSpaces_spec (nb := { nb4 with f := { nb4.f with flag := true } }) (hb.congr rfl rfl)).bpost
        (b4.setf _)
    · exact Ok_pure b3

theorem setMode_spec {nb : NB} {s : St} (sign : Bytes) (h : Inv e s) :
    Ok (setMode nb sign e s)
      (fun nb' s' => Fwd e s s' ∧ s'.pos = s.pos ∧ nb'.frm = nb.frm ∧ nb'.children = nb.children) := by
  unfold setMode
  cases redirMode sign with
  | some m => exact Ok_pure ⟨Fwd.refl h, rfl, rfl, rfl⟩
  | none =>
    show Ok ((error Msg.badRedirSign >>= fun _ => pure nb) e s) _
    rw [bind_of_eq (error_eq h _)]
    exact Ok_pure ⟨errSt_fwd h _, rfl, rfl, rfl⟩

theorem pipelineBody_spec (hrec : RecSpec e rec) {nb : NB} {s : St} (h : BInv e nb s) :
    Ok (pipelineBody rec nb e s) (fun nb' s' => BPost e nb s nb' s') :=
  pipelineBody_specD hrec (child_add hrec .form trivial rfl h)

theorem redirRest_specD {d : Nat} (hrec : RecSpec e rec) {nb1 : NB} {s : St} (hb1 : BInv e nb1 s)
    (hskip : Ok (skipWhile isRedirSign (e.src.length + 2) e s) (fun _ s' => Fwd e s s' ∧ s.pos + d ≤ s'.pos)) :
    Ok (redirRest rec nb1 e s) (fun nb' s' => BPostD d e nb1 s nb' s') := by
  unfold redirRest
  rw [bind_of_eq (getPos_eq _ _), bind_of_eq (loopFuel_eq _ _)]
  refine Ok_bind hskip ?_
  intro _ s2 ⟨f2, hd2⟩
  rw [bind_of_eq (getPos_eq _ _), bind_of_eq (sliceSrc_eq f2.2 f2.1.le)]
  refine Ok_bind (setMode_spec _ f2.1) ?_
  intro nb2 s3 ⟨f3, hp3, hf2, hc2⟩
  have hb2 : BInv e nb2 s := hb1.congr hf2 hc2
  have f23 := f2.trans f3
  refine Ok_bind (addSep_spec (BPre.of_fwd hb2 f23)) ?_
  intro nb3 s3' ⟨hs, hb3, hf3⟩
  subst hs
  refine Ok_bind (parseSpaces_spec hb3) ?_
  intro nb4 s4 b4
  refine Ok_bind (parseSep_spec _ b4.1) ?_
  intro ⟨isFd, nb5⟩ s5 b5
  simp only []
  generalize hnb6 : (if isFd = true then ({ nb5 with f := { nb5.f with flag := true } } : NB) else nb5) = nb6
  have hb6 : BInv e nb6 s5 ∧ nb6.frm = nb5.frm := by
    subst hnb6; split
    · exact ⟨b5.1.congr rfl rfl, rfl⟩
    · exact ⟨b5.1, rfl⟩
  refine Ok_bind (child_add hrec (.compound NormalExpr) trivial rfl hb6.1) ?_
  intro right s6 b6
  have hfin : (nb6.add right).frm = nb1.frm := by
    show nb6.frm = nb1.frm
    rw [hb6.2, b5.2.1, b4.2.1, hf3, hf2]
  have hpos : s.pos + d ≤ s6.pos := by
    have := f3.2; have := b4.2.2; have := b5.2.2; have := b6.2.2; omega
  split
  · split
    · rw [bind_of_eq (error_eq b6.1.inv _)]
      exact Ok_pure ⟨b6.1.err _, hfin, hpos⟩
    · rw [bind_of_eq (error_eq b6.1.inv _)]
      exact Ok_pure ⟨b6.1.err _, hfin, hpos⟩
  · exact Ok_pure ⟨b6.1, hfin, hpos⟩

theorem redirRest_spec (hrec : RecSpec e rec) {nb1 : NB} {s : St} (hb1 : BInv e nb1 s) :
    Ok (redirRest rec nb1 e s) (fun nb' s' => BPost e nb1 s nb' s') :=
  redirRest_specD hrec hb1 ((skipWhile_spec _ _ _ hb1.inv).mono (fun _ _ f => ⟨f, f.2⟩))

theorem redirBody_spec (hrec : RecSpec e rec) (left : Option Node) {nb : NB} {s : St}
    (h : BInv e nb s) (hnil : nb.children = []) (hfrm : nb.frm = s.pos)
    (hpre : NTPre e (.redir left) s) :
    Ok (redirBody rec left nb e s)
      (fun nb' s' => BInv e nb' s' ∧ nb'.frm = NTFrm (.redir left) s ∧ s.pos ≤ s'.pos) := by
  unfold redirBody
  have hb1 : BInv e (attachLeft left nb) s ∧ (attachLeft left nb).frm = NTFrm (.redir left) s := by
    cases left with
    | none => exact ⟨h, hfrm⟩
    | some l =>
      obtain ⟨hw, hto⟩ := hpre
      refine ⟨⟨h.inv, ?_, ?_, ?_⟩, rfl⟩
      · show WFs e.src (nb.children ++ [l]); rw [hnil]; exact ⟨hw, trivial⟩
      · show Consec l.frm (nb.children ++ [l]); rw [hnil]; exact ⟨rfl, trivial⟩
      · show endOf l.frm (nb.children ++ [l]) = s.pos; rw [hnil]; exact hto
  exact (redirRest_spec hrec hb1.1).mono (fun nb' s' b => ⟨b.1, b.2.1.trans hb1.2, b.2.2⟩)

/-- add a child, then `parseSpaces`/`parseSpacesAndNewlines` -/
theorem add_spaces {d : Nat} (nl : Bool) {nb : NB} {s s1 : St} {n : Node} (b1 : BPostD d e nb s (nb.add n) s1) :
    Ok (parseSpacesInner (nb.add n) nl e s1) (fun nb' s' => BPostD d e nb s nb' s') :=
  (parseSpacesInner_spec nl b1.1).bpost b1

theorem formLoop_spec (hrec : RecSpec e rec) : ∀ (n : Nat) (nb : NB) (s : St), BInv e nb s →
    Ok (formLoop rec n nb e s) (fun nb' s' => BPost e nb s nb' s')
  | 0, _, _, _ => Ok_fuel
  | n + 1, nb, s, h => by
    unfold formLoop
    rw [bind_of_eq (getEnv_eq _ _), bind_of_eq (peek_eq h.inv)]
    split
    · rw [bind_of_eq (next_eq h.inv), bind_of_eq (peek_eq (nextSt_inv h.inv))]
      rw [bind_of_eq (backup_nextSt h.inv)]
      split
      · exact Ok_pure (BPost.refl h)
      · refine Ok_bind (child_add hrec .mapPair trivial rfl h) ?_
        intro mp s1 b1
        refine Ok_bind (add_spaces false b1) ?_
        intro nb2 s2 b2
        exact (formLoop_spec hrec n nb2 s2 b2.1).bpost b2
    split
    · refine Ok_bind (hrec (.compound NormalExpr) s h.inv trivial) ?_
      intro cn s1 ⟨f1, hw1, hto1, hfrm1⟩
      rw [bind_of_eq (peek_eq f1.1)]
      split
      · refine Ok_bind (hrec (.redir (some cn)) s1 f1.1 ⟨hw1, hto1⟩) ?_
        intro rd s2 ⟨f2, hw2, hto2, hfrm2⟩
        have b2 : BPost e nb s (nb.add rd) s2 :=
          ⟨BInv.add h f2.1 hw2 (hfrm2.trans hfrm1) hto2, rfl, (f1.trans f2).2⟩
        refine Ok_bind (add_spaces false b2) ?_
        intro nb3 s3 b3
        exact (formLoop_spec hrec n nb3 s3 b3.1).bpost b3
      · have b1 : BPost e nb s (nb.add cn) s1 := ⟨BInv.add h f1.1 hw1 hfrm1 hto1, rfl, f1.2⟩
        refine Ok_bind (add_spaces false b1) ?_
        intro nb3 s3 b3
        exact (formLoop_spec hrec n nb3 s3 b3.1).bpost b3
    split
    · refine Ok_bind (child_add hrec (.redir none) trivial rfl h) ?_
      intro rd s1 b1
      refine Ok_bind (add_spaces false b1) ?_
      intro nb2 s2 b2
      exact (formLoop_spec hrec n nb2 s2 b2.1).bpost b2
    · exact Ok_pure (BPost.refl h)

theorem formBody_spec (hrec : RecSpec e rec) {nb : NB} {s : St} (h : BInv e nb s) :
    Ok (formBody rec nb e s) (fun nb' s' => BPost e nb s nb' s') := by
  unfold formBody
  refine Ok_bind (child_add hrec (.compound CmdExpr) trivial rfl h) ?_
  intro hd s1 b1
  refine Ok_bind (add_spaces false b1) ?_
  intro nb2 s2 b2
  rw [bind_of_eq (loopFuel_eq _ _)]
  exact (formLoop_spec hrec _ nb2 s2 b2.1).bpost b2

theorem filterLoop_spec (hrec : RecSpec e rec) : ∀ (n : Nat) (nb : NB) (s : St), BInv e nb s →
    Ok (filterLoop rec n nb e s) (fun nb' s' => BPost e nb s nb' s')
  | 0, _, _, _ => Ok_fuel
  | n + 1, nb, s, h => by
    unfold filterLoop
    rw [bind_of_eq (getEnv_eq _ _), bind_of_eq (peek_eq h.inv)]
    split
    · refine Ok_bind (child_add hrec .mapPair trivial rfl h) ?_
      intro mp s1 b1
      refine Ok_bind (add_spaces false b1) ?_
      intro nb2 s2 b2
      exact (filterLoop_spec hrec n nb2 s2 b2.1).bpost b2
    split
    · refine Ok_bind (child_add hrec (.compound NormalExpr) trivial rfl h) ?_
      intro c s1 b1
      refine Ok_bind (add_spaces false b1) ?_
      intro nb2 s2 b2
      exact (filterLoop_spec hrec n nb2 s2 b2.1).bpost b2
    · exact Ok_pure (BPost.refl h)

theorem filterBody_spec (hrec : RecSpec e rec) {nb : NB} {s : St} (h : BInv e nb s) :
    Ok (filterBody rec nb e s) (fun nb' s' => BPost e nb s nb' s') := by
  unfold filterBody
  refine Ok_bind (parseSpaces_spec h) ?_
  intro nb1 s1 b1
  rw [bind_of_eq (loopFuel_eq _ _)]
  exact (filterLoop_spec hrec _ nb1 s1 b1.1).bpost b1

theorem arrayLoop_spec (hrec : RecSpec e rec) : ∀ (n : Nat) (nb : NB) (s : St), BInv e nb s →
    Ok (arrayLoop rec n nb e s) (fun nb' s' => BPost e nb s nb' s')
  | 0, _, _, _ => Ok_fuel
  | n + 1, nb, s, h => by
    unfold arrayLoop
    rw [bind_of_eq (getEnv_eq _ _), bind_of_eq (peek_eq h.inv)]
    split
    · refine Ok_bind (child_add hrec (.compound NormalExpr) trivial rfl h) ?_
      intro c s1 b1
      refine Ok_bind (add_spaces true b1) ?_
      intro nb2 s2 b2
      exact (arrayLoop_spec hrec n nb2 s2 b2.1).bpost b2
    · exact Ok_pure (BPost.refl h)

theorem arrayBody_spec (hrec : RecSpec e rec) {nb : NB} {s : St} (h : BInv e nb s) :
    Ok (arrayBody rec nb e s) (fun nb' s' => BPost e nb s nb' s') := by
  unfold arrayBody
  refine Ok_bind (parseSpacesAndNewlines_spec h) ?_
  intro nb1 s1 b1
  rw [bind_of_eq (loopFuel_eq _ _)]
  exact (arrayLoop_spec hrec _ nb1 s1 b1.1).bpost b1

theorem indexingLoop_spec (hrec : RecSpec e rec) : ∀ (n : Nat) (nb : NB) (s : St), BInv e nb s →
    Ok (indexingLoop rec n nb e s) (fun nb' s' => BPost e nb s nb' s')
  | 0, _, _, _ => Ok_fuel
  | n + 1, nb, s, h => by
    unfold indexingLoop
    rw [bind_of_eq (getEnv_eq _ _)]
    refine Ok_bind (parseSep_spec _ h) ?_
    intro ⟨ok, nb1⟩ s1 b1
    simp only []
    split
    · rw [bind_of_eq (peek_eq b1.1.inv)]
      refine Ok_bind (P := fun _ s2 => BPost e nb s nb1 s2) ?_ ?_
      · split
        · exact Ok_of_eq (error_eq b1.1.inv _) (b1.err _)
        · exact Ok_pure b1
      intro _ s2 b2
      refine Ok_bind ((child_add hrec .array trivial rfl b2.1).bpost b2) ?_
      intro a s3 b3
      refine Ok_bind ((parseSep_spec _ b3.1).bpost b3) ?_
      intro ⟨ok2, nb4⟩ s4 b4
      simp only []
      split
      · rw [bind_of_eq (error_eq b4.1.inv _)]
        exact Ok_pure (b4.err _)
      · exact (indexingLoop_spec hrec n nb4 s4 b4.1).bpost b4
    · exact Ok_pure b1

theorem indexingBody_spec (hrec : RecSpec e rec) {nb : NB} {s : St} (h : BInv e nb s) :
    Ok (indexingBody rec nb e s) (fun nb' s' => BPost e nb s nb' s') := by
  unfold indexingBody
  refine Ok_bind (child_add hrec (.primary nb.f.ctx) trivial rfl h) ?_
  intro hd s1 b1
  rw [bind_of_eq (loopFuel_eq _ _)]
  exact (indexingLoop_spec hrec _ _ s1 b1.1).bpost b1

/-- An ASCII rune seen by `peek` is one byte of the source, and `next` steps over it. -/
theorem peek_ascii {s : St} (h : Inv e s) {c : Nat} (hc : peekRune e s = (c : Int)) (h128 : c < 128) :
    (nextSt e s).pos = s.pos + 1 ∧ srcSlice e.src s.pos (s.pos + 1) = [UInt8.ofNat c] := by
  have hne : s.pos ≠ e.src.length := by
    intro heq
    have := peekRune_eof.mpr heq
    rw [this] at hc; simp [eof] at hc
  have hlt : s.pos < e.src.length := Nat.lt_of_le_of_ne h.le hne
  unfold peekRune at hc
  simp only [hne, if_false] at hc
  have hc' : (decodeRune (e.src.drop s.pos)).1 = c := by exact_mod_cast hc
  match hd : e.src.drop s.pos with
  | [] => exact absurd hd (drop_ne_nil hlt)
  | b :: t =>
    rw [hd] at hc'
    obtain ⟨hb, hsz⟩ := decodeRune_ascii b t (by rw [hc']; exact h128)
    constructor
    · unfold nextSt; simp only [hne, if_false, hd, hsz]
    · unfold srcSlice
      rw [hd]
      have : s.pos + 1 - s.pos = 1 := by omega
      rw [this]
      simp only [List.take_succ_cons, List.take_zero]
      congr 1
      rw [← hc', hb]
      simp

theorem tilde_spec {nb : NB} {s : St} (h : BInv e nb s) :
    Ok (tilde nb e s) (fun nb' s' => BPost e nb s nb' s') := by
  unfold tilde
  rw [bind_of_eq (peek_eq h.inv)]
  split
  · next hc =>
    have hc' : peekRune e s = ((126 : Nat) : Int) := by simpa using hc
    obtain ⟨hp, htxt⟩ := peek_ascii h.inv hc' (by omega)
    have h1 := nextSt_inv h.inv
    rw [bind_of_eq (next_eq h.inv), bind_of_eq (getPos_eq _ _)]
    have : 1 ≤ (nextSt e s).pos := by omega
    simp only [this, if_true]
    refine Ok_pure ⟨BInv.add h h1 ?_ ?_ rfl, rfl, by omega⟩
    · have hsub : (nextSt e s).pos - 1 = s.pos := by omega
      have htxt' : ([126] : Bytes) = srcSlice e.src s.pos (nextSt e s).pos := by rw [hp, htxt]; rfl
      have hle := h1.le
      simp only [WF, WFs, hsub, Consec, endOf, Node.frm, Node.to, and_true, true_or]
      refine ⟨by omega, hle, htxt', Or.inr trivial, by omega, hle, htxt'⟩
    · show (nextSt e s).pos - 1 = s.pos
      omega
  · exact Ok_pure (BPost.refl h)

theorem compoundLoop_spec (hrec : RecSpec e rec) (ctx : Int) : ∀ (n : Nat) (nb : NB) (s : St), BInv e nb s →
    Ok (compoundLoop rec ctx n nb e s) (fun nb' s' => BPost e nb s nb' s')
  | 0, _, _, _ => Ok_fuel
  | n + 1, nb, s, h => by
    unfold compoundLoop
    rw [bind_of_eq (getEnv_eq _ _), bind_of_eq (peek_eq h.inv)]
    split
    · refine Ok_bind (child_add hrec (.indexing ctx) trivial rfl h) ?_
      intro i s1 b1
      exact (compoundLoop_spec hrec ctx n _ s1 b1.1).bpost b1
    · exact Ok_pure (BPost.refl h)

theorem compoundBody_spec (hrec : RecSpec e rec) {nb : NB} {s : St} (h : BInv e nb s) :
    Ok (compoundBody rec nb e s) (fun nb' s' => BPost e nb s nb' s') := by
  unfold compoundBody
  refine Ok_bind (tilde_spec h) ?_
  intro nb1 s1 b1
  rw [bind_of_eq (loopFuel_eq _ _)]
  exact (compoundLoop_spec hrec _ _ nb1 s1 b1.1).bpost b1

theorem mapPairBody_specD {d : Nat} (hrec : RecSpec e rec) {nb : NB} {s : St}
    (hfirst : Ok (parseSep nb 38 e s) (fun p s' => BPostD d e nb s p.2 s')) :
    Ok (mapPairBody rec nb e s) (fun nb' s' => BPostD d e nb s nb' s') := by
  unfold mapPairBody
  refine Ok_bind hfirst ?_
  intro ⟨_, nb1⟩ s1 b1
  simp only []
  refine Ok_bind ((child_add hrec (.compound LHSExpr) trivial rfl b1.1).bpost b1) ?_
  intro key s2 b2
  refine Ok_bind (P := fun _ s3 => BPostD d e nb s (nb1.add key) s3) ?_ ?_
  · split
    · exact Ok_of_eq (error_eq b2.1.inv _) (b2.err _)
    · exact Ok_pure b2
  intro _ s3 b3
  refine Ok_bind ((parseSep_spec _ b3.1).bpost b3) ?_
  intro ⟨ok, nb4⟩ s4 b4
  simp only []
  split
  · refine Ok_bind ((parseSpacesAndNewlines_spec b4.1).bpost b4) ?_
    intro nb5 s5 b5
    refine Ok_bind ((child_add hrec (.compound NormalExpr) trivial rfl b5.1).bpost b5) ?_
    intro v s6 b6
    exact Ok_pure b6
  · exact Ok_pure b4

theorem mapPairBody_spec (hrec : RecSpec e rec) {nb : NB} {s : St} (h : BInv e nb s) :
    Ok (mapPairBody rec nb e s) (fun nb' s' => BPost e nb s nb' s') :=
  mapPairBody_specD hrec (parseSep_spec _ h)

end
end C01
