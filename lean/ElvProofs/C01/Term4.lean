/-
Termination, part 4: `Primary`, the dispatch, the wrapper, `parseNT`, and the
entry points: with the default fuel the parser never answers FUEL.
-/
import ElvProofs.C01.Term3
namespace C01
open Go
open Gen.C01Chars

section
variable {e : Env} {rec : NT → M Node} {N : Nat}

/-- closing-delimiter idiom: NF -/
theorem close_nf {d : Nat} {nb nb1 : NB} {s s1 : St} (sep : Int) (m : Msg) (b1 : BPostD d e nb s nb1 s1) :
    NF ((parseSep nb1 sep >>= fun p => if (!p.1) = true then (error m >>= fun _ => pure p.2) else pure p.2) e s1) := by
  refine NF_bind (parseSep_spec sep b1.1) (parseSep_nf sep b1.1) ?_
  intro ⟨ok, nb2⟩ s2 b2
  simp only []
  split
  · exact NF_bind' (NF_of_eq (error_eq b2.1.inv _)) (fun _ _ => NF_pure)
  · exact NF_pure

theorem exitusCapture_nf (hrec : RecSpec e rec) (hnf : RecNF e rec N) {nb : NB} {s : St} (h : BInv e nb s)
    (hp : s.pos ≠ e.src.length) (hN : 7 * rem e s ≤ N) : NF (exitusCapture rec nb e s) := by
  unfold exitusCapture
  have h1 := nextSt_inv h.inv
  have hp1 := nextSt_progress h.inv hp
  have f2 := (nextSt_fwd h.inv).trans (nextSt_fwd h1)
  have r2 : rem e (nextSt e (nextSt e s)) + 1 ≤ rem e s := by
    have := (nextSt_inv h1).le; have := (nextSt_fwd h1).2; unfold rem; omega
  rw [bind_of_eq (next_eq h.inv), bind_of_eq (next_eq h1)]
  have hpre := BPre.of_fwd h f2
  refine NF_bind (addSep_spec hpre) (addSep_nf hpre) ?_
  intro nb1 s2 ⟨hs, hb, hf⟩
  subst hs
  have b1 : BPost e nb s (nb1.setType ExceptionCapture) (nextSt e (nextSt e s)) := ⟨hb.settype _, hf, f2.2⟩
  refine NF_bind ((child_add hrec .chunk trivial rfl b1.1).bpost b1)
    (hnf .chunk _ b1.1.inv trivial (by show 7 * rem e _ + 6 < N; omega)) ?_
  intro c s3 b3
  exact close_nf _ _ b3

theorem outputCapture_nf (hrec : RecSpec e rec) (hnf : RecNF e rec N) {nb : NB} {s : St} (h : BInv e nb s)
    (hpk : peekRune e s = 40) (hN : 7 * rem e s ≤ N) : NF (outputCapture rec nb e s) := by
  unfold outputCapture
  refine NF_bind (parseSep_prog 40 (h.settype OutputCapture) hpk (by decide)) (parseSep_nf _ (h.settype _)) ?_
  intro ⟨_, nb1⟩ s1 b1
  have r1 := rem_D1 b1
  simp only []
  refine NF_bind (child_add hrec .chunk trivial rfl b1.1)
    (hnf .chunk _ b1.1.inv trivial (by show 7 * rem e _ + 6 < N; omega)) ?_
  intro c s3 b3
  exact close_nf _ _ b3

theorem lbracketLoop_nf (hrec : RecSpec e rec) (hprog : RecProg e rec) (hnf : RecNF e rec N) :
    ∀ (n : Nat) (nb : NB) (s : St), BInv e nb s → rem e s < n → 7 * rem e s + 3 < N →
    NF (lbracketLoop rec n nb e s)
  | 0, _, _, _, h, _ => by omega
  | n + 1, nb, s, h, hr, hN => by
    unfold lbracketLoop
    rw [bind_of_eq (getEnv_eq _ _), bind_of_eq (peek_eq h.inv)]
    split
    · next hc =>
      have h1 := nextSt_inv h.inv
      have f1 := nextSt_fwd h.inv
      rw [bind_of_eq (next_eq h.inv), bind_of_eq (peek_eq h1)]
      split
      · have hpre := BPre.of_fwd (nb := { nb with f := { nb.f with lone := true } }) (h.congr rfl rfl) f1
        refine NF_bind (addSep_spec hpre) (addSep_nf hpre) ?_
        intro nb1 s1 ⟨hs, hb, hf⟩
        subst hs
        exact parseSpacesInner_nf true hb
      · rw [bind_of_eq (backup_nextSt h.inv)]
        have hst : Starts e .mapPair (peekRune e s) := (by simpa using hc : peekRune e s = 38)
        refine NF_bind (child_addD hrec hprog .mapPair trivial rfl hst h) (hnf .mapPair s h.inv trivial hN) ?_
        intro mp s1 b1
        refine NF_bind (add_spaces true b1) (add_spaces_nf true b1) ?_
        intro nb2 s2 b2
        have r2 := rem_D1 b2
        exact lbracketLoop_nf hrec hprog hnf n nb2 s2 b2.1 (by omega) (by omega)
    split
    · next hc =>
      refine NF_bind (child_addD hrec hprog (.compound NormalExpr) trivial rfl hc h)
        (hnf (.compound NormalExpr) s h.inv trivial (by show 7 * rem e s + 2 < N; omega)) ?_
      intro c s1 b1
      refine NF_bind (add_spaces true b1) (add_spaces_nf true b1) ?_
      intro nb2 s2 b2
      have r2 := rem_D1 b2
      exact lbracketLoop_nf hrec hprog hnf n nb2 s2 b2.1 (by omega) (by omega)
    · exact NF_pure

theorem lbracket_nf (hrec : RecSpec e rec) (hprog : RecProg e rec) (hnf : RecNF e rec N) {nb : NB} {s : St}
    (h : BInv e nb s) (hpk : peekRune e s = 91) (hN : 7 * rem e s ≤ N) : NF (lbracket rec nb e s) := by
  unfold lbracket
  refine NF_bind (parseSep_prog 91 h hpk (by decide)) (parseSep_nf _ h) ?_
  intro ⟨_, nb1⟩ s1 b1
  have r1 := rem_D1 b1
  simp only []
  refine NF_bind (parseSpacesAndNewlines_spec b1.1) (parseSpacesInner_nf true b1.1) ?_
  intro nb2 s2 b2
  have r2 := rem_D b2
  rw [bind_of_eq (loopFuel_eq _ _)]
  refine NF_bind (lbracketLoop_spec hrec _ nb2 s2 b2.1)
    (lbracketLoop_nf hrec hprog hnf _ nb2 s2 b2.1 (rem_lt_fuel _) (by omega)) ?_
  intro nb3 s3 b3
  refine NF_bind (parseSep_spec _ b3.1) (parseSep_nf _ b3.1) ?_
  intro ⟨ok, nb4⟩ s4 b4
  simp only []
  refine NF_bind (P := fun _ s5 => BInv e nb4 s5) ?_ ?_ ?_
  · split
    · exact Ok_of_eq (error_eq b4.1.inv _) (b4.1.err _)
    · exact Ok_pure b4.1
  · split
    · exact NF_of_eq (error_eq b4.1.inv _)
    · exact NF_pure
  intro _ s5 b5
  split
  · refine NF_bind' ?_ (fun _ _ => NF_pure)
    split
    · exact NF_of_eq (error_eq b5.inv _)
    · exact NF_pure
  · exact NF_pure

theorem lambdaLoop_nf (hrec : RecSpec e rec) (hprog : RecProg e rec) (hnf : RecNF e rec N) :
    ∀ (n : Nat) (nb : NB) (s : St), BInv e nb s → rem e s < n → 7 * rem e s + 3 < N →
    NF (lambdaLoop rec n nb e s)
  | 0, _, _, _, h, _ => by omega
  | n + 1, nb, s, h, hr, hN => by
    unfold lambdaLoop
    rw [bind_of_eq (getEnv_eq _ _), bind_of_eq (peek_eq h.inv)]
    split
    · next hc =>
      have hst : Starts e .mapPair (peekRune e s) := (by simpa using hc : peekRune e s = 38)
      refine NF_bind (child_addD hrec hprog .mapPair trivial rfl hst h) (hnf .mapPair s h.inv trivial hN) ?_
      intro mp s1 b1
      refine NF_bind (add_spaces true b1) (add_spaces_nf true b1) ?_
      intro nb2 s2 b2
      have r2 := rem_D1 b2
      exact lambdaLoop_nf hrec hprog hnf n nb2 s2 b2.1 (by omega) (by omega)
    split
    · next hc =>
      refine NF_bind (child_addD hrec hprog (.compound NormalExpr) trivial rfl hc h)
        (hnf (.compound NormalExpr) s h.inv trivial (by show 7 * rem e s + 2 < N; omega)) ?_
      intro c s1 b1
      refine NF_bind (add_spaces true b1) (add_spaces_nf true b1) ?_
      intro nb2 s2 b2
      have r2 := rem_D1 b2
      exact lambdaLoop_nf hrec hprog hnf n nb2 s2 b2.1 (by omega) (by omega)
    · exact NF_pure

theorem lambda_nf (hrec : RecSpec e rec) (hprog : RecProg e rec) (hnf : RecNF e rec N) {nb : NB} {s : St}
    (h : BInv e nb s) (hN : 7 * rem e s + 6 < N) : NF (lambda rec nb e s) := by
  unfold lambda
  have b0 : BPost e nb s (nb.setType Lambda) s := (BPost.refl h).settype _
  refine NF_bind ((parseSpacesAndNewlines_spec b0.1).bpost b0) (parseSpacesInner_nf true b0.1) ?_
  intro nb1 s1 b1
  refine NF_bind ((parseSep_spec _ b1.1).bpost b1) (parseSep_nf _ b1.1) ?_
  intro ⟨ok, nb2⟩ s2 b2
  have r2 := rem_D b2
  simp only []
  refine NF_bind (P := fun nb3 s3 => BPost e nb s nb3 s3) ?_ ?_ ?_
  · split
    · refine Ok_bind ((parseSpacesAndNewlines_spec b2.1).bpost b2) ?_
      intro nb3 s3 b3
      rw [bind_of_eq (loopFuel_eq _ _)]
      refine Ok_bind ((lambdaLoop_spec hrec _ nb3 s3 b3.1).bpost b3) ?_
      intro nb4 s4 b4
      refine Ok_bind ((parseSep_spec _ b4.1).bpost b4) ?_
      intro ⟨ok2, nb5⟩ s5 b5
      simp only []
      refine Ok_bind (P := fun _ s6 => BPost e nb s nb5 s6) ?_ ?_
      · split
        · exact Ok_of_eq (error_eq b5.1.inv _) (b5.err _)
        · exact Ok_pure b5
      intro _ s6 b6
      exact Ok_pure b6
    · exact Ok_pure b2
  · split
    · refine NF_bind (parseSpacesAndNewlines_spec b2.1) (parseSpacesInner_nf true b2.1) ?_
      intro nb3 s3 b3
      have r3 := rem_D b3
      rw [bind_of_eq (loopFuel_eq _ _)]
      refine NF_bind (lambdaLoop_spec hrec _ nb3 s3 b3.1)
        (lambdaLoop_nf hrec hprog hnf _ nb3 s3 b3.1 (rem_lt_fuel _) (by omega)) ?_
      intro nb4 s4 b4
      refine NF_bind (parseSep_spec _ b4.1) (parseSep_nf _ b4.1) ?_
      intro ⟨ok2, nb5⟩ s5 b5
      simp only []
      refine NF_bind' ?_ (fun _ _ => NF_pure)
      split
      · exact NF_of_eq (error_eq b5.1.inv _)
      · exact NF_pure
    · exact NF_pure
  intro nb3 s3 b3
  have r3 := rem_D b3
  refine NF_bind (child_add hrec .chunk trivial rfl b3.1)
    (hnf .chunk _ b3.1.inv trivial (by show 7 * rem e _ + 6 < N; omega)) ?_
  intro c s4 b4
  exact close_nf _ _ b4

theorem bracedLoop_nf (hrec : RecSpec e rec) (hnf : RecNF e rec N) :
    ∀ (n : Nat) (nb : NB) (s : St), BInv e nb s → rem e s < n → 7 * rem e s + 2 < N →
    NF (bracedLoop rec n nb e s)
  | 0, _, _, _, h, _ => by omega
  | n + 1, nb, s, h, hr, hN => by
    -- what follows the optional comma
    have tail : ∀ (nb2 : NB) (s2 : St), BInv e nb2 s2 → rem e s2 < n → 7 * rem e s2 + 2 < N →
        NF ((parseSpacesAndNewlines nb2 >>= fun nb => rec (.compound BracedElemExpr) >>= fun c =>
          bracedLoop rec n (nb.add c)) e s2) := by
      intro nb2 s2 h2 hr2 hN2
      refine NF_bind (parseSpacesAndNewlines_spec h2) (parseSpacesInner_nf true h2) ?_
      intro nb3 s3 b3
      have r3 := rem_D b3
      refine NF_bind (child_add hrec (.compound BracedElemExpr) trivial rfl b3.1)
        (hnf (.compound BracedElemExpr) s3 b3.1.inv trivial (by show 7 * rem e s3 + 2 < N; omega)) ?_
      intro c s4 b4
      have r4 := rem_D b4
      exact bracedLoop_nf hrec hnf n _ s4 b4.1 (by omega) (by omega)
    unfold bracedLoop
    rw [bind_of_eq (peek_eq h.inv)]
    split
    · next hc =>
      by_cases hw : IsWhitespace (peekRune e s) = true
      · refine NF_bind (spaces_prog true h (Or.inr (Or.inl ⟨rfl, hw⟩))) (parseSpacesInner_nf true h) ?_
        intro nb1 s1 b1
        have r1 := rem_D1 b1
        refine NF_bind (parseSep_spec _ b1.1) (parseSep_nf _ b1.1) ?_
        intro ⟨_, nb2⟩ s2 b2
        have r2 := rem_D b2
        exact tail nb2 s2 b2.1 (by omega) (by omega)
      · have h44 : peekRune e s = 44 := by
          simp only [isBracedSep, Bool.or_eq_true, beq_iff_eq] at hc
          rcases hc with hc | hc
          · exact hc
          · exact absurd hc hw
        refine NF_bind (parseSpacesAndNewlines_spec h) (parseSpacesInner_nf true h) ?_
        intro nb1 s1 b1
        have r1 := rem_D b1
        by_cases hp : s1.pos = s.pos
        · refine NF_bind (parseSep_prog 44 b1.1 (by rw [peekRune_congr hp]; exact h44) (by decide))
            (parseSep_nf _ b1.1) ?_
          intro ⟨_, nb2⟩ s2 b2
          have r2 := rem_D1 b2
          exact tail nb2 s2 b2.1 (by omega) (by omega)
        · have hlt : rem e s1 + 1 ≤ rem e s := by
            have := b1.2.2; have := b1.1.inv.le; unfold rem; omega
          refine NF_bind (parseSep_spec _ b1.1) (parseSep_nf _ b1.1) ?_
          intro ⟨_, nb2⟩ s2 b2
          have r2 := rem_D b2
          exact tail nb2 s2 b2.1 (by omega) (by omega)
    · exact NF_pure

theorem lbrace_nf (hrec : RecSpec e rec) (hprog : RecProg e rec) (hnf : RecNF e rec N) {nb : NB} {s : St}
    (h : BInv e nb s) (hpk : peekRune e s = 123) (hN : 7 * rem e s ≤ N) : NF (lbrace rec nb e s) := by
  unfold lbrace
  refine NF_bind (parseSep_prog 123 h hpk (by decide)) (parseSep_nf _ h) ?_
  intro ⟨_, nb1⟩ s1 b1
  have r1 := rem_D1 b1
  simp only []
  rw [bind_of_eq (peek_eq b1.1.inv)]
  split
  · exact lambda_nf hrec hprog hnf b1.1 (by omega)
  · have b1' : BPostD 1 e nb s (nb1.setType Braced) s1 := b1.settype _
    refine NF_bind (child_add hrec (.compound BracedElemExpr) trivial rfl b1'.1)
      (hnf (.compound BracedElemExpr) s1 b1'.1.inv trivial (by show 7 * rem e s1 + 2 < N; omega)) ?_
    intro c s2 b2
    have r2 := rem_D b2
    rw [bind_of_eq (loopFuel_eq _ _)]
    refine NF_bind (bracedLoop_spec hrec _ _ s2 b2.1)
      (bracedLoop_nf hrec hnf _ _ s2 b2.1 (rem_lt_fuel _) (by omega)) ?_
    intro nb3 s3 b3
    exact close_nf _ _ b3

theorem primaryBody_nf (hrec : RecSpec e rec) (hprog : RecProg e rec) (hnf : RecNF e rec N) {nb : NB} {s : St}
    (h : BInv e nb s) (hfrm : nb.frm = s.pos) (hN : 7 * rem e s ≤ N) : NF (primaryBody rec nb e s) := by
  have hi := h.inv
  unfold primaryBody
  rw [bind_of_eq (getEnv_eq _ _), bind_of_eq (peek_eq hi)]
  split
  · exact NF_bind' (NF_of_eq (error_eq hi _)) (fun _ _ => NF_pure)
  split
  · exact bareword_nf hi (Nat.le_of_eq hfrm)
  split
  · exact singleQuoted_nf hi
  split
  · exact doubleQuoted_nf hi
  split
  · next hc =>
    exact variableP_nf hi hfrm (ne_eof_of (p := fun r => r == 36) (by decide) hc)
  split
  · exact starWildcard_nf hi (Nat.le_of_eq hfrm)
  split
  · next hc =>
    rw [bind_of_eq (hasPrefix_eq hi _)]
    split
    · exact exitusCapture_nf hrec hnf h (ne_eof_of (p := fun r => r == 63) (by decide) hc) hN
    · exact questionWildcard_nf hi (Nat.le_of_eq hfrm)
  split
  · next hc => exact outputCapture_nf hrec hnf h (by simpa using hc) hN
  split
  · next hc => exact lbracket_nf hrec hprog hnf h (by simpa using hc) hN
  split
  · next hc => exact lbrace_nf hrec hprog hnf h (by simpa using hc) hN
  · exact NF_pure

theorem body_nf (hrec : RecSpec e rec) (hprog : RecProg e rec) (hnf : RecNF e rec N) (nt : NT) {s : St}
    (hi : Inv e s) (hpre : NTPre e nt s) (hN : need e nt s ≤ N) :
    NF (body rec nt { frm := s.pos, f := nt.init, children := [] } e s) := by
  have h0 : BInv e { frm := s.pos, f := nt.init, children := [] } s := ⟨hi, trivial, trivial, rfl⟩
  cases nt with
  | chunk => exact chunkBody_nf hrec hprog hnf h0 (by have : 7 * rem e s + 6 ≤ N := hN; omega)
  | pipeline => exact pipelineBody_nf hrec hnf h0 (by have : 7 * rem e s + 5 ≤ N := hN; omega)
  | form => exact formBody_nf hrec hprog hnf h0 (by have : 7 * rem e s + 4 ≤ N := hN; omega)
  | redir left =>
    show NF (redirRest rec (attachLeft left _) e s)
    exact redirRest_nf hrec hnf (attachLeft_inv left h0 rfl hpre) (by have : 7 * rem e s + 3 ≤ N := hN; omega)
  | filter => exact filterBody_nf hrec hprog hnf h0 (by have : 7 * rem e s + 4 ≤ N := hN; omega)
  | compound c => exact compoundBody_nf hrec hprog hnf h0 (by have : 7 * rem e s + 2 ≤ N := hN; omega)
  | indexing c => exact indexingBody_nf hrec hnf h0 (by have : 7 * rem e s + 1 ≤ N := hN; omega)
  | array => exact arrayBody_nf hrec hprog hnf h0 (by have : 7 * rem e s + 3 ≤ N := hN; omega)
  | primary c => exact primaryBody_nf hrec hprog hnf h0 rfl (by have : 7 * rem e s + 0 ≤ N := hN; omega)
  | mapPair => exact mapPairBody_nf hrec hnf h0 (by have : 7 * rem e s + 3 ≤ N := hN; omega)

theorem wrap_nf (hrec : RecSpec e rec) (hprog : RecProg e rec) (hnf : RecNF e rec N) :
    RecNF e (wrap rec) (N + 1) := by
  intro nt s hi hpre hN
  unfold wrap
  rw [bind_of_eq (getPos_eq _ _)]
  refine NF_bind (body_spec hrec nt hi hpre) (body_nf hrec hprog hnf nt hi hpre (by omega)) ?_
  intro nb' s' ⟨hf, hfrm, _, _⟩
  rw [bind_of_eq (getPos_eq _ _)]
  have hle : nb'.frm ≤ s'.pos := by
    rw [hfrm]; exact Nat.le_trans (NTFrm_le hpre) hf.2
  rw [bind_of_eq (sliceSrc_eq hle hf.1.le)]
  exact NF_pure

/-- `parseNT fuel nt` returns whenever `fuel > 7·(bytes left) + rank nt`. -/
theorem parseNT_nf : ∀ (fuel : Nat), RecNF e (parseNT fuel) fuel
  | 0 => fun _ _ _ _ h => by omega
  | fuel + 1 => by
    have ih : RecNF e (fun nt' => parseNT fuel nt') fuel := parseNT_nf fuel
    intro nt s hi hpre hN
    unfold parseNT
    exact wrap_nf (parseNT_spec fuel) (parseNT_prog fuel) ih nt s hi hpre hN

end

/-- With the default fuel (`7·len + 8`), no entry point answers FUEL. -/
theorem parseAs_no_fuel (isPrint : Int → Bool) (nt : NT) (src : Bytes) (hnt : ∀ l, nt ≠ .redir (some l)) :
    parseAs isPrint nt src ≠ .fuel := by
  unfold parseAs
  rw [parseAsFuel_eq]
  let e : Env := { isPrint := isPrint, src := src }
  have hi := inv_init e
  have hpre : NTPre e nt { pos := 0, overEOF := 0, errors := [] } := by
    unfold NTPre; split
    · next l => exact absurd rfl (hnt l)
    · trivial
  have hneed : need e nt { pos := 0, overEOF := 0, errors := [] } < defaultFuel src := by
    show 7 * (src.length - 0) + rank nt < 7 * src.length + 8
    have : rank nt ≤ 6 := by cases nt <;> simp [rank]
    omega
  have hnf := parseNT_nf (e := e) (defaultFuel src) nt _ hi hpre hneed
  have hok := parseNT_spec (e := e) (defaultFuel src) nt _ hi hpre
  obtain ⟨n, s', hr, hf, _⟩ := ok_of_Ok_NF hok hnf
  show toResult ((parseNT (defaultFuel src) nt >>= fun n => done >>= fun _ => pure n) e
    { pos := 0, overEOF := 0, errors := [] }) ≠ .fuel
  rw [bind_of_eq hr, bind_of_eq (done_eq hf.1)]
  intro h
  cases h

end C01
