/-
Termination, part 1: the scanning functions never run out of their loop
bound `len + 2` (every iteration that continues consumes a byte).
`NF o` = "the outcome is not FUEL".
-/
import ElvProofs.C01.Progress2
namespace C01
open Go
open Gen.C01Chars

/-- the outcome is not FUEL -/
def NF {α : Type} (o : Out α) : Prop :=
  match o with
  | .fuel => False
  | _ => True

theorem NF_bind {α β} {m : M α} {f : α → M β} {e : Env} {s : St} {P : α → St → Prop}
    (hok : Ok (m e s) P) (hnf : NF (m e s)) (hf : ∀ a s', P a s' → NF (f a e s')) :
    NF ((m >>= f) e s) := by
  rw [bind_apply]
  cases h : m e s with
  | ok a s' => rw [h] at hok; exact hf a s' hok
  | panic w => trivial
  | fuel => rw [h] at hnf; exact hnf.elim

theorem NF_bind' {α β} {m : M α} {f : α → M β} {e : Env} {s : St}
    (hnf : NF (m e s)) (hf : ∀ a s', NF (f a e s')) : NF ((m >>= f) e s) := by
  rw [bind_apply]
  cases h : m e s with
  | ok a s' => exact hf a s'
  | panic w => trivial
  | fuel => rw [h] at hnf; exact hnf.elim

theorem errorp_nf (a b : Nat) (m : Msg) (e : Env) (s : St) : NF (errorp a b m e s) := by
  unfold errorp; split <;> trivial

theorem NF_pure {α} {a : α} {e : Env} {s : St} : NF ((pure a : M α) e s) := trivial
theorem NF_of_eq {α} {o : Out α} {a : α} {s : St} (h : o = .ok a s) : NF o := by rw [h]; trivial

/-- Ok + NF = the computation returns -/
theorem ok_of_Ok_NF {α} {o : Out α} {Q : α → St → Prop} (h1 : Ok o Q) (h2 : NF o) :
    ∃ a s, o = .ok a s ∧ Q a s := by
  cases o with
  | ok a s => exact ⟨a, s, rfl, h1⟩
  | panic w => exact h1.elim
  | fuel => exact h2.elim

/-- bytes left -/
def rem (e : Env) (s : St) : Nat := e.src.length - s.pos

section
variable {e : Env}

theorem rem_mono {s s' : St} (h : Fwd e s s') : rem e s' ≤ rem e s := by
  unfold rem; have := h.2; omega

theorem rem_next {s : St} {n : Nat} (h : Inv e s) (hp : s.pos ≠ e.src.length) (hr : rem e s < n + 1) :
    rem e (nextSt e s) < n := by
  have := nextSt_progress h hp
  have := (nextSt_inv h).le
  unfold rem at *; omega

theorem rem_lt_fuel (s : St) : rem e s < e.src.length + 2 := by unfold rem; omega

theorem commentLoop_nf : ∀ (n : Nat) (s : St), Inv e s → rem e s < n → NF (commentLoop n e s)
  | 0, _, _, h => by omega
  | n + 1, s, h, hr => by
    unfold commentLoop
    rw [bind_of_eq (peek_eq h)]
    split
    · exact NF_pure
    · next hc =>
      have hp : s.pos ≠ e.src.length := by
        intro heq; apply hc; simp [peekRune_eof.mpr heq]
      rw [bind_of_eq (next_eq h)]
      exact commentLoop_nf n _ (nextSt_inv h) (rem_next h hp hr)

theorem spacesLoop_nf (nl : Bool) : ∀ (n : Nat) (s : St), Inv e s → rem e s < n → NF (spacesLoop nl n e s)
  | 0, _, _, h => by omega
  | n + 1, s, h, hr => by
    have h1 := nextSt_inv h
    have f1 := nextSt_fwd h
    unfold spacesLoop
    rw [bind_of_eq (peek_eq h)]
    split
    · next hc =>
      rw [bind_of_eq (next_eq h)]
      exact spacesLoop_nf nl n _ h1 (rem_next h (ne_eof_of (p := IsInlineWhitespace) (by decide) hc) hr)
    split
    · next hc =>
      have hp : s.pos ≠ e.src.length := by
        simp only [Bool.and_eq_true] at hc
        exact ne_eof_of (p := IsWhitespace) (by decide) hc.2
      rw [bind_of_eq (next_eq h)]
      exact spacesLoop_nf nl n _ h1 (rem_next h hp hr)
    split
    · next hc =>
      have hp : s.pos ≠ e.src.length := ne_eof_of (p := fun r => r == 35) (by decide) hc
      have hr1 := rem_next h hp hr
      rw [bind_of_eq (next_eq h), bind_of_eq (loopFuel_eq _ _)]
      refine NF_bind (commentLoop_spec _ _ h1) (commentLoop_nf _ _ h1 (rem_lt_fuel _)) ?_
      intro _ s2 f2
      exact spacesLoop_nf nl n _ f2.1 (Nat.lt_of_le_of_lt (rem_mono f2) hr1)
    split
    · next hc =>
      have hp : s.pos ≠ e.src.length := ne_eof_of (p := fun r => r == 94) (by decide) hc
      have hr1 := rem_next h hp hr
      rw [bind_of_eq (next_eq h), bind_of_eq (peek_eq h1)]
      have h2 := nextSt_inv h1
      have f2 := nextSt_fwd h1
      have hr2 : rem e (nextSt e (nextSt e s)) < n := Nat.lt_of_le_of_lt (rem_mono f2) hr1
      split
      · rw [bind_of_eq (next_eq h1), bind_of_eq (peek_eq h2)]
        split
        · rw [bind_of_eq (next_eq h2)]
          exact spacesLoop_nf nl n _ (nextSt_inv h2) (Nat.lt_of_le_of_lt (rem_mono (nextSt_fwd h2)) hr2)
        · exact spacesLoop_nf nl n _ h2 hr2
      split
      · rw [bind_of_eq (next_eq h1)]
        exact spacesLoop_nf nl n _ h2 hr2
      split
      · rw [bind_of_eq (error_eq h1 _)]
        exact spacesLoop_nf nl n _ (errSt_inv h1 _) hr1
      · rw [bind_of_eq (backup_nextSt h)]
        exact NF_pure
    · exact NF_pure

theorem skipWhile_nf (p : Int → Bool) (hp : p eof = false) : ∀ (n : Nat) (s : St), Inv e s → rem e s < n →
    NF (skipWhile p n e s)
  | 0, _, _, h => by omega
  | n + 1, s, h, hr => by
    unfold skipWhile
    rw [bind_of_eq (peek_eq h)]
    split
    · next hc =>
      rw [bind_of_eq (next_eq h)]
      exact skipWhile_nf p hp n _ (nextSt_inv h) (rem_next h (ne_eof_of hp hc) hr)
    · exact NF_pure

theorem singleQuotedLoop_nf : ∀ (n : Nat) (buf : Bytes) (s : St), Inv e s → rem e s < n →
    NF (singleQuotedLoop n buf e s)
  | 0, _, _, _, h => by omega
  | n + 1, buf, s, h, hr => by
    have h1 := nextSt_inv h
    unfold singleQuotedLoop
    rw [bind_of_eq (next_eq h)]
    split
    · rw [bind_of_eq (error_eq h1 _)]
      exact NF_pure
    · next hc =>
      have hp : s.pos ≠ e.src.length := by
        intro heq; apply hc; simp [peekRune_eof.mpr heq]
      have hr1 := rem_next h hp hr
      split
      · rw [bind_of_eq (peek_eq h1)]
        split
        · rw [bind_of_eq (next_eq h1)]
          exact singleQuotedLoop_nf n _ _ (nextSt_inv h1) (Nat.lt_of_le_of_lt (rem_mono (nextSt_fwd h1)) hr1)
        · exact NF_pure
      · exact singleQuotedLoop_nf n _ _ h1 hr1

theorem singleQuotedInner_nf {s : St} (h : Inv e s) : NF (singleQuotedInner e s) := by
  unfold singleQuotedInner
  rw [bind_of_eq (loopFuel_eq _ _)]
  exact singleQuotedLoop_nf _ _ _ h (rem_lt_fuel _)

theorem hexLoop_nf : ∀ (n : Nat) (rr : Int) (s : St), Inv e s → NF (hexLoop n rr e s)
  | 0, _, _, _ => NF_pure
  | n + 1, rr, s, h => by
    unfold hexLoop
    rw [bind_of_eq (next_eq h)]
    split
    · rw [bind_of_eq (backup_nextSt h), bind_of_eq (error_eq h _)]
      exact NF_pure
    · exact hexLoop_nf n _ _ (nextSt_inv h)

theorem octLoop_nf : ∀ (n : Nat) (rr : Int) (s : St), Inv e s → NF (octLoop n rr e s)
  | 0, _, _, _ => NF_pure
  | n + 1, rr, s, h => by
    unfold octLoop
    rw [bind_of_eq (next_eq h)]
    split
    · rw [bind_of_eq (backup_nextSt h), bind_of_eq (error_eq h _)]
      exact NF_pure
    · exact octLoop_nf n _ _ (nextSt_inv h)

theorem doubleQuotedEscape_nf {s : St} (h : Inv e s) (hpos : 1 ≤ s.pos) : NF (doubleQuotedEscape e s) := by
  have hok := doubleQuotedEscape_spec h hpos
  have h1 := nextSt_inv h
  unfold doubleQuotedEscape at hok ⊢
  rw [bind_of_eq (next_eq h)] at hok ⊢
  split
  · rw [bind_of_eq (next_eq h1)]
    refine NF_bind (P := fun _ _ => True) ?_ ?_ ?_
    · split
      · rw [bind_of_eq (backup_nextSt h1), bind_of_eq (error_eq h1 _), bind_of_eq (next_eq (errSt_inv h1 _))]
        exact Ok_pure trivial
      · exact Ok_pure trivial
    · split
      · rw [bind_of_eq (backup_nextSt h1), bind_of_eq (error_eq h1 _), bind_of_eq (next_eq (errSt_inv h1 _))]
        exact NF_pure
      · exact NF_pure
    · intro _ _ _
      split <;> exact NF_pure
  split
  · refine NF_bind (hexLoop_spec _ _ _ h1) (hexLoop_nf _ _ _ h1) ?_
    intro _ _ _
    split <;> exact NF_pure
  split
  · refine NF_bind (P := fun _ _ => True) ((octLoop2_spec _ _ h1 (by
      next hc => simp at hc; omega)).mono (fun _ _ _ => trivial)) (octLoop_nf _ _ _ h1) ?_
    intro rr s' _
    split
    · exact NF_pure
    · -- the model's guard `4 ≤ pos` (never a FUEL outcome either way)
      rw [bind_of_eq (getPos_eq _ _)]
      split
      · exact NF_bind' (errorp_nf _ _ _ _ _) (fun _ _ => NF_pure)
      · trivial
  · cases List.lookup (peekRune e s) doubleEscape with
    | some rr => exact NF_pure
    | none =>
      show NF ((backup >>= fun _ => error Msg.invalidEscape >>= fun _ => next >>= fun _ => pure []) e (nextSt e s))
      rw [bind_of_eq (backup_nextSt h), bind_of_eq (error_eq h _), bind_of_eq (next_eq (errSt_inv h _))]
      exact NF_pure

theorem doubleQuotedLoop_nf : ∀ (n : Nat) (buf : Bytes) (s : St), Inv e s → rem e s < n →
    NF (doubleQuotedLoop n buf e s)
  | 0, _, _, _, h => by omega
  | n + 1, buf, s, h, hr => by
    have h1 := nextSt_inv h
    unfold doubleQuotedLoop
    rw [bind_of_eq (next_eq h)]
    split
    · rw [bind_of_eq (error_eq h1 _)]
      exact NF_pure
    · next hc =>
      have hp : s.pos ≠ e.src.length := by
        intro heq; apply hc; simp [peekRune_eof.mpr heq]
      have hr1 := rem_next h hp hr
      have hp1 := nextSt_progress h hp
      split
      · exact NF_pure
      split
      · refine NF_bind (doubleQuotedEscape_spec h1 (by omega)) (doubleQuotedEscape_nf h1 (by omega)) ?_
        intro b s' f
        exact doubleQuotedLoop_nf n _ _ f.1 (Nat.lt_of_le_of_lt (rem_mono f) hr1)
      · exact doubleQuotedLoop_nf n _ _ h1 hr1

theorem doubleQuotedInner_nf {s : St} (h : Inv e s) : NF (doubleQuotedInner e s) := by
  unfold doubleQuotedInner
  rw [bind_of_eq (loopFuel_eq _ _)]
  exact doubleQuotedLoop_nf _ _ _ h (rem_lt_fuel _)

end
end C01
