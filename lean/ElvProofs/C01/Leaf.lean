/-
Specifications of the scanning functions (no tree building): they keep the
invariant and never move the position backwards.
-/
import ElvProofs.C01.Hoare
namespace C01
open Go
open Gen.C01Chars

theorem Ok.fwd {α} {e : Env} {s s1 : St} {o : Out α} (h1 : Fwd e s s1)
    (h : Ok o (fun _ s' => Fwd e s1 s')) : Ok o (fun _ s' => Fwd e s s') :=
  h.mono (fun _ _ hf => h1.trans hf)

theorem commentLoop_spec {e : Env} : ∀ (n : Nat) (s : St), Inv e s →
    Ok (commentLoop n e s) (fun _ s' => Fwd e s s')
  | 0, s, _ => Ok_fuel
  | n + 1, s, h => by
    unfold commentLoop
    rw [bind_of_eq (peek_eq h)]
    split
    · exact Ok_pure (Fwd.refl h)
    · rw [bind_of_eq (next_eq h)]
      exact (commentLoop_spec n _ (nextSt_inv h)).mono (fun _ s' hf => (nextSt_fwd h).trans hf)

theorem spacesLoop_spec {e : Env} (nl : Bool) : ∀ (n : Nat) (s : St), Inv e s →
    Ok (spacesLoop nl n e s) (fun _ s' => Fwd e s s')
  | 0, s, _ => Ok_fuel
  | n + 1, s, h => by
    have h1 := nextSt_inv h
    have f1 := nextSt_fwd h
    unfold spacesLoop
    rw [bind_of_eq (peek_eq h)]
    split
    · rw [bind_of_eq (next_eq h)]
      exact (spacesLoop_spec nl n _ h1).fwd f1
    split
    · rw [bind_of_eq (next_eq h)]
      exact (spacesLoop_spec nl n _ h1).fwd f1
    split
    · rw [bind_of_eq (next_eq h), bind_of_eq (loopFuel_eq _ _)]
      refine Ok_bind (commentLoop_spec _ _ h1) (fun _ s2 h2 => ?_)
      exact (spacesLoop_spec nl n _ h2.1).fwd (f1.trans h2)
    split
    · rw [bind_of_eq (next_eq h), bind_of_eq (peek_eq h1)]
      have h2 := nextSt_inv h1
      have f2 := f1.trans (nextSt_fwd h1)
      split
      · rw [bind_of_eq (next_eq h1), bind_of_eq (peek_eq h2)]
        split
        · rw [bind_of_eq (next_eq h2)]
          exact (spacesLoop_spec nl n _ (nextSt_inv h2)).fwd (f2.trans (nextSt_fwd h2))
        · exact (spacesLoop_spec nl n _ h2).fwd f2
      split
      · rw [bind_of_eq (next_eq h1)]
        exact (spacesLoop_spec nl n _ h2).fwd f2
      split
      · rw [bind_of_eq (error_eq h1 _)]
        exact (spacesLoop_spec nl n _ (errSt_inv h1 _)).fwd (f1.trans (errSt_fwd h1 _))
      · rw [bind_of_eq (backup_nextSt h)]
        exact Ok_pure (Fwd.refl h)
    · exact Ok_pure (Fwd.refl h)

theorem skipWhile_spec {e : Env} (p : Int → Bool) : ∀ (n : Nat) (s : St), Inv e s →
    Ok (skipWhile p n e s) (fun _ s' => Fwd e s s')
  | 0, s, _ => Ok_fuel
  | n + 1, s, h => by
    unfold skipWhile
    rw [bind_of_eq (peek_eq h)]
    split
    · rw [bind_of_eq (next_eq h)]
      exact (skipWhile_spec p n _ (nextSt_inv h)).fwd (nextSt_fwd h)
    · exact Ok_pure (Fwd.refl h)

theorem singleQuotedLoop_spec {e : Env} : ∀ (n : Nat) (buf : Bytes) (s : St), Inv e s →
    Ok (singleQuotedLoop n buf e s) (fun _ s' => Fwd e s s')
  | 0, _, s, _ => Ok_fuel
  | n + 1, buf, s, h => by
    have h1 := nextSt_inv h
    have f1 := nextSt_fwd h
    unfold singleQuotedLoop
    rw [bind_of_eq (next_eq h)]
    split
    · rw [bind_of_eq (error_eq h1 _)]
      exact Ok_pure (f1.trans (errSt_fwd h1 _))
    split
    · rw [bind_of_eq (peek_eq h1)]
      split
      · rw [bind_of_eq (next_eq h1)]
        exact (singleQuotedLoop_spec n _ _ (nextSt_inv h1)).fwd (f1.trans (nextSt_fwd h1))
      · exact Ok_pure f1
    · exact (singleQuotedLoop_spec n _ _ h1).fwd f1

theorem singleQuotedInner_spec {e : Env} {s : St} (h : Inv e s) :
    Ok (singleQuotedInner e s) (fun _ s' => Fwd e s s') := by
  unfold singleQuotedInner
  rw [bind_of_eq (loopFuel_eq _ _)]
  exact singleQuotedLoop_spec _ _ _ h

theorem hexLoop_spec {e : Env} : ∀ (n : Nat) (rr : Int) (s : St), Inv e s →
    Ok (hexLoop n rr e s) (fun _ s' => Fwd e s s')
  | 0, _, s, h => Ok_pure (Fwd.refl h)
  | n + 1, rr, s, h => by
    have h1 := nextSt_inv h
    unfold hexLoop
    rw [bind_of_eq (next_eq h)]
    split
    · rw [bind_of_eq (backup_nextSt h), bind_of_eq (error_eq h _)]
      exact Ok_pure (errSt_fwd h _)
    · exact (hexLoop_spec n _ _ h1).fwd (nextSt_fwd h)

/-- state after `errorp a b m` -/
def errpSt (e : Env) (s : St) (a b : Nat) (m : Msg) : St :=
  { s with errors := s.errors ++ [{ frm := a, to := b, partial_ := a == e.src.length, msg := m }] }

theorem errorp_eq {e : Env} {s : St} {a b : Nat} (h1 : a ≤ b) (h2 : b ≤ e.src.length) (m : Msg) :
    errorp a b m e s = .ok () (errpSt e s a b m) := by
  unfold errorp errpSt; simp [h1, h2]

theorem errpSt_fwd {e : Env} {s : St} (h : Inv e s) {a b : Nat} (h1 : a ≤ b) (h2 : b ≤ e.src.length) (m : Msg) :
    Fwd e s (errpSt e s a b m) := by
  refine ⟨⟨h.le, h.bnd, h.eof, ?_⟩, Nat.le_refl _⟩
  intro x hx
  simp only [errpSt, List.mem_append, List.mem_singleton] at hx
  rcases hx with hx | hx
  · exact h.errs x hx
  · subst hx; exact ⟨h1, h2⟩

/-- The two further digits of an octal escape: either both were read (two
more bytes consumed) or the value stayed below 64. -/
theorem octLoop2_spec {e : Env} (rr : Int) (s : St) (h : Inv e s) (hr : rr ≤ 7) :
    Ok (octLoop 2 rr e s) (fun rr' s' => Fwd e s s' ∧ (s.pos + 2 ≤ s'.pos ∨ rr' ≤ 63)) := by
  have h1 := nextSt_inv h
  have f1 := nextSt_fwd h
  unfold octLoop
  rw [bind_of_eq (next_eq h)]
  split
  · rw [bind_of_eq (backup_nextSt h), bind_of_eq (error_eq h _)]
    exact Ok_pure ⟨errSt_fwd h _, Or.inr (by omega)⟩
  · next hc =>
    have hp : s.pos ≠ e.src.length := by
      intro heq
      have := peekRune_eof.mpr heq
      simp [this, eof] at hc
    have hp1 := nextSt_progress h hp
    unfold octLoop
    rw [bind_of_eq (next_eq h1)]
    split
    · rw [bind_of_eq (backup_nextSt h1), bind_of_eq (error_eq h1 _)]
      refine Ok_pure ⟨f1.trans (errSt_fwd h1 _), Or.inr ?_⟩
      simp at hc; omega
    · next hc2 =>
      have hp' : (nextSt e s).pos ≠ e.src.length := by
        intro heq
        have := peekRune_eof.mpr heq
        simp [this, eof] at hc2
      have hp2 := nextSt_progress h1 hp'
      unfold octLoop
      exact Ok_pure ⟨f1.trans (nextSt_fwd h1), Or.inl (by omega)⟩

theorem doubleQuotedEscape_spec {e : Env} {s : St} (h : Inv e s) (hpos : 1 ≤ s.pos) :
    Ok (doubleQuotedEscape e s) (fun _ s' => Fwd e s s') := by
  have h1 := nextSt_inv h
  have f1 := nextSt_fwd h
  unfold doubleQuotedEscape
  rw [bind_of_eq (next_eq h)]
  split
  · -- control sequence
    rw [bind_of_eq (next_eq h1)]
    have h2 := nextSt_inv h1
    have f2 := f1.trans (nextSt_fwd h1)
    refine Ok_bind (P := fun _ s' => Fwd e s s') ?_ ?_
    · split
      · rw [bind_of_eq (backup_nextSt h1), bind_of_eq (error_eq h1 _), bind_of_eq (next_eq (errSt_inv h1 _))]
        exact Ok_pure (f1.trans ((errSt_fwd h1 _).trans (nextSt_fwd (errSt_inv h1 _))))
      · exact Ok_pure f2
    · intro _ s' hf
      split <;> exact Ok_pure hf
  split
  · -- hex digits
    simp only []
    refine Ok_bind ((hexLoop_spec _ _ _ h1).fwd f1) ?_
    intro _ s' hf
    split <;> exact Ok_pure hf
  split
  · -- octal digits
    next hc =>
    have hp : s.pos ≠ e.src.length := by
      intro heq
      have := peekRune_eof.mpr heq
      simp [this, eof] at hc
    have hp1 := nextSt_progress h hp
    refine Ok_bind (octLoop2_spec _ _ h1 (by simp at hc; omega)) ?_
    intro rr s' ⟨hf, hor⟩
    split
    · exact Ok_pure (f1.trans hf)
    · next hgt =>
      rw [bind_of_eq (getPos_eq _ _)]
      have hle := hf.1.le
      have h4 : 4 ≤ s'.pos := by
        rcases hor with hor | hor
        · omega
        · omega
      simp only [h4, if_true]
      rw [bind_of_eq (errorp_eq (by omega) hle _)]
      exact Ok_pure (f1.trans (hf.trans (errpSt_fwd hf.1 (by omega) hle _)))
  · cases List.lookup (peekRune e s) doubleEscape with
    | some rr => exact Ok_pure f1
    | none =>
      show Ok ((backup >>= fun _ => error Msg.invalidEscape >>= fun _ => next >>= fun _ => pure []) e (nextSt e s)) _
      rw [bind_of_eq (backup_nextSt h), bind_of_eq (error_eq h _), bind_of_eq (next_eq (errSt_inv h _))]
      exact Ok_pure ((errSt_fwd h _).trans (nextSt_fwd (errSt_inv h _)))

theorem doubleQuotedLoop_spec {e : Env} : ∀ (n : Nat) (buf : Bytes) (s : St), Inv e s →
    Ok (doubleQuotedLoop n buf e s) (fun _ s' => Fwd e s s')
  | 0, _, s, _ => Ok_fuel
  | n + 1, buf, s, h => by
    have h1 := nextSt_inv h
    have f1 := nextSt_fwd h
    unfold doubleQuotedLoop
    rw [bind_of_eq (next_eq h)]
    split
    · rw [bind_of_eq (error_eq h1 _)]
      exact Ok_pure (f1.trans (errSt_fwd h1 _))
    split
    · exact Ok_pure f1
    split
    · next hne _ hc =>
      have hp : s.pos ≠ e.src.length := by
        intro heq
        have := peekRune_eof.mpr heq
        simp [this, eof] at hc
      have hp1 := nextSt_progress h hp
      refine Ok_bind ((doubleQuotedEscape_spec h1 (by omega)).fwd f1) ?_
      intro b s' hf
      exact (doubleQuotedLoop_spec n _ _ hf.1).fwd hf
    · exact (doubleQuotedLoop_spec n _ _ h1).fwd f1

theorem doubleQuotedInner_spec {e : Env} {s : St} (h : Inv e s) :
    Ok (doubleQuotedInner e s) (fun _ s' => Fwd e s s') := by
  unfold doubleQuotedInner
  rw [bind_of_eq (loopFuel_eq _ _)]
  exact doubleQuotedLoop_spec _ _ _ h

end C01
