/-
`body`, `wrap`, `parseNT` (induction on fuel) and the entry points.
-/
import ElvProofs.C01.Grammar2
namespace C01
open Go
open Gen.C01Chars

section
variable {e : Env} {rec : NT → M Node}

theorem NTFrm_le {nt : NT} {s : St} (h : NTPre e nt s) : NTFrm nt s ≤ s.pos := by
  unfold NTFrm
  split
  · next l =>
    obtain ⟨hw, hto⟩ := h
    rw [← hto]; exact (WF_range hw).1
  · exact Nat.le_refl _

theorem body_spec (hrec : RecSpec e rec) (nt : NT) {s : St} (hi : Inv e s) (hpre : NTPre e nt s) :
    Ok (body rec nt { frm := s.pos, f := nt.init, children := [] } e s)
      (fun nb' s' => Fwd e s s' ∧ nb'.frm = NTFrm nt s ∧ WFs e.src nb'.children ∧
        (nb'.children = [] ∨ (Consec nb'.frm nb'.children ∧ endOf nb'.frm nb'.children = s'.pos))) := by
  have h0 : BInv e { frm := s.pos, f := nt.init, children := [] } s := ⟨hi, trivial, trivial, rfl⟩
  have conv : ∀ nb' s', BPost e { frm := s.pos, f := nt.init, children := [] } s nb' s' →
      NTFrm nt s = s.pos →
      (Fwd e s s' ∧ nb'.frm = NTFrm nt s ∧ WFs e.src nb'.children ∧
        (nb'.children = [] ∨ (Consec nb'.frm nb'.children ∧ endOf nb'.frm nb'.children = s'.pos))) :=
    fun nb' s' b hf => ⟨b.fwd, b.2.1.trans hf.symm, b.1.wfs, Or.inr ⟨b.1.consec, b.1.sync⟩⟩
  cases nt with
  | chunk => exact (chunkBody_spec hrec h0).mono (fun _ _ b => conv _ _ b rfl)
  | pipeline => exact (pipelineBody_spec hrec h0).mono (fun _ _ b => conv _ _ b rfl)
  | form => exact (formBody_spec hrec h0).mono (fun _ _ b => conv _ _ b rfl)
  | redir left =>
    refine (redirBody_spec hrec left h0 rfl rfl hpre).mono ?_
    intro nb' s' ⟨hb, hf, hp⟩
    exact ⟨⟨hb.inv, hp⟩, hf, hb.wfs, Or.inr ⟨hb.consec, hb.sync⟩⟩
  | filter => exact (filterBody_spec hrec h0).mono (fun _ _ b => conv _ _ b rfl)
  | compound c => exact (compoundBody_spec hrec h0).mono (fun _ _ b => conv _ _ b rfl)
  | indexing c => exact (indexingBody_spec hrec h0).mono (fun _ _ b => conv _ _ b rfl)
  | array => exact (arrayBody_spec hrec h0).mono (fun _ _ b => conv _ _ b rfl)
  | primary c =>
    refine (primaryBody_spec hrec h0 rfl rfl).mono ?_
    intro nb' s' ⟨hf, hfrm, hw, ht⟩
    exact ⟨hf, hfrm, hw, ht⟩
  | mapPair => exact (mapPairBody_spec hrec h0).mono (fun _ _ b => conv _ _ b rfl)

/-- The generic wrapper returns a well-formed node if the recursive calls do. -/
theorem wrap_spec (hrec : RecSpec e rec) : RecSpec e (wrap rec) := by
  intro nt s hi hpre
  unfold wrap
  rw [bind_of_eq (getPos_eq _ _)]
  refine Ok_bind (body_spec hrec nt hi hpre) ?_
  intro nb' s' ⟨hf, hfrm, hw, ht⟩
  rw [bind_of_eq (getPos_eq _ _)]
  have hle : nb'.frm ≤ s'.pos := by
    rw [hfrm]; exact Nat.le_trans (NTFrm_le hpre) hf.2
  rw [bind_of_eq (sliceSrc_eq hle hf.1.le)]
  refine Ok_pure ⟨hf, ?_, rfl, hfrm⟩
  simp only [WF]
  exact ⟨hle, hf.1.le, trivial, ht, hw⟩

/-- Every grammar function, at every fuel, returns a well-formed node that
ends at the new position, keeps the state invariant (all errors in range)
and never moves backwards — or runs out of fuel; it never panics. -/
theorem parseNT_spec : ∀ (fuel : Nat), RecSpec e (parseNT fuel)
  | 0 => fun _ _ _ _ => Ok_fuel
  | fuel + 1 => by
    have ih : RecSpec e (fun nt' => parseNT fuel nt') := parseNT_spec fuel
    intro nt s hi hpre
    unfold parseNT
    exact wrap_spec ih nt s hi hpre

end

/-- the initial parser state satisfies the invariant -/
theorem inv_init (e : Env) : Inv e { pos := 0, overEOF := 0, errors := [] } :=
  ⟨Nat.zero_le _, Bnd.zero, fun h => absurd h (Nat.lt_irrefl 0), fun _ hx => by cases hx⟩

/-- all errors are positioned inside the source -/
def ErrsInRange (src : Bytes) (errs : List PErr) : Prop :=
  ∀ x ∈ errs, x.frm ≤ x.to ∧ x.to ≤ src.length

/-- text after the root is reported by an "unexpected rune" error that points at it -/
def TailReported (src : Bytes) (t : Node) (errs : List PErr) : Prop :=
  t.to = src.length ∨
    (t.to < src.length ∧ ∃ x ∈ errs, x.frm = t.to ∧ x.to = t.to + 1 ∧ ∃ r, x.msg = .unexpectedRune r)

/-- what `ParseAs` returns, when it returns -/
def GoodResult (src : Bytes) (r : ParseResult) : Prop :=
  match r with
  | .ok t errs => WF src t ∧ t.frm = 0 ∧ ErrsInRange src errs ∧ TailReported src t errs
  | .panic _ => False
  | .fuel => True

/-- state after `done` -/
def doneSt (e : Env) (s : St) : St :=
  if s.pos = e.src.length then s
  else errSt e s (.unexpectedRune ((decodeRune (e.src.drop s.pos)).1 : Nat))

theorem done_eq {e : Env} {s : St} (h : Inv e s) : done e s = .ok () (doneSt e s) := by
  unfold done doneSt
  by_cases hp : s.pos = e.src.length
  · simp [hp]
  · simp only [ne_eq, hp, not_false_eq_true, if_true, h.le, if_false]
    exact error_eq h _

def toResult : Out Node → ParseResult
  | .ok n s => .ok n s.errors
  | .panic w => .panic w
  | .fuel => .fuel

theorem parseAs_core (e : Env) (fuel : Nat) (nt : NT) (hnt : ∀ l, nt ≠ .redir (some l)) :
    GoodResult e.src (toResult ((parseNT fuel nt >>= fun n => done >>= fun _ => pure n) e
      { pos := 0, overEOF := 0, errors := [] })) := by
  have hi := inv_init e
  have hpre : NTPre e nt { pos := 0, overEOF := 0, errors := [] } := by
    unfold NTPre; split
    · next l => exact absurd rfl (hnt l)
    · trivial
  have hfrm : NTFrm nt { pos := 0, overEOF := 0, errors := [] } = 0 := by
    unfold NTFrm; split
    · next l => exact absurd rfl (hnt l)
    · rfl
  have hspec := parseNT_spec (e := e) fuel nt _ hi hpre
  cases hr : parseNT fuel nt e { pos := 0, overEOF := 0, errors := [] } with
  | panic w => rw [hr] at hspec; exact hspec.elim
  | fuel =>
    rw [bind_apply, hr]
    exact trivial
  | ok n s' =>
    rw [hr] at hspec
    obtain ⟨hf, hw, hto, hfr⟩ := hspec
    rw [bind_of_eq hr, bind_of_eq (done_eq hf.1)]
    show WF e.src n ∧ n.frm = 0 ∧ ErrsInRange e.src (doneSt e s').errors ∧ TailReported e.src n (doneSt e s').errors
    refine ⟨hw, hfr.trans hfrm, ?_, ?_⟩
    · unfold doneSt; split
      · exact hf.1.errs
      · exact (errSt_inv hf.1 _).errs
    · unfold doneSt
      by_cases hp : s'.pos = e.src.length
      · exact Or.inl (hto.trans hp)
      · have hlt : s'.pos < e.src.length := Nat.lt_of_le_of_ne hf.1.le hp
        simp only [hp, if_false]
        refine Or.inr ⟨by rw [hto]; exact hlt, _, List.mem_append_right _ (List.mem_singleton.mpr rfl),
          hto.symm, ?_, _, rfl⟩
        simp only [hlt, if_true, hto]

theorem parseAsFuel_eq (isPrint : Int → Bool) (fuel : Nat) (nt : NT) (src : Bytes) :
    parseAsFuel isPrint fuel nt src =
      toResult ((parseNT fuel nt >>= fun n => done >>= fun _ => pure n) { isPrint := isPrint, src := src }
        { pos := 0, overEOF := 0, errors := [] }) := by
  unfold parseAsFuel toResult
  rfl

theorem parseAsFuel_good (isPrint : Int → Bool) (fuel : Nat) (nt : NT) (src : Bytes)
    (hnt : ∀ l, nt ≠ .redir (some l)) : GoodResult src (parseAsFuel isPrint fuel nt src) := by
  rw [parseAsFuel_eq]
  exact parseAs_core { isPrint := isPrint, src := src } fuel nt hnt

end C01
