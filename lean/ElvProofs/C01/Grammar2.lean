/-
Specifications of `Primary` (the recursive alternatives), the dispatch
`body`, the wrapper `wrap`, and the induction on fuel for `parseNT`.
-/
import ElvProofs.C01.Grammar
namespace C01
open Go
open Gen.C01Chars

section
variable {e : Env} {rec : NT → M Node}

theorem BPostD.settype {d : Nat} {nb nb' : NB} {s s' : St} (h : BPostD d e nb s nb' s') (t : Int) :
    BPostD d e nb s (nb'.setType t) s' :=
  ⟨h.1.congr rfl rfl, h.2.1, h.2.2⟩

theorem BInv.settype {nb : NB} {s : St} (h : BInv e nb s) (t : Int) : BInv e (nb.setType t) s :=
  h.congr rfl rfl

/-- the closing-delimiter idiom: `if !parseSep(n, ps, c) { ps.error(m) }` at the end of a body -/
theorem close_spec {d : Nat} {nb nb1 : NB} {s s1 : St} (sep : Int) (m : Msg) (b1 : BPostD d e nb s nb1 s1) :
    Ok ((parseSep nb1 sep >>= fun p => if (!p.1) = true then (error m >>= fun _ => pure p.2) else pure p.2) e s1)
      (fun nb' s' => BPostD d e nb s nb' s') := by
  refine Ok_bind ((parseSep_spec sep b1.1).bpost b1) ?_
  intro ⟨ok, nb2⟩ s2 b2
  simp only []
  split
  · rw [bind_of_eq (error_eq b2.1.inv _)]
    exact Ok_pure (b2.err _)
  · exact Ok_pure b2

theorem exitusCapture_specD {d : Nat} (hrec : RecSpec e rec) {nb : NB} {s : St} (h : BInv e nb s)
    (hd : s.pos + d ≤ (nextSt e s).pos) :
    Ok (exitusCapture rec nb e s) (fun nb' s' => BPostD d e nb s nb' s') := by
  unfold exitusCapture
  have h1 := nextSt_inv h.inv
  have f2 := (nextSt_fwd h.inv).trans (nextSt_fwd h1)
  rw [bind_of_eq (next_eq h.inv), bind_of_eq (next_eq h1)]
  refine Ok_bind (addSep_spec (BPre.of_fwd h f2)) ?_
  intro nb1 s2 ⟨hs, hb, hf⟩
  subst hs
  have b1 : BPostD d e nb s (nb1.setType ExceptionCapture) (nextSt e (nextSt e s)) :=
    ⟨hb.settype _, hf, Nat.le_trans hd (nextSt_pos_le _ _)⟩
  refine Ok_bind ((child_add hrec .chunk trivial rfl b1.1).bpost b1) ?_
  intro c s3 b3
  exact close_spec _ _ b3

theorem exitusCapture_spec (hrec : RecSpec e rec) {nb : NB} {s : St} (h : BInv e nb s) :
    Ok (exitusCapture rec nb e s) (fun nb' s' => BPost e nb s nb' s') :=
  exitusCapture_specD hrec h (nextSt_pos_le _ _)

theorem outputCapture_specD {d : Nat} (hrec : RecSpec e rec) {nb : NB} {s : St}
    (hfirst : Ok (parseSep (nb.setType OutputCapture) 40 e s)
      (fun p s' => BPostD d e (nb.setType OutputCapture) s p.2 s')) :
    Ok (outputCapture rec nb e s) (fun nb' s' => BPostD d e nb s nb' s') := by
  unfold outputCapture
  refine Ok_bind hfirst ?_
  intro ⟨_, nb1⟩ s1 b1
  simp only []
  have b1' : BPostD d e nb s nb1 s1 := ⟨b1.1, b1.2.1, b1.2.2⟩
  refine Ok_bind ((child_add hrec .chunk trivial rfl b1'.1).bpost b1') ?_
  intro c s3 b3
  exact close_spec _ _ b3

theorem outputCapture_spec (hrec : RecSpec e rec) {nb : NB} {s : St} (h : BInv e nb s) :
    Ok (outputCapture rec nb e s) (fun nb' s' => BPost e nb s nb' s') :=
  outputCapture_specD hrec (parseSep_spec _ (h.settype OutputCapture))

theorem lbracketLoop_spec (hrec : RecSpec e rec) : ∀ (n : Nat) (nb : NB) (s : St), BInv e nb s →
    Ok (lbracketLoop rec n nb e s) (fun nb' s' => BPost e nb s nb' s')
  | 0, _, _, _ => Ok_fuel
  | n + 1, nb, s, h => by
    unfold lbracketLoop
    rw [bind_of_eq (getEnv_eq _ _), bind_of_eq (peek_eq h.inv)]
    split
    · have h1 := nextSt_inv h.inv
      have f1 := nextSt_fwd h.inv
      rw [bind_of_eq (next_eq h.inv), bind_of_eq (peek_eq h1)]
      split
      · refine Ok_bind (addSep_spec (nb := { nb with f := { nb.f with lone := true } })
          (BPre.of_fwd (h.congr rfl rfl) f1)) ?_
        intro nb1 s1 ⟨hs, hb, hf⟩
        subst hs
        exact (parseSpacesAndNewlines_spec hb).bpost ⟨hb, hf, f1.2⟩
      · rw [bind_of_eq (backup_nextSt h.inv)]
        refine Ok_bind (child_add hrec .mapPair trivial rfl h) ?_
        intro mp s1 b1
        refine Ok_bind (add_spaces true b1) ?_
        intro nb2 s2 b2
        exact (lbracketLoop_spec hrec n nb2 s2 b2.1).bpost b2
    split
    · refine Ok_bind (child_add hrec (.compound NormalExpr) trivial rfl h) ?_
      intro c s1 b1
      refine Ok_bind (add_spaces true b1) ?_
      intro nb2 s2 b2
      exact (lbracketLoop_spec hrec n nb2 s2 b2.1).bpost b2
    · exact Ok_pure (BPost.refl h)

theorem lbracket_specD {d : Nat} (hrec : RecSpec e rec) {nb : NB} {s : St}
    (hfirst : Ok (parseSep nb 91 e s) (fun p s' => BPostD d e nb s p.2 s')) :
    Ok (lbracket rec nb e s) (fun nb' s' => BPostD d e nb s nb' s') := by
  unfold lbracket
  refine Ok_bind hfirst ?_
  intro ⟨_, nb1⟩ s1 b1
  simp only []
  refine Ok_bind ((parseSpacesAndNewlines_spec b1.1).bpost b1) ?_
  intro nb2 s2 b2
  rw [bind_of_eq (loopFuel_eq _ _)]
  refine Ok_bind ((lbracketLoop_spec hrec _ nb2 s2 b2.1).bpost b2) ?_
  intro nb3 s3 b3
  refine Ok_bind ((parseSep_spec _ b3.1).bpost b3) ?_
  intro ⟨ok, nb4⟩ s4 b4
  simp only []
  refine Ok_bind (P := fun _ s5 => BPostD d e nb s nb4 s5) ?_ ?_
  · split
    · exact Ok_of_eq (error_eq b4.1.inv _) (b4.err _)
    · exact Ok_pure b4
  intro _ s5 b5
  split
  · refine Ok_bind (P := fun _ s6 => BPostD d e nb s nb4 s6) ?_ ?_
    · split
      · exact Ok_of_eq (error_eq b5.1.inv _) (b5.err _)
      · exact Ok_pure b5
    intro _ s6 b6
    exact Ok_pure (b6.settype _)
  · exact Ok_pure (b5.settype _)

theorem lbracket_spec (hrec : RecSpec e rec) {nb : NB} {s : St} (h : BInv e nb s) :
    Ok (lbracket rec nb e s) (fun nb' s' => BPost e nb s nb' s') :=
  lbracket_specD hrec (parseSep_spec _ h)

theorem lambdaLoop_spec (hrec : RecSpec e rec) : ∀ (n : Nat) (nb : NB) (s : St), BInv e nb s →
    Ok (lambdaLoop rec n nb e s) (fun nb' s' => BPost e nb s nb' s')
  | 0, _, _, _ => Ok_fuel
  | n + 1, nb, s, h => by
    unfold lambdaLoop
    rw [bind_of_eq (getEnv_eq _ _), bind_of_eq (peek_eq h.inv)]
    split
    · refine Ok_bind (child_add hrec .mapPair trivial rfl h) ?_
      intro mp s1 b1
      refine Ok_bind (add_spaces true b1) ?_
      intro nb2 s2 b2
      exact (lambdaLoop_spec hrec n nb2 s2 b2.1).bpost b2
    split
    · refine Ok_bind (child_add hrec (.compound NormalExpr) trivial rfl h) ?_
      intro c s1 b1
      refine Ok_bind (add_spaces true b1) ?_
      intro nb2 s2 b2
      exact (lambdaLoop_spec hrec n nb2 s2 b2.1).bpost b2
    · exact Ok_pure (BPost.refl h)

theorem lambda_spec (hrec : RecSpec e rec) {nb : NB} {s : St} (h : BInv e nb s) :
    Ok (lambda rec nb e s) (fun nb' s' => BPost e nb s nb' s') := by
  unfold lambda
  have b0 : BPost e nb s (nb.setType Lambda) s := (BPost.refl h).settype _
  refine Ok_bind ((parseSpacesAndNewlines_spec b0.1).bpost b0) ?_
  intro nb1 s1 b1
  refine Ok_bind ((parseSep_spec _ b1.1).bpost b1) ?_
  intro ⟨ok, nb2⟩ s2 b2
  simp only []
  refine Ok_bind (P := fun nb3 s3 => BPost e nb s nb3 s3) ?_ ?_
  · split
    · refine Ok_bind ((parseSpacesAndNewlines_spec b2.1).bpost b2) ?_
      intro nb3 s3 b3
      rw [bind_of_eq (loopFuel_eq _ _)]
      refine Ok_bind ((lambdaLoop_spec hrec _ nb3 s3 b3.1).bpost b3) ?_
      intro nb4 s4 b4
      refine Ok_bind ((parseSep_spec _ b4.1).bpost b4) ?_
      intro ⟨ok2, nb5⟩ s5 b5
      simp only []
      refine Ok_bind (P := fun _ s6 => BPost e nb s nb5 s6) ?_ ?_
      · split
        · exact Ok_of_eq (error_eq b5.1.inv _) (b5.err _)
        · exact Ok_pure b5
      intro _ s6 b6
      exact Ok_pure b6
    · exact Ok_pure b2
  intro nb3 s3 b3
  refine Ok_bind ((child_add hrec .chunk trivial rfl b3.1).bpost b3) ?_
  intro c s4 b4
  exact close_spec _ _ b4

theorem bracedLoop_spec (hrec : RecSpec e rec) : ∀ (n : Nat) (nb : NB) (s : St), BInv e nb s →
    Ok (bracedLoop rec n nb e s) (fun nb' s' => BPost e nb s nb' s')
  | 0, _, _, _ => Ok_fuel
  | n + 1, nb, s, h => by
    unfold bracedLoop
    rw [bind_of_eq (peek_eq h.inv)]
    split
    · refine Ok_bind (parseSpacesAndNewlines_spec h) ?_
      intro nb1 s1 b1
      refine Ok_bind ((parseSep_spec _ b1.1).bpost b1) ?_
      intro ⟨_, nb2⟩ s2 b2
      simp only []
      refine Ok_bind ((parseSpacesAndNewlines_spec b2.1).bpost b2) ?_
      intro nb3 s3 b3
      refine Ok_bind ((child_add hrec (.compound BracedElemExpr) trivial rfl b3.1).bpost b3) ?_
      intro c s4 b4
      exact (bracedLoop_spec hrec n _ s4 b4.1).bpost b4
    · exact Ok_pure (BPost.refl h)

theorem lbrace_specD {d : Nat} (hrec : RecSpec e rec) {nb : NB} {s : St}
    (hfirst : Ok (parseSep nb 123 e s) (fun p s' => BPostD d e nb s p.2 s')) :
    Ok (lbrace rec nb e s) (fun nb' s' => BPostD d e nb s nb' s') := by
  unfold lbrace
  refine Ok_bind hfirst ?_
  intro ⟨_, nb1⟩ s1 b1
  simp only []
  rw [bind_of_eq (peek_eq b1.1.inv)]
  split
  · exact (lambda_spec hrec b1.1).bpost b1
  · have b1' : BPostD d e nb s (nb1.setType Braced) s1 := b1.settype _
    refine Ok_bind ((child_add hrec (.compound BracedElemExpr) trivial rfl b1'.1).bpost b1') ?_
    intro c s2 b2
    rw [bind_of_eq (loopFuel_eq _ _)]
    refine Ok_bind ((bracedLoop_spec hrec _ _ s2 b2.1).bpost b2) ?_
    intro nb3 s3 b3
    exact close_spec _ _ b3

theorem lbrace_spec (hrec : RecSpec e rec) {nb : NB} {s : St} (h : BInv e nb s) :
    Ok (lbrace rec nb e s) (fun nb' s' => BPost e nb s nb' s') :=
  lbrace_specD hrec (parseSep_spec _ h)

/-- what a body leaves behind: the children are well-formed and, if there are
any, tile `[From, pos)` -/
def BodyPost (e : Env) (nb : NB) (s : St) (nb' : NB) (s' : St) : Prop :=
  Fwd e s s' ∧ nb'.frm = nb.frm ∧ WFs e.src nb'.children ∧
    (nb'.children = [] ∨ (Consec nb'.frm nb'.children ∧ endOf nb'.frm nb'.children = s'.pos))

theorem BPostD.body {d : Nat} {nb nb' : NB} {s s' : St} (h : BPostD d e nb s nb' s') : BodyPost e nb s nb' s' :=
  ⟨h.fwd, h.2.1, h.1.wfs, Or.inr ⟨h.1.consec, h.1.sync⟩⟩

theorem LeafPost.body {nb nb' : NB} {s s' : St} (h : LeafPost e nb s nb' s') (hnil : nb.children = []) :
    BodyPost e nb s nb' s' :=
  ⟨h.1, h.2.1, by rw [h.2.2, hnil]; trivial, Or.inl (by rw [h.2.2, hnil])⟩

theorem primaryBody_spec (hrec : RecSpec e rec) {nb : NB} {s : St} (h : BInv e nb s)
    (hnil : nb.children = []) (hfrm : nb.frm = s.pos) :
    Ok (primaryBody rec nb e s) (fun nb' s' => BodyPost e nb s nb' s') := by
  have hi := h.inv
  unfold primaryBody
  rw [bind_of_eq (getEnv_eq _ _), bind_of_eq (peek_eq hi)]
  split
  · rw [bind_of_eq (error_eq hi _)]
    exact Ok_pure ((BPost.refl h).err _).body
  split
  · exact (bareword_spec hi (Nat.le_of_eq hfrm)).mono (fun _ _ l => l.body hnil)
  split
  · exact (singleQuoted_spec hi).mono (fun _ _ l => l.body hnil)
  split
  · exact (doubleQuoted_spec hi).mono (fun _ _ l => l.body hnil)
  split
  · next hc =>
    have hne : s.pos ≠ e.src.length := by
      intro heq
      have := peekRune_eof.mpr heq
      simp [this, eof] at hc
    exact (variableP_spec hi hfrm hne).mono (fun _ _ l => l.body hnil)
  split
  · exact (starWildcard_spec hi (Nat.le_of_eq hfrm)).mono (fun _ _ l => l.body hnil)
  split
  · rw [bind_of_eq (hasPrefix_eq hi _)]
    split
    · exact (exitusCapture_spec hrec h).mono (fun _ _ b => b.body)
    · exact (questionWildcard_spec hi (Nat.le_of_eq hfrm)).mono (fun _ _ l => l.body hnil)
  split
  · exact (outputCapture_spec hrec h).mono (fun _ _ b => b.body)
  split
  · exact (lbracket_spec hrec h).mono (fun _ _ b => b.body)
  split
  · exact (lbrace_spec hrec h).mono (fun _ _ b => b.body)
  · exact Ok_pure ((BPost.refl h).settype _).body

end
end C01
