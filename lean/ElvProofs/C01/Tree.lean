/-
Well-formedness of parse trees (the "lossless" half of C01) and the generic
facts about it: appending a child, leaves concatenate to the covered text.
-/
import ElvModel.C01.Model
namespace C01
open Go

/-- `src[a:b]` as a total function (the value `Go.slice` returns when it does not panic). -/
def srcSlice (src : Bytes) (a b : Nat) : Bytes := (src.drop a).take (b - a)

/-- Children are consecutive starting at `a`. -/
def Consec : Nat → List Node → Prop
  | _, [] => True
  | a, c :: cs => c.frm = a ∧ Consec c.to cs

/-- Where consecutive children starting at `a` end (`a` if there is none). -/
def endOf : Nat → List Node → Nat
  | a, [] => a
  | _, c :: cs => endOf c.to cs

mutual
/-- Property C01 (b)+(d) for one tree: ranges inside the source, text is the
source slice of the range, children (if any) tile the range in order, and the
same below. -/
def WF (src : Bytes) : Node → Prop
  | .mk _ a b t _ cs =>
    a ≤ b ∧ b ≤ src.length ∧ t = srcSlice src a b ∧
      (cs = [] ∨ (Consec a cs ∧ endOf a cs = b)) ∧ WFs src cs
def WFs (src : Bytes) : List Node → Prop
  | [] => True
  | c :: cs => WF src c ∧ WFs src cs
end

mutual
/-- Concatenation of the texts of the leaves, in order. -/
def leaves : Node → Bytes
  | .mk _ _ _ t _ cs => if cs.isEmpty then t else leavesL cs
def leavesL : List Node → Bytes
  | [] => []
  | c :: cs => leaves c ++ leavesL cs
end

theorem WF_range {src : Bytes} {n : Node} (h : WF src n) : n.frm ≤ n.to ∧ n.to ≤ src.length := by
  cases n; simp only [WF] at h; exact ⟨h.1, h.2.1⟩

theorem WF_text {src : Bytes} {n : Node} (h : WF src n) : n.text = srcSlice src n.frm n.to := by
  cases n; simp only [WF] at h; exact h.2.2.1

theorem WFs_append {src : Bytes} {cs : List Node} {c : Node} :
    WFs src (cs ++ [c]) ↔ WFs src cs ∧ WF src c := by
  induction cs with
  | nil => simp [WFs]
  | cons d ds ih => simp [WFs, ih, and_assoc]

theorem Consec_append {a : Nat} {cs : List Node} {c : Node} :
    Consec a (cs ++ [c]) ↔ Consec a cs ∧ c.frm = endOf a cs := by
  induction cs generalizing a with
  | nil => simp [Consec, endOf]
  | cons d ds ih => simp [Consec, endOf, ih, and_assoc]

theorem endOf_append {a : Nat} {cs : List Node} {c : Node} : endOf a (cs ++ [c]) = c.to := by
  induction cs generalizing a with
  | nil => simp [endOf]
  | cons d ds ih => simp [endOf, ih]

theorem endOf_eq_getLast (a : Nat) (cs : List Node) :
    endOf a cs = (cs.getLast?.map Node.to).getD a := by
  induction cs generalizing a with
  | nil => simp [endOf]
  | cons d ds ih =>
    simp only [endOf, ih]
    cases ds with
    | nil => simp
    | cons e es =>
      rw [List.getLast?_cons_cons]
      cases h : (e :: es).getLast? with
      | none => simp at h
      | some c => simp

theorem NB.lastTo_eq (nb : NB) : nb.lastTo = endOf nb.frm nb.children := by
  rw [endOf_eq_getLast]
  unfold NB.lastTo
  cases nb.children.getLast? <;> simp

theorem le_endOf {src : Bytes} {a : Nat} {cs : List Node} (hw : WFs src cs) (hc : Consec a cs) :
    a ≤ endOf a cs := by
  induction cs generalizing a with
  | nil => simp [endOf]
  | cons d ds ih =>
    simp only [WFs] at hw
    simp only [Consec] at hc
    simp only [endOf]
    have := ih hw.2 hc.2
    have := WF_range hw.1
    omega

theorem endOf_le {src : Bytes} {a : Nat} {cs : List Node} (hw : WFs src cs) (ha : a ≤ src.length) :
    endOf a cs ≤ src.length := by
  induction cs generalizing a with
  | nil => simpa [endOf]
  | cons d ds ih =>
    simp only [WFs] at hw
    simp only [endOf]
    exact ih hw.2 (WF_range hw.1).2

theorem srcSlice_append (src : Bytes) (a b c : Nat) (h1 : a ≤ b) (h2 : b ≤ c) :
    srcSlice src a b ++ srcSlice src b c = srcSlice src a c := by
  unfold srcSlice
  have : src.drop b = (src.drop a).drop (b - a) := by
    rw [List.drop_drop]; congr 1; omega
  rw [this]
  have h3 : c - a = (b - a) + (c - b) := by omega
  rw [h3, List.take_add]

theorem srcSlice_self (src : Bytes) (a : Nat) : srcSlice src a a = [] := by simp [srcSlice]

mutual
/-- (c): the leaves of a well-formed tree concatenate to the source text of its range. -/
theorem leaves_eq {src : Bytes} : ∀ (n : Node), WF src n → leaves n = srcSlice src n.frm n.to
  | .mk k a b t f cs => by
    intro h
    simp only [WF] at h
    obtain ⟨h1, h2, h3, h4, h5⟩ := h
    simp only [leaves, Node.frm, Node.to]
    cases cs with
    | nil => simpa using h3
    | cons c cs' =>
      simp only [List.isEmpty_cons, Bool.false_eq_true, if_false]
      rcases h4 with h4 | ⟨h4, h4'⟩
      · cases h4
      · rw [leavesL_eq (c :: cs') a h5 h4, h4']
theorem leavesL_eq {src : Bytes} : ∀ (cs : List Node) (a : Nat), WFs src cs → Consec a cs →
    leavesL cs = srcSlice src a (endOf a cs)
  | [], a => by intro _ _; simp [leavesL, endOf, srcSlice_self]
  | c :: cs, a => by
    intro hw hc
    simp only [WFs] at hw
    simp only [Consec] at hc
    simp only [leavesL, endOf]
    rw [leaves_eq c hw.1, leavesL_eq cs c.to hw.2 hc.2, hc.1]
    apply srcSlice_append
    · rw [← hc.1]; exact (WF_range hw.1).1
    · exact le_endOf hw.2 hc.2
end

end C01
