/-
Partial-correctness logic for the parser monad, the state invariant, and the
specifications of the primitives (`peek`, `next`, `backup`, `error`, …).
-/
import ElvProofs.C01.Utf8Last
import ElvProofs.C01.Tree
namespace C01
open Go
open Gen.C01Chars

/-- "No panic, and if there is a result it satisfies `Q`" (running out of
fuel satisfies everything: termination is a separate statement). -/
def Ok {α : Type} (o : Out α) (Q : α → St → Prop) : Prop :=
  match o with
  | .ok a s => Q a s
  | .panic _ => False
  | .fuel => True

theorem Ok.mono {α} {o : Out α} {Q Q' : α → St → Prop} (h : Ok o Q) (hq : ∀ a s, Q a s → Q' a s) :
    Ok o Q' := by
  cases o <;> simp_all [Ok]

@[simp] theorem pure_apply {α} (a : α) (e : Env) (s : St) : (pure a : M α) e s = .ok a s := rfl

theorem bind_apply {α β} (m : M α) (f : α → M β) (e : Env) (s : St) :
    (m >>= f) e s = (match m e s with
      | .ok a s' => f a e s'
      | .panic w => .panic w
      | .fuel => .fuel) := rfl

theorem bind_of_eq {α β} {m : M α} {f : α → M β} {e : Env} {s s' : St} {a : α}
    (h : m e s = .ok a s') : (m >>= f) e s = f a e s' := by
  rw [bind_apply, h]

theorem Ok_bind {α β} {m : M α} {f : α → M β} {e : Env} {s : St} {P : α → St → Prop}
    {Q : β → St → Prop} (hm : Ok (m e s) P) (hf : ∀ a s', P a s' → Ok (f a e s') Q) :
    Ok ((m >>= f) e s) Q := by
  rw [bind_apply]
  cases h : m e s with
  | ok a s' => rw [h] at hm; exact hf a s' hm
  | panic w => rw [h] at hm; exact hm.elim
  | fuel => trivial

theorem Ok_pure {α} {a : α} {e : Env} {s : St} {Q : α → St → Prop} (h : Q a s) :
    Ok ((pure a : M α) e s) Q := h

theorem Ok_of_eq {α} {o : Out α} {a : α} {s : St} {Q : α → St → Prop} (h : o = .ok a s) (hq : Q a s) :
    Ok o Q := by rw [h]; exact hq

theorem Ok_fuel {α} {e : Env} {s : St} {Q : α → St → Prop} : Ok ((outOfFuel : M α) e s) Q := trivial

/-! ### The state invariant -/

structure Inv (e : Env) (s : St) : Prop where
  le : s.pos ≤ e.src.length
  bnd : Bnd e.src s.pos
  eof : 0 < s.overEOF → s.pos = e.src.length
  errs : ∀ x ∈ s.errors, x.frm ≤ x.to ∧ x.to ≤ e.src.length

/-- `s'` is a later state: invariant holds and the position did not go back. -/
def Fwd (e : Env) (s s' : St) : Prop := Inv e s' ∧ s.pos ≤ s'.pos

theorem Fwd.refl {e : Env} {s : St} (h : Inv e s) : Fwd e s s := ⟨h, Nat.le_refl _⟩
theorem Fwd.trans {e : Env} {s s' s'' : St} (h1 : Fwd e s s') (h2 : Fwd e s' s'') : Fwd e s s'' :=
  ⟨h2.1, Nat.le_trans h1.2 h2.2⟩

/-! ### Primitives, equationally -/

/-- value of `peek` -/
def peekRune (e : Env) (s : St) : Int :=
  if s.pos = e.src.length then eof else ((decodeRune (e.src.drop s.pos)).1 : Nat)

/-- state after `next` -/
def nextSt (e : Env) (s : St) : St :=
  if s.pos = e.src.length then { s with overEOF := s.overEOF + 1 }
  else { s with pos := s.pos + (decodeRune (e.src.drop s.pos)).2 }

theorem peek_eq {e : Env} {s : St} (h : Inv e s) : peek e s = .ok (peekRune e s) s := by
  unfold peek peekRune
  have := h.le
  split <;> simp_all

theorem next_eq {e : Env} {s : St} (h : Inv e s) : next e s = .ok (peekRune e s) (nextSt e s) := by
  unfold next peekRune nextSt
  have := h.le
  split <;> simp_all

theorem getPos_eq (e : Env) (s : St) : getPos e s = .ok s.pos s := rfl
theorem getEnv_eq (e : Env) (s : St) : getEnv e s = .ok e s := rfl
theorem loopFuel_eq (e : Env) (s : St) : loopFuel e s = .ok (e.src.length + 2) s := rfl

theorem peekRune_eof {e : Env} {s : St} : peekRune e s = eof ↔ s.pos = e.src.length := by
  unfold peekRune eof
  split
  · simp [*]
  · simp only [*, iff_false]; omega

theorem peekRune_nonneg {e : Env} {s : St} (h : s.pos ≠ e.src.length) : 0 ≤ peekRune e s := by
  unfold peekRune; simp [h]

theorem nextSt_pos_le (e : Env) (s : St) : s.pos ≤ (nextSt e s).pos := by
  unfold nextSt; split <;> simp

theorem nextSt_errors (e : Env) (s : St) : (nextSt e s).errors = s.errors := by
  unfold nextSt; split <;> simp

theorem nextSt_inv {e : Env} {s : St} (h : Inv e s) : Inv e (nextSt e s) := by
  unfold nextSt
  split
  · next heq => exact ⟨h.le, h.bnd, fun _ => heq, h.errs⟩
  · next hne =>
    have hlt : s.pos < e.src.length := Nat.lt_of_le_of_ne h.le hne
    have h1 := decodeRune_size_le (e.src.drop s.pos)
    simp only [List.length_drop] at h1
    refine ⟨by simp only []; omega, Bnd.step h.bnd hlt, ?_, h.errs⟩
    intro h0
    have := h.eof h0
    omega

theorem nextSt_fwd {e : Env} {s : St} (h : Inv e s) : Fwd e s (nextSt e s) :=
  ⟨nextSt_inv h, nextSt_pos_le e s⟩

/-- `next` consumes at least one byte unless at EOF. -/
theorem nextSt_progress {e : Env} {s : St} (h : Inv e s) (hne : s.pos ≠ e.src.length) :
    s.pos < (nextSt e s).pos := by
  unfold nextSt
  simp only [hne, if_false]
  have hlt : s.pos < e.src.length := Nat.lt_of_le_of_ne h.le hne
  have := decodeRune_size_pos (e.src.drop s.pos) (drop_ne_nil hlt)
  omega

/-- `backup` right after `next` restores the state exactly. -/
theorem backup_nextSt {e : Env} {s : St} (h : Inv e s) : backup e (nextSt e s) = .ok () s := by
  unfold backup nextSt
  by_cases heq : s.pos = e.src.length
  · simp [heq]
    cases s; simp_all
  · have hlt : s.pos < e.src.length := Nat.lt_of_le_of_ne h.le heq
    have h0 : s.overEOF = 0 := by
      rcases Nat.eq_zero_or_pos s.overEOF with h0 | h0
      · exact h0
      · exact absurd (h.eof h0) heq
    have h1 := decodeRune_size_le (e.src.drop s.pos)
    simp only [List.length_drop] at h1
    have hu := decodeLast_undo e.src s.pos h.bnd hlt
    simp only [heq, if_false, h0, Nat.lt_irrefl]
    have : s.pos + (decodeRune (List.drop s.pos e.src)).2 ≤ e.src.length := by omega
    simp only [this, if_true, hu]
    simp
    cases s; simp_all

/-- state after `error` -/
def errSt (e : Env) (s : St) (m : Msg) : St :=
  { s with errors := s.errors ++ [{ frm := s.pos, to := if s.pos < e.src.length then s.pos + 1 else s.pos,
                                    partial_ := s.pos == e.src.length, msg := m }] }

theorem error_eq {e : Env} {s : St} (h : Inv e s) (m : Msg) : error m e s = .ok () (errSt e s m) := by
  unfold error errorp errSt
  have := h.le
  by_cases hlt : s.pos < e.src.length
  · simp [hlt]; omega
  · simp [hlt]; omega

theorem errSt_inv {e : Env} {s : St} (h : Inv e s) (m : Msg) : Inv e (errSt e s m) := by
  refine ⟨h.le, h.bnd, h.eof, ?_⟩
  intro x hx
  simp only [errSt, List.mem_append, List.mem_singleton] at hx
  rcases hx with hx | hx
  · exact h.errs x hx
  · subst hx
    have := h.le
    simp only []
    split <;> omega

@[simp] theorem errSt_pos (e : Env) (s : St) (m : Msg) : (errSt e s m).pos = s.pos := rfl
@[simp] theorem errSt_overEOF (e : Env) (s : St) (m : Msg) : (errSt e s m).overEOF = s.overEOF := rfl

theorem errSt_fwd {e : Env} {s : St} (h : Inv e s) (m : Msg) : Fwd e s (errSt e s m) :=
  ⟨errSt_inv h m, Nat.le_refl _⟩

theorem sliceSrc_eq {e : Env} {s : St} {a b : Nat} (h1 : a ≤ b) (h2 : b ≤ e.src.length) :
    sliceSrc a b e s = .ok (srcSlice e.src a b) s := by
  unfold sliceSrc slice srcSlice
  have : (0 : Int) ≤ (a : Int) ∧ (a : Int) ≤ (b : Int) ∧ (b : Int) ≤ (e.src.length : Int) := by omega
  simp only [this, and_self, if_true, Int.toNat_natCast]

theorem hasPrefix_eq {e : Env} {s : St} (h : Inv e s) (p : Bytes) :
    hasPrefix p e s = .ok (p.isPrefixOf (e.src.drop s.pos)) s := by
  unfold hasPrefix; simp [h.le]

end C01
