/-
Termination, part 2: builder steps and the leaf alternatives of `Primary`.
-/
import ElvProofs.C01.Term
namespace C01
open Go
open Gen.C01Chars

section
variable {e : Env}

theorem addSep_nf {nb : NB} {s : St} (h : BPre e nb s) : NF (addSep nb e s) := by
  unfold addSep
  rw [bind_of_eq (getPos_eq _ _), NB.lastTo_eq]
  split
  · next hlt =>
    rw [bind_of_eq (sliceSrc_eq (Nat.le_of_lt hlt) h.inv.le)]
    exact NF_pure
  · exact NF_pure

theorem parseSep_nf {nb : NB} {s : St} (sep : Int) (h : BInv e nb s) : NF (parseSep nb sep e s) := by
  unfold parseSep
  rw [bind_of_eq (peek_eq h.inv)]
  split
  · rw [bind_of_eq (next_eq h.inv)]
    have hp := BPre.of_fwd h (nextSt_fwd h.inv)
    exact NF_bind (addSep_spec hp) (addSep_nf hp) (fun _ _ _ => NF_pure)
  · exact NF_pure

theorem parseSpacesInner_nf {nb : NB} {s : St} (nl : Bool) (h : BInv e nb s) :
    NF (parseSpacesInner nb nl e s) := by
  unfold parseSpacesInner
  rw [bind_of_eq (loopFuel_eq _ _)]
  refine NF_bind (spacesLoop_spec nl _ _ h.inv) (spacesLoop_nf nl _ _ h.inv (rem_lt_fuel _)) ?_
  intro _ s1 f1
  exact addSep_nf (BPre.of_fwd h f1)

theorem bareword_nf {nb : NB} {s : St} (h : Inv e s) (hf : nb.frm ≤ s.pos) : NF (bareword nb e s) := by
  unfold bareword
  rw [bind_of_eq (getEnv_eq _ _), bind_of_eq (loopFuel_eq _ _)]
  refine NF_bind (skipWhile_spec _ _ _ h) (skipWhile_nf (fun r => allowedInBareword e.isPrint r (nb.setType Bareword).f.ctx)
    (eof_not_bareword _ _) _ _ h (rem_lt_fuel _)) ?_
  intro _ s' f1
  rw [bind_of_eq (getPos_eq _ _)]
  simp only [NB.setType_frm]
  rw [bind_of_eq (sliceSrc_eq (Nat.le_trans hf f1.2) f1.1.le)]
  exact NF_pure

theorem starWildcard_nf {nb : NB} {s : St} (h : Inv e s) (hf : nb.frm ≤ s.pos) : NF (starWildcard nb e s) := by
  unfold starWildcard
  rw [bind_of_eq (loopFuel_eq _ _)]
  refine NF_bind (skipWhile_spec _ _ _ h) (skipWhile_nf (fun r => r == 42) (by decide) _ _ h (rem_lt_fuel _)) ?_
  intro _ s' f1
  rw [bind_of_eq (getPos_eq _ _)]
  simp only [NB.setType_frm]
  rw [bind_of_eq (sliceSrc_eq (Nat.le_trans hf f1.2) f1.1.le)]
  exact NF_pure

theorem questionWildcard_nf {nb : NB} {s : St} (h : Inv e s) (hf : nb.frm ≤ s.pos) :
    NF (questionWildcard nb e s) := by
  unfold questionWildcard
  rw [bind_of_eq (peek_eq h)]
  refine NF_bind (P := fun _ s' => Fwd e s s') ?_ ?_ ?_
  · split
    · rw [bind_of_eq (next_eq h)]; exact Ok_pure (nextSt_fwd h)
    · exact Ok_pure (Fwd.refl h)
  · split
    · rw [bind_of_eq (next_eq h)]; exact NF_pure
    · exact NF_pure
  · intro _ s' f1
    rw [bind_of_eq (getPos_eq _ _)]
    simp only [NB.setType_frm]
    rw [bind_of_eq (sliceSrc_eq (Nat.le_trans hf f1.2) f1.1.le)]
    exact NF_pure

theorem singleQuoted_nf {nb : NB} {s : St} (h : Inv e s) : NF (singleQuoted nb e s) := by
  unfold singleQuoted
  rw [bind_of_eq (next_eq h)]
  exact NF_bind (singleQuotedInner_spec (nextSt_inv h)) (singleQuotedInner_nf (nextSt_inv h)) (fun _ _ _ => NF_pure)

theorem doubleQuoted_nf {nb : NB} {s : St} (h : Inv e s) : NF (doubleQuoted nb e s) := by
  unfold doubleQuoted
  rw [bind_of_eq (next_eq h)]
  exact NF_bind (doubleQuotedInner_spec (nextSt_inv h)) (doubleQuotedInner_nf (nextSt_inv h)) (fun _ _ _ => NF_pure)

theorem variableP_nf {nb : NB} {s : St} (h : Inv e s) (hf : nb.frm = s.pos) (hne : s.pos ≠ e.src.length) :
    NF (variableP nb e s) := by
  have h1 := nextSt_inv h
  have hp1 := nextSt_progress h hne
  have h2 := nextSt_inv h1
  unfold variableP
  rw [bind_of_eq (getEnv_eq _ _), bind_of_eq (next_eq h), bind_of_eq (next_eq h1)]
  split
  · rw [bind_of_eq (backup_nextSt h1), bind_of_eq (error_eq h1 _), bind_of_eq (next_eq (errSt_inv h1 _))]
    exact NF_pure
  split
  · exact NF_bind (singleQuotedInner_spec h2) (singleQuotedInner_nf h2) (fun _ _ _ => NF_pure)
  split
  · exact NF_bind (doubleQuotedInner_spec h2) (doubleQuotedInner_nf h2) (fun _ _ _ => NF_pure)
  · refine NF_bind (P := fun _ s' => Fwd e (nextSt e s) s') ?_ ?_ ?_
    · split
      · rw [bind_of_eq (backup_nextSt h1)]
        exact (Ok_of_eq (error_eq h1 _) (errSt_fwd h1 _))
      · exact Ok_pure (nextSt_fwd h1)
    · split
      · rw [bind_of_eq (backup_nextSt h1)]
        exact NF_of_eq (error_eq h1 _)
      · exact NF_pure
    · intro _ s3 f3
      rw [bind_of_eq (loopFuel_eq _ _)]
      refine NF_bind (skipWhile_spec _ _ _ f3.1)
        (skipWhile_nf (allowedInVariableName e.isPrint) (eof_not_varname _) _ _ f3.1 (rem_lt_fuel _)) ?_
      intro _ s4 f4
      have : nb.frm + 1 ≤ s4.pos := by have := f3.2; have := f4.2; omega
      rw [bind_of_eq (getPos_eq _ _)]
      simp only [NB.setType_frm]
      rw [bind_of_eq (sliceSrc_eq this f4.1.le)]
      exact NF_pure

end
end C01
