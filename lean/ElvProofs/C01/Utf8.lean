/-
UTF-8 facts needed by the parser proofs: sizes returned by `decodeRune`,
ASCII runes come from one ASCII byte, and `decodeLastRune` undoes
`decodeRune` at every position the parser can be at (a *boundary*: a
position reached from 0 by repeatedly decoding forward).
-/
import ElvModel.Go.Utf8
namespace C01
open Go

theorem decodeRune_size_pos (s : Bytes) (h : s ≠ []) : 1 ≤ (decodeRune s).2 := by
  unfold decodeRune
  split
  · contradiction
  · simp only []
    repeat' split
    all_goals simp

theorem decodeRune_size_le (s : Bytes) : (decodeRune s).2 ≤ s.length := by
  unfold decodeRune
  split
  · simp
  · simp only []
    repeat' split
    all_goals simp

theorem decodeRune_size_le4 (s : Bytes) : (decodeRune s).2 ≤ 4 := by
  unfold decodeRune
  split
  · simp
  · simp only []
    repeat' split
    all_goals simp

/-- A rune below 0x80 is decoded from exactly one byte, which is that rune. -/
theorem decodeRune_ascii (b : UInt8) (t : Bytes) (h : (decodeRune (b :: t)).1 < 128) :
    (decodeRune (b :: t)).1 = b.toNat ∧ (decodeRune (b :: t)).2 = 1 := by
  revert h
  unfold decodeRune
  simp only [RuneError, isCont]
  repeat' split
  all_goals simp_all
  all_goals (try split)
  all_goals (try simp_all)
  all_goals omega

/-- The first byte of a multi-byte decoding is a lead byte. -/
theorem decodeRune_lead (b : UInt8) (t : Bytes) (h : 2 ≤ (decodeRune (b :: t)).2) :
    0xC2 ≤ b.toNat := by
  revert h
  unfold decodeRune
  simp only [RuneError, isCont]
  repeat' split
  all_goals simp_all
  all_goals (try split)
  all_goals (try simp_all)
  all_goals omega

/-- Every further byte of a multi-byte decoding is a continuation byte. -/
theorem decodeRune_cont (s : Bytes) (i : Nat) (h1 : 1 ≤ i) (h2 : i < (decodeRune s).2) :
    ∃ b, s[i]? = some b ∧ isCont b.toNat = true := by
  revert h2
  unfold decodeRune
  split
  · simp
  · simp only [RuneError, isCont]
    repeat' split
    all_goals simp_all
    all_goals (try split)
    all_goals (try simp_all)
    all_goals (try omega)
    all_goals
      intro hi
      have hc : i = 1 ∨ i = 2 ∨ i = 3 := by omega
      rcases hc with rfl | rfl | rfl <;> simp_all <;> omega

theorem decodeRune_append2 (a b : UInt8) (t : Bytes) (r : Nat) (h : decodeRune [a, b] = (r, 2)) :
    decodeRune (a :: b :: t) = (r, 2) := by
  unfold decodeRune at h
  simp only [] at h
  repeat' split at h
  all_goals (simp only [Prod.mk.injEq] at h; obtain ⟨rfl, h2⟩ := h; simp_all [decodeRune, RuneError])
  all_goals (try (intros; omega))
  all_goals (repeat' split)
  all_goals (first | omega | (simp (config := {decide := false}); done) | trace_state)

theorem decodeRune_append3 (a b c : UInt8) (t : Bytes) (r : Nat) (h : decodeRune [a, b, c] = (r, 3)) :
    decodeRune (a :: b :: c :: t) = (r, 3) := by
  unfold decodeRune at h
  simp only [] at h
  repeat' split at h
  all_goals (simp only [Prod.mk.injEq] at h; obtain ⟨rfl, h2⟩ := h; simp_all [decodeRune, RuneError])
  all_goals (try (intros; omega))
  all_goals (repeat' split)
  all_goals (first | omega | (simp (config := {decide := false}); done) | trace_state)

theorem decodeRune_append4 (a b c d : UInt8) (t : Bytes) (r : Nat) (h : decodeRune [a, b, c, d] = (r, 4)) :
    decodeRune (a :: b :: c :: d :: t) = (r, 4) := by
  unfold decodeRune at h
  simp only [] at h
  repeat' split at h
  all_goals (simp only [Prod.mk.injEq] at h; obtain ⟨rfl, h2⟩ := h; simp_all [decodeRune, RuneError])
  all_goals (try (intros; omega))
  all_goals (repeat' split)
  all_goals (first | omega | (simp (config := {decide := false}); done) | trace_state)

/-- `decodeRune` only looks at the bytes it reports as consumed. -/
theorem decodeRune_take' (t : Bytes) (r n : Nat) (h : decodeRune t = (r, n)) :
    decodeRune (t.take n) = (r, n) := by
  unfold decodeRune at h
  split at h
  · cases h; rfl
  · simp only [] at h
    repeat' split at h
    all_goals (simp only [Prod.mk.injEq] at h; obtain ⟨rfl, rfl⟩ := h; simp_all [decodeRune, RuneError])
    all_goals (try (intros; omega))
    all_goals (repeat' split)
    all_goals (first | omega | (simp (config := {decide := false}); done))

/-- A complete multi-byte decoding of a prefix is the decoding of the whole. -/
theorem decodeRune_of_take (t : Bytes) (r k : Nat) (h : decodeRune (t.take k) = (r, k)) (hk : 2 ≤ k) :
    decodeRune t = (r, k) := by
  have h4 : k ≤ 4 := by have := decodeRune_size_le4 (t.take k); rw [h] at this; exact this
  have hl : k ≤ (t.take k).length := by have := decodeRune_size_le (t.take k); rw [h] at this; exact this
  have hl' : k ≤ t.length := by simp at hl; omega
  have hc : k = 2 ∨ k = 3 ∨ k = 4 := by omega
  rcases hc with rfl | rfl | rfl
  · match t, hl' with
    | a :: b :: rest, _ => exact decodeRune_append2 a b rest r (by simpa using h)
  · match t, hl' with
    | a :: b :: c :: rest, _ => exact decodeRune_append3 a b c rest r (by simpa using h)
  · match t, hl' with
    | a :: b :: c :: d :: rest, _ => exact decodeRune_append4 a b c d rest r (by simpa using h)

/-! ### Boundaries -/

/-- Positions reachable from 0 by decoding forward: the only values `pos` takes. -/
inductive Bnd (src : Bytes) : Nat → Prop where
  | zero : Bnd src 0
  | step {p : Nat} : Bnd src p → p < src.length → Bnd src (p + (decodeRune (src.drop p)).2)

theorem drop_ne_nil {src : Bytes} {p : Nat} (h : p < src.length) : src.drop p ≠ [] := by
  intro h'
  have := congrArg List.length h'
  simp at this
  omega

/-- No boundary lies strictly inside a multi-byte rune. -/
theorem Bnd.not_inside {src : Bytes} {c : Nat} (hc : Bnd src c) :
    ∀ q m, (decodeRune (src.drop q)).2 = m → 2 ≤ m → ¬ (q < c ∧ c < q + m) := by
  induction hc with
  | zero => intro q m _ _ h; omega
  | @step c hc hlt ih =>
    intro q m hm h2 ⟨h3, h4⟩
    have hk1 := decodeRune_size_pos (src.drop c) (drop_ne_nil hlt)
    have ih' := ih q m hm h2
    -- the lead byte at q
    have hql : m ≤ (src.drop q).length := hm ▸ decodeRune_size_le _
    have hq : q < src.length := by simp at hql; omega
    by_cases hcq : c < q
    · -- q is strictly inside the rune at c: a continuation byte
      obtain ⟨b, hb, hcont⟩ := decodeRune_cont (src.drop c) (q - c) (by omega) (by omega)
      have hidx : src[q]? = some b := by
        rw [List.getElem?_drop] at hb
        have : c + (q - c) = q := by omega
        rwa [this] at hb
      match hd : src.drop q with
      | [] => exact drop_ne_nil hq hd
      | b' :: t =>
        have hb' : src[q]? = some b' := by
          have := List.getElem?_drop (xs := src) (i := q) (j := 0)
          rw [hd] at this
          simpa using this.symm
        have : b = b' := by rw [hidx] at hb'; exact Option.some.inj hb'
        subst this
        have hlead := decodeRune_lead b t (by rw [← hd, hm]; exact h2)
        simp [isCont] at hcont
        omega
    · by_cases hcq' : c = q
      · subst hcq'; omega
      · omega

end C01
