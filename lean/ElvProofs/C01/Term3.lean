/-
Termination, part 3: the grammar loops and bodies other than `Primary`.
A recursive call for `nt'` at state `s'` needs fuel `need nt' s' =
7·(bytes left) + rank nt'`; every call made by a body has a smaller `need`
than the body itself.
-/
import ElvProofs.C01.Term2
namespace C01
open Go
open Gen.C01Chars

/-- how many levels a nonterminal can descend without consuming a byte -/
def rank : NT → Nat
  | .primary _ => 0
  | .indexing _ => 1
  | .compound _ => 2
  | .array => 3
  | .mapPair => 3
  | .redir _ => 3
  | .form => 4
  | .filter => 4
  | .pipeline => 5
  | .chunk => 6

def need (e : Env) (nt : NT) (s : St) : Nat := 7 * rem e s + rank nt

/-- the recursive calls return when given more than `need` fuel (abstractly: `need < N`) -/
def RecNF (e : Env) (rec : NT → M Node) (N : Nat) : Prop :=
  ∀ nt s, Inv e s → NTPre e nt s → need e nt s < N → NF (rec nt e s)

section
variable {e : Env} {rec : NT → M Node} {N : Nat}

theorem rem_D1 {nb nb' : NB} {s s' : St} (b : BPostD 1 e nb s nb' s') : rem e s' + 1 ≤ rem e s := by
  have := b.2.2; have := b.1.inv.le; unfold rem; omega

theorem rem_D {d : Nat} {nb nb' : NB} {s s' : St} (b : BPostD d e nb s nb' s') : rem e s' ≤ rem e s :=
  rem_mono b.fwd

theorem parseSepsLoop_nf : ∀ (n k : Nat) (nb : NB) (s : St), BInv e nb s → rem e s < n →
    NF (parseSepsLoop n k nb e s)
  | 0, _, _, _, _, h => by omega
  | n + 1, k, nb, s, h, hr => by
    unfold parseSepsLoop
    rw [bind_of_eq (peek_eq h.inv)]
    split
    · next hc =>
      have hne : peekRune e s ≠ eof := by
        intro heq; rw [heq] at hc; revert hc; decide
      refine NF_bind (parseSep_prog _ h rfl hne) (parseSep_nf _ h) ?_
      intro ⟨_, nb1⟩ s1 b1
      exact parseSepsLoop_nf n _ nb1 s1 b1.1 (by have := rem_D1 b1; omega)
    split
    · next hc =>
      have hr' : IsInlineWhitespace (peekRune e s) = true ∨ (false = true ∧ IsWhitespace (peekRune e s) = true) ∨
          peekRune e s = 35 := by
        simp only [Bool.or_eq_true, beq_iff_eq] at hc
        rcases hc with hc | hc
        · exact Or.inl hc
        · exact Or.inr (Or.inr hc)
      refine NF_bind (spaces_prog false h hr') (parseSpacesInner_nf false h) ?_
      intro nb1 s1 b1
      exact parseSepsLoop_nf n _ nb1 s1 b1.1 (by have := rem_D1 b1; omega)
    · exact NF_pure

theorem parseSeps_nf {nb : NB} {s : St} (h : BInv e nb s) : NF (parseSeps nb e s) := by
  unfold parseSeps
  rw [bind_of_eq (loopFuel_eq _ _)]
  exact parseSepsLoop_nf _ _ _ _ h (rem_lt_fuel _)

theorem chunkLoop_nf (hrec : RecSpec e rec) (hprog : RecProg e rec) (hnf : RecNF e rec N) :
    ∀ (n : Nat) (nb : NB) (s : St), BInv e nb s → rem e s < n → 7 * rem e s + 5 < N →
    NF (chunkLoop rec n nb e s)
  | 0, _, _, _, h, _ => by omega
  | n + 1, nb, s, h, hr, hN => by
    unfold chunkLoop
    rw [bind_of_eq (getEnv_eq _ _), bind_of_eq (peek_eq h.inv)]
    split
    · next hc =>
      refine NF_bind (child_addD hrec hprog .pipeline trivial rfl hc h) (hnf .pipeline s h.inv trivial hN) ?_
      intro p s1 b1
      have r1 := rem_D1 b1
      refine NF_bind (parseSeps_spec b1.1) (parseSeps_nf b1.1) ?_
      intro ⟨k, nb2⟩ s2 b2
      have r2 := rem_D b2
      simp only []
      split
      · exact NF_pure
      · exact chunkLoop_nf hrec hprog hnf n nb2 s2 b2.1 (by omega) (by omega)
    · exact NF_pure

theorem chunkBody_nf (hrec : RecSpec e rec) (hprog : RecProg e rec) (hnf : RecNF e rec N) {nb : NB} {s : St}
    (h : BInv e nb s) (hN : 7 * rem e s + 5 < N) : NF (chunkBody rec nb e s) := by
  unfold chunkBody
  refine NF_bind (parseSeps_spec h) (parseSeps_nf h) ?_
  intro ⟨_, nb1⟩ s1 b1
  have r1 := rem_D b1
  simp only []
  rw [bind_of_eq (loopFuel_eq _ _)]
  exact chunkLoop_nf hrec hprog hnf _ nb1 s1 b1.1 (rem_lt_fuel _) (by omega)

theorem pipelineLoop_nf (hrec : RecSpec e rec) (hnf : RecNF e rec N) :
    ∀ (n : Nat) (nb : NB) (s : St), BInv e nb s → rem e s < n → 7 * rem e s + 4 < N →
    NF (pipelineLoop rec n nb e s)
  | 0, _, _, _, h, _ => by omega
  | n + 1, nb, s, h, hr, hN => by
    unfold pipelineLoop
    rw [bind_of_eq (getEnv_eq _ _)]
    refine NF_bind (parseSep_true 124 (by decide) h) (parseSep_nf _ h) ?_
    intro ⟨ok, nb1⟩ s1 ⟨b1, hpr⟩
    have r1 := rem_D b1
    simp only []
    split
    · next hok =>
      have hp1 := hpr hok
      have hle1 := b1.1.inv.le
      refine NF_bind (parseSpacesAndNewlines_spec b1.1) (parseSpacesInner_nf true b1.1) ?_
      intro nb2 s2 b2
      have r2 := rem_D b2
      rw [bind_of_eq (peek_eq b2.1.inv)]
      split
      · rw [bind_of_eq (error_eq b2.1.inv _)]
        exact NF_pure
      · refine NF_bind (child_add hrec .form trivial rfl b2.1) (hnf .form s2 b2.1.inv trivial (by
          show 7 * rem e s2 + 4 < N; omega)) ?_
        intro f s3 b3
        have r3 := rem_D b3
        exact pipelineLoop_nf hrec hnf n _ s3 b3.1 (by unfold rem at *; omega) (by omega)
    · exact NF_pure

theorem pipelineBody_nf (hrec : RecSpec e rec) (hnf : RecNF e rec N) {nb : NB} {s : St}
    (h : BInv e nb s) (hN : 7 * rem e s + 4 < N) : NF (pipelineBody rec nb e s) := by
  unfold pipelineBody
  refine NF_bind (child_add hrec .form trivial rfl h) (hnf .form s h.inv trivial hN) ?_
  intro f s1 b1
  have r1 := rem_D b1
  rw [bind_of_eq (loopFuel_eq _ _)]
  refine NF_bind ((pipelineLoop_spec hrec _ _ s1 b1.1)) (pipelineLoop_nf hrec hnf _ _ s1 b1.1 (rem_lt_fuel _) (by omega)) ?_
  intro ⟨returned, nb2⟩ s2 b2
  simp only []
  split
  · exact NF_pure
  · refine NF_bind (parseSpaces_spec b2.1) (parseSpacesInner_nf false b2.1) ?_
    intro nb3 s3 b3
    rw [bind_of_eq (peek_eq b3.1.inv)]
    split
    · rw [bind_of_eq (next_eq b3.1.inv)]
      have f4 := nextSt_fwd b3.1.inv
      have hp4 := BPre.of_fwd b3.1 f4
      refine NF_bind (addSep_spec hp4) (addSep_nf hp4) ?_
      intro nb4 s4 ⟨hs, hb, hf⟩
      subst hs
      exact parseSpacesInner_nf false (nb := { nb4 with f := { nb4.f with flag := true } }) (hb.congr rfl rfl)
    · exact NF_pure

/-- add a child, then spaces: NF -/
theorem add_spaces_nf {d : Nat} (nl : Bool) {nb : NB} {s s1 : St} {n : Node} (b1 : BPostD d e nb s (nb.add n) s1) :
    NF (parseSpacesInner (nb.add n) nl e s1) := parseSpacesInner_nf nl b1.1

theorem formLoop_nf (hrec : RecSpec e rec) (hprog : RecProg e rec) (hnf : RecNF e rec N) :
    ∀ (n : Nat) (nb : NB) (s : St), BInv e nb s → rem e s < n → 7 * rem e s + 3 < N →
    NF (formLoop rec n nb e s)
  | 0, _, _, _, h, _ => by omega
  | n + 1, nb, s, h, hr, hN => by
    unfold formLoop
    rw [bind_of_eq (getEnv_eq _ _), bind_of_eq (peek_eq h.inv)]
    split
    · next hc =>
      rw [bind_of_eq (next_eq h.inv), bind_of_eq (peek_eq (nextSt_inv h.inv))]
      rw [bind_of_eq (backup_nextSt h.inv)]
      split
      · exact NF_pure
      · have hst : Starts e .mapPair (peekRune e s) := (by simpa using hc : peekRune e s = 38)
        refine NF_bind (child_addD hrec hprog .mapPair trivial rfl hst h) (hnf .mapPair s h.inv trivial hN) ?_
        intro mp s1 b1
        have r1 := rem_D1 b1
        refine NF_bind (add_spaces false b1) (add_spaces_nf false b1) ?_
        intro nb2 s2 b2
        have r2 := rem_D1 b2
        exact formLoop_nf hrec hprog hnf n nb2 s2 b2.1 (by omega) (by omega)
    split
    · next hc =>
      refine NF_bind ((hrec (.compound NormalExpr) s h.inv trivial).and
          (hprog (.compound NormalExpr) s h.inv trivial hc))
        (hnf (.compound NormalExpr) s h.inv trivial (by show 7 * rem e s + 2 < N; omega)) ?_
      intro cn s1 ⟨⟨f1, hw1, hto1, hfrm1⟩, hp1⟩
      have hle1 := f1.1.le
      have r1 : rem e s1 + 1 ≤ rem e s := by unfold rem; omega
      rw [bind_of_eq (peek_eq f1.1)]
      split
      · refine NF_bind (hrec (.redir (some cn)) s1 f1.1 ⟨hw1, hto1⟩)
          (hnf (.redir (some cn)) s1 f1.1 ⟨hw1, hto1⟩ (by show 7 * rem e s1 + 3 < N; omega)) ?_
        intro rd s2 ⟨f2, hw2, hto2, hfrm2⟩
        have b2 : BPostD 1 e nb s (nb.add rd) s2 :=
          ⟨BInv.add h f2.1 hw2 (hfrm2.trans hfrm1) hto2, rfl, by have := f2.2; omega⟩
        refine NF_bind (add_spaces false b2) (add_spaces_nf false b2) ?_
        intro nb3 s3 b3
        have r3 := rem_D1 b3
        exact formLoop_nf hrec hprog hnf n nb3 s3 b3.1 (by omega) (by omega)
      · have b1 : BPostD 1 e nb s (nb.add cn) s1 := ⟨BInv.add h f1.1 hw1 hfrm1 hto1, rfl, hp1⟩
        refine NF_bind (add_spaces false b1) (add_spaces_nf false b1) ?_
        intro nb3 s3 b3
        have r3 := rem_D1 b3
        exact formLoop_nf hrec hprog hnf n nb3 s3 b3.1 (by omega) (by omega)
    split
    · next hc =>
      refine NF_bind (child_addD hrec hprog (.redir none) trivial rfl hc h) (hnf (.redir none) s h.inv trivial hN) ?_
      intro rd s1 b1
      refine NF_bind (add_spaces false b1) (add_spaces_nf false b1) ?_
      intro nb2 s2 b2
      have r2 := rem_D1 b2
      exact formLoop_nf hrec hprog hnf n nb2 s2 b2.1 (by omega) (by omega)
    · exact NF_pure

theorem formBody_nf (hrec : RecSpec e rec) (hprog : RecProg e rec) (hnf : RecNF e rec N) {nb : NB} {s : St}
    (h : BInv e nb s) (hN : 7 * rem e s + 3 < N) : NF (formBody rec nb e s) := by
  unfold formBody
  refine NF_bind (child_add hrec (.compound CmdExpr) trivial rfl h)
    (hnf (.compound CmdExpr) s h.inv trivial (by show 7 * rem e s + 2 < N; omega)) ?_
  intro hd s1 b1
  refine NF_bind (add_spaces false b1) (add_spaces_nf false b1) ?_
  intro nb2 s2 b2
  have r2 := rem_D b2
  rw [bind_of_eq (loopFuel_eq _ _)]
  exact formLoop_nf hrec hprog hnf _ nb2 s2 b2.1 (rem_lt_fuel _) (by omega)

theorem setMode_nf {nb : NB} {s : St} (sign : Bytes) (h : Inv e s) : NF (setMode nb sign e s) := by
  unfold setMode
  cases redirMode sign with
  | some m => exact NF_pure
  | none =>
    show NF ((error Msg.badRedirSign >>= fun _ => pure nb) e s)
    rw [bind_of_eq (error_eq h _)]
    exact NF_pure

theorem redirRest_nf (hrec : RecSpec e rec) (hnf : RecNF e rec N) {nb1 : NB} {s : St} (hb1 : BInv e nb1 s)
    (hN : 7 * rem e s + 2 < N) : NF (redirRest rec nb1 e s) := by
  unfold redirRest
  rw [bind_of_eq (getPos_eq _ _), bind_of_eq (loopFuel_eq _ _)]
  refine NF_bind (skipWhile_spec _ _ _ hb1.inv) (skipWhile_nf isRedirSign (by decide) _ _ hb1.inv (rem_lt_fuel _)) ?_
  intro _ s2 f2
  rw [bind_of_eq (getPos_eq _ _), bind_of_eq (sliceSrc_eq f2.2 f2.1.le)]
  refine NF_bind (setMode_spec _ f2.1) (setMode_nf _ f2.1) ?_
  intro nb2 s3 ⟨f3, hp3, hf2, hc2⟩
  have hb2 : BInv e nb2 s := hb1.congr hf2 hc2
  have f23 := f2.trans f3
  have hpre := BPre.of_fwd hb2 f23
  refine NF_bind (addSep_spec hpre) (addSep_nf hpre) ?_
  intro nb3 s3' ⟨hs, hb3, hf3⟩
  subst hs
  refine NF_bind (parseSpaces_spec hb3) (parseSpacesInner_nf false hb3) ?_
  intro nb4 s4 b4
  refine NF_bind (parseSep_spec _ b4.1) (parseSep_nf _ b4.1) ?_
  intro ⟨isFd, nb5⟩ s5 b5
  simp only []
  generalize hnb6 : (if isFd = true then ({ nb5 with f := { nb5.f with flag := true } } : NB) else nb5) = nb6
  have hb6 : BInv e nb6 s5 := by
    subst hnb6; split
    · exact b5.1.congr rfl rfl
    · exact b5.1
  have r5 : rem e s5 ≤ rem e s := by
    have := rem_mono f23; have := rem_D b4; have := rem_D b5; omega
  refine NF_bind (child_add hrec (.compound NormalExpr) trivial rfl hb6)
    (hnf (.compound NormalExpr) s5 hb6.inv trivial (by show 7 * rem e s5 + 2 < N; omega)) ?_
  intro right s6 b6
  split
  · split
    · exact NF_bind' (NF_of_eq (error_eq b6.1.inv _)) (fun _ _ => NF_pure)
    · exact NF_bind' (NF_of_eq (error_eq b6.1.inv _)) (fun _ _ => NF_pure)
  · exact NF_pure

theorem filterLoop_nf (hrec : RecSpec e rec) (hprog : RecProg e rec) (hnf : RecNF e rec N) :
    ∀ (n : Nat) (nb : NB) (s : St), BInv e nb s → rem e s < n → 7 * rem e s + 3 < N →
    NF (filterLoop rec n nb e s)
  | 0, _, _, _, h, _ => by omega
  | n + 1, nb, s, h, hr, hN => by
    unfold filterLoop
    rw [bind_of_eq (getEnv_eq _ _), bind_of_eq (peek_eq h.inv)]
    split
    · next hc =>
      have hst : Starts e .mapPair (peekRune e s) := (by simpa using hc : peekRune e s = 38)
      refine NF_bind (child_addD hrec hprog .mapPair trivial rfl hst h) (hnf .mapPair s h.inv trivial hN) ?_
      intro mp s1 b1
      refine NF_bind (add_spaces false b1) (add_spaces_nf false b1) ?_
      intro nb2 s2 b2
      have r2 := rem_D1 b2
      exact filterLoop_nf hrec hprog hnf n nb2 s2 b2.1 (by omega) (by omega)
    split
    · next hc =>
      refine NF_bind (child_addD hrec hprog (.compound NormalExpr) trivial rfl hc h)
        (hnf (.compound NormalExpr) s h.inv trivial (by show 7 * rem e s + 2 < N; omega)) ?_
      intro c s1 b1
      refine NF_bind (add_spaces false b1) (add_spaces_nf false b1) ?_
      intro nb2 s2 b2
      have r2 := rem_D1 b2
      exact filterLoop_nf hrec hprog hnf n nb2 s2 b2.1 (by omega) (by omega)
    · exact NF_pure

theorem filterBody_nf (hrec : RecSpec e rec) (hprog : RecProg e rec) (hnf : RecNF e rec N) {nb : NB} {s : St}
    (h : BInv e nb s) (hN : 7 * rem e s + 3 < N) : NF (filterBody rec nb e s) := by
  unfold filterBody
  refine NF_bind (parseSpaces_spec h) (parseSpacesInner_nf false h) ?_
  intro nb1 s1 b1
  have r1 := rem_D b1
  rw [bind_of_eq (loopFuel_eq _ _)]
  exact filterLoop_nf hrec hprog hnf _ nb1 s1 b1.1 (rem_lt_fuel _) (by omega)

theorem arrayLoop_nf (hrec : RecSpec e rec) (hprog : RecProg e rec) (hnf : RecNF e rec N) :
    ∀ (n : Nat) (nb : NB) (s : St), BInv e nb s → rem e s < n → 7 * rem e s + 2 < N →
    NF (arrayLoop rec n nb e s)
  | 0, _, _, _, h, _ => by omega
  | n + 1, nb, s, h, hr, hN => by
    unfold arrayLoop
    rw [bind_of_eq (getEnv_eq _ _), bind_of_eq (peek_eq h.inv)]
    split
    · next hc =>
      refine NF_bind (child_addD hrec hprog (.compound NormalExpr) trivial rfl hc h)
        (hnf (.compound NormalExpr) s h.inv trivial hN) ?_
      intro c s1 b1
      refine NF_bind (add_spaces true b1) (add_spaces_nf true b1) ?_
      intro nb2 s2 b2
      have r2 := rem_D1 b2
      exact arrayLoop_nf hrec hprog hnf n nb2 s2 b2.1 (by omega) (by omega)
    · exact NF_pure

theorem arrayBody_nf (hrec : RecSpec e rec) (hprog : RecProg e rec) (hnf : RecNF e rec N) {nb : NB} {s : St}
    (h : BInv e nb s) (hN : 7 * rem e s + 2 < N) : NF (arrayBody rec nb e s) := by
  unfold arrayBody
  refine NF_bind (parseSpacesAndNewlines_spec h) (parseSpacesInner_nf true h) ?_
  intro nb1 s1 b1
  have r1 := rem_D b1
  rw [bind_of_eq (loopFuel_eq _ _)]
  exact arrayLoop_nf hrec hprog hnf _ nb1 s1 b1.1 (rem_lt_fuel _) (by omega)

theorem tilde_nf {nb : NB} {s : St} (h : BInv e nb s) : NF (tilde nb e s) := by
  unfold tilde
  rw [bind_of_eq (peek_eq h.inv)]
  split
  · rw [bind_of_eq (next_eq h.inv), bind_of_eq (getPos_eq _ _)]
    split <;> trivial
  · exact NF_pure

theorem compoundLoop_nf (hrec : RecSpec e rec) (hprog : RecProg e rec) (hnf : RecNF e rec N) (ctx : Int) :
    ∀ (n : Nat) (nb : NB) (s : St), BInv e nb s → rem e s < n → 7 * rem e s + 1 < N →
    NF (compoundLoop rec ctx n nb e s)
  | 0, _, _, _, h, _ => by omega
  | n + 1, nb, s, h, hr, hN => by
    unfold compoundLoop
    rw [bind_of_eq (getEnv_eq _ _), bind_of_eq (peek_eq h.inv)]
    split
    · next hc =>
      refine NF_bind (child_addD hrec hprog (.indexing ctx) trivial rfl hc h)
        (hnf (.indexing ctx) s h.inv trivial hN) ?_
      intro i s1 b1
      have r1 := rem_D1 b1
      exact compoundLoop_nf hrec hprog hnf ctx n _ s1 b1.1 (by omega) (by omega)
    · exact NF_pure

theorem compoundBody_nf (hrec : RecSpec e rec) (hprog : RecProg e rec) (hnf : RecNF e rec N) {nb : NB} {s : St}
    (h : BInv e nb s) (hN : 7 * rem e s + 1 < N) : NF (compoundBody rec nb e s) := by
  unfold compoundBody
  refine NF_bind (tilde_spec h) (tilde_nf h) ?_
  intro nb1 s1 b1
  have r1 := rem_D b1
  rw [bind_of_eq (loopFuel_eq _ _)]
  exact compoundLoop_nf hrec hprog hnf _ _ nb1 s1 b1.1 (rem_lt_fuel _) (by omega)

theorem indexingLoop_nf (hrec : RecSpec e rec) (hnf : RecNF e rec N) :
    ∀ (n : Nat) (nb : NB) (s : St), BInv e nb s → rem e s < n → 7 * rem e s ≤ N →
    NF (indexingLoop rec n nb e s)
  | 0, _, _, _, h, _ => by omega
  | n + 1, nb, s, h, hr, hN => by
    unfold indexingLoop
    rw [bind_of_eq (getEnv_eq _ _)]
    refine NF_bind (parseSep_true 91 (by decide) h) (parseSep_nf _ h) ?_
    intro ⟨ok, nb1⟩ s1 ⟨b1, hpr⟩
    simp only []
    split
    · next hok =>
      have hp1 := hpr hok
      have hle1 := b1.1.inv.le
      have r1 : rem e s1 + 1 ≤ rem e s := by unfold rem; omega
      rw [bind_of_eq (peek_eq b1.1.inv)]
      refine NF_bind (P := fun _ s2 => BPost e nb s nb1 s2 ∧ s2.pos = s1.pos) ?_ ?_ ?_
      · split
        · exact Ok_of_eq (error_eq b1.1.inv _) ⟨b1.err _, rfl⟩
        · exact Ok_pure ⟨b1, rfl⟩
      · split
        · exact NF_of_eq (error_eq b1.1.inv _)
        · exact NF_pure
      intro _ s2 ⟨b2, hp2⟩
      have r2 : rem e s2 = rem e s1 := by unfold rem; rw [hp2]
      refine NF_bind ((child_add hrec .array trivial rfl b2.1))
        (hnf .array s2 b2.1.inv trivial (by show 7 * rem e s2 + 3 < N; omega)) ?_
      intro a s3 b3
      have r3 := rem_D b3
      refine NF_bind (parseSep_spec _ b3.1) (parseSep_nf _ b3.1) ?_
      intro ⟨ok2, nb4⟩ s4 b4
      have r4 := rem_D b4
      simp only []
      split
      · exact NF_bind' (NF_of_eq (error_eq b4.1.inv _)) (fun _ _ => NF_pure)
      · exact indexingLoop_nf hrec hnf n nb4 s4 b4.1 (by omega) (by omega)
    · exact NF_pure

theorem indexingBody_nf (hrec : RecSpec e rec) (hnf : RecNF e rec N) {nb : NB} {s : St}
    (h : BInv e nb s) (hN : 7 * rem e s < N) : NF (indexingBody rec nb e s) := by
  unfold indexingBody
  refine NF_bind (child_add hrec (.primary nb.f.ctx) trivial rfl h)
    (hnf (.primary nb.f.ctx) s h.inv trivial (by show 7 * rem e s + 0 < N; omega)) ?_
  intro hd s1 b1
  have r1 := rem_D b1
  rw [bind_of_eq (loopFuel_eq _ _)]
  exact indexingLoop_nf hrec hnf _ _ s1 b1.1 (rem_lt_fuel _) (by omega)

theorem mapPairBody_nf (hrec : RecSpec e rec) (hnf : RecNF e rec N) {nb : NB} {s : St}
    (h : BInv e nb s) (hN : 7 * rem e s + 2 < N) : NF (mapPairBody rec nb e s) := by
  unfold mapPairBody
  refine NF_bind (parseSep_spec _ h) (parseSep_nf _ h) ?_
  intro ⟨_, nb1⟩ s1 b1
  have r1 := rem_D b1
  simp only []
  refine NF_bind (child_add hrec (.compound LHSExpr) trivial rfl b1.1)
    (hnf (.compound LHSExpr) s1 b1.1.inv trivial (by show 7 * rem e s1 + 2 < N; omega)) ?_
  intro key s2 b2
  have r2 := rem_D b2
  refine NF_bind (P := fun _ s3 => BPost e nb1 s1 (nb1.add key) s3) ?_ ?_ ?_
  · split
    · exact Ok_of_eq (error_eq b2.1.inv _) (b2.err _)
    · exact Ok_pure b2
  · split
    · exact NF_of_eq (error_eq b2.1.inv _)
    · exact NF_pure
  intro _ s3 b3
  have r3 := rem_D b3
  refine NF_bind (parseSep_spec _ b3.1) (parseSep_nf _ b3.1) ?_
  intro ⟨ok, nb4⟩ s4 b4
  have r4 := rem_D b4
  simp only []
  split
  · refine NF_bind (parseSpacesAndNewlines_spec b4.1) (parseSpacesInner_nf true b4.1) ?_
    intro nb5 s5 b5
    have r5 := rem_D b5
    exact NF_bind' (hnf (.compound NormalExpr) s5 b5.1.inv trivial (by show 7 * rem e s5 + 2 < N; omega))
      (fun _ _ => NF_pure)
  · exact NF_pure

end
end C01
