/-
Progress: a grammar function entered on a rune that can start it consumes at
least one byte.  (Needed for termination: every loop iteration that
continues, and every 7 levels of nesting, consume a byte.)
-/
import ElvProofs.C01.Main
namespace C01
open Go
open Gen.C01Chars

section
variable {e : Env}

theorem peekRune_congr {s s' : St} (h : s'.pos = s.pos) : peekRune e s' = peekRune e s := by
  unfold peekRune; rw [h]

/-- a rune class that excludes `eof` is only seen before the end -/
theorem ne_eof_of {p : Int → Bool} (hp : p eof = false) {s : St} (h : p (peekRune e s) = true) :
    s.pos ≠ e.src.length := by
  intro heq
  rw [peekRune_eof.mpr heq, hp] at h
  cases h

theorem neg1_not_varname (ip : Int → Bool) : allowedInVariableName ip (-1) = false := by
  simp [allowedInVariableName]
theorem neg1_not_bareword (ip : Int → Bool) (ctx : Int) : allowedInBareword ip (-1) ctx = false := by
  simp [allowedInBareword, neg1_not_varname]
theorem neg1_not_primary (ip : Int → Bool) (ctx : Int) : startsPrimary ip (-1) ctx = false := by
  simp [startsPrimary, neg1_not_bareword]
theorem neg1_not_form (ip : Int → Bool) : startsForm ip (-1) = false := by
  simp [startsForm, startsCompound, startsIndexing, neg1_not_primary, IsInlineWhitespace]
theorem eof_not_varname (ip : Int → Bool) : allowedInVariableName ip eof = false := neg1_not_varname ip
theorem eof_not_bareword (ip : Int → Bool) (ctx : Int) : allowedInBareword ip eof ctx = false :=
  neg1_not_bareword ip ctx
theorem eof_not_primary (ip : Int → Bool) (ctx : Int) : startsPrimary ip eof ctx = false :=
  neg1_not_primary ip ctx
theorem eof_not_form (ip : Int → Bool) : startsForm ip eof = false := neg1_not_form ip

theorem skipWhile_prog (p : Int → Bool) (hp : p eof = false) (n : Nat) {s : St} (h : Inv e s)
    (hr : p (peekRune e s) = true) :
    Ok (skipWhile p (n + 1) e s) (fun _ s' => Fwd e s s' ∧ s.pos + 1 ≤ s'.pos) := by
  unfold skipWhile
  rw [bind_of_eq (peek_eq h)]
  simp only [hr, if_true]
  rw [bind_of_eq (next_eq h)]
  have hp1 := nextSt_progress h (ne_eof_of hp hr)
  refine (skipWhile_spec p n _ (nextSt_inv h)).mono ?_
  intro _ s' f
  exact ⟨(nextSt_fwd h).trans f, by have := f.2; omega⟩

theorem parseSep_prog {nb : NB} {s : St} (sep : Int) (h : BInv e nb s) (hr : peekRune e s = sep)
    (hne : sep ≠ eof) : Ok (parseSep nb sep e s) (fun p s' => BPostD 1 e nb s p.2 s') := by
  unfold parseSep
  rw [bind_of_eq (peek_eq h.inv)]
  have : (peekRune e s == sep) = true := by simp [hr]
  simp only [this, if_true]
  rw [bind_of_eq (next_eq h.inv)]
  have f1 := nextSt_fwd h.inv
  have hp : s.pos ≠ e.src.length := by
    intro heq; rw [peekRune_eof.mpr heq] at hr; exact hne hr.symm
  have hp1 := nextSt_progress h.inv hp
  refine Ok_bind (addSep_spec (BPre.of_fwd h f1)) ?_
  intro nb' s' ⟨hs, hb, hf⟩
  subst hs
  exact Ok_pure ⟨hb, hf, by omega⟩

/-- `parseSep` that answers `true` has consumed the separator -/
theorem parseSep_true {nb : NB} {s : St} (sep : Int) (hne : sep ≠ eof) (h : BInv e nb s) :
    Ok (parseSep nb sep e s) (fun p s' => BPost e nb s p.2 s' ∧ (p.1 = true → s.pos + 1 ≤ s'.pos)) := by
  by_cases hr : peekRune e s = sep
  · exact (parseSep_prog sep h hr hne).mono (fun _ _ b => ⟨b.weaken, fun _ => b.2.2⟩)
  · unfold parseSep
    rw [bind_of_eq (peek_eq h.inv)]
    have : ¬ ((peekRune e s == sep) = true) := by simpa using hr
    simp only [this, if_false]
    exact Ok_pure ⟨BPost.refl h, fun h => by cases h⟩

theorem spacesLoop_prog (nl : Bool) (n : Nat) {s : St} (h : Inv e s)
    (hr : IsInlineWhitespace (peekRune e s) = true ∨ (nl = true ∧ IsWhitespace (peekRune e s) = true) ∨
      peekRune e s = 35) :
    Ok (spacesLoop nl (n + 1) e s) (fun _ s' => Fwd e s s' ∧ s.pos + 1 ≤ s'.pos) := by
  have h1 := nextSt_inv h
  have f1 := nextSt_fwd h
  have hp : s.pos ≠ e.src.length := by
    rcases hr with hr | ⟨_, hr⟩ | hr
    · exact ne_eof_of (p := IsInlineWhitespace) (by decide) hr
    · exact ne_eof_of (p := IsWhitespace) (by decide) hr
    · intro heq; rw [peekRune_eof.mpr heq] at hr; simp [eof] at hr
  have hp1 := nextSt_progress h hp
  have fin : ∀ {o : Out Unit}, Ok o (fun _ s' => Fwd e (nextSt e s) s') →
      Ok o (fun _ s' => Fwd e s s' ∧ s.pos + 1 ≤ s'.pos) :=
    fun ho => ho.mono (fun _ s' f => ⟨f1.trans f, by have := f.2; omega⟩)
  unfold spacesLoop
  rw [bind_of_eq (peek_eq h)]
  split
  · rw [bind_of_eq (next_eq h)]
    exact fin (spacesLoop_spec nl n _ h1)
  split
  · rw [bind_of_eq (next_eq h)]
    exact fin (spacesLoop_spec nl n _ h1)
  split
  · rw [bind_of_eq (next_eq h), bind_of_eq (loopFuel_eq _ _)]
    refine Ok_bind (commentLoop_spec _ _ h1) (fun _ s2 h2 => ?_)
    exact fin ((spacesLoop_spec nl n _ h2.1).fwd h2)
  · next hn1 hn2 hn3 =>
    exfalso
    rcases hr with hr | ⟨hnl, hr⟩ | hr
    · exact hn1 hr
    · exact hn2 (by simp [hnl, hr])
    · exact hn3 (by simp [hr])

theorem spaces_prog (nl : Bool) {nb : NB} {s : St} (h : BInv e nb s)
    (hr : IsInlineWhitespace (peekRune e s) = true ∨ (nl = true ∧ IsWhitespace (peekRune e s) = true) ∨
      peekRune e s = 35) :
    Ok (parseSpacesInner nb nl e s) (fun nb' s' => BPostD 1 e nb s nb' s') := by
  unfold parseSpacesInner
  rw [bind_of_eq (loopFuel_eq _ _)]
  refine Ok_bind (spacesLoop_prog nl _ h.inv hr) ?_
  intro _ s1 ⟨f1, hp1⟩
  refine (addSep_spec (BPre.of_fwd h f1)).mono ?_
  intro nb' s' ⟨hs, hb, hf⟩
  subst hs
  exact ⟨hb, hf, hp1⟩

theorem Ok.and {α} {o : Out α} {P Q : α → St → Prop} (h1 : Ok o P) (h2 : Ok o Q) :
    Ok o (fun a s => P a s ∧ Q a s) := by
  cases o <;> simp_all [Ok]

theorem BPostD.trans_add {d1 d2 : Nat} {nb nb' nb'' : NB} {s s' s'' : St} (h1 : BPostD d1 e nb s nb' s')
    (h2 : BPostD d2 e nb' s' nb'' s'') : BPostD (d1 + d2) e nb s nb'' s'' :=
  ⟨h2.1, h2.2.1.trans h1.2.1, by have := h1.2.2; have := h2.2.2; omega⟩

/-- the runes on which `parse(ps, n)` is guaranteed to consume something -/
def Starts (e : Env) (nt : NT) (r : Int) : Prop :=
  match nt with
  | .pipeline => startsForm e.isPrint r = true
  | .form => startsForm e.isPrint r = true
  | .compound c => startsCompound e.isPrint r c = true
  | .indexing c => startsIndexing e.isPrint r c = true
  | .primary c => startsPrimary e.isPrint r c = true
  | .mapPair => r = 38
  | .redir _ => isRedirSign r = true
  | _ => False

def RecProg (e : Env) (rec : NT → M Node) : Prop :=
  ∀ nt s, Inv e s → NTPre e nt s → Starts e nt (peekRune e s) →
    Ok (rec nt e s) (fun _ s' => s.pos + 1 ≤ s'.pos)

variable {rec : NT → M Node}

theorem child_addD (hrec : RecSpec e rec) (hprog : RecProg e rec) (nt : NT) {nb : NB} {s : St}
    (hpre : NTPre e nt s) (hfrm : NTFrm nt s = s.pos) (hst : Starts e nt (peekRune e s)) (h : BInv e nb s) :
    Ok (rec nt e s) (fun n s' => BPostD 1 e nb s (nb.add n) s') :=
  ((child_add hrec nt hpre hfrm h).and (hprog nt s h.inv hpre hst)).mono
    (fun _ _ ⟨b, hp⟩ => ⟨b.1, b.2.1, hp⟩)

theorem pipelineBody_prog (hrec : RecSpec e rec) (hprog : RecProg e rec) {nb : NB} {s : St} (h : BInv e nb s)
    (hst : startsForm e.isPrint (peekRune e s) = true) :
    Ok (pipelineBody rec nb e s) (fun nb' s' => BPostD 1 e nb s nb' s') :=
  pipelineBody_specD hrec (child_addD hrec hprog .form trivial rfl hst h)

theorem formBody_prog (hrec : RecSpec e rec) (hprog : RecProg e rec) {nb : NB} {s : St} (h : BInv e nb s)
    (hst : startsForm e.isPrint (peekRune e s) = true) :
    Ok (formBody rec nb e s) (fun nb' s' => BPostD 1 e nb s nb' s') := by
  unfold formBody
  by_cases hc : startsCompound e.isPrint (peekRune e s) CmdExpr = true
  · refine Ok_bind (child_addD hrec hprog (.compound CmdExpr) trivial rfl hc h) ?_
    intro hd s1 b1
    refine Ok_bind (add_spaces false b1) ?_
    intro nb2 s2 b2
    rw [bind_of_eq (loopFuel_eq _ _)]
    exact (formLoop_spec hrec _ nb2 s2 b2.1).bpost b2
  · have hws : IsInlineWhitespace (peekRune e s) = true := by
      simp only [startsForm, Bool.or_eq_true] at hst
      rcases hst with hst | hst
      · exact hst
      · exact absurd hst hc
    refine Ok_bind (child_add hrec (.compound CmdExpr) trivial rfl h) ?_
    intro hd s1 b1
    refine Ok_bind (P := fun nb2 s2 => BPostD 1 e nb s nb2 s2) ?_ ?_
    · by_cases hp : s1.pos = s.pos
      · have hws1 : IsInlineWhitespace (peekRune e s1) = true := by rw [peekRune_congr hp]; exact hws
        exact (spaces_prog false b1.1 (Or.inl hws1)).mono (fun _ _ b2 => by
          have := b1.trans_add b2; simpa using this)
      · have b1' : BPostD 1 e nb s (nb.add hd) s1 := ⟨b1.1, b1.2.1, by have := b1.2.2; omega⟩
        exact add_spaces false b1'
    intro nb2 s2 b2
    rw [bind_of_eq (loopFuel_eq _ _)]
    exact (formLoop_spec hrec _ nb2 s2 b2.1).bpost b2

theorem tilde_noop {nb : NB} {s : St} (h : Inv e s) (hr : peekRune e s ≠ 126) : tilde nb e s = .ok nb s := by
  unfold tilde
  rw [bind_of_eq (peek_eq h)]
  have : ¬ ((peekRune e s == 126) = true) := by simpa using hr
  simp only [this, if_false]
  rfl

theorem tilde_prog {nb : NB} {s : St} (h : BInv e nb s) (hr : peekRune e s = 126) :
    Ok (tilde nb e s) (fun nb' s' => BPostD 1 e nb s nb' s') := by
  have hp : s.pos ≠ e.src.length := by
    intro heq; rw [peekRune_eof.mpr heq] at hr; simp [eof] at hr
  have hp1 := nextSt_progress h.inv hp
  refine ((tilde_spec h).and ?_).mono (fun _ _ ⟨b, hq⟩ => ⟨b.1, b.2.1, hq⟩)
  unfold tilde
  rw [bind_of_eq (peek_eq h.inv)]
  have : (peekRune e s == 126) = true := by simp [hr]
  simp only [this, if_true]
  rw [bind_of_eq (next_eq h.inv), bind_of_eq (getPos_eq _ _)]
  have : 1 ≤ (nextSt e s).pos := by omega
  simp only [this, if_true]
  exact Ok_pure (by omega)

theorem compoundLoop_prog (hrec : RecSpec e rec) (hprog : RecProg e rec) (ctx : Int) (n : Nat) {nb : NB} {s : St}
    (h : BInv e nb s) (hst : startsIndexing e.isPrint (peekRune e s) ctx = true) :
    Ok (compoundLoop rec ctx (n + 1) nb e s) (fun nb' s' => BPostD 1 e nb s nb' s') := by
  unfold compoundLoop
  rw [bind_of_eq (getEnv_eq _ _), bind_of_eq (peek_eq h.inv)]
  simp only [hst, if_true]
  refine Ok_bind (child_addD hrec hprog (.indexing ctx) trivial rfl hst h) ?_
  intro i s1 b1
  exact (compoundLoop_spec hrec ctx n _ s1 b1.1).bpost b1

theorem compoundBody_prog (hrec : RecSpec e rec) (hprog : RecProg e rec) {nb : NB} {s : St} (h : BInv e nb s)
    (hst : startsCompound e.isPrint (peekRune e s) nb.f.ctx = true) :
    Ok (compoundBody rec nb e s) (fun nb' s' => BPostD 1 e nb s nb' s') := by
  unfold compoundBody
  by_cases hr : peekRune e s = 126
  · refine Ok_bind (tilde_prog h hr) ?_
    intro nb1 s1 b1
    rw [bind_of_eq (loopFuel_eq _ _)]
    exact (compoundLoop_spec hrec _ _ nb1 s1 b1.1).bpost b1
  · rw [bind_of_eq (tilde_noop h.inv hr), bind_of_eq (loopFuel_eq _ _)]
    exact compoundLoop_prog hrec hprog _ _ h hst

theorem indexingBody_prog (hrec : RecSpec e rec) (hprog : RecProg e rec) {nb : NB} {s : St} (h : BInv e nb s)
    (hst : startsPrimary e.isPrint (peekRune e s) nb.f.ctx = true) :
    Ok (indexingBody rec nb e s) (fun nb' s' => BPostD 1 e nb s nb' s') := by
  unfold indexingBody
  refine Ok_bind (child_addD hrec hprog (.primary nb.f.ctx) trivial rfl hst h) ?_
  intro hd s1 b1
  rw [bind_of_eq (loopFuel_eq _ _)]
  exact (indexingLoop_spec hrec _ _ s1 b1.1).bpost b1

theorem mapPairBody_prog (hrec : RecSpec e rec) {nb : NB} {s : St} (h : BInv e nb s)
    (hst : peekRune e s = 38) :
    Ok (mapPairBody rec nb e s) (fun nb' s' => BPostD 1 e nb s nb' s') :=
  mapPairBody_specD hrec (parseSep_prog 38 h hst (by decide))

end
end C01
