/-
Nodes under construction: the tiling invariant `BInv` ("the children so far
are well-formed, consecutive from `From`, and end at `pos`") and the
specifications of `addSep`, `parseSep`, `parseSpacesInner` and of the leaf
alternatives of `Primary`.
-/
import ElvProofs.C01.Leaf
namespace C01
open Go
open Gen.C01Chars

/-- What `addSep` needs: children well-formed and consecutive, ending at or before `pos`. -/
structure BPre (e : Env) (nb : NB) (s : St) : Prop where
  inv : Inv e s
  wfs : WFs e.src nb.children
  consec : Consec nb.frm nb.children
  le : endOf nb.frm nb.children ≤ s.pos

/-- The tiling invariant: as `BPre`, and the children end exactly at `pos`. -/
structure BInv (e : Env) (nb : NB) (s : St) : Prop where
  inv : Inv e s
  wfs : WFs e.src nb.children
  consec : Consec nb.frm nb.children
  sync : endOf nb.frm nb.children = s.pos

theorem BInv.pre {e : Env} {nb : NB} {s : St} (h : BInv e nb s) : BPre e nb s :=
  ⟨h.inv, h.wfs, h.consec, Nat.le_of_eq h.sync⟩

theorem BInv.congr {e : Env} {nb nb' : NB} {s : St} (h : BInv e nb s) (hf : nb'.frm = nb.frm)
    (hc : nb'.children = nb.children) : BInv e nb' s :=
  ⟨h.inv, hc ▸ h.wfs, by rw [hf, hc]; exact h.consec, by rw [hf, hc]; exact h.sync⟩

/-- later state, later builder -/
theorem BPre.of_fwd {e : Env} {nb : NB} {s s' : St} (h : BInv e nb s) (hf : Fwd e s s') : BPre e nb s' :=
  ⟨hf.1, h.wfs, h.consec, by rw [h.sync]; exact hf.2⟩

/-- Appending a child parsed from `s` to `s'`. -/
theorem BInv.add {e : Env} {nb : NB} {s s' : St} {n : Node} (h : BInv e nb s) (hi : Inv e s')
    (hw : WF e.src n) (hfrm : n.frm = s.pos) (hto : n.to = s'.pos) : BInv e (nb.add n) s' := by
  refine ⟨hi, ?_, ?_, ?_⟩
  · exact WFs_append.mpr ⟨h.wfs, hw⟩
  · show Consec nb.frm (nb.children ++ [n])
    exact Consec_append.mpr ⟨h.consec, by rw [hfrm, h.sync]⟩
  · show endOf nb.frm (nb.children ++ [n]) = s'.pos
    rw [endOf_append, hto]

/-- result of a builder step that consumed at least `d` bytes -/
def BPostD (d : Nat) (e : Env) (nb : NB) (s : St) (nb' : NB) (s' : St) : Prop :=
  BInv e nb' s' ∧ nb'.frm = nb.frm ∧ s.pos + d ≤ s'.pos

/-- result of a builder step -/
abbrev BPost (e : Env) (nb : NB) (s : St) (nb' : NB) (s' : St) : Prop := BPostD 0 e nb s nb' s'

theorem BPostD.fwd {d : Nat} {e : Env} {nb nb' : NB} {s s' : St} (h : BPostD d e nb s nb' s') : Fwd e s s' :=
  ⟨h.1.inv, Nat.le_trans (Nat.le_add_right _ _) h.2.2⟩

theorem BPostD.trans {d d2 : Nat} {e : Env} {nb nb' nb'' : NB} {s s' s'' : St} (h1 : BPostD d e nb s nb' s')
    (h2 : BPostD d2 e nb' s' nb'' s'') : BPostD d e nb s nb'' s'' :=
  ⟨h2.1, h2.2.1.trans h1.2.1, Nat.le_trans h1.2.2 (Nat.le_trans (Nat.le_add_right _ _) h2.2.2)⟩

theorem BPostD.weaken {d : Nat} {e : Env} {nb nb' : NB} {s s' : St} (h : BPostD d e nb s nb' s') :
    BPost e nb s nb' s' :=
  ⟨h.1, h.2.1, Nat.le_trans (Nat.le_add_right _ _) h.2.2⟩

theorem BPost.refl {e : Env} {nb : NB} {s : St} (h : BInv e nb s) : BPost e nb s nb s :=
  ⟨h, rfl, Nat.le_refl _⟩

theorem addSep_spec {e : Env} {nb : NB} {s : St} (h : BPre e nb s) :
    Ok (addSep nb e s) (fun nb' s' => s' = s ∧ BInv e nb' s ∧ nb'.frm = nb.frm) := by
  unfold addSep
  rw [bind_of_eq (getPos_eq _ _), NB.lastTo_eq]
  have hle := h.inv.le
  split
  · next hlt =>
    rw [bind_of_eq (sliceSrc_eq (Nat.le_of_lt hlt) hle)]
    refine Ok_pure ⟨rfl, ?_, rfl⟩
    refine ⟨h.inv, ?_, ?_, ?_⟩
    · refine WFs_append.mpr ⟨h.wfs, ?_⟩
      simp only [WF, WFs, and_true, true_or]
      exact ⟨Nat.le_of_lt hlt, hle⟩
    · exact Consec_append.mpr ⟨h.consec, rfl⟩
    · show endOf nb.frm (nb.children ++ [_]) = s.pos
      rw [endOf_append]; rfl
  · next hge =>
    refine Ok_pure ⟨rfl, ⟨h.inv, h.wfs, h.consec, ?_⟩, rfl⟩
    have := h.le
    omega

theorem parseSep_spec {e : Env} {nb : NB} {s : St} (sep : Int) (h : BInv e nb s) :
    Ok (parseSep nb sep e s) (fun p s' => BPost e nb s p.2 s') := by
  unfold parseSep
  rw [bind_of_eq (peek_eq h.inv)]
  split
  · rw [bind_of_eq (next_eq h.inv)]
    have f1 := nextSt_fwd h.inv
    refine Ok_bind (addSep_spec (BPre.of_fwd h f1)) ?_
    intro nb' s' ⟨hs, hb, hf⟩
    subst hs
    exact Ok_pure ⟨hb, hf, f1.2⟩
  · exact Ok_pure (BPost.refl h)

theorem parseSpacesInner_spec {e : Env} {nb : NB} {s : St} (nl : Bool) (h : BInv e nb s) :
    Ok (parseSpacesInner nb nl e s) (fun nb' s' => BPost e nb s nb' s') := by
  unfold parseSpacesInner
  rw [bind_of_eq (loopFuel_eq _ _)]
  refine Ok_bind (spacesLoop_spec nl _ _ h.inv) ?_
  intro _ s1 f1
  refine (addSep_spec (BPre.of_fwd h f1)).mono ?_
  intro nb' s' ⟨hs, hb, hf⟩
  subst hs
  exact ⟨hb, hf, f1.2⟩

theorem parseSpaces_spec {e : Env} {nb : NB} {s : St} (h : BInv e nb s) :
    Ok (parseSpaces nb e s) (fun nb' s' => BPost e nb s nb' s') := parseSpacesInner_spec false h

theorem parseSpacesAndNewlines_spec {e : Env} {nb : NB} {s : St} (h : BInv e nb s) :
    Ok (parseSpacesAndNewlines nb e s) (fun nb' s' => BPost e nb s nb' s') := parseSpacesInner_spec true h

/-! ### Leaf alternatives of `Primary` -/

@[simp] theorem NB.setType_frm (nb : NB) (t : Int) : (nb.setType t).frm = nb.frm := rfl
@[simp] theorem NB.setType_children (nb : NB) (t : Int) : (nb.setType t).children = nb.children := rfl
@[simp] theorem NB.setValue_frm (nb : NB) (v : Bytes) : (nb.setValue v).frm = nb.frm := rfl
@[simp] theorem NB.setValue_children (nb : NB) (v : Bytes) : (nb.setValue v).children = nb.children := rfl
@[simp] theorem NB.add_frm (nb : NB) (n : Node) : (nb.add n).frm = nb.frm := rfl

/-- result of a leaf alternative: moved forward, same `From`, same children -/
def LeafPost (e : Env) (nb : NB) (s : St) (nb' : NB) (s' : St) : Prop :=
  Fwd e s s' ∧ nb'.frm = nb.frm ∧ nb'.children = nb.children

theorem bareword_spec {e : Env} {nb : NB} {s : St} (h : Inv e s) (hf : nb.frm ≤ s.pos) :
    Ok (bareword nb e s) (fun nb' s' => LeafPost e nb s nb' s') := by
  unfold bareword
  rw [bind_of_eq (getEnv_eq _ _), bind_of_eq (loopFuel_eq _ _)]
  refine Ok_bind (skipWhile_spec _ _ _ h) ?_
  intro _ s' f1
  rw [bind_of_eq (getPos_eq _ _)]
  simp only [NB.setType_frm]
  rw [bind_of_eq (sliceSrc_eq (Nat.le_trans hf f1.2) f1.1.le)]
  exact Ok_pure ⟨f1, rfl, rfl⟩

theorem singleQuoted_spec {e : Env} {nb : NB} {s : St} (h : Inv e s) :
    Ok (singleQuoted nb e s) (fun nb' s' => LeafPost e nb s nb' s') := by
  unfold singleQuoted
  rw [bind_of_eq (next_eq h)]
  refine Ok_bind ((singleQuotedInner_spec (nextSt_inv h)).fwd (nextSt_fwd h)) ?_
  intro _ s' f1
  exact Ok_pure ⟨f1, rfl, rfl⟩

theorem doubleQuoted_spec {e : Env} {nb : NB} {s : St} (h : Inv e s) :
    Ok (doubleQuoted nb e s) (fun nb' s' => LeafPost e nb s nb' s') := by
  unfold doubleQuoted
  rw [bind_of_eq (next_eq h)]
  refine Ok_bind ((doubleQuotedInner_spec (nextSt_inv h)).fwd (nextSt_fwd h)) ?_
  intro _ s' f1
  exact Ok_pure ⟨f1, rfl, rfl⟩

theorem starWildcard_spec {e : Env} {nb : NB} {s : St} (h : Inv e s) (hf : nb.frm ≤ s.pos) :
    Ok (starWildcard nb e s) (fun nb' s' => LeafPost e nb s nb' s') := by
  unfold starWildcard
  rw [bind_of_eq (loopFuel_eq _ _)]
  refine Ok_bind (skipWhile_spec _ _ _ h) ?_
  intro _ s' f1
  rw [bind_of_eq (getPos_eq _ _)]
  simp only [NB.setType_frm]
  rw [bind_of_eq (sliceSrc_eq (Nat.le_trans hf f1.2) f1.1.le)]
  exact Ok_pure ⟨f1, rfl, rfl⟩

theorem questionWildcard_spec {e : Env} {nb : NB} {s : St} (h : Inv e s) (hf : nb.frm ≤ s.pos) :
    Ok (questionWildcard nb e s) (fun nb' s' => LeafPost e nb s nb' s') := by
  unfold questionWildcard
  rw [bind_of_eq (peek_eq h)]
  refine Ok_bind (P := fun _ s' => Fwd e s s') ?_ ?_
  · split
    · rw [bind_of_eq (next_eq h)]
      exact Ok_pure (nextSt_fwd h)
    · exact Ok_pure (Fwd.refl h)
  · intro _ s' f1
    rw [bind_of_eq (getPos_eq _ _)]
    simp only [NB.setType_frm]
    rw [bind_of_eq (sliceSrc_eq (Nat.le_trans hf f1.2) f1.1.le)]
    exact Ok_pure ⟨f1, rfl, rfl⟩

theorem variableP_spec {e : Env} {nb : NB} {s : St} (h : Inv e s) (hf : nb.frm = s.pos)
    (hne : s.pos ≠ e.src.length) :
    Ok (variableP nb e s) (fun nb' s' => LeafPost e nb s nb' s') := by
  have h1 := nextSt_inv h
  have f1 := nextSt_fwd h
  have hp1 := nextSt_progress h hne
  have h2 := nextSt_inv h1
  have f2 := f1.trans (nextSt_fwd h1)
  unfold variableP
  rw [bind_of_eq (getEnv_eq _ _), bind_of_eq (next_eq h), bind_of_eq (next_eq h1)]
  split
  · rw [bind_of_eq (backup_nextSt h1), bind_of_eq (error_eq h1 _), bind_of_eq (next_eq (errSt_inv h1 _))]
    exact Ok_pure ⟨f1.trans ((errSt_fwd h1 _).trans (nextSt_fwd (errSt_inv h1 _))), rfl, rfl⟩
  split
  · refine Ok_bind ((singleQuotedInner_spec h2).fwd f2) ?_
    intro _ s' f3
    exact Ok_pure ⟨f3, rfl, rfl⟩
  split
  · refine Ok_bind ((doubleQuotedInner_spec h2).fwd f2) ?_
    intro _ s' f3
    exact Ok_pure ⟨f3, rfl, rfl⟩
  · refine Ok_bind (P := fun _ s' => Fwd e (nextSt e s) s') ?_ ?_
    · split
      · rw [bind_of_eq (backup_nextSt h1)]
        exact (Ok_of_eq (error_eq h1 _) (errSt_fwd h1 _))
      · exact Ok_pure (nextSt_fwd h1)
    · intro _ s3 f3
      rw [bind_of_eq (loopFuel_eq _ _)]
      refine Ok_bind (skipWhile_spec _ _ _ f3.1) ?_
      intro _ s4 f4
      have : nb.frm + 1 ≤ s4.pos := by have := f3.2; have := f4.2; omega
      rw [bind_of_eq (getPos_eq _ _)]
      simp only [NB.setType_frm]
      rw [bind_of_eq (sliceSrc_eq this f4.1.le)]
      exact Ok_pure ⟨f1.trans (f3.trans f4), rfl, rfl⟩

end C01
