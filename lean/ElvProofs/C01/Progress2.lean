/-
Progress for `Redir`, `Primary`, the dispatch, the wrapper and `parseNT`.
-/
import ElvProofs.C01.Progress
namespace C01
open Go
open Gen.C01Chars

section
variable {e : Env} {rec : NT → M Node}

theorem attachLeft_inv (left : Option Node) {nb : NB} {s : St} (h : BInv e nb s) (hnil : nb.children = [])
    (hpre : NTPre e (.redir left) s) : BInv e (attachLeft left nb) s := by
  cases left with
  | none => exact h
  | some l =>
    obtain ⟨hw, hto⟩ := hpre
    refine ⟨h.inv, ?_, ?_, ?_⟩
    · show WFs e.src (nb.children ++ [l]); rw [hnil]; exact ⟨hw, trivial⟩
    · show Consec l.frm (nb.children ++ [l]); rw [hnil]; exact ⟨rfl, trivial⟩
    · show endOf l.frm (nb.children ++ [l]) = s.pos; rw [hnil]; exact hto

theorem redirBody_prog (hrec : RecSpec e rec) (left : Option Node) {nb : NB} {s : St} (h : BInv e nb s)
    (hnil : nb.children = []) (hpre : NTPre e (.redir left) s)
    (hst : isRedirSign (peekRune e s) = true) :
    Ok (redirBody rec left nb e s) (fun _ s' => s.pos + 1 ≤ s'.pos) := by
  unfold redirBody
  have hb1 := attachLeft_inv left h hnil hpre
  exact (redirRest_specD (d := 1) hrec hb1 (skipWhile_prog isRedirSign (by decide) _ h.inv hst)).mono
    (fun _ _ b => b.2.2)

/-- a leaf alternative that starts with `next` on a rune that is not `eof` -/
theorem next_then {α β} {s : St} (h : Inv e s) (hp : s.pos ≠ e.src.length) {f : Int → M α} {g : α → M β}
    (hf : Ok (f (peekRune e s) e (nextSt e s)) (fun _ s' => Fwd e (nextSt e s) s'))
    (hg : ∀ a s', Inv e s' → Ok (g a e s') (fun _ s'' => s'' = s')) :
    Ok ((next >>= fun r => f r >>= g) e s) (fun _ s' => s.pos + 1 ≤ s'.pos) := by
  rw [bind_of_eq (next_eq h)]
  have hp1 := nextSt_progress h hp
  refine Ok_bind hf ?_
  intro a s' f1
  refine (hg a s' f1.1).mono ?_
  intro _ s'' hs
  subst hs
  have := f1.2; omega

theorem singleQuoted_prog {nb : NB} {s : St} (h : Inv e s) (hp : s.pos ≠ e.src.length) :
    Ok (singleQuoted nb e s) (fun _ s' => s.pos + 1 ≤ s'.pos) := by
  unfold singleQuoted
  exact next_then h hp (singleQuotedInner_spec (nextSt_inv h)) (fun _ _ _ => Ok_pure rfl)

theorem doubleQuoted_prog {nb : NB} {s : St} (h : Inv e s) (hp : s.pos ≠ e.src.length) :
    Ok (doubleQuoted nb e s) (fun _ s' => s.pos + 1 ≤ s'.pos) := by
  unfold doubleQuoted
  exact next_then h hp (doubleQuotedInner_spec (nextSt_inv h)) (fun _ _ _ => Ok_pure rfl)

theorem variableP_prog {nb : NB} {s : St} (h : Inv e s) (hf : nb.frm = s.pos) (hp : s.pos ≠ e.src.length) :
    Ok (variableP nb e s) (fun _ s' => s.pos + 1 ≤ s'.pos) := by
  -- the first `next` consumes `$`; afterwards the position never drops below that
  have hp1 := nextSt_progress h hp
  have h1 := nextSt_inv h
  have key : Ok (variableP nb e s) (fun nb' s' => LeafPost e nb s nb' s') := variableP_spec h hf hp
  -- re-walk to get the strict bound
  have h2 := nextSt_inv h1
  have f12 := nextSt_fwd h1
  unfold variableP
  rw [bind_of_eq (getEnv_eq _ _), bind_of_eq (next_eq h), bind_of_eq (next_eq h1)]
  have lift : ∀ {α} {o : Out α}, Ok o (fun _ s' => Fwd e (nextSt e s) s') →
      Ok o (fun _ s' => s.pos + 1 ≤ s'.pos) :=
    fun ho => ho.mono (fun _ s' f => by have := f.2; omega)
  split
  · rw [bind_of_eq (backup_nextSt h1), bind_of_eq (error_eq h1 _), bind_of_eq (next_eq (errSt_inv h1 _))]
    exact Ok_pure (by
      have := (nextSt_fwd (errSt_inv h1 Msg.shouldBeVariableName)).2
      simp only [errSt_pos] at this; omega)
  split
  · refine lift (Ok_bind ((singleQuotedInner_spec h2).fwd f12) ?_)
    intro _ s' f3; exact Ok_pure f3
  split
  · refine lift (Ok_bind ((doubleQuotedInner_spec h2).fwd f12) ?_)
    intro _ s' f3; exact Ok_pure f3
  · refine lift (Ok_bind (P := fun _ s' => Fwd e (nextSt e s) s') ?_ ?_)
    · split
      · rw [bind_of_eq (backup_nextSt h1)]
        exact (Ok_of_eq (error_eq h1 _) (errSt_fwd h1 _))
      · exact Ok_pure f12
    · intro _ s3 f3
      rw [bind_of_eq (loopFuel_eq _ _)]
      refine Ok_bind (skipWhile_spec _ _ _ f3.1) ?_
      intro _ s4 f4
      have : nb.frm + 1 ≤ s4.pos := by have := f3.2; have := f4.2; omega
      rw [bind_of_eq (getPos_eq _ _)]
      simp only [NB.setType_frm]
      rw [bind_of_eq (sliceSrc_eq this f4.1.le)]
      exact Ok_pure (f3.trans f4)

theorem bareword_prog {nb : NB} {s : St} (h : Inv e s) (hf : nb.frm ≤ s.pos)
    (hst : allowedInBareword e.isPrint (peekRune e s) nb.f.ctx = true) :
    Ok (bareword nb e s) (fun _ s' => s.pos + 1 ≤ s'.pos) := by
  unfold bareword
  rw [bind_of_eq (getEnv_eq _ _), bind_of_eq (loopFuel_eq _ _)]
  refine Ok_bind (skipWhile_prog (fun r => allowedInBareword e.isPrint r (nb.setType Bareword).f.ctx)
    (eof_not_bareword _ _) _ h hst) ?_
  intro _ s' ⟨f1, hp1⟩
  rw [bind_of_eq (getPos_eq _ _)]
  simp only [NB.setType_frm]
  rw [bind_of_eq (sliceSrc_eq (Nat.le_trans hf f1.2) f1.1.le)]
  exact Ok_pure hp1

theorem starWildcard_prog {nb : NB} {s : St} (h : Inv e s) (hf : nb.frm ≤ s.pos)
    (hst : peekRune e s = 42) :
    Ok (starWildcard nb e s) (fun _ s' => s.pos + 1 ≤ s'.pos) := by
  unfold starWildcard
  rw [bind_of_eq (loopFuel_eq _ _)]
  refine Ok_bind (skipWhile_prog (fun r => r == 42) (by decide) _ h (by simp [hst])) ?_
  intro _ s' ⟨f1, hp1⟩
  rw [bind_of_eq (getPos_eq _ _)]
  simp only [NB.setType_frm]
  rw [bind_of_eq (sliceSrc_eq (Nat.le_trans hf f1.2) f1.1.le)]
  exact Ok_pure hp1

theorem questionWildcard_prog {nb : NB} {s : St} (h : Inv e s) (hf : nb.frm ≤ s.pos)
    (hst : peekRune e s = 63) :
    Ok (questionWildcard nb e s) (fun _ s' => s.pos + 1 ≤ s'.pos) := by
  have hp : s.pos ≠ e.src.length := by
    intro heq; rw [peekRune_eof.mpr heq] at hst; simp [eof] at hst
  have hp1 := nextSt_progress h hp
  have f1 := nextSt_fwd h
  unfold questionWildcard
  rw [bind_of_eq (peek_eq h)]
  have : (peekRune e s == 63) = true := by simp [hst]
  simp only [this, if_true]
  refine Ok_bind (P := fun _ s' => s' = nextSt e s) ?_ ?_
  · rw [bind_of_eq (next_eq h)]; exact Ok_pure rfl
  intro _ s' hs
  subst hs
  rw [bind_of_eq (getPos_eq _ _)]
  simp only [NB.setType_frm]
  rw [bind_of_eq (sliceSrc_eq (Nat.le_trans hf f1.2) f1.1.le)]
  exact Ok_pure (by omega)

theorem primaryBody_prog (hrec : RecSpec e rec) {nb : NB} {s : St} (h : BInv e nb s)
    (hfrm : nb.frm = s.pos) (hst : startsPrimary e.isPrint (peekRune e s) nb.f.ctx = true) :
    Ok (primaryBody rec nb e s) (fun _ s' => s.pos + 1 ≤ s'.pos) := by
  have hi := h.inv
  have hp : s.pos ≠ e.src.length :=
    ne_eof_of (p := fun r => startsPrimary e.isPrint r nb.f.ctx) (eof_not_primary _ _) hst
  unfold primaryBody
  rw [bind_of_eq (getEnv_eq _ _), bind_of_eq (peek_eq hi)]
  simp only [hst, Bool.not_true, Bool.false_eq_true, if_false]
  split
  · next hb => exact bareword_prog hi (Nat.le_of_eq hfrm) hb
  split
  · exact singleQuoted_prog hi hp
  split
  · exact doubleQuoted_prog hi hp
  split
  · exact variableP_prog hi hfrm hp
  split
  · next hc => exact starWildcard_prog hi (Nat.le_of_eq hfrm) (by simpa using hc)
  split
  · next hc =>
    rw [bind_of_eq (hasPrefix_eq hi _)]
    split
    · exact (exitusCapture_specD (d := 1) hrec h (nextSt_progress hi hp)).mono (fun _ _ b => b.2.2)
    · exact questionWildcard_prog hi (Nat.le_of_eq hfrm) (by simpa using hc)
  split
  · next hc =>
    exact (outputCapture_specD hrec (parseSep_prog 40 (h.settype _) (by simpa using hc) (by decide))).mono
      (fun _ _ b => b.2.2)
  split
  · next hc =>
    exact (lbracket_specD hrec (parseSep_prog 91 h (by simpa using hc) (by decide))).mono (fun _ _ b => b.2.2)
  split
  · next hc =>
    exact (lbrace_specD hrec (parseSep_prog 123 h (by simpa using hc) (by decide))).mono (fun _ _ b => b.2.2)
  · next n1 n2 n3 n4 n5 n6 n7 n8 n9 =>
    exfalso
    simp only [startsPrimary, Bool.or_eq_true, beq_iff_eq] at hst
    simp only [beq_iff_eq] at n2 n3 n4 n5 n6 n7 n8 n9
    rcases hst with ((((((((h1 | h1) | h1) | h1) | h1) | h1) | h1) | h1) | h1)
    all_goals first | exact n1 h1 | exact n2 h1 | exact n3 h1 | exact n4 h1 | exact n5 h1 | exact n6 h1 | exact n7 h1 | exact n8 h1 | exact n9 h1

theorem body_prog (hrec : RecSpec e rec) (hprog : RecProg e rec) (nt : NT) {s : St} (hi : Inv e s)
    (hpre : NTPre e nt s) (hst : Starts e nt (peekRune e s)) :
    Ok (body rec nt { frm := s.pos, f := nt.init, children := [] } e s) (fun _ s' => s.pos + 1 ≤ s'.pos) := by
  have h0 : BInv e { frm := s.pos, f := nt.init, children := [] } s := ⟨hi, trivial, trivial, rfl⟩
  cases nt with
  | chunk => exact hst.elim
  | array => exact hst.elim
  | filter => exact hst.elim
  | pipeline => exact (pipelineBody_prog hrec hprog h0 hst).mono (fun _ _ b => b.2.2)
  | form => exact (formBody_prog hrec hprog h0 hst).mono (fun _ _ b => b.2.2)
  | redir left => exact redirBody_prog hrec left h0 rfl hpre hst
  | compound c => exact (compoundBody_prog hrec hprog h0 hst).mono (fun _ _ b => b.2.2)
  | indexing c => exact (indexingBody_prog hrec hprog h0 hst).mono (fun _ _ b => b.2.2)
  | primary c => exact primaryBody_prog hrec h0 rfl hst
  | mapPair => exact (mapPairBody_prog hrec h0 hst).mono (fun _ _ b => b.2.2)

theorem wrap_prog (hrec : RecSpec e rec) (hprog : RecProg e rec) : RecProg e (wrap rec) := by
  intro nt s hi hpre hst
  unfold wrap
  rw [bind_of_eq (getPos_eq _ _)]
  refine Ok_bind ((body_spec hrec nt hi hpre).and (body_prog hrec hprog nt hi hpre hst)) ?_
  intro nb' s' ⟨⟨hf, hfrm, _, _⟩, hp⟩
  rw [bind_of_eq (getPos_eq _ _)]
  have hle : nb'.frm ≤ s'.pos := by
    rw [hfrm]; exact Nat.le_trans (NTFrm_le hpre) hf.2
  rw [bind_of_eq (sliceSrc_eq hle hf.1.le)]
  exact Ok_pure hp

theorem parseNT_prog : ∀ (fuel : Nat), RecProg e (parseNT fuel)
  | 0 => fun _ _ _ _ _ => Ok_fuel
  | fuel + 1 => by
    have ih : RecProg e (fun nt' => parseNT fuel nt') := parseNT_prog fuel
    have ihs : RecSpec e (fun nt' => parseNT fuel nt') := parseNT_spec fuel
    intro nt s hi hpre hst
    unfold parseNT
    exact wrap_prog ihs ih nt s hi hpre hst

end
end C01
