/-
`decodeLastRune` undoes `decodeRune` at boundaries: the fact behind
"`backup` after `next` restores the position".
-/
import ElvProofs.C01.Utf8
namespace C01
open Go

theorem back_le (s : Bytes) (lim : Nat) : ∀ (fuel : Nat) (start : Int),
    decodeLastRune.back s lim fuel start ≤ start := by
  intro fuel
  induction fuel with
  | zero => intro start; unfold decodeLastRune.back; exact Int.le_refl _
  | succ n ih =>
    intro start
    unfold decodeLastRune.back
    split
    · exact Int.le_refl _
    · split
      · split
        · exact Int.le_refl _
        · have := ih (start - 1); omega
      · exact Int.le_refl _

/-- The backward scan stops at the nearest rune start. -/
theorem back_eq (s : Bytes) (lim q : Nat) : ∀ (fuel : Nat) (start : Nat),
    lim ≤ q → q ≤ start → start - q < fuel →
    (∀ j, q < j → j ≤ start → ∃ b, s[j]? = some b ∧ runeStart b = false) →
    (∃ b, s[q]? = some b ∧ runeStart b = true) →
    decodeLastRune.back s lim fuel (start : Int) = (q : Int) := by
  intro fuel
  induction fuel with
  | zero => intro start _ _ h; omega
  | succ n ih =>
    intro start h1 h2 h3 hcont hstart
    unfold decodeLastRune.back
    have : ¬ ((start : Int) < (lim : Int)) := by omega
    simp only [this, if_false, Int.toNat_natCast]
    by_cases hq : q = start
    · subst hq
      obtain ⟨b, hb, hs⟩ := hstart
      simp [hb, hs]
    · obtain ⟨b, hb, hs⟩ := hcont start (by omega) (Nat.le_refl _)
      simp only [hb, hs]
      have hpos : 1 ≤ start := by omega
      have : (start : Int) - 1 = ((start - 1 : Nat) : Int) := by omega
      simp only [Bool.false_eq_true, if_false, this]
      apply ih (start - 1) h1 (by omega) (by omega)
      · intro j hj1 hj2; exact hcont j hj1 (by omega)
      · exact hstart

theorem take_getElem? (src : Bytes) (n j : Nat) (h : j < n) : (src.take n)[j]? = src[j]? := by
  rw [List.getElem?_take]; simp [h]

/-- At a boundary, `decodeLastRune` of the text up to the end of the next
rune has the size `decodeRune` reported for that rune. -/
theorem decodeLast_undo (src : Bytes) (p : Nat) (hb : Bnd src p) (hp : p < src.length) :
    (decodeLastRune (src.take (p + (decodeRune (src.drop p)).2))).2 = (decodeRune (src.drop p)).2 := by
  rcases hd : decodeRune (src.drop p) with ⟨r, n⟩
  have hn1 : 1 ≤ n := by have := decodeRune_size_pos (src.drop p) (drop_ne_nil hp); rw [hd] at this; exact this
  have hnl : n ≤ (src.drop p).length := by have := decodeRune_size_le (src.drop p); rw [hd] at this; exact this
  have hn4 : n ≤ 4 := by have := decodeRune_size_le4 (src.drop p); rw [hd] at this; exact this
  simp only [List.length_drop] at hnl
  have hlen : (src.take (p + n)).length = p + n := by simp; omega
  -- the bytes of the rune
  have hdt : (src.take (p + n)).drop p = (src.drop p).take n := by
    rw [List.drop_take]; congr 1; omega
  have htk := decodeRune_take' (src.drop p) r n hd
  show (decodeLastRune (src.take (p + n))).2 = n
  unfold decodeLastRune
  simp only [hlen]
  have hne : ¬ (p + n = 0) := by omega
  simp only [hne, if_false]
  -- the last byte
  have hlast : (src.take (p + n))[p + n - 1]? = src[p + n - 1]? := take_getElem? _ _ _ (by omega)
  obtain ⟨last, hl⟩ : ∃ b, src[p + n - 1]? = some b := by
    have : p + n - 1 < src.length := by omega
    exact ⟨src[p + n - 1], by simp [this]⟩
  rw [hlast, hl]
  simp only []
  by_cases hasc : last.toNat < 128
  · -- ASCII last byte: size 1; the forward size is 1 too
    simp only [hasc, if_true]
    by_cases hn : n = 1
    · exact hn.symm
    · exfalso
      obtain ⟨b, hb', hc⟩ := decodeRune_cont (src.drop p) (n - 1) (by omega) (by rw [hd]; show n - 1 < n; omega)
      rw [List.getElem?_drop] at hb'
      have : p + (n - 1) = p + n - 1 := by omega
      rw [this, hl] at hb'
      cases hb'
      simp [isCont] at hc
      omega
  · simp only [hasc, if_false]
    by_cases hn : n = 1
    · -- invalid byte (size 1): whatever the scan finds, the size is 1
      subst hn
      generalize hq : (if decodeLastRune.back (src.take (p + 1)) (p + 1 - UTFMax) 4 (((p + 1 : Nat) : Int) - 2) < 0 then 0
        else (decodeLastRune.back (src.take (p + 1)) (p + 1 - UTFMax) 4 (((p + 1 : Nat) : Int) - 2)).toNat) = q
      have hqle : q ≤ p := by
        have := back_le (src.take (p + 1)) (p + 1 - UTFMax) 4 (((p + 1 : Nat) : Int) - 2)
        rw [← hq]; split <;> omega
      rcases hdq : decodeRune ((src.take (p + 1)).drop q) with ⟨r', size'⟩
      simp only []
      by_cases hm : q + size' ≠ p + 1
      · simp [hm]
      · simp only [hm, if_false]
        have hm' : q + size' = p + 1 := by omega
        by_cases hqp : q = p
        · omega
        · exfalso
          have hq2 : 2 ≤ size' := by omega
          have hdq' : (src.take (p + 1)).drop q = (src.drop q).take size' := by
            rw [List.drop_take]; congr 1; omega
          rw [hdq'] at hdq
          have := decodeRune_of_take (src.drop q) r' size' hdq hq2
          exact hb.not_inside q size' (by rw [this]) hq2 ⟨by omega, by omega⟩
    · -- valid multi-byte rune: the scan finds its lead byte at p
      have hn2 : 2 ≤ n := by omega
      have hback : decodeLastRune.back (src.take (p + n)) (p + n - UTFMax) 4 (((p + n : Nat) : Int) - 2) = (p : Int) := by
        have : ((p + n : Nat) : Int) - 2 = ((p + n - 2 : Nat) : Int) := by omega
        rw [this]
        apply back_eq _ _ p 4 (p + n - 2) (by simp [UTFMax]; omega) (by omega) (by omega)
        · intro j hj1 hj2
          obtain ⟨b, hb', hc⟩ := decodeRune_cont (src.drop p) (j - p) (by omega) (by rw [hd]; show j - p < n; omega)
          rw [List.getElem?_drop] at hb'
          have : p + (j - p) = j := by omega
          rw [this] at hb'
          exact ⟨b, by rw [take_getElem? _ _ _ (by omega)]; exact hb', by simp [runeStart, hc]⟩
        · match hdp : src.drop p with
          | [] => exact absurd hdp (drop_ne_nil hp)
          | b :: t =>
            have hlead := decodeRune_lead b t (by rw [← hdp, hd]; exact hn2)
            have hb' : src[p]? = some b := by
              have := List.getElem?_drop (xs := src) (i := p) (j := 0)
              rw [hdp] at this
              simpa using this.symm
            exact ⟨b, by rw [take_getElem? _ _ _ (by omega)]; exact hb', by simp [runeStart, isCont]; omega⟩
      rw [hback]
      have : ¬ ((p : Int) < 0) := by omega
      simp only [this, if_false, Int.toNat_natCast, hdt, htk]
      simp
