import ElvModel.C19.Model
import ElvProofs.C20
/-! Invariants of the C19 transition system. -/
namespace C19

theorem Run.inv {P : List Label → State → Prop} (h0 : P [] C19.init)
    (hs : ∀ tr s l s', Run tr s → P tr s → C19.step s l = some s' → P (tr ++ [l]) s') :
    ∀ {tr s}, Run tr s → P tr s := by
  intro tr s h
  induction h with
  | init => exact h0
  | step hr hst ih => exact hs _ _ _ _ hr ih hst

/-- what a step can do to the interrupt flag -/
theorem step_cancelled {s s' : State} {l : Label} (h : step s l = some s') :
    s'.cancelled = (s.cancelled || decide (l = .cancel)) := by
  unfold step at h
  split at h
  · simp at h
  · cases l <;> simp only [] at h
    all_goals (repeat' (split at h))
    all_goals (first | (injection h with h; subst h; simp) | (simp at h))

theorem inv_cancelled {tr s} (h : Run tr s) : s.cancelled = true ↔ Label.cancel ∈ tr := by
  refine Run.inv (P := fun tr s => s.cancelled = true ↔ Label.cancel ∈ tr) (by simp [C19.init]) ?_ h
  intro tr s l s' hr ih hst
  rw [step_cancelled hst]
  by_cases hl : l = .cancel <;> simp [hl, ih]
  exact fun h => Ne.symm hl h |>.elim

/-- the top-level chunk ends OK only if the interrupt had not been delivered, and with the
interrupted exception of its final check only if it had -/
theorem inv_topExit {tr s} (h : Run tr s) :
    ∀ e c, s.topExit = some (e, c) → (e = .cok → c = false) ∧ (e = .cint → c = true) := by
  refine Run.inv (P := fun _ s => ∀ e c, s.topExit = some (e, c) → (e = .cok → c = false) ∧ (e = .cint → c = true))
    (by simp [C19.init]) ?_ h
  intro tr s l s' hr ih hst
  unfold step at hst
  split at hst
  · simp at hst
  · cases l <;> simp only [] at hst
    all_goals (repeat' (split at hst))
    all_goals (first | (simp at hst; done) | (injection hst with hst; subst hst; try (exact ih)))
    -- the top-level chunk ends
    all_goals (
      intro e c hec
      simp only [Option.some.injEq, Prod.mk.injEq] at hec
      obtain ⟨rfl, rfl⟩ := hec
      constructor <;> intro he <;> subst he <;> cases hc : s.cancelled <;> simp_all)

/-- `Eval` has returned: the result fits the way the top-level chunk ended, no foreground pipeline
is open and every foreground `peach` call has returned -/
theorem inv_result {tr s} (h : Run tr s) :
    ∀ r, s.result = some r → ∃ e c, s.topExit = some (e, c) ∧ fits e r = true ∧ s.pipes = [] ∧
      s.insts.all (fun i => i.bg || decide (i.st.fpc = .ret)) = true := by
  refine Run.inv (P := fun _ s => ∀ r, s.result = some r → ∃ e c, s.topExit = some (e, c) ∧ fits e r = true ∧
      s.pipes = [] ∧ s.insts.all (fun i => i.bg || decide (i.st.fpc = .ret)) = true) (by simp [C19.init]) ?_ h
  intro tr s l s' hr ih hst
  unfold step at hst
  split at hst
  · simp at hst
  · rename_i hnone
    have hnone : s.result = none := by simpa using hnone
    cases l <;> simp only [] at hst
    all_goals (repeat' (split at hst))
    all_goals (first | (simp at hst; done) | (injection hst with hst; subst hst; try (simp [hnone]; done)))
    intro r hr
    simp only [Option.some.injEq] at hr
    subst hr
    rename_i e c hte hg
    exact ⟨e, c, hte, hg.1, hg.2.2.1, by simpa using hg.2.2.2⟩

theorem findInst_mem {tid : Nat} {l : List Inst} {i : Inst} (h : findInst tid l = some i) : i ∈ l := by
  induction l with
  | nil => simp [findInst] at h
  | cons a t ih =>
    unfold findInst at h
    split at h
    · injection h with h; subst h; simp
    · exact List.mem_cons_of_mem _ (ih h)

theorem mem_setInst {tid : Nat} {st : C20.State} {l : List Inst} {i x : Inst} (h : findInst tid l = some i)
    (hx : x ∈ setInst tid st l) : x ∈ l ∨ x = { i with st := st } := by
  induction l with
  | nil => simp [setInst] at hx
  | cons a t ih =>
    unfold findInst at h
    unfold setInst at hx
    split at h
    · rename_i ha
      injection h with h; subst h
      simp only [ha, ↓reduceIte, List.mem_cons] at hx
      rcases hx with hx | hx
      · exact Or.inr (by rw [hx]; simp [ha])
      · exact Or.inl (List.mem_cons_of_mem _ hx)
    · rename_i ha
      simp only [ha, ↓reduceIte, List.mem_cons] at hx
      rcases hx with hx | hx
      · exact Or.inl (by simp [hx])
      · rcases ih h hx with h1 | h1
        · exact Or.inl (List.mem_cons_of_mem _ h1)
        · exact Or.inr h1

/-- the state of one `peach` call, as seen by the evaluation, is a state of the C20 system for the
FIXED code -/
def InstOk (i : Inst) : Prop :=
  i.cfg.checkAcq = true ∧ i.cfg.recheck = true ∧ ∃ tr, C20.Run i.cfg tr i.st

theorem instOk_cancel {i : Inst} (h : InstOk i) : InstOk (cancelInst i) := by
  unfold cancelInst
  split
  · exact h
  · rename_i hc
    obtain ⟨h1, h2, tr, hr⟩ := h
    refine ⟨h1, h2, tr ++ [.cancel], C20.Run.step hr ?_⟩
    have : i.st.panicked = false := by
      cases hp : i.st.panicked <;> simp_all
    simp [C20.step, this]

theorem inv_insts {tr s} (h : Run tr s) : ∀ i ∈ s.insts, InstOk i := by
  refine Run.inv (P := fun _ s => ∀ i ∈ s.insts, InstOk i) (by simp [C19.init]) ?_ h
  intro tr s l s' hr ih hst
  unfold step at hst
  split at hst
  · simp at hst
  · cases l with
    | cancel =>
      simp only [] at hst; injection hst with hst; subst hst
      intro i hi
      simp only [List.mem_map] at hi
      obtain ⟨j, hj, rfl⟩ := hi
      exact instOk_cancel (ih j hj)
    | pbegin tid k n bg =>
      simp only [] at hst
      split at hst
      · simp at hst
      · injection hst with hst; subst hst
        intro i hi
        simp only [List.mem_cons] at hi
        rcases hi with rfl | hi
        · refine ⟨rfl, rfl, ?_⟩
          cases hc : (s.cancelled && !bg) with
          | false => exact ⟨[], by simp only [hc]; exact C20.Run.init⟩
          | true =>
            refine ⟨[.cancel], ?_⟩
            have := C20.Run.step (c := { k := k, n := n }) C20.Run.init (l := .cancel)
              (s' := { C20.init with cancelled := true }) (by simp [C20.step, C20.init])
            simpa [hc] using this
        · exact ih i hi
    | peach tid pl =>
      simp only [] at hst
      split at hst
      · simp at hst
      · split at hst
        · rename_i j hj
          split at hst
          · rename_i st' hst'
            injection hst with hst; subst hst
            intro x hx
            rcases mem_setInst hj hx with h1 | h1
            · exact ih x h1
            · subst h1
              obtain ⟨h1, h2, tr', hr'⟩ := ih j (findInst_mem hj)
              exact ⟨h1, h2, tr' ++ [pl], C20.Run.step hr' hst'⟩
          · simp at hst
        · simp at hst
    | _ =>
      simp only [] at hst
      all_goals (repeat' (split at hst))
      all_goals (first | (simp at hst; done) | (injection hst with hst; subst hst; exact ih))

end C19
