import ElvModel.C19.Signal
/-!
Invariants of the signal-registration model (`ElvModel/C19/Signal.lean`) for the cleanup of the
code, `signal.Stop(sigCh)`: a listener's cleanup removes its OWN channel from the os/signal table
and nothing else, so while the goroutine of any listener has not finished — and while the session
channel is installed — SIGINT and SIGQUIT have a handler.
-/
namespace C19.Sig

/-! ### lists of listeners -/

theorem find_map (g : Lst → Lst) (hg : ∀ l, (g l).id = l.id) (i : Nat) (ls : List Lst) :
    find i (ls.map g) = (find i ls).map g := by
  induction ls with
  | nil => rfl
  | cons a t ih =>
    simp only [List.map, find, hg]
    split
    · rfl
    · exact ih

theorem find_mem {i : Nat} {ls : List Lst} {l : Lst} (h : find i ls = some l) : l ∈ ls ∧ l.id = i := by
  induction ls with
  | nil => simp [find] at h
  | cons a t ih =>
    simp only [find] at h
    split at h
    · rename_i hi
      cases h
      exact ⟨List.mem_cons_self, hi⟩
    · exact ⟨List.mem_cons_of_mem _ (ih h).1, (ih h).2⟩

/-- ids are unique -/
def Uniq (ls : List Lst) : Prop := ∀ l ∈ ls, find l.id ls = some l

theorem Uniq.map {ls : List Lst} (h : Uniq ls) (g : Lst → Lst) (hg : ∀ l, (g l).id = l.id) :
    Uniq (ls.map g) := by
  intro l' hl'
  obtain ⟨l, hl, rfl⟩ := List.mem_map.mp hl'
  rw [find_map g hg, hg, h l hl]
  rfl

theorem Uniq.eq_of_find {ls : List Lst} (h : Uniq ls) {i : Nat} {l0 l : Lst} (hf : find i ls = some l0)
    (hl : l ∈ ls) (hi : l.id = i) : l = l0 := by
  have := h l hl
  rw [hi, hf] at this
  cases this
  rfl

theorem Uniq.cons {ls : List Lst} (h : Uniq ls) (a : Lst) (ha : find a.id ls = none) : Uniq (a :: ls) := by
  intro l hl
  rcases List.mem_cons.mp hl with rfl | hl
  · simp [find]
  · have hne : ¬ a.id = l.id := by
      intro he
      have := h l hl
      rw [← he, ha] at this
      cases this
    simp only [find, hne, if_false]
    exact h l hl

/-! ### the invariant -/

structure Inv (s : State) : Prop where
  alive : s.killed = none
  lost : s.lost = 0
  uniq : Uniq s.ls
  /-- a listener whose goroutine has not finished is registered for both signals -/
  reg : ∀ l ∈ s.ls, l.exited = false → l.reg = Reg.all
  /-- a goroutine finishes only after `done()` or after a signal -/
  why : ∀ l ∈ s.ls, l.exited = true → l.done = true ∨ l.intr = true
  /-- the session channel, if installed, is registered for both signals -/
  sess : ∀ r, s.sess = some r → r = Reg.all

theorem inv_init : Inv {} :=
  ⟨rfl, rfl, fun _ h => (by cases h), fun _ h => (by cases h), fun _ h => (by cases h), fun _ h => (by cases h)⟩

/-- a step that maps the listeners with an id-preserving function and leaves the rest alone -/
theorem Inv.mapLs {s : State} (hi : Inv s) (g : Lst → Lst) (hg : ∀ l, (g l).id = l.id)
    (h1 : ∀ l ∈ s.ls, (g l).exited = false → (g l).reg = Reg.all)
    (h2 : ∀ l ∈ s.ls, (g l).exited = true → (g l).done = true ∨ (g l).intr = true)
    (s' : State) (hls : s'.ls = s.ls.map g) (hk : s'.killed = s.killed) (hlo : s'.lost = s.lost)
    (hs : s'.sess = s.sess) : Inv s' := by
  refine ⟨hk ▸ hi.alive, hlo ▸ hi.lost, hls ▸ hi.uniq.map g hg, ?_, ?_, hs ▸ hi.sess⟩
  · intro l' hl'
    rw [hls] at hl'
    obtain ⟨l, hl, rfl⟩ := List.mem_map.mp hl'
    exact h1 l hl
  · intro l' hl'
    rw [hls] at hl'
    obtain ⟨l, hl, rfl⟩ := List.mem_map.mp hl'
    exact h2 l hl

theorem handles_of_expected {s : State} (hi : Inv s) (he : expectsHandler s) (sg : Sg) :
    handles s sg = true := by
  unfold handles
  rcases he with hs | ⟨l, hl, hx⟩
  · cases hso : s.sess with
    | none => simp [hso] at hs
    | some r =>
      have := hi.sess r hso
      subst this
      have : sessWants s sg = true := by
        unfold sessWants; rw [hso]; cases sg <;> rfl
      simp [this]
  · have hr := hi.reg l hl hx
    have : (s.ls.any fun l => l.reg.wants sg) = true :=
      List.any_eq_true.mpr ⟨l, hl, by rw [hr]; cases sg <;> rfl⟩
    simp [this]

theorem upd_eq_map (i : Nat) (f : Lst → Lst) (ls : List Lst) :
    upd i f ls = ls.map (fun l => if l.id = i then f l else l) := rfl

/-- one step with the cleanup of the code preserves the invariant, provided a signal arrives only
while a handler is expected -/
theorem inv_step {s s' : State} {l : Label} (hi : Inv s)
    (hg : ∀ sg, l = .deliver sg → expectsHandler s) (h : step .stopOwn s l = some s') : Inv s' := by
  unfold step at h
  have hk : s.killed.isSome = false := by rw [hi.alive]; rfl
  simp only [hk, Bool.false_eq_true, if_false] at h
  cases l with
  | session =>
    simp only at h
    split at h
    · cases h
    · cases h
      exact ⟨hi.alive, hi.lost, hi.uniq, hi.reg, hi.why, fun r hr => by cases hr; rfl⟩
  | unsession =>
    simp only at h
    split at h
    · cases h
      exact ⟨hi.alive, hi.lost, hi.uniq, hi.reg, hi.why, fun r hr => by cases hr⟩
    · cases h
  | listen i =>
    simp only at h
    split at h
    · cases h
    · rename_i hf
      cases h
      have hnone : find i s.ls = none := by
        cases hfi : find i s.ls with
        | none => rfl
        | some x => simp [hfi] at hf
      refine ⟨hi.alive, hi.lost, hi.uniq.cons _ hnone, ?_, ?_, hi.sess⟩
      · intro l hl hx
        rcases List.mem_cons.mp hl with rfl | hl
        · rfl
        · exact hi.reg l hl hx
      · intro l hl hx
        rcases List.mem_cons.mp hl with rfl | hl
        · cases hx
        · exact hi.why l hl hx
  | done i =>
    simp only at h
    split at h
    · split at h
      · cases h
      · cases h
        refine hi.mapLs (fun l => if l.id = i then { l with done := true } else l) ?_ ?_ ?_ _ rfl rfl rfl rfl
        · intro l; split <;> rfl
        · intro l hl hx
          split at hx <;> rename_i hid
          · simp only [hid, if_true]; exact hi.reg l hl hx
          · simp only [hid, if_false]; exact hi.reg l hl hx
        · intro l hl hx
          split at hx <;> rename_i hid
          · simp [hid]
          · simp only [hid, if_false]; exact hi.why l hl hx
    · cases h
  | wakeSig i =>
    simp only at h
    split at h
    · rename_i l0 hf
      split at h
      · cases h
        simp only [cleanup, upd_eq_map, List.map_map]
        refine hi.mapLs _ ?_ ?_ ?_ _ rfl rfl rfl rfl
        · intro l; simp only [Function.comp]; split <;> simp_all
        · intro l hl hx
          simp only [Function.comp] at hx ⊢
          by_cases hid : l.id = i
          · simp [hid] at hx
          · simp only [hid, if_false] at hx ⊢; exact hi.reg l hl hx
        · intro l hl hx
          simp only [Function.comp] at hx ⊢
          by_cases hid : l.id = i
          · simp only [hid, if_true]
            cases l.done <;> simp
          · simp only [hid, if_false] at hx ⊢; exact hi.why l hl hx
      · cases h
    · cases h
  | wakeDone i =>
    simp only at h
    split at h
    · rename_i l0 hf
      split at h
      · rename_i hc
        cases h
        simp only [cleanup, upd_eq_map, List.map_map]
        refine hi.mapLs _ ?_ ?_ ?_ _ rfl rfl rfl rfl
        · intro l; simp only [Function.comp]; split <;> simp_all
        · intro l hl hx
          simp only [Function.comp] at hx ⊢
          by_cases hid : l.id = i
          · simp [hid] at hx
          · simp only [hid, if_false] at hx ⊢; exact hi.reg l hl hx
        · intro l hl hx
          simp only [Function.comp] at hx ⊢
          by_cases hid : l.id = i
          · have := hi.uniq.eq_of_find hf hl hid
            subst this
            simp only [hid, if_true]
            exact Or.inl hc.1
          · simp only [hid, if_false] at hx ⊢; exact hi.why l hl hx
      · cases h
    · cases h
  | deliver sg =>
    have hh := handles_of_expected hi (hg sg rfl) sg
    simp only [hh, if_true] at h
    cases h
    refine hi.mapLs (fun l => if l.reg.wants sg then { l with pend := true } else l) ?_ ?_ ?_ _ rfl rfl rfl rfl
    · intro l; split <;> rfl
    · intro l hl hx
      split at hx <;> rename_i hw
      · simp only [hw, if_true]; exact hi.reg l hl hx
      · simp only [hw]; exact hi.reg l hl hx
    · intro l hl hx
      split at hx <;> rename_i hw
      · simp only [hw, if_true]; exact hi.why l hl hx
      · simp only [hw]; exact hi.why l hl hx

theorem inv_run {tr : List Label} {s : State} (h : Run .stopOwn tr s) : Inv s := by
  induction h with
  | init => exact inv_init
  | step _ hg hs ih => exact inv_step ih hg hs

/-! ### a delivered signal reaches a live listener -/

theorem deliver_reaches {s : State} (hi : Inv s) {l : Lst} (hl : l ∈ s.ls) (hx : l.exited = false) (sg : Sg) :
    ∃ s1, step .stopOwn s (.deliver sg) = some s1 ∧ s1.killed = none ∧
      find l.id s1.ls = some { l with pend := true } := by
  have hh := handles_of_expected hi (Or.inr ⟨l, hl, hx⟩) sg
  have hk : s.killed.isSome = false := by rw [hi.alive]; rfl
  have hw : l.reg.wants sg = true := by rw [hi.reg l hl hx]; cases sg <;> rfl
  refine ⟨{ s with ls := s.ls.map (fun l => if l.reg.wants sg then { l with pend := true } else l),
                   sessSeen := if sessWants s sg then s.sessSeen + 1 else s.sessSeen }, ?_, hi.alive, ?_⟩
  · simp [step, hk, hh]
  · show find l.id (s.ls.map _) = _
    rw [find_map _ (by intro a; split <;> rfl), hi.uniq l hl]
    simp [hw]

theorem wakeSig_intr {s1 : State} (hk : s1.killed = none) {l1 : Lst} (hf : find l1.id s1.ls = some l1)
    (hp : l1.pend = true) (hx : l1.exited = false) :
    ∃ s2, step .stopOwn s1 (.wakeSig l1.id) = some s2 ∧
      find l1.id s2.ls = some { l1 with pend := false, intr := !l1.done, exited := true, reg := Reg.none } := by
  have hk' : s1.killed.isSome = false := by rw [hk]; rfl
  refine ⟨cleanup .stopOwn l1.id { s1 with ls := upd l1.id (fun l => { l with pend := false, intr := !l.done, exited := true }) s1.ls }, ?_, ?_⟩
  · simp [step, hk', hf, hp, hx]
  · simp only [cleanup, upd_eq_map, List.map_map]
    rw [find_map _ (by intro a; simp only [Function.comp]; split <;> simp_all), hf]
    simp [Function.comp]

/-! ### executable replay with the guard (for concrete runs) -/

def expectsHandlerB (s : State) : Bool := s.sess.isSome || s.ls.any (fun l => !l.exited)

theorem expectsHandler_of_B {s : State} (h : expectsHandlerB s = true) : expectsHandler s := by
  unfold expectsHandlerB at h
  rcases Bool.or_eq_true _ _ |>.mp h with h | h
  · exact Or.inl h
  · obtain ⟨l, hl, hx⟩ := List.any_eq_true.mp h
    exact Or.inr ⟨l, hl, by simpa using hx⟩

def isDeliver : Label → Bool
  | .deliver _ => true
  | _ => false

def replayG (c : Cleanup) : State → List Label → Option State
  | s, [] => some s
  | s, l :: ls =>
    if isDeliver l && !expectsHandlerB s then none else
    match step c s l with
    | some s' => replayG c s' ls
    | none => none

theorem run_of_replayG_aux (c : Cleanup) (ls : List Label) : ∀ (pre : List Label) (s0 s : State),
    Run c pre s0 → replayG c s0 ls = some s → Run c (pre ++ ls) s := by
  induction ls with
  | nil => intro pre s0 s h hr; simp [replayG] at hr; subst hr; simpa using h
  | cons l t ih =>
    intro pre s0 s h hr
    unfold replayG at hr
    split at hr
    · cases hr
    · rename_i hgd
      split at hr
      · rename_i s1 hs1
        have hguard : ∀ sg, l = .deliver sg → expectsHandler s0 := by
          intro sg hl
          subst hl
          simp [isDeliver] at hgd
          exact expectsHandler_of_B hgd
        have := ih (pre ++ [l]) s1 s (Run.step h hguard hs1) hr
        simpa using this
      · cases hr

theorem run_of_replayG {c : Cleanup} {ls : List Label} {s : State} (h : replayG c {} ls = some s) :
    Run c ls s := by
  simpa using run_of_replayG_aux c ls [] {} s Run.init h

/-! ### scripts -/

theorem noDeliver_applyL (c : Cleanup) (ls : List Label) (hnd : ∀ l ∈ ls, isDeliver l = false) :
    ∀ (tr : List Label) (s s' : State), Run c tr s → applyL c s ls = some s' → ∃ tr', Run c tr' s' := by
  induction ls with
  | nil => intro tr s s' h ha; simp [applyL] at ha; subst ha; exact ⟨tr, h⟩
  | cons l t ih =>
    intro tr s s' h ha
    unfold applyL at ha
    split at ha
    · rename_i s1 hs1
      have hnl := hnd l List.mem_cons_self
      have hrun : Run c (tr ++ [l]) s1 :=
        Run.step h (fun sg hl => by subst hl; simp [isDeliver] at hnl) hs1
      split at ha
      · cases ha; exact ⟨_, hrun⟩
      · exact ih (fun x hx => hnd x (List.mem_cons_of_mem _ hx)) _ _ _ hrun ha
    · cases ha

theorem expects_of_mayDeliver {s : State} (hi : Inv s) (h : mayDeliver s = true) : expectsHandler s := by
  unfold mayDeliver at h
  rcases Bool.or_eq_true _ _ |>.mp h with h | h
  · exact Or.inl h
  · obtain ⟨l, hl, hx⟩ := List.any_eq_true.mp h
    refine Or.inr ⟨l, hl, ?_⟩
    cases hex : l.exited with
    | false => rfl
    | true =>
      rcases hi.why l hl hex with hd | hd <;> simp [hd] at hx

/-- the labels of one script token extend a guarded run of the code's cleanup -/
theorem tokLabels_run {x : X} {t : Tok} {tr ls : List Label} {st : State} (hr : Run .stopOwn tr x.st)
    (hls : tokLabels x t = .ok ls) (hst : applyL .stopOwn x.st ls = some st) :
    ∃ tr', Run .stopOwn tr' st := by
  cases t with
  | sig sg =>
    simp only [tokLabels] at hls
    split at hls
    · rename_i hmd
      cases hls
      unfold applyL at hst
      split at hst
      · rename_i s1 hs1
        have hr1 : Run .stopOwn (tr ++ [.deliver sg]) s1 :=
          Run.step hr (fun _ _ => expects_of_mayDeliver (inv_run hr) hmd) hs1
        split at hst
        · cases hst; exact ⟨_, hr1⟩
        · refine noDeliver_applyL _ _ ?_ _ _ _ hr1 hst
          intro l hl
          obtain ⟨_, _, rfl⟩ := List.mem_map.mp hl
          rfl
      · cases hst
    · cases hls
  | sess =>
    simp only [tokLabels] at hls; cases hls
    exact noDeliver_applyL _ _ (by intro l hl; simp at hl; subst hl; rfl) _ _ _ hr hst
  | unsess =>
    simp only [tokLabels] at hls; cases hls
    exact noDeliver_applyL _ _ (by intro l hl; simp at hl; subst hl; rfl) _ _ _ hr hst
  | begin i g =>
    simp only [tokLabels] at hls; cases hls
    exact noDeliver_applyL _ _ (by intro l hl; simp at hl; subst hl; rfl) _ _ _ hr hst
  | fin i =>
    simp only [tokLabels] at hls
    split at hls
    · split at hls
      · cases hls
        exact noDeliver_applyL _ _ (by intro l hl; simp at hl; rcases hl with rfl | rfl <;> rfl) _ _ _ hr hst
      · cases hls
    · cases hls
  | wait i =>
    simp only [tokLabels] at hls
    split at hls
    · split at hls
      · cases hls
        refine noDeliver_applyL _ _ ?_ _ _ _ hr hst
        intro l hl
        split at hl
        · cases hl
        · simp at hl; subst hl; rfl
      · cases hls
    · cases hls
  | delay =>
    simp only [tokLabels] at hls; cases hls
    exact noDeliver_applyL _ _ (by intro l hl; cases hl) _ _ _ hr hst

theorem tokStep_run {x x' : X} {t : Tok} {tr : List Label} (hr : Run .stopOwn tr x.st)
    (h : tokStep .stopOwn x t = .ok x') : ∃ tr', Run .stopOwn tr' x'.st := by
  unfold tokStep at h
  split at h
  · cases h
  · rename_i ls hls
    split at h
    · cases h
    · rename_i st hst
      obtain ⟨tr', hr'⟩ := tokLabels_run hr hls hst
      split at h
      · cases h
      · cases t <;> simp only at h
        all_goals first
          | (cases h; exact ⟨tr', hr'⟩)
          | (split at h
             · cases h; exact ⟨tr', hr'⟩
             · cases h)

/-- a token never ends with the process killed: it either extends the guarded run or is refused
(`unhandled`, `bad`) -/
theorem tokStep_not_killed {x : X} {t : Tok} {tr : List Label} (hr : Run .stopOwn tr x.st) :
    tokStep .stopOwn x t ≠ .error .killed := by
  intro h
  unfold tokStep at h
  split at h
  · rename_i e he
    cases h
    cases t <;> simp only [tokLabels] at he <;> (repeat' split at he) <;> cases he
  · rename_i ls hls
    split at h
    · cases h
    · rename_i st hst
      obtain ⟨tr', hr'⟩ := tokLabels_run hr hls hst
      split at h
      · rename_i hk
        rw [(inv_run hr').alive] at hk
        cases hk
      · cases t <;> simp only at h
        all_goals first
          | cases h
          | (split at h <;> cases h)

theorem runToks_not_killed (ts : List Tok) : ∀ (x : X) (k : Nat) (tr : List Label), Run .stopOwn tr x.st →
    ∀ j, runToks .stopOwn x k ts ≠ .inr (j, .killed) := by
  induction ts with
  | nil => intro x k tr _ j h; simp [runToks] at h
  | cons t ts ih =>
    intro x k tr hr j h
    unfold runToks at h
    split at h
    · rename_i x' hx'
      obtain ⟨tr', hr'⟩ := tokStep_run hr hx'
      exact ih x' (k + 1) tr' hr' j h
    · rename_i e he
      cases h
      exact tokStep_not_killed hr he

end C19.Sig
