import ElvModel.C19.Model
namespace C19

theorem run_of_replay_aux (ls : List Label) : ∀ (pre : List Label) (s0 s : State) (i : Nat),
    Run pre s0 → replay s0 i ls = .inl s → Run (pre ++ ls) s := by
  induction ls with
  | nil => intro pre s0 s i h hr; simp [replay] at hr; subst hr; simpa using h
  | cons l t ih =>
    intro pre s0 s i h hr
    unfold replay at hr
    split at hr
    · rename_i s1 hs1
      have := ih (pre ++ [l]) s1 s (i + 1) (Run.step h hs1) hr
      simpa using this
    · simp at hr

theorem run_of_replay {ls : List Label} {s : State} (h : replay init 0 ls = .inl s) : Run ls s := by
  simpa using run_of_replay_aux ls [] init s 0 Run.init h

end C19
