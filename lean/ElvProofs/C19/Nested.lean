import ElvModel.C19.Nested
import ElvProofs.C19.Interp
/-! Propagation of `interrupted` through nested and concurrent constructs with an asynchronous
interrupt (`ElvModel/C19/Nested.lean`). -/
namespace C19

theorem can_mono {T : Option Nat} {t t' : Nat} (h : t ≤ t') (hc : can T t = true) : can T t' = true := by
  unfold can at *
  cases T with
  | none => simp at hc
  | some c => simp at *; omega

theorem R.eq_int_of_ne_ok {r : R} (h : r ≠ .ok) : r = .int := by
  cases r <;> simp_all

theorem R.join_int {a b : R} : a.join b = .int ↔ a = .int ∨ b = .int := by
  cases a <;> cases b <;> simp [R.join]

/-- a command-like semantics: time moves forward, and `interrupted` comes out only if the interrupt
has been delivered by the end -/
def SoundC (T : Option Nat) (f : Nat → R → Nat → Prop) : Prop :=
  ∀ t0 r t1, f t0 r t1 → t0 ≤ t1 ∧ (r = .int → can T t1 = true)

/-- a chunk-like semantics: the result is `interrupted` exactly if the interrupt has been delivered
by the time it ends -/
def AgreeP (T : Option Nat) (f : Nat → R → Nat → Prop) : Prop :=
  ∀ t0 r t1, f t0 r t1 → t0 ≤ t1 ∧ (r = .int ↔ can T t1 = true)

theorem iterR_sound {T : Option Nat} {f : Nat → R → Nat → Prop} (hf : AgreeP T f) :
    ∀ n, SoundC T (iterR f n)
  | 0 => by
    intro t0 r t1 h
    simp only [iterR] at h
    exact ⟨h.1, by intro hr; rw [h.2] at hr; cases hr⟩
  | n + 1 => by
    intro t0 r t1 h
    simp only [iterR] at h
    obtain ⟨r1, ta, h1, h2⟩ := h
    have hb := hf _ _ _ h1
    rcases h2 with ⟨_, hr, ht⟩ | ⟨_, hrest⟩
    · subst hr ht; exact ⟨hb.1, fun hr => hb.2.mp hr⟩
    · have ih := iterR_sound hf n _ _ _ hrest
      exact ⟨by omega, ih.2⟩

theorem allIn_sound {T : Option Nat} {f : Nat → R → Nat → Prop} (hf : AgreeP T f) (t0 t1 : Nat) :
    ∀ rs, allIn f t0 t1 rs → R.joinAll rs = .int → can T t1 = true
  | [] => by intro _ h; simp [R.joinAll] at h
  | r :: rs => by
    intro h hj
    simp only [allIn] at h
    obtain ⟨⟨ts, te, _, h2, h3⟩, hrest⟩ := h
    simp only [R.joinAll] at hj
    rcases R.join_int.mp hj with h | h
    · exact can_mono h2 ((hf _ _ _ h3).2.mp h)
    · exact allIn_sound hf t0 t1 rs hrest h

mutual
theorem evC_sound (T : Option Nat) : ∀ c, SoundC T (evC T c)
  | .step => by
    intro t0 r t1 h
    simp only [evC] at h
    exact ⟨h.1, by intro hr; rw [h.2] at hr; cases hr⟩
  | .sleep => by
    intro t0 r t1 h
    simp only [evC] at h
    exact h
  | .loop n body => by
    intro t0 r t1 h
    simp only [evC] at h
    exact iterR_sound (evP_agree T body) n _ _ _ h
  | .call body => by
    intro t0 r t1 h
    simp only [evC] at h
    have := evP_agree T body _ _ _ h
    exact ⟨this.1, this.2.mp⟩
  | .tryFinally body fin => by
    intro t0 r t1 h
    simp only [evC] at h
    obtain ⟨r1, ta, r2, h1, h2, hr⟩ := h
    have hb := evP_agree T body _ _ _ h1
    have hf := evP_agree T fin _ _ _ h2
    refine ⟨by omega, ?_⟩
    intro hri
    cases r2 with
    | int => exact hf.2.mp rfl
    | ok =>
      simp at hr; subst hr
      exact can_mono hf.1 (hb.2.mp hri)
  | .par a b => by
    intro t0 r t1 h
    simp only [evC] at h
    obtain ⟨ta, ra, ta', tb, rb, tb', h1, h2, h3, h4, ha, hb, hr⟩ := h
    have hsa := evC_sound T a _ _ _ ha
    have hsb := evC_sound T b _ _ _ hb
    refine ⟨by omega, ?_⟩
    intro hri
    rw [hr] at hri
    rcases R.join_int.mp hri with h | h
    · exact can_mono h2 (hsa.2 h)
    · exact can_mono h4 (hsb.2 h)
  | .peach n body => by
    intro t0 r t1 h
    simp only [evC] at h
    obtain ⟨h1, rs, _, _, hall, hr⟩ := h
    refine ⟨h1, ?_⟩
    intro hri
    rw [hr] at hri
    exact allIn_sound (evP_agree T body) t0 t1 rs hall hri
theorem evP_agree (T : Option Nat) : ∀ p, AgreeP T (evP T p)
  | .done => by
    intro t0 r t1 h
    simp only [evP] at h
    refine ⟨h.1, ?_⟩
    rw [h.2]
    cases can T t1 <;> simp
  | .pipe c rest => by
    intro t0 r t1 h
    simp only [evP] at h
    obtain ⟨ta, h0, h⟩ := h
    rcases h with ⟨hc, hr, ht⟩ | ⟨hc, rc, tb, hev, h⟩
    · subst hr ht; exact ⟨h0, by simp [hc]⟩
    · have hs := evC_sound T c _ _ _ hev
      rcases h with ⟨hne, hr, ht⟩ | ⟨_, hrest⟩
      · subst hr ht
        have hri := R.eq_int_of_ne_ok hne
        exact ⟨by omega, by simp [hri, hs.2 hri]⟩
      · have ih := evP_agree T rest _ _ _ hrest
        exact ⟨by omega, ih.2⟩
end

/-! ### the executable schedule is one of the executions (so every program has executions, for
every delivery time) -/

theorem iterRun_ev {f : Nat → R → Nat → Prop} {g : Nat → R × Nat} (hg : ∀ t, f t (g t).1 (g t).2) :
    ∀ n t, iterR f n t (iterRun g n t).1 (iterRun g n t).2
  | 0, t => by simp [iterR, iterRun]
  | n + 1, t => by
    simp only [iterR, iterRun]
    have h := hg t
    cases hgt : g t with
    | mk r ta =>
      rw [hgt] at h
      cases r with
      | ok => exact ⟨.ok, ta, h, Or.inr ⟨rfl, iterRun_ev hg n ta⟩⟩
      | int => exact ⟨.int, ta, h, Or.inl ⟨by simp, rfl, rfl⟩⟩

theorem peachRun_length (g : Nat → R × Nat) : ∀ n t, (peachRun g n t).1.length = n
  | 0, t => by simp [peachRun]
  | n + 1, t => by simp [peachRun, peachRun_length g n]

theorem allIn_weaken {f : Nat → R → Nat → Prop} {t0 t0' t1 t1' : Nat} (h0 : t0' ≤ t0) (h1 : t1 ≤ t1') :
    ∀ rs, allIn f t0 t1 rs → allIn f t0' t1' rs
  | [] => by intro _; trivial
  | r :: rs => by
    intro h
    simp only [allIn] at h ⊢
    obtain ⟨⟨ts, te, a, b, c⟩, hrest⟩ := h
    exact ⟨⟨ts, te, by omega, by omega, c⟩, allIn_weaken h0 h1 rs hrest⟩

theorem peachRun_ev {f : Nat → R → Nat → Prop} {g : Nat → R × Nat} (hg : ∀ t, f t (g t).1 (g t).2)
    (hmono : ∀ t, t ≤ (g t).2) :
    ∀ n t, t ≤ (peachRun g n t).2 ∧ allIn f t (peachRun g n t).2 (peachRun g n t).1
  | 0, t => by simp [peachRun, allIn]
  | n + 1, t => by
    simp only [peachRun]
    have h := hg t
    have hm := hmono t
    obtain ⟨ih1, ih2⟩ := peachRun_ev hg hmono n (g t).2
    refine ⟨by omega, ?_⟩
    simp only [allIn]
    exact ⟨⟨t, (g t).2, Nat.le_refl _, ih1, h⟩, allIn_weaken hm (Nat.le_refl _) _ ih2⟩

mutual
theorem runC_ev (T : Option Nat) : ∀ c t, evC T c t (runC T c t).1 (runC T c t).2
  | .step, t => by simp [evC, runC]
  | .sleep, t => by
    simp only [evC, runC]
    refine ⟨by omega, ?_⟩
    cases can T (t + 1) <;> simp
  | .loop n body, t => by
    simp only [evC, runC]
    exact iterRun_ev (fun t => runP_ev T body t) n t
  | .call body, t => by
    simp only [evC, runC]
    exact runP_ev T body t
  | .tryFinally body fin, t => by
    simp only [evC, runC]
    exact ⟨_, _, _, runP_ev T body t, runP_ev T fin _, rfl⟩
  | .par a b, t => by
    simp only [evC, runC]
    have ha := runC_ev T a t
    have hb := runC_ev T b (runC T a t).2
    have hsa := (evC_sound T a _ _ _ ha).1
    have hsb := (evC_sound T b _ _ _ hb).1
    exact ⟨t, _, _, _, _, _, Nat.le_refl _, hsb, hsa, Nat.le_refl _, ha, hb, rfl⟩
  | .peach n body, t => by
    simp only [evC, runC]
    have h := peachRun_ev (f := evP T body) (g := runP T body) (fun t => runP_ev T body t)
      (fun t => (evP_agree T body _ _ _ (runP_ev T body t)).1) n t
    exact ⟨h.1, _, Nat.le_of_eq (peachRun_length _ n t), Or.inl (peachRun_length _ n t), h.2, rfl⟩
theorem runP_ev (T : Option Nat) : ∀ p t, evP T p t (runP T p t).1 (runP T p t).2
  | .done, t => by
    simp only [evP, runP]
    exact ⟨by omega, rfl⟩
  | .pipe c rest, t => by
    simp only [evP, runP]
    refine ⟨t + 1, by omega, ?_⟩
    cases hc : can T (t + 1) with
    | true => left; simp
    | false =>
      right
      refine ⟨rfl, ?_⟩
      have h := runC_ev T c (t + 1)
      cases hr : runC T c (t + 1) with
      | mk rc tb =>
        rw [hr] at h
        cases rc with
        | ok => exact ⟨.ok, tb, h, Or.inr ⟨rfl, by simpa using runP_ev T rest tb⟩⟩
        | int => exact ⟨.int, tb, h, Or.inl ⟨by simp, by simp, by simp⟩⟩
end

/-! ### the sequential interpreter of `Interp.lean` is an instance (clock = number of steps run) -/

/-- the bookkeeping invariant of `Interp.lean`, plus: an interrupt is only ever delivered when a
target step was set -/
def Wn (t : Nat) (st : St) : Prop := W t st ∧ (st.cancelled = true → t ≠ 0)

theorem Wn_tick (t : Nat) (st : St) (h : Wn t st) (hc : st.cancelled = false) : Wn t (tick t st) := by
  refine ⟨W_tick t st h.1 hc, ?_⟩
  unfold tick
  intro h2
  simp [hc] at h2
  exact h2.1

theorem exec_Wn (t : Nat) (p : Prog) : ∀ st, Wn t st → Wn t (exec t p st).2 :=
  exec_inv t (Wn t) (Wn_tick t) p

theorem iter_Wn (t : Nat) (p : Prog) : ∀ n st, Wn t st → Wn t (iter (exec t p) n st).2 :=
  iter_inv (Wn t) (exec t p) (exec_Wn t p)

/-- on the clock "number of steps run", a check sees the interrupt iff the flag is set -/
theorem Wn_can {t : Nat} {st : St} (h : Wn t st) : can (syncT t) st.steps = st.cancelled := by
  obtain ⟨hw, hn⟩ := h
  unfold W at hw
  unfold can syncT
  by_cases h0 : t = 0
  · subst h0
    cases hc : st.cancelled with
    | false => simp
    | true => exact absurd rfl (hn hc)
  · simp only [h0, ↓reduceIte]
    rcases hw with ⟨hc, h⟩ | ⟨hc, h⟩
    · rw [hc]; simp; omega
    · rw [hc]; simp; omega

theorem iter_ev (t : Nat) (body : Prog)
    (ih : ∀ st, Wn t st → evP (syncT t) (emb body) st.steps (exec t body st).1 (exec t body st).2.steps) :
    ∀ n st, Wn t st → iterR (evP (syncT t) (emb body)) n st.steps
      (iter (exec t body) n st).1 (iter (exec t body) n st).2.steps
  | 0, st, _ => by simp [iterR, iter]
  | n + 1, st, h => by
    simp only [iterR, iter]
    have h1 := ih st h
    have h2 := exec_Wn t body st h
    cases hx : exec t body st with
    | mk r st' =>
      rw [hx] at h1 h2
      cases r with
      | ok => exact ⟨.ok, st'.steps, h1, Or.inr ⟨rfl, iter_ev t body ih n st' h2⟩⟩
      | int => exact ⟨.int, st'.steps, h1, Or.inl ⟨by simp, rfl, rfl⟩⟩

/-- Every run of the sequential interpreter (`exec`, interrupt delivered synchronously at the
`t`-th step) is an execution of the nested semantics, with delivery time `t` on the clock that
counts steps. -/
theorem exec_ev (t : Nat) (p : Prog) :
    ∀ st, Wn t st → evP (syncT t) (emb p) st.steps (exec t p st).1 (exec t p st).2.steps := by
  induction p with
  | done =>
    intro st h
    have hc := Wn_can h
    unfold exec
    simp only [emb, evP]
    cases hcc : st.cancelled <;> simp [hcc] at hc ⊢ <;> simp [hc]
  | step rest ih =>
    intro st h
    have hc := Wn_can h
    unfold exec
    simp only [emb, evP]
    refine ⟨st.steps, Nat.le_refl _, ?_⟩
    cases hcc : st.cancelled with
    | true => left; simp [hcc] at hc ⊢; exact hc
    | false =>
      right
      simp [hcc] at hc ⊢
      refine ⟨hc, .ok, st.steps + 1, by simp [evC], Or.inr ⟨rfl, ?_⟩⟩
      exact ih (tick t st) (Wn_tick t st h hcc)
  | sleep rest ih =>
    intro st h
    have hc := Wn_can h
    unfold exec
    simp only [emb, evP]
    refine ⟨st.steps, Nat.le_refl _, ?_⟩
    cases hcc : st.cancelled with
    | true => left; simp [hcc] at hc ⊢; exact hc
    | false =>
      right
      simp [hcc] at hc ⊢
      exact ⟨hc, .ok, st.steps, by simp [evC], Or.inr ⟨rfl, ih st h⟩⟩
  | loop n body rest ihb ihr =>
    intro st h
    have hc := Wn_can h
    unfold exec
    simp only [emb, evP]
    refine ⟨st.steps, Nat.le_refl _, ?_⟩
    cases hcc : st.cancelled with
    | true => left; simp [hcc] at hc ⊢; exact hc
    | false =>
      right
      simp [hcc] at hc ⊢
      refine ⟨hc, ?_⟩
      have h1 := iter_ev t body ihb n st h
      have h2 := iter_Wn t body n st h
      cases hx : iter (exec t body) n st with
      | mk r st' =>
        rw [hx] at h1 h2
        cases r with
        | ok => exact ⟨.ok, st'.steps, by simpa [evC] using h1, Or.inr ⟨rfl, ihr st' h2⟩⟩
        | int => exact ⟨.int, st'.steps, by simpa [evC] using h1, Or.inl ⟨by simp, rfl, rfl⟩⟩
  | call body rest ihb ihr =>
    intro st h
    have hc := Wn_can h
    unfold exec
    simp only [emb, evP]
    refine ⟨st.steps, Nat.le_refl _, ?_⟩
    cases hcc : st.cancelled with
    | true => left; simp [hcc] at hc ⊢; exact hc
    | false =>
      right
      simp [hcc] at hc ⊢
      refine ⟨hc, ?_⟩
      have h1 := ihb st h
      have h2 := exec_Wn t body st h
      cases hx : exec t body st with
      | mk r st' =>
        rw [hx] at h1 h2
        cases r with
        | ok => exact ⟨.ok, st'.steps, by simpa [evC] using h1, Or.inr ⟨rfl, ihr st' h2⟩⟩
        | int => exact ⟨.int, st'.steps, by simpa [evC] using h1, Or.inl ⟨by simp, rfl, rfl⟩⟩
  | tryFinally body fin rest ihb ihf ihr =>
    intro st h
    have hc := Wn_can h
    unfold exec
    simp only [emb, evP]
    refine ⟨st.steps, Nat.le_refl _, ?_⟩
    cases hcc : st.cancelled with
    | true => left; simp [hcc] at hc ⊢; exact hc
    | false =>
      right
      simp [hcc] at hc ⊢
      refine ⟨hc, ?_⟩
      have h1 := ihb st h
      have h2 := exec_Wn t body st h
      cases hx : exec t body st with
      | mk r st1 =>
        rw [hx] at h1 h2
        have h3 := ihf st1 h2
        have h4 := exec_Wn t fin st1 h2
        cases hy : exec t fin st1 with
        | mk rf st2 =>
          rw [hy] at h3 h4
          cases rf with
          | int =>
            exact ⟨.int, st2.steps, by simp only [evC]; exact ⟨r, st1.steps, .int, h1, h3, by simp⟩,
              Or.inl ⟨by simp, rfl, rfl⟩⟩
          | ok =>
            cases r with
            | ok =>
              exact ⟨.ok, st2.steps, by simp only [evC]; exact ⟨.ok, st1.steps, .ok, h1, h3, by simp⟩,
                Or.inr ⟨rfl, ihr st2 h4⟩⟩
            | int =>
              exact ⟨.int, st2.steps, by simp only [evC]; exact ⟨.int, st1.steps, .ok, h1, h3, by simp⟩,
                Or.inl ⟨by simp, rfl, rfl⟩⟩

end C19
