import ElvModel.C19.Interp
/-! The sequential fragment: an interrupt turns the result into `interrupted` and nothing runs
after it. -/
namespace C19

theorem exec_cancelled (t : Nat) (p : Prog) (st : St) (h : st.cancelled = true) :
    exec t p st = (.int, st) := by
  cases p <;> simp [exec, h]

/-- result and interrupt flag agree -/
def Agree (x : R × St) : Prop := x.2.cancelled = true ↔ x.1 = .int

theorem iter_agree (f : St → R × St) (hf : ∀ st, Agree (f st)) :
    ∀ n st, st.cancelled = false → Agree (iter f n st) := by
  intro n
  induction n with
  | zero => intro st h; simp [iter, Agree, h]
  | succ n ih =>
    intro st h
    unfold iter
    have := hf st
    cases hfs : f st with
    | mk r st' =>
      cases r with
      | ok =>
        simp only
        apply ih
        simp [Agree, hfs] at this
        cases hc : st'.cancelled <;> simp_all
      | int => simpa [hfs] using this

theorem exec_agree (t : Nat) (p : Prog) : ∀ st, Agree (exec t p st) := by
  induction p with
  | done => intro st; unfold exec; split <;> simp_all [Agree]
  | step rest ih =>
    intro st; unfold exec; split
    · simp_all [Agree]
    · exact ih _
  | sleep rest ih =>
    intro st; unfold exec; split
    · simp_all [Agree]
    · exact ih _
  | loop n body rest ihb ihr =>
    intro st; unfold exec; split
    · simp_all [Agree]
    · rename_i hc
      have hi := iter_agree (exec t body) ihb n st (by simpa using hc)
      cases hit : iter (exec t body) n st with
      | mk r st' =>
        cases r with
        | ok => simpa using ihr st'
        | int => simpa [hit] using hi
  | call body rest ihb ihr =>
    intro st; unfold exec; split
    · simp_all [Agree]
    · have hb := ihb st
      cases hx : exec t body st with
      | mk r st' =>
        cases r with
        | ok => simpa using ihr st'
        | int => simpa [hx] using hb
  | tryFinally body fin rest ihb ihf ihr =>
    intro st; unfold exec; split
    · simp_all [Agree]
    · have hb := ihb st
      cases hx : exec t body st with
      | mk r st1 =>
        have hf := ihf st1
        cases hy : exec t fin st1 with
        | mk rf st2 =>
          cases rf with
          | int => simpa [hy] using hf
          | ok =>
            cases r with
            | ok => simp only [hy]; exact ihr st2
            | int =>
              -- the body was interrupted, so `fin` starts cancelled and cannot end OK
              have h1 : st1.cancelled = true := by simpa [Agree, hx] using hb
              rw [exec_cancelled t fin st1 h1] at hy
              simp at hy

/-- bookkeeping of `-vstep`: before the interrupt fewer than `t` steps have run; after it exactly `t` -/
def W (t : Nat) (st : St) : Prop :=
  (st.cancelled = false ∧ (t = 0 ∨ st.steps < t)) ∨ (st.cancelled = true ∧ st.steps = t)

theorem W_tick (t : Nat) (st : St) (h : W t st) (hc : st.cancelled = false) : W t (tick t st) := by
  unfold W tick at *
  rcases h with ⟨_, h⟩ | ⟨h, _⟩
  · rcases h with h | h
    · subst h; left; simp [hc]
    · by_cases he : st.steps + 1 = t
      · right; simp [he, hc]; omega
      · left; simp [hc, he]; omega
  · simp [hc] at h

/-- any property of the state that `-vstep` preserves is preserved by a loop … -/
theorem iter_inv (I : St → Prop) (f : St → R × St) (hf : ∀ st, I st → I (f st).2) :
    ∀ n st, I st → I (iter f n st).2 := by
  intro n
  induction n with
  | zero => intro st h; simpa [iter] using h
  | succ n ih =>
    intro st h
    unfold iter
    have := hf st h
    cases hfs : f st with
    | mk r st' =>
      cases r with
      | ok => simp only; exact ih st' (by simpa [hfs] using this)
      | int => simpa [hfs] using this

/-- … and by every program (the only state change is `tick`, executed while not cancelled) -/
theorem exec_inv (t : Nat) (I : St → Prop) (hI : ∀ st, I st → st.cancelled = false → I (tick t st))
    (p : Prog) : ∀ st, I st → I (exec t p st).2 := by
  induction p with
  | done => intro st h; unfold exec; split <;> simpa using h
  | step rest ih =>
    intro st h; unfold exec; split
    · simpa using h
    · rename_i hc; exact ih _ (hI st h (by simpa using hc))
  | sleep rest ih =>
    intro st h; unfold exec; split
    · simpa using h
    · exact ih _ h
  | loop n body rest ihb ihr =>
    intro st h; unfold exec; split
    · simpa using h
    · have hi := iter_inv I (exec t body) ihb n st h
      cases hit : iter (exec t body) n st with
      | mk r st' =>
        cases r with
        | ok => simp only; exact ihr st' (by simpa [hit] using hi)
        | int => simpa [hit] using hi
  | call body rest ihb ihr =>
    intro st h; unfold exec; split
    · simpa using h
    · have hb := ihb st h
      cases hx : exec t body st with
      | mk r st' =>
        cases r with
        | ok => simp only; exact ihr st' (by simpa [hx] using hb)
        | int => simpa [hx] using hb
  | tryFinally body fin rest ihb ihf ihr =>
    intro st h; unfold exec; split
    · simpa using h
    · have hb := ihb st h
      cases hx : exec t body st with
      | mk r st1 =>
        have hf := ihf st1 (by simpa [hx] using hb)
        cases hy : exec t fin st1 with
        | mk rf st2 =>
          cases rf with
          | int => simpa [hy] using hf
          | ok =>
            cases r with
            | ok => simp only [hy]; exact ihr st2 (by simpa [hy] using hf)
            | int => simpa [hy] using hf

theorem iter_W (t : Nat) (f : St → R × St) (hf : ∀ st, W t st → W t (f st).2) :
    ∀ n st, W t st → W t (iter f n st).2 := iter_inv (W t) f hf

theorem exec_W (t : Nat) (p : Prog) : ∀ st, W t st → W t (exec t p st).2 :=
  exec_inv t (W t) (W_tick t) p

end C19
