/-
C43 — Completion inserts text that evaluates to the chosen candidate.

Model: `ElvModel/C43/Model.lean` + `Quote.lean` (the completion algorithm of
pkg/edit/complete after fixes/C43-*.patch, over the C01 parse tree).  Helper
lemmas: `ElvProofs/C43/*.lean`.
-/
import ElvProofs.C43.Main
import ElvProofs.C43.Files
open Go C01 C43
open Gen.C01Chars

/-! ## The replaced range -/

/-- The replaced range lies within the buffer: `0 ≤ from ≤ to ≤ |buf|`, for
every buffer (arbitrary bytes), cursor position (any integer) and environment. -/
theorem C43_range (env : C43.Env) (src : Bytes) (dot : Int) (r : Result)
    (h : complete env src dot = .result r) : r.frm ≤ r.to ∧ r.to ≤ src.length := by
  obtain ⟨tree, errs, path, ctx, g, hp, hf, hr, hres, _⟩ := completeG_result h
  have hok := (C01_lossless_partial env.isPrint src tree errs hp).1
  have hdesc := findN_desc dot true tree 0 path hf
  subst hres
  rw [finish_frm, finish_to]
  rcases runCompleters_range hr with ⟨x, hx, h1, h2, _⟩ | ⟨x, hx, _, h1, h2⟩ | ⟨x, hx, htxt, h1, h2, _⟩
  · have hmem : x ∈ path := List.mem_of_mem_head? hx
    have := hok x.1 (hdesc x hmem)
    rw [h1, h2]
    exact ⟨Nat.le_refl _, this.2.1⟩
  · have hmem : x ∈ path := List.dropLast_subset _ hx
    have := hok x.1 (hdesc x hmem)
    rw [h1, h2]
    exact ⟨this.1, this.2.1⟩
  · have hmem : x ∈ path := List.mem_of_mem_head? hx
    have hn := hok x.1 (hdesc x hmem)
    obtain ⟨hle, hlen, htext, _⟩ := hn
    have htl : x.1.text.length = x.1.to - x.1.frm := by
      rw [htext]; simp; omega
    rw [htxt rfl] at htl
    have hv := congrArg List.length (value_split x.1.value)
    simp only [List.length_append, List.length_cons] at hv htl
    rw [h1, h2]
    exact ⟨by omega, hlen⟩

/-- **The range is the seed word.**  When completion answers, the replaced
range is one of:
* (new word) empty, at the end of the separator (or empty chunk) the cursor is
  in, and the seed is empty;
* (word) the whole range of a `Compound` node of the parse tree that contains
  the cursor;
* (variable) the part of a variable written bare after `$`, `@` and the
  namespace: the text of the range is exactly the name seed. -/
theorem C43_range_is_seed_word (env : C43.Env) (src : Bytes) (dot : Int) (r : Result)
    (h : complete env src dot = .result r) :
    ∃ tree errs, parse env.isPrint src = .ok tree errs ∧
      ((∃ leaf, C01_Desc tree leaf ∧ r.frm = leaf.to ∧ r.to = leaf.to) ∨
       (∃ c, C01_Desc tree c ∧ c.kind = .compound ∧ r.frm = c.frm ∧ r.to = c.to ∧
          (c.frm : Int) ≤ dot ∧ dot ≤ (c.to : Int)) ∨
       (∃ v, C01_Desc tree v ∧ v.text = 36 :: v.value ∧ r.to = v.to ∧
          (src.drop r.frm).take (r.to - r.frm) = (splitIncompleteQNameNs (splitSigil v.value).2).2 ∧
          src.drop v.frm = 36 :: (splitSigil v.value).1 ++ (splitIncompleteQNameNs (splitSigil v.value).2).1 ++
            src.drop r.frm)) := by
  obtain ⟨tree, errs, path, ctx, g, hp, hf, hr, hres, _⟩ := completeG_result h
  refine ⟨tree, errs, hp, ?_⟩
  have hok := (C01_lossless_partial env.isPrint src tree errs hp).1
  have hdesc := findN_desc dot true tree 0 path hf
  subst hres
  rw [finish_frm, finish_to]
  rcases runCompleters_range hr with ⟨x, hx, h1, h2, _⟩ | ⟨x, hx, hk, h1, h2⟩ | ⟨x, hx, htxt, h1, h2, _⟩
  · left
    exact ⟨x.1, hdesc x (List.mem_of_mem_head? hx), h1, h2⟩
  · right; left
    have hmem : x ∈ path := List.dropLast_subset _ hx
    have hn := hok x.1 (hdesc x hmem)
    refine ⟨x.1, hdesc x hmem, hk, h1, h2, ?_⟩
    rcases findN_dropLast_holds hf x hx with hh | hh
    · exact ⟨hh.1, Int.le_of_lt hh.2⟩
    · rw [hh]
      exact ⟨by exact_mod_cast hn.1, Int.le_refl _⟩
  · right; right
    have hmem : x ∈ path := List.mem_of_mem_head? hx
    obtain ⟨hle, hlen, htext, _⟩ := hok x.1 (hdesc x hmem)
    have htx := htxt rfl
    refine ⟨x.1, hdesc x hmem, htx, h2, ?_⟩
    -- src.drop frm = text ++ rest, text = $ :: sigil ++ ns ++ name
    have hsrc : src.drop x.1.frm = x.1.text ++ src.drop x.1.to := by
      rw [htext]
      have : src.drop x.1.to = (src.drop x.1.frm).drop (x.1.to - x.1.frm) := by
        rw [List.drop_drop]; congr 1; omega
      rw [this, List.take_append_drop]
    rw [htx] at hsrc
    have hv := value_split x.1.value
    generalize (splitSigil x.1.value).1 = sg at *
    generalize (splitIncompleteQNameNs (splitSigil x.1.value).2).1 = ns at *
    generalize (splitIncompleteQNameNs (splitSigil x.1.value).2).2 = nm at *
    have hdrop : src.drop ctx.frm = nm ++ src.drop x.1.to := by
      rw [h1]
      have : src.drop (x.1.frm + 1 + sg.length + ns.length) = (src.drop x.1.frm).drop (1 + sg.length + ns.length) := by
        rw [List.drop_drop]; congr 1; omega
      rw [this, hsrc, hv]
      have e : 1 + sg.length + ns.length = (sg ++ ns).length + 1 := by simp; omega
      simp only [List.append_assoc, List.cons_append]
      rw [e, List.drop_succ_cons, ← List.append_assoc, List.drop_left]
    have hlenv : x.1.text.length = x.1.to - x.1.frm := by
      rw [htext]; simp; omega
    rw [htx, hv] at hlenv
    simp only [List.length_cons, List.length_append] at hlenv
    constructor
    · rw [hdrop, h2, h1]
      have : x.1.to - (x.1.frm + 1 + sg.length + ns.length) = nm.length := by omega
      rw [this]
      simp
    · rw [hsrc, hdrop, hv]
      simp

/-- non-vacuity: `ls fo` with the cursor at the end, one candidate -/
def C43_env0 : C43.Env :=
  { isPrint := fun r => decide (32 ≤ r ∧ r < 127)
    varVal := fun _ => none
    home := fun _ => none
    readDir := fun d => if d == [46] then some [{ name := [102, 111, 32, 111] }, { name := [98] }] else none
    argGen := none
    names := [] }

/-- does the outcome answer with a result satisfying `f`? -/
def C43_resultIs (o : Outcome) (f : Result → Bool) : Bool :=
  match o with
  | .result r => f r
  | _ => false

theorem C43_resultIs_iff {o : Outcome} {f : Result → Bool} (h : C43_resultIs o f = true) :
    ∃ r, o = .result r ∧ f r = true := by
  cases o <;> simp [C43_resultIs] at h
  exact ⟨_, rfl, h⟩

/-- `ls fo` + Tab in a directory with `fo o` and `b`: the range is `fo`, the
one candidate is inserted as `'fo o' `. -/
example : ∃ r, complete C43_env0 [108, 115, 32, 102, 111] 5 = .result r ∧ r.frm = 3 ∧ r.to = 5 ∧
    r.items.map (·.toInsert) = [[39, 102, 111, 32, 111, 39, 32]] := by
  obtain ⟨r, h1, h2⟩ := C43_resultIs_iff (o := complete C43_env0 [108, 115, 32, 102, 111] 5)
    (f := fun r => r.frm == 3 && r.to == 5 && r.items.map (·.toInsert) == [[39, 102, 111, 32, 111, 39, 32]]) (by decide +kernel)
  simp only [Bool.and_eq_true, beq_iff_eq] at h2
  exact ⟨r, h1, h2.1.1, h2.1.2, h2.2⟩

/-! ## Quoting: the inserted text is one word with the candidate's value -/

/-- **Round trip of the quoting `Cook` uses, in place** (bareword, single- and
double-quoted; arbitrary bytes, invalid UTF-8 included; every `unicode.IsPrint`;
every expression context).  After any text `pre` and before any text `rest`
that does not continue a word (`rest` is empty, or its first rune cannot start
a primary), the `Compound` grammar function of the parser reads
`QuoteAs(stem, q)` as exactly one word — `Compound[Indexing[Primary]]` spanning
exactly the inserted text, no index, no tilde — whose primary has the quoting
`QuoteAs` reports and the value `stem`; it stops right after the text and
records no error.  (This is the C03 round trip, proved here for the contexts
completion inserts into.) -/
theorem C43_quote_roundtrip (isPrint : Int → Bool) (stem : Bytes) (q ctx : Int) (pre rest : Bytes)
    (k : Nat) (errs : List PErr)
    (hstop : startsIndexing isPrint (peekOf rest) ctx = false) :
    parseCompound isPrint (pre ++ (QuoteAs isPrint stem q).1 ++ rest) ctx
        { pos := pre.length, overEOF := k, errors := errs } =
      .ok (wordNode ctx pre.length (QuoteAs isPrint stem q).1 (QuoteAs isPrint stem q).2 stem)
        { pos := pre.length + (QuoteAs isPrint stem q).1.length, overEOF := k, errors := errs } :=
  quoteAs_word_rt isPrint stem q ctx pre rest k errs hstop

/-- non-vacuity: `fo o` after `ls ` is inserted as `'fo o'` and read back -/
example : (QuoteAs C43_env0.isPrint [102, 111, 32, 111] Bareword).1 = [39, 102, 111, 32, 111, 39] ∧
    startsIndexing C43_env0.isPrint (peekOf [32]) NormalExpr = false := by decide +kernel

/-- the value of the word the round trip yields, by the static evaluator:
`stem` (so the completed word *evaluates* to the candidate) -/
theorem C43_word_value (isPrint : Int → Bool) (ctx : Int) (frm : Nat) (w : Bytes) (ty : Int) (stem : Bytes)
    (hty : ty = Bareword ∨ ty = SingleQuoted ∨ ty = DoubleQuoted) :
    purelyEvalPartialCompound (literalEnv isPrint) (wordNode ctx frm w ty stem) (-1) = .ok (some stem) := by
  rcases hty with rfl | rfl | rfl <;>
    simp [purelyEvalPartialCompound, wordNode, quotedNode, Node.childrenOf, Node.children, pepcLoop, headOf,
      Node.kind, Node.ptype, Node.fields, Node.value, Bareword, SingleQuoted, DoubleQuoted, Tilde]

/-- the quoting `QuoteAs` reports is one of the three -/
theorem C43_quoteAs_type (isPrint : Int → Bool) (stem : Bytes) (q : Int) :
    (QuoteAs isPrint stem q).2 = Bareword ∨ (QuoteAs isPrint stem q).2 = SingleQuoted ∨
      (QuoteAs isPrint stem q).2 = DoubleQuoted := by
  unfold QuoteAs quoteAs
  split
  · right; right; rfl
  · split
    · right; left; rfl
    · split
      · right; right; rfl
      · split
        · left; rfl
        · right; left; rfl

/-- **Every candidate `Complete` offers is inserted as text that is one word
with the candidate's value** (the part of the property proved on the model;
the full statement, about the parse of the whole completed buffer, is
`C43_full`).  For every item of a result there is the raw candidate it was
cooked from: its display text is the stem; a `noQuoteItem` (variable names) is
inserted as is; every other item is inserted as `QuoteAs(stem, style) ++ suffix`
with a style that is bareword, single- or double-quoted, and in the completed
buffer `buf[:from] ++ toInsert ++ buf[to:]` the `Compound` grammar function run
at `from` — in any expression context, provided the text after the quoted stem
(`suffix ++ buf[to:]`) does not continue a word — reads exactly the quoted stem
as one word whose value, by the static evaluator, is the stem. -/
theorem C43_candidate_evaluates_partial (env : C43.Env) (src : Bytes) (dot : Int) (r : Result)
    (h : complete env src dot = .result r) (it : Item) (hit : it ∈ r.items) :
    ∃ (raw : Raw) (q : Int), it.toShow = raw.stem ∧
      (q = Bareword ∨ q = SingleQuoted ∨ q = DoubleQuoted) ∧
      (raw.noQuote = true → it.toInsert = raw.stem) ∧
      (raw.noQuote = false →
        it.toInsert = (QuoteAs env.isPrint raw.stem q).1 ++ raw.suffix ∧
        ∀ (ctx : Int) (k : Nat) (errs : List PErr),
          startsIndexing env.isPrint (peekOf (raw.suffix ++ src.drop r.to)) ctx = false →
          ∃ word, parseCompound env.isPrint (applyItem src r it) ctx { pos := r.frm, overEOF := k, errors := errs } =
              .ok word { pos := r.frm + (QuoteAs env.isPrint raw.stem q).1.length, overEOF := k, errors := errs } ∧
            word.frm = r.frm ∧ word.to = r.frm + (QuoteAs env.isPrint raw.stem q).1.length ∧
            purelyEvalPartialCompound (literalEnv env.isPrint) word (-1) = .ok (some raw.stem)) := by
  have hrange := C43_range env src dot r h
  obtain ⟨tree, errs0, path, ctx, g, hp, hf, hr, hres, _⟩ := completeG_result h
  subst hres
  obtain ⟨raw, _, _, hcook⟩ := finish_items hit
  refine ⟨raw, styleOf true ctx.quote, ?_, styleOf_fixed ctx.quote, ?_, ?_⟩
  · rw [hcook]; unfold cook; split <;> rfl
  · intro hnq; rw [hcook]; unfold cook; simp [hnq]
  · intro hnq
    have hins : it.toInsert = (QuoteAs env.isPrint raw.stem (styleOf true ctx.quote)).1 ++ raw.suffix := by
      rw [hcook]; unfold cook; simp [hnq]
    refine ⟨hins, ?_⟩
    intro cx k errs hstop
    have hlen : (src.take (finish true env ctx g).frm).length = (finish true env ctx g).frm := by
      rw [List.length_take]; omega
    have happ : applyItem src (finish true env ctx g) it =
        src.take (finish true env ctx g).frm ++ (QuoteAs env.isPrint raw.stem (styleOf true ctx.quote)).1 ++
          (raw.suffix ++ src.drop (finish true env ctx g).to) := by
      unfold applyItem; rw [hins]; simp
    have hrt := quoteAs_word_rt env.isPrint raw.stem (styleOf true ctx.quote) cx
      (src.take (finish true env ctx g).frm) (raw.suffix ++ src.drop (finish true env ctx g).to) k errs hstop
    rw [hlen] at hrt
    rw [happ]
    refine ⟨_, hrt, rfl, rfl, ?_⟩
    exact C43_word_value _ _ _ _ _ _ (C43_quoteAs_type _ _ _)

/-! ## Quoting matches the style the user had started -/

/-- The quoting of an inserted candidate, as a function of the style `q` the
user had started (the type of the primary under the cursor; bareword for a new
word, after a `~` and after a variable) and of the stem:
* double-quoted start → double-quoted;
* otherwise a stem with a rune that is not printable, invalid UTF-8 or U+FFFD
  → double-quoted (the only way to write it);
* single-quoted start → single-quoted (also for the empty string);
* bareword start → bareword if the stem is a bareword in every expression
  context (non-empty, no leading `~`), else single-quoted. -/
theorem C43_quote_style (isPrint : Int → Bool) (stem : Bytes) (q : Int) :
    (q = DoubleQuoted → QuoteAs isPrint stem q = (quoteDouble isPrint stem, DoubleQuoted)) ∧
    (q ≠ DoubleQuoted → stem ≠ [] → needsDouble isPrint stem = true →
        QuoteAs isPrint stem q = (quoteDouble isPrint stem, DoubleQuoted)) ∧
    (q = SingleQuoted → (stem = [] ∨ needsDouble isPrint stem = false) →
        QuoteAs isPrint stem q = (quoteSingle stem, SingleQuoted)) ∧
    (q = Bareword → stem ≠ [] → needsDouble isPrint stem = false → isBare isPrint stem strictExpr = true →
        QuoteAs isPrint stem q = (stem, Bareword)) ∧
    (q = Bareword → (stem = [] ∨ (needsDouble isPrint stem = false ∧ isBare isPrint stem strictExpr = false)) →
        QuoteAs isPrint stem q = (quoteSingle stem, SingleQuoted)) := by
  have hDS : (SingleQuoted == DoubleQuoted) = false := by decide
  have hDB : (Bareword == DoubleQuoted) = false := by decide
  have hSB : (SingleQuoted == Bareword) = false := by decide
  refine ⟨?_, ?_, ?_, ?_, ?_⟩
  · intro hq; subst hq; simp [QuoteAs, quoteAs]
  · intro hq hne hnd
    have h1 : (q == DoubleQuoted) = false := by simpa using hq
    have h2 : stem.isEmpty = false := by cases stem <;> simp_all
    simp [QuoteAs, quoteAs, h1, h2, hnd]
  · intro hq hcase; subst hq
    rcases hcase with rfl | hnd
    · simp [QuoteAs, quoteAs, hDS, quoteSingle, quoteSingleBody, toRunes, runes, runesFrom]
    · cases stem with
      | nil => simp [QuoteAs, quoteAs, hDS, quoteSingle, quoteSingleBody, toRunes, runes, runesFrom]
      | cons b t => simp [QuoteAs, quoteAs, hDS, hSB, hnd]
  · intro hq hne hnd hb; subst hq
    have h2 : stem.isEmpty = false := by cases stem <;> simp_all
    simp [QuoteAs, quoteAs, hDB, h2, hnd, hb]
  · intro hq hcase; subst hq
    rcases hcase with rfl | ⟨hnd, hb⟩
    · simp [QuoteAs, quoteAs, hDB, quoteSingle, quoteSingleBody, toRunes, runes, runesFrom]
    · cases stem with
      | nil => simp [QuoteAs, quoteAs, hDB, quoteSingle, quoteSingleBody, toRunes, runes, runesFrom]
      | cons b t => simp [QuoteAs, quoteAs, hDB, hnd, hb]

/-- the style `Complete` hands to `Cook` is the type of the primary under the
cursor if that is a quoted string, else bareword -/
example : styleOf true Tilde = Bareword ∧ styleOf true Variable = Bareword ∧
    styleOf true SingleQuoted = SingleQuoted ∧ styleOf true DoubleQuoted = DoubleQuoted ∧
    styleOf true Bareword = Bareword := by decide

/-! ## File name candidates -/

/-- **File name completion offers exactly the directory entries that start
with the typed prefix.**  For a seed `dir ++ prefix` (split at the last `/`)
and the listing of `dir` (`.` if empty) — entry names distinct and without `/`
— the candidates `Complete` shows are, as a list: a permutation of
`fileStems` (the entries whose name starts with `prefix`, with the same
hiddenness as `prefix`, `/` appended for directories and links to directories;
in command position only executables and directories), without repetition, in
ascending byte order. -/
theorem C43_filenames_exact (env : C43.Env) (ctx : Ctx) (execOrDir : Bool) (listing : List Entry)
    (hread : env.readDir (if (splitPath ctx.seed).1.isEmpty then [46] else (splitPath ctx.seed).1) = some listing)
    (hnames : (listing.map (·.name)).Nodup) (hslash : ∀ e ∈ listing, (47 : UInt8) ∉ e.name) :
    let shown := (finish true env ctx (Gen.ofOpt (generateFileNames env ctx.seed execOrDir))).items.map (·.toShow)
    shown.Perm (fileStems listing (splitPath ctx.seed).1 (splitPath ctx.seed).2 execOrDir) ∧ shown.Nodup ∧
      shown.Pairwise (fun a b => bytesLe a b = true) := by
  intro shown
  -- the raw candidates after the prefix filter
  have hgen : generateFileNames env ctx.seed execOrDir =
      some (listing.filterMap (fileItem (splitPath ctx.seed).1 (splitPath ctx.seed).2 execOrDir)) := by
    unfold generateFileNames
    simp only [hread]
  generalize hL : (listing.filter fun e => e.infoOk && (dotfile (splitPath ctx.seed).2 == dotfile e.name) &&
    (!execOrDir || e.exec || e.isDir) && (splitPath ctx.seed).2.isPrefixOf e.name) = kept
  have hkept : kept.Sublist listing := by rw [← hL]; exact List.filter_sublist
  generalize hR : kept.map (entryRaw (splitPath ctx.seed).1) = L
  have hfilt : filterPrefix ctx.seed
      (listing.filterMap (fileItem (splitPath ctx.seed).1 (splitPath ctx.seed).2 execOrDir)) = L := by
    rw [filtered_eq, hL, hR]
  have hstems : fileStems listing (splitPath ctx.seed).1 (splitPath ctx.seed).2 execOrDir = L.map (·.stem) := by
    rw [fileStems_eq, hL, hR]
  -- the stems are distinct
  have hLmem : ∀ x ∈ L, ∃ e ∈ listing, x = entryRaw (splitPath ctx.seed).1 e := by
    intro x hx
    rw [← hR] at hx
    obtain ⟨e, he, rfl⟩ := List.mem_map.mp hx
    exact ⟨e, hkept.subset he, rfl⟩
  have hnodupL : (L.map (·.stem)).Nodup := by
    rw [← hR, List.map_map]
    have hk : (kept.map (·.name)).Nodup := List.Nodup.sublist (hkept.map _) hnames
    rw [List.nodup_iff_pairwise_ne, List.pairwise_map] at hk ⊢
    refine List.Pairwise.imp_of_mem ?_ hk
    intro a b ha hb hne hst
    exact hne (stem_inj _ a b (hslash a (hkept.subset ha)) (hslash b (hkept.subset hb)) hst)
  -- what Complete does with them
  have hS := sortRaw_perm L
  have hcooked : (finish true env ctx (Gen.ofOpt (generateFileNames env ctx.seed execOrDir))).items =
      (sortRaw L).map (cook env.isPrint (styleOf true ctx.quote)) := by
    unfold finish
    simp only [hgen, Gen.ofOpt, hfilt]
    apply dedup_id
    rw [List.map_map]
    have hSn : ((sortRaw L).map (·.stem)).Nodup := (hS.map _).nodup_iff.mpr hnodupL
    rw [List.nodup_iff_pairwise_ne, List.pairwise_map] at hSn ⊢
    refine List.Pairwise.imp_of_mem ?_ hSn
    intro a b ha hb hne heq
    obtain ⟨ea, _, rfl⟩ := hLmem a (mem_sortRaw.mp ha)
    obtain ⟨eb, _, rfl⟩ := hLmem b (mem_sortRaw.mp hb)
    apply hne
    simp only [Function.comp, cook, entryRaw_noQuote, Bool.false_eq_true, if_false] at heq
    exact quoteAs_inj env.isPrint _ _ _ _ _ (entryRaw_suffix _ ea) (entryRaw_suffix _ eb) heq
  have hshown : shown = (sortRaw L).map (·.stem) := by
    show List.map (fun (x : Item) => x.toShow)
      (finish true env ctx (Gen.ofOpt (generateFileNames env ctx.seed execOrDir))).items = _
    rw [hcooked, List.map_map]
    apply List.map_congr_left
    intro a _
    simp only [Function.comp, cook]
    split <;> rfl
  rw [hshown, hstems]
  refine ⟨hS.map _, (hS.map _).nodup_iff.mpr hnodupL, ?_⟩
  rw [List.pairwise_map]
  exact sortRaw_sorted L

/-! ## The property at full strength, and where it fails -/

/-- **C43 at full strength** (for the candidates whose value is a string: file
names, arguments, indices, command names; variable-name candidates are checked
by resolution on the implementation only).  For every buffer, cursor position
inside it and environment whose generators produce ordinary candidates: when
completion answers, then for every candidate the buffer
`buf[:from] ++ toInsert ++ buf[to:]`, parsed as a whole, has a word starting at
`from` that ends within the inserted text and evaluates to the candidate. -/
def C43_full : Prop :=
  ∀ (env : C43.Env) (src : Bytes) (dot : Int) (r : Result),
    (∀ x ∈ env.names, x.noQuote = false ∧ x.suffix = []) →
    (∀ l, env.argGen = some l → ∀ x ∈ l, x.noQuote = false ∧ (x.suffix = [] ∨ x.suffix = [32])) →
    0 ≤ dot → dot ≤ src.length →
    complete env src dot = .result r → r.name ≠ "variable" →
    ∀ it ∈ r.items, ∃ e, wordValueAt env.isPrint (applyItem src r it) r.frm = some (it.toShow, e) ∧
      e ≤ r.frm + it.toInsert.length

/-- ASCII `unicode.IsPrint` -/
def C43_asciiPrint : Int → Bool := fun r => decide (32 ≤ r ∧ r < 127)

/-- an interpreter that knows the command `echo`; a directory with `foo` -/
def C43_env1 : C43.Env :=
  { isPrint := C43_asciiPrint
    varVal := fun _ => none
    home := fun u => if u == [] then some [47, 104] else none
    readDir := fun d => if d == [46] then some [{ name := [102, 111, 111] }]
      else if d == [47] then some [{ name := [104], isDir := true }] else none
    argGen := none
    names := [{ stem := [101, 99, 104, 111] }] }

/-- **C43 does not hold at full strength** (finding
`new-word-glued-to-following-text`): in `;x` with the cursor after `;` a new
command is completed directly before `x`; accepting `echo` gives `;echox`,
whose word at 1 is `echox`. -/
theorem C43_counterexample : ¬ C43_full := by
  intro H
  obtain ⟨r, hr, hf⟩ := C43_resultIs_iff (o := complete C43_env1 [59, 120] 1)
    (f := fun r => r.frm == 1 && r.to == 1 && r.name == "command" &&
      r.items == [{ toInsert := [101, 99, 104, 111], toShow := [101, 99, 104, 111] }]) (by decide +kernel)
  simp only [Bool.and_eq_true, beq_iff_eq] at hf
  obtain ⟨⟨⟨hfrm, hto⟩, hname⟩, hitems⟩ := hf
  have hmem : ({ toInsert := [101, 99, 104, 111], toShow := [101, 99, 104, 111] } : Item) ∈ r.items := by
    rw [hitems]; exact List.mem_cons_self
  obtain ⟨e, hv, _⟩ := H C43_env1 [59, 120] 1 r (by decide) (by intro l hl; cases hl) (by decide) (by decide) hr
    (by rw [hname]; decide) _ hmem
  have happ : applyItem [59, 120] r { toInsert := [101, 99, 104, 111], toShow := [101, 99, 104, 111] } =
      [59, 101, 99, 104, 111, 120] := by
    unfold applyItem; rw [hfrm, hto]; rfl
  rw [happ, hfrm] at hv
  have hreal : wordValueAt C43_asciiPrint [59, 101, 99, 104, 111, 120] 1 = some ([101, 99, 104, 111, 120], 6) := by
    decide +kernel
  rw [show C43_env1.isPrint = C43_asciiPrint from rfl, hreal] at hv
  simp at hv

/-! ### The unchanged tree (before fixes/C43-*.patch): counterexamples

`completeUnfixed` is the algorithm of the unchanged tree; the same inputs are
in harness/corpus/C43.txt and are replayed on the real code. -/

/-- insertion into a comment: `ls #` + Tab offers `foo`, giving `ls #foo ` —
a comment; with the fix there is no completion. -/
theorem C43_unfixed_comment_counterexample :
    C43_resultIs (completeUnfixed C43_env1 [108, 115, 32, 35] 4)
      (fun r => r.frm == 4 && r.to == 4 && r.items.map (·.toInsert) == [[102, 111, 111, 32]]) = true ∧
    wordValueAt C43_asciiPrint [108, 115, 32, 35, 102, 111, 111, 32] 4 = none ∧
    C43_resultIs (complete C43_env1 [108, 115, 32, 35] 4) (fun _ => true) = false := by
  decide +kernel

/-- quoting style after a `~`: `ls ~` + Tab quotes `/h/` although the user had
typed no quote; with the fix it is inserted bare. -/
theorem C43_unfixed_style_counterexample :
    C43_resultIs (completeUnfixed C43_env1 [108, 115, 32, 126] 4)
      (fun r => r.items.map (·.toInsert) == [[39, 47, 104, 47, 39]]) = true ∧
    C43_resultIs (complete C43_env1 [108, 115, 32, 126] 4)
      (fun r => r.items.map (·.toInsert) == [[47, 104, 47]]) = true := by
  decide +kernel

/-- the replaced range of a variable written quoted: for `put $'\xff\xff:` the
unchanged tree answers the range `[12, 9)` in a buffer of 9 bytes — outside
the buffer, and `from > to`; with the fix it is not treated as a bare variable. -/
theorem C43_unfixed_range_counterexample :
    C43_resultIs (completeUnfixed C43_env1 [112, 117, 116, 32, 36, 39, 255, 255, 58] 9)
      (fun r => r.frm == 12 && r.to == 9) = true ∧
    C43_resultIs (complete C43_env1 [112, 117, 116, 32, 36, 39, 255, 255, 58] 9)
      (fun r => r.name == "variable") = false := by
  decide +kernel

/-- a closing parenthesis taken for an opening one: `(a)` + Tab completes a
command after `)`, giving `(a)echo`, where no word starts at 3; with the fix
there is no completion. -/
theorem C43_unfixed_closing_counterexample :
    C43_resultIs (completeUnfixed C43_env1 [40, 97, 41] 3)
      (fun r => r.frm == 3 && r.to == 3 && r.items.map (·.toInsert) == [[101, 99, 104, 111]]) = true ∧
    wordValueAt C43_asciiPrint [40, 97, 41, 101, 99, 104, 111] 3 = none ∧
    C43_resultIs (complete C43_env1 [40, 97, 41] 3) (fun _ => true) = false := by
  decide +kernel

/-- with the fixes, the inputs above that still complete satisfy the full
statement: `ls fo` + Tab → `ls foo `, whose word at 3 is `foo` -/
example : C43_resultIs (complete C43_env1 [108, 115, 32, 102, 111] 5)
      (fun r => r.frm == 3 && r.to == 5 && r.items.map (·.toInsert) == [[102, 111, 111, 32]]) = true ∧
    wordValueAt C43_asciiPrint [108, 115, 32, 102, 111, 111, 32] 3 = some ([102, 111, 111], 6) := by
  decide +kernel

/-- A candidate inserted with a trailing space (every file that is not a
directory) meets the hypothesis of `C43_candidate_evaluates_partial` whatever
follows in the buffer: a space does not continue a word. -/
theorem C43_space_suffix_stops (isPrint : Int → Bool) (ctx : Int) (tail : Bytes) :
    startsIndexing isPrint (peekOf ([32] ++ tail)) ctx = false :=
  stops_space isPrint ctx tail

/-- … and so does the end of the buffer (a directory completed at the end of
the line). -/
theorem C43_end_of_buffer_stops (isPrint : Int → Bool) (ctx : Int) :
    startsIndexing isPrint (peekOf ([] ++ [])) ctx = false :=
  stops_nil isPrint ctx
