/-
C43 — Completion inserts text that evaluates to the chosen candidate.

Model: `ElvModel/C43/Model.lean` + `Quote.lean` (the completion algorithm of
pkg/edit/complete after fixes/C43-*.patch, over the C01 parse tree).  Helper
lemmas: `ElvProofs/C43/*.lean`.
-/
import ElvProofs.C43.Main
import ElvProofs.C43.Files
import ElvProofs.C43.QuoteC03
import ElvProofs.C43.Line
import ElvProofs.C43.Reach
import ElvProofs.C43.Nest
import ElvProofs.C43.Brace
import ElvProofs.C43.Redir
import ElvProofs.C43.Var
import ElvProofs.C03
open Go C01 C43
open Gen.C01Chars

/-! ## The replaced range -/

/-- The replaced range lies within the buffer: `0 ≤ from ≤ to ≤ |buf|`, for
every buffer (arbitrary bytes), cursor position (any integer) and environment. -/
theorem C43_range (env : C43.Env) (src : Bytes) (dot : Int) (r : Result)
    (h : complete env src dot = .result r) : r.frm ≤ r.to ∧ r.to ≤ src.length := by
  obtain ⟨tree, errs, path, ctx, g, hp, hf, hr, hres, _⟩ := completeG_result h
  have hok := (C01_lossless_partial env.isPrint src tree errs hp).1
  have hdesc := findN_desc dot true tree 0 path hf
  subst hres
  rw [finish_frm, finish_to]
  rcases runCompleters_range hr with ⟨x, hx, h1, h2, _⟩ | ⟨x, hx, _, h1, h2⟩ | ⟨x, hx, htxt, h1, h2, _⟩
  · have hmem : x ∈ path := List.mem_of_mem_head? hx
    have := hok x.1 (hdesc x hmem)
    rw [h1, h2]
    exact ⟨Nat.le_refl _, this.2.1⟩
  · have hmem : x ∈ path := List.dropLast_subset _ hx
    have := hok x.1 (hdesc x hmem)
    rw [h1, h2]
    exact ⟨this.1, this.2.1⟩
  · have hmem : x ∈ path := List.mem_of_mem_head? hx
    have hn := hok x.1 (hdesc x hmem)
    obtain ⟨hle, hlen, htext, _⟩ := hn
    have htl : x.1.text.length = x.1.to - x.1.frm := by
      rw [htext]; simp; omega
    rw [htxt rfl] at htl
    have hv := congrArg List.length (value_split x.1.value)
    simp only [List.length_append, List.length_cons] at hv htl
    rw [h1, h2]
    exact ⟨by omega, hlen⟩

/-- **The range is the seed word.**  When completion answers, the replaced
range is one of:
* (new word) empty, at the end of the separator (or empty chunk) the cursor is
  in, and the seed is empty;
* (word) the whole range of a `Compound` node of the parse tree that contains
  the cursor;
* (variable) the part of a variable written bare after `$`, `@` and the
  namespace: the text of the range is exactly the name seed. -/
theorem C43_range_is_seed_word (env : C43.Env) (src : Bytes) (dot : Int) (r : Result)
    (h : complete env src dot = .result r) :
    ∃ tree errs, parse env.isPrint src = .ok tree errs ∧
      ((∃ leaf, C01_Desc tree leaf ∧ r.frm = leaf.to ∧ r.to = leaf.to) ∨
       (∃ c, C01_Desc tree c ∧ c.kind = .compound ∧ r.frm = c.frm ∧ r.to = c.to ∧
          (c.frm : Int) ≤ dot ∧ dot ≤ (c.to : Int)) ∨
       (∃ v, C01_Desc tree v ∧ v.text = 36 :: v.value ∧ r.to = v.to ∧
          (src.drop r.frm).take (r.to - r.frm) = (splitIncompleteQNameNs (splitSigil v.value).2).2 ∧
          src.drop v.frm = 36 :: (splitSigil v.value).1 ++ (splitIncompleteQNameNs (splitSigil v.value).2).1 ++
            src.drop r.frm)) := by
  obtain ⟨tree, errs, path, ctx, g, hp, hf, hr, hres, _⟩ := completeG_result h
  refine ⟨tree, errs, hp, ?_⟩
  have hok := (C01_lossless_partial env.isPrint src tree errs hp).1
  have hdesc := findN_desc dot true tree 0 path hf
  subst hres
  rw [finish_frm, finish_to]
  rcases runCompleters_range hr with ⟨x, hx, h1, h2, _⟩ | ⟨x, hx, hk, h1, h2⟩ | ⟨x, hx, htxt, h1, h2, _⟩
  · left
    exact ⟨x.1, hdesc x (List.mem_of_mem_head? hx), h1, h2⟩
  · right; left
    have hmem : x ∈ path := List.dropLast_subset _ hx
    have hn := hok x.1 (hdesc x hmem)
    refine ⟨x.1, hdesc x hmem, hk, h1, h2, ?_⟩
    rcases findN_dropLast_holds hf x hx with hh | hh
    · exact ⟨hh.1, Int.le_of_lt hh.2⟩
    · rw [hh]
      exact ⟨by exact_mod_cast hn.1, Int.le_refl _⟩
  · right; right
    have hmem : x ∈ path := List.mem_of_mem_head? hx
    obtain ⟨hle, hlen, htext, _⟩ := hok x.1 (hdesc x hmem)
    have htx := htxt rfl
    refine ⟨x.1, hdesc x hmem, htx, h2, ?_⟩
    -- src.drop frm = text ++ rest, text = $ :: sigil ++ ns ++ name
    have hsrc : src.drop x.1.frm = x.1.text ++ src.drop x.1.to := by
      rw [htext]
      have : src.drop x.1.to = (src.drop x.1.frm).drop (x.1.to - x.1.frm) := by
        rw [List.drop_drop]; congr 1; omega
      rw [this, List.take_append_drop]
    rw [htx] at hsrc
    have hv := value_split x.1.value
    generalize (splitSigil x.1.value).1 = sg at *
    generalize (splitIncompleteQNameNs (splitSigil x.1.value).2).1 = ns at *
    generalize (splitIncompleteQNameNs (splitSigil x.1.value).2).2 = nm at *
    have hdrop : src.drop ctx.frm = nm ++ src.drop x.1.to := by
      rw [h1]
      have : src.drop (x.1.frm + 1 + sg.length + ns.length) = (src.drop x.1.frm).drop (1 + sg.length + ns.length) := by
        rw [List.drop_drop]; congr 1; omega
      rw [this, hsrc, hv]
      have e : 1 + sg.length + ns.length = (sg ++ ns).length + 1 := by simp; omega
      simp only [List.append_assoc, List.cons_append]
      rw [e, List.drop_succ_cons, ← List.append_assoc, List.drop_left]
    have hlenv : x.1.text.length = x.1.to - x.1.frm := by
      rw [htext]; simp; omega
    rw [htx, hv] at hlenv
    simp only [List.length_cons, List.length_append] at hlenv
    constructor
    · rw [hdrop, h2, h1]
      have : x.1.to - (x.1.frm + 1 + sg.length + ns.length) = nm.length := by omega
      rw [this]
      simp
    · rw [hsrc, hdrop, hv]
      simp

/-- non-vacuity: `ls fo` with the cursor at the end, one candidate -/
def C43_env0 : C43.Env :=
  { isPrint := fun r => decide (32 ≤ r ∧ r < 127)
    varVal := fun _ => none
    home := fun _ => none
    readDir := fun d => if d == [46] then some [{ name := [102, 111, 32, 111] }, { name := [98] }] else none
    argGen := none
    names := [] }

/-- does the outcome answer with a result satisfying `f`? -/
def C43_resultIs (o : Outcome) (f : Result → Bool) : Bool :=
  match o with
  | .result r => f r
  | _ => false

theorem C43_resultIs_iff {o : Outcome} {f : Result → Bool} (h : C43_resultIs o f = true) :
    ∃ r, o = .result r ∧ f r = true := by
  cases o <;> simp [C43_resultIs] at h
  exact ⟨_, rfl, h⟩

/-- `ls fo` + Tab in a directory with `fo o` and `b`: the range is `fo`, the
one candidate is inserted as `'fo o' `. -/
example : ∃ r, complete C43_env0 [108, 115, 32, 102, 111] 5 = .result r ∧ r.frm = 3 ∧ r.to = 5 ∧
    r.items.map (·.toInsert) = [[39, 102, 111, 32, 111, 39, 32]] := by
  obtain ⟨r, h1, h2⟩ := C43_resultIs_iff (o := complete C43_env0 [108, 115, 32, 102, 111] 5)
    (f := fun r => r.frm == 3 && r.to == 5 && r.items.map (·.toInsert) == [[39, 102, 111, 32, 111, 39, 32]]) (by decide +kernel)
  simp only [Bool.and_eq_true, beq_iff_eq] at h2
  exact ⟨r, h1, h2.1.1, h2.1.2, h2.2⟩

/-! ## Quoting: the inserted text is one word with the candidate's value -/

/-- **Round trip of the quoting `Cook` uses, in place** (bareword, single- and
double-quoted; arbitrary bytes, invalid UTF-8 included; every `unicode.IsPrint`;
every expression context).  After any text `pre` and before any text `rest`
that does not continue a word (`rest` is empty, or its first rune cannot start
a primary), the `Compound` grammar function of the parser reads
`QuoteAs(stem, q)` as exactly one word — `Compound[Indexing[Primary]]` spanning
exactly the inserted text, no index, no tilde — whose primary has the quoting
`QuoteAs` reports and the value `stem`; it stops right after the text and
records no error.  (This is the C03 round trip, proved here for the contexts
completion inserts into.) -/
theorem C43_quote_roundtrip (isPrint : Int → Bool) (stem : Bytes) (q ctx : Int) (pre rest : Bytes)
    (k : Nat) (errs : List PErr)
    (hstop : startsIndexing isPrint (peekOf rest) ctx = false) :
    parseCompound isPrint (pre ++ (QuoteAs isPrint stem q).1 ++ rest) ctx
        { pos := pre.length, overEOF := k, errors := errs } =
      .ok (wordNode ctx pre.length (QuoteAs isPrint stem q).1 (QuoteAs isPrint stem q).2 stem)
        { pos := pre.length + (QuoteAs isPrint stem q).1.length, overEOF := k, errors := errs } :=
  quoteAs_word_rt isPrint stem q ctx pre rest k errs hstop

/-- non-vacuity: `fo o` after `ls ` is inserted as `'fo o'` and read back -/
example : (QuoteAs C43_env0.isPrint [102, 111, 32, 111] Bareword).1 = [39, 102, 111, 32, 111, 39] ∧
    startsIndexing C43_env0.isPrint (peekOf [32]) NormalExpr = false := by decide +kernel

/-- the value of the word the round trip yields, by the static evaluator:
`stem` (so the completed word *evaluates* to the candidate) -/
theorem C43_word_value (isPrint : Int → Bool) (ctx : Int) (frm : Nat) (w : Bytes) (ty : Int) (stem : Bytes)
    (hty : ty = Bareword ∨ ty = SingleQuoted ∨ ty = DoubleQuoted) :
    purelyEvalPartialCompound (literalEnv isPrint) (wordNode ctx frm w ty stem) (-1) = .ok (some stem) := by
  rcases hty with rfl | rfl | rfl <;>
    simp [purelyEvalPartialCompound, wordNode, quotedNode, Node.childrenOf, Node.children, pepcLoop, headOf,
      Node.kind, Node.ptype, Node.fields, Node.value, Bareword, SingleQuoted, DoubleQuoted, Tilde]

/-- the quoting `QuoteAs` reports is one of the three -/
theorem C43_quoteAs_type (isPrint : Int → Bool) (stem : Bytes) (q : Int) :
    (QuoteAs isPrint stem q).2 = Bareword ∨ (QuoteAs isPrint stem q).2 = SingleQuoted ∨
      (QuoteAs isPrint stem q).2 = DoubleQuoted := by
  unfold QuoteAs quoteAs
  split
  · right; right; rfl
  · split
    · right; left; rfl
    · split
      · right; right; rfl
      · split
        · left; rfl
        · right; left; rfl

/-! ### One quoting model: `ElvModel/C43/Quote.lean` is the C03 model -/

/-- **The quoting functions of this model are the functions of the C03 model.**
`ElvModel/C43/Quote.lean` writes `quote.go` without outcomes (a structural skip
counter for the `for s != ""` loop, Boolean folds for the `range` loop with the
early return); `ElvModel/C03/Model.lean` keeps Go's partial operations explicit.
For every string, style and context C03's `quoteAs` returns — no panic, enough
fuel — exactly the pair C43's computes, and so do `QuoteAs`, `quoteDouble`,
`quoteSingle`.  Every C03 theorem therefore speaks about the text `Complete`
inserts, and every theorem here about the text C03 quotes. -/
theorem C43_quote_is_C03 (isPrint : Int → Bool) (s : Bytes) (q ctx : Int) :
    C03.quoteAs isPrint s q ctx = .ok (quoteAs isPrint s q ctx) ∧
    C03.QuoteAs isPrint s q = .ok (QuoteAs isPrint s q) ∧
    C03.quoteDouble isPrint s = .ok (quoteDouble isPrint s) ∧
    C03.quoteSingle s = quoteSingle s :=
  ⟨quoteAs_eq isPrint s q ctx, QuoteAs_eq isPrint s q, quoteDouble_eq isPrint s, (quoteSingle_eq s).symm⟩

/-- non-vacuity: both models quote `fo o` as `'fo o'` -/
example : C03.QuoteAs C43_env0.isPrint [102, 111, 32, 111] Bareword = .ok ([39, 102, 111, 32, 111, 39], SingleQuoted) ∧
    QuoteAs C43_env0.isPrint [102, 111, 32, 111] Bareword = ([39, 102, 111, 32, 111, 39], SingleQuoted) := by
  decide +kernel

/-- **The whole-string round trip, re-derived from C03** (`C03_roundtrip`): the
text `Complete` inserts for a candidate, parsed on its own with `ParseAs` as a
compound in argument, map-key, braced-element or command context, is one word
(`C03_IsWord`: no error, `Compound > Indexing > Primary`, no index, no tilde,
quoting as reported) whose literal value (`C03.evalLit`, the compiler's literal
path) is the candidate.  `C43_quote_roundtrip` is the in-place form of the same
fact (any text before, any non-continuing text after), which C03's whole-string
theorem does not give; with `pre = rest = []` the two describe the same tree. -/
theorem C43_quote_roundtrip_C03 (isPrint : Int → Bool) (stem : Bytes) (q : Int) (ctx : Int)
    (hctx : ctx = NormalExpr ∨ ctx = LHSExpr ∨ ctx = BracedElemExpr ∨ ctx = CmdExpr) :
    C03_IsWord (parseAs isPrint (.compound ctx) (QuoteAs isPrint stem q).1) ctx (QuoteAs isPrint stem q).1 stem := by
  obtain ⟨text, ty, hq, _, hw⟩ := (C03_roundtrip isPrint stem).1 q
  rw [(C43_quote_is_C03 isPrint stem q ctx).2.1] at hq
  have hte : QuoteAs isPrint stem q = (text, ty) := C03.QRes.ok.inj hq
  have h1 : (QuoteAs isPrint stem q).1 = text := by rw [hte]
  rw [h1]
  exact hw ctx hctx

/-- non-vacuity and agreement of the two forms: for `fo o` the in-place theorem
(`pre = rest = []`) and the C03 form yield the same tree -/
example : ∃ t, parseAs C43_env0.isPrint (.compound NormalExpr) (QuoteAs C43_env0.isPrint [102, 111, 32, 111] Bareword).1 = .ok t [] ∧
    C03.evalLit t = some [102, 111, 32, 111] := by
  obtain ⟨tree, _, _, hr, rest⟩ := C43_quote_roundtrip_C03 C43_env0.isPrint [102, 111, 32, 111] Bareword NormalExpr (Or.inl rfl)
  exact ⟨tree, hr, rest.2.2.2.2.2.2.2.2.2.2.2.2.2.2.2.2.2⟩

/-- **Every candidate `Complete` offers is inserted as text that is one word
with the candidate's value** (the part of the property proved on the model;
the full statement, about the parse of the whole completed buffer, is
`C43_full`).  For every item of a result there is the raw candidate it was
cooked from: its display text is the stem; a `noQuoteItem` (variable names) is
inserted as is; every other item is inserted as `QuoteAs(stem, style) ++ suffix`
with a style that is bareword, single- or double-quoted, and in the completed
buffer `buf[:from] ++ toInsert ++ buf[to:]` the `Compound` grammar function run
at `from` — in any expression context, provided the text after the quoted stem
(`suffix ++ buf[to:]`) does not continue a word — reads exactly the quoted stem
as one word whose value, by the static evaluator, is the stem. -/
theorem C43_candidate_evaluates_partial (env : C43.Env) (src : Bytes) (dot : Int) (r : Result)
    (h : complete env src dot = .result r) (it : Item) (hit : it ∈ r.items) :
    ∃ (raw : Raw) (q : Int), it.toShow = raw.stem ∧
      (q = Bareword ∨ q = SingleQuoted ∨ q = DoubleQuoted) ∧
      (raw.noQuote = true → it.toInsert = raw.stem) ∧
      (raw.noQuote = false →
        it.toInsert = (QuoteAs env.isPrint raw.stem q).1 ++ raw.suffix ∧
        ∀ (ctx : Int) (k : Nat) (errs : List PErr),
          startsIndexing env.isPrint (peekOf (raw.suffix ++ src.drop r.to)) ctx = false →
          ∃ word, parseCompound env.isPrint (applyItem src r it) ctx { pos := r.frm, overEOF := k, errors := errs } =
              .ok word { pos := r.frm + (QuoteAs env.isPrint raw.stem q).1.length, overEOF := k, errors := errs } ∧
            word.frm = r.frm ∧ word.to = r.frm + (QuoteAs env.isPrint raw.stem q).1.length ∧
            purelyEvalPartialCompound (literalEnv env.isPrint) word (-1) = .ok (some raw.stem)) := by
  have hrange := C43_range env src dot r h
  obtain ⟨tree, errs0, path, ctx, g, hp, hf, hr, hres, _⟩ := completeG_result h
  subst hres
  obtain ⟨raw, _, _, hcook⟩ := finish_items hit
  refine ⟨raw, styleOf true ctx.quote, ?_, styleOf_fixed ctx.quote, ?_, ?_⟩
  · rw [hcook]; unfold cook; split <;> rfl
  · intro hnq; rw [hcook]; unfold cook; simp [hnq]
  · intro hnq
    have hins : it.toInsert = (QuoteAs env.isPrint raw.stem (styleOf true ctx.quote)).1 ++ raw.suffix := by
      rw [hcook]; unfold cook; simp [hnq]
    refine ⟨hins, ?_⟩
    intro cx k errs hstop
    have hlen : (src.take (finish true env ctx g).frm).length = (finish true env ctx g).frm := by
      rw [List.length_take]; omega
    have happ : applyItem src (finish true env ctx g) it =
        src.take (finish true env ctx g).frm ++ (QuoteAs env.isPrint raw.stem (styleOf true ctx.quote)).1 ++
          (raw.suffix ++ src.drop (finish true env ctx g).to) := by
      unfold applyItem; rw [hins]; simp
    have hrt := quoteAs_word_rt env.isPrint raw.stem (styleOf true ctx.quote) cx
      (src.take (finish true env ctx g).frm) (raw.suffix ++ src.drop (finish true env ctx g).to) k errs hstop
    rw [hlen] at hrt
    rw [happ]
    refine ⟨_, hrt, rfl, rfl, ?_⟩
    exact C43_word_value _ _ _ _ _ _ (C43_quoteAs_type _ _ _)

/-! ## Quoting matches the style the user had started -/

/-- The quoting of an inserted candidate, as a function of the style `q` the
user had started (the type of the primary under the cursor; bareword for a new
word, after a `~` and after a variable) and of the stem:
* double-quoted start → double-quoted;
* otherwise a stem with a rune that is not printable, invalid UTF-8 or U+FFFD
  → double-quoted (the only way to write it);
* single-quoted start → single-quoted (also for the empty string);
* bareword start → bareword if the stem is a bareword in every expression
  context (non-empty, no leading `~`), else single-quoted. -/
theorem C43_quote_style (isPrint : Int → Bool) (stem : Bytes) (q : Int) :
    (q = DoubleQuoted → QuoteAs isPrint stem q = (quoteDouble isPrint stem, DoubleQuoted)) ∧
    (q ≠ DoubleQuoted → stem ≠ [] → needsDouble isPrint stem = true →
        QuoteAs isPrint stem q = (quoteDouble isPrint stem, DoubleQuoted)) ∧
    (q = SingleQuoted → (stem = [] ∨ needsDouble isPrint stem = false) →
        QuoteAs isPrint stem q = (quoteSingle stem, SingleQuoted)) ∧
    (q = Bareword → stem ≠ [] → needsDouble isPrint stem = false → isBare isPrint stem strictExpr = true →
        QuoteAs isPrint stem q = (stem, Bareword)) ∧
    (q = Bareword → (stem = [] ∨ (needsDouble isPrint stem = false ∧ isBare isPrint stem strictExpr = false)) →
        QuoteAs isPrint stem q = (quoteSingle stem, SingleQuoted)) := by
  have hDS : (SingleQuoted == DoubleQuoted) = false := by decide
  have hDB : (Bareword == DoubleQuoted) = false := by decide
  have hSB : (SingleQuoted == Bareword) = false := by decide
  refine ⟨?_, ?_, ?_, ?_, ?_⟩
  · intro hq; subst hq; simp [QuoteAs, quoteAs]
  · intro hq hne hnd
    have h1 : (q == DoubleQuoted) = false := by simpa using hq
    have h2 : stem.isEmpty = false := by cases stem <;> simp_all
    simp [QuoteAs, quoteAs, h1, h2, hnd]
  · intro hq hcase; subst hq
    rcases hcase with rfl | hnd
    · simp [QuoteAs, quoteAs, hDS, quoteSingle, quoteSingleBody, toRunes, runes, runesFrom]
    · cases stem with
      | nil => simp [QuoteAs, quoteAs, hDS, quoteSingle, quoteSingleBody, toRunes, runes, runesFrom]
      | cons b t => simp [QuoteAs, quoteAs, hDS, hSB, hnd]
  · intro hq hne hnd hb; subst hq
    have h2 : stem.isEmpty = false := by cases stem <;> simp_all
    simp [QuoteAs, quoteAs, hDB, h2, hnd, hb]
  · intro hq hcase; subst hq
    rcases hcase with rfl | ⟨hnd, hb⟩
    · simp [QuoteAs, quoteAs, hDB, quoteSingle, quoteSingleBody, toRunes, runes, runesFrom]
    · cases stem with
      | nil => simp [QuoteAs, quoteAs, hDB, quoteSingle, quoteSingleBody, toRunes, runes, runesFrom]
      | cons b t => simp [QuoteAs, quoteAs, hDB, hnd, hb]

/-- the style `Complete` hands to `Cook` is the type of the primary under the
cursor if that is a quoted string, else bareword -/
example : styleOf true Tilde = Bareword ∧ styleOf true Variable = Bareword ∧
    styleOf true SingleQuoted = SingleQuoted ∧ styleOf true DoubleQuoted = DoubleQuoted ∧
    styleOf true Bareword = Bareword := by decide

/-! ## File name candidates -/

/-- **File name completion offers exactly the directory entries that start
with the typed prefix.**  For a seed `dir ++ prefix` (split at the last `/`)
and the listing of `dir` (`.` if empty) — entry names distinct and without `/`
— the candidates `Complete` shows are, as a list: a permutation of
`fileStems` (the entries whose name starts with `prefix`, with the same
hiddenness as `prefix`, `/` appended for directories and links to directories;
in command position only executables and directories), without repetition, in
ascending byte order. -/
theorem C43_filenames_exact (env : C43.Env) (ctx : Ctx) (execOrDir : Bool) (listing : List Entry)
    (hread : env.readDir (if (splitPath ctx.seed).1.isEmpty then [46] else (splitPath ctx.seed).1) = some listing)
    (hnames : (listing.map (·.name)).Nodup) (hslash : ∀ e ∈ listing, (47 : UInt8) ∉ e.name) :
    let shown := (finish true env ctx (Gen.ofOpt (generateFileNames env ctx.seed execOrDir))).items.map (·.toShow)
    shown.Perm (fileStems listing (splitPath ctx.seed).1 (splitPath ctx.seed).2 execOrDir) ∧ shown.Nodup ∧
      shown.Pairwise (fun a b => bytesLe a b = true) := by
  intro shown
  -- the raw candidates after the prefix filter
  have hgen : generateFileNames env ctx.seed execOrDir =
      some (listing.filterMap (fileItem (splitPath ctx.seed).1 (splitPath ctx.seed).2 execOrDir)) := by
    unfold generateFileNames
    simp only [hread]
  generalize hL : (listing.filter fun e => e.infoOk && (dotfile (splitPath ctx.seed).2 == dotfile e.name) &&
    (!execOrDir || e.exec || e.isDir) && (splitPath ctx.seed).2.isPrefixOf e.name) = kept
  have hkept : kept.Sublist listing := by rw [← hL]; exact List.filter_sublist
  generalize hR : kept.map (entryRaw (splitPath ctx.seed).1) = L
  have hfilt : filterPrefix ctx.seed
      (listing.filterMap (fileItem (splitPath ctx.seed).1 (splitPath ctx.seed).2 execOrDir)) = L := by
    rw [filtered_eq, hL, hR]
  have hstems : fileStems listing (splitPath ctx.seed).1 (splitPath ctx.seed).2 execOrDir = L.map (·.stem) := by
    rw [fileStems_eq, hL, hR]
  -- the stems are distinct
  have hLmem : ∀ x ∈ L, ∃ e ∈ listing, x = entryRaw (splitPath ctx.seed).1 e := by
    intro x hx
    rw [← hR] at hx
    obtain ⟨e, he, rfl⟩ := List.mem_map.mp hx
    exact ⟨e, hkept.subset he, rfl⟩
  have hnodupL : (L.map (·.stem)).Nodup := by
    rw [← hR, List.map_map]
    have hk : (kept.map (·.name)).Nodup := List.Nodup.sublist (hkept.map _) hnames
    rw [List.nodup_iff_pairwise_ne, List.pairwise_map] at hk ⊢
    refine List.Pairwise.imp_of_mem ?_ hk
    intro a b ha hb hne hst
    exact hne (stem_inj _ a b (hslash a (hkept.subset ha)) (hslash b (hkept.subset hb)) hst)
  -- what Complete does with them
  have hS := sortRaw_perm L
  have hcooked : (finish true env ctx (Gen.ofOpt (generateFileNames env ctx.seed execOrDir))).items =
      (sortRaw L).map (cook env.isPrint (styleOf true ctx.quote)) := by
    unfold finish
    simp only [hgen, Gen.ofOpt, hfilt]
    apply dedup_id
    rw [List.map_map]
    have hSn : ((sortRaw L).map (·.stem)).Nodup := (hS.map _).nodup_iff.mpr hnodupL
    rw [List.nodup_iff_pairwise_ne, List.pairwise_map] at hSn ⊢
    refine List.Pairwise.imp_of_mem ?_ hSn
    intro a b ha hb hne heq
    obtain ⟨ea, _, rfl⟩ := hLmem a (mem_sortRaw.mp ha)
    obtain ⟨eb, _, rfl⟩ := hLmem b (mem_sortRaw.mp hb)
    apply hne
    simp only [Function.comp, cook, entryRaw_noQuote, Bool.false_eq_true, if_false] at heq
    exact quoteAs_inj env.isPrint _ _ _ _ _ (entryRaw_suffix _ ea) (entryRaw_suffix _ eb) heq
  have hshown : shown = (sortRaw L).map (·.stem) := by
    show List.map (fun (x : Item) => x.toShow)
      (finish true env ctx (Gen.ofOpt (generateFileNames env ctx.seed execOrDir))).items = _
    rw [hcooked, List.map_map]
    apply List.map_congr_left
    intro a _
    simp only [Function.comp, cook]
    split <;> rfl
  rw [hshown, hstems]
  refine ⟨hS.map _, (hS.map _).nodup_iff.mpr hnodupL, ?_⟩
  rw [List.pairwise_map]
  exact sortRaw_sorted L

/-! ## The property at full strength, and where it fails -/

/-- **C43 at full strength** (for the candidates whose value is a string: file
names, arguments, indices, command names; variable-name candidates are checked
by resolution on the implementation only).  For every buffer, cursor position
inside it and environment whose generators produce ordinary candidates: when
completion answers, then for every candidate the buffer
`buf[:from] ++ toInsert ++ buf[to:]`, parsed as a whole, has a word starting at
`from` that ends within the inserted text and evaluates to the candidate. -/
def C43_full : Prop :=
  ∀ (env : C43.Env) (src : Bytes) (dot : Int) (r : Result),
    (∀ x ∈ env.names, x.noQuote = false ∧ x.suffix = []) →
    (∀ l, env.argGen = some l → ∀ x ∈ l, x.noQuote = false ∧ (x.suffix = [] ∨ x.suffix = [32])) →
    0 ≤ dot → dot ≤ src.length →
    complete env src dot = .result r → r.name ≠ "variable" →
    ∀ it ∈ r.items, ∃ e, wordValueAt env.isPrint (applyItem src r it) r.frm = some (it.toShow, e) ∧
      e ≤ r.frm + it.toInsert.length

/-- ASCII `unicode.IsPrint` -/
def C43_asciiPrint : Int → Bool := fun r => decide (32 ≤ r ∧ r < 127)

/-- an interpreter that knows the command `echo`; a directory with `foo` -/
def C43_env1 : C43.Env :=
  { isPrint := C43_asciiPrint
    varVal := fun _ => none
    home := fun u => if u == [] then some [47, 104] else none
    readDir := fun d => if d == [46] then some [{ name := [102, 111, 111] }]
      else if d == [47] then some [{ name := [104], isDir := true }] else none
    argGen := none
    names := [{ stem := [101, 99, 104, 111] }] }

/-- **C43 does not hold at full strength** (finding
`new-word-glued-to-following-text`): in `;x` with the cursor after `;` a new
command is completed directly before `x`; accepting `echo` gives `;echox`,
whose word at 1 is `echox`. -/
theorem C43_counterexample : ¬ C43_full := by
  intro H
  obtain ⟨r, hr, hf⟩ := C43_resultIs_iff (o := complete C43_env1 [59, 120] 1)
    (f := fun r => r.frm == 1 && r.to == 1 && r.name == "command" &&
      r.items == [{ toInsert := [101, 99, 104, 111], toShow := [101, 99, 104, 111] }]) (by decide +kernel)
  simp only [Bool.and_eq_true, beq_iff_eq] at hf
  obtain ⟨⟨⟨hfrm, hto⟩, hname⟩, hitems⟩ := hf
  have hmem : ({ toInsert := [101, 99, 104, 111], toShow := [101, 99, 104, 111] } : Item) ∈ r.items := by
    rw [hitems]; exact List.mem_cons_self
  obtain ⟨e, hv, _⟩ := H C43_env1 [59, 120] 1 r (by decide) (by intro l hl; cases hl) (by decide) (by decide) hr
    (by rw [hname]; decide) _ hmem
  have happ : applyItem [59, 120] r { toInsert := [101, 99, 104, 111], toShow := [101, 99, 104, 111] } =
      [59, 101, 99, 104, 111, 120] := by
    unfold applyItem; rw [hfrm, hto]; rfl
  rw [happ, hfrm] at hv
  have hreal : wordValueAt C43_asciiPrint [59, 101, 99, 104, 111, 120] 1 = some ([101, 99, 104, 111, 120], 6) := by
    decide +kernel
  rw [show C43_env1.isPrint = C43_asciiPrint from rfl, hreal] at hv
  simp at hv

/-! ### The unchanged tree (before fixes/C43-*.patch): counterexamples

`completeUnfixed` is the algorithm of the unchanged tree; the same inputs are
in harness/corpus/C43.txt and are replayed on the real code. -/

/-- insertion into a comment: `ls #` + Tab offers `foo`, giving `ls #foo ` —
a comment; with the fix there is no completion. -/
theorem C43_unfixed_comment_counterexample :
    C43_resultIs (completeUnfixed C43_env1 [108, 115, 32, 35] 4)
      (fun r => r.frm == 4 && r.to == 4 && r.items.map (·.toInsert) == [[102, 111, 111, 32]]) = true ∧
    wordValueAt C43_asciiPrint [108, 115, 32, 35, 102, 111, 111, 32] 4 = none ∧
    C43_resultIs (complete C43_env1 [108, 115, 32, 35] 4) (fun _ => true) = false := by
  decide +kernel

/-- quoting style after a `~`: `ls ~` + Tab quotes `/h/` although the user had
typed no quote; with the fix it is inserted bare. -/
theorem C43_unfixed_style_counterexample :
    C43_resultIs (completeUnfixed C43_env1 [108, 115, 32, 126] 4)
      (fun r => r.items.map (·.toInsert) == [[39, 47, 104, 47, 39]]) = true ∧
    C43_resultIs (complete C43_env1 [108, 115, 32, 126] 4)
      (fun r => r.items.map (·.toInsert) == [[47, 104, 47]]) = true := by
  decide +kernel

/-- the replaced range of a variable written quoted: for `put $'\xff\xff:` the
unchanged tree answers the range `[12, 9)` in a buffer of 9 bytes — outside
the buffer, and `from > to`; with the fix it is not treated as a bare variable. -/
theorem C43_unfixed_range_counterexample :
    C43_resultIs (completeUnfixed C43_env1 [112, 117, 116, 32, 36, 39, 255, 255, 58] 9)
      (fun r => r.frm == 12 && r.to == 9) = true ∧
    C43_resultIs (complete C43_env1 [112, 117, 116, 32, 36, 39, 255, 255, 58] 9)
      (fun r => r.name == "variable") = false := by
  decide +kernel

/-- a closing parenthesis taken for an opening one: `(a)` + Tab completes a
command after `)`, giving `(a)echo`, where no word starts at 3; with the fix
there is no completion. -/
theorem C43_unfixed_closing_counterexample :
    C43_resultIs (completeUnfixed C43_env1 [40, 97, 41] 3)
      (fun r => r.frm == 3 && r.to == 3 && r.items.map (·.toInsert) == [[101, 99, 104, 111]]) = true ∧
    wordValueAt C43_asciiPrint [40, 97, 41, 101, 99, 104, 111] 3 = none ∧
    C43_resultIs (complete C43_env1 [40, 97, 41] 3) (fun _ => true) = false := by
  decide +kernel

/-- with the fixes, the inputs above that still complete satisfy the full
statement: `ls fo` + Tab → `ls foo `, whose word at 3 is `foo` -/
example : C43_resultIs (complete C43_env1 [108, 115, 32, 102, 111] 5)
      (fun r => r.frm == 3 && r.to == 5 && r.items.map (·.toInsert) == [[102, 111, 111, 32]]) = true ∧
    wordValueAt C43_asciiPrint [108, 115, 32, 102, 111, 111, 32] 3 = some ([102, 111, 111], 6) := by
  decide +kernel

/-- A candidate inserted with a trailing space (every file that is not a
directory) meets the hypothesis of `C43_candidate_evaluates_partial` whatever
follows in the buffer: a space does not continue a word. -/
theorem C43_space_suffix_stops (isPrint : Int → Bool) (ctx : Int) (tail : Bytes) :
    startsIndexing isPrint (peekOf ([32] ++ tail)) ctx = false :=
  stops_space isPrint ctx tail

/-- … and so does the end of the buffer (a directory completed at the end of
the line). -/
theorem C43_end_of_buffer_stops (isPrint : Int → Bool) (ctx : Int) :
    startsIndexing isPrint (peekOf ([] ++ [])) ctx = false :=
  stops_nil isPrint ctx

/-! ## The full parse of the completed buffer -/

/-- the text cannot continue a word: it is empty, or its first rune starts no
primary in any expression context (a blank, a newline, `;`, `|`, `)`, `]`, `}`,
`&`, …; `<`, `>`, `*`, `^`, `,`, `=` do continue a word in some context) -/
def C43_Stops (isPrint : Int → Bool) (t : Bytes) : Prop :=
  ∀ ctx, startsIndexing isPrint (peekOf t) ctx = false

/-- **The full parse of a completed simple command line.**  For every
`unicode.IsPrint`, every list of earlier words `ws` (arbitrary byte strings with
a preferred quoting each — `lineText` writes them the way `QuoteAs` does, one
space after each), every candidate `stem` (arbitrary bytes), every style `q` and
every `tail` that does not continue a word: `Parse` of the WHOLE buffer
`w₀ ␣ … ␣ wₖ₋₁ ␣ QuoteAs(stem,q) tail` returns a tree in which the word that
starts where the quoted candidate starts (`wordValueAt`: the outermost compound
starting there, evaluated statically) has the value `stem` and ends exactly
where the quoted candidate ends — as the head of the command if `ws = []`, else
as an argument.  What follows (`tail`) is arbitrary text: more arguments,
pipelines, unbalanced brackets, invalid UTF-8; the proof computes the run of
`Chunk → Pipeline → Form → Compound…` up to the candidate and uses C01 (`Parse`
is total, its tree tiles the source) for the rest. -/
theorem C43_whole_buffer_simple_command (isPrint : Int → Bool) (ws : List (Bytes × Int)) (stem : Bytes) (q : Int)
    (tail : Bytes) (hstop : C43_Stops isPrint tail) :
    wordValueAt isPrint (lineText isPrint ws ++ ((QuoteAs isPrint stem q).1 ++ tail)) (lineText isPrint ws).length =
      some (stem, (lineText isPrint ws).length + (QuoteAs isPrint stem q).1.length) :=
  line_wordValueAt isPrint ws stem q tail hstop

/-- **The `Form` grammar function, in place.**  Wherever in a buffer the parser
starts a command — at the top, after `|` or `;`, inside `( )` or `{ }` — with
any parser state and any nesting fuel ≥ 4: if the text from there on is a
simple command line up to the quoted candidate (`lineText ws ++ QuoteAs(stem,q)`
followed by text that does not continue a word), the `Form` node it returns
contains, as the outermost compound at the candidate's position, exactly the
candidate's word.  (`C43_quote_roundtrip` is this statement one level further
down, for the `Compound` function; what remains unproved for the general
whole-buffer statement is only that `Parse` starts a `Form` at the start of the
current command.) -/
theorem C43_form_in_place (isPrint : Int → Bool) (ws : List (Bytes × Int)) (stem : Bytes) (q : Int)
    (pre tail : Bytes) (hstop : C43_Stops isPrint tail) (fuel k : Nat) (errs : List PErr) (F : Node) (sR : St)
    (h : parseNT (fuel + 4) .form
        { isPrint := isPrint, src := pre ++ (lineText isPrint ws ++ ((QuoteAs isPrint stem q).1 ++ tail)) }
        { pos := pre.length, overEOF := k, errors := errs } = .ok F sR) :
    ∃ ctx, compoundAtN (pre.length + (lineText isPrint ws).length) F =
      some (wordNode ctx (pre.length + (lineText isPrint ws).length) (QuoteAs isPrint stem q).1
        (QuoteAs isPrint stem q).2 stem) :=
  form_line_search (e := { isPrint := isPrint, src := pre ++ (lineText isPrint ws ++ ((QuoteAs isPrint stem q).1 ++ tail)) })
    fuel stem q tail hstop ws { pos := pre.length, overEOF := k, errors := errs } sR F
    ⟨by simp, by simp⟩ h

/-- non-vacuity: `cp 'a b' ` is such a line (words `cp` and `a b`), `;` stops a word -/
example : lineText C43_env0.isPrint [([99, 112], Bareword), ([97, 32, 98], Bareword)] =
      [99, 112, 32, 39, 97, 32, 98, 39, 32] ∧
    C43_Stops C43_env0.isPrint [59, 120] := by
  refine ⟨by decide +kernel, ?_⟩
  intro ctx
  have : peekOf [59, 120] = 59 := by
    rw [peekOf_cons_ascii 59 _ (by decide)]; decide
  rw [this]
  simp [startsIndexing, startsPrimary, allowedInBareword, allowedInVariableName]

/-- … and the instance `cp 'a b' 'fo o';x`, evaluated: the word at 9 is `fo o`, ending at 15 -/
example : wordValueAt C43_env0.isPrint
      [99, 112, 32, 39, 97, 32, 98, 39, 32, 39, 102, 111, 32, 111, 39, 59, 120] 9 =
    some ([102, 111, 32, 111], 15) := by decide +kernel

/-- **The full parse of a completed script of simple commands.**  As
`C43_whole_buffer_simple_command`, with any number of complete simple commands
before the current one: earlier pipelines `ps` (each: commands joined by `| `,
then `; `), earlier commands `fs` of the current pipeline (each followed by
`| `), the words `ws` of the current command —
`cd d ; cat f | sort ; grep -r x | head QuoteAs(stem,q) tail`.  `Parse` of the
whole buffer has, as the outermost compound at the candidate's position, the
word with value `stem`, ending where the quoted candidate ends.  (Proof:
`ElvProofs/C43/Reach.lean` — the end states of the complete earlier commands and
pipelines are computed (`form_done`, `pipeline_done`, `parseSeps_semi`), the
current `Pipeline` and `Form` are children of their parents (`chunk_target`,
`pipeline_target`), and the word is found along the spine
`Chunk ∋ Pipeline ∋ Form ∋ word` using only the tiling of the tree that C01
proves — the earlier siblings are never described.) -/
theorem C43_whole_buffer_script (isPrint : Int → Bool)
    (ps : List (List (List (Bytes × Int)) × List (Bytes × Int))) (hps : ScriptOk ps)
    (fs : List (List (Bytes × Int))) (hfs : ∀ ws ∈ fs, ws ≠ []) (ws : List (Bytes × Int))
    (stem : Bytes) (q : Int) (tail : Bytes) (hstop : C43_Stops isPrint tail) :
    wordValueAt isPrint (chunkText isPrint ps ++ (pipeText isPrint fs ++
        (lineText isPrint ws ++ ((QuoteAs isPrint stem q).1 ++ tail))))
      ((chunkText isPrint ps).length + (pipeText isPrint fs).length + (lineText isPrint ws).length) =
      some (stem, (chunkText isPrint ps).length + (pipeText isPrint fs).length + (lineText isPrint ws).length +
        (QuoteAs isPrint stem q).1.length) :=
  script_wordValueAt isPrint ps hps fs hfs ws stem q tail hstop

/-- non-vacuity: `cd d ; cat f | ` is such a prefix (one earlier pipeline `cd d`, one
earlier command `cat f` of the current pipeline), and the instance
`cd d ; cat f | sort 'fo o'` evaluated: the word at 20 is `fo o`, ending at 26 -/
example : ScriptOk [(([] : List (List (Bytes × Int))), [([99, 100], Bareword), ([100], Bareword)])] ∧
    chunkText C43_env0.isPrint [([], [([99, 100], Bareword), ([100], Bareword)])] ++
      (pipeText C43_env0.isPrint [[([99, 97, 116], Bareword), ([102], Bareword)]] ++
        lineText C43_env0.isPrint [([115, 111, 114, 116], Bareword)]) =
      [99, 100, 32, 100, 32, 59, 32, 99, 97, 116, 32, 102, 32, 124, 32, 115, 111, 114, 116, 32] ∧
    wordValueAt C43_env0.isPrint
      [99, 100, 32, 100, 32, 59, 32, 99, 97, 116, 32, 102, 32, 124, 32, 115, 111, 114, 116, 32,
        39, 102, 111, 32, 111, 39] 20 = some ([102, 111, 32, 111], 26) := by
  refine ⟨?_, by decide +kernel, by decide +kernel⟩
  intro p hp
  simp only [List.mem_singleton] at hp
  subst hp
  exact ⟨by simp, by intro ws h; cases h⟩

/-- **The full parse of a completed buffer with nested commands.**  As
`C43_whole_buffer_script`, with the current command nested to any depth in
output captures and lambdas: every outer level is a script of simple commands
followed by `(` or by `{ ` (flag `true`), the innermost level `inner` is such a
script — `if $c { echo (cat f | head (ls QuoteAs(stem,q) tail`.  `Parse` of the whole buffer
has, as the outermost compound at the candidate's position, the word with
value `stem`, ending where the quoted candidate ends.  (Proof:
`ElvProofs/C43/Nest.lean` — `Form.parse` is generalised to a target compound
that reaches the word (`form_reach`; the target may also end up as the left
operand of a redirection); the chain `Compound ∋ Indexing ∋ Primary( ∋ Chunk`
(`compound_paren`, `indexing_head`, `primary_paren`; `Brace.lean`: `lbrace →
lambda` for `{ `) makes the compound at the opener such a target; induction on
the depth (`nest_gen`), 6 levels of nesting fuel per opener out of the 7 the
parser has per byte.) -/
theorem C43_whole_buffer_nested (isPrint : Int → Bool) (outer : List (Frame × Bool)) (hout : ∀ p ∈ outer, FrameOk p.1)
    (inner : Frame) (hin : FrameOk inner) (stem : Bytes) (q : Int) (tail : Bytes) (hstop : C43_Stops isPrint tail) :
    wordValueAt isPrint (nestText isPrint outer inner ++ ((QuoteAs isPrint stem q).1 ++ tail))
        (nestText isPrint outer inner).length =
      some (stem, (nestText isPrint outer inner).length + (QuoteAs isPrint stem q).1.length) :=
  nest_wordValueAt isPrint outer hout inner hin stem q tail hstop

/-- non-vacuity: `e { cat f | head (ls ` is such a prefix (outer levels `e ` + `{ ` and
`cat f | head ` + `(`, inner level `ls `), and the instance `e { cat f | head (ls 'fo o'`
evaluated: the word at 21 is `fo o`, ending at 27 -/
example : nestText C43_env0.isPrint
      [(([], [], [([101], Bareword)]), true),
       (([], [[([99, 97, 116], Bareword), ([102], Bareword)]], [([104, 101, 97, 100], Bareword)]), false)]
      ([], [], [([108, 115], Bareword)]) =
      [101, 32, 123, 32, 99, 97, 116, 32, 102, 32, 124, 32, 104, 101, 97, 100, 32, 40, 108, 115, 32] ∧
    wordValueAt C43_env0.isPrint
      [101, 32, 123, 32, 99, 97, 116, 32, 102, 32, 124, 32, 104, 101, 97, 100, 32, 40, 108, 115, 32,
        39, 102, 111, 32, 111, 39] 21 = some ([102, 111, 32, 111], 27) := by
  exact ⟨by decide +kernel, by decide +kernel⟩

/-- **Candidates evaluate to the candidate in the full parse** (the whole-buffer
statement `C43_full`, proved for buffers whose text before the replaced range
is made of simple commands: sequenced with `; `, piped with `| `, nested with
`(` or `{ `).  When completion answers and the text before the replaced range is
`nestText outer inner` (everything empty: the buffer's first word), then for
every offered item that is quoted (all but variable names) and whose quoted
stem is followed — in the completed buffer — by text that does not continue a
word (its own suffix, then `buf[to:]`), the FULL parse of
`buf[:from] ++ toInsert ++ buf[to:]` has at `from` a word that statically
evaluates to the candidate and ends within the inserted text. -/
theorem C43_candidate_whole_buffer_partial (env : C43.Env) (src : Bytes) (dot : Int) (r : Result)
    (h : complete env src dot = .result r) (it : Item) (hit : it ∈ r.items) :
    ∃ (raw : Raw) (q : Int), it.toShow = raw.stem ∧
      (raw.noQuote = false →
        it.toInsert = (QuoteAs env.isPrint raw.stem q).1 ++ raw.suffix ∧
        ∀ (outer : List (Frame × Bool)) (inner : Frame), (∀ p ∈ outer, FrameOk p.1) → FrameOk inner →
          src.take r.frm = nestText env.isPrint outer inner →
          C43_Stops env.isPrint (raw.suffix ++ src.drop r.to) →
          ∃ e, wordValueAt env.isPrint (applyItem src r it) r.frm = some (it.toShow, e) ∧
            e = r.frm + (QuoteAs env.isPrint raw.stem q).1.length ∧ e ≤ r.frm + it.toInsert.length) := by
  have hrange := C43_range env src dot r h
  obtain ⟨raw, q, hshow, _, _, hq⟩ := C43_candidate_evaluates_partial env src dot r h it hit
  refine ⟨raw, q, hshow, ?_⟩
  intro hnq
  obtain ⟨hins, _⟩ := hq hnq
  refine ⟨hins, ?_⟩
  intro outer inner hout hin hws hstop
  have hlen : (nestText env.isPrint outer inner).length = r.frm := by
    rw [← hws, List.length_take]; omega
  have happ : applyItem src r it = nestText env.isPrint outer inner ++
      ((QuoteAs env.isPrint raw.stem q).1 ++ (raw.suffix ++ src.drop r.to)) := by
    unfold applyItem; rw [hins, hws]; simp
  have := C43_whole_buffer_nested env.isPrint outer hout inner hin raw.stem q (raw.suffix ++ src.drop r.to) hstop
  rw [hlen] at this
  refine ⟨_, ?_, rfl, ?_⟩
  · rw [happ, hshow]; exact this
  · rw [hins]; simp

/-- **The full parse of a completed redirection target.**  As
`C43_whole_buffer_nested`, when the innermost command (at least one word) ends
with a redirection sign — one or more of `<`, `>` — and an optional blank before
the candidate: `sort < QuoteAs(stem,q)`, `e (ls -l >>QuoteAs(stem,q) tail`.
`Parse` of the whole buffer has, as the outermost compound at the candidate's
position, the word with value `stem` (the right operand of the `Redir` node the
form gets).  (Proof: `ElvProofs/C43/Redir.lean` — `formLoop_redir` computes
`(*Redir).parse` up to its right operand; an invalid sign such as `><` only
adds an error, positions are unaffected.) -/
theorem C43_whole_buffer_redir (isPrint : Int → Bool) (outer : List (Frame × Bool)) (hout : ∀ p ∈ outer, FrameOk p.1)
    (inner : Frame) (hin : FrameOk inner) (hws : inner.2.2 ≠ []) (rs : List Nat) (hs : SignRunes rs) (sp : Bool)
    (stem : Bytes) (q : Int) (tail : Bytes) (hstop : C43_Stops isPrint tail) :
    wordValueAt isPrint (nestText isPrint outer inner ++ (redirText rs sp ++ ((QuoteAs isPrint stem q).1 ++ tail)))
        ((nestText isPrint outer inner).length + (redirText rs sp).length) =
      some (stem, (nestText isPrint outer inner).length + (redirText rs sp).length +
        (QuoteAs isPrint stem q).1.length) :=
  nest_redir_wordValueAt isPrint outer hout inner hin hws rs hs sp stem q tail hstop

/-- non-vacuity: `sort < ` is such a prefix, and the instance `sort < 'fo o'|x` evaluated -/
example : nestText C43_env0.isPrint [] ([], [], [([115, 111, 114, 116], Bareword)]) ++ redirText [60] true =
      [115, 111, 114, 116, 32, 60, 32] ∧ SignRunes [60] ∧
    wordValueAt C43_env0.isPrint [115, 111, 114, 116, 32, 60, 32, 39, 102, 111, 32, 111, 39, 124, 120] 7 =
      some ([102, 111, 32, 111], 13) := by
  refine ⟨by decide +kernel, ⟨by simp, fun r hr => ?_⟩, by decide +kernel⟩
  simp only [List.mem_singleton] at hr
  exact Or.inl hr

/-- **Redirection targets evaluate to the candidate in the full parse**: the
statement of `C43_candidate_whole_buffer_partial` when the text before the
replaced range ends with a redirection sign (and an optional blank). -/
theorem C43_candidate_whole_buffer_redir_partial (env : C43.Env) (src : Bytes) (dot : Int) (r : Result)
    (h : complete env src dot = .result r) (it : Item) (hit : it ∈ r.items) :
    ∃ (raw : Raw) (q : Int), it.toShow = raw.stem ∧
      (raw.noQuote = false →
        it.toInsert = (QuoteAs env.isPrint raw.stem q).1 ++ raw.suffix ∧
        ∀ (outer : List (Frame × Bool)) (inner : Frame) (rs : List Nat) (sp : Bool), (∀ p ∈ outer, FrameOk p.1) →
          FrameOk inner → inner.2.2 ≠ [] → SignRunes rs →
          src.take r.frm = nestText env.isPrint outer inner ++ redirText rs sp →
          C43_Stops env.isPrint (raw.suffix ++ src.drop r.to) →
          ∃ e, wordValueAt env.isPrint (applyItem src r it) r.frm = some (it.toShow, e) ∧
            e = r.frm + (QuoteAs env.isPrint raw.stem q).1.length ∧ e ≤ r.frm + it.toInsert.length) := by
  have hrange := C43_range env src dot r h
  obtain ⟨raw, q, hshow, _, _, hq⟩ := C43_candidate_evaluates_partial env src dot r h it hit
  refine ⟨raw, q, hshow, ?_⟩
  intro hnq
  obtain ⟨hins, _⟩ := hq hnq
  refine ⟨hins, ?_⟩
  intro outer inner rs sp hout hin hne hs hws hstop
  have hlen : (nestText env.isPrint outer inner).length + (redirText rs sp).length = r.frm := by
    have := congrArg List.length hws
    simp only [List.length_take, List.length_append] at this
    omega
  have happ : applyItem src r it = nestText env.isPrint outer inner ++ (redirText rs sp ++
      ((QuoteAs env.isPrint raw.stem q).1 ++ (raw.suffix ++ src.drop r.to))) := by
    unfold applyItem; rw [hins, hws]; simp
  have := C43_whole_buffer_redir env.isPrint outer hout inner hin hne rs hs sp raw.stem q
    (raw.suffix ++ src.drop r.to) hstop
  rw [hlen] at this
  refine ⟨_, ?_, rfl, ?_⟩
  · rw [happ, hshow]; exact this
  · rw [hins]; simp

/-- non-vacuity: `ls fo` + Tab (range `[3,5)`, text before it `ls ` = the line of
the one word `ls`); the candidate `fo o` is inserted as `'fo o' `, whose suffix
is a space — and the full parse of `ls 'fo o' ` has the word `fo o` at 3 -/
example : [108, 115, 32, 102, 111].take 3 = nestText C43_env0.isPrint [] ([], [], [([108, 115], Bareword)]) ∧
    FrameOk ([], [], [([108, 115], Bareword)]) ∧
    C43_Stops C43_env0.isPrint ([32] ++ ([108, 115, 32, 102, 111] : Bytes).drop 5) ∧
    wordValueAt C43_env0.isPrint [108, 115, 32, 39, 102, 111, 32, 111, 39, 32] 3 = some ([102, 111, 32, 111], 9) := by
  refine ⟨by decide +kernel, ⟨fun p hp => (by simp at hp), fun ws hw => (by simp at hw)⟩,
    fun ctx => stops_space _ ctx _, by decide +kernel⟩

/-- **C43, whole buffer, at the strength that is true** (stated; proved when the
text before the range is made of simple commands, sequenced, piped and nested:
`C43_candidate_whole_buffer_partial`).  `C43_full` fails
in exactly the three finding classes; excluding them —
* `new-word-glued-to-following-text`: the inserted text ends with a space, or
  `buf[to:]` does not continue a word (`C43_Stops`);
* `variable-quoted-candidate-after-prefix`: the completion is not a variable name;
* `word-glued-to-preceding-text-after-syntax-error`: no parse error of the
  buffer starts before `from` —
the full parse of the completed buffer has at `from` a word that evaluates to
the candidate and ends within the inserted text.

Not proved in this generality.  What is missing is *prefix determinism of the
hand-written parser at `from`*: that the run of `Parse` on the completed buffer
arrives at `from` about to call `Compound.parse` — in the same expression
context in which the run on the original buffer parsed the seed word (word
case), or in the context the separator under the cursor leaves it in (new-word
case: after a form's blanks, `|`, `;`, `(`, `[`, a redirection sign, …).  For
the word case this is a lock-step simulation of the two runs up to `from` in
the style of C02 (`ElvProofs/C02/Framework.lean`), with a rune class instead of
`EOF` at the cut; for the new-word case it needs, per completer context, the
inversion "a node of this shape in the tree ⇒ the parser was in this loop at
`from`".  `ElvProofs/C43/Line.lean`, `Reach.lean` and `Nest.lean` do both by
computing the run, which is possible when the text before `from` is explicit
(simple commands, sequenced, piped, nested in output captures and lambdas,
redirection targets); C01 supplies
totality and the tiling used to locate the word in the tree.  The oracle of the
check evaluates this statement with the real parser on every generated
candidate (0 failures outside the three classes). -/
def C43_whole_buffer_full : Prop :=
  ∀ (env : C43.Env) (src : Bytes) (dot : Int) (r : Result),
    (∀ x ∈ env.names, x.noQuote = false ∧ x.suffix = []) →
    (∀ l, env.argGen = some l → ∀ x ∈ l, x.noQuote = false ∧ (x.suffix = [] ∨ x.suffix = [32])) →
    0 ≤ dot → dot ≤ src.length →
    complete env src dot = .result r → r.name ≠ "variable" →
    (∀ tree errs, parse env.isPrint src = .ok tree errs → ∀ x ∈ errs, r.frm ≤ x.frm) →
    ∀ it ∈ r.items, (it.toInsert.getLast? = some 32 ∨ C43_Stops env.isPrint (src.drop r.to)) →
      ∃ e, wordValueAt env.isPrint (applyItem src r it) r.frm = some (it.toShow, e) ∧
        e ≤ r.frm + it.toInsert.length

/-- the witness of `C43_counterexample` (`;x`, cursor 1, `echo`) is outside
`C43_whole_buffer_full`: the insertion does not end with a space and `x`
continues a word -/
example : ¬ (([101, 99, 104, 111] : Bytes).getLast? = some 32 ∨ C43_Stops C43_asciiPrint (([59, 120] : Bytes).drop 1)) := by
  intro h
  rcases h with h | h
  · revert h; decide
  · have := h NormalExpr
    revert this
    decide +kernel

/-! ## Variable-name candidates -/

/-- **A completed variable use, in place.**  Variable names are inserted
verbatim (`noQuoteItem`) after `$`, the sigil and the namespace.  For a plain
name — valid UTF-8, first rune a variable-name rune or `@`, all other runes
variable-name runes (`PlainVarName`) — the text `$name`, after any text `pre`
and before any `rest` that does not start with a variable-name rune, is read
by the `Primary` grammar function, in every expression context, as exactly one
`Variable` primary whose `Value` is `name`, spanning exactly `$name`, with no
error.  (The excluded names are the finding
`variable-quoted-candidate-after-prefix`: a name that needs quotes cannot follow
a sigil or namespace.) -/
theorem C43_variable_roundtrip (isPrint : Int → Bool) (name : Bytes) (ctx : Int) (pre rest : Bytes)
    (k : Nat) (errs : List PErr) (hname : PlainVarName isPrint name)
    (hstop : allowedInVariableName isPrint (peekOf rest) = false) :
    parsePrimary isPrint (pre ++ (36 :: name) ++ rest) ctx { pos := pre.length, overEOF := k, errors := errs } =
      .ok (varNode ctx pre.length name) { pos := pre.length + (1 + name.length), overEOF := k, errors := errs } :=
  variable_rt isPrint name ctx pre rest k errs hname hstop

/-- non-vacuity: `e:HOME` is a plain variable name (namespace and all), `)` ends it -/
example : PlainVarName C43_asciiPrint [101, 58, 72, 79, 77, 69] ∧
    allowedInVariableName C43_asciiPrint (peekOf [41]) = false := by
  refine ⟨⟨by decide +kernel, 101, [58, 72, 79, 77, 69], by decide +kernel, Or.inl (by decide +kernel), ?_⟩, by decide +kernel⟩
  intro r hr
  simp only [List.mem_cons, List.mem_nil_iff, or_false] at hr
  rcases hr with rfl | rfl | rfl | rfl | rfl <;> decide +kernel

/-- **A variable-name candidate completes the variable use it was offered in.**
When completion answers with the range of case (c) of `C43_range_is_seed_word`
(a variable `v` written bare: `buf[v.from:] = "$" ++ sigil ++ ns ++ buf[from:]`),
every item that is inserted verbatim has `toInsert = toShow = stem`, and in the
completed buffer the `Primary` function at `v.from` — any context — reads
`$ sigil ns stem` as one `Variable` primary named `sigil ++ ns ++ stem` that ends
exactly where the insertion ends, provided that name is plain and `buf[to:]`
does not start with a variable-name rune. -/
theorem C43_variable_candidate_partial (env : C43.Env) (src : Bytes) (dot : Int) (r : Result)
    (h : complete env src dot = .result r) (v : Node)
    (hv : src.drop v.frm = 36 :: (splitSigil v.value).1 ++ (splitIncompleteQNameNs (splitSigil v.value).2).1 ++
      src.drop r.frm)
    (it : Item) (hit : it ∈ r.items) :
    ∃ raw : Raw, it.toShow = raw.stem ∧
      (raw.noQuote = true → it.toInsert = raw.stem ∧
        ∀ (ctx : Int) (k : Nat) (errs : List PErr),
          PlainVarName env.isPrint
            ((splitSigil v.value).1 ++ (splitIncompleteQNameNs (splitSigil v.value).2).1 ++ raw.stem) →
          allowedInVariableName env.isPrint (peekOf (src.drop r.to)) = false →
          parsePrimary env.isPrint (applyItem src r it) ctx { pos := v.frm, overEOF := k, errors := errs } =
            .ok (varNode ctx v.frm
                ((splitSigil v.value).1 ++ (splitIncompleteQNameNs (splitSigil v.value).2).1 ++ raw.stem))
              { pos := r.frm + it.toInsert.length, overEOF := k, errors := errs }) := by
  have hrange := C43_range env src dot r h
  obtain ⟨raw, q, hshow, _, hnq, _⟩ := C43_candidate_evaluates_partial env src dot r h it hit
  refine ⟨raw, hshow, ?_⟩
  intro hn
  have hins := hnq hn
  refine ⟨hins, ?_⟩
  intro ctx k errs hname hstop
  generalize hsg : (splitSigil v.value).1 = sg at *
  generalize hns : (splitIncompleteQNameNs (splitSigil v.value).2).1 = ns at *
  have hvle : v.frm ≤ src.length := by
    rcases Nat.le_total v.frm src.length with h1 | h1
    · exact h1
    · rw [List.drop_eq_nil_of_le h1] at hv; simp at hv
  have hlen := congrArg List.length hv
  simp only [List.length_drop, List.length_cons, List.length_append] at hlen
  have hfrm : r.frm = v.frm + (1 + sg.length + ns.length) := by omega
  have htake : src.take r.frm = src.take v.frm ++ (36 :: sg ++ ns) := by
    have hsplit : src = src.take v.frm ++ ((36 :: sg ++ ns) ++ src.drop r.frm) := by
      conv => lhs; rw [← List.take_append_drop v.frm src, hv]
    conv => lhs; rw [hsplit, ← List.append_assoc]
    rw [List.take_left']
    simp only [List.length_append, List.length_take, List.length_cons]
    omega
  have happ : applyItem src r it = src.take v.frm ++ (36 :: (sg ++ ns ++ raw.stem)) ++ src.drop r.to := by
    unfold applyItem; rw [hins, htake]; simp
  have hpl : (src.take v.frm).length = v.frm := by rw [List.length_take]; omega
  have := C43_variable_roundtrip env.isPrint (sg ++ ns ++ raw.stem) ctx (src.take v.frm) (src.drop r.to) k errs hname hstop
  rw [hpl] at this
  rw [happ, this, hins, hfrm]
  simp only [List.length_append]
  congr 2
  omega
