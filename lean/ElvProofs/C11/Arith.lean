/-
C11 helper lemmas for + - * / %.
-/
import ElvProofs.C11.Basic
namespace C11
open Go

variable {F : Type}

theorem outs_ok (v : Num F) (h : ExactC v) : outs (.ok v) = .ok [v] := by
  simp [outs, fromGo_of_canonical v h.2]

/-- Case analysis on `UnifyNums` over exact arguments with floor type
`bigInt` (`+ - *`): big ints with the arguments' integer values, or rationals
with the arguments' values. -/
theorem unify_bigInt_cases (ops : F64Ops F) (raw : List (Num F))
    (hx : ∀ a ∈ raw, isExact a = true) :
    (unifyNums ops raw .bigInt = .ok (.bigs (raw.map intVal)) ∧ ∀ a ∈ raw, rankOf a ≤ 1) ∨
    unifyNums ops raw .bigInt = .ok (.rats (raw.map val)) := by
  obtain ⟨h, hi, _⟩ := unifyNums_exact ops raw .bigInt hx (by simp [NumType.rank])
  generalize hu : unifyNums ops raw .bigInt = u at *
  cases h with
  | ints h0 => have := hi _ rfl; simp [NumType.rank] at this
  | bigs h1 => exact .inl ⟨rfl, h1⟩
  | rats => exact .inr rfl

theorem add_exact (ops : F64Ops F) (args : List (Num F)) (hx : ∀ a ∈ args, isExact a = true) :
    ∃ v, add ops args = .ok v ∧ ExactC v ∧ val v = (args.map val).foldl (· + ·) 0 := by
  unfold add
  rcases unify_bigInt_cases ops args hx with ⟨h, h1⟩ | h <;> rw [h]
  · refine ⟨_, rfl, (normalizeBigInt_spec _).1, ?_⟩
    rw [(normalizeBigInt_spec _).2, cast_foldl_add, map_intVal_cast args h1]; rfl
  · exact ⟨_, rfl, (normalizeBigRat_spec _).1, (normalizeBigRat_spec _).2⟩

/-- Left fold of `-` from the first argument; negation for a single argument. -/
def subSpec : List Rat → Rat
  | [] => 0
  | [x] => -x
  | x :: rest => rest.foldl (· - ·) x

theorem sub_exact (ops : F64Ops F) (args : List (Num F)) (hx : ∀ a ∈ args, isExact a = true)
    (hne : args ≠ []) :
    ∃ v, sub ops args = .ok v ∧ isExact v = true ∧ (∀ k, v ≠ .int k) ∧
      val v = subSpec (args.map val) := by
  unfold sub
  have : args.isEmpty = false := by cases args <;> simp_all
  simp only [this]
  rcases unify_bigInt_cases ops args hx with ⟨h, h1⟩ | h <;> rw [h]
  · match args, hne, h1 with
    | [a], _, h1 =>
      refine ⟨.big (-intVal a), rfl, rfl, (fun k h => nomatch h), ?_⟩
      simp only [val_big, List.map_cons, List.map_nil, subSpec, ← intVal_cast a (h1 a (by simp))]
      exact Rat.intCast_neg _
    | a :: b :: rest, _, h1 =>
      refine ⟨.big ((b :: rest).map intVal |>.foldl (· - ·) (intVal a)), rfl, rfl,
        (fun k h => nomatch h), ?_⟩
      simp only [val_big, List.map_cons, subSpec]
      rw [cast_foldl_sub, intVal_cast a (h1 a (by simp))]
      have := map_intVal_cast (b :: rest) (fun x hx => h1 x (by simp at hx ⊢; right; exact hx))
      simp only [List.map_cons] at this ⊢
      rw [this]
  · match args, hne with
    | [a], _ => exact ⟨.rat (-val a), rfl, rfl, (fun k h => nomatch h), rfl⟩
    | a :: b :: rest, _ =>
      exact ⟨.rat ((b :: rest).map val |>.foldl (· - ·) (val a)), rfl, rfl,
        (fun k h => nomatch h), rfl⟩

theorem sub_empty (ops : F64Ops F) : sub ops ([] : List (Num F)) = .exc "arity" := rfl

/-! #### `*` -/

theorem mulScan_noInf (ops : F64Ops F) (l : List (Num F)) (z : Bool)
    (h : ∀ a ∈ l, isInfNum ops a = false) :
    mulScan ops l z = (z || l.any isExactZero, false) := by
  induction l generalizing z with
  | nil => simp [mulScan]
  | cons a l ih =>
    simp only [mulScan, h a (List.mem_cons_self ..)]
    rw [ih _ (fun b hb => h b (List.mem_cons_of_mem _ hb))]
    simp [Bool.or_assoc]

theorem isInfNum_exact (ops : F64Ops F) (a : Num F) (h : isExact a = true) : isInfNum ops a = false := by
  cases a <;> simp [isExact, isInfNum] at *

theorem foldl_mul_zero (l : List Rat) : l.foldl (· * ·) 0 = 0 := by
  induction l with
  | nil => rfl
  | cons a l ih => simpa using ih

theorem foldl_mul_of_zero_mem (l : List Rat) (z : Rat) (h : (0 : Rat) ∈ l) : l.foldl (· * ·) z = 0 := by
  induction l generalizing z with
  | nil => cases h
  | cons a l ih =>
    simp only [List.foldl_cons]
    rcases List.mem_cons.1 h with h | h
    · subst h; simp [foldl_mul_zero]
    · exact ih _ h

theorem mul_exact (ops : F64Ops F) (args : List (Num F)) (hx : ∀ a ∈ args, isExact a = true) :
    ∃ v, mul ops args = .ok v ∧ ExactC v ∧ val v = (args.map val).foldl (· * ·) 1 := by
  unfold mul
  rw [mulScan_noInf ops args false (fun a ha => isInfNum_exact ops a (hx a ha))]
  simp only [Bool.false_or, Bool.not_false, Bool.and_true]
  by_cases hz : args.any isExactZero = true
  · simp only [hz, if_true]
    refine ⟨.int 0, rfl, ⟨rfl, by simp [Canonical, fitsInt, minInt, maxInt]⟩, ?_⟩
    obtain ⟨a, ha, haz⟩ := List.any_eq_true.1 hz
    have : val a = 0 := by
      cases a <;> simp [isExactZero] at haz
      subst haz; rfl
    rw [foldl_mul_of_zero_mem]
    · rfl
    · exact List.mem_map.2 ⟨a, ha, this⟩
  · simp only [hz]
    rcases unify_bigInt_cases ops args hx with ⟨h, h1⟩ | h <;> rw [h]
    · refine ⟨_, rfl, (normalizeBigInt_spec _).1, ?_⟩
      rw [(normalizeBigInt_spec _).2, cast_foldl_mul, map_intVal_cast args h1]; rfl
    · exact ⟨_, rfl, (normalizeBigRat_spec _).1, (normalizeBigRat_spec _).2⟩

/-- The documented exact-zero rule of `*`, for arbitrary (also inexact)
arguments. -/
theorem mul_zero_rule (ops : F64Ops F) (args : List (Num F)) (h0 : Num.int 0 ∈ args)
    (hinf : ∀ a ∈ args, isInfNum ops a = false) : mul ops args = .ok (.int 0) := by
  unfold mul
  rw [mulScan_noInf ops args false hinf]
  have : args.any isExactZero = true := List.any_eq_true.2 ⟨_, h0, rfl⟩
  simp [this]


/-! #### `/` -/

/-- Left fold of `÷` from the first argument; reciprocal for a single argument. -/
def divSpec : List Rat → Rat
  | [] => 0
  | [x] => x⁻¹
  | x :: rest => rest.foldl (· / ·) x

/-- The quotient does not exist: some divisor is zero (`/ x` ≡ `/ 1 x`). -/
def DivByZero : List Rat → Prop
  | [] => False
  | [x] => x = 0
  | _ :: rest => (0 : Rat) ∈ rest

theorem unify_bigRat (ops : F64Ops F) (raw : List (Num F)) (hx : ∀ a ∈ raw, isExact a = true) :
    unifyNums ops raw .bigRat = .ok (.rats (raw.map val)) := by
  obtain ⟨h, hi, hb⟩ := unifyNums_exact ops raw .bigRat hx (by simp [NumType.rank])
  generalize hu : unifyNums ops raw .bigRat = u at *
  cases h with
  | ints h0 => have := hi _ rfl; simp [NumType.rank] at this
  | bigs h1 => have := hb _ rfl; simp [NumType.rank] at this
  | rats => rfl

theorem foldlRes_ratQuo (a : Rat) (rs : List Rat) (h : (0 : Rat) ∉ rs) :
    foldlRes ratQuo a rs = .ok (rs.foldl (· / ·) a) := by
  induction rs generalizing a with
  | nil => rfl
  | cons b rs ih =>
    have hb : b ≠ 0 := fun hb => h (by simp [hb])
    simp only [foldlRes, ratQuo, hb, if_false, List.foldl_cons]
    exact ih _ (fun hm => h (List.mem_cons_of_mem _ hm))

theorem foldl_div_zero (l : List Rat) : l.foldl (· / ·) 0 = 0 := by
  induction l with
  | nil => rfl
  | cons a l ih => simp only [List.foldl_cons, Rat.div_def, Rat.zero_mul]; simpa [Rat.div_def] using ih

theorem any_isExactZero_iff (l : List (Num F)) (h : ∀ a ∈ l, ExactC a) :
    l.any isExactZero = true ↔ (0 : Rat) ∈ l.map val := by
  rw [List.any_eq_true, List.mem_map]
  constructor
  · rintro ⟨a, ha, hz⟩; exact ⟨a, ha, (isExactZero_iff a (h a ha)).1 hz⟩
  · rintro ⟨a, ha, hz⟩; exact ⟨a, ha, (isExactZero_iff a (h a ha)).2 hz⟩

theorem div_exact (ops : F64Ops F) (args : List (Num F)) (hc : ∀ a ∈ args, ExactC a)
    (hne : args ≠ []) :
    (DivByZero (args.map val) ∧ div ops args = .exc "div0") ∨
    (¬ DivByZero (args.map val) ∧ ∃ v, div ops args = .ok v ∧ isExact v = true ∧
      (∀ k, v = .int k → fitsInt k = true) ∧ val v = divSpec (args.map val)) := by
  match args, hne with
  | x :: rest, _ =>
    have hcx := hc x (by simp)
    have hcr : ∀ a ∈ rest, ExactC a := fun a ha => hc a (by simp [ha])
    have hz := any_isExactZero_iff rest hcr
    have hzx := isExactZero_iff x hcx
    unfold div
    by_cases h1 : rest.any isExactZero = true
    · left
      simp only [h1, if_true, and_true]
      cases rest with
      | nil => simp at h1
      | cons b rs => exact hz.1 h1
    · simp only [h1]
      have h0 : (0 : Rat) ∉ rest.map val := fun h => h1 (hz.2 h)
      by_cases h2 : isExactZero x = true
      · simp only [h2, if_true]
        cases rest with
        | nil => left; simp [DivByZero, hzx.1 h2]
        | cons b rs =>
          right
          refine ⟨h0, .int 0, by simp, rfl, ?_, ?_⟩
          · intro k hk; cases hk; simp [fitsInt, minInt, maxInt]
          · simp only [List.map_cons, divSpec, hzx.1 h2]
            exact (foldl_div_zero _).symm
      · simp only [h2]
        rw [unify_bigRat ops _ (fun a ha => (hc a ha).1)]
        have hx0 : val x ≠ 0 := fun h => h2 (hzx.2 h)
        right
        cases rest with
        | nil =>
          refine ⟨by simpa [DivByZero] using hx0, .rat (val x)⁻¹, ?_, rfl, (fun k h => nomatch h), rfl⟩
          simp [ratInv, hx0]
        | cons b rs =>
          refine ⟨h0, .rat ((List.map val (b :: rs)).foldl (· / ·) (val x)), ?_, rfl,
            (fun k h => nomatch h), rfl⟩
          simp only [List.map_cons]
          rw [foldlRes_ratQuo _ _ (by simpa using h0)]
          rfl

/-- Exact-zero rule of `/` for arbitrary (also inexact) later arguments. -/
theorem div_zero_rule (ops : F64Ops F) (rest : List (Num F)) (hne : rest ≠ [])
    (h : rest.any isExactZero = false) : div ops (.int 0 :: rest) = .ok (.int 0) := by
  unfold div
  cases rest with
  | nil => exact absurd rfl hne
  | cons b rs => simp [h, isExactZero]

/-- A later exact zero is a division by zero whatever the other arguments are. -/
theorem div_by_exact_zero (ops : F64Ops F) (x : Num F) (rest : List (Num F))
    (h : rest.any isExactZero = true) : div ops (x :: rest) = .exc "div0" := by
  simp [div, h]

/-! #### `%` -/

theorem fitsInt_tmod (x y : Int) (hy : fitsInt y = true) (hy0 : y ≠ 0) : fitsInt (Int.tmod x y) = true := by
  rw [fitsInt_iff] at *
  have h1 := Int.natAbs_tmod x y
  have h2 : x.natAbs % y.natAbs < y.natAbs := Nat.mod_lt _ (by omega)
  simp only [minInt, maxInt] at *
  omega

theorem rem_exact (a b : Num F) (ha : ExactC a) (hb : ExactC b) :
    (¬ (isExactInt a = true ∧ isExactInt b = true) ∧ rem a b = .exc "exact-int") ∨
    (isExactInt a = true ∧ isExactInt b = true ∧ val b = 0 ∧ rem a b = .exc "div0") ∨
    (isExactInt a = true ∧ isExactInt b = true ∧ val b ≠ 0 ∧ ∃ v, rem a b = .ok v ∧ isExact v = true ∧
      (∀ k, v = .int k → fitsInt k = true) ∧ val v = ((Int.tmod (intVal a) (intVal b) : Int) : Rat)) := by
  unfold rem
  by_cases h1 : isExactInt a = true
  · by_cases h2 : isExactInt b = true
    · right
      have hz := isExactZero_iff b hb
      by_cases h3 : isExactZero b = true
      · left; simp [h1, h2, h3, hz.1 h3]
      · right
        have hb0 : val b ≠ 0 := fun h => h3 (hz.2 h)
        refine ⟨h1, h2, hb0, ?_⟩
        simp only [h1, h2, h3]
        cases a with
        | int x =>
          cases b with
          | int y =>
            refine ⟨_, rfl, rfl, ?_, rfl⟩
            intro k hk; cases hk
            have hy0 : y ≠ 0 := by intro h; subst h; simp at hb0
            exact fitsInt_tmod x y hb.2 hy0
          | big y =>
            have hy0 : y ≠ 0 := by intro h; subst h; simp at hb0
            simp only [promoteToBigInt, hy0]
            exact ⟨_, rfl, rfl, (fun k h => nomatch h), rfl⟩
          | rat q => simp [isExactInt] at h2
          | flt f => simp [isExactInt] at h2
        | big x =>
          cases b with
          | int y =>
            have hy0 : y ≠ 0 := by intro h; subst h; simp at hb0
            simp only [promoteToBigInt, hy0]
            exact ⟨_, rfl, rfl, (fun k h => nomatch h), rfl⟩
          | big y =>
            have hy0 : y ≠ 0 := by intro h; subst h; simp at hb0
            simp only [promoteToBigInt, hy0]
            exact ⟨_, rfl, rfl, (fun k h => nomatch h), rfl⟩
          | rat q => simp [isExactInt] at h2
          | flt f => simp [isExactInt] at h2
        | rat q => simp [isExactInt] at h1
        | flt f => simp [isExactInt] at h1
    · left; simp [h1, h2]
  · left; simp [h1]

end C11
