/-
C11 helper lemmas: canonical form, `UnifyNums` on exact arguments, folds.
-/
import ElvModel.C11.Model
namespace C11
open Go

variable {F : Type}

/-! ### Exact value and canonical form -/

/-- The rational an exact number denotes (`0` for a float: only used under
`isExact`). -/
def val : Num F → Rat
  | .int n => (n : Rat)
  | .big n => (n : Rat)
  | .rat q => q
  | .flt _ => 0

@[simp] theorem val_int (n : Int) : val (.int n : Num F) = (n : Rat) := rfl
@[simp] theorem val_big (n : Int) : val (.big n : Num F) = (n : Rat) := rfl
@[simp] theorem val_rat (q : Rat) : val (.rat q : Num F) = q := rfl

/-- Canonical representation: a machine int when the value fits `int64`, a
big int only when it does not, a rational only when it is not an integer.
This is both the invariant of every number a user can construct and the
obligation on every output. -/
def Canonical : Num F → Prop
  | .int n => fitsInt n = true
  | .big n => fitsInt n = false
  | .rat q => q.den ≠ 1
  | .flt _ => True

/-- Exact and canonical. -/
def ExactC (n : Num F) : Prop := isExact n = true ∧ Canonical n

theorem fitsInt_iff (z : Int) : fitsInt z = true ↔ minInt ≤ z ∧ z ≤ maxInt := by
  simp [fitsInt]

theorem normalizeBigInt_spec (z : Int) :
    ExactC (normalizeBigInt z : Num F) ∧ val (normalizeBigInt z : Num F) = (z : Rat) := by
  unfold normalizeBigInt
  by_cases h : fitsInt z = true
  · simp [h, ExactC, isExact, Canonical, val]
  · simp [h, ExactC, isExact, Canonical, val]

theorem normalizeBigRat_spec (q : Rat) :
    ExactC (normalizeBigRat q : Num F) ∧ val (normalizeBigRat q : Num F) = q := by
  unfold normalizeBigRat
  by_cases h : q.den = 1
  · simp only [h, if_true]
    refine ⟨(normalizeBigInt_spec q.num).1, ?_⟩
    rw [(normalizeBigInt_spec q.num).2]
    apply Rat.ext <;> simp [h]
  · simp [h, ExactC, isExact, Canonical, val]

/-- `FromGo` canonicalises every exact output, provided a machine-int result
is in range (which Go's type guarantees; each use discharges it). -/
theorem fromGo_spec (n : Num F) (hx : isExact n = true)
    (hint : ∀ k, n = .int k → fitsInt k = true) :
    ExactC (fromGo n) ∧ val (fromGo n) = val n := by
  cases n with
  | int k => exact ⟨⟨rfl, hint k rfl⟩, rfl⟩
  | big z => exact normalizeBigInt_spec z
  | rat q => exact normalizeBigRat_spec q
  | flt f => simp [isExact] at hx

theorem fromGo_big (z : Int) :
    ExactC (fromGo (.big z : Num F)) ∧ val (fromGo (.big z : Num F)) = (z : Rat) :=
  normalizeBigInt_spec z

theorem fromGo_rat (q : Rat) :
    ExactC (fromGo (.rat q : Num F)) ∧ val (fromGo (.rat q : Num F)) = q :=
  normalizeBigRat_spec q

theorem fromGo_of_canonical (n : Num F) (h : Canonical n) : fromGo n = n := by
  cases n with
  | int k => rfl
  | big z => simp [Canonical] at h; simp [fromGo, normalizeBigInt, h]
  | rat q => simp [Canonical] at h; simp [fromGo, normalizeBigRat, h]
  | flt f => rfl

/-- On canonical numbers, "is the machine int 0" (what the Go code tests with
`num == 0`) is "the value is zero". -/
theorem isExactZero_iff (n : Num F) (h : ExactC n) : isExactZero n = true ↔ val n = 0 := by
  obtain ⟨hx, hc⟩ := h
  cases n with
  | int k => simp [isExactZero, val]
  | big z =>
    simp only [isExactZero, val, Canonical] at *
    constructor
    · intro h; cases h
    · intro h
      have : z = 0 := by simpa using h
      subst this
      simp [fitsInt, minInt, maxInt] at hc
  | rat q =>
    simp only [isExactZero, val, Canonical] at *
    constructor
    · intro h; cases h
    · intro h; subst h; simp at hc
  | flt f => simp [isExact] at hx

/-! ### Res helpers -/

@[simp] theorem resMap_ok {α β} (f : α → β) (a : α) : resMap f (.ok a) = .ok (f a) := rfl
@[simp] theorem resMap_exc {α β} (f : α → β) (e : String) : resMap f (.exc e : Res α) = .exc e := rfl
@[simp] theorem resMap_panic {α β} (f : α → β) (e : String) : resMap f (.panic e : Res α) = .panic e := rfl

theorem mapRes_ok {α β} (f : α → Res β) (g : α → β) (l : List α) (h : ∀ a ∈ l, f a = .ok (g a)) :
    mapRes f l = .ok (l.map g) := by
  induction l with
  | nil => rfl
  | cons a l ih =>
    simp only [mapRes, h a (List.mem_cons_self ..)]
    rw [ih (fun b hb => h b (List.mem_cons_of_mem _ hb))]
    rfl

/-! ### Types and `UnifyNums` -/

def rankOf (n : Num F) : Nat := (getNumType n).rank

theorem rank_inj {a b : NumType} (h : a.rank = b.rank) : a = b := by
  cases a <;> cases b <;> simp [NumType.rank] at h <;> rfl

theorem rank_maxType (t u : NumType) : (maxType t u).rank = max t.rank u.rank := by
  unfold maxType
  split <;> omega

theorem rank_unifyType (l : List (Num F)) (t : NumType) :
    (unifyType l t).rank = l.foldl (fun r n => max r (rankOf n)) t.rank := by
  unfold unifyType
  induction l generalizing t with
  | nil => rfl
  | cons a l ih => simp only [List.foldl_cons]; rw [ih, rank_maxType]; rfl

theorem foldl_max_ge (l : List (Num F)) (r : Nat) :
    r ≤ l.foldl (fun r n => max r (rankOf n)) r ∧
    ∀ a ∈ l, rankOf a ≤ l.foldl (fun r n => max r (rankOf n)) r := by
  induction l generalizing r with
  | nil => simp
  | cons a l ih =>
    simp only [List.foldl_cons, List.mem_cons]
    have := ih (max r (rankOf a))
    refine ⟨by omega, ?_⟩
    intro b hb
    rcases hb with rfl | hb
    · omega
    · exact this.2 b hb

theorem foldl_max_le (l : List (Num F)) (r R : Nat) (hr : r ≤ R) (h : ∀ a ∈ l, rankOf a ≤ R) :
    l.foldl (fun r n => max r (rankOf n)) r ≤ R := by
  induction l generalizing r with
  | nil => simpa
  | cons a l ih =>
    simp only [List.foldl_cons]
    apply ih
    · have := h a (List.mem_cons_self ..); omega
    · intro b hb; exact h b (List.mem_cons_of_mem _ hb)

theorem rankOf_exact (n : Num F) (h : isExact n = true) : rankOf n ≤ 2 := by
  cases n <;> simp [rankOf, getNumType, NumType.rank, isExact] at *

theorem promoteToBigInt_ok (n : Num F) (h : rankOf n ≤ 1) :
    ∃ z : Int, promoteToBigInt n = .ok z ∧ (z : Rat) = val n := by
  cases n with
  | int k => exact ⟨k, rfl, rfl⟩
  | big k => exact ⟨k, rfl, rfl⟩
  | rat q => simp [rankOf, getNumType, NumType.rank] at h
  | flt f => simp [rankOf, getNumType, NumType.rank] at h

/-- The integer an exact integer denotes. -/
def intVal : Num F → Int
  | .int n => n
  | .big n => n
  | _ => 0

theorem promoteToBigInt_eq (n : Num F) (h : rankOf n ≤ 1) : promoteToBigInt n = .ok (intVal n) := by
  cases n with
  | int k => rfl
  | big k => rfl
  | rat q => simp [rankOf, getNumType, NumType.rank] at h
  | flt f => simp [rankOf, getNumType, NumType.rank] at h

theorem intVal_cast (n : Num F) (h : rankOf n ≤ 1) : ((intVal n : Int) : Rat) = val n := by
  cases n with
  | int k => rfl
  | big k => rfl
  | rat q => simp [rankOf, getNumType, NumType.rank] at h
  | flt f => simp [rankOf, getNumType, NumType.rank] at h

theorem promoteToBigRat_eq (n : Num F) (h : isExact n = true) : promoteToBigRat n = .ok (val n) := by
  cases n with
  | int k => rfl
  | big k => rfl
  | rat q => rfl
  | flt f => simp [isExact] at h

theorem asInt_eq (n : Num F) (h : rankOf n = 0) : asInt n = .ok (intVal n) := by
  cases n <;> simp [rankOf, getNumType, NumType.rank] at h <;> rfl

/-- What `UnifyNums` returns on exact arguments: a slice of the least type at
or above `typ` that holds them all, with the same values. -/
inductive UnifyExact (raw : List (Num F)) : Res (NumSlice F) → Prop where
  | ints : (∀ a ∈ raw, rankOf a = 0) → UnifyExact raw (.ok (.ints (raw.map intVal)))
  | bigs : (∀ a ∈ raw, rankOf a ≤ 1) → UnifyExact raw (.ok (.bigs (raw.map intVal)))
  | rats : UnifyExact raw (.ok (.rats (raw.map val)))

theorem unifyNums_exact (ops : F64Ops F) (raw : List (Num F)) (typ : NumType)
    (hx : ∀ a ∈ raw, isExact a = true) (ht : typ.rank ≤ 2) :
    UnifyExact raw (unifyNums ops raw typ) ∧
    (∀ l, unifyNums ops raw typ = .ok (.ints l) → typ.rank = 0) ∧
    (∀ l, unifyNums ops raw typ = .ok (.bigs l) → typ.rank ≤ 1) := by
  unfold unifyNums
  have hr := rank_unifyType raw typ
  have hge := foldl_max_ge raw typ.rank
  have hle := foldl_max_le raw typ.rank 2 ht (fun a ha => rankOf_exact a (hx a ha))
  rw [← hr] at hge hle
  generalize unifyType raw typ = u at *
  cases u with
  | int =>
    have h0 : ∀ a ∈ raw, rankOf a = 0 := fun a ha => by
      have := hge.2 a ha; simp [NumType.rank] at this; exact this
    rw [mapRes_ok asInt intVal raw (fun a ha => asInt_eq a (h0 a ha))]
    refine ⟨.ints h0, ?_, ?_⟩
    · intro l _; have := hge.1; simp [NumType.rank] at this; exact this
    · intro l h; simp at h
  | bigInt =>
    have h1 : ∀ a ∈ raw, rankOf a ≤ 1 := fun a ha => by
      have := hge.2 a ha; simpa [NumType.rank] using this
    rw [mapRes_ok promoteToBigInt intVal raw (fun a ha => promoteToBigInt_eq a (h1 a ha))]
    refine ⟨.bigs h1, ?_, ?_⟩
    · intro l h; simp at h
    · intro l _; have := hge.1; simpa [NumType.rank] using this
  | bigRat =>
    rw [mapRes_ok promoteToBigRat val raw (fun a ha => promoteToBigRat_eq a (hx a ha))]
    refine ⟨.rats, ?_, ?_⟩ <;> intro l h <;> simp at h
  | float64 => simp [NumType.rank] at hle

/-! ### Folds over ℤ seen in ℚ -/

theorem cast_foldl_add (l : List Int) (z : Int) :
    ((l.foldl (· + ·) z : Int) : Rat) = (l.map (fun k : Int => (k : Rat))).foldl (· + ·) (z : Rat) := by
  induction l generalizing z with
  | nil => rfl
  | cons a l ih => simp only [List.foldl_cons, List.map_cons]; rw [ih, Rat.intCast_add]

theorem cast_foldl_sub (l : List Int) (z : Int) :
    ((l.foldl (· - ·) z : Int) : Rat) = (l.map (fun k : Int => (k : Rat))).foldl (· - ·) (z : Rat) := by
  induction l generalizing z with
  | nil => rfl
  | cons a l ih => simp only [List.foldl_cons, List.map_cons]; rw [ih, Rat.intCast_sub]

theorem cast_foldl_mul (l : List Int) (z : Int) :
    ((l.foldl (· * ·) z : Int) : Rat) = (l.map (fun k : Int => (k : Rat))).foldl (· * ·) (z : Rat) := by
  induction l generalizing z with
  | nil => rfl
  | cons a l ih => simp only [List.foldl_cons, List.map_cons]; rw [ih, Rat.intCast_mul]

theorem map_intVal_cast (raw : List (Num F)) (h : ∀ a ∈ raw, rankOf a ≤ 1) :
    (raw.map intVal).map (fun k : Int => (k : Rat)) = raw.map val := by
  rw [List.map_map]
  apply List.map_congr_left
  intro a ha
  exact intVal_cast a (h a ha)

end C11
