/-
C11 helper lemmas for math:abs, the integerizers, min/max and pow.
-/
import ElvProofs.C11.Basic
namespace C11
open Go
variable {F : Type}

/-- What every lemma below establishes about a value a builtin hands to
`FromGo`: exact, and in range if it is a machine int. -/
def GoodOut (v : Num F) : Prop := isExact v = true ∧ ∀ k, v = .int k → fitsInt k = true

theorem goodOut_big (z : Int) : GoodOut (.big z : Num F) := ⟨rfl, fun _ h => nomatch h⟩
theorem goodOut_rat (q : Rat) : GoodOut (.rat q : Num F) := ⟨rfl, fun _ h => nomatch h⟩
theorem goodOut_of_exactC (v : Num F) (h : ExactC v) : GoodOut v := by
  refine ⟨h.1, ?_⟩
  intro k hk; subst hk; exact h.2

theorem fromGo_good (v : Num F) (h : GoodOut v) : ExactC (fromGo v) ∧ val (fromGo v) = val v :=
  fromGo_spec v h.1 h.2

/-! #### abs -/

theorem mathAbs_exact (ops : F64Ops F) (a : Num F) (ha : ExactC a) :
    GoodOut (mathAbs ops a) ∧
    val (mathAbs ops a) = if val a < 0 then -val a else val a := by
  cases a with
  | int n =>
    have hn : fitsInt n = true := ha.2
    rw [fitsInt_iff] at hn
    simp only [mathAbs, val_int, Rat.intCast_neg_iff]
    by_cases h : n < 0
    · simp only [h, if_true]
      by_cases h2 : n = minInt
      · subst h2
        simp only [if_true]
        exact ⟨goodOut_big _, by simp [minInt]⟩
      · simp only [h2, if_false]
        refine ⟨⟨rfl, ?_⟩, Rat.intCast_neg _⟩
        intro k hk; cases hk
        rw [fitsInt_iff]; simp only [minInt, maxInt] at *; omega
    · simp only [h, if_false]
      exact ⟨⟨rfl, fun k hk => by cases hk; exact ha.2⟩, rfl⟩
  | big n =>
    simp only [mathAbs, val_big, Rat.intCast_neg_iff]
    by_cases h : n < 0
    · simp only [h, if_true]
      refine ⟨goodOut_big _, ?_⟩
      have : (n.natAbs : Int) = -n := by omega
      rw [val_big, this]; exact Rat.intCast_neg _
    · simp only [h, if_false]; exact ⟨goodOut_big _, rfl⟩
  | rat q =>
    simp only [mathAbs, val_rat]
    by_cases h : q < 0
    · simp only [h, if_true]; exact ⟨goodOut_rat _, rfl⟩
    · simp only [h, if_false]; exact ⟨goodOut_rat _, rfl⟩
  | flt f => exact absurd ha.1 (by simp [isExact])

/-! #### integerizers -/

theorem integerize_exact (a : Num F) (ha : ExactC a) (fnFloat : F → F) (fnRat : Rat → Int)
    (spec : Rat → Int) (hint : ∀ n : Int, spec (n : Rat) = n)
    (hrat : ∀ q : Rat, q.den ≠ 1 → fnRat q = spec q) :
    GoodOut (integerize a fnFloat fnRat) ∧ val (integerize a fnFloat fnRat) = ((spec (val a) : Int) : Rat) := by
  cases a with
  | int n => exact ⟨⟨rfl, fun k hk => by cases hk; exact ha.2⟩, by simp [integerize, hint]⟩
  | big n => exact ⟨goodOut_big _, by simp [integerize, hint]⟩
  | rat q =>
    have hd : q.den ≠ 1 := ha.2
    simp only [integerize, hd, if_false]
    exact ⟨goodOut_big _, by simp [hrat q hd]⟩
  | flt f => exact absurd ha.1 (by simp [isExact])

theorem not_den_dvd_num (q : Rat) (hd : q.den ≠ 1) : ¬ (q.den : Int) ∣ q.num := by
  intro h
  have h1 : q.den ∣ q.num.natAbs := by
    have := Int.dvd_natAbs.2 h
    exact Int.natCast_dvd_natCast.1 this
  have h2 : q.den ∣ Nat.gcd q.num.natAbs q.den := Nat.dvd_gcd h1 (Nat.dvd_refl _)
  rw [q.reduced] at h2
  exact hd (Nat.dvd_one.1 h2)

/-- Truncation towards zero. -/
def truncSpec (q : Rat) : Int := if 0 ≤ q then q.floor else q.ceil

theorem floorRat_eq (q : Rat) : floorRat q = q.floor := (Rat.floor_def q).symm

theorem ceilRat_eq (q : Rat) (hd : q.den ≠ 1) : ceilRat q = q.ceil := by
  simp [ceilRat, Rat.ceil, hd]; rfl

theorem den_pos' (q : Rat) : (0 : Int) < q.den := by
  have := q.den_pos; omega

theorem truncRat_eq (q : Rat) (hd : q.den ≠ 1) : truncRat q = truncSpec q := by
  unfold truncRat truncSpec
  rw [Int.tdiv_eq_ediv]
  have hnd := not_den_dvd_num q hd
  have hs : (q.den : Int).sign = 1 := Int.sign_eq_one_of_pos (den_pos' q)
  by_cases h : 0 ≤ q
  · have h' : 0 ≤ q.num := Rat.num_nonneg.2 h
    simp [h, h', Rat.floor_def]
  · have h' : ¬ 0 ≤ q.num := fun hh => h (Rat.num_nonneg.1 hh)
    simp only [h, h', hnd, or_self, if_false, hs, Rat.ceil, hd]

theorem truncSpec_int (n : Int) : truncSpec (n : Rat) = n := by
  simp [truncSpec, Rat.floor_intCast, Rat.ceil_intCast]

/-- `n` is a nearest integer to `q = num/den`: `|q - n| ≤ 1/2`, stated on
numerators (`2·|num - n·den| ≤ den`). -/
def Nearest (q : Rat) (n : Int) : Prop := 2 * (q.num - n * q.den).natAbs ≤ q.den
/-- `q` is exactly half way between two integers, `n` one of them. -/
def Tie (q : Rat) (n : Int) : Prop := 2 * (q.num - n * q.den).natAbs = q.den

theorem tmod_facts (a d : Int) (hd : 0 < d) :
    d * a.tdiv d + a.tmod d = a ∧ -d < a.tmod d ∧ a.tmod d < d ∧
    (0 ≤ a → 0 ≤ a.tmod d) ∧ (a < 0 → a.tmod d ≤ 0) := by
  refine ⟨Int.mul_tdiv_add_tmod a d, Int.lt_tmod_of_pos a hd, Int.tmod_lt_of_pos a hd,
    Int.tmod_nonneg d, ?_⟩
  intro ha
  have h1 : 0 ≤ (-a).tmod d := Int.tmod_nonneg d (by omega)
  rw [Int.neg_tmod] at h1
  omega

theorem roundRat_spec (q : Rat) :
    Nearest q (roundRat q) ∧ (Tie q (roundRat q) → (q.num.natAbs < (roundRat q * q.den).natAbs)) := by
  obtain ⟨h1, h2, h3, h4, h5⟩ := tmod_facts q.num q.den (den_pos' q)
  have hd := den_pos' q
  unfold Nearest Tie roundRat
  rw [Int.mul_comm] at h1
  generalize q.num.tdiv q.den = t at *
  generalize q.num.tmod q.den = m at *
  generalize q.num = a at *
  generalize q.den = D at *
  simp only []
  have e1 : (t - 1) * (D : Int) = t * D - D := by rw [Int.sub_mul]; simp
  have e2 : (t + 1) * (D : Int) = t * D + D := by rw [Int.add_mul]; simp
  split
  · constructor <;> omega
  · split
    · rw [e1]; constructor <;> omega
    · rw [e2]; constructor <;> omega

/-- `math:round-to-even` on a rational: a nearest integer, the even one at a tie. -/
theorem roundEvenRat_spec (q : Rat) :
    Nearest q (roundEvenRat q) ∧ (Tie q (roundEvenRat q) → roundEvenRat q % 2 = 0) := by
  obtain ⟨h1, h2, h3, h4, h5⟩ := tmod_facts q.num q.den (den_pos' q)
  have hd := den_pos' q
  unfold Nearest Tie roundEvenRat
  rw [Int.mul_comm] at h1
  generalize q.num.tdiv q.den = t at *
  generalize q.num.tmod q.den = m at *
  generalize q.num = a at *
  generalize q.den = D at *
  simp only [Bool.or_eq_true, Bool.and_eq_true, decide_eq_true_eq, beq_iff_eq]
  have e1 : (t - 1) * (D : Int) = t * D - D := by rw [Int.sub_mul]; simp
  have e2 : (t + 1) * (D : Int) = t * D + D := by rw [Int.add_mul]; simp
  split
  · constructor <;> omega
  · split
    · rw [e1]; constructor <;> omega
    · rw [e2]; constructor <;> omega


/-- Integerizer lemma for specifications given as a relation (rounding). -/
theorem integerize_exact_rel (a : Num F) (ha : ExactC a) (fnFloat : F → F) (fnRat : Rat → Int)
    (P : Rat → Int → Prop) (hint : ∀ n : Int, P (n : Rat) n)
    (hrat : ∀ q : Rat, q.den ≠ 1 → P q (fnRat q)) :
    GoodOut (integerize a fnFloat fnRat) ∧
    ∃ n : Int, val (integerize a fnFloat fnRat) = (n : Rat) ∧ P (val a) n := by
  cases a with
  | int n => exact ⟨⟨rfl, fun k hk => by cases hk; exact ha.2⟩, n, rfl, hint n⟩
  | big n => exact ⟨goodOut_big _, n, rfl, hint n⟩
  | rat q =>
    have hd : q.den ≠ 1 := ha.2
    simp only [integerize, hd, if_false]
    exact ⟨goodOut_big _, _, rfl, hrat q hd⟩
  | flt f => exact absurd ha.1 (by simp [isExact])

/-- round-half-away-from-zero. -/
def RoundHalfAway (q : Rat) (n : Int) : Prop :=
  Nearest q n ∧ (Tie q n → q.num.natAbs < (n * q.den).natAbs)

/-- round-half-to-even. -/
def RoundHalfEven (q : Rat) (n : Int) : Prop :=
  Nearest q n ∧ (Tie q n → n % 2 = 0)

theorem roundHalfAway_int (n : Int) : RoundHalfAway (n : Rat) n := by
  simp [RoundHalfAway, Nearest, Tie]

theorem roundHalfEven_int (n : Int) : RoundHalfEven (n : Rat) n := by
  simp [RoundHalfEven, Nearest, Tie]

/-! #### min / max -/

theorem foldl_pickMax_int (l : List Int) (n : Int) :
    (l.foldl pickMax n ∈ n :: l) ∧ ∀ x ∈ n :: l, x ≤ l.foldl pickMax n := by
  induction l generalizing n with
  | nil => simp
  | cons a l ih =>
    simp only [List.foldl_cons]
    obtain ⟨h1, h2⟩ := ih (pickMax n a)
    have hp : pickMax n a = n ∨ pickMax n a = a := by unfold pickMax; split <;> simp
    have hge : n ≤ pickMax n a ∧ a ≤ pickMax n a := by unfold pickMax; split <;> omega
    constructor
    · rcases List.mem_cons.1 h1 with h | h
      · rw [h]; rcases hp with hp | hp <;> rw [hp] <;> simp
      · simp [h]
    · intro x hx
      have hpm := h2 (pickMax n a) (by simp)
      rcases List.mem_cons.1 hx with rfl | hx
      · omega
      · rcases List.mem_cons.1 hx with rfl | hx
        · omega
        · exact h2 x (by simp [hx])

theorem foldl_pickMin_int (l : List Int) (n : Int) :
    (l.foldl pickMin n ∈ n :: l) ∧ ∀ x ∈ n :: l, l.foldl pickMin n ≤ x := by
  induction l generalizing n with
  | nil => simp
  | cons a l ih =>
    simp only [List.foldl_cons]
    obtain ⟨h1, h2⟩ := ih (pickMin n a)
    have hp : pickMin n a = n ∨ pickMin n a = a := by unfold pickMin; split <;> simp
    have hge : pickMin n a ≤ n ∧ pickMin n a ≤ a := by unfold pickMin; split <;> omega
    constructor
    · rcases List.mem_cons.1 h1 with h | h
      · rw [h]; rcases hp with hp | hp <;> rw [hp] <;> simp
      · simp [h]
    · intro x hx
      have hpm := h2 (pickMin n a) (by simp)
      rcases List.mem_cons.1 hx with rfl | hx
      · omega
      · rcases List.mem_cons.1 hx with rfl | hx
        · omega
        · exact h2 x (by simp [hx])

theorem foldl_pickMax_rat (l : List Rat) (n : Rat) :
    (l.foldl pickMax n ∈ n :: l) ∧ ∀ x ∈ n :: l, x ≤ l.foldl pickMax n := by
  induction l generalizing n with
  | nil => simp
  | cons a l ih =>
    simp only [List.foldl_cons]
    obtain ⟨h1, h2⟩ := ih (pickMax n a)
    have hp : pickMax n a = n ∨ pickMax n a = a := by unfold pickMax; split <;> simp
    have hge : n ≤ pickMax n a ∧ a ≤ pickMax n a := by unfold pickMax; split <;> grind
    constructor
    · rcases List.mem_cons.1 h1 with h | h
      · rw [h]; rcases hp with hp | hp <;> rw [hp] <;> simp
      · simp [h]
    · intro x hx
      have hpm := h2 (pickMax n a) (by simp)
      rcases List.mem_cons.1 hx with rfl | hx
      · grind
      · rcases List.mem_cons.1 hx with rfl | hx
        · grind
        · exact h2 x (by simp [hx])

theorem foldl_pickMin_rat (l : List Rat) (n : Rat) :
    (l.foldl pickMin n ∈ n :: l) ∧ ∀ x ∈ n :: l, l.foldl pickMin n ≤ x := by
  induction l generalizing n with
  | nil => simp
  | cons a l ih =>
    simp only [List.foldl_cons]
    obtain ⟨h1, h2⟩ := ih (pickMin n a)
    have hp : pickMin n a = n ∨ pickMin n a = a := by unfold pickMin; split <;> simp
    have hge : pickMin n a ≤ n ∧ pickMin n a ≤ a := by unfold pickMin; split <;> grind
    constructor
    · rcases List.mem_cons.1 h1 with h | h
      · rw [h]; rcases hp with hp | hp <;> rw [hp] <;> simp
      · simp [h]
    · intro x hx
      have hpm := h2 (pickMin n a) (by simp)
      rcases List.mem_cons.1 hx with rfl | hx
      · grind
      · rcases List.mem_cons.1 hx with rfl | hx
        · grind
        · exact h2 x (by simp [hx])


/-- `x ≤ y` / `y ≤ x` (direction of max / min). -/
def leMax (x y : Rat) : Prop := x ≤ y
def leMin (x y : Rat) : Prop := y ≤ x

theorem mathMax_exact (ops : F64Ops F) (raw : List (Num F)) (hc : ∀ a ∈ raw, ExactC a) (hne : raw ≠ []) :
    ∃ v, mathMax ops raw = .ok v ∧ GoodOut v ∧ val v ∈ raw.map val ∧ ∀ a ∈ raw, leMax (val a) (val v) := by
  obtain ⟨hu, _, _⟩ := unifyNums_exact ops raw .int (fun a ha => (hc a ha).1) (by simp [NumType.rank])
  unfold mathMax
  have : raw.isEmpty = false := by cases raw <;> simp_all
  simp only [this]
  match raw, hne with
  | a :: as, _ =>
    generalize hg : unifyNums ops (a :: as) .int = u at hu
    cases hu with
    | ints h0 =>
      simp only [List.map_cons]
      obtain ⟨hm, hle⟩ := foldl_pickMax_int (as.map intVal) (intVal a)
      have h1 : ∀ b ∈ a :: as, rankOf b ≤ 1 := fun b hb => by have := h0 b hb; omega
      rw [← List.map_cons, List.mem_map] at hm
      obtain ⟨b, hb, hbe⟩ := hm
      refine ⟨_, rfl, ⟨rfl, ?_⟩, ?_, ?_⟩
      · intro k hk
        cases hk
        have hb0 := h0 b hb
        have hcb := (hc b hb).2
        cases b <;> simp [rankOf, getNumType, NumType.rank] at hb0
        rw [← hbe]; exact hcb
      · rw [val_int, ← hbe, intVal_cast b (h1 b hb)]
        exact List.mem_map.2 ⟨b, hb, rfl⟩
      · intro c hcm
        have := hle (intVal c) (by rw [← List.map_cons]; exact List.mem_map.2 ⟨c, hcm, rfl⟩)
        rw [val_int, ← intVal_cast c (h1 c hcm)]
        exact Rat.intCast_le_intCast.2 this
    | bigs h1 =>
      simp only [List.map_cons]
      obtain ⟨hm, hle⟩ := foldl_pickMax_int (as.map intVal) (intVal a)
      rw [← List.map_cons, List.mem_map] at hm
      obtain ⟨b, hb, hbe⟩ := hm
      refine ⟨_, rfl, goodOut_big _, ?_, ?_⟩
      · rw [val_big, ← hbe, intVal_cast b (h1 b hb)]
        exact List.mem_map.2 ⟨b, hb, rfl⟩
      · intro c hcm
        have := hle (intVal c) (by rw [← List.map_cons]; exact List.mem_map.2 ⟨c, hcm, rfl⟩)
        rw [val_big, ← intVal_cast c (h1 c hcm)]
        exact Rat.intCast_le_intCast.2 this
    | rats =>
      simp only [List.map_cons]
      obtain ⟨hm, hle⟩ := foldl_pickMax_rat (as.map val) (val a)
      refine ⟨_, rfl, goodOut_rat _, ?_, ?_⟩
      · exact hm
      · intro c hcm
        exact hle (val c) (by rw [← List.map_cons]; exact List.mem_map.2 ⟨c, hcm, rfl⟩)

theorem mathMin_exact (ops : F64Ops F) (raw : List (Num F)) (hc : ∀ a ∈ raw, ExactC a) (hne : raw ≠ []) :
    ∃ v, mathMin ops raw = .ok v ∧ GoodOut v ∧ val v ∈ raw.map val ∧ ∀ a ∈ raw, leMin (val a) (val v) := by
  obtain ⟨hu, _, _⟩ := unifyNums_exact ops raw .int (fun a ha => (hc a ha).1) (by simp [NumType.rank])
  unfold mathMin
  have : raw.isEmpty = false := by cases raw <;> simp_all
  simp only [this]
  match raw, hne with
  | a :: as, _ =>
    generalize hg : unifyNums ops (a :: as) .int = u at hu
    cases hu with
    | ints h0 =>
      simp only [List.map_cons]
      obtain ⟨hm, hle⟩ := foldl_pickMin_int (as.map intVal) (intVal a)
      have h1 : ∀ b ∈ a :: as, rankOf b ≤ 1 := fun b hb => by have := h0 b hb; omega
      rw [← List.map_cons, List.mem_map] at hm
      obtain ⟨b, hb, hbe⟩ := hm
      refine ⟨_, rfl, ⟨rfl, ?_⟩, ?_, ?_⟩
      · intro k hk
        cases hk
        have hb0 := h0 b hb
        have hcb := (hc b hb).2
        cases b <;> simp [rankOf, getNumType, NumType.rank] at hb0
        rw [← hbe]; exact hcb
      · rw [val_int, ← hbe, intVal_cast b (h1 b hb)]
        exact List.mem_map.2 ⟨b, hb, rfl⟩
      · intro c hcm
        have := hle (intVal c) (by rw [← List.map_cons]; exact List.mem_map.2 ⟨c, hcm, rfl⟩)
        rw [val_int, ← intVal_cast c (h1 c hcm)]
        exact Rat.intCast_le_intCast.2 this
    | bigs h1 =>
      simp only [List.map_cons]
      obtain ⟨hm, hle⟩ := foldl_pickMin_int (as.map intVal) (intVal a)
      rw [← List.map_cons, List.mem_map] at hm
      obtain ⟨b, hb, hbe⟩ := hm
      refine ⟨_, rfl, goodOut_big _, ?_, ?_⟩
      · rw [val_big, ← hbe, intVal_cast b (h1 b hb)]
        exact List.mem_map.2 ⟨b, hb, rfl⟩
      · intro c hcm
        have := hle (intVal c) (by rw [← List.map_cons]; exact List.mem_map.2 ⟨c, hcm, rfl⟩)
        rw [val_big, ← intVal_cast c (h1 c hcm)]
        exact Rat.intCast_le_intCast.2 this
    | rats =>
      simp only [List.map_cons]
      obtain ⟨hm, hle⟩ := foldl_pickMin_rat (as.map val) (val a)
      refine ⟨_, rfl, goodOut_rat _, ?_, ?_⟩
      · exact hm
      · intro c hcm
        exact hle (val c) (by rw [← List.map_cons]; exact List.mem_map.2 ⟨c, hcm, rfl⟩)

end C11
