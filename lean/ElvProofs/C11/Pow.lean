/-
C11 helper lemmas for math:pow (as fixed by fixes/C11-pow-zero-neg.patch).
-/
import ElvProofs.C11.MathFns
namespace C11
open Go
variable {F : Type}

theorem neg_one_pow (y : Nat) : (-1 : Int) ^ y = if y % 2 = 0 then 1 else -1 := by
  induction y with
  | zero => rfl
  | succ n ih =>
    rw [Int.pow_succ, ih]
    by_cases h : n % 2 = 0
    · have : (n + 1) % 2 ≠ 0 := by omega
      simp [h, this]
    · have : (n + 1) % 2 = 0 := by omega
      simp [h, this]

theorem bigExp_eq (x : Int) (y : Nat) : bigExp x y = x ^ y := by
  unfold bigExp
  by_cases h0 : y = 0
  · subst h0; simp
  · simp only [h0, if_false]
    by_cases h1 : x = 0
    · subst h1; simp [Int.zero_pow h0]
    · simp only [h1, if_false]
      by_cases h2 : x = 1
      · subst h2; simp [Int.one_pow]
      · simp only [h2, if_false]
        by_cases h3 : x = -1
        · subst h3; simp only [if_true]; exact (neg_one_pow y).symm
        · simp [h3]

theorem inv_pow (b : Rat) (n : Nat) : (b⁻¹) ^ n = (b ^ n)⁻¹ := by
  induction n with
  | zero => simp only [Rat.pow_zero]; exact (Rat.inv_eq_of_mul_eq_one (by simp)).symm
  | succ n ih => rw [Rat.pow_succ, Rat.pow_succ, Rat.inv_mul_rev, ih, Rat.mul_comm]

theorem divInt_pow (b : Rat) (n : Nat) :
    Rat.divInt (b.num ^ n) ((b.den : Int) ^ n) = b ^ n := by
  have := Rat.num_divInt_den (b ^ n)
  rw [Rat.num_pow, Rat.den_pow, Int.natCast_pow] at this
  exact this

theorem den_pow_ne_zero (b : Rat) (n : Nat) : ((b.den : Int) ^ n) ≠ 0 := by
  have : (0 : Int) < (b.den : Int) ^ n := Int.pow_pos (den_pos' b)
  omega

theorem zpow_of_nonneg (b : Rat) (e : Int) (h : 0 ≤ e) : b ^ e = b ^ e.toNat := by
  conv => lhs; rw [← Int.toNat_of_nonneg h]
  exact Rat.zpow_natCast b _

theorem zpow_of_neg (b : Rat) (e : Int) (h : e < 0) : b ^ e = (b⁻¹) ^ (-e).toNat := by
  have : e = -((-e).toNat : Int) := by omega
  conv => lhs; rw [this]
  rw [Rat.zpow_neg, Rat.zpow_natCast, inv_pow]

/-- `math:pow` with an exact base and an exact integer exponent `e`:
`base^e` as a rational power, canonical; exception exactly for `0^negative`. -/
theorem mathPow_exact (ops : F64Ops F) (base exp : Num F) (hb : ExactC base) (he : ExactC exp)
    (hi : isExactInt exp = true) :
    (val base = 0 ∧ intVal exp < 0 ∧ mathPow ops base exp = .exc "div0") ∨
    (¬ (val base = 0 ∧ intVal exp < 0) ∧ ∃ v, mathPow ops base exp = .ok v ∧ GoodOut v ∧
      val v = val base ^ intVal exp) := by
  have hre : rankOf exp ≤ 1 := by cases exp <;> simp [isExactInt, rankOf, getNumType, NumType.rank] at *
  have hz := isExactZero_iff base hb
  unfold mathPow
  simp only [hb.1, hi, Bool.and_self, if_true, promoteToBigInt_eq exp hre]
  generalize hE : intVal exp = e
  by_cases c0 : isExactZero base = true ∧ e < 0
  · left
    refine ⟨hz.1 c0.1, c0.2, ?_⟩
    simp [c0.1, c0.2]
  · right
    have c0' : ¬ (val base = 0 ∧ e < 0) := fun h => c0 ⟨hz.2 h.1, h.2⟩
    refine ⟨c0', ?_⟩
    have : (isExactZero base && decide (e < 0)) = false := by
      cases hh : isExactZero base <;> simp_all
    simp only [this, Bool.false_eq_true, if_false]
    -- the `switch exp` on small machine ints
    have hsmall : ∀ k, smallExp exp = some k → e = k := by
      intro k hk; cases exp <;> simp [smallExp] at hk; subst hk; exact hE.symm
    by_cases s0 : smallExp exp = some 0
    · simp only [s0, if_true]
      refine ⟨.int 1, rfl, ⟨rfl, fun k hk => by cases hk; simp [fitsInt, minInt, maxInt]⟩, ?_⟩
      rw [hsmall 0 s0]; simp
    · simp only [s0, if_false]
      by_cases s1 : smallExp exp = some 1
      · simp only [s1, if_true]
        refine ⟨base, rfl, goodOut_of_exactC base hb, ?_⟩
        rw [hsmall 1 s1]; simp
      · simp only [s1, if_false]
        by_cases s2 : smallExp exp = some (-1)
        · simp only [s2, if_true]
          have hem := hsmall (-1) s2
          have hb0 : val base ≠ 0 := fun h => c0' ⟨h, by omega⟩
          rw [promoteToBigRat_eq base hb.1]
          simp only [ratInv, hb0, if_false, resMap_ok]
          refine ⟨_, rfl, goodOut_rat _, ?_⟩
          rw [hem, val_rat, Rat.zpow_neg]; simp
        · simp only [s2, if_false]
          by_cases c1 : isExactInt base = true ∧ 0 < e
          · have hrb : rankOf base ≤ 1 := by
              cases base <;> simp [isExactInt, rankOf, getNumType, NumType.rank] at *
            simp only [c1.1, c1.2, decide_true, Bool.and_self, if_true, promoteToBigInt_eq base hrb]
            refine ⟨_, rfl, goodOut_big _, ?_⟩
            rw [val_big, bigExp_eq, Rat.intCast_pow, intVal_cast base hrb, zpow_of_nonneg _ _ (by omega)]
          · have : (isExactInt base && decide (0 < e)) = false := by
              cases hh : isExactInt base <;> simp_all
            simp only [this, Bool.false_eq_true, if_false, promoteToBigRat_eq base hb.1]
            by_cases c2 : e < 0
            · have hb0 : val base ≠ 0 := fun h => c0' ⟨h, c2⟩
              simp only [c2, if_true, ratInv, hb0, if_false, resMap_ok, bigExp_eq, den_pow_ne_zero]
              refine ⟨_, rfl, goodOut_rat _, ?_⟩
              rw [val_rat, divInt_pow, zpow_of_neg _ _ c2]
            · simp only [c2, if_false, bigExp_eq, den_pow_ne_zero]
              refine ⟨_, rfl, goodOut_rat _, ?_⟩
              rw [val_rat, divInt_pow, zpow_of_nonneg _ _ (by omega)]

end C11
