/-
C11 helper lemmas for `range`.
-/
import ElvProofs.C11.MathFns
namespace C11
open Go
variable {F : Type}

/-- The arithmetic progression `cur, cur+step, cur+2·step, …` for as long as
`cont` holds (`cont x` is `x < end` ascending, `end < x` descending): the
mathematical meaning of `range`. -/
inductive Prog {T : Type} [Add T] (cont : T → Prop) (step : T) : T → List T → Prop where
  | stop {cur : T} : ¬ cont cur → Prog cont step cur []
  | next {cur : T} {l : List T} : cont cur → Prog cont step (cur + step) l → Prog cont step cur (cur :: l)

/-- The progression is unique. -/
theorem Prog.unique {T : Type} [Add T] {cont : T → Prop} {step cur : T} {l l' : List T}
    (h : Prog cont step cur l) (h' : Prog cont step cur l') : l = l' := by
  induction h generalizing l' with
  | stop hn => cases h' with
    | stop _ => rfl
    | next hc _ => exact absurd hc hn
  | next hc _ ih => cases h' with
    | stop hn => exact absurd hc hn
    | next _ hp => rw [ih hp]

/-! #### the `big.Int` / `big.Rat` loops -/

theorem rangeBigUp_prog {T : Type} [Add T] [LT T] [DecidableLT T] (e s : T) (μ : T → Nat)
    (hμ : ∀ c, c < e → μ (c + s) < μ c) (fuel : Nat) (c : T) (hf : μ c < fuel) :
    ∃ L, rangeBigUp e s fuel c = .ok L ∧ Prog (· < e) s c L := by
  induction fuel generalizing c with
  | zero => omega
  | succ fuel ih =>
    unfold rangeBigUp
    by_cases hc : c < e
    · obtain ⟨L, hL, hP⟩ := ih (c + s) (by have := hμ c hc; omega)
      exact ⟨c :: L, by simp [hc, hL], .next hc hP⟩
    · exact ⟨[], by simp [hc], .stop hc⟩

theorem rangeBigDown_prog {T : Type} [Add T] [LT T] [DecidableLT T] (e s : T) (μ : T → Nat)
    (hμ : ∀ c, e < c → μ (c + s) < μ c) (fuel : Nat) (c : T) (hf : μ c < fuel) :
    ∃ L, rangeBigDown e s fuel c = .ok L ∧ Prog (e < ·) s c L := by
  induction fuel generalizing c with
  | zero => omega
  | succ fuel ih =>
    unfold rangeBigDown
    by_cases hc : e < c
    · obtain ⟨L, hL, hP⟩ := ih (c + s) (by have := hμ c hc; omega)
      exact ⟨c :: L, by simp [hc, hL], .next hc hP⟩
    · exact ⟨[], by simp [hc], .stop hc⟩

/-- Measure for the rational loops (and the fuel the model supplies). -/
def μRat (e s c : Rat) : Nat := ((e - c) / s).ceil.toNat

theorem μRat_decr (e s c : Rat) (hs : s ≠ 0) (hpos : 0 < (e - c) / s) :
    μRat e s (c + s) < μRat e s c := by
  unfold μRat
  have h1 : (e - (c + s)) / s = (e - c) / s - 1 := by grind
  rw [h1, Rat.ceil_sub_one]
  have h2 : (0 : Rat) < (((e - c) / s).ceil : Int) := by
    have := @Rat.le_ceil ((e - c) / s); grind
  have h3 := Rat.intCast_pos.1 h2
  omega

theorem div_pos_of_pos (a s : Rat) (ha : 0 < a) (hs : 0 < s) : 0 < a / s := by
  rw [Rat.div_def]; exact Rat.mul_pos ha (Rat.inv_pos.2 hs)

theorem div_pos_of_neg (a s : Rat) (ha : a < 0) (hs : s < 0) : 0 < a / s := by
  have : a / s = (-a) / (-s) := by grind
  rw [this]
  exact div_pos_of_pos _ _ (by grind) (by grind)

/-! #### the machine-int loops with their wrap guards -/

theorem wrap64_id (z : Int) (h : fitsInt z = true) : wrap64 z = z := by
  rw [fitsInt_iff] at h; simp only [minInt, maxInt] at h
  unfold wrap64; omega

theorem wrap64_over (z : Int) (h1 : maxInt < z) (h2 : z ≤ 2 * maxInt + 1) :
    wrap64 z = z - 18446744073709551616 := by
  simp only [maxInt] at *
  unfold wrap64; omega

theorem wrap64_under (z : Int) (h1 : z < minInt) (h2 : 2 * minInt ≤ z) :
    wrap64 z = z + 18446744073709551616 := by
  simp only [minInt] at *
  unfold wrap64; omega

/-- Ascending machine loop: with in-range `cur`, `end`, `step > 0` the wrap
guard fires exactly when the mathematical next term exceeds `maxInt ≥ end`, so
the output is the mathematical progression. -/
theorem rangeIntUp_prog (e s : Int) (he : fitsInt e = true) (hs : fitsInt s = true) (hs0 : 0 < s)
    (fuel : Nat) (c : Int) (hc : fitsInt c = true) (hf : (e - c).toNat < fuel) :
    ∃ L, rangeIntUp e s fuel c = .ok L ∧ Prog (· < e) s c L := by
  induction fuel generalizing c with
  | zero => omega
  | succ fuel ih =>
    unfold rangeIntUp
    by_cases hlt : c < e
    · simp only [hlt, if_true]
      have he' := (fitsInt_iff e).1 he
      have hs' := (fitsInt_iff s).1 hs
      have hc' := (fitsInt_iff c).1 hc
      by_cases hov : c + s ≤ maxInt
      · have hfit : fitsInt (c + s) = true := by
          rw [fitsInt_iff]; simp only [minInt, maxInt] at *; omega
        rw [wrap64_id _ hfit]
        have : ¬ (c + s ≤ c) := by omega
        simp only [this, if_false]
        obtain ⟨L, hL, hP⟩ := ih (c + s) hfit (by omega)
        exact ⟨c :: L, by simp [hL], .next hlt hP⟩
      · rw [wrap64_over _ (by omega) (by simp only [minInt, maxInt] at *; omega)]
        have : c + s - 18446744073709551616 ≤ c := by simp only [minInt, maxInt] at *; omega
        simp only [this, if_true]
        refine ⟨[c], rfl, .next hlt (.stop ?_)⟩
        simp only [minInt, maxInt] at *; omega
    · exact ⟨[], by simp [hlt], .stop hlt⟩

theorem rangeIntDown_prog (e s : Int) (he : fitsInt e = true) (hs : fitsInt s = true) (hs0 : s < 0)
    (fuel : Nat) (c : Int) (hc : fitsInt c = true) (hf : (c - e).toNat < fuel) :
    ∃ L, rangeIntDown e s fuel c = .ok L ∧ Prog (e < ·) s c L := by
  induction fuel generalizing c with
  | zero => omega
  | succ fuel ih =>
    unfold rangeIntDown
    by_cases hlt : e < c
    · have hgt : c > e := hlt
      simp only [hgt, if_true]
      have he' := (fitsInt_iff e).1 he
      have hs' := (fitsInt_iff s).1 hs
      have hc' := (fitsInt_iff c).1 hc
      by_cases hov : minInt ≤ c + s
      · have hfit : fitsInt (c + s) = true := by
          rw [fitsInt_iff]; simp only [minInt, maxInt] at *; omega
        rw [wrap64_id _ hfit]
        have : ¬ (c + s ≥ c) := by omega
        simp only [this, if_false]
        obtain ⟨L, hL, hP⟩ := ih (c + s) hfit (by omega)
        exact ⟨c :: L, by simp [hL], .next hlt hP⟩
      · rw [wrap64_under _ (by omega) (by simp only [minInt, maxInt] at *; omega)]
        have : c + s + 18446744073709551616 ≥ c := by simp only [minInt, maxInt] at *; omega
        simp only [this, if_true]
        refine ⟨[c], rfl, .next hlt (.stop ?_)⟩
        simp only [minInt, maxInt] at *; omega
    · have hgt : ¬ c > e := hlt
      exact ⟨[], by simp [hgt], .stop hlt⟩

/-- Every term of an ascending progression with positive step lies in `[cur, end)`. -/
theorem Prog.up_bounds {e s c : Int} {L : List Int} (h : Prog (· < e) s c L) (hs : 0 < s) :
    ∀ x ∈ L, c ≤ x ∧ x < e := by
  induction h with
  | stop _ => intro x hx; cases hx
  | next hc _ ih =>
    intro x hx
    rcases List.mem_cons.1 hx with rfl | hx
    · exact ⟨Int.le_refl _, hc⟩
    · have := ih x hx; omega

theorem Prog.down_bounds {e s c : Int} {L : List Int} (h : Prog (e < ·) s c L) (hs : s < 0) :
    ∀ x ∈ L, x ≤ c ∧ e < x := by
  induction h with
  | stop _ => intro x hx; cases hx
  | next hc _ ih =>
    intro x hx
    rcases List.mem_cons.1 hx with rfl | hx
    · exact ⟨Int.le_refl _, hc⟩
    · have := ih x hx; omega

/-- Integer progressions are rational progressions. -/
theorem Prog.cast_up {e s c : Int} {L : List Int} (h : Prog (· < e) s c L) :
    Prog (· < (e : Rat)) (s : Rat) (c : Rat) (L.map fun k : Int => (k : Rat)) := by
  induction h with
  | stop hn => exact .stop (fun h => hn (Rat.intCast_lt_intCast.1 h))
  | next hc _ ih =>
    refine .next (Rat.intCast_lt_intCast.2 hc) ?_
    rw [← Rat.intCast_add]; exact ih

theorem Prog.cast_down {e s c : Int} {L : List Int} (h : Prog ((e : Int) < ·) s c L) :
    Prog ((e : Rat) < ·) (s : Rat) (c : Rat) (L.map fun k : Int => (k : Rat)) := by
  induction h with
  | stop hn => exact .stop (fun h => hn (Rat.intCast_lt_intCast.1 h))
  | next hc _ ih =>
    refine .next (Rat.intCast_lt_intCast.2 hc) ?_
    rw [← Rat.intCast_add]; exact ih

/-- Closed form: the `k`-th term is `cur + k·step`. -/
theorem Prog.closed {cont : Rat → Prop} {s c : Rat} {L : List Rat} (h : Prog cont s c L) :
    L = (List.range L.length).map (fun k : Nat => c + (k : Rat) * s) ∧
    (∀ k, k < L.length → cont (c + (k : Rat) * s)) ∧ ¬ cont (c + (L.length : Rat) * s) := by
  induction h with
  | stop hn => simp [Rat.add_zero]; exact hn
  | @next cur l hc hp ih =>
    obtain ⟨h1, h2, h3⟩ := ih
    refine ⟨?_, ?_, ?_⟩
    · rw [List.length_cons, List.range_succ_eq_map, List.map_cons, List.map_map]
      congr 1
      · simp [Rat.add_zero]
      · conv => lhs; rw [h1]
        apply List.map_congr_left
        intro k _
        simp only [Function.comp]
        have : ((k + 1 : Nat) : Rat) = (k : Rat) + 1 := by simp
        rw [this]; grind
    · intro k hk
      cases k with
      | zero => simpa [Rat.add_zero] using hc
      | succ k =>
        have := h2 k (by simpa using hk)
        have e : cur + s + (k : Rat) * s = cur + ((k + 1 : Nat) : Rat) * s := by
          have : ((k + 1 : Nat) : Rat) = (k : Rat) + 1 := by simp
          rw [this]; grind
        rw [← e]; exact this
    · have e : cur + s + (l.length : Rat) * s = cur + (((cur :: l).length : Nat) : Rat) * s := by
        have : (((cur :: l).length : Nat) : Rat) = (l.length : Rat) + 1 := by simp
        rw [this]; grind
      rw [← e]; exact h3


/-- What the documentation says `range $start $end &step=$z?` outputs:
ascending when `start ≤ end` (step must be positive, default 1), descending
otherwise (step must be negative, default -1); the terms of the progression
for as long as they are before `end`. -/
def RangeSpecT {T : Type} [Add T] [LT T] [LE T] (zero one negOne : T) (x y : T) (z? : Option T)
    (r : Res (List T)) : Prop :=
  (x ≤ y →
    match z? with
    | some z => (z ≤ zero → r = .exc "step-positive") ∧
                (¬ z ≤ zero → ∃ L, r = .ok L ∧ Prog (· < y) z x L)
    | none => ∃ L, r = .ok L ∧ Prog (· < y) one x L) ∧
  (¬ x ≤ y →
    match z? with
    | some z => (zero ≤ z → r = .exc "step-negative") ∧
                (¬ zero ≤ z → ∃ L, r = .ok L ∧ Prog (y < ·) z x L)
    | none => ∃ L, r = .ok L ∧ Prog (y < ·) negOne x L)

theorem rangeBigNum_spec {T : Type} [Add T] [LT T] [DecidableLT T] [LE T] [DecidableLE T]
    (zero one negOne : T) (fuelOf : T → T → T → Nat) (μu μd : T → T → T → Nat)
    (h1 : ∀ e s c, ¬ s ≤ zero → c < e → μu e s (c + s) < μu e s c)
    (h2 : ∀ e s c, ¬ zero ≤ s → e < c → μd e s (c + s) < μd e s c)
    (h3u : ∀ st e s, μu e s st < fuelOf st e s) (h3d : ∀ st e s, μd e s st < fuelOf st e s)
    (h4 : ¬ one ≤ zero) (h5 : ¬ zero ≤ negOne) (x y : T) (z? : Option T) :
    RangeSpecT zero one negOne x y z? (rangeBigNum zero one negOne fuelOf (x :: y :: z?.toList)) := by
  unfold RangeSpecT rangeBigNum
  refine ⟨fun hxy => ?_, fun hxy => ?_⟩
  · simp only [hxy, if_true]
    cases z? with
    | none =>
      simp only [Option.toList]
      exact rangeBigUp_prog y one (μu y one) (fun c hc => h1 y one c h4 hc) _ x (h3u x y one)
    | some z =>
      simp only [Option.toList]
      refine ⟨fun hz => by simp [hz], fun hz => ?_⟩
      simp only [hz, if_false]
      exact rangeBigUp_prog y z (μu y z) (fun c hc => h1 y z c hz hc) _ x (h3u x y z)
  · simp only [hxy, if_false]
    cases z? with
    | none =>
      simp only [Option.toList]
      exact rangeBigDown_prog y negOne (μd y negOne) (fun c hc => h2 y negOne c h5 hc) _ x (h3d x y negOne)
    | some z =>
      simp only [Option.toList]
      refine ⟨fun hz => by simp [hz], fun hz => ?_⟩
      simp only [hz, if_false]
      exact rangeBigDown_prog y z (μd y z) (fun c hc => h2 y z c hz hc) _ x (h3d x y z)

theorem rangeBigNum_int (x y : Int) (z? : Option Int) :
    RangeSpecT 0 1 (-1) x y z? (rangeBigNum 0 1 (-1) fuelInt (x :: y :: z?.toList)) :=
  rangeBigNum_spec 0 1 (-1) fuelInt (fun e _ c => (e - c).toNat) (fun e _ c => (c - e).toNat)
    (by intro e s c hs hc; omega) (by intro e s c hs hc; omega)
    (by intro st e s; simp only [fuelInt]; omega) (by intro st e s; simp only [fuelInt]; omega)
    (by omega) (by omega) x y z?

theorem rangeBigNum_rat (x y : Rat) (z? : Option Rat) :
    RangeSpecT 0 1 (-1) x y z? (rangeBigNum 0 1 (-1) fuelRat (x :: y :: z?.toList)) :=
  rangeBigNum_spec 0 1 (-1) fuelRat μRat μRat
    (by intro e s c hs hc
        exact μRat_decr e s c (by grind) (div_pos_of_pos _ _ (by grind) (by grind)))
    (by intro e s c hs hc
        exact μRat_decr e s c (by grind) (div_pos_of_neg _ _ (by grind) (by grind)))
    (by intro st e s; simp [fuelRat, μRat]) (by intro st e s; simp [fuelRat, μRat])
    (by decide) (by decide) x y z?

theorem rangeBuiltinInt_spec (x y : Int) (z? : Option Int) (hx : fitsInt x = true)
    (hy : fitsInt y = true) (hz : ∀ z, z? = some z → fitsInt z = true) :
    RangeSpecT 0 1 (-1) x y z? (rangeBuiltinInt (x :: y :: z?.toList)) := by
  unfold RangeSpecT rangeBuiltinInt
  refine ⟨fun hxy => ?_, fun hxy => ?_⟩
  · simp only [hxy, if_true]
    cases z? with
    | none =>
      simp only [Option.toList]
      exact rangeIntUp_prog y 1 hy (by decide) (by omega) _ x hx (by omega)
    | some z =>
      simp only [Option.toList]
      refine ⟨fun hz0 => by simp [hz0], fun hz0 => ?_⟩
      simp only [hz0, if_false]
      exact rangeIntUp_prog y z hy (hz z rfl) (by omega) _ x hx (by omega)
  · simp only [hxy, if_false]
    cases z? with
    | none =>
      simp only [Option.toList]
      exact rangeIntDown_prog y (-1) hy (by decide) (by omega) _ x hx (by omega)
    | some z =>
      simp only [Option.toList]
      refine ⟨fun hz0 => ?_, fun hz0 => ?_⟩
      · have : z ≥ 0 := hz0
        simp [this]
      · have : ¬ z ≥ 0 := hz0
        simp only [this, if_false]
        exact rangeIntDown_prog y z hy (hz z rfl) (by omega) _ x hx (by omega)

/-- Transport of the integer specification to the rationals. -/
theorem RangeSpecT.cast {x y : Int} {z? : Option Int} {r : Res (List Int)}
    (h : RangeSpecT 0 1 (-1) x y z? r) :
    RangeSpecT (0 : Rat) 1 (-1) (x : Rat) (y : Rat) (z?.map fun k : Int => (k : Rat))
      (resMap (List.map fun k : Int => (k : Rat)) r) := by
  unfold RangeSpecT at *
  have hxy : ((x : Rat) ≤ (y : Rat)) ↔ x ≤ y := Rat.intCast_le_intCast
  obtain ⟨hu, hd⟩ := h
  refine ⟨fun c => ?_, fun c => ?_⟩
  · have hu := hu (hxy.1 c)
    cases z? with
    | none =>
      obtain ⟨L, rfl, hP⟩ := hu
      exact ⟨_, rfl, hP.cast_up⟩
    | some z =>
      simp only [Option.map] at *
      have hz : ((z : Rat) ≤ 0) ↔ z ≤ 0 := by
        have := @Rat.intCast_le_intCast z 0; simpa using this
      refine ⟨fun c2 => ?_, fun c2 => ?_⟩
      · rw [hu.1 (hz.1 c2)]; rfl
      · obtain ⟨L, rfl, hP⟩ := hu.2 (fun hh => c2 (hz.2 hh))
        exact ⟨_, rfl, hP.cast_up⟩
  · have hd := hd (fun hh => c (hxy.2 hh))
    cases z? with
    | none =>
      obtain ⟨L, rfl, hP⟩ := hd
      exact ⟨_, rfl, by simpa using hP.cast_down⟩
    | some z =>
      simp only [Option.map] at *
      have hz : ((0 : Rat) ≤ (z : Rat)) ↔ 0 ≤ z := by
        have := @Rat.intCast_le_intCast 0 z; simpa using this
      refine ⟨fun c2 => ?_, fun c2 => ?_⟩
      · rw [hd.1 (hz.1 c2)]; rfl
      · obtain ⟨L, rfl, hP⟩ := hd.2 (fun hh => c2 (hz.2 hh))
        exact ⟨_, rfl, hP.cast_down⟩

end C11
