/-
C11: `rangeFn` on exact arguments meets the documented progression.
-/
import ElvProofs.C11.Range
namespace C11
open Go
variable {F : Type}

theorem fitsInt_wrap64 (z : Int) : fitsInt (wrap64 z) = true := by
  rw [fitsInt_iff]; simp only [minInt, maxInt]; unfold wrap64; omega

theorem rangeIntUp_fits (e s : Int) (fuel : Nat) (c : Int) (hc : fitsInt c = true) (L : List Int)
    (h : rangeIntUp e s fuel c = .ok L) : ∀ n ∈ L, fitsInt n = true := by
  induction fuel generalizing c L with
  | zero => simp [rangeIntUp] at h
  | succ fuel ih =>
    unfold rangeIntUp at h
    by_cases hlt : c < e
    · simp only [hlt, if_true] at h
      by_cases hw : wrap64 (c + s) ≤ c
      · simp only [hw, if_true] at h
        cases h; intro n hn; simp at hn; subst hn; exact hc
      · simp only [hw, if_false] at h
        generalize hr : rangeIntUp e s fuel (wrap64 (c + s)) = r at h
        cases r with
        | ok L' =>
          simp at h; subst h
          intro n hn
          rcases List.mem_cons.1 hn with rfl | hn
          · exact hc
          · exact ih _ (fitsInt_wrap64 _) L' hr n hn
        | exc m => simp at h
        | panic m => simp at h
    · simp only [hlt, if_false] at h
      cases h; intro n hn; cases hn

theorem rangeIntDown_fits (e s : Int) (fuel : Nat) (c : Int) (hc : fitsInt c = true) (L : List Int)
    (h : rangeIntDown e s fuel c = .ok L) : ∀ n ∈ L, fitsInt n = true := by
  induction fuel generalizing c L with
  | zero => simp [rangeIntDown] at h
  | succ fuel ih =>
    unfold rangeIntDown at h
    by_cases hlt : c > e
    · simp only [hlt, if_true] at h
      by_cases hw : wrap64 (c + s) ≥ c
      · simp only [hw, if_true] at h
        cases h; intro n hn; simp at hn; subst hn; exact hc
      · simp only [hw, if_false] at h
        generalize hr : rangeIntDown e s fuel (wrap64 (c + s)) = r at h
        cases r with
        | ok L' =>
          simp at h; subst h
          intro n hn
          rcases List.mem_cons.1 hn with rfl | hn
          · exact hc
          · exact ih _ (fitsInt_wrap64 _) L' hr n hn
        | exc m => simp at h
        | panic m => simp at h
    · simp only [hlt, if_false] at h
      cases h; intro n hn; cases hn

theorem rangeBuiltinInt_fits (x y : Int) (tl : List Int) (hx : fitsInt x = true) (L : List Int)
    (h : rangeBuiltinInt (x :: y :: tl) = .ok L) : ∀ n ∈ L, fitsInt n = true := by
  unfold rangeBuiltinInt at h
  by_cases hxy : x ≤ y
  · simp only [hxy, if_true] at h
    match tl, h with
    | [], h => exact rangeIntUp_fits _ _ _ _ hx L h
    | [z], h =>
      by_cases hz : z ≤ 0
      · simp [hz] at h
      · simp only [hz, if_false] at h; exact rangeIntUp_fits _ _ _ _ hx L h
    | _ :: _ :: _, h => simp at h
  · simp only [hxy, if_false] at h
    match tl, h with
    | [], h => exact rangeIntDown_fits _ _ _ _ hx L h
    | [z], h =>
      by_cases hz : z ≥ 0
      · simp [hz] at h
      · simp only [hz, if_false] at h; exact rangeIntDown_fits _ _ _ _ hx L h
    | _ :: _ :: _, h => simp at h

theorem resMap_resMap {α β γ} (f : α → β) (g : β → γ) (r : Res α) :
    resMap g (resMap f r) = resMap (g ∘ f) r := by
  cases r <;> rfl

theorem map_toList_option {α β} (f : α → β) (o : Option α) : o.toList.map f = (o.map f).toList := by
  cases o <;> rfl

/-- The part of `rangeFn` after the argument list is assembled. -/
def rangeCore (ops : F64Ops F) (raw : List (Num F)) : Res (List (Num F)) :=
  match unifyNums ops raw .int with
  | .ok (.ints l) => resMap (·.map fun n => fromGo (.int n)) (rangeBuiltinInt l)
  | .ok (.bigs l) => resMap (·.map fun n => fromGo (.big n)) (rangeBigNum 0 1 (-1) fuelInt l)
  | .ok (.rats l) => resMap (·.map fun q => fromGo (.rat q)) (rangeBigNum 0 1 (-1) fuelRat l)
  | .ok (.flts _) => .exc "unmodelled-range-float"
  | .exc e => .exc e
  | .panic w => .panic w

theorem rangeFn_eq (ops : F64Ops F) (s e : Num F) (st : Option (Num F)) :
    rangeFn ops [s, e] st = rangeCore ops (s :: e :: st.toList) := by
  cases st <;> rfl

/-- `range` on exact arguments (two-argument form; `range $e` is `range 0 $e`
by definition of `rangeFn`). -/
theorem rangeFn_exact (ops : F64Ops F) (s e : Num F) (st : Option (Num F)) (hs : ExactC s)
    (he : ExactC e) (hst : ∀ z, st = some z → ExactC z) :
    RangeSpecT (0 : Rat) 1 (-1) (val s) (val e) (st.map val)
      (resMap (List.map val) (rangeFn ops [s, e] st)) ∧
    ∀ outs, rangeFn ops [s, e] st = .ok outs → ∀ v ∈ outs, ExactC v := by
  have hx : ∀ a ∈ s :: e :: st.toList, isExact a = true := by
    intro a ha
    simp only [List.mem_cons, Option.mem_toList] at ha
    rcases ha with rfl | rfl | ha
    · exact hs.1
    · exact he.1
    · exact (hst a ha).1
  obtain ⟨hu, _, _⟩ := unifyNums_exact ops (s :: e :: st.toList) .int hx (by simp [NumType.rank])
  rw [rangeFn_eq]
  unfold rangeCore
  generalize hg : unifyNums ops (s :: e :: st.toList) .int = u at hu
  cases hu with
  | ints h0 =>
    have h1 : ∀ b ∈ s :: e :: st.toList, rankOf b ≤ 1 := fun b hb => by have := h0 b hb; omega
    have fits : ∀ b ∈ s :: e :: st.toList, fitsInt (intVal b) = true := by
      intro b hb
      have hb0 := h0 b hb
      have hcb : ExactC b := by
        simp only [List.mem_cons, Option.mem_toList] at hb
        rcases hb with rfl | rfl | hb
        · exact hs
        · exact he
        · exact hst b hb
      cases b <;> simp [rankOf, getNumType, NumType.rank] at hb0
      exact hcb.2
    simp only [List.map_cons, map_toList_option]
    have hspec := (rangeBuiltinInt_spec (intVal s) (intVal e) (st.map intVal)
      (fits s (by simp)) (fits e (by simp)) (by
        intro z hz
        cases st with
        | none => simp at hz
        | some w => simp at hz; subst hz; exact fits w (by simp))).cast
    constructor
    · rw [resMap_resMap]
      have hf : (List.map val ∘ fun l : List Int => l.map fun n => fromGo (.int n : Num F)) =
          List.map fun k : Int => (k : Rat) := by
        funext l; simp [Function.comp, fromGo]
      rw [hf, ← intVal_cast s (h1 s (by simp)), ← intVal_cast e (h1 e (by simp))]
      have : st.map val = (st.map intVal).map fun k : Int => (k : Rat) := by
        cases st with
        | none => rfl
        | some w => simp [intVal_cast w (h1 w (by simp))]
      rw [this]; exact hspec
    · intro outs ho v hv
      generalize hr : rangeBuiltinInt (intVal s :: intVal e :: (Option.map intVal st).toList) = r at ho
      cases r with
      | ok L =>
        simp at ho; subst ho
        obtain ⟨n, hn, rfl⟩ := List.mem_map.1 hv
        exact ⟨rfl, rangeBuiltinInt_fits _ _ _ (fits s (by simp)) L hr n hn⟩
      | exc m => simp at ho
      | panic m => simp at ho
  | bigs h1 =>
    simp only [List.map_cons, map_toList_option]
    have hspec := (rangeBigNum_int (intVal s) (intVal e) (st.map intVal)).cast
    constructor
    · rw [resMap_resMap]
      have hf : (List.map val ∘ fun l : List Int => l.map fun n => fromGo (.big n : Num F)) =
          List.map fun k : Int => (k : Rat) := by
        funext l; simp only [Function.comp, List.map_map]
        apply List.map_congr_left; intro n _; exact (fromGo_big n).2
      rw [hf, ← intVal_cast s (h1 s (by simp)), ← intVal_cast e (h1 e (by simp))]
      have : st.map val = (st.map intVal).map fun k : Int => (k : Rat) := by
        cases st with
        | none => rfl
        | some w => simp [intVal_cast w (h1 w (by simp))]
      rw [this]; exact hspec
    · intro outs ho v hv
      generalize hr : rangeBigNum 0 1 (-1) fuelInt (intVal s :: intVal e :: (Option.map intVal st).toList) = r at ho
      cases r with
      | ok L =>
        simp at ho; subst ho
        obtain ⟨n, hn, rfl⟩ := List.mem_map.1 hv
        exact (fromGo_big n).1
      | exc m => simp at ho
      | panic m => simp at ho
  | rats =>
    simp only [List.map_cons, map_toList_option]
    have hspec := rangeBigNum_rat (val s) (val e) (st.map val)
    constructor
    · rw [resMap_resMap]
      have hf : (List.map val ∘ fun l : List Rat => l.map fun q => fromGo (.rat q : Num F)) = id := by
        funext l; simp only [Function.comp, List.map_map, id]
        conv => rhs; rw [← List.map_id l]
        apply List.map_congr_left; intro q _; exact (fromGo_rat q).2
      rw [hf]
      have : resMap id (rangeBigNum 0 1 (-1) fuelRat (val s :: val e :: (Option.map val st).toList)) =
          rangeBigNum 0 1 (-1) fuelRat (val s :: val e :: (Option.map val st).toList) := by
        cases rangeBigNum 0 1 (-1) fuelRat (val s :: val e :: (Option.map val st).toList) <;> rfl
      rw [this]; exact hspec
    · intro outs ho v hv
      generalize hr : rangeBigNum 0 1 (-1) fuelRat (val s :: val e :: (Option.map val st).toList) = r at ho
      cases r with
      | ok L =>
        simp at ho; subst ho
        obtain ⟨n, hn, rfl⟩ := List.mem_map.1 hv
        exact (fromGo_rat n).1
      | exc m => simp at ho
      | panic m => simp at ho

end C11
