/-
C21 helper lemmas, part 5: the acceptor accepts what the interpreter logs —
statements, statement sequences, function calls (induction on the fuel).
-/
import ElvProofs.C21.Accept1
namespace C21
open Go

@[simp] theorem absS_store (s : St) (l : List SEv) : (absS s l).store = s.store := rfl
@[simp] theorem absS_next (s : St) (l : List SEv) : (absS s l).next = s.next := rfl
@[simp] theorem absS_log (s : St) (l : List SEv) : (absS s l).log = l := rfl

theorem expect_sim (e : SEv) (s : St) (rest : List SEv) :
    expect e (absS s (e :: rest)) = some (absS s rest) := by
  simp [expect, absS]

/-- `scall` accepts every call of a lambda nested less than `d` deep. -/
def CallSim (call : Block → Bool → St → R)
    (scall : Nat → List Stmt → Bool → AS → Option (Outcome × AS)) (d : Nat) : Prop :=
  ∀ (k : Nat) (body : List Stmt) (isFn : Bool), depthL body < d → ∀ (s : St) (rest : List SEv),
    scall k body isFn (absS s (evS (call ⟨k, body⟩ isFn s).ev ++ rest)) =
      some ((call ⟨k, body⟩ isFn s).out, absS (call ⟨k, body⟩ isFn s).st rest)

theorem noCb_sim (b : Empty) : CbSim noCb noScb b := b.elim

/-- `with`: assignments, body (if they all succeeded), then every successful
assignment undone last first; verdict = failed assignment, else body, else
first failing restore. -/
theorem sWith_sim (c : Cfg) (groups : List Group) (body : St → R)
    (sbody : AS → Option (Outcome × AS))
    (hb : ∀ (s : St) (rest : List SEv),
      sbody (absS s (evS (body s).ev ++ rest)) = some ((body s).out, absS (body s).st rest))
    (s : St) (rest : List SEv) :
    ((sAssignGroups (β := Empty) c.kind groups (absS s (evS (withExec c groups body s).ev ++ rest))).bind fun r =>
      match r.1.1 with
      | some e => (sUndoAll c.kind noScb r.1.2 r.2).bind fun u => some ((some e, ([] : List (Item Block))), u.2)
      | none =>
        (sbody r.2).bind fun b =>
        (sUndoAll c.kind noScb r.1.2 b.2).bind fun u => some ((firstFail b.1 u.1, []), u.2)) =
    some (((withExec c groups body s).out, []), absS (withExec c groups body s).st rest) := by
  rw [withExec_eq]
  simp only [withMid]
  cases ho : (assignGroups c groups s : AR Empty).out with
  | some e =>
    have h1 := sAssignGroups_sim (β := Empty) c groups s
      (evS (runSeq c noCb (assignGroups c groups s : AR Empty).items.reverse
        (assignGroups c groups s : AR Empty).st (some e)).ev ++ rest)
    have h2 := sUndoAll_sim c noCb noScb (assignGroups c groups s : AR Empty).items
      (fun b _ => noCb_sim b) (assignGroups c groups s : AR Empty).st (some e) rest
    rw [ho] at h1
    simp [h1, h2, List.append_assoc, runSeq_out, keepFirst_some]
  | none =>
    have h1 := sAssignGroups_sim (β := Empty) c groups s
      (evS (body (assignGroups c groups s : AR Empty).st).ev ++
        (evS (runSeq c noCb (assignGroups c groups s : AR Empty).items.reverse
          (body (assignGroups c groups s : AR Empty).st).st
          (body (assignGroups c groups s : AR Empty).st).out).ev ++ rest))
    have h2 := hb (assignGroups c groups s : AR Empty).st
      (evS (runSeq c noCb (assignGroups c groups s : AR Empty).items.reverse
          (body (assignGroups c groups s : AR Empty).st).st
          (body (assignGroups c groups s : AR Empty).st).out).ev ++ rest)
    have h3 := sUndoAll_sim c noCb noScb (assignGroups c groups s : AR Empty).items
      (fun b _ => noCb_sim b) (body (assignGroups c groups s : AR Empty).st).st
      (body (assignGroups c groups s : AR Empty).st).out rest
    rw [ho] at h1
    simp [h1, h2, h3, List.append_assoc, runSeq_out, keepFirst_none, firstFail_eq_keepFirst]

theorem execStmt_sim (c : Cfg) (call : Block → Bool → St → R)
    (scall : Nat → List Stmt → Bool → AS → Option (Outcome × AS)) (d g : Nat)
    (hc : CallSim call scall d) (st : Stmt) (hd : st.depth ≤ d) (s : St) (rest : List SEv) :
    sStmt c.kind scall g st (absS s (evS (execStmt c call g st s).ev ++ rest)) =
      some (((execStmt c call g st s).out, (execStmt c call g st s).items),
            absS (execStmt c call g st s).st rest) := by
  cases st with
  | mark k => simp [execStmt, sStmt, Event.toS, expect_sim]
  | peek k x => simp [execStmt, sStmt, Event.toS, expect_sim]
  | asg k tmp grp =>
    simp only [execStmt, sStmt, evS_cons, List.cons_append, Event.toS, expect_sim, Option.bind_some]
    exact sDoAssign_sim c tmp grp s rest
  | withS k groups body =>
    have hb : depthL body < d := by simp only [Stmt.depth] at hd; omega
    simp only [execStmt, sStmt, BodyR.ofR, evS_cons, evS_append, evS_nil, List.cons_append,
      List.nil_append, Event.toS, expect_sim, Option.bind_some]
    exact sWith_sim c groups (call ⟨k, body⟩ false) (scall k body false)
      (fun s rest => hc k body false hb s rest) s rest
  | deferS k body => simp [execStmt, sStmt, Event.toS, expect_sim]
  | fail k n => simp [execStmt, sStmt, Event.toS, expect_sim]
  | brk k => simp [execStmt, sStmt, Event.toS, expect_sim]
  | cont k => simp [execStmt, sStmt, Event.toS, expect_sim]
  | ret k => simp [execStmt, sStmt, Event.toS, expect_sim]
  | call k isFn body =>
    have hb : depthL body < d := by simp only [Stmt.depth] at hd; omega
    simp [execStmt, sStmt, BodyR.ofR, Event.toS, expect_sim, hc k body isFn hb s rest]
  | forS k n body =>
    have hb : depthL body < d := by simp only [Stmt.depth] at hd; omega
    have := sLoop_sim (call ⟨k, body⟩ false) (scall k body false)
      (fun s rest => hc k body false hb s rest) n s rest
    simp [execStmt, sStmt, BodyR.ofR, Event.toS, expect_sim, this]
  | tryS k body =>
    have hb : depthL body < d := by simp only [Stmt.depth] at hd; omega
    have := hc k body false hb s (SEv.caught g k (call ⟨k, body⟩ false s).out :: rest)
    simp [execStmt, sStmt, Event.toS, expect_sim, this]
  | ifS k sel body =>
    have hb : depthL body < d := by simp only [Stmt.depth] at hd; omega
    by_cases hs : sel ≤ 2
    · simp [execStmt, sStmt, BodyR.ofR, Event.toS, expect_sim, hs, hc k body false hb s rest]
    · simp [execStmt, sStmt, Event.toS, expect_sim, hs]
  | whileS k n body =>
    have hb : depthL body < d := by simp only [Stmt.depth] at hd; omega
    have := sLoop_sim (call ⟨k, body⟩ false) (scall k body false)
      (fun s rest => hc k body false hb s rest) n s rest
    simp [execStmt, sStmt, BodyR.ofR, Event.toS, expect_sim, this]

/-- Callbacks a statement registers are nested less deep than the statement. -/
theorem execStmt_items_depth (c : Cfg) (call : Block → Bool → St → R) (g : Nat) (st : Stmt) (s : St)
    (d : Nat) (hd : st.depth ≤ d) :
    ∀ b, Item.cb b ∈ (execStmt c call g st s).items → depthL b.body < d := by
  intro b hb
  cases st with
  | asg k tmp grp =>
    simp only [execStmt] at hb
    obtain ⟨y, hy⟩ := doAssign_heads c tmp grp s _ hb
    simp [Item.head] at hy
  | deferS k body =>
    simp only [execStmt, List.mem_singleton, Item.cb.injEq] at hb
    subst hb
    simp only [Stmt.depth] at hd
    show depthL body < d
    omega
  | ifS k sel body =>
    simp only [execStmt] at hb
    split at hb <;> simp [BodyR.ofR] at hb
  | _ => simp [execStmt, BodyR.ofR] at hb

theorem execStmts_sim (c : Cfg) (call : Block → Bool → St → R)
    (scall : Nat → List Stmt → Bool → AS → Option (Outcome × AS)) (d g : Nat)
    (hc : CallSim call scall d) (sts : List Stmt) :
    depthL sts ≤ d → ∀ (s : St) (rest : List SEv),
    sStmts c.kind scall g sts (absS s (evS (execStmts c call g sts s).ev ++ rest)) =
      some (((execStmts c call g sts s).out, (execStmts c call g sts s).items),
            absS (execStmts c call g sts s).st rest) := by
  induction sts with
  | nil => intro _ s rest; simp [execStmts, sStmts]
  | cons st tl ih =>
    intro hd s rest
    have hd1 : st.depth ≤ d := by simp only [depthL] at hd; omega
    have hd2 : depthL tl ≤ d := by simp only [depthL] at hd; omega
    simp only [execStmts, sStmts]
    cases ho : (execStmt c call g st s).out with
    | some e =>
      have h1 := execStmt_sim c call scall d g hc st hd1 s rest
      rw [ho] at h1
      simp [h1, ho]
    | none =>
      have h1 := execStmt_sim c call scall d g hc st hd1 s
        (evS (execStmts c call g tl (execStmt c call g st s).st).ev ++ rest)
      rw [ho] at h1
      simp [h1, ih hd2, List.append_assoc]

theorem execStmts_items_depth (c : Cfg) (call : Block → Bool → St → R) (g : Nat) (d : Nat)
    (sts : List Stmt) : depthL sts ≤ d → ∀ (s : St),
    ∀ b, Item.cb b ∈ (execStmts c call g sts s).items → depthL b.body < d := by
  induction sts with
  | nil => intro _ s b hb; simp [execStmts] at hb
  | cons st tl ih =>
    intro hd s b hb
    have hd1 : st.depth ≤ d := by simp only [depthL] at hd; omega
    have hd2 : depthL tl ≤ d := by simp only [depthL] at hd; omega
    simp only [execStmts] at hb
    split at hb
    · exact execStmt_items_depth c call g st s d hd1 b hb
    · simp only [List.mem_append] at hb
      rcases hb with hb | hb
      · exact execStmt_items_depth c call g st s d hd1 b hb
      · exact ih hd2 _ b hb

/-- The acceptor accepts every call the interpreter makes (fuel above the
nesting depth): it consumes exactly the call's log and predicts the reported
exception and the store. -/
theorem callBlock_sim (c : Cfg) (f : Nat) : CallSim (callBlock c f) (sCall c.kind f) f := by
  induction f with
  | zero => intro k body isFn h; omega
  | succ f ih =>
    intro k body isFn hd s rest
    have hd' : depthL body ≤ f := by omega
    show sCall c.kind (f + 1) k body isFn _ = _
    rw [show callBlock c (f + 1) ⟨k, body⟩ isFn s =
      closureCall c (fun cb s => callBlock c f cb false s) isFn (blockBody c (callBlock c f) ⟨k, body⟩) s from rfl,
      closureCall_eq]
    have hitems := execStmts_items_depth c (callBlock c f) s.next f body hd' { s with next := s.next + 1 }
    have h1 := execStmts_sim c (callBlock c f) (sCall c.kind f) f s.next ih body hd'
      { s with next := s.next + 1 }
    have h2 := sUndoAll_sim c (fun cb s => callBlock c f cb false s)
      (fun (b : Block) => sCall c.kind f b.k b.body false)
      (execStmts c (callBlock c f) s.next body { s with next := s.next + 1 }).items
      (fun b hb s rest => ih b.k b.body false (hitems b hb) s rest)
      (execStmts c (callBlock c f) s.next body { s with next := s.next + 1 }).st none rest
    simp only [blockBody, sCall, absS_next, evS_cons, evS_append, List.cons_append, List.append_assoc,
      Event.toS, expect_sim, Option.bind_some]
    have h1' := h1 (evS (runSeq c (fun cb s => callBlock c f cb false s)
        (execStmts c (callBlock c f) s.next body { s with next := s.next + 1 }).items.reverse
        (execStmts c (callBlock c f) s.next body { s with next := s.next + 1 }).st none).ev ++ rest)
    simp only [absS] at h1' h2 ⊢
    simp only [h1', h2, Option.bind_some, firstFail_eq_keepFirst, fnWrap]

end C21
