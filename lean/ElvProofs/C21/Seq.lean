/-
C21 helper lemmas, part 1: the Go index loop `for i := n-1; i >= 0; i--` of
Frame.runDefers / withOp.exec is "every function once, last first".
-/
import ElvModel.C21.Model
namespace C21

variable {β : Type}

/-- Specification-level clean-up: run the items left to right, keep the first
exception (starting from `exc`). -/
def runSeq (c : Cfg) (runCb : β → St → R) : List (Item β) → St → Outcome → R
  | [], s, exc => ⟨s, [], exc⟩
  | f :: fs, s, exc =>
    let r := runItem c runCb f s
    let r2 := runSeq c runCb fs r.st (keepFirst exc r.out)
    ⟨r2.st, r.ev ++ r2.ev, r2.out⟩

/-- Outcome of each item, in execution order. -/
def seqOuts (c : Cfg) (runCb : β → St → R) : List (Item β) → St → List Outcome
  | [], _ => []
  | f :: fs, s =>
    let r := runItem c runCb f s
    r.out :: seqOuts c runCb fs r.st

/-- The first exception among outcomes in execution order. -/
def firstExc : List Outcome → Outcome
  | [] => none
  | some e :: _ => some e
  | none :: os => firstExc os

theorem keepFirst_none (o : Outcome) : keepFirst none o = o := rfl
theorem keepFirst_some (e : Cause) (o : Outcome) : keepFirst (some e) o = some e := rfl

theorem keepFirst_assoc (a b d : Outcome) : keepFirst (keepFirst a b) d = keepFirst a (keepFirst b d) := by
  cases a <;> simp [keepFirst]

theorem firstExc_cons (o : Outcome) (os : List Outcome) : firstExc (o :: os) = keepFirst o (firstExc os) := by
  cases o <;> simp [firstExc, keepFirst]

theorem take_succ_reverse {α : Type} (l : List α) (i : Nat) (a : α) (h : l[i]? = some a) :
    (l.take (i + 1)).reverse = a :: (l.take i).reverse := by
  rw [List.take_add_one, h]
  simp

theorem deferLoop_fst (c : Cfg) (runCb : β → St → R) (fs : List (Item β)) :
    ∀ (n : Nat) (s : St) (exc : Outcome), n ≤ fs.length →
      (deferLoop c runCb fs n s exc).1 = runSeq c runCb (fs.take n).reverse s exc := by
  intro n
  induction n with
  | zero => intro s exc _; simp [deferLoop, runSeq]
  | succ i ih =>
    intro s exc h
    have hi : i < fs.length := by omega
    have hget : fs[i]? = some fs[i] := List.getElem?_eq_getElem hi
    rw [take_succ_reverse fs i fs[i] hget]
    simp only [deferLoop, hget, runSeq]
    rw [← ih (runItem c runCb fs[i] s).st (keepFirst exc (runItem c runCb fs[i] s).out) (by omega)]

theorem deferLoop_trace (c : Cfg) (runCb : β → St → R) (fs : List (Item β)) :
    ∀ (n : Nat) (s : St) (exc : Outcome), n ≤ fs.length →
      (deferLoop c runCb fs n s exc).2 = (List.range n).reverse := by
  intro n
  induction n with
  | zero => intro s exc _; simp [deferLoop]
  | succ i ih =>
    intro s exc h
    have hi : i < fs.length := by omega
    have hget : fs[i]? = some fs[i] := List.getElem?_eq_getElem hi
    simp only [deferLoop, hget]
    rw [ih _ _ (by omega), List.range_succ]
    simp

theorem count_range (n i : Nat) : (List.range n).count i = if i < n then 1 else 0 := by
  induction n with
  | zero => simp
  | succ n ih =>
    rw [List.range_succ, List.count_append, ih]
    by_cases h : i < n
    · have : n ≠ i := by omega
      simp [h, this]; omega
    · by_cases h2 : i = n
      · subst h2; simp
      · have : ¬ i < n + 1 := by omega
        have h3 : n ≠ i := fun h => h2 h.symm
        simp [h, this, h3]

theorem runSeq_append (c : Cfg) (runCb : β → St → R) (a b : List (Item β)) :
    ∀ (s : St) (exc : Outcome),
      runSeq c runCb (a ++ b) s exc =
        (let r := runSeq c runCb a s exc
         let r2 := runSeq c runCb b r.st r.out
         ⟨r2.st, r.ev ++ r2.ev, r2.out⟩) := by
  induction a with
  | nil => intro s exc; simp [runSeq]
  | cons f a ih => intro s exc; simp [runSeq, ih, List.append_assoc]

theorem runSeq_out (c : Cfg) (runCb : β → St → R) (fs : List (Item β)) :
    ∀ (s : St) (exc : Outcome),
      (runSeq c runCb fs s exc).out = keepFirst exc (firstExc (seqOuts c runCb fs s)) := by
  induction fs with
  | nil => intro s exc; cases exc <;> simp [runSeq, seqOuts, firstExc, keepFirst]
  | cons f fs ih =>
    intro s exc
    simp only [runSeq, seqOuts, ih, firstExc_cons, keepFirst_assoc]

/-- The state and events of the clean-up do not depend on the exception so far. -/
theorem runSeq_st_ev (c : Cfg) (runCb : β → St → R) (fs : List (Item β)) :
    ∀ (s : St) (e1 e2 : Outcome),
      (runSeq c runCb fs s e1).st = (runSeq c runCb fs s e2).st ∧
      (runSeq c runCb fs s e1).ev = (runSeq c runCb fs s e2).ev := by
  induction fs with
  | nil => intro s e1 e2; simp [runSeq]
  | cons f fs ih =>
    intro s e1 e2
    simp only [runSeq]
    have := ih (runItem c runCb f s).st (keepFirst e1 (runItem c runCb f s).out)
      (keepFirst e2 (runItem c runCb f s).out)
    exact ⟨this.1, by rw [this.2]⟩

end C21
