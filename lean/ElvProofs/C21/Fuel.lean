/-
C21 helper lemmas, part 6: the interpreter's fuel (nesting depth of lambdas)
is never exhausted when it exceeds the static nesting depth of the program —
the sticky out-of-fuel flag `St.oof` is only ever set by `callBlock` at fuel 0.
Also: one restore per assigned lvalue.
-/
import ElvModel.C21.Model
import ElvProofs.C21.Seq
import ElvProofs.C21.Store
import ElvProofs.C21.Assign
namespace C21

variable {β : Type}

theorem varSet_oof (c : Cfg) (x : VarId) (v : Val) (s : St) : (varSet c x v s).st.oof = s.oof := by
  unfold varSet
  by_cases hl : (c.kind x).isLogged = true
  · by_cases hf : c.fails x (s.cnt x) = true <;> simp [hl, hf]
  · simp [hl]

theorem varUnset_oof (c : Cfg) (x : VarId) (s : St) : (varUnset c x s).st.oof = s.oof := by
  unfold varUnset
  by_cases hl : (c.kind x).isLogged = true
  · by_cases hf : c.fails x (s.cnt x) = true <;> simp [hl, hf]
  · simp [hl]

theorem refSet_oof (c : Cfg) (l : LV) (v : Val) (s : St) : (refSet c l v s).st.oof = s.oof := by
  cases l with
  | var x => exact varSet_oof c x v s
  | elem x k ks =>
    simp only [refSet]
    split
    · rfl
    · rfl
    · exact varSet_oof c x _ s

theorem assignLoop_oof (c : Cfg) (collect : Bool) (pairs : List (LV × Val)) :
    ∀ s, (assignLoop c collect pairs s : AR β).st.oof = s.oof := by
  induction pairs with
  | nil => intro s; rfl
  | cons p tl ih =>
    intro s
    obtain ⟨l, v⟩ := p
    simp only [assignLoop]
    split
    · exact refSet_oof c l v s
    · rw [ih]; exact refSet_oof c l v s

theorem doAssign_oof (c : Cfg) (collect : Bool) (g : Group) (s : St) :
    (doAssign c collect g s : AR β).st.oof = s.oof := by
  rcases doAssign_cases (β := β) c collect g s with ⟨e, he⟩ | ⟨vs, _, he⟩
  · rw [he]
  · rw [he]; exact assignLoop_oof c collect _ s

theorem assignGroups_oof (c : Cfg) (groups : List Group) :
    ∀ s, (assignGroups c groups s : AR β).st.oof = s.oof := by
  induction groups with
  | nil => intro s; rfl
  | cons g tl ih =>
    intro s
    simp only [assignGroups]
    split
    · exact doAssign_oof c true g s
    · rw [ih]; exact doAssign_oof c true g s

theorem runItem_oof (c : Cfg) (runCb : β → St → R) (it : Item β)
    (hcb : ∀ b, it = .cb b → ∀ s, (runCb b s).st.oof = s.oof) (s : St) :
    (runItem c runCb it s).st.oof = s.oof := by
  cases it with
  | restore x v => exact varSet_oof c x v s
  | unset x => exact varUnset_oof c x s
  | cb b => exact hcb b rfl s

theorem runSeq_oof (c : Cfg) (runCb : β → St → R) (items : List (Item β))
    (hcb : ∀ b, Item.cb b ∈ items → ∀ s, (runCb b s).st.oof = s.oof) :
    ∀ s exc, (runSeq c runCb items s exc).st.oof = s.oof := by
  induction items with
  | nil => intro s exc; rfl
  | cons it tl ih =>
    intro s exc
    simp only [runSeq]
    rw [ih (fun b hb => hcb b (List.mem_cons_of_mem _ hb))]
    exact runItem_oof c runCb it (fun b hb => hcb b (by simp [hb])) s

theorem forLoop_oof (call : St → R) (h : ∀ s, (call s).st.oof = s.oof) :
    ∀ n s, (forLoop call n s).st.oof = s.oof := by
  intro n
  induction n with
  | zero => intro s; rfl
  | succ n ih =>
    intro s
    simp only [forLoop]
    split
    · exact h s
    · rw [ih]; exact h s
    · rw [ih]; exact h s
    · exact h s

theorem withExec_oof (c : Cfg) (groups : List Group) (body : St → R)
    (h : ∀ s, (body s).st.oof = s.oof) (s : St) : (withExec c groups body s).st.oof = s.oof := by
  rw [withExec_eq]
  simp only []
  rw [runSeq_oof c noCb _ (fun b _ => b.elim)]
  unfold withMid
  simp only []
  split
  · exact assignGroups_oof c groups s
  · rw [h]; exact assignGroups_oof c groups s

/-- `call` never runs out of fuel on lambdas nested less than `d` deep. -/
def CallOof (call : Block → Bool → St → R) (d : Nat) : Prop :=
  ∀ (k : Nat) (body : List Stmt) (isFn : Bool), depthL body < d →
    ∀ s, (call ⟨k, body⟩ isFn s).st.oof = s.oof

theorem execStmt_oof (c : Cfg) (call : Block → Bool → St → R) (d g : Nat) (hc : CallOof call d)
    (st : Stmt) (hd : st.depth ≤ d) (s : St) : (execStmt c call g st s).st.oof = s.oof := by
  cases st with
  | asg k tmp grp => exact doAssign_oof c tmp grp s
  | withS k groups body =>
    have hb : depthL body < d := by simp only [Stmt.depth] at hd; omega
    exact withExec_oof c groups _ (hc k body false hb) s
  | call k isFn body =>
    have hb : depthL body < d := by simp only [Stmt.depth] at hd; omega
    exact hc k body isFn hb s
  | forS k n body =>
    have hb : depthL body < d := by simp only [Stmt.depth] at hd; omega
    exact forLoop_oof _ (hc k body false hb) n s
  | whileS k n body =>
    have hb : depthL body < d := by simp only [Stmt.depth] at hd; omega
    exact forLoop_oof _ (hc k body false hb) n s
  | tryS k body =>
    have hb : depthL body < d := by simp only [Stmt.depth] at hd; omega
    exact hc k body false hb s
  | ifS k sel body =>
    have hb : depthL body < d := by simp only [Stmt.depth] at hd; omega
    simp only [execStmt]
    split
    · exact hc k body false hb s
    · rfl
  | _ => rfl

theorem execStmts_oof (c : Cfg) (call : Block → Bool → St → R) (d g : Nat) (hc : CallOof call d)
    (sts : List Stmt) : depthL sts ≤ d → ∀ s, (execStmts c call g sts s).st.oof = s.oof := by
  induction sts with
  | nil => intro _ s; rfl
  | cons st tl ih =>
    intro hd s
    have hd1 : st.depth ≤ d := by simp only [depthL] at hd; omega
    have hd2 : depthL tl ≤ d := by simp only [depthL] at hd; omega
    simp only [execStmts]
    split
    · exact execStmt_oof c call d g hc st hd1 s
    · rw [ih hd2]; exact execStmt_oof c call d g hc st hd1 s

/-- Depth of the callbacks in a list of items. -/
def ItemsBelow (items : List (Item Block)) (d : Nat) : Prop :=
  ∀ b, Item.cb b ∈ items → depthL b.body < d

theorem execStmt_items_below (c : Cfg) (call : Block → Bool → St → R) (g : Nat) (st : Stmt) (s : St)
    (d : Nat) (hd : st.depth ≤ d) : ItemsBelow (execStmt c call g st s).items d := by
  intro b hb
  cases st with
  | asg k tmp grp =>
    simp only [execStmt] at hb
    obtain ⟨y, hy⟩ := doAssign_heads c tmp grp s _ hb
    simp [Item.head] at hy
  | deferS k body =>
    simp only [execStmt, List.mem_singleton, Item.cb.injEq] at hb
    subst hb
    simp only [Stmt.depth] at hd
    show depthL body < d
    omega
  | ifS k sel body =>
    simp only [execStmt] at hb
    split at hb <;> simp [BodyR.ofR] at hb
  | _ => simp [execStmt, BodyR.ofR] at hb

theorem execStmts_items_below (c : Cfg) (call : Block → Bool → St → R) (g : Nat) (d : Nat)
    (sts : List Stmt) : depthL sts ≤ d → ∀ (s : St), ItemsBelow (execStmts c call g sts s).items d := by
  induction sts with
  | nil => intro _ s b hb; simp [execStmts] at hb
  | cons st tl ih =>
    intro hd s b hb
    have hd1 : st.depth ≤ d := by simp only [depthL] at hd; omega
    have hd2 : depthL tl ≤ d := by simp only [depthL] at hd; omega
    simp only [execStmts] at hb
    split at hb
    · exact execStmt_items_below c call g st s d hd1 b hb
    · simp only [List.mem_append] at hb
      rcases hb with hb | hb
      · exact execStmt_items_below c call g st s d hd1 b hb
      · exact ih hd2 _ b hb

theorem callBlock_oof (c : Cfg) (f : Nat) : CallOof (callBlock c f) f := by
  induction f with
  | zero => intro k body isFn h; omega
  | succ f ih =>
    intro k body isFn hd s
    have hd' : depthL body ≤ f := by omega
    rw [show callBlock c (f + 1) ⟨k, body⟩ isFn s =
      closureCall c (fun cb s => callBlock c f cb false s) isFn (blockBody c (callBlock c f) ⟨k, body⟩) s from rfl,
      closureCall_eq]
    simp only [blockBody]
    rw [runSeq_oof c _ _ (fun b hb s' => ih b.k b.body false
        (execStmts_items_below c (callBlock c f) s.next f body hd' { s with next := s.next + 1 } b
          (List.mem_reverse.mp hb)) s'),
      execStmts_oof c (callBlock c f) f s.next ih body hd']

/-! ### one restore per lvalue -/

theorem assignLoop_items_heads (c : Cfg) (pairs : List (LV × Val)) :
    ∀ s, (assignLoop c true pairs s : AR β).out = none →
      (assignLoop c true pairs s : AR β).items.map Item.head = pairs.map fun p => some p.1.head := by
  induction pairs with
  | nil => intro s _; rfl
  | cons p tl ih =>
    intro s h
    obtain ⟨l, v⟩ := p
    simp only [assignLoop] at h ⊢
    split
    · rename_i e he; simp [he] at h
    · rename_i he
      simp only [he] at h
      simp [ih _ h, save_head]

/-- Length of what `restValues` hands out: one value per variable (the rest
position must be one of the lvalues — `lhs.rest < len(lhs.lvalues)`). -/
theorem restValues_length (nv : Nat) (rest : Option Nat) (vs vs' : List Val)
    (hr : ∀ r, rest = some r → r < nv) (h : restValues nv rest vs = some vs') : vs'.length = nv := by
  cases rest with
  | none =>
    simp only [restValues] at h
    split at h
    · cases h
    · rename_i hn
      simp only [Option.some.injEq] at h
      subst h
      simp at hn
      omega
  | some r =>
    have := hr r rfl
    simp only [restValues] at h
    split at h
    · cases h
    · simp only [Option.some.injEq] at h
      subst h
      simp only [List.length_append, List.length_take, List.length_drop, List.length_cons, List.length_nil]
      omega

/-- A group as the compiler builds it: the rest position is one of the lvalues. -/
def Group.WF (g : Group) : Prop := ∀ r, g.rest = some r → r < g.lvs.length

theorem doAssign_items_heads (c : Cfg) (g : Group) (s : St) (hwf : g.WF)
    (h : (doAssign c true g s : AR β).out = none) :
    (doAssign c true g s : AR β).items.map Item.head = g.lvs.map fun l => some l.head := by
  rcases doAssign_cases (β := β) c true g s with ⟨e, he⟩ | ⟨vs, hv, he⟩
  · rw [he] at h; cases h
  · rw [he] at h ⊢
    rw [assignLoop_items_heads c _ s h]
    have hl := restValues_length _ _ _ _ hwf hv
    have : (g.lvs.zip vs).map (fun p => some p.1.head) =
        ((g.lvs.zip vs).map Prod.fst).map (fun l => some l.head) := by
      simp [List.map_map, Function.comp_def]
    rw [this, List.map_fst_zip (by omega)]

theorem assignGroups_items_heads (c : Cfg) (groups : List Group) (hwf : ∀ g ∈ groups, g.WF) :
    ∀ s, (assignGroups c groups s : AR β).out = none →
      (assignGroups c groups s : AR β).items.map Item.head =
        (groups.flatMap (·.lvs)).map fun l => some l.head := by
  induction groups with
  | nil => intro s _; rfl
  | cons g tl ih =>
    intro s h
    simp only [assignGroups] at h ⊢
    split
    · rename_i e he; simp [he] at h
    · rename_i he
      simp only [he] at h
      simp only [List.map_append, List.flatMap_cons]
      rw [doAssign_items_heads c g s (hwf g (by simp)) he,
        ih (fun g' hg => hwf g' (List.mem_cons_of_mem _ hg)) _ h]

theorem filterMap_loggedHead (c : Cfg) (items : List (Item β)) :
    ∀ (L : List VarId), items.map Item.head = L.map some →
      items.filterMap (loggedHead c) = L.filter fun x => (c.kind x).isLogged := by
  induction items with
  | nil => intro L h; cases L <;> simp_all
  | cons it tl ih =>
    intro L h
    cases L with
    | nil => simp at h
    | cons x L =>
      simp only [List.map_cons, List.cons.injEq] at h
      simp only [List.filterMap_cons, loggedHead, h.1, List.filter_cons]
      by_cases hl : (c.kind x).isLogged = true <;> simp [hl, ih L h.2]

end C21
