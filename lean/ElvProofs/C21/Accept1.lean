/-
C21 helper lemmas, part 4: the model's log is accepted by the acceptor of
ElvModel/C21/Spec.lean — assignments, clean-up lists, loops.

Every lemma has the same shape: the spec function, started on the text of the
events the model function emitted (followed by anything), with the model's
store and frame counter, consumes exactly those events, predicts the model's
result and ends with the model's store.
-/
import ElvModel.C21.Model
import ElvModel.C21.Show
import ElvModel.C21.Spec
import ElvProofs.C14.Basic
import ElvProofs.C14.NoPanic
import ElvProofs.C21.Seq
import ElvProofs.C21.Store
import ElvProofs.C21.Assign
namespace C21
open Go

variable {β : Type}

/-- The acceptor's view of a model state, with `log` still to read. -/
def absS (s : St) (log : List SEv) : AS := ⟨log, s.store, s.next⟩

/-- Text of a model log. -/
def evS (ev : List Event) : List SEv := ev.map Event.toS

@[simp] theorem evS_nil : evS [] = [] := rfl
@[simp] theorem evS_append (a b : List Event) : evS (a ++ b) = evS a ++ evS b := by simp [evS]
@[simp] theorem evS_cons (e : Event) (a : List Event) : evS (e :: a) = e.toS :: evS a := rfl

theorem firstFail_eq_keepFirst (a b : Outcome) : firstFail a b = keepFirst a b := rfl

theorem sVarSet_sim (c : Cfg) (x : VarId) (v : Val) (s : St) (rest : List SEv) :
    sVarSet c.kind x v (absS s (evS (varSet c x v s).ev ++ rest)) =
      some ((varSet c x v s).ok, absS (varSet c x v s).st rest) := by
  unfold varSet sVarSet absS
  by_cases hl : (c.kind x).isLogged = true
  · by_cases hf : c.fails x (s.cnt x) = true
    · simp [hl, hf, Event.toS]
    · simp [hl, hf, Event.toS]
  · simp [hl]

theorem sVarUnset_sim (c : Cfg) (x : VarId) (s : St) (rest : List SEv) :
    sVarUnset c.kind x (absS s (evS (varUnset c x s).ev ++ rest)) =
      some ((varUnset c x s).ok, absS (varUnset c x s).st rest) := by
  unfold varUnset sVarUnset absS
  by_cases hl : (c.kind x).isLogged = true
  · by_cases hf : c.fails x (s.cnt x) = true
    · simp [hl, hf, Event.toS]
    · simp [hl, hf, Event.toS]
  · simp [hl]

/-! ### index chains: `elemAssocers` succeeds iff all but the last index can be looked up -/

theorem assocers_ok_iff (ks : List Key) : ∀ (k : Key) (cur : Val),
    (∃ r, C14.assocers cur (k :: ks) = .ok r) ↔
    (∃ r, C14.indexPath cur (k :: ks).dropLast = .ok r) := by
  induction ks with
  | nil => intro k cur; simp [C14.assocers, C14.indexPath, pure, List.dropLast]
  | cons k2 rest ih =>
    intro k cur
    rw [C14.assocers, List.dropLast_cons₂, C14.indexPath]
    cases hi : C14.index cur k with
    | panic w => simp [bind, Res.bind]
    | exc e => simp [bind, Res.bind]
    | ok sub =>
      have := ih k2 sub
      simp only [bind, Res.bind]
      constructor
      · rintro ⟨r, hr⟩
        apply this.mp
        cases ha : C14.assocers sub (k2 :: rest) with
        | ok r' => exact ⟨r', rfl⟩
        | exc e => rw [ha] at hr; simp [pure] at hr
        | panic w => rw [ha] at hr; simp [pure] at hr
      · intro h
        obtain ⟨r', hr'⟩ := this.mpr h
        exact ⟨cur :: r', by rw [hr']; rfl⟩

theorem deref_none_iff (s : St) (l : LV) : deref s l = none ↔ pathOk s.store l = true := by
  cases l with
  | var x => simp [deref, pathOk]
  | elem x k ks =>
    have h := assocers_ok_iff ks k (curVal (s.store x))
    simp only [deref, pathOk]
    cases ha : C14.assocers (curVal (s.store x)) (k :: ks) with
    | ok r =>
      obtain ⟨r', hr'⟩ := h.mp ⟨r, ha⟩
      simp [hr']
    | exc e =>
      cases hp : C14.indexPath (curVal (s.store x)) (k :: ks).dropLast with
      | ok r' =>
        obtain ⟨r, hr⟩ := h.mpr ⟨r', hp⟩
        rw [ha] at hr; cases hr
      | exc e' => simp
      | panic w => simp
    | panic w => exact absurd ha (C14.assocers_no_panic (k :: ks) (by simp) _ w)

theorem deref_some (s : St) (l : LV) (e : Cause) (h : deref s l = some e) : e = .elemErr := by
  cases l with
  | var x => simp [deref] at h
  | elem x k ks =>
    simp only [deref] at h
    cases ha : C14.assocers (curVal (s.store x)) (k :: ks) with
    | ok r => rw [ha] at h; simp at h
    | exc m => rw [ha] at h; simpa using h.symm
    | panic w => exact absurd ha (C14.assocers_no_panic (k :: ks) (by simp) _ w)

theorem derefAll_none (s : St) (lvs : List LV) (h : derefAll s lvs = none) :
    lvs.all (pathOk s.store) = true := by
  induction lvs with
  | nil => rfl
  | cons l rest ih =>
    simp only [derefAll] at h
    cases hd : deref s l with
    | some e => rw [hd] at h; simp at h
    | none =>
      rw [hd] at h
      simp [List.all_cons, (deref_none_iff s l).mp hd, ih h]

theorem derefAll_some (s : St) (lvs : List LV) (e : Cause) (h : derefAll s lvs = some e) :
    e = .elemErr ∧ lvs.all (pathOk s.store) = false := by
  induction lvs with
  | nil => simp [derefAll] at h
  | cons l rest ih =>
    simp only [derefAll] at h
    cases hd : deref s l with
    | some e' =>
      rw [hd] at h
      simp only [Option.some.injEq] at h
      subst h
      refine ⟨deref_some s l e' hd, ?_⟩
      have : pathOk s.store l ≠ true := fun hp => by
        rw [(deref_none_iff s l).mpr hp] at hd; cases hd
      simp [List.all_cons, this]
    | none =>
      rw [hd] at h
      obtain ⟨h1, h2⟩ := ih h
      exact ⟨h1, by simp [List.all_cons, h2]⟩

/-! ### one Set through an lvalue -/

/-- `refSet` either fails in `vals.Index`/`vals.Assoc` before touching the
variable, or is a Set of the head variable to the nested assoc. -/
theorem refSet_cases (c : Cfg) (l : LV) (v : Val) (s : St) :
    (newContent (s.store l.head) l v = none ∧ refSet c l v s = ⟨s, [], some .elemErr⟩) ∨
    (∃ nv, newContent (s.store l.head) l v = some nv ∧
      refSet c l v s = ⟨(varSet c l.head nv s).st, (varSet c l.head nv s).ev,
        if (varSet c l.head nv s).ok then none else some (.setFail l.head)⟩) := by
  cases l with
  | var x => exact Or.inr ⟨v, rfl, rfl⟩
  | elem x k ks =>
    have he := C14.setElem_eq_assocIn (curVal (s.store x)) (k :: ks) v (by simp)
    cases ha : C14.setElem (curVal (s.store x)) (k :: ks) v with
    | exc m =>
      refine Or.inl ⟨?_, refSet_elem_exc c x k ks v s m ha⟩
      simp only [newContent, LV.head]
      rw [← he, ha]
    | panic w =>
      rw [he] at ha
      exact absurd ha (C14.assocIn_no_panic (k :: ks) _ v w)
    | ok nv =>
      refine Or.inr ⟨nv, ?_, refSet_elem_ok c x k ks v nv s ha⟩
      simp only [newContent, LV.head]
      rw [← he, ha]

theorem undoOf_eq_save (s : St) (x : VarId) : (undoOf s.store x : Item β) = save s x := rfl

theorem sAssignLoop_sim (c : Cfg) (collect : Bool) (pairs : List (LV × Val)) :
    ∀ (s : St) (rest : List SEv),
      sAssignLoop (β := β) c.kind collect pairs
          (absS s (evS (assignLoop c collect pairs s : AR β).ev ++ rest)) =
        some (((assignLoop c collect pairs s : AR β).out, (assignLoop c collect pairs s : AR β).items),
              absS (assignLoop c collect pairs s : AR β).st rest) := by
  induction pairs with
  | nil => intro s rest; simp [assignLoop, sAssignLoop]
  | cons p tl ih =>
    intro s rest
    obtain ⟨l, v⟩ := p
    rcases refSet_cases c l v s with ⟨hn, hr⟩ | ⟨nv, hn, hr⟩
    · simp only [assignLoop, sAssignLoop, hr]
      simp only [absS] at hn ⊢
      simp [hn]
    · simp only [assignLoop, sAssignLoop, hr]
      cases hk : (varSet c l.head nv s).ok with
      | false =>
        have := sVarSet_sim c l.head nv s rest
        rw [hk] at this
        simp only [absS] at this ⊢
        simp [hn, this]
      | true =>
        have := sVarSet_sim c l.head nv s
          (evS (assignLoop c collect tl (varSet c l.head nv s).st : AR β).ev ++ rest)
        rw [hk] at this
        have ih' := ih (varSet c l.head nv s).st rest
        simp only [absS] at this ih' ⊢
        simp [hn, this, ih', List.append_assoc, undoOf, save]
        rfl

theorem sDoAssign_sim (c : Cfg) (collect : Bool) (g : Group) (s : St) (rest : List SEv) :
    sDoAssign (β := β) c.kind collect g (absS s (evS (doAssign c collect g s : AR β).ev ++ rest)) =
      some (((doAssign c collect g s : AR β).out, (doAssign c collect g s : AR β).items),
            absS (doAssign c collect g s : AR β).st rest) := by
  rw [doAssign_eq]
  unfold sDoAssign
  cases hd : derefAll s g.lvs with
  | some e =>
    obtain ⟨he, hall⟩ := derefAll_some s g.lvs e hd
    subst he
    simp [absS, hall]
  | none =>
    have hall := derefAll_none s g.lvs hd
    cases hr : restValues g.lvs.length g.rest g.vs with
    | none => simp [absS, hall, hr]
    | some vs =>
      have := sAssignLoop_sim (β := β) c collect (g.lvs.zip vs) s rest
      simp only [absS] at this ⊢
      simp [hall, hr, this]

theorem sAssignGroups_sim (c : Cfg) (groups : List Group) :
    ∀ (s : St) (rest : List SEv),
      sAssignGroups (β := β) c.kind groups (absS s (evS (assignGroups c groups s : AR β).ev ++ rest)) =
        some (((assignGroups c groups s : AR β).out, (assignGroups c groups s : AR β).items),
              absS (assignGroups c groups s : AR β).st rest) := by
  induction groups with
  | nil => intro s rest; simp [assignGroups, sAssignGroups]
  | cons g tl ih =>
    intro s rest
    simp only [assignGroups, sAssignGroups]
    cases ho : (doAssign c true g s : AR β).out with
    | some e =>
      have := sDoAssign_sim (β := β) c true g s rest
      rw [ho] at this
      simp [this, ho]
    | none =>
      have := sDoAssign_sim (β := β) c true g s
        (evS (assignGroups c tl (doAssign c true g s : AR β).st : AR β).ev ++ rest)
      rw [ho] at this
      have ih' := ih (doAssign c true g s : AR β).st rest
      simp [this, ih', List.append_assoc]

/-! ### clean-up lists -/

/-- What it means that `scb` accepts what the callback `runCb b` does. -/
def CbSim (runCb : β → St → R) (scb : β → AS → Option (Outcome × AS)) (b : β) : Prop :=
  ∀ (s : St) (rest : List SEv),
    scb b (absS s (evS (runCb b s).ev ++ rest)) = some ((runCb b s).out, absS (runCb b s).st rest)

theorem sUndoItem_sim (c : Cfg) (runCb : β → St → R) (scb : β → AS → Option (Outcome × AS))
    (it : Item β) (hcb : ∀ b, it = .cb b → CbSim runCb scb b) (s : St) (rest : List SEv) :
    sUndoItem c.kind scb it (absS s (evS (runItem c runCb it s).ev ++ rest)) =
      some ((runItem c runCb it s).out, absS (runItem c runCb it s).st rest) := by
  cases it with
  | restore x v => simp [sUndoItem, runItem, sVarSet_sim]
  | unset x => simp [sUndoItem, runItem, sVarUnset_sim]
  | cb b => exact hcb b rfl s rest

theorem sUndoSeq_sim (c : Cfg) (runCb : β → St → R) (scb : β → AS → Option (Outcome × AS))
    (items : List (Item β)) (hcb : ∀ b, Item.cb b ∈ items → CbSim runCb scb b) :
    ∀ (s : St) (exc : Outcome) (rest : List SEv),
      sUndoSeq c.kind scb items (absS s (evS (runSeq c runCb items s exc).ev ++ rest)) =
        some (firstExc (seqOuts c runCb items s), absS (runSeq c runCb items s exc).st rest) := by
  induction items with
  | nil => intro s exc rest; simp [sUndoSeq, runSeq, seqOuts, firstExc]
  | cons it tl ih =>
    intro s exc rest
    have h1 := sUndoItem_sim c runCb scb it (fun b hb => hcb b (by simp [hb])) s
      (evS (runSeq c runCb tl (runItem c runCb it s).st (keepFirst exc (runItem c runCb it s).out)).ev ++ rest)
    have h2 := ih (fun b hb => hcb b (List.mem_cons_of_mem _ hb)) (runItem c runCb it s).st
      (keepFirst exc (runItem c runCb it s).out) rest
    simp only [sUndoSeq, runSeq, seqOuts, evS_append, List.append_assoc, h1, h2, firstExc_cons]
    rfl

/-- `sUndoAll` on what a function / a `with` collected is the model's reverse
run; the verdict is the first failure in execution order. -/
theorem sUndoAll_sim (c : Cfg) (runCb : β → St → R) (scb : β → AS → Option (Outcome × AS))
    (items : List (Item β)) (hcb : ∀ b, Item.cb b ∈ items → CbSim runCb scb b)
    (s : St) (exc : Outcome) (rest : List SEv) :
    sUndoAll c.kind scb items (absS s (evS (runSeq c runCb items.reverse s exc).ev ++ rest)) =
      some ((runSeq c runCb items.reverse s none).out, absS (runSeq c runCb items.reverse s exc).st rest) := by
  unfold sUndoAll
  rw [sUndoSeq_sim c runCb scb items.reverse (fun b hb => hcb b (List.mem_reverse.mp hb)) s exc rest,
    runSeq_out, keepFirst_none]

/-! ### loops -/

theorem sLoop_sim (call : St → R) (scall : AS → Option (Outcome × AS))
    (h : ∀ (s : St) (rest : List SEv),
      scall (absS s (evS (call s).ev ++ rest)) = some ((call s).out, absS (call s).st rest)) :
    ∀ (n : Nat) (s : St) (rest : List SEv),
      sLoop scall n (absS s (evS (forLoop call n s).ev ++ rest)) =
        some ((forLoop call n s).out, absS (forLoop call n s).st rest) := by
  intro n
  induction n with
  | zero => intro s rest; simp [sLoop, forLoop]
  | succ n ih =>
    intro s rest
    simp only [sLoop, forLoop]
    cases ho : (call s).out with
    | none =>
      have h1 := h s (evS (forLoop call n (call s).st).ev ++ rest)
      rw [ho] at h1
      simp [h1, ih, List.append_assoc]
    | some e =>
      cases e with
      | cont =>
        have h1 := h s (evS (forLoop call n (call s).st).ev ++ rest)
        rw [ho] at h1
        simp [h1, ih, List.append_assoc]
      | brk =>
        have h1 := h s rest
        rw [ho] at h1
        simp [h1]
      | _ =>
        have h1 := h s rest
        rw [ho] at h1
        simp [h1, ho]

end C21
