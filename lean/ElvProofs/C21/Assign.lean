/-
C21 helper lemmas, part 3: what assignments save, and the phases of `with`
and of a closure call.
-/
import ElvModel.C21.Model
import ElvProofs.C21.Seq
import ElvProofs.C21.Store
namespace C21

variable {β : Type}

/-- The first registered item acting on x. -/
def firstFor (x : VarId) (items : List (Item β)) : Option (Item β) :=
  items.find? (fun it => it.head == some x)

theorem save_head (s : St) (x : VarId) : (save s x : Item β).head = some x := by
  unfold save; split <;> rfl

theorem save_target (s : St) (x : VarId) : (save s x : Item β).target = s.store x := by
  unfold save; split <;> simp_all [Item.target]

theorem save_congr (s s' : St) (x : VarId) (h : s'.store x = s.store x) :
    (save s' x : Item β) = save s x := by
  unfold save; rw [h]

theorem varSet_fail_store (c : Cfg) (x : VarId) (v : Val) (s : St) (h : (varSet c x v s).ok = false) :
    (varSet c x v s).st.store = s.store := by
  unfold varSet at h ⊢
  by_cases hl : (c.kind x).isLogged = true
  · by_cases hf : c.fails x (s.cnt x) = true <;> simp_all
  · simp [hl] at h

theorem refSet_fail_store (c : Cfg) (r : LV) (v : Val) (s : St) (e : Cause)
    (h : (refSet c r v s).out = some e) : (refSet c r v s).st.store = s.store := by
  cases r with
  | var x =>
    simp only [refSet] at h ⊢
    cases hk : (varSet c x v s).ok
    · exact varSet_fail_store c x v s hk
    · simp [hk] at h
  | elem x k ks =>
    simp only [refSet] at h ⊢
    split
    · rfl
    · rfl
    · rename_i v' hv
      simp only [hv] at h
      cases hk : (varSet c x v' s).ok
      · exact varSet_fail_store c x v' s hk
      · simp [hk] at h

/-- Every item an assignment collects is a restore/unset of some variable. -/
theorem assignLoop_heads (c : Cfg) (collect : Bool) (pairs : List (LV × Val)) :
    ∀ (s : St), ∀ it ∈ (assignLoop c collect pairs s : AR β).items, ∃ y, it.head = some y := by
  induction pairs with
  | nil => intro s it h; simp [assignLoop] at h
  | cons p rest ih =>
    intro s it h
    obtain ⟨r, v⟩ := p
    simp only [assignLoop] at h
    split at h
    · simp at h
    · simp only [List.mem_append] at h
      rcases h with h | h
      · cases collect <;> simp at h
        subst h; exact ⟨_, save_head s r.head⟩
      · exact ih _ it h

/-- A variable no collected item is about keeps its content through the assignment. -/
theorem assignLoop_untouched (c : Cfg) (x : VarId) (pairs : List (LV × Val)) :
    ∀ (s : St), (∀ it ∈ (assignLoop c true pairs s : AR β).items, it.head ≠ some x) →
      (assignLoop c true pairs s : AR β).st.store x = s.store x := by
  induction pairs with
  | nil => intro s _; rfl
  | cons p rest ih =>
    intro s h
    obtain ⟨r, v⟩ := p
    simp only [assignLoop] at h ⊢
    split
    · rename_i e he
      rw [refSet_fail_store c r v s e he]
    · rename_i he
      simp only [he] at h
      have hne : x ≠ r.head := by
        intro hx
        have := h (save s r.head) (by simp)
        rw [save_head] at this
        exact this (by rw [hx])
      rw [ih (refSet c r v s).st (fun it hit => h it (by simp [hit]))]
      exact refSet_other c r v s x hne

/-- The first item an assignment collects for x saved x's content from before
the assignment. -/
theorem assignLoop_first (c : Cfg) (x : VarId) (pairs : List (LV × Val)) :
    ∀ (s : St) (it : Item β), firstFor x (assignLoop c true pairs s : AR β).items = some it →
      it = save s x := by
  induction pairs with
  | nil => intro s it h; simp [assignLoop, firstFor] at h
  | cons p rest ih =>
    intro s it h
    obtain ⟨r, v⟩ := p
    simp only [assignLoop] at h
    split at h
    · simp [firstFor] at h
    · simp only [firstFor, if_true, List.singleton_append, List.find?_cons] at h
      by_cases hx : r.head = x
      · subst hx
        simp [save_head] at h
        exact h.symm
      · have hne : ((save s r.head : Item β).head == some x) = false := by
          simp [save_head, hx]
        rw [hne] at h
        have := ih (refSet c r v s).st it h
        rw [this]
        exact save_congr _ _ _ (refSet_other c r v s x (fun h => hx h.symm))

theorem doAssign_eq (c : Cfg) (collect : Bool) (g : Group) (s : St) :
    (doAssign c collect g s : AR β) =
      match derefAll s g.lvs with
      | some e => ⟨s, [], [], some e⟩
      | none =>
        match restValues g.lvs.length g.rest g.vs with
        | none => ⟨s, [], [], some .arity⟩
        | some vs => assignLoop c collect (g.lvs.zip vs) s := rfl

/-- `doAssign` either stops before the first Set (bad index chain, arity) with
nothing changed, logged or collected, or is the loop over lvalue/value pairs. -/
theorem doAssign_cases (c : Cfg) (collect : Bool) (g : Group) (s : St) :
    (∃ e, (doAssign c collect g s : AR β) = ⟨s, [], [], some e⟩) ∨
    (∃ vs, restValues g.lvs.length g.rest g.vs = some vs ∧
      (doAssign c collect g s : AR β) = assignLoop c collect (g.lvs.zip vs) s) := by
  rw [doAssign_eq]
  cases derefAll s g.lvs with
  | some e => exact Or.inl ⟨e, rfl⟩
  | none =>
    cases hr : restValues g.lvs.length g.rest g.vs with
    | none => exact Or.inl ⟨_, rfl⟩
    | some vs => exact Or.inr ⟨vs, rfl, rfl⟩

theorem doAssign_first (c : Cfg) (x : VarId) (g : Group) (s : St) (it : Item β)
    (h : firstFor x (doAssign c true g s : AR β).items = some it) : it = save s x := by
  rcases doAssign_cases (β := β) c true g s with ⟨e, he⟩ | ⟨vs, _, he⟩
  · rw [he] at h; simp [firstFor] at h
  · rw [he] at h; exact assignLoop_first c x _ s it h

theorem doAssign_untouched (c : Cfg) (x : VarId) (g : Group) (s : St)
    (h : ∀ it ∈ (doAssign c true g s : AR β).items, it.head ≠ some x) :
    (doAssign c true g s : AR β).st.store x = s.store x := by
  rcases doAssign_cases (β := β) c true g s with ⟨e, he⟩ | ⟨vs, _, he⟩
  · rw [he]
  · rw [he] at h ⊢; exact assignLoop_untouched c x _ s h

theorem doAssign_heads (c : Cfg) (collect : Bool) (g : Group) (s : St) :
    ∀ it ∈ (doAssign c collect g s : AR β).items, ∃ y, it.head = some y := by
  rcases doAssign_cases (β := β) c collect g s with ⟨e, he⟩ | ⟨vs, _, he⟩
  · rw [he]; intro it h; simp at h
  · rw [he]; exact assignLoop_heads c collect _ s

theorem assignGroups_heads (c : Cfg) (groups : List Group) :
    ∀ (s : St), ∀ it ∈ (assignGroups c groups s : AR β).items, ∃ y, it.head = some y := by
  induction groups with
  | nil => intro s it h; simp [assignGroups] at h
  | cons g rest ih =>
    intro s it h
    simp only [assignGroups] at h
    split at h
    · exact doAssign_heads c true g s it h
    · simp only [List.mem_append] at h
      rcases h with h | h
      · exact doAssign_heads c true g s it h
      · exact ih _ it h

theorem find?_append_none {α : Type} (p : α → Bool) (a b : List α) (h : a.find? p = none) :
    (a ++ b).find? p = b.find? p := by
  simp [List.find?_append, h]

theorem assignGroups_first (c : Cfg) (x : VarId) (groups : List Group) :
    ∀ (s : St) (it : Item β), firstFor x (assignGroups c groups s : AR β).items = some it →
      it = save s x := by
  induction groups with
  | nil => intro s it h; simp [assignGroups, firstFor] at h
  | cons g rest ih =>
    intro s it h
    simp only [assignGroups] at h
    split at h
    · exact doAssign_first c x g s it h
    · cases hf : firstFor x (doAssign c true g s : AR β).items with
      | some it' =>
        have : firstFor x ((doAssign c true g s : AR β).items ++
            (assignGroups c rest (doAssign c true g s : AR β).st : AR β).items) = some it' := by
          unfold firstFor at hf ⊢
          simp [List.find?_append, hf]
        simp only [] at h
        rw [this] at h
        injection h with h
        rw [← h]
        exact doAssign_first c x g s it' hf
      | none =>
        unfold firstFor at hf h
        simp only [] at h
        rw [find?_append_none _ _ _ hf] at h
        have := ih _ it h
        rw [this]
        apply save_congr
        apply doAssign_untouched
        intro j hj hjx
        have := List.find?_eq_none.mp hf j hj
        simp [hjx] at this

/-! ### phases of `with` -/

def noCb : Empty → St → R := fun b _ => b.elim

/-- After the assignments and — if they all succeeded — the body. -/
def withMid (c : Cfg) (groups : List Group) (body : St → R) (s : St) : R :=
  let a : AR Empty := assignGroups c groups s
  match a.out with
  | some e => ⟨a.st, [], some e⟩
  | none => body a.st

theorem withExec_eq (c : Cfg) (groups : List Group) (body : St → R) (s : St) :
    withExec c groups body s =
      (let a : AR Empty := assignGroups c groups s
       let b := withMid c groups body s
       let d := runSeq c noCb a.items.reverse b.st b.out
       ⟨d.st, a.ev ++ b.ev ++ d.ev, d.out⟩) := by
  unfold withExec withMid noCb
  cases he : (assignGroups c groups s : AR Empty).out with
  | some e =>
    simp only [he]
    rw [deferLoop_fst c _ _ _ _ _ (Nat.le_refl _)]
    simp [List.take_length]
  | none =>
    simp only [he]
    rw [deferLoop_fst c _ _ _ _ _ (Nat.le_refl _)]
    simp [List.take_length]

theorem closureCall_eq (c : Cfg) (runCb : β → St → R) (isFn : Bool) (body : St → BodyR β) (s : St) :
    closureCall c runCb isFn body s =
      (let b := body s
       let d := runSeq c runCb b.items.reverse b.st none
       ⟨d.st, b.ev ++ d.ev, keepFirst (fnWrap isFn b.out) d.out⟩) := by
  unfold closureCall runDefers
  simp only []
  rw [deferLoop_fst c _ _ _ _ _ (Nat.le_refl _)]
  simp [List.take_length]

/-! ### the log of restores -/

/-- The variable of an item, if its Set/Unset shows up in the log. -/
def loggedHead (c : Cfg) (it : Item β) : Option VarId :=
  match it.head with
  | some x => if (c.kind x).isLogged then some x else none
  | none => none

theorem runItem_ev_heads (c : Cfg) (it : Item Empty) (s : St) :
    (runItem c noCb it s).ev.filterMap Event.varOf = (loggedHead c it).toList := by
  cases it with
  | restore x v =>
    simp only [runItem, varSet_ev, loggedHead, Item.head]
    split <;> simp [Event.varOf]
  | unset x =>
    simp only [runItem, varUnset_ev, loggedHead, Item.head]
    split <;> simp [Event.varOf]
  | cb b => exact b.elim

theorem runSeq_ev_heads (c : Cfg) (items : List (Item Empty)) :
    ∀ (s : St) (exc : Outcome),
      (runSeq c noCb items s exc).ev.filterMap Event.varOf = items.filterMap (loggedHead c) := by
  induction items with
  | nil => intro s exc; simp [runSeq]
  | cons f fs ih =>
    intro s exc
    simp only [runSeq, List.filterMap_append, ih, runItem_ev_heads, List.filterMap_cons]
    cases loggedHead c f <;> simp

theorem runItem_ev_len (c : Cfg) (it : Item Empty) (s : St) :
    ((runItem c noCb it s).ev.filterMap Event.varOf).length = (runItem c noCb it s).ev.length := by
  cases it with
  | restore x v =>
    simp only [runItem, varSet_ev]
    by_cases hl : (c.kind x).isLogged = true <;> simp [hl, Event.varOf]
  | unset x =>
    simp only [runItem, varUnset_ev]
    by_cases hl : (c.kind x).isLogged = true <;> simp [hl, Event.varOf]
  | cb b => exact b.elim

/-- The restore phase logs nothing but Set/Unset calls. -/
theorem runSeq_ev_len (c : Cfg) (items : List (Item Empty)) :
    ∀ (s : St) (exc : Outcome),
      ((runSeq c noCb items s exc).ev.filterMap Event.varOf).length = (runSeq c noCb items s exc).ev.length := by
  induction items with
  | nil => intro s exc; simp [runSeq]
  | cons f fs ih =>
    intro s exc
    simp only [runSeq, List.filterMap_append, List.length_append, ih, runItem_ev_len]

theorem varSet_ev_heads (c : Cfg) (x : VarId) (v : Val) (s : St) :
    ((varSet c x v s).ev.filter Event.isOkSet).filterMap Event.varOf =
      if (varSet c x v s).ok = true then (if (c.kind x).isLogged then [x] else []) else [] := by
  rw [varSet_ev]
  by_cases hk : (varSet c x v s).ok = true <;> by_cases hl : (c.kind x).isLogged = true <;>
    simp only [hl, hk, if_true, if_false, Bool.false_eq_true] <;> first | rfl | simp [Event.isOkSet]

theorem refSet_elem_exc (c : Cfg) (x : VarId) (k : Key) (ks : List Key) (v : Val) (s : St) (m : String)
    (h : C14.setElem (curVal (s.store x)) (k :: ks) v = .exc m) :
    refSet c (.elem x k ks) v s = ⟨s, [], some .elemErr⟩ := by
  simp [refSet, h]

theorem refSet_elem_panic (c : Cfg) (x : VarId) (k : Key) (ks : List Key) (v : Val) (s : St) (m : String)
    (h : C14.setElem (curVal (s.store x)) (k :: ks) v = .panic m) :
    refSet c (.elem x k ks) v s = ⟨s, [], some .panic⟩ := by
  simp [refSet, h]

theorem refSet_elem_ok (c : Cfg) (x : VarId) (k : Key) (ks : List Key) (v v' : Val) (s : St)
    (h : C14.setElem (curVal (s.store x)) (k :: ks) v = .ok v') :
    refSet c (.elem x k ks) v s =
      ⟨(varSet c x v' s).st, (varSet c x v' s).ev,
        if (varSet c x v' s).ok then none else some (.setFail x)⟩ := by
  simp [refSet, h]

theorem refSet_ev_heads (c : Cfg) (r : LV) (v : Val) (s : St) :
    ((refSet c r v s).ev.filter Event.isOkSet).filterMap Event.varOf =
      if (refSet c r v s).out = none then (if (c.kind r.head).isLogged then [r.head] else []) else [] := by
  cases r with
  | var x =>
    simp only [refSet, varSet_ev_heads, LV.head]
    by_cases hk : (varSet c x v s).ok = true <;>
      by_cases hl : (c.kind x).isLogged = true <;> simp [hk, hl]
  | elem x k ks =>
    cases ha : C14.setElem (curVal (s.store x)) (k :: ks) v with
    | exc m => rw [refSet_elem_exc c x k ks v s m ha]; simp
    | panic m => rw [refSet_elem_panic c x k ks v s m ha]; simp
    | ok v' =>
      rw [refSet_elem_ok c x k ks v v' s ha]
      simp only [varSet_ev_heads, LV.head]
      by_cases hk : (varSet c x v' s).ok = true <;>
        by_cases hl : (c.kind x).isLogged = true <;> simp [hk, hl]

theorem assignLoop_ev_heads (c : Cfg) (pairs : List (LV × Val)) :
    ∀ (s : St),
      ((assignLoop c true pairs s : AR β).ev.filter Event.isOkSet).filterMap Event.varOf =
        (assignLoop c true pairs s : AR β).items.filterMap (loggedHead c) := by
  induction pairs with
  | nil => intro s; simp [assignLoop]
  | cons p rest ih =>
    intro s
    obtain ⟨r, v⟩ := p
    simp only [assignLoop]
    split
    · rename_i e he
      simp [refSet_ev_heads, he]
    · rename_i he
      simp only [List.filter_append, List.filterMap_append, ih, refSet_ev_heads, he, if_true,
        List.singleton_append, List.filterMap_cons, loggedHead, save_head]
      split <;> simp

theorem doAssign_ev_heads (c : Cfg) (g : Group) (s : St) :
    ((doAssign c true g s : AR β).ev.filter Event.isOkSet).filterMap Event.varOf =
      (doAssign c true g s : AR β).items.filterMap (loggedHead c) := by
  rcases doAssign_cases (β := β) c true g s with ⟨e, he⟩ | ⟨vs, _, he⟩
  · rw [he]; simp
  · rw [he]; exact assignLoop_ev_heads c _ s

theorem assignGroups_ev_heads (c : Cfg) (groups : List Group) :
    ∀ (s : St),
      ((assignGroups c groups s : AR β).ev.filter Event.isOkSet).filterMap Event.varOf =
        (assignGroups c groups s : AR β).items.filterMap (loggedHead c) := by
  induction groups with
  | nil => intro s; simp [assignGroups]
  | cons g rest ih =>
    intro s
    simp only [assignGroups]
    split
    · exact doAssign_ev_heads c g s
    · simp only [List.filter_append, List.filterMap_append, ih, doAssign_ev_heads]

end C21
