/-
C21 helper lemmas, part 2: what Set / restore do to the store and to the log.
-/
import ElvModel.C21.Model
import ElvProofs.C21.Seq
namespace C21

variable {β : Type}

/-- Head variable an item acts on (callbacks: none). -/
def Item.head : Item β → Option VarId
  | .restore x _ => some x
  | .unset x => some x
  | .cb _ => none

/-- The content of the head variable after the item succeeded. -/
def Item.target : Item β → Option Val
  | .restore _ v => some v
  | .unset _ => none
  | .cb _ => none

/-- Variable a Set/Unset event is about. -/
def Event.varOf : Event → Option VarId
  | .set x _ _ => some x
  | .unset x _ => some x
  | _ => none

def Event.isOkSet : Event → Bool
  | .set _ _ true => true
  | _ => false

@[simp] theorem upd_same {α : Type} (f : Nat → α) (x : Nat) (a : α) : upd f x a x = a := by simp [upd]
@[simp] theorem upd_other {α : Type} (f : Nat → α) (x y : Nat) (a : α) (h : y ≠ x) : upd f x a y = f y := by
  simp [upd, h]

theorem varSet_other (c : Cfg) (x y : VarId) (v : Val) (s : St) (h : y ≠ x) :
    (varSet c x v s).st.store y = s.store y := by
  unfold varSet
  by_cases hl : (c.kind x).isLogged = true
  · by_cases hf : c.fails x (s.cnt x) = true <;> simp [hl, hf, h]
  · simp [hl, h]

theorem varUnset_other (c : Cfg) (x y : VarId) (s : St) (h : y ≠ x) :
    (varUnset c x s).st.store y = s.store y := by
  unfold varUnset
  by_cases hl : (c.kind x).isLogged = true
  · by_cases hf : c.fails x (s.cnt x) = true <;> simp [hl, hf, h]
  · simp [hl, h]

theorem varSet_ok (c : Cfg) (x : VarId) (v : Val) (s : St) (h : (varSet c x v s).ok = true) :
    (varSet c x v s).st.store x = some v := by
  unfold varSet at h ⊢
  by_cases hl : (c.kind x).isLogged = true
  · by_cases hf : c.fails x (s.cnt x) = true <;> simp_all
  · simp [hl]

theorem varUnset_ok (c : Cfg) (x : VarId) (s : St) (h : (varUnset c x s).ok = true) :
    (varUnset c x s).st.store x = none := by
  unfold varUnset at h ⊢
  by_cases hl : (c.kind x).isLogged = true
  · by_cases hf : c.fails x (s.cnt x) = true <;> simp_all
  · simp [hl]

/-- A variable whose Set never fails. -/
def NeverFails (c : Cfg) (x : VarId) : Prop := ∀ i, c.fails x i = false

theorem varSet_neverFails (c : Cfg) (x : VarId) (v : Val) (s : St) (h : NeverFails c x) :
    (varSet c x v s).ok = true := by
  unfold varSet
  by_cases hl : (c.kind x).isLogged = true <;> simp [hl, h (s.cnt x)]

theorem varUnset_neverFails (c : Cfg) (x : VarId) (s : St) (h : NeverFails c x) :
    (varUnset c x s).ok = true := by
  unfold varUnset
  by_cases hl : (c.kind x).isLogged = true <;> simp [hl, h (s.cnt x)]

/-- Events of Set: exactly one, about x, iff the variable is logged. -/
theorem varSet_ev (c : Cfg) (x : VarId) (v : Val) (s : St) :
    (varSet c x v s).ev = if (c.kind x).isLogged then [.set x v (varSet c x v s).ok] else [] := by
  unfold varSet
  by_cases hl : (c.kind x).isLogged = true
  · by_cases hf : c.fails x (s.cnt x) = true <;> simp [hl, hf]
  · simp [hl]

theorem varUnset_ev (c : Cfg) (x : VarId) (s : St) :
    (varUnset c x s).ev = if (c.kind x).isLogged then [.unset x (varUnset c x s).ok] else [] := by
  unfold varUnset
  by_cases hl : (c.kind x).isLogged = true
  · by_cases hf : c.fails x (s.cnt x) = true <;> simp [hl, hf]
  · simp [hl]

theorem refSet_other (c : Cfg) (r : LV) (v : Val) (s : St) (y : VarId) (h : y ≠ r.head) :
    (refSet c r v s).st.store y = s.store y := by
  cases r with
  | var x => simpa [refSet] using varSet_other c x y v s h
  | elem x k ks =>
    simp only [refSet]
    split
    · rfl
    · rfl
    · simpa using varSet_other c x y _ s h

/-- A restore / unset item that succeeds leaves its target in its variable. -/
theorem runItem_ok_target (c : Cfg) (runCb : β → St → R) (it : Item β) (x : VarId) (s : St)
    (hx : it.head = some x) (hok : (runItem c runCb it s).out = none) :
    (runItem c runCb it s).st.store x = it.target := by
  cases it with
  | restore y v =>
    simp [Item.head] at hx; subst hx
    simp only [runItem] at hok ⊢
    have : (varSet c y v s).ok = true := by
      cases h : (varSet c y v s).ok <;> simp [h] at hok ⊢
    simpa [Item.target] using varSet_ok c y v s this
  | unset y =>
    simp [Item.head] at hx; subst hx
    simp only [runItem] at hok ⊢
    have : (varUnset c y s).ok = true := by
      cases h : (varUnset c y s).ok <;> simp [h] at hok ⊢
    simpa [Item.target] using varUnset_ok c y s this
  | cb b => simp [Item.head] at hx

theorem runItem_neverFails (c : Cfg) (runCb : β → St → R) (it : Item β) (x : VarId) (s : St)
    (hx : it.head = some x) (h : NeverFails c x) : (runItem c runCb it s).out = none := by
  cases it with
  | restore y v =>
    simp [Item.head] at hx; subst hx
    simp [runItem, varSet_neverFails c y v s h]
  | unset y =>
    simp [Item.head] at hx; subst hx
    simp [runItem, varUnset_neverFails c y s h]
  | cb b => simp [Item.head] at hx

/-- An item "leaves x alone": from every state, running it keeps the content of x. -/
def Leaves (c : Cfg) (runCb : β → St → R) (x : VarId) (it : Item β) : Prop :=
  ∀ s, (runItem c runCb it s).st.store x = s.store x

theorem leaves_of_head_ne (c : Cfg) (runCb : β → St → R) (x y : VarId) (it : Item β)
    (hy : it.head = some y) (h : x ≠ y) : Leaves c runCb x it := by
  intro s
  cases it with
  | restore z v =>
    simp [Item.head] at hy; subst hy
    simpa [runItem] using varSet_other c z x v s h
  | unset z =>
    simp [Item.head] at hy; subst hy
    simpa [runItem] using varUnset_other c z x s h
  | cb b => simp [Item.head] at hy

theorem runSeq_leaves (c : Cfg) (runCb : β → St → R) (x : VarId) (fs : List (Item β))
    (h : ∀ it ∈ fs, Leaves c runCb x it) :
    ∀ (s : St) (exc : Outcome), (runSeq c runCb fs s exc).st.store x = s.store x := by
  induction fs with
  | nil => intro s exc; rfl
  | cons f fs ih =>
    intro s exc
    simp only [runSeq]
    rw [ih (fun it hit => h it (List.mem_cons_of_mem _ hit))]
    exact h f (List.mem_cons_self ..) s

/-- Core of "the first registered restore of x decides": items = pre ++ it :: post
run last-first; if `it` succeeds and nothing registered before it touches x,
x ends with `it`'s saved content. -/
theorem runSeq_reverse_restores (c : Cfg) (runCb : β → St → R) (x : VarId)
    (pre post : List (Item β)) (it : Item β) (s : St) (exc : Outcome)
    (hx : it.head = some x) (hpre : ∀ j ∈ pre, Leaves c runCb x j)
    (hok : (runItem c runCb it (runSeq c runCb post.reverse s exc).st).out = none) :
    (runSeq c runCb (pre ++ it :: post).reverse s exc).st.store x = it.target := by
  have e : (pre ++ it :: post).reverse = post.reverse ++ ([it] ++ pre.reverse) := by simp
  rw [e]
  simp only [runSeq_append, runSeq]
  rw [runSeq_leaves c runCb x pre.reverse (fun j hj => hpre j (List.mem_reverse.mp hj))]
  exact runItem_ok_target c runCb it x _ hx hok

end C21
