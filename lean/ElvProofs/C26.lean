/-
C26 — concurrent clients of the storage daemon see a linearizable history.

Specification: ElvModel/C26/Linearizable.lean (`Linearizable`, the executable
checker `isLinearization`).  Model: ElvModel/C26/Model.lean (clients with the
retry loop of `client.call`, `rpc.Client.send/input`, `rpc.Server.ServeCodec`
with one goroutine per request and the per-connection `sending` mutex, each
service method ONE atomic store operation).  Sequential specification of the
store: ElvModel/C26/Store.lean over the C24 model.

All theorems about the model are generic in the sequential specification
`spec : σ → Op → σ × Out`; `C26.seqStep` / `C24.Store.fresh` is the instance
the real daemon is validated against.
-/
import ElvProofs.C26.Retry
import ElvProofs.C26.Unique
import ElvProofs.C26.Trace
open C26 Go

/-! ### (3) the checker is sound -/

/-- SOUNDNESS OF THE CHECKER: an order accepted by the executable function
`isLinearization` is a proof that the history is linearizable.  (The harness
searches a witness order for every recorded history of the real daemon —
untrusted —; the Lean driver validates it with this function.) -/
theorem C26_checker_sound {σ Op Out : Type} [DecidableEq Out] (step : σ → Op → σ × Out) (init : σ)
    (h : History Op Out) (order : List Nat) (hb : isLinearization step init h order = true) :
    Linearizable step init h :=
  isLinearization_sound step init h order hb

/-- two overlapping AddCmd calls that took effect in the order opposite to their invocation,
then a listing: accepted in that order, rejected in the order of invocation -/
def C26_demoHist : History Op Out :=
  [.inv 0 (.cmd (.add [97])), .inv 1 (.cmd (.add [98])), .res 1 (.cmd (.seq (.ok 1))), .res 0 (.cmd (.seq (.ok 2))),
   .inv 2 (.cmd (.list 0 (-1))), .res 2 (.cmd (.cmds (.ok [⟨[98], 1⟩, ⟨[97], 2⟩])))]

set_option maxRecDepth 100000 in
example : isLinearization seqStep C24.Store.fresh C26_demoHist [1, 0, 2] = true ∧
    isLinearization seqStep C24.Store.fresh C26_demoHist [0, 1, 2] = false ∧
    isLinearization seqStep C24.Store.fresh C26_demoHist [1, 2, 0] = false := by decide

/-! ### (1) the model is linearizable, with the commit points as linearization points -/

/-- the property on the model, at full strength for schedules in which clients
only issue history operations (connections may die at any moment, nobody calls
`ResetConn`/`Close` on a client in use) -/
def C26_full : Prop :=
  ∀ {σ Op Out : Type} (spec : σ → Op → σ × Out) (s0 : σ) (s : State σ Op Out),
    Reachable spec s0 Label.noReset s → Linearizable spec s0 s.hist

/-- Every reachable state (any interleaving of any number of clients, shared or
not, any number of connection failures): the history the callers have seen so
far is well formed and the COMMIT ORDER `s.lin` — each operation exactly where
its service method ran as one atomic store operation — is a linearization of
it: it contains every completed operation with the reply its caller saw, only
invoked operations, none twice, replays on the sequential specification, and
respects real time (an operation that returned before another was invoked
committed before it). -/
theorem C26_commit_order_is_linearization {σ Op Out : Type} (spec : σ → Op → σ × Out) (s0 : σ)
    (s : State σ Op Out) (hr : Reachable spec s0 Label.noReset s) :
    WellFormed s.hist ∧ Linearization spec s0 s.hist s.lin :=
  linearization_of_inv (inv_reachable hr)

theorem C26_linearizable : C26_full := by
  intro σ Op Out spec s0 s hr
  obtain ⟨hw, hl⟩ := C26_commit_order_is_linearization spec s0 s hr
  exact ⟨hw, s.lin, hl⟩

/-- the statement of DESIGN §8 C26 (1): "no connection shutdown during the history" as the explicit hypothesis -/
theorem C26_linearizable_without_shutdown {σ Op Out : Type} (spec : σ → Op → σ × Out) (s0 : σ)
    (s : State σ Op Out) (hr : Reachable spec s0 Label.noShutdown s) : Linearizable spec s0 s.hist :=
  C26_linearizable spec s0 s (reachable_mono (by intro l hl; cases l <;> simp_all [Label.noShutdown, Label.noReset]) hr)

/-- two clients, own connections, overlapping AddCmd calls committed in the order opposite
to their invocation, one connection then dies; no ResetConn -/
def C26_demoRun : List (Label Op) :=
  [.newClient, .newClient, .invoke 0 (.cmd (.add [97])), .invoke 1 (.cmd (.add [98])), .dial 0, .dial 1,
   .send 0, .send 1, .read 1, .read 0, .commit 1, .commit 0, .lock 0, .lock 1, .writeHdr 1, .serverClose 0,
   .writeHdr 0, .writeBody 0, .writeBody 1, .recv 1, .ret 1, .inputEOF 0, .retErr 0]

set_option maxRecDepth 100000 in
example : ∃ s, Reachable seqStep C24.Store.fresh Label.noReset s ∧
    s.hist = [.inv 0 (.cmd (.add [97])), .inv 1 (.cmd (.add [98])), .res 1 (.cmd (.seq (.ok 1)))] ∧
    s.lin.map (·.1) = [1, 0] := by
  have h : (run seqStep (State.init C24.Store.fresh) C26_demoRun).map (fun s => (s.hist, s.lin.map (·.1))) =
      some ([.inv 0 (.cmd (.add [97])), .inv 1 (.cmd (.add [98])), .res 1 (.cmd (.seq (.ok 1)))], [1, 0]) := by decide
  obtain ⟨s, hs, he⟩ := Option.map_eq_some_iff.1 h
  simp only [Prod.mk.injEq] at he
  exact ⟨s, reachable_run seqStep _ _ C26_demoRun _ s .init (by decide) hs, he.1, he.2⟩

/-- "No added command is lost or duplicated", on the model: every operation
whose caller got a reply took effect EXACTLY once (one entry in the commit
order, with that reply), and no operation took effect twice. -/
theorem C26_effect_exactly_once {σ Op Out : Type} (spec : σ → Op → σ × Out) (s0 : σ) (s : State σ Op Out)
    (hr : Reachable spec s0 Label.noReset s) :
    (s.lin.map (·.1)).Nodup ∧
    ∀ id out, Event.res id out ∈ s.hist →
      ∃ op, (id, op, out) ∈ s.lin ∧ ∀ op' out', (id, op', out') ∈ s.lin → op' = op ∧ out' = out := by
  obtain ⟨_, hl⟩ := C26_commit_order_is_linearization spec s0 s hr
  refine ⟨hl.nodup, ?_⟩
  intro id out hm
  obtain ⟨op, ho⟩ := hl.complete id out hm
  refine ⟨op, ho, ?_⟩
  intro op' out' ho'
  have key : ∀ (l : List (Nat × Op × Out)), (l.map (·.1)).Nodup → ∀ a x y, (a, x) ∈ l → (a, y) ∈ l → x = y := by
    intro l
    induction l with
    | nil => intro _ a x y hx; simp at hx
    | cons e t ih =>
      intro hn a x y hx hy
      simp only [List.map_cons, List.nodup_cons] at hn
      rcases List.mem_cons.1 hx with hx | hx
      · rcases List.mem_cons.1 hy with hy | hy
        · rw [← hx] at hy
          exact (Prod.mk.inj hy).2.symm
        · exact absurd (List.mem_map.2 ⟨_, hy, by rw [← hx]⟩) hn.1
      · rcases List.mem_cons.1 hy with hy | hy
        · exact absurd (List.mem_map.2 ⟨_, hx, by rw [← hy]⟩) hn.1
        · exact ih hn.2 a x y hx hy
  have := key s.lin hl.nodup id (op, out) (op', out') ho ho'
  exact ⟨(Prod.mk.inj this).1.symm, (Prod.mk.inj this).2.symm⟩

/-- "Sequence numbers are unique across all clients": in any history that is
linearizable with respect to the store of C24, two different AddCmd calls that
returned got different numbers (and the one that returned first in real
time, if any, the smaller one — see `C24_seq_strictly_increasing_never_reused`).
Hypothesis: fewer than 2^63 operations (the uint64 sequence stays inside `int`). -/
theorem C26_unique_sequence_numbers (h : History Op Out) (S : List (Nat × Op × Out))
    (hS : Linearization seqStep C24.Store.fresh h S) (hlen : S.length + 1 < C24.two63)
    (a b : Nat) (n m : Int) (hab : a ≠ b)
    (ha : Event.res a (.cmd (.seq (.ok n))) ∈ h) (hb : Event.res b (.cmd (.seq (.ok m))) ∈ h) : n ≠ m := by
  obtain ⟨opa, hma⟩ := hS.complete a _ ha
  obtain ⟨opb, hmb⟩ := hS.complete b _ hb
  have hinc := issued_increasing (S.map (·.2.1)) (by simpa using hlen)
  rw [hS.legal] at hinc
  have hne : (a, opa, Out.cmd (.seq (.ok n))) ≠ (b, opb, Out.cmd (.seq (.ok m))) := by
    intro he
    exact hab (Prod.mk.inj he).1
  rcases split_two hma hmb hne with ⟨l1, l2, l3, hl⟩ | ⟨l1, l2, l3, hl⟩
  · rw [hl] at hinc
    simp only [List.map_append, List.map_cons] at hinc
    have := lt_of_issued_split _ _ _ n m hinc
    omega
  · rw [hl] at hinc
    simp only [List.map_append, List.map_cons] at hinc
    have := lt_of_issued_split _ _ _ m n hinc
    omega

set_option maxRecDepth 100000 in
example : ∃ S, Linearization seqStep C24.Store.fresh C26_demoHist S ∧ S.length + 1 < C24.two63 := by
  have h : isLinearization seqStep C24.Store.fresh C26_demoHist [1, 0, 2] = true := by decide
  simp only [isLinearization, Bool.and_eq_true] at h
  obtain ⟨⟨hwf, hnd⟩, hrest⟩ := h
  cases hr : replay seqStep C26_demoHist C24.Store.fresh [1, 0, 2] with
  | none => simp [hr] at hrest
  | some S =>
    simp only [hr, Bool.and_eq_true] at hrest
    obtain ⟨h1, h2, h3⟩ := replay_sound seqStep C26_demoHist [1, 0, 2] C24.Store.fresh S hr
    have hw := wellFormedB_sound _ hwf
    have hlen : S.length = 3 := by
      have := congrArg List.length h1
      simpa using this
    refine ⟨S, ⟨by rw [h1]; exact nodupB_sound _ hnd, fun x hx => opOf_mem _ x.1 x.2.1 (h2 x hx),
      completeB_sound _ S hrest.1, h3, ?_⟩, by rw [hlen]; decide⟩
    intro a b hp l1 l2 ho
    rw [h1] at ho
    refine realtime_of_checks _ hw [1, 0, 2] hrest.2 ?_ a b hp l1 l2 ho
    intro id out hm
    obtain ⟨op, hx⟩ := completeB_sound _ S hrest.1 id out hm
    rw [← h1]
    exact List.mem_map.2 ⟨_, hx, rfl⟩

/-! ### (2) the retry path is at-least-once -/

/-- A run of the model WITH a concurrent `ResetConn` (`clientReset`): the daemon
commits an AddCmd, the connection dies before the reply is written, the pending
call fails with `ErrShutdown` (EOF ∧ `closing`), `client.call` re-sends it on a
new connection and the daemon commits it AGAIN: one invocation (id 0) occurs
twice in the commit order, the caller is told 2, a listing shows the text under
1 and 2 — and that history is not linearizable. -/
theorem C26_retry_duplicates_add :
    ∃ s, Reachable seqStep C24.Store.fresh (fun _ => True) s ∧ s.hist = retryHist ∧
      s.lin.map (·.1) = [0, 0, 1] ∧ ¬ Linearizable seqStep C24.Store.fresh s.hist := by
  obtain ⟨s, hs, he⟩ := Option.map_eq_some_iff.1 retryRun_result
  simp only [Prod.mk.injEq] at he
  refine ⟨s, reachable_run seqStep _ _ retryRun _ s .init (fun _ _ => trivial) hs, he.1, he.2, ?_⟩
  rw [he.1]
  exact retryHist_not_linearizable

/-- hence the hypothesis of `C26_linearizable` cannot be dropped: over ALL
schedules of the model (including `ResetConn` racing with a dying connection)
the property fails.  Whether the real client can be driven there is decided by
the validation runs (notes/C26.md): only by calling `ResetConn` on a client
that has calls in flight, which no code path of elvish does. -/
theorem C26_not_linearizable_under_reset :
    ¬ ∀ s, Reachable seqStep C24.Store.fresh (fun _ => True) s → Linearizable seqStep C24.Store.fresh s.hist := by
  intro hall
  obtain ⟨s, hr, _, _, hn⟩ := C26_retry_duplicates_add
  exact hn (hall s hr)

/-! ### (4) trace refinement: recorded traces of the real daemon are runs of the model -/

/-- SOUNDNESS OF THE TRACE ACCEPTOR (round 2).  The hook
(hooks/C26-daemon-trace.patch) records, from the real `daemon.client`,
`rpc.Client`, `rpc.Server` and the daemon's accept loop, one entry per hook
point: request sent / refused, request read, service method returned (store
commit) with its reply, response written, response read, call returned, …
`acceptAll` (ElvModel/C26/Trace.lean) interprets every entry as ONE label of
the LTS, runs the model's `step`, and compares what the real code reported with
what the model computes (the request read = the request sent; the reply of the
service method = the reply of the sequential specification at that point of the
commit order; the response goes to the call named by the header; the caller
gets that reply).  If it accepts, the recorded trace IS a run of the model
without `clientReset`: the final acceptor state is reachable. -/
theorem C26_acceptor_sound {σ Op Out : Type} [DecidableEq Op] [DecidableEq Out]
    (spec : σ → Op → σ × Out) (s0 : σ) (es : List (Entry Op Out)) (a : AState σ Op Out)
    (h : acceptAll spec s0 es = .ok a) : Reachable spec s0 Label.noReset a.s :=
  acceptFrom_reachable es (AState.init s0) a 0 .init h

/-- … hence every theorem about reachable states applies to an accepted trace;
in particular the history of invocations and responses it contains (the
`invoke` and `ret` entries, i.e. what the callers of `client.call` saw) is
linearizable, with the recorded commit order as the witness. -/
theorem C26_accepted_trace_linearizable {σ Op Out : Type} [DecidableEq Op] [DecidableEq Out]
    (spec : σ → Op → σ × Out) (s0 : σ) (es : List (Entry Op Out)) (a : AState σ Op Out)
    (h : acceptAll spec s0 es = .ok a) :
    WellFormed a.s.hist ∧ Linearization spec s0 a.s.hist a.s.lin :=
  C26_commit_order_is_linearization spec s0 a.s (C26_acceptor_sound spec s0 es a h)

/-- a recorded trace of the shape the hook produces: two clients with their own
connections, overlapping AddCmd calls that the daemon commits in the order
opposite to their invocation -/
def C26_demoTrace : List (Entry Op Out) :=
  [.newClient 0, .invoke 0 0 (.cmd (.add [97])), .newClient 1, .invoke 1 1 (.cmd (.add [98])),
   .dial 0 0, .send 0 0 0, .dial 1 1, .send 1 1 0,
   .read 1 0 (.cmd (.add [98])), .read 0 0 (.cmd (.add [97])),
   .commit 1 0 (.cmd (.seq (.ok 1))), .commit 0 0 (.cmd (.seq (.ok 2))),
   .lock 0 0, .writeHdr 0 0, .writeBody 0 0, .lock 1 0, .writeHdr 1 0, .writeBody 1 0,
   .recv 1 0, .ret 1 (.cmd (.seq (.ok 1))), .recv 0 0, .ret 0 (.cmd (.seq (.ok 2)))]

/-- the same, but the daemon claims to have given number 1 to both -/
def C26_badTrace : List (Entry Op Out) :=
  [.newClient 0, .invoke 0 0 (.cmd (.add [97])), .newClient 1, .invoke 1 1 (.cmd (.add [98])),
   .dial 0 0, .send 0 0 0, .dial 1 1, .send 1 1 0,
   .read 1 0 (.cmd (.add [98])), .read 0 0 (.cmd (.add [97])),
   .commit 1 0 (.cmd (.seq (.ok 1))), .commit 0 0 (.cmd (.seq (.ok 1)))]

def C26_verdict (es : List (Entry Op Out)) : Option (Nat × String) :=
  match acceptAll seqStep C24.Store.fresh es with
  | .ok _ => none
  | .error w => some w

-- Non-vacuity: the acceptor accepts the first trace (so `C26_acceptor_sound`
-- applies to it) and rejects the second at entry 11, the second commit.
set_option maxRecDepth 100000 in
example : C26_verdict C26_demoTrace = none ∧
    C26_verdict C26_badTrace =
      some (11, "the reply of the service method is not the reply of the sequential specification") := by
  decide
