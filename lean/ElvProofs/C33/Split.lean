/-
Helper lemmas for C33: the content law of `SplitByRune` (the parts joined with
the separator give the plain text back).
-/
import ElvModel.C33.Model
import ElvProofs.C33.Normal
import ElvProofs.C33.Ops
namespace C33
open Go

theorem plain_toText (tb : TB) : plain tb.toText = plain tb.flat := by
  rw [plain_eq, plain_eq, TB.styledBytes_toText]

theorem plain_writeText (tb : TB) (t : Text) : plain (tb.writeText t).toText = plain tb.toText ++ plain t := by
  rw [plain_eq, plain_eq, plain_eq, TB.styledBytes_toText, TB.styledBytes_writeText, TB.styledBytes_toText,
    List.map_append]

theorem plain_textFromSegment (s : Segment) : plain (textFromSegment s) = s.text := by
  unfold textFromSegment
  split
  · rename_i h; simp only [List.isEmpty_iff] at h; rw [h]; rfl
  · simp [plain]

theorem plain_empty_tb : plain ({} : TB).toText = [] := rfl

theorem joinSep_glue (sep : Bytes) (A : List Bytes) (x y0 : Bytes) (Y : List Bytes) :
    joinSep sep (A ++ (x ++ y0) :: Y) = joinSep sep (A ++ [x]) ++ joinSep sep (y0 :: Y) := by
  induction A with
  | nil =>
    cases Y with
    | nil => simp [joinSep]
    | cons q r => simp [joinSep]
  | cons a A ih =>
    rw [List.cons_append, List.cons_append, joinSep_cons_cons _ _ _ (by simp), joinSep_cons_cons _ _ _ (by simp), ih]
    simp

theorem map_text_splitByRune (seg : Segment) (r : Int) :
    (seg.splitByRune r).map (·.text) = splitBytes (runeString r) seg.text := by
  simp [Segment.splitByRune, Function.comp_def]

/-- The plains of the finished parts followed by the plain of the paste builder. -/
def accPlains (acc : List Text × TB) : List Bytes := acc.1.map plain ++ [plain acc.2.toText]

theorem splitStep_content (r : Int) (acc : List Text × TB) (seg : Segment) :
    joinSep (runeString r) (accPlains (splitStep r acc seg)) =
      joinSep (runeString r) (accPlains acc) ++ seg.text := by
  have hj := joinSep_splitBytes r seg.text
  rw [← map_text_splitByRune] at hj
  unfold splitStep
  split
  · rename_i h
    rw [h] at hj
    simp only [List.map_nil, joinSep] at hj
    rw [← hj]; simp
  · rename_i p h
    rw [h] at hj
    simp only [List.map_cons, List.map_nil, joinSep] at hj
    simp only [accPlains]
    rw [plain_writeText, plain_textFromSegment, joinSep_glue, hj]
    simp [joinSep]
  · rename_i p ps hne h
    rw [h] at hj
    simp only [List.map_cons] at hj
    simp only [accPlains]
    have hps : ps ≠ [] := fun he => hne he
    cases hl : ps.getLast? with
    | none => exact absurd (List.getLast?_eq_none_iff.1 hl) hps
    | some l =>
      simp only
      -- the plains of the middle parts and the new paste are the texts of `ps`
      have hmid : (List.map textFromSegment ps.dropLast).map plain ++
          [plain (({} : TB).writeText (textFromSegment l)).toText] = ps.map (·.text) := by
        rw [plain_writeText, plain_empty_tb, List.nil_append, plain_textFromSegment]
        have := dropLast_append_getLast ps l hl
        conv => rhs; rw [← this]
        simp [List.map_append, Function.comp_def, plain_textFromSegment]
      simp only [List.map_append, List.map_cons, List.map_nil, List.append_assoc, List.cons_append,
        List.nil_append]
      rw [hmid, plain_writeText, plain_textFromSegment, joinSep_glue, hj]

theorem foldl_splitStep_content (r : Int) (t : Text) (acc : List Text × TB) :
    joinSep (runeString r) (accPlains (t.foldl (splitStep r) acc)) =
      joinSep (runeString r) (accPlains acc) ++ plain t := by
  induction t generalizing acc with
  | nil => simp [plain]
  | cons s t ih =>
    simp only [List.foldl_cons]
    rw [ih, splitStep_content, plain_cons, List.append_assoc]

end C33
