/-
C33 helpers: histories over named values (ElvModel/C33/History.lean) —
values once made are kept, an operation depends on the register file only
through the values of its operands, later values do not matter.
-/
import ElvModel.C33.History
import ElvProofs.C33.Normal
namespace C33
open Go

theorem step_regs (wd : Int → Int) (s : HState) (op : HOp) :
    (s.step wd op).1.regs = s.regs ++ (s.step wd op).2.values := rfl

theorem step_keeps (wd : Int → Int) (s : HState) (op : HOp) (i : Nat) (h : i < s.regs.length) :
    (s.step wd op).1.regs[i]? = s.regs[i]? := by
  rw [step_regs, List.getElem?_append_left h]

theorem run_keeps (wd : Int → Int) : ∀ (ops : List HOp) (s : HState) (i : Nat), i < s.regs.length →
    (s.run wd ops).regs[i]? = s.regs[i]?
  | [], _, _, _ => rfl
  | op :: ops, s, i, h => by
    have h' : i < (s.step wd op).1.regs.length := by rw [step_regs, List.length_append]; omega
    rw [HState.run, run_keeps wd ops _ i h', step_keeps wd s op i h]

/-! ### an op and its literal form -/

theorem resolve_literal (regs : List Text) (x : Ref) : resolve [] (Ref.literal regs x) = resolve regs x := by
  unfold Ref.literal
  cases h : resolve regs x with
  | some t => rfl
  | none =>
    cases x with
    | reg i => rfl
    | lit t => simp [resolve] at h

theorem resolveSeg_literal (regs : List Text) (x : SegRef) :
    resolveSeg [] (SegRef.literal regs x) = resolveSeg regs x := by
  unfold SegRef.literal
  cases h : resolveSeg regs x with
  | some t => rfl
  | none =>
    cases x with
    | reg i j => rfl
    | lit t => simp [resolveSeg] at h

theorem resolveRhs_literal (regs : List Text) (x : HRhs) :
    resolveRhs [] (HRhs.literal regs x) = resolveRhs regs x := by
  cases x with
  | str s => rfl
  | seg s => simp only [HRhs.literal, resolveRhs, resolveSeg_literal]
  | text t => simp only [HRhs.literal, resolveRhs, resolve_literal]

theorem mapM_resolve_literal (regs : List Text) (xs : List Ref) :
    (xs.map (Ref.literal regs)).mapM (resolve []) = xs.mapM (resolve regs) := by
  induction xs with
  | nil => rfl
  | cons x xs ih => simp only [List.map_cons, List.mapM_cons, ih, resolve_literal]

/-- An operation depends on the register file only through the VALUES of its
operands: it gives what the same operation on literal copies gives. -/
theorem evalOp_literal (wd : Int → Int) (regs : List Text) (tb : TB) (op : HOp) :
    evalOp wd [] tb (op.literal regs) = evalOp wd regs tb op := by
  cases op <;>
    simp only [HOp.literal, evalOp, resolve_literal, resolveSeg_literal, resolveRhs_literal, mapM_resolve_literal]

/-! ### values made later do not matter -/

theorem resolve_append (regs more : List Text) (x : Ref) (h : x.ok regs = true) :
    resolve (regs ++ more) x = resolve regs x := by
  cases x with
  | lit t => rfl
  | reg i =>
    simp only [Ref.ok, resolve, Option.isSome_iff_exists] at h
    obtain ⟨t, ht⟩ := h
    have hi : i < regs.length := (List.getElem?_eq_some_iff.1 ht).1
    simp only [resolve, List.getElem?_append_left hi]

theorem resolveSeg_append (regs more : List Text) (x : SegRef) (h : x.ok regs = true) :
    resolveSeg (regs ++ more) x = resolveSeg regs x := by
  cases x with
  | lit t => rfl
  | reg i j =>
    simp only [SegRef.ok, resolveSeg] at h
    cases hr : regs[i]? with
    | none => simp [hr] at h
    | some t =>
      have hi : i < regs.length := (List.getElem?_eq_some_iff.1 hr).1
      simp only [resolveSeg, List.getElem?_append_left hi]

theorem resolveRhs_append (regs more : List Text) (x : HRhs) (h : x.ok regs = true) :
    resolveRhs (regs ++ more) x = resolveRhs regs x := by
  cases x with
  | str s => rfl
  | seg s => simp only [HRhs.ok] at h; simp only [resolveRhs, resolveSeg_append regs more s h]
  | text t => simp only [HRhs.ok] at h; simp only [resolveRhs, resolve_append regs more t h]

theorem mapM_resolve_append (regs more : List Text) (xs : List Ref) (h : xs.all (Ref.ok regs) = true) :
    xs.mapM (resolve (regs ++ more)) = xs.mapM (resolve regs) := by
  induction xs with
  | nil => rfl
  | cons x xs ih =>
    simp only [List.all_cons, Bool.and_eq_true] at h
    simp only [List.mapM_cons, ih h.2, resolve_append regs more x h.1]

/-- Values made after the operands exist do not influence an operation. -/
theorem evalOp_append (wd : Int → Int) (regs more : List Text) (tb : TB) (op : HOp) (h : op.ok regs = true) :
    evalOp wd (regs ++ more) tb op = evalOp wd regs tb op := by
  cases op <;> simp only [HOp.ok, Bool.and_eq_true] at h <;>
    first
    | rfl
    | simp only [evalOp, resolve_append regs more _ h]
    | simp only [evalOp, resolveSeg_append regs more _ h]
    | simp only [evalOp, mapM_resolve_append regs more _ h]
    | simp only [evalOp, resolve_append regs more _ h.1, resolveRhs_append regs more _ h.2]
    | simp only [evalOp, resolveSeg_append regs more _ h.1, resolveRhs_append regs more _ h.2]

/-! ### literals in normal form -/

/-- A literal operand is in normal form (a register operand is whatever the history made). -/
def Ref.NormalLit : Ref → Prop
  | .reg _ => True
  | .lit t => Normal t

def HRhs.NormalLit : HRhs → Prop
  | .text t => t.NormalLit
  | _ => True

/-- Every literal text of the op is in normal form, and the op is not a restyling
(`StyleText` keeps the normal form only when it does not map the styles of two
neighbours to one style: `C33_styleText_normal_partial`, finding
styletext-merges-neighbour-styles). -/
def HOp.NormalLits : HOp → Prop
  | .lit t => Normal t
  | .concat xs => ∀ x ∈ xs, x.NormalLit
  | .partition x _ | .split x _ | .trimw x _ | .clone x | .sub x _ _ | .rtextconcat x _ | .tbwrite x => x.NormalLit
  | .styletext _ _ => False
  | .textconcat x r => x.NormalLit ∧ r.NormalLit
  | .segconcat _ r => r.NormalLit
  | .rsegconcat _ _ | .tbtext | .tbreset => True

theorem resolve_normal (regs : List Text) (hr : ∀ t ∈ regs, Normal t) (x : Ref) (hx : x.NormalLit) (t : Text)
    (h : resolve regs x = some t) : Normal t := by
  cases x with
  | lit u => simp only [resolve, Option.some.injEq] at h; subst h; exact hx
  | reg i => exact hr t (List.mem_of_getElem? h)

theorem mapM_resolve_normal (regs : List Text) (hr : ∀ t ∈ regs, Normal t) :
    ∀ (xs : List Ref) (ts : List Text), (∀ x ∈ xs, x.NormalLit) → xs.mapM (resolve regs) = some ts → ∀ t ∈ ts, Normal t
  | [], ts, _, h => by
    simp only [List.mapM_nil, Option.pure_def, Option.some.injEq] at h
    subst h; intro t ht; simp at ht
  | x :: xs, ts, hx, h => by
    simp only [List.mapM_cons] at h
    cases h1 : resolve regs x with
    | none => simp [h1] at h
    | some t1 =>
      cases h2 : xs.mapM (resolve regs) with
      | none => simp [h1, h2] at h
      | some ts2 =>
        simp only [h1, h2, Option.pure_def, Option.bind_eq_bind, Option.bind_some, Option.some.injEq] at h
        subst h
        intro t ht
        rcases List.mem_cons.1 ht with rfl | ht
        · exact resolve_normal regs hr x (hx x (by simp)) _ h1
        · exact mapM_resolve_normal regs hr xs ts2 (fun y hy => hx y (by simp [hy])) h2 t ht

theorem subText_normal (t : Text) (lo hi : Nat) (r : Text) (ht : Normal t) (h : subText t lo hi = some r) : Normal r := by
  unfold subText at h
  split at h
  · simp only [Option.some.injEq] at h
    subst h
    have h1 : Normal (t.drop lo) := by
      have := ht; rw [← List.take_append_drop lo t] at this; exact Normal_append_right this
    rw [← List.take_append_drop (hi - lo) (t.drop lo)] at h1
    exact Normal_append_left h1
  · simp at h

end C33
