/-
Helper lemmas for C33 (round 2): styledown `Render` on one content line that
`Derender` produced: the rune loop consumes, for every segment, the segment's
runes against `Of(seg.Text)` copies of the segment's style character and writes
the runes back with the segment's style.
-/
import ElvProofs.C33.SdLines
import ElvModel.C33.Styledown
namespace C33
open Go C34.Utf8

/-- Sum of the widths of a rune list. -/
def OfR (wd : Int → Int) (rs : List Nat) : Int := (rs.map fun (r : Nat) => wd (r : Int)).sum

theorem OfR_nil (wd : Int → Int) : OfR wd [] = 0 := rfl
theorem OfR_cons (wd : Int → Int) (r : Nat) (rs : List Nat) : OfR wd (r :: rs) = wd (r : Int) + OfR wd rs := by
  simp [OfR]
theorem OfR_append (wd : Int → Int) (a b : List Nat) : OfR wd (a ++ b) = OfR wd a + OfR wd b := by
  simp [OfR]
theorem OfR_nonneg (wd : Int → Int) (nn : ∀ r, 0 ≤ wd r) (rs : List Nat) : 0 ≤ OfR wd rs :=
  C34.sum_wd_nonneg wd nn rs
theorem OfR_replicate (wd : Int → Int) (n : Nat) (c : Nat) : OfR wd (List.replicate n c) = n * wd (c : Int) := by
  induction n with
  | zero => simp [OfR]
  | succ n ih => rw [List.replicate_succ, OfR_cons, ih]; rw [Int.natCast_add, Int.add_mul]; simp; omega

theorem Of_eq_OfR (wd : Int → Int) (s : Bytes) : C34.Of wd s = OfR wd (toRunes s) := C34.Of_eq_toRunes wd s

theorem Of_encodeRunes (wd : Int → Int) (rs : List Nat) (h : ∀ r ∈ rs, validRune r = true) :
    C34.Of wd (encodeRunes rs) = OfR wd rs := by
  rw [Of_eq_OfR, toRunes_encodeRunes rs h]

theorem same_replicate (n : Nat) (c : Nat) : same (List.replicate n c) = true := by
  induction n with
  | zero => rfl
  | succ n ih =>
    cases n with
    | zero => rfl
    | succ m =>
      rw [List.replicate_succ, List.replicate_succ]
      simp only [same, beq_self_eq_true, Bool.true_and]
      rw [← List.replicate_succ]; exact ih

theorem encodeRunes_replicate (n : Nat) (c : Nat) :
    (List.replicate n (encodeRune c)).flatten = encodeRunes (List.replicate n c) := by
  induction n with
  | zero => rfl
  | succ n ih => rw [List.replicate_succ, List.replicate_succ, List.flatten_cons, encodeRunes_cons, ih]

theorem styledBytes_single_rune (st : Style) (r : Nat) :
    styledBytes [{ style := st, text := encodeRune r }] = (encodeRune r).map fun b => (st, b) := by
  simp [styledBytes]

/-- The rune loop of `Render` over the runes `rs` of one segment whose style character is `c`. -/
theorem renderLine_seg (wd : Int → Int) (nn : ∀ r, 0 ≤ wd r) (sheet : List (Rune × Style)) (st : Style) (c : Nat)
    (hc : sheetLookup sheet c = some st) (rs : List Nat)
    (hrs : ∀ r ∈ rs, validRune r = true ∧ r ≠ 10 ∧ wd (r : Int) ≠ 0) :
    ∀ (restT restS : List Nat) (tb : TB), TBInv tb →
    ∃ tb', renderLine wd sheet (rs ++ restT) (List.replicate (OfR wd rs).toNat c ++ restS) tb =
        renderLine wd sheet restT restS tb' ∧ TBInv tb' ∧
      styledBytes tb'.toText = styledBytes tb.toText ++ (encodeRunes rs).map fun b => (st, b) := by
  induction rs with
  | nil => intro restT restS tb h; exact ⟨tb, by simp [OfR], h, by simp [encodeRunes]⟩
  | cons r rs ih =>
    intro restT restS tb htb
    obtain ⟨hv, _, hw0⟩ := hrs r List.mem_cons_self
    have hw := nn (r : Int)
    have hrest := OfR_nonneg wd nn rs
    have hsplit : (OfR wd (r :: rs)).toNat = (wd (r : Int)).toNat + (OfR wd rs).toNat := by
      rw [OfR_cons]; omega
    have hrep : List.replicate (OfR wd (r :: rs)).toNat c =
        List.replicate (wd (r : Int)).toNat c ++ List.replicate (OfR wd rs).toNat c := by
      rw [hsplit, ← List.replicate_append_replicate]
    have hne : [({ style := st, text := encodeRune r } : Segment)] ≠ [] := by simp
    have hnorm : Normal [({ style := st, text := encodeRune r } : Segment)] :=
      (Normal_single _).2 (encodeRune_ne_nil r)
    obtain ⟨tb', e, i1, i2⟩ := ih (fun x hx => hrs x (List.mem_cons_of_mem _ hx)) restT restS
      (tb.writeText [{ style := st, text := encodeRune r }]) (TBInv_writeText _ _ htb hnorm)
    refine ⟨tb', ?_, i1, ?_⟩
    · rw [← e, hrep]
      simp only [List.cons_append, renderLine]
      rw [if_neg hw0, if_neg (by omega)]
      have hlen : ¬ ((List.replicate (wd (r : Int)).toNat c ++ (List.replicate (OfR wd rs).toNat c ++ restS)).length : Int) < wd (r : Int) := by
        simp only [List.length_append, List.length_replicate, Int.natCast_add]; omega
      rw [List.append_assoc, if_neg hlen]
      have htake : (List.replicate (wd (r : Int)).toNat c ++ (List.replicate (OfR wd rs).toNat c ++ restS)).take (wd (r : Int)).toNat =
          List.replicate (wd (r : Int)).toNat c := by
        rw [List.take_left' (by simp)]
      have hdrop : (List.replicate (wd (r : Int)).toNat c ++ (List.replicate (OfR wd rs).toNat c ++ restS)).drop (wd (r : Int)).toNat =
          List.replicate (OfR wd rs).toNat c ++ restS := by
        rw [List.drop_left' (by simp)]
      rw [htake, hdrop, same_replicate]
      simp only [Bool.not_true, Bool.false_eq_true, if_false]
      obtain ⟨k, hk⟩ : ∃ k, (wd (r : Int)).toNat = k + 1 := ⟨(wd (r : Int)).toNat - 1, by omega⟩
      rw [hk, List.replicate_succ]
      simp only [List.cons_append, List.head?_cons, hc]
    · rw [i2, styledBytes_writeText', styledBytes_single_rune, encodeRunes_cons, List.map_append, List.append_assoc]

/-- The style line `Derender` writes for a line (`cf` = `charForStyle`). -/
def styleOf (wd : Int → Int) (cf : Style → Option Rune) : Text → Bytes
  | [] => []
  | seg :: rest =>
    (match cf seg.style with
      | some c => (List.replicate (C34.Of wd seg.text).toNat (encodeRune c)).flatten
      | none => []) ++ styleOf wd cf rest

/-- A line segment `Derender` can express and `Render` (with the final style sheet) reads back. -/
def SegOK (wd : Int → Int) (cf : Style → Option Rune) (sheet : List (Rune × Style)) (seg : Segment) : Prop :=
  LineTxt wd seg.text ∧ ∃ c : Nat, cf seg.style = some c ∧ validRune c = true ∧ c ≠ 10 ∧ wd (c : Int) = 1 ∧
    sheetLookup sheet c = some seg.style

theorem Of_encodeRunes_append (wd : Int → Int) (rs : List Nat) (h : ∀ r ∈ rs, validRune r = true) (X : Bytes) :
    C34.Of wd (encodeRunes rs ++ X) = OfR wd rs + C34.Of wd X := by
  rw [Of_eq_OfR, toRunes_encodeRunes_append rs h, OfR_append, ← Of_eq_OfR]

theorem renderLine_line (wd : Int → Int) (nn : ∀ r, 0 ≤ wd r) (sheet : List (Rune × Style)) (cf : Style → Option Rune)
    (line : Text) (h : ∀ seg ∈ line, SegOK wd cf sheet seg) : ∀ tb : TB, TBInv tb →
    ∃ tb', renderLine wd sheet (toRunes (plain line)) (toRunes (styleOf wd cf line)) tb = .ok tb' ∧ TBInv tb' ∧
      styledBytes tb'.toText = styledBytes tb.toText ++ styledBytes line := by
  induction line with
  | nil => intro tb htb; exact ⟨tb, rfl, htb, by simp [styledBytes]⟩
  | cons seg rest ih =>
    intro tb htb
    obtain ⟨⟨rs, hrs, htxt⟩, c, hcf, hcv, _, hcw, hsl⟩ := h seg List.mem_cons_self
    have hval : ∀ r ∈ rs, validRune r = true := fun r hr => (hrs r hr).1
    have hn : (C34.Of wd seg.text).toNat = (OfR wd rs).toNat := by rw [htxt, Of_encodeRunes wd rs hval]
    have e1 : toRunes (plain (seg :: rest)) = rs ++ toRunes (plain rest) := by
      rw [plain_cons, htxt, toRunes_encodeRunes_append rs hval]
    have e2 : toRunes (styleOf wd cf (seg :: rest)) =
        List.replicate (OfR wd rs).toNat c ++ toRunes (styleOf wd cf rest) := by
      simp only [styleOf, hcf]
      rw [hn, encodeRunes_replicate, toRunes_encodeRunes_append _ (by
        intro r hr; rw [(List.mem_replicate.1 hr).2]; exact hcv)]
    obtain ⟨tb1, f1, f2, f3⟩ := renderLine_seg wd nn sheet seg.style c hsl rs hrs (toRunes (plain rest))
      (toRunes (styleOf wd cf rest)) tb htb
    obtain ⟨tb2, g1, g2, g3⟩ := ih (fun x hx => h x (List.mem_cons_of_mem _ hx)) tb1 f2
    refine ⟨tb2, by rw [e1, e2, f1, g1], g2, ?_⟩
    rw [g3, f3, styledBytes_cons, htxt, List.append_assoc]

theorem line_widths (wd : Int → Int) (nn : ∀ r, 0 ≤ wd r) (sheet : List (Rune × Style)) (cf : Style → Option Rune)
    (line : Text) (h : ∀ seg ∈ line, SegOK wd cf sheet seg) :
    C34.Of wd (plain line) = C34.Of wd (styleOf wd cf line) := by
  induction line with
  | nil => rfl
  | cons seg rest ih =>
    obtain ⟨⟨rs, hrs, htxt⟩, c, hcf, hcv, _, hcw, _⟩ := h seg List.mem_cons_self
    have hval : ∀ r ∈ rs, validRune r = true := fun r hr => (hrs r hr).1
    have hn : (C34.Of wd seg.text).toNat = (OfR wd rs).toNat := by rw [htxt, Of_encodeRunes wd rs hval]
    have h0 := OfR_nonneg wd nn rs
    rw [plain_cons, htxt, Of_encodeRunes_append wd rs hval]
    simp only [styleOf, hcf]
    rw [hn, encodeRunes_replicate, Of_encodeRunes_append wd _ (by
        intro r hr; rw [(List.mem_replicate.1 hr).2]; exact hcv), OfR_replicate, hcw,
      ih (fun x hx => h x (List.mem_cons_of_mem _ hx))]
    omega

theorem line_no_nl (wd : Int → Int) (sheet : List (Rune × Style)) (cf : Style → Option Rune)
    (line : Text) (h : ∀ seg ∈ line, SegOK wd cf sheet seg) :
    (∀ b ∈ plain line, b ≠ 10) ∧ ∀ b ∈ styleOf wd cf line, b ≠ 10 := by
  induction line with
  | nil => exact ⟨by intro b hb; simp [plain] at hb, by intro b hb; simp [styleOf] at hb⟩
  | cons seg rest ih =>
    obtain ⟨hlt, c, hcf, hcv, hc10, _, _⟩ := h seg List.mem_cons_self
    obtain ⟨i1, i2⟩ := ih (fun x hx => h x (List.mem_cons_of_mem _ hx))
    constructor
    · intro b hb
      rw [plain_cons] at hb
      rcases List.mem_append.1 hb with hb | hb
      · exact hlt.no_nl b hb
      · exact i1 b hb
    · intro b hb
      simp only [styleOf, hcf] at hb
      rcases List.mem_append.1 hb with hb | hb
      · simp only [List.mem_flatten, List.mem_replicate] at hb
        obtain ⟨l, ⟨_, rfl⟩, hb⟩ := hb
        exact encodeRune_no_nl c hcv hc10 b hb
      · exact i2 b hb

end C33
