/-
Helper lemmas for C33 (round 2): styledown `Derender` — what the `styleDefs` loop
establishes about `charForStyle`/`charDef`, and the shape of the markup the
segment/line loops produce (content and style lines, the definitions written to
the configuration stanza in order of first use, each once).
-/
import ElvProofs.C33.SdMarkup
namespace C33
open Go C34.Utf8

/-- What is assumed of `pd` (the `strings.Fields`/`DecodeRuneInString`/`ParseStyling`
part of `parseStyleCharDef`): the style character is a scalar value (it equals
`string(r)`), it is not a newline (a field contains no white space), and a line
whose character is single-width is not zero-width itself (the character occurs
in it).  `"no-eol"` has a single field, so it is not a definition. -/
structure PdOK (wd : Int → Int) (pd : DefParser) : Prop where
  valid : ∀ line r st, pd line = some (r, st) → validRune r = true ∧ r ≠ 10
  width : ∀ line r st, pd line = some (r, st) → wd (r : Int) = 1 → C34.Of wd line ≠ 0
  noeol : pd noEolLine = none

theorem parseDef_some {wd : Int → Int} {pd : DefParser} {line : Bytes} {r : Rune} {st : Style}
    (h : parseDef wd pd line = some (r, st)) : pd line = some (r, st) ∧ wd (r : Int) = 1 := by
  unfold parseDef at h
  split at h
  · rename_i r' st' hp
    split at h
    · rename_i hw
      simp only [Option.some.injEq, Prod.mk.injEq] at h
      obtain ⟨rfl, rfl⟩ := h
      exact ⟨hp, hw⟩
    · simp at h
  · simp at h

/-- Facts about `charForStyle` (`cfs`) and `charDef` (`cds`) after the `styleDefs` loop. -/
structure DefsOK (wd : Int → Int) (pd : DefParser) (cfs : List (Style × Rune)) (cds : List (Rune × Bytes)) : Prop where
  cfs_cds : ∀ st r, cfs.lookup st = some r → ∃ line, cds.lookup r = some line ∧ parseDef wd pd line = some (r, st)
  cds_ok : ∀ r line, cds.lookup r = some line →
    line ≠ [] ∧ (∀ b ∈ line, b ≠ 10) ∧ ∃ st, parseDef wd pd line = some (r, st)

theorem derenderDefs_ok (wd : Int → Int) (pd : DefParser) (X : List Bytes) (hX : ∀ x ∈ X, ∀ b ∈ x, b ≠ 10) :
    ∀ cfs cds cfs' cds', DefsOK wd pd cfs cds → derenderDefs wd pd X cfs cds = some (cfs', cds') →
      DefsOK wd pd cfs' cds' := by
  induction X with
  | nil =>
    intro cfs cds cfs' cds' h e
    simp only [derenderDefs, Option.some.injEq, Prod.mk.injEq] at e
    obtain ⟨rfl, rfl⟩ := e; exact h
  | cons line X ih =>
    intro cfs cds cfs' cds' h e
    have hX' : ∀ x ∈ X, ∀ b ∈ x, b ≠ 10 := fun x hx => hX x (List.mem_cons_of_mem _ hx)
    simp only [derenderDefs] at e
    split at e
    · exact ih hX' _ _ _ _ h e
    · rename_i hne
      split at e
      · simp at e
      · rename_i r st hpd
        split at e
        · simp at e
        · rename_i hcf
          split at e
          · simp at e
          · rename_i hcd
            simp only [Option.isSome_iff_exists, not_exists] at hcf hcd
            have hcf' : cfs.lookup st = none := by
              cases hh : cfs.lookup st with
              | none => rfl
              | some x => exact absurd hh (hcf x)
            have hcd' : cds.lookup r = none := by
              cases hh : cds.lookup r with
              | none => rfl
              | some x => exact absurd hh (hcd x)
            refine ih hX' _ _ _ _ ?_ e
            constructor
            · intro st' r' hl
              rw [List.lookup_append] at hl
              cases hh : cfs.lookup st' with
              | some x =>
                rw [hh] at hl
                simp only [Option.some_or, Option.some.injEq] at hl
                subst hl
                obtain ⟨l, h1, h2⟩ := h.cfs_cds st' x hh
                exact ⟨l, by rw [List.lookup_append, h1]; rfl, h2⟩
              | none =>
                rw [hh] at hl
                simp only [Option.none_or, List.lookup_cons, List.lookup_nil] at hl
                split at hl
                · rename_i heq
                  simp only [Option.some.injEq] at hl
                  have : st' = st := by simpa using heq
                  subst this; subst hl
                  exact ⟨line, by rw [List.lookup_append, hcd']; simp [List.lookup_cons], hpd⟩
                · simp at hl
            · intro r' l hl
              rw [List.lookup_append] at hl
              cases hh : cds.lookup r' with
              | some x =>
                rw [hh] at hl
                simp only [Option.some_or, Option.some.injEq] at hl
                subst hl
                exact h.cds_ok r' x hh
              | none =>
                rw [hh] at hl
                simp only [Option.none_or, List.lookup_cons, List.lookup_nil] at hl
                split at hl
                · rename_i heq
                  simp only [Option.some.injEq] at hl
                  have : r' = r := by simpa using heq
                  subst this; subst hl
                  refine ⟨?_, hX line List.mem_cons_self, st, hpd⟩
                  intro he; rw [he] at hne; simp at hne
                · simp at hl

theorem DefsOK.empty (wd : Int → Int) (pd : DefParser) : DefsOK wd pd [] [] :=
  ⟨by intro st r h; simp at h, by intro r l h; simp at h⟩

/-! ### the segment and line loops -/

theorem lookup_markWritten (cds : List (Rune × Bytes)) (c r : Rune) :
    (markWritten cds c).lookup r = if r = c then (cds.lookup r).map (fun _ => []) else cds.lookup r := by
  induction cds with
  | nil => simp [markWritten]
  | cons p cds ih =>
    obtain ⟨k, v⟩ := p
    simp only [markWritten, List.map_cons] at ih ⊢
    by_cases hk : k = c
    · subst hk
      simp only [beq_self_eq_true, if_true, List.lookup_cons]
      by_cases hr : r = k
      · subst hr; simp
      · have : (r == k) = false := by simpa using hr
        simp only [this, if_neg hr] at ih ⊢
        exact ih
    · have : (k == c) = false := by simpa using hk
      simp only [this, Bool.false_eq_true, if_false, List.lookup_cons]
      by_cases hr : r = k
      · subst hr; simp [hk]
      · have h2 : (r == k) = false := by simpa using hr
        simp only [h2]
        exact ih

/-- A definition written to the configuration stanza: character, style, definition line. -/
abbrev WEntry := Rune × Style × Bytes

/-- The state of `Derender`'s loops: `W` lists the definitions written so far, in order. -/
structure WInv (wd : Int → Int) (pd : DefParser) (cds0 : List (Rune × Bytes)) (config0 : Bytes)
    (cds : List (Rune × Bytes)) (config : Bytes) (W : List WEntry) : Prop where
  cfg : config = config0 ++ nlCat (W.map (·.2.2))
  ent : ∀ w ∈ W, cds0.lookup w.1 = some w.2.2 ∧ parseDef wd pd w.2.2 = some (w.1, w.2.1)
  wr : ∀ r, r ∈ W.map (·.1) → cds.lookup r = some []
  un : ∀ r, r ∉ W.map (·.1) → cds.lookup r = cds0.lookup r
  nd : (W.map (·.1)).Nodup

/-- The style of the segment has a character: a builtin one that `styleDefs` does not redefine, or
one whose definition has been written. -/
def Settled (cfs : List (Style × Rune)) (cds0 : List (Rune × Bytes)) (W : List WEntry) (seg : Segment) : Prop :=
  ∃ c : Nat, charFor cfs cds0 seg.style = some c ∧
    ((cds0.lookup c = none ∧ builtinChars.lookup c = some seg.style) ∨ ∃ line, (c, seg.style, line) ∈ W)

theorem Settled.mono {cfs cds0 W seg} (X : List WEntry) (h : Settled cfs cds0 W seg) : Settled cfs cds0 (W ++ X) seg := by
  obtain ⟨c, h1, h2⟩ := h
  refine ⟨c, h1, ?_⟩
  rcases h2 with h2 | ⟨l, hl⟩
  · exact Or.inl h2
  · exact Or.inr ⟨l, List.mem_append_left _ hl⟩

theorem builtin_lookup : ∀ b ∈ builtinChars, builtinChars.lookup b.1 = some b.2 := by decide

theorem derenderSegs_spec (wd : Int → Int) (pd : DefParser) (cfs : List (Style × Rune)) (cds0 : List (Rune × Bytes))
    (config0 : Bytes) (dok : DefsOK wd pd cfs cds0) (line : Text) :
    ∀ (st : DLine) (W : List WEntry) (st' : DLine), WInv wd pd cds0 config0 st.cds st.config W →
      derenderSegs wd cfs cds0 line st = .ok st' →
    ∃ X, WInv wd pd cds0 config0 st'.cds st'.config (W ++ X) ∧ st'.content = st.content ++ plain line ∧
      st'.style = st.style ++ styleOf wd (charFor cfs cds0) line ∧ ∀ seg ∈ line, Settled cfs cds0 (W ++ X) seg := by
  induction line with
  | nil =>
    intro st W st' inv e
    simp only [derenderSegs, Res.ok.injEq] at e
    subst e
    exact ⟨[], by rw [List.append_nil]; exact inv, by simp [plain], by simp [styleOf], by intro s hs; simp at hs⟩
  | cons seg rest ih =>
    intro st W st' inv e
    simp only [derenderSegs] at e
    cases hcf : charFor cfs cds0 seg.style with
    | none => rw [hcf] at e; simp at e
    | some c =>
      rw [hcf] at e
      simp only at e
      have hrep : repeatRune c (C34.Of wd seg.text) =
          .ok ((List.replicate (C34.Of wd seg.text).toNat (encodeRune c)).flatten) ∨
          ∃ p, repeatRune c (C34.Of wd seg.text) = .panic p := by
        unfold repeatRune; split
        · exact Or.inr ⟨_, rfl⟩
        · exact Or.inl rfl
      rcases hrep with hrep | ⟨p, hrep⟩
      · rw [hrep] at e
        simp only at e
        -- where the character comes from
        have horigin : (cds0.lookup c = none ∧ builtinChars.lookup c = some seg.style) ∨
            ∃ l, cds0.lookup c = some l ∧ parseDef wd pd l = some (c, seg.style) ∧ l ≠ [] := by
          unfold charFor at hcf
          split at hcf
          · rename_i b hb
            simp only [Option.some.injEq] at hcf
            subst hcf
            have hp := List.find?_some hb
            simp only [Bool.and_eq_true, beq_iff_eq, Option.isNone_iff_eq_none] at hp
            have hm := List.mem_of_find?_eq_some hb
            exact Or.inl ⟨hp.2, by rw [builtin_lookup b hm, hp.1]⟩
          · obtain ⟨l, h1, h2⟩ := dok.cfs_cds _ _ hcf
            exact Or.inr ⟨l, h1, h2, (dok.cds_ok c l h1).1⟩
        -- one step, then the rest
        have step : ∃ X1 cds1 config1, WInv wd pd cds0 config0 cds1 config1 (W ++ X1) ∧
            Settled cfs cds0 (W ++ X1) seg ∧
            derenderSegs wd cfs cds0 rest
              { content := st.content ++ seg.text,
                style := st.style ++ (List.replicate (C34.Of wd seg.text).toNat (encodeRune c)).flatten,
                cds := cds1, config := config1 } = .ok st' := by
          by_cases hW : c ∈ W.map (·.1)
          · -- already written
            have hl := inv.wr c hW
            rw [hl] at e
            simp only [List.isEmpty_nil, if_true] at e
            refine ⟨[], st.cds, st.config, by rw [List.append_nil]; exact inv, ?_, e⟩
            rw [List.append_nil]
            obtain ⟨w, hw, hwc⟩ := List.mem_map.1 hW
            obtain ⟨e1, e2⟩ := inv.ent w hw
            rcases horigin with ⟨h0, _⟩ | ⟨l, h1, h2, _⟩
            · rw [hwc, h0] at e1; simp at e1
            · rw [hwc, h1] at e1
              simp only [Option.some.injEq] at e1
              rw [← e1, h2] at e2
              simp only [Option.some.injEq, Prod.mk.injEq] at e2
              refine ⟨c, hcf, Or.inr ⟨w.2.2, ?_⟩⟩
              have : w = (c, seg.style, w.2.2) := by
                obtain ⟨a, b, d⟩ := w
                simp only at hwc e2 ⊢
                rw [hwc, ← e2.2]
              rw [← this]; exact hw
          · have hl := inv.un c hW
            rcases horigin with ⟨h0, hb⟩ | ⟨l, h1, h2, hne⟩
            · rw [hl, h0] at e
              simp only [List.isEmpty_nil, if_true] at e
              exact ⟨[], st.cds, st.config, by rw [List.append_nil]; exact inv,
                ⟨c, hcf, Or.inl ⟨h0, hb⟩⟩, e⟩
            · rw [hl, h1] at e
              have hnel : l.isEmpty = false := by
                cases l with
                | nil => exact absurd rfl hne
                | cons a b => rfl
              simp only [hnel, Bool.false_eq_true, if_false] at e
              refine ⟨[(c, seg.style, l)], markWritten st.cds c, st.config ++ l ++ [10], ?_,
                ⟨c, hcf, Or.inr ⟨l, by simp⟩⟩, e⟩
              constructor
              · rw [inv.cfg, List.map_append, nlCat_append]
                simp [nlCat]
              · intro w hw
                rcases List.mem_append.1 hw with hw | hw
                · exact inv.ent w hw
                · simp only [List.mem_singleton] at hw; subst hw; exact ⟨h1, h2⟩
              · intro r hr
                rw [lookup_markWritten]
                simp only [List.map_append, List.map_cons, List.map_nil, List.mem_append, List.mem_singleton] at hr
                by_cases hrc : r = c
                · rw [if_pos hrc, hrc, hl, h1]; rfl
                · rw [if_neg hrc]
                  rcases hr with hr | hr
                  · exact inv.wr r hr
                  · exact absurd hr hrc
              · intro r hr
                rw [lookup_markWritten]
                simp only [List.map_append, List.map_cons, List.map_nil, List.mem_append, List.mem_singleton, not_or] at hr
                rw [if_neg hr.2]
                exact inv.un r hr.1
              · simp only [List.map_append, List.map_cons, List.map_nil]
                rw [List.nodup_append]
                refine ⟨inv.nd, by simp, ?_⟩
                intro a ha b hb
                simp only [List.mem_singleton] at hb
                subst hb
                intro hab; subst hab; exact hW ha
        obtain ⟨X1, cds1, config1, inv1, set1, e1⟩ := step
        obtain ⟨X2, inv2, c2, s2, set2⟩ := ih _ (W ++ X1) st' inv1 e1
        refine ⟨X1 ++ X2, by rw [← List.append_assoc]; exact inv2, ?_, ?_, ?_⟩
        · rw [c2, plain_cons]; simp
        · rw [s2]; simp only [styleOf, hcf]; simp
        · intro s hs
          rw [← List.append_assoc]
          rcases List.mem_cons.1 hs with rfl | hs
          · exact set1.mono X2
          · exact set2 s hs
      · rw [hrep] at e; simp at e

theorem derenderLines_spec (wd : Int → Int) (pd : DefParser) (cfs : List (Style × Rune)) (cds0 : List (Rune × Bytes))
    (config0 : Bytes) (dok : DefsOK wd pd cfs cds0) (L : List Text) :
    ∀ (sb : Bytes) (cds : List (Rune × Bytes)) (config : Bytes) (W : List WEntry) (out : Bytes × Bytes),
      WInv wd pd cds0 config0 cds config W → derenderLines wd cfs cds0 L sb cds config = .ok out →
    ∃ X cds', WInv wd pd cds0 config0 cds' out.2 (W ++ X) ∧
      out.1 = sb ++ nlCat (bodyLines wd (charFor cfs cds0) L) ∧
      ∀ l ∈ L, ∀ seg ∈ l, Settled cfs cds0 (W ++ X) seg := by
  induction L with
  | nil =>
    intro sb cds config W out inv e
    simp only [derenderLines, Res.ok.injEq] at e
    subst e
    exact ⟨[], cds, by rw [List.append_nil]; exact inv, by simp [bodyLines, nlCat], by intro l hl; simp at hl⟩
  | cons line rest ih =>
    intro sb cds config W out inv e
    simp only [derenderLines] at e
    cases hs : derenderSegs wd cfs cds0 line { cds := cds, config := config } with
    | ok st =>
      rw [hs] at e
      simp only at e
      obtain ⟨X1, inv1, c1, s1, set1⟩ := derenderSegs_spec wd pd cfs cds0 config0 dok line
        { cds := cds, config := config } W st inv hs
      obtain ⟨X2, cds', inv2, o2, set2⟩ := ih _ _ _ (W ++ X1) out inv1 e
      refine ⟨X1 ++ X2, cds', by rw [← List.append_assoc]; exact inv2, ?_, ?_⟩
      · rw [o2, c1, s1]
        simp [bodyLines, nlCat]
      · intro l hl seg hseg
        rw [← List.append_assoc]
        rcases List.mem_cons.1 hl with rfl | hl
        · exact (set1 seg hseg).mono X2
        · exact set2 l hl seg hseg
    | exc x => rw [hs] at e; simp at e
    | panic x => rw [hs] at e; simp at e

/-- `parseConfig` on the definition lines `Derender` wrote: the sheet lists them in order. -/
theorem parseConfig_written (wd : Int → Int) (pd : DefParser) (hpd : PdOK wd pd) (W : List WEntry) :
    ∀ (ne : Bool) (sheet0 : List (Rune × Style)),
      (∀ w ∈ W, w.2.2 ≠ [] ∧ parseDef wd pd w.2.2 = some (w.1, w.2.1) ∧ sheet0.lookup w.1 = none) →
      (W.map (·.1)).Nodup →
    parseConfig wd pd (W.map (·.2.2)) ne sheet0 = some (ne, sheet0 ++ W.map fun w => (w.1, w.2.1)) := by
  induction W with
  | nil => intro ne sheet0 _ _; simp [parseConfig]
  | cons w W ih =>
    intro ne sheet0 h nd
    obtain ⟨h1, h2, h3⟩ := h w List.mem_cons_self
    simp only [List.map_cons, List.nodup_cons] at nd
    simp only [List.map_cons, parseConfig]
    have he : w.2.2.isEmpty = false := by
      cases hh : w.2.2 with
      | nil => exact absurd hh h1
      | cons a b => rfl
    have hn : w.2.2 ≠ noEolLine := by
      intro hh
      have := (parseDef_some h2).1
      rw [hh, hpd.noeol] at this
      simp at this
    rw [he]
    simp only [Bool.false_eq_true, if_false, if_neg hn, h2, h3]
    rw [ih ne (sheet0 ++ [(w.1, w.2.1)]) ?_ nd.2]
    · simp
    · intro w' hw'
      obtain ⟨a, b, c⟩ := h w' (List.mem_cons_of_mem _ hw')
      refine ⟨a, b, ?_⟩
      rw [List.lookup_append, c]
      simp only [Option.none_or, List.lookup_cons, List.lookup_nil]
      have : w'.1 ≠ w.1 := by
        intro hh
        exact nd.1 (by rw [← hh]; exact List.mem_map.2 ⟨w', hw', rfl⟩)
      have : (w'.1 == w.1) = false := by simpa using this
      rw [this]

theorem lookup_written (W : List WEntry) (nd : (W.map (·.1)).Nodup) (c : Rune) (st : Style) (l : Bytes)
    (h : (c, st, l) ∈ W) : (W.map fun w => (w.1, w.2.1)).lookup c = some st := by
  induction W with
  | nil => simp at h
  | cons w W ih =>
    simp only [List.map_cons, List.nodup_cons] at nd
    simp only [List.map_cons, List.lookup_cons]
    rcases List.mem_cons.1 h with h | h
    · rw [← h]; simp
    · have : c ≠ w.1 := by
        intro hh
        exact nd.1 (by rw [← hh]; exact List.mem_map.2 ⟨_, h, rfl⟩)
      have : (c == w.1) = false := by simpa using this
      rw [this]
      exact ih nd.2 h

theorem lookup_unwritten (W : List WEntry) (c : Rune) (h : c ∉ W.map (·.1)) :
    (W.map fun w => (w.1, w.2.1)).lookup c = none := by
  induction W with
  | nil => rfl
  | cons w W ih =>
    simp only [List.map_cons, List.mem_cons, not_or] at h
    simp only [List.map_cons, List.lookup_cons]
    have : (c == w.1) = false := by simpa using h.1
    rw [this]
    exact ih h.2

theorem builtin_char_props (c : Rune) (s : Style) (h : builtinChars.lookup c = some s) :
    validRune c = true ∧ c ≠ 10 ∧ (0x20 : Nat) ≤ c ∧ @LT.lt Nat _ c 0x7f := by
  have : c = 0x20 ∨ c = 0x2A ∨ c = 0x5F ∨ c = 0x23 := by
    simp only [builtinChars, List.lookup_cons, List.lookup_nil] at h
    by_cases h1 : c = 0x20
    · exact Or.inl h1
    · by_cases h2 : c = 0x2A
      · exact Or.inr (Or.inl h2)
      · by_cases h3 : c = 0x5F
        · exact Or.inr (Or.inr (Or.inl h3))
        · by_cases h4 : c = 0x23
          · exact Or.inr (Or.inr (Or.inr h4))
          · have e1 : (c == 0x20) = false := by simpa using h1
            have e2 : (c == 0x2A) = false := by simpa using h2
            have e3 : (c == 0x5F) = false := by simpa using h3
            have e4 : (c == 0x23) = false := by simpa using h4
            simp [e1, e2, e3, e4] at h
  rcases this with rfl | rfl | rfl | rfl <;> decide

end C33
