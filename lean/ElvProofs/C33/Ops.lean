/-
Helper lemmas for C33: T, StyleText, Partition, SplitByRune, TrimWcwidth.
-/
import ElvModel.C33.Model
import ElvProofs.C33.Normal
import ElvProofs.C34.Trim
namespace C33
open Go

/-! ### T and StyleText -/

theorem T_eq (s : Bytes) (ts : List Styling) :
    T s ts = if s = [] then [] else [{ style := applyStyling {} ts, text := s }] := by
  unfold T styleText styleSegment
  cases s <;> simp

theorem plain_styleText (t : Text) (ts : List Styling) : plain (styleText t ts) = plain t := by
  unfold styleText
  split
  · rename_i h; simp only [List.isEmpty_iff] at h; subst h; rfl
  · simp [plain, styleSegment, Function.comp_def]

theorem styleText_length (t : Text) (ts : List Styling) : (styleText t ts).length = t.length := by
  unfold styleText
  split
  · rename_i h; simp only [List.isEmpty_iff] at h; subst h; rfl
  · simp

/-- No two neighbours of `t` get the same style from `ts`. -/
def NoMergedNeighbours (ts : List Styling) : Text → Prop
  | a :: b :: r => applyStyling a.style ts ≠ applyStyling b.style ts ∧ NoMergedNeighbours ts (b :: r)
  | _ => True

instance decNoMerged (ts : List Styling) : (t : Text) → Decidable (NoMergedNeighbours ts t)
  | [] => isTrue trivial
  | [_] => isTrue trivial
  | a :: b :: r => by
    unfold NoMergedNeighbours
    exact @instDecidableAnd _ _ inferInstance (decNoMerged ts (b :: r))

theorem map_styleSegment_normal_iff (t : Text) (ts : List Styling) (h : Normal t) :
    Normal (t.map fun seg => styleSegment seg ts) ↔ NoMergedNeighbours ts t := by
  induction t with
  | nil => simp [NoMergedNeighbours, Normal, normalB]
  | cons a r ih =>
    cases r with
    | nil =>
      simp only [List.map_cons, List.map_nil, NoMergedNeighbours, iff_true]
      have ha : a.text ≠ [] := Normal_head h
      exact (Normal_single _).2 ha
    | cons b r =>
      obtain ⟨h1, h2, h3⟩ := (Normal_cons2 a b r).1 h
      have ih' := ih h3
      simp only [List.map_cons] at ih' ⊢
      simp only [NoMergedNeighbours]
      rw [Normal_cons2, ih']
      simp only [styleSegment]
      constructor
      · rintro ⟨_, x, y⟩; exact ⟨x, y⟩
      · rintro ⟨x, y⟩; exact ⟨h1, x, y⟩

theorem styleText_normal_iff (t : Text) (ts : List Styling) (h : Normal t) :
    Normal (styleText t ts) ↔ NoMergedNeighbours ts t := by
  have e : styleText t ts = t.map fun seg => styleSegment seg ts := by
    unfold styleText; split
    · rename_i h; simp only [List.isEmpty_iff] at h; subst h; rfl
    · rfl
  rw [e]; exact map_styleSegment_normal_iff t ts h

/-! ### Partition -/

theorem consume_content (segs : Text) (k : Int) :
    styledBytes (consume segs k).1 ++ styledBytes (consume segs k).2 = styledBytes segs := by
  induction segs generalizing k with
  | nil => rfl
  | cons seg rest ih =>
    unfold consume
    split
    · split
      · simp only
        rw [styledBytes_cons, List.append_assoc, ih, styledBytes_cons]
      · simp only [styledBytes_cons, styledBytes_nil, List.append_nil, ← List.append_assoc, ← List.map_append,
          List.take_append_drop]
    · simp [styledBytes_nil]

theorem consume_head (segs : Text) (k : Int) (a : Segment) (h : (consume segs k).1.head? = some a) :
    ∃ b, segs.head? = some b ∧ a.style = b.style := by
  cases segs with
  | nil => simp [consume] at h
  | cons seg rest =>
    unfold consume at h
    split at h
    · split at h
      · simp only [List.head?_cons, Option.some.injEq] at h; subst h; exact ⟨_, rfl, rfl⟩
      · simp only [List.head?_cons, Option.some.injEq] at h; subst h; exact ⟨_, rfl, rfl⟩
    · simp at h

theorem consume_normal (segs : Text) (k : Int) (h : Normal segs) :
    Normal (consume segs k).1 ∧ Normal (consume segs k).2 := by
  induction segs generalizing k with
  | nil => exact ⟨Normal_nil, Normal_nil⟩
  | cons seg rest ih =>
    have hne := Normal_head h
    unfold consume
    split
    · rename_i hk
      split
      · rename_i hlen
        simp only
        obtain ⟨ia, ib⟩ := ih (k - seg.text.length) (Normal_tail h)
        refine ⟨?_, ib⟩
        cases ha : (consume rest (k - seg.text.length)).1 with
        | nil => exact (Normal_single seg).2 hne
        | cons a0 a' =>
          rw [ha] at ia
          obtain ⟨b0, hb0, hst⟩ := consume_head rest (k - seg.text.length) a0 (by rw [ha]; rfl)
          cases rest with
          | nil => simp at hb0
          | cons r0 rest' =>
            simp only [List.head?_cons, Option.some.injEq] at hb0
            subst hb0
            obtain ⟨_, hd, _⟩ := (Normal_cons2 seg r0 rest').1 h
            exact (Normal_cons2 seg a0 a').2 ⟨hne, by rw [hst]; exact hd, ia⟩
      · rename_i hlen
        have hk' : k.toNat < seg.text.length := by omega
        have hk0 : 0 < k.toNat := by omega
        refine ⟨(Normal_single _).2 ?_, ?_⟩
        · simp only; intro he
          have := congrArg List.length he
          simp only [List.length_take, List.length_nil] at this; omega
        · have hd : (seg.text.drop k.toNat) ≠ [] := by
            intro he
            have := congrArg List.length he
            simp only [List.length_drop, List.length_nil] at this; omega
          cases rest with
          | nil => exact (Normal_single _).2 hd
          | cons r0 rest' =>
            obtain ⟨_, hdiff, hr⟩ := (Normal_cons2 seg r0 rest').1 h
            exact (Normal_cons2 _ r0 rest').2 ⟨hd, hdiff, hr⟩
    · exact ⟨Normal_nil, h⟩

theorem partitionGo_normal (segs : Text) (prev : Int) (idx : List Int) (h : Normal segs) :
    ∀ p ∈ partitionGo segs prev idx, Normal p := by
  induction idx generalizing segs prev with
  | nil => intro p hp; simp only [partitionGo, List.mem_singleton] at hp; subst hp; exact h
  | cons i rest ih =>
    intro p hp
    simp only [partitionGo] at hp
    obtain ⟨na, nb⟩ := consume_normal segs (i - prev) h
    rcases List.mem_cons.1 hp with rfl | hp
    · exact na
    · exact ih _ i nb p hp

theorem partitionGo_content (segs : Text) (prev : Int) (idx : List Int) :
    ((partitionGo segs prev idx).map styledBytes).flatten = styledBytes segs := by
  induction idx generalizing segs prev with
  | nil => simp [partitionGo]
  | cons i rest ih =>
    simp only [partitionGo, List.map_cons, List.flatten_cons]
    rw [ih, consume_content]

theorem partitionGo_length (segs : Text) (prev : Int) (idx : List Int) :
    (partitionGo segs prev idx).length = idx.length + 1 := by
  induction idx generalizing segs prev with
  | nil => rfl
  | cons i rest ih => simp only [partitionGo, List.length_cons, ih]

/-- Consuming `k` bytes with `0 ≤ k ≤ len` takes exactly `k` bytes. -/
theorem consume_size (segs : Text) (k : Int) (h0 : 0 ≤ k) (hk : k ≤ (plain segs).length) :
    ((plain (consume segs k).1).length : Int) = k := by
  induction segs generalizing k with
  | nil => simp [plain] at hk; simp [consume, plain]; omega
  | cons seg rest ih =>
    unfold consume
    rw [plain_cons, List.length_append] at hk
    split
    · split
      · rename_i hlen
        simp only
        rw [plain_cons, List.length_append]
        have := ih (k - seg.text.length) (by omega) (by omega)
        omega
      · rename_i hlen
        simp only [plain_cons, plain_nil, List.append_nil, List.length_take]
        omega
    · simp only [plain_nil, List.length_nil]; omega

/-! ### SplitByRune -/

/-- `strings.Join(parts, sep)` -/
def joinSep (sep : Bytes) : List Bytes → Bytes
  | [] => []
  | [p] => p
  | p :: q :: r => p ++ sep ++ joinSep sep (q :: r)

theorem splitGo_ne_nil (sep : Bytes) (k : Nat) (s : Bytes) : splitGo sep k s ≠ [] := by
  induction s generalizing k with
  | nil => simp [splitGo]
  | cons b t ih =>
    cases k with
    | succ k => simp only [splitGo]; exact ih k
    | zero =>
      simp only [splitGo]
      split
      · simp
      · split <;> simp

theorem joinSep_cons_cons (sep p : Bytes) (L : List Bytes) (h : L ≠ []) :
    joinSep sep (p :: L) = p ++ sep ++ joinSep sep L := by
  cases L with
  | nil => exact absurd rfl h
  | cons q r => rfl

theorem joinSep_prepend (sep : Bytes) (b : UInt8) (p : Bytes) (ps : List Bytes) :
    joinSep sep ((b :: p) :: ps) = b :: joinSep sep (p :: ps) := by
  cases ps with
  | nil => rfl
  | cons q r => simp [joinSep]

/-- Splitting and joining with the separator gives the string back. -/
theorem joinSep_splitGo (sep : Bytes) (hsep : sep ≠ []) (k : Nat) (s : Bytes) :
    joinSep sep (splitGo sep k s) = s.drop k := by
  induction s generalizing k with
  | nil => simp [splitGo, joinSep]
  | cons b t ih =>
    cases k with
    | succ k => simp only [splitGo, List.drop_succ_cons]; exact ih k
    | zero =>
      simp only [splitGo, List.drop_zero]
      split
      · rename_i hp
        rw [joinSep_cons_cons _ _ _ (splitGo_ne_nil _ _ _), ih]
        simp only [List.nil_append]
        obtain ⟨rest, hr⟩ := List.isPrefixOf_iff_prefix.1 hp
        cases sep with
        | nil => exact absurd rfl hsep
        | cons c sep' =>
          simp only [List.cons_append, List.cons.injEq] at hr
          obtain ⟨hc, ht⟩ := hr
          subst hc
          simp only [List.length_cons, Nat.add_sub_cancel, List.cons_append, List.cons.injEq, true_and]
          rw [← ht, List.drop_left]
      · have h0 := ih 0
        simp only [List.drop_zero] at h0
        split
        · rename_i p ps hs
          rw [joinSep_prepend, ← hs, h0]
        · rename_i hs; exact absurd hs (splitGo_ne_nil _ _ _)

theorem runeString_ne_nil (r : Int) : runeString r ≠ [] := by
  unfold runeString; split <;> exact C34.Utf8.encodeRune_ne_nil _

theorem joinSep_splitBytes (r : Int) (s : Bytes) : joinSep (runeString r) (splitBytes (runeString r) s) = s := by
  unfold splitBytes
  rw [joinSep_splitGo _ (runeString_ne_nil r)]; rfl

/-- The invariant of the loop of `SplitByRune`: finished parts are normal and
the paste builder is. -/
theorem splitStep_inv (r : Int) (acc : List Text × TB) (seg : Segment)
    (h1 : ∀ x ∈ acc.1, Normal x) (h2 : TBInv acc.2) :
    (∀ x ∈ (splitStep r acc seg).1, Normal x) ∧ TBInv (splitStep r acc seg).2 := by
  unfold splitStep
  split
  · exact ⟨h1, h2⟩
  · exact ⟨h1, TBInv_writeText _ _ h2 (textFromSegment_normal _)⟩
  · rename_i p ps _ _
    simp only
    constructor
    · intro x hx
      simp only [List.append_assoc, List.mem_append, List.mem_cons, List.mem_map, List.not_mem_nil, or_false] at hx
      rcases hx with hx | rfl | ⟨y, _, rfl⟩
      · exact h1 x hx
      · exact TBInv_writeText _ _ h2 (textFromSegment_normal _)
      · exact textFromSegment_normal _
    · split
      · exact TBInv_writeText _ _ TBInv_empty (textFromSegment_normal _)
      · exact TBInv_empty

theorem foldl_splitStep_inv (r : Int) (t : Text) (acc : List Text × TB)
    (h1 : ∀ x ∈ acc.1, Normal x) (h2 : TBInv acc.2) :
    (∀ x ∈ (t.foldl (splitStep r) acc).1, Normal x) ∧ TBInv (t.foldl (splitStep r) acc).2 := by
  induction t generalizing acc with
  | nil => exact ⟨h1, h2⟩
  | cons s t ih =>
    obtain ⟨a, b⟩ := splitStep_inv r acc s h1 h2
    exact ih _ a b

/-! ### TrimWcwidth -/

/-- The segments `TrimWcwidth` keeps, before they go through the builder. -/
def kept (wd : Int → Int) : Text → Int → Text
  | [], _ => []
  | seg :: rest, wmax =>
    let w := C34.Of wd seg.text
    if w > wmax then [{ style := seg.style, text := C34.Trim wd seg.text wmax }]
    else seg :: kept wd rest (wmax - w)

theorem trimGo_inv (wd : Int → Int) (tb : TB) (t : Text) (w : Int) (h : TBInv tb) : TBInv (trimGo wd tb t w) := by
  induction t generalizing tb w with
  | nil => exact h
  | cons seg rest ih =>
    unfold trimGo
    simp only
    split
    · exact TBInv_writeText _ _ h (textFromSegment_normal _)
    · exact ih _ _ (TBInv_writeText _ _ h (textFromSegment_normal _))

theorem trimGo_content (wd : Int → Int) (tb : TB) (t : Text) (w : Int) :
    styledBytes (trimGo wd tb t w).flat = styledBytes tb.flat ++ styledBytes (kept wd t w) := by
  induction t generalizing tb w with
  | nil => simp [trimGo, kept, styledBytes_nil]
  | cons seg rest ih =>
    unfold trimGo kept
    simp only
    split
    · rw [TB.styledBytes_writeText, styledBytes_textFromSegment]
    · rw [ih, TB.styledBytes_writeText, styledBytes_textFromSegment, styledBytes_cons seg, List.append_assoc]
      simp [styledBytes_cons, styledBytes_nil]

theorem Trim_prefix (wd : Int → Int) (s : Bytes) (w : Int) : ∃ rest, s = C34.Trim wd s w ++ rest := by
  unfold C34.Trim
  split
  · rename_i i _; exact ⟨s.drop i, (List.take_append_drop i s).symm⟩
  · exact ⟨[], by simp⟩

/-- What is kept is a prefix of the text, byte for byte with its style. -/
theorem kept_prefix (wd : Int → Int) (t : Text) (w : Int) :
    ∃ rest, styledBytes t = styledBytes (kept wd t w) ++ rest := by
  induction t generalizing w with
  | nil => exact ⟨[], rfl⟩
  | cons seg rest ih =>
    unfold kept
    simp only
    split
    · obtain ⟨r, hr⟩ := Trim_prefix wd seg.text w
      refine ⟨r.map (fun b => (seg.style, b)) ++ styledBytes rest, ?_⟩
      rw [styledBytes_cons, styledBytes_cons, styledBytes_nil, List.append_nil, ← List.append_assoc,
        ← List.map_append, ← hr]
    · obtain ⟨r, hr⟩ := ih (w - C34.Of wd seg.text)
      exact ⟨r, by rw [styledBytes_cons, styledBytes_cons, hr, List.append_assoc]⟩

/-- Width of a text the way the code measures it: segment by segment. -/
def segsWidth (wd : Int → Int) (t : Text) : Int := (t.map fun s => C34.Of wd s.text).sum

theorem kept_width (wd : Int → Int) (t : Text) (w : Int) (hw : 0 ≤ w) : segsWidth wd (kept wd t w) ≤ w := by
  induction t generalizing w with
  | nil => simpa [kept, segsWidth] using hw
  | cons seg rest ih =>
    unfold kept
    simp only
    split
    · simp only [segsWidth, List.map_cons, List.map_nil, List.sum_cons, List.sum_nil, Int.add_zero]
      rcases C34.Trim_cases wd seg.text w hw with ⟨h1, h2⟩ | ⟨pre, x, post, _, h1, h2, h3, _⟩
      · rw [h1]; exact h2
      · rw [h1, C34.Of_eq_sumW, h2]; exact h3
    · rename_i hle
      have := ih (w - C34.Of wd seg.text) (by omega)
      simp only [segsWidth, List.map_cons, List.sum_cons] at this ⊢
      omega

end C33
