/-
Helper lemmas for C33 (round 2): `Render (Derender t defs) = t` assembled.
-/
import ElvProofs.C33.SdDerender
import ElvProofs.C33.Canon
namespace C33
open Go C34.Utf8

theorem nlCat_eq_nil (xs : List Bytes) : nlCat xs = [] ↔ xs = [] := by
  cases xs with
  | nil => simp [nlCat]
  | cons x xs => simp [nlCat]

theorem toRunes_noEol : toRunes noEolLine = [0x6e, 0x6f, 0x2d, 0x65, 0x6f, 0x6c] := by decide

theorem Of_noEol (wd : Int → Int) (hascii : ∀ r : Int, 0x20 ≤ r → r < 0x7f → wd r = 1) : C34.Of wd noEolLine = 6 := by
  rw [Of_eq_OfR, toRunes_noEol]
  simp only [OfR, List.map_cons, List.map_nil, List.sum_cons, List.sum_nil]
  have h1 := hascii ((0x6e : Nat) : Int) (by omega) (by omega)
  have h2 := hascii ((0x6f : Nat) : Int) (by omega) (by omega)
  have h3 := hascii ((0x2d : Nat) : Int) (by omega) (by omega)
  have h4 := hascii ((0x65 : Nat) : Int) (by omega) (by omega)
  have h5 := hascii ((0x6c : Nat) : Int) (by omega) (by omega)
  omega

theorem noEol_no_nl : ∀ b ∈ noEolLine, b ≠ 10 := by decide

theorem joinL_snoc_nil {α} (sep : List α) (A : List (List α)) (h : A ≠ []) :
    joinL sep (A ++ [[]]) = joinL sep A ++ sep := by
  induction A with
  | nil => exact absurd rfl h
  | cons a A ih =>
    cases A with
    | nil => simp [joinL]
    | cons b B =>
      have e1 : joinL sep (a :: (b :: B ++ [[]])) = a ++ sep ++ joinL sep (b :: B ++ [[]]) :=
        joinL_cons_cons _ _ _ (by simp)
      have e2 : joinL sep (a :: b :: B) = a ++ sep ++ joinL sep (b :: B) := joinL_cons_cons _ _ _ (by simp)
      rw [List.cons_append, e1, ih (by simp), e2]
      simp

/-- The common part: `Render` reads back the lines that `Derender`'s loops wrote. -/
theorem sd_tail (wd : Int → Int) (nn : ∀ r, 0 ≤ wd r) (hascii : ∀ r : Int, 0x20 ≤ r → r < 0x7f → wd r = 1)
    (pd : DefParser) (hpd : PdOK wd pd) (cfs : List (Style × Rune)) (cds0 : List (Rune × Bytes))
    (dok : DefsOK wd pd cfs cds0) (L : List Text) (hL : ∀ l ∈ L, ∀ s ∈ l, LineTxt wd s.text)
    (noEol : Bool) (out : Bytes × Bytes)
    (he : derenderLines wd cfs cds0 L [] cds0 (if noEol then noEolLine ++ [10] else []) = .ok out) :
    ∃ tb, sdRender wd pd (if out.2.isEmpty then out.1 else out.1 ++ [10] ++ out.2) =
        .ok ((if noEol then tb else tb.writeText nlText).toText) ∧ TBInv tb ∧
      styledBytes tb.toText = joinL sepD (L.map styledBytes) := by
  have inv0 : WInv wd pd cds0 (if noEol then noEolLine ++ [10] else []) cds0
      (if noEol then noEolLine ++ [10] else []) [] :=
    ⟨by simp [nlCat], by intro w hw; simp at hw, by intro r hr; simp at hr, by intro r _; rfl, by simp⟩
  obtain ⟨W, cds', inv, o1, set⟩ := derenderLines_spec wd pd cfs cds0 _ dok L [] cds0 _ [] out inv0 he
  rw [List.nil_append] at inv set
  rw [List.nil_append] at o1
  -- the configuration lines
  let cfgLines : List Bytes := (if noEol then [noEolLine] else []) ++ W.map (·.2.2)
  have hcfgB : out.2 = nlCat cfgLines := by
    rw [inv.cfg]
    cases noEol <;> simp [cfgLines, nlCat]
  have hentry : ∀ w ∈ W, w.2.2 ≠ [] ∧ (∀ b ∈ w.2.2, b ≠ 10) ∧ parseDef wd pd w.2.2 = some (w.1, w.2.1) := by
    intro w hw
    obtain ⟨e1, e2⟩ := inv.ent w hw
    obtain ⟨a, b, _⟩ := dok.cds_ok _ _ e1
    exact ⟨a, b, e2⟩
  have hparse : parseConfig wd pd cfgLines false [] = some (noEol, W.map fun w => (w.1, w.2.1)) := by
    have := parseConfig_written wd pd hpd W noEol []
      (fun w hw => ⟨(hentry w hw).1, (hentry w hw).2.2, rfl⟩) inv.nd
    rw [List.nil_append] at this
    cases noEol
    · simpa [cfgLines] using this
    · simp only [cfgLines, if_true, List.singleton_append, parseConfig]
      have : noEolLine.isEmpty = false := rfl
      simp only [this, Bool.false_eq_true, if_false, if_true]
      assumption
  have hcl : ∀ c ∈ cfgLines, (∀ b ∈ c, b ≠ 10) ∧ C34.Of wd c ≠ 0 := by
    intro c hc
    simp only [cfgLines, List.mem_append, List.mem_map] at hc
    rcases hc with hc | ⟨w, hw, rfl⟩
    · cases noEol
      · simp at hc
      · simp only [if_true, List.mem_singleton] at hc
        rw [hc]; exact ⟨noEol_no_nl, by rw [Of_noEol wd hascii]; omega⟩
    · obtain ⟨_, b, c⟩ := hentry w hw
      obtain ⟨p1, p2⟩ := parseDef_some c
      exact ⟨b, hpd.width _ _ _ p1 p2⟩
  have hseg : ∀ l ∈ L, ∀ seg ∈ l, SegOK wd (charFor cfs cds0) (W.map fun w => (w.1, w.2.1)) seg := by
    intro l hl seg hs
    refine ⟨hL l hl seg hs, ?_⟩
    obtain ⟨c, hc, hor⟩ := set l hl seg hs
    rcases hor with ⟨h0, hb⟩ | ⟨line, hmem⟩
    · obtain ⟨v, n10, lo, hi⟩ := builtin_char_props c _ hb
      refine ⟨c, hc, v, n10, hascii c (by omega) (by omega), ?_⟩
      have hnot : c ∉ W.map (·.1) := by
        intro hin
        obtain ⟨w, hw, hwc⟩ := List.mem_map.1 hin
        have := (inv.ent w hw).1
        rw [hwc, h0] at this
        simp at this
      unfold sheetLookup
      rw [lookup_unwritten W c hnot]
      exact hb
    · obtain ⟨e1, e2⟩ := inv.ent _ hmem
      obtain ⟨p1, p2⟩ := parseDef_some e2
      obtain ⟨v, n10⟩ := hpd.valid _ _ _ p1
      refine ⟨c, hc, v, n10, p2, ?_⟩
      unfold sheetLookup
      rw [lookup_written W inv.nd c seg.style line hmem]
  obtain ⟨tb, e, i, sb⟩ := sdRender_of_shape wd nn pd (charFor cfs cds0) L cfgLines noEol _ hparse hcl hseg
  refine ⟨tb, ?_, i, sb⟩
  rw [← e, o1, hcfgB]
  by_cases hc : cfgLines = []
  · rw [if_pos hc, hc]; simp [nlCat]
  · rw [if_neg hc]
    have : (nlCat cfgLines).isEmpty = false := by
      cases h : nlCat cfgLines with
      | nil => exact absurd ((nlCat_eq_nil _).1 h) hc
      | cons a b => rfl
    rw [this]; simp

theorem SplitByRune_none (t : Text) (r : Int) (h : SplitByRune t r = none) : t = [] := by
  unfold SplitByRune at h
  split at h
  · rename_i he; exact List.isEmpty_iff.1 he
  · simp at h

theorem SplitByRune_some_ne (t : Text) (r : Int) (ls : List Text) (h : SplitByRune t r = some ls) : t ≠ [] := by
  unfold SplitByRune at h
  split at h
  · simp at h
  · rename_i he; intro hh; rw [hh] at he; simp at he

theorem sd_roundtrip (wd : Int → Int) (nn : ∀ r, 0 ≤ wd r) (hascii : ∀ r : Int, 0x20 ≤ r → r < 0x7f → wd r = 1)
    (pd : DefParser) (hpd : PdOK wd pd) (t : Text) (defs m : Bytes) (ht : Normal t)
    (hseg : ∀ s ∈ t, SegTxt wd s.text) (hnl : ∀ s ∈ t, 10 ∈ s.text → s.style = {})
    (h : sdDerender wd pd t defs = .ok m) : sdRender wd pd m = .ok t := by
  unfold sdDerender at h
  cases hd : derenderDefs wd pd (C34.splitNL defs) [] [] with
  | none => rw [hd] at h; simp at h
  | some p =>
    obtain ⟨cfs, cds0⟩ := p
    rw [hd] at h
    simp only at h
    have dok := derenderDefs_ok wd pd _ (fun x hx => C34.splitNL_nonl defs x hx) [] [] cfs cds0
      (DefsOK.empty wd pd) hd
    cases hsp : SplitByRune t 10 with
    | none =>
      have ht0 := SplitByRune_none t 10 hsp
      rw [hsp] at h
      simp only [List.getLast?_nil] at h
      cases hl : derenderLines wd cfs cds0 [] [] cds0 (noEolLine ++ [10]) with
      | ok out =>
        rw [hl] at h
        simp only [Res.ok.injEq] at h
        obtain ⟨tb, e, i, sb⟩ := sd_tail wd nn hascii pd hpd cfs cds0 dok [] (by intro l hl; simp at hl) true out hl
        rw [h] at e
        rw [e, ht0]
        simp only [if_true]
        congr 1
        exact styledBytes_eq_nil i (by rw [sb]; rfl)
      | exc x => rw [hl] at h; simp at h
      | panic x => rw [hl] at h; simp at h
    | some ls =>
      have htne := SplitByRune_some_ne t 10 ls hsp
      obtain ⟨hlt, hln⟩ := SplitByRune_lines wd t hseg ls hsp
      have hsty := SplitByRune_styled t hnl ls hsp
      rw [hsp] at h
      simp only at h
      cases hlast : ls.getLast? with
      | none =>
        -- impossible: styled bytes of a non-empty normal text are non-empty
        have : ls = [] := List.getLast?_eq_none_iff.1 hlast
        rw [this] at hsty
        simp only [List.map_nil, joinL] at hsty
        exact absurd (styledBytes_eq_nil ht hsty.symm) htne
      | some last =>
        rw [hlast] at h
        simp only at h
        by_cases hle : last.isEmpty = true
        · -- trailing newline
          rw [if_pos hle] at h
          simp only at h
          have hlast0 : last = [] := List.isEmpty_iff.1 hle
          have hls : ls.dropLast ++ [[]] = ls := by
            have := dropLast_append_getLast ls last hlast
            rwa [hlast0] at this
          cases hl : derenderLines wd cfs cds0 ls.dropLast [] cds0 [] with
          | ok out =>
            rw [hl] at h
            simp only [Res.ok.injEq] at h
            obtain ⟨tb, e, i, sb⟩ := sd_tail wd nn hascii pd hpd cfs cds0 dok ls.dropLast
              (fun l hl' => hlt l ((List.dropLast_sublist ls).subset hl')) false out hl
            rw [h] at e
            rw [e]
            simp only [Bool.false_eq_true, if_false]
            congr 1
            apply Normal_unique _ _ (TBInv_writeText _ _ i nlText_normal) ht
            rw [styledBytes_writeText', styledBytes_nlText, sb, ← hsty]
            generalize hD : ls.dropLast = D at hls ⊢
            have hne : D ≠ [] := by
              intro hh
              rw [hh] at hls
              rw [← hls] at hsty
              simp only [List.nil_append, List.map_cons, List.map_nil, joinL] at hsty
              exact htne (styledBytes_eq_nil ht hsty.symm)
            rw [← hls, List.map_append]
            simp only [List.map_cons, List.map_nil, styledBytes_nil]
            have : List.map styledBytes D ≠ [] := by simpa using hne
            exact (joinL_snoc_nil sepD _ this).symm
          | exc x => rw [hl] at h; simp at h
          | panic x => rw [hl] at h; simp at h
        · rw [if_neg hle] at h
          simp only at h
          cases hl : derenderLines wd cfs cds0 ls [] cds0 (noEolLine ++ [10]) with
          | ok out =>
            rw [hl] at h
            simp only [Res.ok.injEq] at h
            obtain ⟨tb, e, i, sb⟩ := sd_tail wd nn hascii pd hpd cfs cds0 dok ls hlt true out hl
            rw [h] at e
            rw [e]
            simp only [if_true]
            congr 1
            exact Normal_unique _ _ i ht (by rw [sb, hsty])
          | exc x => rw [hl] at h; simp at h
          | panic x => rw [hl] at h; simp at h

end C33
