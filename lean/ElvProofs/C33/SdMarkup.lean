/-
Helper lemmas for C33 (round 2): styledown `Render` on a markup of the shape
`Derender` produces — content/style line pairs, then (after a blank line) the
configuration lines.
-/
import ElvProofs.C33.SdRender
import ElvProofs.C34.TrimLines
namespace C33
open Go C34.Utf8

/-- `xs[0] + "\n" + xs[1] + "\n" + …` -/
def nlCat (xs : List Bytes) : Bytes := (xs.map (· ++ [10])).flatten

theorem nlCat_nil : nlCat [] = [] := rfl
theorem nlCat_cons (x : Bytes) (xs : List Bytes) : nlCat (x :: xs) = x ++ [10] ++ nlCat xs := by simp [nlCat]
theorem nlCat_append (a b : List Bytes) : nlCat (a ++ b) = nlCat a ++ nlCat b := by simp [nlCat]

theorem splitNL_nlCat (xs : List Bytes) (h : ∀ x ∈ xs, ∀ b ∈ x, b ≠ 10) (T : Bytes) :
    C34.splitNL (nlCat xs ++ T) = xs ++ C34.splitNL T := by
  induction xs with
  | nil => rfl
  | cons x xs ih =>
    rw [nlCat_cons, List.append_assoc, List.append_assoc]
    have := C34.splitNL_append_nl x (nlCat xs ++ T) (h x List.mem_cons_self)
    simp only [List.singleton_append]
    rw [this, ih (fun y hy => h y (List.mem_cons_of_mem _ hy))]
    rfl

/-- The content/style lines of a list of text lines. -/
def bodyLines (wd : Int → Int) (cf : Style → Option Rune) : List Text → List Bytes
  | [] => []
  | l :: rest => plain l :: styleOf wd cf l :: bodyLines wd cf rest

theorem splitContent_body (wd : Int → Int) (cf : Style → Option Rune) (L : List Text)
    (hw : ∀ l ∈ L, C34.Of wd (plain l) = C34.Of wd (styleOf wd cf l)) (tail : List Bytes)
    (htail : (∃ x, tail = [x]) ∨ tail = [] ∨ ∃ x y r, tail = x :: y :: r ∧ C34.Of wd x ≠ C34.Of wd y) :
    splitContent wd (bodyLines wd cf L ++ tail) = (L.map fun l => (plain l, styleOf wd cf l), tail) := by
  induction L with
  | nil =>
    simp only [bodyLines, List.nil_append, List.map_nil]
    rcases htail with ⟨x, rfl⟩ | rfl | ⟨x, y, r, rfl, hne⟩
    · rfl
    · rfl
    · simp only [splitContent]; rw [if_neg hne]
  | cons l rest ih =>
    simp only [bodyLines, List.cons_append, splitContent]
    rw [if_pos (hw l List.mem_cons_self), ih (fun x hx => hw x (List.mem_cons_of_mem _ hx))]
    rfl

theorem nlText_normal : Normal nlText := by decide
theorem styledBytes_nlText : styledBytes nlText = sepD := rfl

/-- The styled bytes written for the lines after the first: each preceded by a default-style newline. -/
def tailS (L : List Text) : List (Style × UInt8) := (L.map fun l => sepD ++ styledBytes l).flatten

theorem joinL_cons_tailS (l : Text) (L : List Text) :
    joinL sepD ((l :: L).map styledBytes) = styledBytes l ++ tailS L := by
  induction L generalizing l with
  | nil => simp [joinL, tailS]
  | cons l2 L ih =>
    simp only [List.map_cons] at ih ⊢
    rw [joinL_cons_cons _ _ _ (by simp), ih l2]
    simp [tailS]

theorem renderContent_lines (wd : Int → Int) (nn : ∀ r, 0 ≤ wd r) (sheet : List (Rune × Style))
    (cf : Style → Option Rune) (L : List Text) (h : ∀ l ∈ L, ∀ seg ∈ l, SegOK wd cf sheet seg) :
    ∀ (first : Bool) (tb : TB), TBInv tb →
    ∃ tb', renderContent wd sheet (L.map fun l => (plain l, styleOf wd cf l)) first tb = .ok tb' ∧ TBInv tb' ∧
      styledBytes tb'.toText = styledBytes tb.toText ++
        (if first then joinL sepD (L.map styledBytes) else tailS L) := by
  induction L with
  | nil => intro first tb htb; exact ⟨tb, rfl, htb, by cases first <;> simp [joinL, tailS]⟩
  | cons l rest ih =>
    intro first tb htb
    simp only [List.map_cons, renderContent]
    have htb1 : TBInv (if first then tb else tb.writeText nlText) := by
      cases first
      · exact TBInv_writeText _ _ htb nlText_normal
      · exact htb
    obtain ⟨tb2, e2, i2, s2⟩ := renderLine_line wd nn sheet cf l (h l List.mem_cons_self) _ htb1
    obtain ⟨tb3, e3, i3, s3⟩ := ih (fun x hx => h x (List.mem_cons_of_mem _ hx)) false tb2 i2
    rw [e2]
    refine ⟨tb3, e3, i3, ?_⟩
    rw [s3, s2]
    cases first
    · simp only [Bool.false_eq_true, if_false]
      rw [styledBytes_writeText', styledBytes_nlText]
      simp [tailS]
    · have := joinL_cons_tailS l rest
      simp only [List.map_cons] at this
      simp only [if_true, Bool.false_eq_true, if_false]
      rw [this]
      simp

theorem parseConfig_snoc_nil (wd : Int → Int) (pd : DefParser) (X : List Bytes) :
    ∀ (ne : Bool) (sh : List (Rune × Style)), parseConfig wd pd (X ++ [[]]) ne sh = parseConfig wd pd X ne sh := by
  induction X with
  | nil => intro ne sh; simp [parseConfig]
  | cons x X ih =>
    intro ne sh
    simp only [List.cons_append, parseConfig]
    split
    · exact ih _ _
    · split
      · exact ih _ _
      · split
        · rfl
        · split
          · rfl
          · exact ih _ _

theorem bodyLines_no_nl (wd : Int → Int) (sheet : List (Rune × Style)) (cf : Style → Option Rune) (L : List Text)
    (h : ∀ l ∈ L, ∀ seg ∈ l, SegOK wd cf sheet seg) : ∀ x ∈ bodyLines wd cf L, ∀ b ∈ x, b ≠ 10 := by
  induction L with
  | nil => intro x hx; simp [bodyLines] at hx
  | cons l rest ih =>
    intro x hx
    simp only [bodyLines, List.mem_cons] at hx
    obtain ⟨a, b⟩ := line_no_nl wd sheet cf l (h l List.mem_cons_self)
    rcases hx with rfl | rfl | hx
    · exact a
    · exact b
    · exact ih (fun y hy => h y (List.mem_cons_of_mem _ hy)) x hx

/-- `Render` on a markup of the shape `Derender` produces. -/
theorem sdRender_of_shape (wd : Int → Int) (nn : ∀ r, 0 ≤ wd r) (pd : DefParser) (cf : Style → Option Rune)
    (L : List Text) (cfgLines : List Bytes) (noEol : Bool) (sheet : List (Rune × Style))
    (hcfg : parseConfig wd pd cfgLines false [] = some (noEol, sheet))
    (hcl : ∀ c ∈ cfgLines, (∀ b ∈ c, b ≠ 10) ∧ C34.Of wd c ≠ 0)
    (hseg : ∀ l ∈ L, ∀ seg ∈ l, SegOK wd cf sheet seg) :
    ∃ tb, sdRender wd pd (nlCat (bodyLines wd cf L) ++ (if cfgLines = [] then [] else [10] ++ nlCat cfgLines)) =
        .ok ((if noEol then tb else tb.writeText nlText).toText) ∧ TBInv tb ∧
      styledBytes tb.toText = joinL sepD (L.map styledBytes) := by
  have hw : ∀ l ∈ L, C34.Of wd (plain l) = C34.Of wd (styleOf wd cf l) :=
    fun l hl => line_widths wd nn sheet cf l (hseg l hl)
  have hnl := bodyLines_no_nl wd sheet cf L hseg
  obtain ⟨tb, e, i, sb⟩ := renderContent_lines wd nn sheet cf L hseg true {} TBInv_empty
  refine ⟨tb, ?_, i, by rw [sb]; simp [styledBytes_empty_tb]⟩
  unfold sdRender
  cases hc : cfgLines with
  | nil =>
    rw [hc] at hcfg
    simp only [parseConfig, Option.some.injEq, Prod.mk.injEq] at hcfg
    obtain ⟨rfl, rfl⟩ := hcfg
    simp only [if_true, List.append_nil]
    have hs : C34.splitNL (nlCat (bodyLines wd cf L)) = bodyLines wd cf L ++ [[]] := by
      have := splitNL_nlCat (bodyLines wd cf L) hnl []
      rwa [List.append_nil] at this
    rw [hs, splitContent_body wd cf L hw [[]] (Or.inl ⟨[], rfl⟩)]
    simp only [List.isEmpty_nil, if_true, parseConfig, e]
  | cons c1 cs =>
    rw [if_neg (by simp)]
    have hcn : ∀ x ∈ c1 :: cs, ∀ b ∈ x, b ≠ 10 := fun x hx => (hcl x (hc ▸ hx)).1
    have hs : C34.splitNL (nlCat (bodyLines wd cf L) ++ ([10] ++ nlCat (c1 :: cs))) =
        bodyLines wd cf L ++ ([] :: c1 :: (cs ++ [[]])) := by
      rw [splitNL_nlCat _ hnl]
      congr 1
      have := splitNL_nlCat (c1 :: cs) hcn []
      rw [List.append_nil] at this
      simp only [List.singleton_append, C34.splitNL, if_true]
      rw [this]; rfl
    have hne : C34.Of wd [] ≠ C34.Of wd c1 := by
      have := (hcl c1 (hc ▸ List.mem_cons_self)).2
      rw [C34.Of_nil]; exact fun h => this h.symm
    have hcfg' : parseConfig wd pd (c1 :: (cs ++ [[]])) false [] = some (noEol, sheet) := by
      have : c1 :: (cs ++ [[]]) = (c1 :: cs) ++ [[]] := rfl
      rw [this, parseConfig_snoc_nil, ← hc, hcfg]
    rw [hs]
    simp only [splitContent_body wd cf L hw _ (Or.inr (Or.inr ⟨[], c1, cs ++ [[]], rfl, hne⟩)),
      List.isEmpty_nil, if_true, hcfg', e]

end C33
