/-
C33 helpers: the normal form is closed under histories — whatever the
operations are applied to (their own earlier results, parts, sub-slices,
builder results), every value made is in normal form.
-/
import ElvProofs.C33.History
import ElvProofs.C33.Ops
namespace C33
open Go

theorem T_normal (s : Bytes) (ts : List Styling) : Normal (T s ts) := by
  rw [T_eq]
  split
  · exact Normal_nil
  · rename_i h; exact (Normal_single _).2 h

theorem SplitByRune_normal (t : Text) (r : Int) (parts : List Text) (h : SplitByRune t r = some parts) :
    ∀ p ∈ parts, Normal p := by
  unfold SplitByRune at h
  split at h
  · simp at h
  · simp only [Option.some.injEq] at h
    obtain ⟨a, b⟩ := foldl_splitStep_inv r t ([], {}) (by intro x hx; simp at hx) TBInv_empty
    intro p hp
    rw [← h] at hp
    rcases List.mem_append.1 hp with hp | hp
    · exact a p hp
    · simp only [List.mem_singleton] at hp; subst hp; exact b

theorem Concat2_normal (a b : Text) (ha : Normal a) (hb : Normal b) : Normal (Concat [a, b]) := by
  apply Concat_normal
  intro x hx
  simp only [List.mem_cons, List.not_mem_nil, or_false] at hx
  rcases hx with rfl | rfl <;> assumption

/-- The text operand of a resolved right-hand side is in normal form. -/
def Rhs.NormalText : Rhs → Prop
  | .text t => Normal t
  | _ => True

theorem resolveRhs_normal (regs : List Text) (hr : ∀ t ∈ regs, Normal t) (x : HRhs) (hx : x.NormalLit) (r : Rhs)
    (h : resolveRhs regs x = some r) : r.NormalText := by
  cases x with
  | str s => simp only [resolveRhs, Option.some.injEq] at h; subst h; trivial
  | seg s =>
    simp only [resolveRhs, Option.map_eq_some_iff] at h
    obtain ⟨a, _, rfl⟩ := h; trivial
  | text t =>
    simp only [resolveRhs, Option.map_eq_some_iff] at h
    obtain ⟨a, ha, rfl⟩ := h
    exact resolve_normal regs hr t hx a ha

theorem Text_concat_normal (t : Text) (r : Rhs) (ht : Normal t) (hr : r.NormalText) : Normal (Text.concat t r) := by
  cases r with
  | str s => exact Concat2_normal _ _ ht (T_normal s [])
  | seg s => exact Concat2_normal _ _ ht (textFromSegment_normal s)
  | text u => exact Concat2_normal _ _ ht hr

theorem Segment_concat_normal (s : Segment) (r : Rhs) (hr : r.NormalText) : Normal (s.concat r) := by
  cases r with
  | str x => exact Concat2_normal _ _ (textFromSegment_normal s) (T_normal x [])
  | seg x => exact Concat2_normal _ _ (textFromSegment_normal s) (textFromSegment_normal x)
  | text u => exact Concat2_normal _ _ (textFromSegment_normal s) hr

/-- One operation on normal values (and a normal builder) makes normal values
and keeps the builder normal. -/
theorem evalOp_normal (wd : Int → Int) (regs : List Text) (tb : TB) (op : HOp)
    (hr : ∀ t ∈ regs, Normal t) (htb : TBInv tb) (hop : op.NormalLits) :
    (∀ t ∈ (evalOp wd regs tb op).1.values, Normal t) ∧ TBInv (evalOp wd regs tb op).2 := by
  have one : ∀ (t : Text), Normal t → ∀ u ∈ (HOut.one t).values, Normal u := by
    intro t ht u hu; simp only [HOut.values, List.mem_singleton] at hu; subst hu; exact ht
  have nil : ∀ (o : HOut), o.values = [] → ∀ u ∈ o.values, Normal u := by
    intro o h u hu; rw [h] at hu; simp at hu
  cases op with
  | lit t => exact ⟨one t hop, htb⟩
  | concat xs =>
    simp only [evalOp]
    split
    · rename_i ts h
      exact ⟨one _ (Concat_normal ts (mapM_resolve_normal regs hr xs ts hop h)), htb⟩
    · exact ⟨nil _ rfl, htb⟩
  | partition x idx =>
    simp only [evalOp]
    split
    · rename_i t h
      exact ⟨fun u hu => partitionGo_normal t 0 idx (resolve_normal regs hr x hop t h) u hu, htb⟩
    · exact ⟨nil _ rfl, htb⟩
  | split x r =>
    simp only [evalOp]
    split
    · rename_i t h
      split
      · rename_i ps hps
        exact ⟨fun u hu => SplitByRune_normal t r ps hps u hu, htb⟩
      · exact ⟨nil _ rfl, htb⟩
    · exact ⟨nil _ rfl, htb⟩
  | trimw x w =>
    simp only [evalOp]
    split
    · exact ⟨one _ (trimGo_inv wd {} _ w TBInv_empty), htb⟩
    · exact ⟨nil _ rfl, htb⟩
  | styletext x ts => exact absurd hop (by simp [HOp.NormalLits])
  | clone x =>
    simp only [evalOp]
    split
    · rename_i t h
      exact ⟨one _ (resolve_normal regs hr x hop t h), htb⟩
    · exact ⟨nil _ rfl, htb⟩
  | sub x lo hi =>
    simp only [evalOp]
    split
    · rename_i t h
      split
      · rename_i r hsub
        exact ⟨one _ (subText_normal t lo hi r (resolve_normal regs hr x hop t h) hsub), htb⟩
      · exact ⟨nil _ rfl, htb⟩
    · exact ⟨nil _ rfl, htb⟩
  | textconcat x r =>
    simp only [evalOp]
    split
    · rename_i t r' h1 h2
      exact ⟨one _ (Text_concat_normal t r' (resolve_normal regs hr x hop.1 t h1)
        (resolveRhs_normal regs hr r hop.2 r' h2)), htb⟩
    · exact ⟨nil _ rfl, htb⟩
  | rtextconcat x l =>
    simp only [evalOp]
    split
    · rename_i t h
      exact ⟨one _ (Concat2_normal _ _ (T_normal l []) (resolve_normal regs hr x hop t h)), htb⟩
    · exact ⟨nil _ rfl, htb⟩
  | segconcat s r =>
    simp only [evalOp]
    split
    · rename_i s' r' h1 h2
      exact ⟨one _ (Segment_concat_normal s' r' (resolveRhs_normal regs hr r hop r' h2)), htb⟩
    · exact ⟨nil _ rfl, htb⟩
  | rsegconcat s l =>
    simp only [evalOp]
    split
    · exact ⟨one _ (Concat2_normal _ _ (T_normal l []) (textFromSegment_normal _)), htb⟩
    · exact ⟨nil _ rfl, htb⟩
  | tbwrite x =>
    simp only [evalOp]
    split
    · rename_i t h
      exact ⟨nil _ rfl, TBInv_writeText tb t htb (resolve_normal regs hr x hop t h)⟩
    · exact ⟨nil _ rfl, htb⟩
  | tbtext => exact ⟨one _ htb, htb⟩
  | tbreset => exact ⟨nil _ rfl, TBInv_empty⟩

/-- The invariant of a history: every value and what the builder would return are normal. -/
def HInv (s : HState) : Prop := (∀ t ∈ s.regs, Normal t) ∧ TBInv s.tb

theorem HInv_init : HInv {} := ⟨by intro t ht; simp at ht, TBInv_empty⟩

theorem HInv_step (wd : Int → Int) (s : HState) (op : HOp) (hs : HInv s) (hop : op.NormalLits) :
    HInv (s.step wd op).1 := by
  obtain ⟨h1, h2⟩ := evalOp_normal wd s.regs s.tb op hs.1 hs.2 hop
  refine ⟨?_, h2⟩
  intro t ht
  rw [step_regs] at ht
  rcases List.mem_append.1 ht with ht | ht
  · exact hs.1 t ht
  · exact h1 t ht

theorem HInv_run (wd : Int → Int) : ∀ (ops : List HOp) (s : HState), HInv s → (∀ op ∈ ops, op.NormalLits) →
    HInv (s.run wd ops)
  | [], _, hs, _ => hs
  | op :: ops, s, hs, hops =>
    HInv_run wd ops _ (HInv_step wd s op hs (hops op (by simp))) (fun o ho => hops o (by simp [ho]))

theorem run_regs_append (wd : Int → Int) : ∀ (ops : List HOp) (s : HState), ∃ more, (s.run wd ops).regs = s.regs ++ more
  | [], s => ⟨[], by simp [HState.run]⟩
  | op :: ops, s => by
    obtain ⟨more, h⟩ := run_regs_append wd ops (s.step wd op).1
    exact ⟨(s.step wd op).2.values ++ more, by rw [HState.run, h, step_regs, List.append_assoc]⟩

end C33
