/-
Helper lemmas for C33 (round 2): the STYLED content law of `SplitByRune('\n')` —
when every newline lies in a default-style segment, the styled bytes of the
text are the styled bytes of the lines joined with a default-style newline.
-/
import ElvModel.C33.Model
import ElvProofs.C33.Normal
import ElvProofs.C33.Ops
import ElvProofs.C33.Split
namespace C33
open Go

/-- `strings.Join` on lists of any element type. -/
def joinL {α} (sep : List α) : List (List α) → List α
  | [] => []
  | [p] => p
  | p :: q :: r => p ++ sep ++ joinL sep (q :: r)

theorem joinSep_eq_joinL (sep : Bytes) : ∀ L : List Bytes, joinSep sep L = joinL sep L
  | [] => rfl
  | [_] => rfl
  | p :: q :: r => by simp only [joinSep, joinL]; rw [joinSep_eq_joinL sep (q :: r)]

theorem joinL_cons_cons {α} (sep p : List α) (L : List (List α)) (h : L ≠ []) :
    joinL sep (p :: L) = p ++ sep ++ joinL sep L := by
  cases L with
  | nil => exact absurd rfl h
  | cons q r => rfl

theorem joinL_glue {α} (sep : List α) (A : List (List α)) (x y0 : List α) (Y : List (List α)) :
    joinL sep (A ++ (x ++ y0) :: Y) = joinL sep (A ++ [x]) ++ joinL sep (y0 :: Y) := by
  induction A with
  | nil =>
    cases Y with
    | nil => simp [joinL]
    | cons q r => simp [joinL]
  | cons a A ih =>
    rw [List.cons_append, List.cons_append, joinL_cons_cons _ _ _ (by simp), joinL_cons_cons _ _ _ (by simp), ih]
    simp

theorem joinL_map {α β} (f : α → β) (sep : List α) : ∀ L : List (List α),
    (joinL sep L).map f = joinL (sep.map f) (L.map (List.map f))
  | [] => rfl
  | [_] => rfl
  | p :: q :: r => by
    simp only [joinL, List.map_append, List.map_cons]
    rw [joinL_map f sep (q :: r)]; rfl

/-- the default-style newline -/
def sepD : List (Style × UInt8) := [({}, 10)]

theorem runeString_nl : runeString 10 = [10] := by decide

theorem styledBytes_single (p : Segment) : styledBytes [p] = p.text.map (fun b => (p.style, b)) := by
  simp [styledBytes]

/-- The styled pieces of one segment joined with the segment's own newline give the segment back. -/
theorem seg_pieces_styled (seg : Segment) :
    joinL [(seg.style, (10 : UInt8))] ((seg.splitByRune 10).map fun p => styledBytes [p]) = styledBytes [seg] := by
  have hj := joinSep_splitBytes 10 seg.text
  rw [runeString_nl, joinSep_eq_joinL] at hj
  have := congrArg (List.map (fun b => (seg.style, b))) hj
  rw [joinL_map] at this
  rw [styledBytes_single, ← this]
  simp [Segment.splitByRune, styledBytes_single, Function.comp_def, runeString_nl]

theorem styledBytes_writeText' (tb : TB) (t : Text) :
    styledBytes (tb.writeText t).toText = styledBytes tb.toText ++ styledBytes t := by
  rw [TB.styledBytes_toText, TB.styledBytes_writeText, TB.styledBytes_toText]

theorem styledBytes_textFromSegment' (s : Segment) : styledBytes (textFromSegment s) = styledBytes [s] :=
  styledBytes_textFromSegment s

theorem styledBytes_empty_tb : styledBytes ({} : TB).toText = [] := rfl

/-- The styled bytes of the finished parts followed by those of the paste builder. -/
def accStyled (acc : List Text × TB) : List (List (Style × UInt8)) :=
  acc.1.map styledBytes ++ [styledBytes acc.2.toText]

theorem splitStep_styled (acc : List Text × TB) (seg : Segment) (hnl : 10 ∈ seg.text → seg.style = {}) :
    joinL sepD (accStyled (splitStep 10 acc seg)) = joinL sepD (accStyled acc) ++ styledBytes [seg] := by
  have hj := seg_pieces_styled seg
  have hmem : ∀ p q r, seg.splitByRune 10 = p :: q :: r → 10 ∈ seg.text := by
    intro p q r h
    have h2 := joinSep_splitBytes 10 seg.text
    rw [← map_text_splitByRune, h, runeString_nl] at h2
    simp only [List.map_cons, joinSep] at h2
    rw [← h2]; simp
  unfold splitStep
  split
  · rename_i h
    rw [h] at hj
    simp only [List.map_nil, joinL] at hj
    rw [← hj]; simp
  · rename_i p h
    rw [h] at hj
    simp only [List.map_cons, List.map_nil, joinL] at hj
    simp only [accStyled]
    rw [styledBytes_writeText', styledBytes_textFromSegment', joinL_glue, hj]
    simp [joinL]
  · rename_i p ps hne h
    have hps : ps ≠ [] := fun he => hne he
    have hst : seg.style = {} := by
      cases ps with
      | nil => exact absurd rfl hps
      | cons q r => exact hnl (hmem p q r h)
    rw [h, hst] at hj
    simp only [List.map_cons] at hj
    simp only [accStyled]
    cases hl : ps.getLast? with
    | none => exact absurd (List.getLast?_eq_none_iff.1 hl) hps
    | some l =>
      simp only
      have hmid : (List.map textFromSegment ps.dropLast).map styledBytes ++
          [styledBytes (({} : TB).writeText (textFromSegment l)).toText] = ps.map (fun p => styledBytes [p]) := by
        rw [styledBytes_writeText', styledBytes_empty_tb, List.nil_append, styledBytes_textFromSegment']
        have := dropLast_append_getLast ps l hl
        conv => rhs; rw [← this]
        simp [List.map_append, Function.comp_def, styledBytes_textFromSegment']
      simp only [List.map_append, List.map_cons, List.append_assoc, List.cons_append,
        List.nil_append]
      rw [hmid, styledBytes_writeText', styledBytes_textFromSegment', joinL_glue]
      exact congrArg _ hj

theorem foldl_splitStep_styled (t : Text) (acc : List Text × TB) (hnl : ∀ s ∈ t, 10 ∈ s.text → s.style = {}) :
    joinL sepD (accStyled (t.foldl (splitStep 10) acc)) = joinL sepD (accStyled acc) ++ styledBytes t := by
  induction t generalizing acc with
  | nil => simp [styledBytes]
  | cons s t ih =>
    simp only [List.foldl_cons]
    rw [ih _ (fun x hx => hnl x (List.mem_cons_of_mem _ hx)), splitStep_styled _ _ (hnl s List.mem_cons_self),
      styledBytes_cons s t, styledBytes_single, List.append_assoc]

/-- `SplitByRune('\n')`: the lines joined with a default-style newline have the styled bytes of the text. -/
theorem SplitByRune_styled (t : Text) (hnl : ∀ s ∈ t, 10 ∈ s.text → s.style = {}) (ls : List Text)
    (h : SplitByRune t 10 = some ls) : joinL sepD (ls.map styledBytes) = styledBytes t := by
  unfold SplitByRune at h
  split at h
  · simp at h
  · simp only [Option.some.injEq] at h
    have := foldl_splitStep_styled t ([], {}) hnl
    rw [← h]
    simp only [accStyled, List.map_nil, List.nil_append, styledBytes_empty_tb, joinL] at this
    simp only [List.map_append, List.map_cons, List.map_nil]
    simpa [accStyled] using this

end C33
