/-
Helper lemmas for C33: the normal form, the TextBuilder invariant, content
(`styledBytes`) laws.
-/
import ElvModel.C33.Model
namespace C33
open Go

/-! ### normal form -/

theorem Normal_nil : Normal [] := rfl

theorem Normal_single (s : Segment) : Normal [s] ↔ s.text ≠ [] := by
  simp [Normal, normalB]

theorem Normal_cons2 (a b : Segment) (r : Text) :
    Normal (a :: b :: r) ↔ a.text ≠ [] ∧ a.style ≠ b.style ∧ Normal (b :: r) := by
  simp [Normal, normalB, and_assoc]

theorem Normal_tail {a : Segment} {r : Text} (h : Normal (a :: r)) : Normal r := by
  cases r with
  | nil => exact Normal_nil
  | cons b r => exact ((Normal_cons2 a b r).1 h).2.2

theorem Normal_head {a : Segment} {r : Text} (h : Normal (a :: r)) : a.text ≠ [] := by
  cases r with
  | nil => exact (Normal_single a).1 h
  | cons b r => exact ((Normal_cons2 a b r).1 h).1

/-- Boundary condition for appending: the last style of `A` differs from the first of `B`. -/
def Joinable (A B : Text) : Prop :=
  ∀ a b, A.getLast? = some a → B.head? = some b → a.style ≠ b.style

theorem Normal_append {A B : Text} (hA : Normal A) (hB : Normal B) (hj : Joinable A B) :
    Normal (A ++ B) := by
  induction A with
  | nil => simpa using hB
  | cons a A ih =>
    cases A with
    | nil =>
      cases B with
      | nil => simpa using hA
      | cons b B =>
        exact (Normal_cons2 a b B).2 ⟨Normal_head hA, hj a b rfl rfl, hB⟩
    | cons a2 A =>
      obtain ⟨h1, h2, h3⟩ := (Normal_cons2 a a2 A).1 hA
      have : Normal ((a2 :: A) ++ B) := ih h3 (by
        intro x y hx hy
        exact hj x y (by simpa [List.getLast?_cons_cons] using hx) hy)
      exact (Normal_cons2 a a2 (A ++ B)).2 ⟨h1, h2, this⟩

theorem Normal_append_left {A B : Text} (h : Normal (A ++ B)) : Normal A := by
  induction A with
  | nil => exact Normal_nil
  | cons a A ih =>
    cases A with
    | nil => exact (Normal_single a).2 (Normal_head h)
    | cons a2 A =>
      obtain ⟨h1, h2, h3⟩ := (Normal_cons2 a a2 (A ++ B)).1 h
      exact (Normal_cons2 a a2 A).2 ⟨h1, h2, ih h3⟩

theorem Normal_append_right {A B : Text} (h : Normal (A ++ B)) : Normal B := by
  induction A with
  | nil => simpa using h
  | cons a A ih => exact ih (Normal_tail h)

theorem Normal_all_nonempty {t : Text} (h : Normal t) : ∀ s ∈ t, s.text ≠ [] := by
  induction t with
  | nil => intro s hs; simp at hs
  | cons a r ih =>
    intro s hs
    rcases List.mem_cons.1 hs with rfl | hs
    · exact Normal_head h
    · exact ih (Normal_tail h) s hs

/-- `Normal (S ++ [p])` only depends on `p` through its style and on its text being non-empty. -/
theorem Normal_snoc_iff (S : Text) (p : Segment) :
    Normal (S ++ [p]) ↔ Normal S ∧ p.text ≠ [] ∧ ∀ a, S.getLast? = some a → a.style ≠ p.style := by
  constructor
  · intro h
    refine ⟨Normal_append_left h, (Normal_single p).1 (Normal_append_right h), ?_⟩
    intro a ha
    induction S with
    | nil => simp at ha
    | cons x S ih =>
      cases S with
      | nil =>
        simp only [List.getLast?_singleton, Option.some.injEq] at ha
        subst ha
        exact ((Normal_cons2 x p []).1 h).2.1
      | cons y S =>
        exact ih (Normal_tail h) (by simpa [List.getLast?_cons_cons] using ha)
  · rintro ⟨h1, h2, h3⟩
    exact Normal_append h1 ((Normal_single p).2 h2) (by
      intro a b ha hb
      simp only [List.head?_cons, Option.some.injEq] at hb
      subst hb; exact h3 a ha)

/-! ### content -/

theorem styledBytes_nil : styledBytes [] = [] := rfl
theorem styledBytes_cons (s : Segment) (t : Text) :
    styledBytes (s :: t) = s.text.map (fun b => (s.style, b)) ++ styledBytes t := by
  simp [styledBytes]
theorem styledBytes_append (a b : Text) : styledBytes (a ++ b) = styledBytes a ++ styledBytes b := by
  simp [styledBytes]
theorem plain_append (a b : Text) : plain (a ++ b) = plain a ++ plain b := by simp [plain]
theorem plain_nil : plain [] = [] := rfl
theorem plain_cons (s : Segment) (t : Text) : plain (s :: t) = s.text ++ plain t := by simp [plain]

/-- The plain content is the byte projection of the styled bytes. -/
theorem plain_eq (t : Text) : plain t = (styledBytes t).map (·.2) := by
  induction t with
  | nil => rfl
  | cons s t ih => rw [plain_cons, styledBytes_cons, List.map_append, ← ih]; simp [Function.comp_def]

/-! ### TextBuilder -/

/-- The segments of the builder with the pending one at the end (whether or not it is empty). -/
def TB.flat (tb : TB) : Text := tb.segs ++ [{ style := tb.style, text := tb.text }]

theorem TB.styledBytes_toText (tb : TB) : styledBytes tb.toText = styledBytes tb.flat := by
  unfold TB.toText TB.flat
  split
  · rename_i h
    simp only [Bool.and_eq_true, List.isEmpty_iff] at h
    simp [h.1, h.2, styledBytes]
  · rfl

theorem dropLast_append_getLast {α} (l : List α) (x : α) (h : l.getLast? = some x) :
    l.dropLast ++ [x] = l := by
  induction l with
  | nil => simp at h
  | cons a l ih =>
    cases l with
    | nil => simp at h; simp [h]
    | cons b l =>
      rw [List.getLast?_cons_cons] at h
      simp only [List.dropLast_cons₂, List.cons_append]
      rw [ih h]

theorem TB.flat_writeRest (tb : TB) (t : Text) (ht : t ≠ []) :
    (tb.writeRest t).flat = (if tb.text.isEmpty then tb.segs else tb.flat) ++ t := by
  unfold TB.writeRest
  cases h : t.getLast? with
  | none => exact absurd (List.getLast?_eq_none_iff.1 h) ht
  | some last =>
    simp only [TB.flat]
    have hl := dropLast_append_getLast t last h
    split
    · rename_i he
      have he' : tb.text = [] := List.isEmpty_iff.1 he
      simp only [he', List.nil_append, List.append_assoc]
      rw [show ({ style := last.style, text := last.text } : Segment) = last from rfl, hl]
    · simp only [List.nil_append, List.append_assoc]
      rw [show ({ style := last.style, text := last.text } : Segment) = last from rfl, hl]

/-- Writing a text appends its styled bytes to those already in the builder. -/
theorem TB.styledBytes_writeText (tb : TB) (t : Text) :
    styledBytes (tb.writeText t).flat = styledBytes tb.flat ++ styledBytes t := by
  have hempty : ∀ (tb : TB), tb.text.isEmpty = true → styledBytes tb.segs = styledBytes tb.flat := by
    intro tb h
    simp only [List.isEmpty_iff] at h
    simp [TB.flat, styledBytes_append, styledBytes, h]
  have hrest : ∀ (tb : TB) (t : Text), t ≠ [] →
      styledBytes (tb.writeRest t).flat = styledBytes tb.flat ++ styledBytes t := by
    intro tb t ht
    rw [TB.flat_writeRest tb t ht, styledBytes_append]
    split
    · rename_i h; rw [hempty tb h]
    · rfl
  unfold TB.writeText
  cases t with
  | nil => simp [styledBytes]
  | cons s0 rest =>
    simp only
    split
    · rename_i hst
      have hm : styledBytes ({ tb with text := tb.text ++ s0.text } : TB).flat =
          styledBytes tb.flat ++ s0.text.map (fun b => (s0.style, b)) := by
        simp [TB.flat, styledBytes_append, styledBytes, hst]
      cases rest with
      | nil => simp only; rw [hm, styledBytes_cons, styledBytes_nil, List.append_nil]
      | cons r0 rest =>
        simp only
        rw [hrest _ _ (by simp), hm, styledBytes_cons s0, List.append_assoc]
    · exact hrest tb _ (by simp)

/-- The builder invariant: what `Text()` would return is in normal form. -/
def TBInv (tb : TB) : Prop := Normal tb.toText

theorem TBInv_empty : TBInv {} := rfl

theorem TB.toText_of_nonempty (tb : TB) (h : tb.text ≠ []) : tb.toText = tb.flat := by
  unfold TB.toText TB.flat
  have : tb.text.isEmpty = false := by simpa [List.isEmpty_iff] using h
  simp [this]

theorem TBInv_segs (tb : TB) (h : TBInv tb) (ht : tb.text = []) : tb.segs = [] := by
  unfold TBInv TB.toText at h
  cases hs : tb.segs with
  | nil => rfl
  | cons a S =>
    have : (tb.segs.isEmpty && tb.text.isEmpty) = false := by simp [hs]
    rw [this] at h
    simp only [Bool.false_eq_true, ↓reduceIte] at h
    have := (Normal_snoc_iff tb.segs ⟨tb.style, tb.text⟩).1 h
    exact absurd ht this.2.1

theorem TBInv_flat (tb : TB) (h : TBInv tb) (ht : tb.text ≠ []) : Normal tb.flat := by
  rw [← TB.toText_of_nonempty tb ht]; exact h

/-- `WriteText` of a normal text keeps the builder normal. -/
theorem TBInv_writeText (tb : TB) (t : Text) (h : TBInv tb) (ht : Normal t) : TBInv (tb.writeText t) := by
  -- the un-merged path
  have hrest : ∀ (tb : TB) (t : Text), TBInv tb → Normal t → t ≠ [] →
      (∀ b, t.head? = some b → tb.text ≠ [] → tb.style ≠ b.style) → TBInv (tb.writeRest t) := by
    intro tb t h ht hne hj
    have hlast : ∃ last, t.getLast? = some last := by
      cases hl : t.getLast? with
      | none => exact absurd (List.getLast?_eq_none_iff.1 hl) hne
      | some l => exact ⟨l, rfl⟩
    obtain ⟨last, hl⟩ := hlast
    have hlast_ne : last.text ≠ [] := Normal_all_nonempty ht last (List.mem_of_getLast? hl)
    have htext : (tb.writeRest t).text ≠ [] := by
      unfold TB.writeRest; rw [hl]; simp only
      split <;> simp [hlast_ne]
    unfold TBInv
    rw [TB.toText_of_nonempty _ htext, TB.flat_writeRest tb t hne]
    by_cases he : tb.text = []
    · have hs := TBInv_segs tb h he
      simp [he, hs]; exact ht
    · have : tb.text.isEmpty = false := by simpa [List.isEmpty_iff] using he
      rw [this]
      simp only [Bool.false_eq_true, ↓reduceIte]
      refine Normal_append (TBInv_flat tb h he) ht ?_
      intro a b ha hb
      simp only [TB.flat, List.getLast?_append, List.getLast?_singleton, Option.some_or,
        Option.some.injEq] at ha
      subst ha
      exact hj b hb he
  unfold TB.writeText
  cases t with
  | nil => exact h
  | cons s0 rest =>
    simp only
    have hs0 : s0.text ≠ [] := Normal_head ht
    split
    · rename_i hst
      -- merged: the pending text grows, its style stays
      have hmerge : TBInv ({ tb with text := tb.text ++ s0.text } : TB) := by
        have hne : (tb.text ++ s0.text) ≠ [] := by simp [hs0]
        unfold TBInv
        rw [TB.toText_of_nonempty _ hne]
        simp only [TB.flat]
        by_cases he : tb.text = []
        · have hs := TBInv_segs tb h he
          simp [hs, he]; exact (Normal_single _).2 hs0
        · have hf := TBInv_flat tb h he
          simp only [TB.flat] at hf
          obtain ⟨n1, _, n3⟩ := (Normal_snoc_iff tb.segs ⟨tb.style, tb.text⟩).1 hf
          exact (Normal_snoc_iff tb.segs ⟨tb.style, tb.text ++ s0.text⟩).2 ⟨n1, hne, n3⟩
      cases rest with
      | nil => exact hmerge
      | cons r0 rest =>
        simp only
        obtain ⟨_, hdiff, hr⟩ := (Normal_cons2 s0 r0 rest).1 ht
        apply hrest _ _ hmerge hr (by simp)
        intro b hb _
        simp only [List.head?_cons, Option.some.injEq] at hb
        subst hb
        simp only; rw [hst]; exact hdiff
    · rename_i hst
      apply hrest tb _ h ht (by simp)
      intro b hb _
      simp only [List.head?_cons, Option.some.injEq] at hb
      subst hb; exact hst

theorem textFromSegment_normal (s : Segment) : Normal (textFromSegment s) := by
  unfold textFromSegment
  split
  · exact Normal_nil
  · rename_i h; exact (Normal_single s).2 (by simpa [List.isEmpty_iff] using h)

theorem styledBytes_textFromSegment (s : Segment) : styledBytes (textFromSegment s) = styledBytes [s] := by
  unfold textFromSegment
  split
  · rename_i h; simp only [List.isEmpty_iff] at h; simp [styledBytes, h]
  · rfl

theorem foldl_writeText_inv (ts : List Text) (tb : TB) (h : TBInv tb) (hts : ∀ t ∈ ts, Normal t) :
    TBInv (ts.foldl TB.writeText tb) := by
  induction ts generalizing tb with
  | nil => exact h
  | cons t ts ih =>
    exact ih _ (TBInv_writeText tb t h (hts t List.mem_cons_self)) (fun x hx => hts x (List.mem_cons_of_mem _ hx))

theorem foldl_writeText_content (ts : List Text) (tb : TB) :
    styledBytes (ts.foldl TB.writeText tb).flat = styledBytes tb.flat ++ (ts.map styledBytes).flatten := by
  induction ts generalizing tb with
  | nil => simp
  | cons t ts ih =>
    simp only [List.foldl_cons, List.map_cons, List.flatten_cons]
    rw [ih, TB.styledBytes_writeText, List.append_assoc]

theorem Concat_normal (ts : List Text) (h : ∀ t ∈ ts, Normal t) : Normal (Concat ts) :=
  foldl_writeText_inv ts {} TBInv_empty h

theorem Concat_content (ts : List Text) : styledBytes (Concat ts) = (ts.map styledBytes).flatten := by
  unfold Concat
  rw [TB.styledBytes_toText, foldl_writeText_content]
  simp [TB.flat, styledBytes]

end C33
