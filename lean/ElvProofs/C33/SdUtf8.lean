/-
Helper lemmas for C33 (round 2): valid UTF-8 as "the encoding of a list of Unicode
scalar values", decoding of such strings, and `strings.Split(s, "\n")` on them.
-/
import ElvModel.C33.Model
import ElvProofs.C33.Ops
import ElvProofs.C34.Utf8
import ElvProofs.C34.NoWrap
namespace C33
open Go C34.Utf8

/-- Valid UTF-8: the encoding of a list of Unicode scalar values (`utf8.ValidString`). -/
def IsUtf8 (s : Bytes) : Prop := ∃ rs : List Nat, (∀ r ∈ rs, validRune r = true) ∧ s = encodeRunes rs

theorem encodeRunes_nil : encodeRunes [] = [] := rfl
theorem encodeRunes_cons (r : Nat) (rs : List Nat) : encodeRunes (r :: rs) = encodeRune r ++ encodeRunes rs := by
  simp [encodeRunes]
theorem encodeRunes_append (a b : List Nat) : encodeRunes (a ++ b) = encodeRunes a ++ encodeRunes b := by
  simp [encodeRunes]

/-- `[]rune(string(r) + t) = r :: []rune(t)` for a scalar value `r`. -/
theorem toRunes_encodeRune_append (r : Nat) (h : validRune r = true) (t : Bytes) :
    toRunes (encodeRune r ++ t) = r :: toRunes t := by
  unfold toRunes
  have hne : encodeRune r ++ t ≠ [] := by
    intro he; exact encodeRune_ne_nil r (List.append_eq_nil_iff.1 he).1
  rw [runes_cons _ hne, decodeRune_encodeRune r t h]
  simp only [List.map_cons, List.map_map, List.drop_left']
  congr 1

theorem toRunes_encodeRunes_append (rs : List Nat) (h : ∀ r ∈ rs, validRune r = true) (t : Bytes) :
    toRunes (encodeRunes rs ++ t) = rs ++ toRunes t := by
  induction rs with
  | nil => rfl
  | cons r rs ih =>
    rw [encodeRunes_cons, List.append_assoc, toRunes_encodeRune_append r (h r List.mem_cons_self),
      ih (fun x hx => h x (List.mem_cons_of_mem _ hx))]
    rfl

theorem toRunes_nil : toRunes [] = [] := rfl

theorem toRunes_encodeRunes (rs : List Nat) (h : ∀ r ∈ rs, validRune r = true) : toRunes (encodeRunes rs) = rs := by
  have := toRunes_encodeRunes_append rs h []
  rwa [List.append_nil, toRunes_nil, List.append_nil] at this

/-- The bytes of `string(r)`: the rune itself when ASCII, else bytes ≥ 0x80. -/
theorem encodeRune_bytes (r : Nat) (h : validRune r = true) :
    (r < 0x80 ∧ encodeRune r = [UInt8.ofNat r]) ∨ (0x80 ≤ r ∧ ∀ b ∈ encodeRune r, 0x80 ≤ b.toNat) := by
  have hv := (validRune_iff r).1 h
  by_cases h1 : r < 0x80
  · left; exact ⟨h1, by unfold encodeRune; rw [if_pos h1]⟩
  · right
    refine ⟨by omega, ?_⟩
    unfold encodeRune
    rw [if_neg h1]
    by_cases h2 : r < 0x800
    · rw [if_pos h2]
      intro b hb
      simp only [List.mem_cons, List.not_mem_nil, or_false] at hb
      rcases hb with rfl | rfl <;> simp only [UInt8.toNat_ofNat'] <;> omega
    · rw [if_neg h2, h]
      simp only [Bool.not_true, Bool.false_eq_true, if_false]
      by_cases h3 : r < 0x10000
      · rw [if_pos h3]
        intro b hb
        simp only [List.mem_cons, List.not_mem_nil, or_false] at hb
        rcases hb with rfl | rfl | rfl <;> simp only [UInt8.toNat_ofNat'] <;> omega
      · rw [if_neg h3]
        intro b hb
        simp only [List.mem_cons, List.not_mem_nil, or_false] at hb
        rcases hb with rfl | rfl | rfl | rfl <;> simp only [UInt8.toNat_ofNat'] <;> omega

theorem encodeRune_no_nl (r : Nat) (h : validRune r = true) (hr : r ≠ 10) : ∀ b ∈ encodeRune r, b ≠ 10 := by
  intro b hb
  rcases encodeRune_bytes r h with ⟨h1, e⟩ | ⟨_, e⟩
  · rw [e] at hb
    simp only [List.mem_singleton] at hb
    rw [hb]
    intro h10
    have := congrArg UInt8.toNat h10
    simp only [UInt8.toNat_ofNat'] at this
    have e10 : (10 : UInt8).toNat = 10 := rfl
    omega
  · intro h10
    have := e b hb
    rw [h10] at this
    have e10 : (10 : UInt8).toNat = 10 := rfl
    omega

theorem encodeRune_nl : encodeRune 10 = [10] := by decide

/-! ### `strings.Split(s, "\n")` on encoded rune lists -/

theorem splitBytes_nl (t : Bytes) : splitBytes [10] (10 :: t) = [] :: splitBytes [10] t := by
  simp [splitBytes, splitGo, List.isPrefixOf]

theorem splitBytes_cons (b : UInt8) (hb : b ≠ 10) (t : Bytes) :
    ∃ p ps, splitBytes [10] t = p :: ps ∧ splitBytes [10] (b :: t) = (b :: p) :: ps := by
  have hne := splitGo_ne_nil [10] 0 t
  cases h : splitGo [10] 0 t with
  | nil => exact absurd h hne
  | cons p ps =>
    refine ⟨p, ps, h, ?_⟩
    have : ([10] : Bytes).isPrefixOf (b :: t) = false := by
      simp [List.isPrefixOf]; exact fun e => hb e.symm
    simp only [splitBytes, splitGo, this, h]
    rfl

theorem splitBytes_prefix (pre : Bytes) (hpre : ∀ b ∈ pre, b ≠ 10) (t : Bytes) :
    ∃ p ps, splitBytes [10] t = p :: ps ∧ splitBytes [10] (pre ++ t) = (pre ++ p) :: ps := by
  induction pre with
  | nil =>
    have hne := splitGo_ne_nil [10] 0 t
    cases h : splitGo [10] 0 t with
    | nil => exact absurd h hne
    | cons p ps => exact ⟨p, ps, h, h⟩
  | cons b pre ih =>
    obtain ⟨p, ps, h1, h2⟩ := ih (fun x hx => hpre x (List.mem_cons_of_mem _ hx))
    obtain ⟨p', ps', h3, h4⟩ := splitBytes_cons b (hpre b List.mem_cons_self) (pre ++ t)
    rw [h2] at h3
    simp only [List.cons.injEq] at h3
    refine ⟨p, ps, h1, ?_⟩
    rw [List.cons_append, h4, ← h3.1, ← h3.2]; rfl

/-- Splitting a rune list at newlines. -/
def splitRunes : List Nat → List (List Nat)
  | [] => [[]]
  | r :: rs =>
    if r = 10 then [] :: splitRunes rs
    else match splitRunes rs with
      | p :: ps => (r :: p) :: ps
      | [] => [[r]]

theorem splitRunes_ne_nil (rs : List Nat) : splitRunes rs ≠ [] := by
  cases rs with
  | nil => simp [splitRunes]
  | cons r rs => simp only [splitRunes]; split <;> (try split) <;> simp

theorem splitBytes_encodeRunes (rs : List Nat) (h : ∀ r ∈ rs, validRune r = true) :
    splitBytes [10] (encodeRunes rs) = (splitRunes rs).map encodeRunes := by
  induction rs with
  | nil => rfl
  | cons r rs ih =>
    have ih := ih (fun x hx => h x (List.mem_cons_of_mem _ hx))
    rw [encodeRunes_cons]
    simp only [splitRunes]
    by_cases hr : r = 10
    · rw [if_pos hr, hr, encodeRune_nl]
      simp only [List.cons_append, List.nil_append, List.map_cons]
      rw [splitBytes_nl, ih]; rfl
    · rw [if_neg hr]
      obtain ⟨p, ps, h1, h2⟩ := splitBytes_prefix (encodeRune r)
        (encodeRune_no_nl r (h r List.mem_cons_self) hr) (encodeRunes rs)
      rw [h2]
      rw [ih] at h1
      cases hs : splitRunes rs with
      | nil => exact absurd hs (splitRunes_ne_nil rs)
      | cons q qs =>
        rw [hs] at h1
        simp only [List.map_cons, List.cons.injEq] at h1
        simp only [List.map_cons, encodeRunes_cons]
        rw [← h1.1, ← h1.2]

theorem splitRunes_mem (rs : List Nat) : ∀ p ∈ splitRunes rs, ∀ r ∈ p, r ∈ rs ∧ r ≠ 10 := by
  induction rs with
  | nil => intro p hp r hr; simp [splitRunes] at hp; rw [hp] at hr; simp at hr
  | cons a rs ih =>
    intro p hp r hr
    simp only [splitRunes] at hp
    by_cases ha : a = 10
    · rw [if_pos ha] at hp
      rcases List.mem_cons.1 hp with rfl | hp
      · simp at hr
      · have := ih p hp r hr; exact ⟨List.mem_cons_of_mem _ this.1, this.2⟩
    · rw [if_neg ha] at hp
      cases hs : splitRunes rs with
      | nil => exact absurd hs (splitRunes_ne_nil rs)
      | cons q qs =>
        rw [hs] at hp ih
        rcases List.mem_cons.1 hp with rfl | hp
        · rcases List.mem_cons.1 hr with rfl | hr
          · exact ⟨List.mem_cons_self, ha⟩
          · have := ih q List.mem_cons_self r hr; exact ⟨List.mem_cons_of_mem _ this.1, this.2⟩
        · have := ih p (List.mem_cons_of_mem _ hp) r hr; exact ⟨List.mem_cons_of_mem _ this.1, this.2⟩

end C33
