/-
Helper lemmas for C33 (round 2): a text in normal form is determined by its
styled bytes (the normal form is canonical).
-/
import ElvModel.C33.Model
import ElvProofs.C33.Normal
namespace C33
open Go

theorem styledBytes_eq_nil {t : Text} (h : Normal t) (he : styledBytes t = []) : t = [] := by
  cases t with
  | nil => rfl
  | cons s r =>
    exfalso
    rw [styledBytes_cons] at he
    have := Normal_head h
    cases hs : s.text with
    | nil => exact this hs
    | cons b bs => rw [hs] at he; simp at he

theorem map_style_inj (st : Style) (a b : Bytes) (h : a.map (fun x => (st, x)) = b.map (fun x => (st, x))) : a = b := by
  have := congrArg (List.map (·.2)) h
  simpa [Function.comp_def] using this

/-- Two texts in normal form with the same styled bytes are equal. -/
theorem Normal_unique : ∀ (a b : Text), Normal a → Normal b → styledBytes a = styledBytes b → a = b := by
  intro a
  induction a with
  | nil => intro b _ hb h; exact (styledBytes_eq_nil hb h.symm).symm
  | cons s ra ih =>
    intro b ha hb h
    cases b with
    | nil => exact styledBytes_eq_nil ha h
    | cons u rb =>
      have hs := Normal_head ha
      have hu := Normal_head hb
      rw [styledBytes_cons, styledBytes_cons] at h
      -- the first styled byte gives the style
      have hst : s.style = u.style := by
        cases hs' : s.text with
        | nil => exact absurd hs' hs
        | cons x xs =>
          cases hu' : u.text with
          | nil => exact absurd hu' hu
          | cons y ys =>
            rw [hs', hu'] at h
            simp only [List.map_cons, List.cons_append, List.cons.injEq, Prod.mk.injEq] at h
            exact h.1.1
      -- a longer first segment would make the neighbour repeat the style
      have key : ∀ (s u : Segment) (ra rb : Text), Normal (s :: ra) → s.style = u.style →
          ∀ c, c ≠ [] → u.text.map (fun x => (u.style, x)) = s.text.map (fun x => (s.style, x)) ++ c →
          styledBytes ra = c ++ styledBytes rb → False := by
        intro s u ra rb ha hst c hc h1 h2
        cases ra with
        | nil => rw [styledBytes_nil] at h2; cases c with
          | nil => exact hc rfl
          | cons c0 c => simp at h2
        | cons s2 ra =>
          obtain ⟨_, hne, h3⟩ := (Normal_cons2 s s2 ra).1 ha
          have hs2 := Normal_head h3
          cases c with
          | nil => exact hc rfl
          | cons c0 c =>
            have hc0 : c0.1 = u.style := by
              have hm : c0 ∈ u.text.map (fun x => (u.style, x)) := by rw [h1]; simp
              obtain ⟨x, _, rfl⟩ := List.mem_map.1 hm
              rfl
            rw [styledBytes_cons] at h2
            cases hs2' : s2.text with
            | nil => exact hs2 hs2'
            | cons y ys =>
              rw [hs2'] at h2
              simp only [List.map_cons, List.cons_append, List.cons.injEq] at h2
              have : s2.style = c0.1 := by rw [← h2.1]
              exact hne (by rw [hst, ← hc0, ← this])
      rcases List.append_eq_append_iff.1 h with ⟨c, h1, h2⟩ | ⟨c, h1, h2⟩
      · -- u's bytes = s's bytes ++ c
        by_cases hc : c = []
        · subst hc
          simp only [List.append_nil, List.nil_append] at h1 h2
          rw [hst] at h1
          have ht := map_style_inj _ _ _ h1
          have hsu : s = u := by
            cases s; cases u; simp only at hst ht; simp [hst, ht]
          rw [hsu, ih rb (Normal_tail ha) (Normal_tail hb) h2]
        · exact (key s u ra rb ha hst c hc h1 h2).elim
      · by_cases hc : c = []
        · subst hc
          simp only [List.append_nil, List.nil_append] at h1 h2
          rw [hst] at h1
          have ht := map_style_inj _ _ _ h1
          have hsu : s = u := by
            cases s; cases u; simp only at hst ht; simp [hst, ht]
          rw [hsu, ih rb (Normal_tail ha) (Normal_tail hb) h2.symm]
        · exact (key u s rb ra hb hst.symm c hc h1 h2).elim

end C33
