/-
Helper lemmas for C33 (round 2): what the segments of the lines `SplitByRune('\n')`
hands to styledown's `Derender` look like — encodings of scalar values that are
not newlines and have non-zero width — when the text has no invalid UTF-8 and no
zero-width character.
-/
import ElvProofs.C33.SdUtf8
import ElvProofs.C33.SplitStyled
namespace C33
open Go C34.Utf8

/-- Text of a segment of the input: valid UTF-8 without zero-width characters (newlines aside). -/
def SegTxt (wd : Int → Int) (s : Bytes) : Prop :=
  ∃ rs : List Nat, (∀ r ∈ rs, validRune r = true ∧ (r ≠ 10 → wd (r : Int) ≠ 0)) ∧ s = encodeRunes rs

/-- Text of a segment of a line: additionally no newline. -/
def LineTxt (wd : Int → Int) (s : Bytes) : Prop :=
  ∃ rs : List Nat, (∀ r ∈ rs, validRune r = true ∧ r ≠ 10 ∧ wd (r : Int) ≠ 0) ∧ s = encodeRunes rs

theorem LineTxt.nil (wd : Int → Int) : LineTxt wd [] := ⟨[], by simp, rfl⟩

theorem LineTxt.append {wd : Int → Int} {a b : Bytes} (ha : LineTxt wd a) (hb : LineTxt wd b) : LineTxt wd (a ++ b) := by
  obtain ⟨ra, h1, rfl⟩ := ha
  obtain ⟨rb, h2, rfl⟩ := hb
  refine ⟨ra ++ rb, ?_, (encodeRunes_append ra rb).symm⟩
  intro r hr
  rcases List.mem_append.1 hr with h | h
  · exact h1 r h
  · exact h2 r h

theorem LineTxt.no_nl {wd : Int → Int} {s : Bytes} (h : LineTxt wd s) : ∀ b ∈ s, b ≠ 10 := by
  obtain ⟨rs, h1, rfl⟩ := h
  intro b hb
  simp only [encodeRunes, List.mem_flatMap] at hb
  obtain ⟨r, hr, hb⟩ := hb
  exact encodeRune_no_nl r (h1 r hr).1 (h1 r hr).2.1 b hb

theorem pieces_lineTxt (wd : Int → Int) (s : Bytes) (h : SegTxt wd s) : ∀ p ∈ splitBytes [10] s, LineTxt wd p := by
  obtain ⟨rs, h1, rfl⟩ := h
  rw [splitBytes_encodeRunes rs (fun r hr => (h1 r hr).1)]
  intro p hp
  obtain ⟨q, hq, rfl⟩ := List.mem_map.1 hp
  refine ⟨q, ?_, rfl⟩
  intro r hr
  obtain ⟨hm, hne⟩ := splitRunes_mem rs q hq r hr
  exact ⟨(h1 r hm).1, hne, (h1 r hm).2 hne⟩

/-! ### a predicate on segment texts through the builder -/

def TBAll (Q : Bytes → Prop) (tb : TB) : Prop := (∀ s ∈ tb.segs, Q s.text) ∧ Q tb.text

theorem TBAll_writeRest (Q : Bytes → Prop) (tb : TB) (t : Text) (h : TBAll Q tb) (ht : ∀ s ∈ t, Q s.text) :
    TBAll Q (tb.writeRest t) := by
  unfold TB.writeRest
  cases hl : t.getLast? with
  | none => exact h
  | some last =>
    have hlast : Q last.text := ht last (List.mem_of_getLast? hl)
    have hdl : ∀ s ∈ t.dropLast, Q s.text := fun s hs => ht s ((List.dropLast_sublist t).subset hs)
    simp only
    constructor
    · intro s hs
      simp only at hs
      rcases List.mem_append.1 hs with hs | hs
      · split at hs
        · exact h.1 s hs
        · rcases List.mem_append.1 hs with hs | hs
          · exact h.1 s hs
          · simp only [List.mem_singleton] at hs; rw [hs]; exact h.2
      · exact hdl s hs
    · simp only
      split
      · rename_i he
        simp only [List.isEmpty_iff] at he
        rw [he]; exact hlast
      · exact hlast

theorem TBAll_writeText (Q : Bytes → Prop) (happ : ∀ a b, Q a → Q b → Q (a ++ b)) (tb : TB) (t : Text)
    (h : TBAll Q tb) (ht : ∀ s ∈ t, Q s.text) : TBAll Q (tb.writeText t) := by
  unfold TB.writeText
  cases t with
  | nil => exact h
  | cons s0 rest =>
    simp only
    have hs0 := ht s0 List.mem_cons_self
    have hrest : ∀ s ∈ rest, Q s.text := fun s hs => ht s (List.mem_cons_of_mem _ hs)
    split
    · have h' : TBAll Q { tb with text := tb.text ++ s0.text } := ⟨h.1, happ _ _ h.2 hs0⟩
      cases rest with
      | nil => exact h'
      | cons r0 rest => exact TBAll_writeRest Q _ _ h' hrest
    · exact TBAll_writeRest Q _ _ h ht

theorem TBAll_toText (Q : Bytes → Prop) (tb : TB) (h : TBAll Q tb) : ∀ s ∈ tb.toText, Q s.text := by
  unfold TB.toText
  split
  · intro s hs; simp at hs
  · intro s hs
    rcases List.mem_append.1 hs with hs | hs
    · exact h.1 s hs
    · simp only [List.mem_singleton] at hs; rw [hs]; exact h.2

theorem TBAll_empty (Q : Bytes → Prop) (h : Q []) : TBAll Q {} := ⟨by intro s hs; simp at hs, h⟩

theorem textFromSegment_all (Q : Bytes → Prop) (p : Segment) (h : Q p.text) : ∀ s ∈ textFromSegment p, Q s.text := by
  unfold textFromSegment
  split
  · intro s hs; simp at hs
  · intro s hs; simp only [List.mem_singleton] at hs; rw [hs]; exact h

/-! ### the lines of `SplitByRune('\n')` -/

theorem splitStep_all (wd : Int → Int) (acc : List Text × TB) (seg : Segment) (hseg : SegTxt wd seg.text)
    (h1 : ∀ line ∈ acc.1, ∀ s ∈ line, LineTxt wd s.text) (h2 : TBAll (LineTxt wd) acc.2) :
    (∀ line ∈ (splitStep 10 acc seg).1, ∀ s ∈ line, LineTxt wd s.text) ∧ TBAll (LineTxt wd) (splitStep 10 acc seg).2 := by
  have hp : ∀ p ∈ seg.splitByRune 10, LineTxt wd p.text := by
    intro p hp
    simp only [Segment.splitByRune, runeString_nl, List.mem_map] at hp
    obtain ⟨q, hq, rfl⟩ := hp
    exact pieces_lineTxt wd seg.text hseg q hq
  have happ : ∀ a b, LineTxt wd a → LineTxt wd b → LineTxt wd (a ++ b) := fun _ _ ha hb => ha.append hb
  unfold splitStep
  split
  · exact ⟨h1, h2⟩
  · rename_i p h
    rw [h] at hp
    exact ⟨h1, TBAll_writeText _ happ _ _ h2 (textFromSegment_all _ p (hp p List.mem_cons_self))⟩
  · rename_i p ps _ h
    rw [h] at hp
    simp only
    constructor
    · intro x hx
      simp only [List.append_assoc, List.mem_append, List.mem_cons, List.mem_map, List.not_mem_nil, or_false] at hx
      rcases hx with hx | rfl | ⟨y, hy, rfl⟩
      · exact h1 x hx
      · exact TBAll_toText _ _ (TBAll_writeText _ happ _ _ h2 (textFromSegment_all _ p (hp p List.mem_cons_self)))
      · exact textFromSegment_all _ y (hp y (List.mem_cons_of_mem _ ((List.dropLast_sublist ps).subset hy)))
    · split
      · rename_i l hl
        exact TBAll_writeText _ happ _ _ (TBAll_empty _ (LineTxt.nil wd))
          (textFromSegment_all _ l (hp l (List.mem_cons_of_mem _ (List.mem_of_getLast? hl))))
      · exact TBAll_empty _ (LineTxt.nil wd)

theorem foldl_splitStep_all (wd : Int → Int) (t : Text) (acc : List Text × TB) (ht : ∀ s ∈ t, SegTxt wd s.text)
    (h1 : ∀ line ∈ acc.1, ∀ s ∈ line, LineTxt wd s.text) (h2 : TBAll (LineTxt wd) acc.2) :
    (∀ line ∈ (t.foldl (splitStep 10) acc).1, ∀ s ∈ line, LineTxt wd s.text) ∧
      TBAll (LineTxt wd) (t.foldl (splitStep 10) acc).2 := by
  induction t generalizing acc with
  | nil => exact ⟨h1, h2⟩
  | cons s t ih =>
    obtain ⟨a, b⟩ := splitStep_all wd acc s (ht s List.mem_cons_self) h1 h2
    exact ih _ (fun x hx => ht x (List.mem_cons_of_mem _ hx)) a b

/-- Every segment of every line of `SplitByRune('\n')` is a `LineTxt`, and every line is normal. -/
theorem SplitByRune_lines (wd : Int → Int) (t : Text) (ht : ∀ s ∈ t, SegTxt wd s.text) (ls : List Text)
    (h : SplitByRune t 10 = some ls) :
    (∀ line ∈ ls, ∀ s ∈ line, LineTxt wd s.text) ∧ ∀ line ∈ ls, Normal line := by
  unfold SplitByRune at h
  split at h
  · simp at h
  · simp only [Option.some.injEq] at h
    obtain ⟨a, b⟩ := foldl_splitStep_all wd t ([], {}) ht (by intro l hl; simp at hl) (TBAll_empty _ (LineTxt.nil wd))
    obtain ⟨c, d⟩ := foldl_splitStep_inv 10 t ([], {}) (by intro l hl; simp at hl) TBInv_empty
    rw [← h]
    constructor
    · intro line hl
      rcases List.mem_append.1 hl with hl | hl
      · exact a line hl
      · simp only [List.mem_singleton] at hl; rw [hl]; exact TBAll_toText _ _ b
    · intro line hl
      rcases List.mem_append.1 hl with hl | hl
      · exact c line hl
      · simp only [List.mem_singleton] at hl; rw [hl]; exact d

end C33
