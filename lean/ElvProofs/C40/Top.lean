import ElvProofs.C40.Induct
/-!
C40 — helpers of the property theorems: from `Res` to the counters, the
concrete worlds / trees used by the counterexample and the non-vacuity examples.
-/
namespace C40

theorem net_of_res {w w' : World} (hw : WF w) (h : Res w w') :
    netFds w w' = 0 ∧ netGo w w' = 0 ∧ (∀ fd, fd ∈ w'.openFds ↔ fd ∈ w.openFds) ∧ w'.openFds.Nodup ∧
    w'.badClose = w.badClose ∧ w'.panics = w.panics ∧ w'.hung = w.hung := by
  obtain ⟨hw', hb⟩ := h
  have hperm : w'.openFds.Perm w.openFds := (List.perm_ext_iff_of_nodup hw'.nodup hw.nodup).2 hb.mem
  have hlen := hperm.length_eq
  have c1 := hw.count
  have c2 := hw'.count
  have hl := hb.quiet.live
  unfold live at hl
  refine ⟨?_, ?_, hb.mem, hw'.nodup, hb.quiet.bad, hb.quiet.panics, hb.quiet.hung⟩
  · unfold netFds; omega
  · unfold netGo; omega

/-- `nop | nop | nop` where the `os.Pipe` call made for the second form fails
(descriptor exhaustion). -/
def witness : Chunk :=
  .mk [.mk false (some 1) [.mk [] (.leaf .ok), .mk [] (.leaf .ok), .mk [] (.leaf .ok)]]

def w0 : World := World.init [0, 1, 2] 3

theorem w0_wf : WF w0 := ⟨by decide, by decide, by decide⟩

theorem topPorts_ok (w : World) : PortsOK w topPorts := by
  intro i p x hpi hx
  have : p.peer = none := by
    unfold topPorts portAt at hpi
    match i, hpi with
    | 0, hpi => simp at hpi; subst hpi; rfl
    | 1, hpi => simp at hpi; subst hpi; rfl
    | 2, hpi => simp at hpi; subst hpi; rfl
    | n + 3, hpi => simp at hpi
  rw [this] at hx; simp at hx

/-- `nop > f > nodir/x | each $nop~ | nop (fail x)`: a redirection that fails
after an earlier one of the same form opened a file, an input-iterating stage
and a capture around a failing body. -/
def sample : Chunk :=
  .mk [.mk false none [
    .mk [.mk none .write (.file true), .mk none .write (.file false)] (.leaf .ok),
    .mk [] .drain,
    .mk [] (.capture true (.mk [.mk false none [.mk [] (.leaf .exc)]]))]]


end C40
