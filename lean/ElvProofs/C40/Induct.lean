import ElvProofs.C40.Stage
/-!
C40 — structural induction over the op tree: every `exec…` of the accounting
model is balanced.
-/
namespace C40

theorem FormInv.of_res {w w' : World} {ports : Ports} {fops : Fops} {B : Nat → Prop}
    (h : FormInv w ports fops B) (hr : Res w w') : FormInv w' ports fops B :=
  ⟨hr.1, h.portsOK.of_bal hr.2, h.flag, h.own.congr_open hr.2.mem⟩

theorem stageLoop_cons (cfg : Cfg) (w : World) (ports : Ports) (failAt : Option Nat) (f : Form)
    (fs : List Form) (i : Nat) (nextIn : Option Port) (acc : List Outcome) :
    stageLoop cfg w ports failAt (f :: fs) i nextIn acc =
      if fs.isEmpty then
        ((runStage cfg w (stagePorts ports nextIn) (stageFops nextIn) f).1,
          mkPipelineError ((runStage cfg w (stagePorts ports nextIn) (stageFops nextIn) f).2 :: acc).reverse)
      else if failAt = some i then
        ((if cfg.pipeFailCleanup then closeInput w nextIn else w), .exc)
      else
        stageLoop cfg
          (finish (runStage cfg (spawn (mkPipe w).1 1) (setPort (stagePorts ports nextIn) 1 (some (mkPipe w).2.1))
            (setFop (stageFops nextIn) 1 ⟨true, true⟩) f).1 1)
          ports failAt fs (i + 1) (some (mkPipe w).2.2)
          (dropGone true (runStage cfg (spawn (mkPipe w).1 1) (setPort (stagePorts ports nextIn) 1 (some (mkPipe w).2.1))
            (setFop (stageFops nextIn) 1 ⟨true, true⟩) f).2 :: acc) := by
  cases nextIn <;> simp only [stageLoop, stagePorts, stageFops]

theorem cancel_res {w : World} (hw : WF w) : Res w { w with cancelled := true } :=
  ⟨⟨hw.nodup, hw.lt, hw.count⟩, ⟨fun _ => Iff.rfl, ⟨Nat.le_refl _, rfl, rfl, rfl, rfl⟩⟩⟩

theorem openFilePort_opened {w0 w : World} (hw : WF w) (hq : Quiet w0 w)
    (hm : ∀ x, x ∈ w.openFds ↔ x ∈ w0.openFds) (res : Outcome ⊕ (Port × Bool))
    (hres : res = Sum.inr ((openFilePort w).2, true)) :
    SrcOK w0 (openFilePort w).1 res := by
  subst hres
  have hworld : (openFilePort w).1 = (newPort (openFd w).1 (some w.nextFd) none).1 := rfl
  have hport : (openFilePort w).2 = (newPort (openFd w).1 (some w.nextFd) none).2 := rfl
  refine SrcOK.opened _ w.nextFd ?_ ?_ ?_ ?_ hq.next ?_
  · rw [hworld]; exact newPort_wf (openFd_wf hw) _ _
  · rw [hworld]; exact hq.trans ((openFd_quiet w).trans (newPort_bal _ _ _).quiet)
  · rw [hport]; rfl
  · rw [hport]; rfl
  · intro x
    rw [hworld, newPort_open, openFd_open, List.mem_cons, hm x]

section
variable {cfg : Cfg} (hc : cfg.pipeFailCleanup = true)
include hc

mutual

theorem op_res : ∀ (op : Op), op.noBg = true → ∀ (w : World) (ports : Ports),
    WF w → PortsOK w ports → Res w (execOp cfg w ports op).1
  | .leaf o, _, w, ports, hw, _ => by simp only [execOp]; exact Res.refl hw
  | .cancel, _, w, ports, hw, _ => by simp only [execOp]; exact cancel_res hw
  | .sleep, _, w, ports, hw, _ => by simp only [execOp]; exact Res.refl hw
  | .drain, _, w, ports, hw, hp => by simp only [execOp]; exact iter_res hw hp
  | .onlyBytes, _, w, ports, hw, hp => by simp only [execOp]; exact only_res hw hp
  | .onlyValues, _, w, ports, hw, hp => by simp only [execOp]; exact only_res hw hp
  | .block c, hb, w, ports, hw, hp => by
    simp only [execOp]
    exact chunk_res c (by simpa [Op.noBg] using hb) w ports hw hp
  | .capture pipeOk c, hb, w, ports, hw, hp => by
    simp only [execOp]
    exact captureWith_res hw hp (fun w1 p1 h1 h2 => chunk_res c (by simpa [Op.noBg] using hb) w1 p1 h1 h2)
  | .excCapture c, hb, w, ports, hw, hp => by
    simp only [execOp]
    exact chunk_res c (by simpa [Op.noBg] using hb) w ports hw hp
  | .peach via bodies, hb, w, ports, hw, hp => by
    have hb' : Chunk.noBgList bodies = true := by simpa [Op.noBg] using hb
    simp only [execOp]
    cases via with
    | false =>
      simp only [Bool.false_eq_true, if_false]
      exact spawned_res bodies hb' w _ hw hp.setDummy
    | true =>
      simp only [if_true]
      have h1 := spawned_res bodies hb' (iterBegin w) (setPort ports 0 (some dummyInput))
        (spawn_wf hw 3) (PortsOK.setDummy (hp.spawn 3))
      have hp2 : PortsOK (execSpawned cfg (iterBegin w) (setPort ports 0 (some dummyInput)) bodies).1 ports :=
        (hp.spawn 3).of_bal h1.2
      unfold iterEnd
      rw [waitEof_eq hp2]
      exact Res.bracket h1
  | .runParallel bodies, hb, w, ports, hw, hp => by
    simp only [execOp]
    exact spawned_res bodies (by simpa [Op.noBg] using hb) w ports hw hp
  | .each bodies, hb, w, ports, hw, hp => by
    simp only [execOp]
    exact seq_res bodies (by simpa [Op.noBg] using hb) w ports hw hp

theorem spawned_res : ∀ (cs : List Chunk), Chunk.noBgList cs = true → ∀ (w : World) (ports : Ports),
    WF w → PortsOK w ports → Res w (execSpawned cfg w ports cs).1
  | [], _, w, ports, hw, _ => by simp only [execSpawned]; exact Res.refl hw
  | c :: cs, hb, w, ports, hw, hp => by
    have hb' : c.noBg = true ∧ Chunk.noBgList cs = true := by simpa [Chunk.noBgList] using hb
    simp only [execSpawned]
    have h1 := chunk_res c hb'.1 (spawn w 1) ports (spawn_wf hw 1) (hp.spawn 1)
    have h2 : Res w (finish (execChunk cfg (spawn w 1) ports c).1 1) := Res.bracket h1
    have h3 := spawned_res cs hb'.2 _ ports h2.1 (hp.of_bal h2.2)
    exact h2.trans h3

theorem seq_res : ∀ (cs : List Chunk), Chunk.noBgList cs = true → ∀ (w : World) (ports : Ports),
    WF w → PortsOK w ports → Res w (execSeq cfg w ports cs).1
  | [], _, w, ports, hw, _ => by simp only [execSeq]; exact Res.refl hw
  | c :: cs, hb, w, ports, hw, hp => by
    have hb' : c.noBg = true ∧ Chunk.noBgList cs = true := by simpa [Chunk.noBgList] using hb
    simp only [execSeq]
    have h1 := chunk_res c hb'.1 w ports hw hp
    split
    · exact h1.trans (seq_res cs hb'.2 _ ports h1.1 (hp.of_bal h1.2))
    · exact h1

theorem chunk_res : ∀ (c : Chunk), c.noBg = true → ∀ (w : World) (ports : Ports),
    WF w → PortsOK w ports → Res w (execChunk cfg w ports c).1
  | .mk ps, hb, w, ports, hw, hp => by
    simp only [execChunk]
    exact pipelines_res ps (by simpa [Chunk.noBg] using hb) w ports hw hp

theorem pipelines_res : ∀ (ps : List Pipeline), Pipeline.noBgList ps = true → ∀ (w : World) (ports : Ports),
    WF w → PortsOK w ports → Res w (execPipelines cfg w ports ps).1
  | [], _, w, ports, hw, _ => by simp only [execPipelines]; exact Res.refl hw
  | p :: ps, hb, w, ports, hw, hp => by
    have hb' : p.noBg = true ∧ Pipeline.noBgList ps = true := by simpa [Pipeline.noBgList] using hb
    simp only [execPipelines]
    have h1 := pipeline_res p hb'.1 w ports hw hp
    split
    · exact h1.trans (pipelines_res ps hb'.2 _ ports h1.1 (hp.of_bal h1.2))
    · exact h1

theorem pipeline_res : ∀ (p : Pipeline), p.noBg = true → ∀ (w : World) (ports : Ports),
    WF w → PortsOK w ports → Res w (execPipeline cfg w ports p).1
  | .mk bg failAt forms, hb, w, ports, hw, hp => by
    have hb' : bg = false ∧ Form.noBgList forms = true := by simpa [Pipeline.noBg] using hb
    obtain ⟨hbg, hforms⟩ := hb'
    subst hbg
    simp only [execPipeline]
    split
    · exact Res.refl hw
    · simp only [Bool.false_eq_true, if_false]
      obtain ⟨r1, r2, r3⟩ := stageLoop_res forms hforms w ports failAt 0 none [] hw hp trivial (fun _ => rfl)
      exact ⟨r1, ⟨fun fd => by rw [r3 fd]; simp [inFd], r2⟩⟩

theorem stageLoop_res : ∀ (forms : List Form), Form.noBgList forms = true →
    ∀ (w : World) (ports : Ports) (failAt : Option Nat) (i : Nat) (nextIn : Option Port) (acc : List Outcome),
    WF w → PortsOK w ports → InOK w nextIn → (forms = [] → nextIn = none) →
    WF (stageLoop cfg w ports failAt forms i nextIn acc).1 ∧
    Quiet w (stageLoop cfg w ports failAt forms i nextIn acc).1 ∧
    (∀ fd, fd ∈ (stageLoop cfg w ports failAt forms i nextIn acc).1.openFds ↔
      (fd ∈ w.openFds ∧ inFd nextIn ≠ some fd))
  | [], _, w, ports, failAt, i, nextIn, acc, hw, hp, hin, hne => by
    simp only [stageLoop]
    refine ⟨hw, Quiet.refl w, ?_⟩
    intro fd
    rw [hne rfl]
    simp [inFd]
  | f :: fs, hb, w, ports, failAt, i, nextIn, acc, hw, hp, hin, _ => by
    have hb' : f.noBg = true ∧ Form.noBgList fs = true := by simpa [Form.noBgList] using hb
    rw [stageLoop_cons]
    split
    · -- the last form runs on the caller's goroutine
      obtain ⟨r1, r2, r3⟩ := runStage_res f hb'.1 w _ _ _ (stage_formInv_last hw hp hin)
      exact ⟨r1, r3, r2⟩
    · rename_i hfs
      split
      · -- os.Pipe failed: the read end handed over by the previous form is closed
        simp only [hc, if_true]
        cases nextIn with
        | none =>
          refine ⟨hw, Quiet.refl w, fun fd => ?_⟩
          simp [closeInput, inFd]
        | some p =>
          obtain ⟨fd0, x0, hfile, hmem, _, _, _⟩ := hin
          simp only [closeInput, hfile]
          refine ⟨closeFd_wf hw hmem, closeFd_quiet hmem, fun fd => ?_⟩
          rw [closeFd_mem hw hmem]
          simp only [inFd, hfile, ne_eq, Option.some.injEq]
          constructor
          · rintro ⟨h1, h2⟩; exact ⟨h1, fun h => h2 h.symm⟩
          · rintro ⟨h1, h2⟩; exact ⟨h1, fun h => h2 h.symm⟩
      · -- a form with an output pipe, run on its own goroutine
        have hinv := stage_formInv_mid hw hp hin
        obtain ⟨r1, r2, r3⟩ := runStage_res f hb'.1 _ _ _ _ hinv
        generalize runStage cfg (spawn (mkPipe w).1 1) (setPort (stagePorts ports nextIn) 1 (some (mkPipe w).2.1))
          (setFop (stageFops nextIn) 1 ⟨true, true⟩) f = r at r1 r2 r3 ⊢
        have hw2 : WF (finish r.1 1) := finish_wf r1 1
        have hq2 : Quiet w (finish r.1 1) := (mkPipe_quiet w).trans r3.bracket
        have hmem2 : ∀ fd, fd ∈ (finish r.1 1).openFds ↔
            ((fd ∈ w.openFds ∧ inFd nextIn ≠ some fd) ∨ fd = w.nextFd) := r2
        have hp2 : PortsOK (finish r.1 1) ports := by
          intro j p x hpj hx
          have := hp j p x hpj hx
          refine ⟨fun hm => ?_, Nat.lt_of_lt_of_le this.2 hq2.next⟩
          rcases (hmem2 x).1 hm with ⟨h1, _⟩ | h1
          · exact this.1 h1
          · omega
        have hnext2 : w.nextFd + 2 ≤ (finish r.1 1).nextFd := by
          have := r3.next
          rw [spawn_next, mkPipe_next] at this
          exact this
        have hin2 : InOK (finish r.1 1) (some (mkPipe w).2.2) := by
          refine ⟨w.nextFd, w.nextFd + 1, (mkPipe_in w).1, (hmem2 _).2 (Or.inr rfl), (mkPipe_in w).2, ?_, by omega⟩
          intro hm
          rcases (hmem2 _).1 hm with ⟨h1, _⟩ | h1
          · have := hw.lt _ h1; omega
          · omega
        have hfs' : fs = [] → (some (mkPipe w).2.2 : Option Port) = none := by
          intro h; subst h; simp at hfs
        obtain ⟨s1, s2, s3⟩ := stageLoop_res fs hb'.2 (finish r.1 1) ports failAt (i + 1) (some (mkPipe w).2.2)
          (dropGone true r.2 :: acc) hw2 hp2 hin2 hfs'
        refine ⟨s1, hq2.trans s2, fun fd => ?_⟩
        rw [s3 fd, hmem2 fd]
        simp only [inFd, (mkPipe_in w).1, ne_eq, Option.some.injEq]
        constructor
        · rintro ⟨⟨h1, h2⟩ | h1, h3⟩
          · exact ⟨h1, h2⟩
          · exact absurd h1.symm h3
        · rintro ⟨h1, h2⟩
          refine ⟨Or.inl ⟨h1, h2⟩, fun h => ?_⟩
          have := hw.lt _ h1; omega

theorem runStage_res : ∀ (f : Form), f.noBg = true → ∀ (w : World) (ports : Ports) (fops : Fops) (B : Nat → Prop),
    FormInv w ports fops B →
    WF (runStage cfg w ports fops f).1 ∧ (∀ fd, fd ∈ (runStage cfg w ports fops f).1.openFds ↔ B fd) ∧
      Quiet w (runStage cfg w ports fops f).1
  | .mk redirs body, hb, w, ports, fops, B, hinv => by
    have hb' : Redir.noBgList redirs = true ∧ body.noBg = true := by simpa [Form.noBg] using hb
    simp only [runStage]
    obtain ⟨hinv1, hq1⟩ := redirs_res redirs hb'.1 w ports fops B hinv
    split
    · have h2 := op_res body hb'.2 _ _ hinv1.wf hinv1.portsOK
      have hinv2 := hinv1.of_res h2
      obtain ⟨c1, c2, c3⟩ := closeLoop_formInv hinv2
      exact ⟨c1, c2, (hq1.trans h2.2.quiet).trans c3⟩
    · obtain ⟨c1, c2, c3⟩ := closeLoop_formInv hinv1
      exact ⟨c1, c2, hq1.trans c3⟩

theorem redirs_res : ∀ (rs : List Redir), Redir.noBgList rs = true →
    ∀ (w : World) (ports : Ports) (fops : Fops) (B : Nat → Prop), FormInv w ports fops B →
    FormInv (execRedirs cfg w ports fops rs).1 (execRedirs cfg w ports fops rs).2.1
      (execRedirs cfg w ports fops rs).2.2.1 B ∧ Quiet w (execRedirs cfg w ports fops rs).1
  | [], _, w, ports, fops, B, hinv => by
    simp only [execRedirs]; exact ⟨hinv, Quiet.refl w⟩
  | rd :: rest, hb, w, ports, fops, B, hinv => by
    have hb' : rd.noBg = true ∧ Redir.noBgList rest = true := by simpa [Redir.noBgList] using hb
    simp only [execRedirs]
    obtain ⟨h1, q1⟩ := redir_res rd hb'.1 w ports fops B hinv
    split
    · obtain ⟨h2, q2⟩ := redirs_res rest hb'.2 _ _ _ B h1
      exact ⟨h2, q1.trans q2⟩
    · exact ⟨h1, q1⟩

theorem redir_res : ∀ (rd : Redir), rd.noBg = true →
    ∀ (w : World) (ports : Ports) (fops : Fops) (B : Nat → Prop), FormInv w ports fops B →
    FormInv (execRedir cfg w ports fops rd).1 (execRedir cfg w ports fops rd).2.1
      (execRedir cfg w ports fops rd).2.2.1 B ∧ Quiet w (execRedir cfg w ports fops rd).1
  | .mk dst? mode src, hb, w, ports, fops, B, hinv => by
    rw [execRedir_eq]
    exact redir_step hinv _ _ (src_res src (by simpa [Redir.noBg] using hb) w ports hinv.wf hinv.portsOK)

theorem src_res : ∀ (s : Src), s.noBg = true → ∀ (w : World) (ports : Ports),
    WF w → PortsOK w ports → SrcOK w (execSrc cfg w ports s).1 (execSrc cfg w ports s).2
  | .file ok, _, w, ports, hw, _ => by
    simp only [execSrc]
    cases ok with
    | true => exact openFilePort_opened hw (Quiet.refl w) (fun _ => Iff.rfl) _ rfl
    | false => exact SrcOK.fail _ hw (Bal.refl w)
  | .fd n, _, w, ports, hw, hp => by
    simp only [execSrc]
    cases hpn : portAt ports n with
    | some p => exact SrcOK.shared p hw (Bal.refl w) (fun x hx => hp n p x hpn hx)
    | none => exact SrcOK.fail _ hw (Bal.refl w)
  | .close, _, w, ports, hw, _ => by
    simp only [execSrc]
    exact SrcOK.shared _ (newPort_wf hw _ _) (newPort_bal _ _ _) (fun x hx => by simp at hx)
  | .bad, _, w, ports, hw, _ => by
    simp only [execSrc]
    exact SrcOK.fail _ hw (Bal.refl w)
  | .obj fd, _, w, ports, hw, _ => by
    simp only [execSrc]
    exact SrcOK.shared _ (newPort_wf hw _ _) (newPort_bal _ _ _) (fun x hx => by simp at hx)
  | .capFile pipeOk c ok, hb, w, ports, hw, hp => by
    simp only [execSrc]
    have h1 := captureWith_res (pipeOk := pipeOk) hw hp
      (fun w1 p1 a b => chunk_res c (by simpa [Src.noBg] using hb) w1 p1 a b)
    split
    · split
      · exact openFilePort_opened h1.1 h1.2.quiet h1.2.mem _ rfl
      · exact SrcOK.fail _ h1.1 h1.2
    · exact SrcOK.fail _ h1.1 h1.2

end

end

end C40
