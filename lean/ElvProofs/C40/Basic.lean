import ElvModel.C40.Resources
/-!
C40 — basic facts about the accounting world: well-formedness, the "balanced"
relation between two worlds, the effect of the primitive events, and the
fd-indexed slices (`growAccess`).
-/
namespace C40

/-- live goroutines started by the evaluation -/
def live (w : World) : Int := (w.spawned : Int) - (w.finished : Int)

/-- Well-formed world: open descriptors are distinct, below the allocation
counter, and the counters agree with the open set. -/
structure WF (w : World) : Prop where
  nodup : w.openFds.Nodup
  lt : ∀ fd ∈ w.openFds, fd < w.nextFd
  count : w.opened = w.closed + w.openFds.length

/-- Everything the property is about, except the open set itself, is unchanged
(or only moved forward, for the allocation counter). -/
structure Quiet (w w' : World) : Prop where
  next : w.nextFd ≤ w'.nextFd
  live : live w' = live w
  bad : w'.badClose = w.badClose
  panics : w'.panics = w.panics
  hung : w'.hung = w.hung

theorem Quiet.refl (w : World) : Quiet w w := ⟨Nat.le_refl _, rfl, rfl, rfl, rfl⟩

theorem Quiet.trans {a b c : World} (h1 : Quiet a b) (h2 : Quiet b c) : Quiet a c :=
  ⟨Nat.le_trans h1.next h2.next, h2.live.trans h1.live, h2.bad.trans h1.bad,
   h2.panics.trans h1.panics, h2.hung.trans h1.hung⟩

/-- Balanced: the same descriptors are open, as many goroutines are live, and
no double close / nil dereference / impossible wait happened in between. -/
structure Bal (w w' : World) : Prop where
  mem : ∀ fd, fd ∈ w'.openFds ↔ fd ∈ w.openFds
  quiet : Quiet w w'

theorem Bal.refl (w : World) : Bal w w := ⟨fun _ => Iff.rfl, Quiet.refl w⟩

theorem Bal.trans {a b c : World} (h1 : Bal a b) (h2 : Bal b c) : Bal a c :=
  ⟨fun fd => (h2.mem fd).trans (h1.mem fd), h1.quiet.trans h2.quiet⟩

/-! ### primitive events -/

@[simp] theorem openFd_fd (w : World) : (openFd w).2 = w.nextFd := rfl
@[simp] theorem openFd_open (w : World) : (openFd w).1.openFds = w.nextFd :: w.openFds := rfl
@[simp] theorem openFd_next (w : World) : (openFd w).1.nextFd = w.nextFd + 1 := rfl

theorem openFd_wf {w : World} (h : WF w) : WF (openFd w).1 := by
  refine ⟨?_, ?_, ?_⟩
  · simp only [openFd_open, List.nodup_cons]
    exact ⟨fun hm => Nat.lt_irrefl _ (h.lt _ hm), h.nodup⟩
  · intro fd hfd
    simp only [openFd_open, List.mem_cons] at hfd
    simp only [openFd_next]
    rcases hfd with rfl | hfd
    · exact Nat.lt_succ_self _
    · exact Nat.lt_succ_of_lt (h.lt _ hfd)
  · have := h.count
    simp [openFd]; omega

theorem openFd_quiet (w : World) : Quiet w (openFd w).1 :=
  ⟨Nat.le_succ _, rfl, rfl, rfl, rfl⟩

theorem openFd_fresh {w : World} (h : WF w) : w.nextFd ∉ w.openFds :=
  fun hm => Nat.lt_irrefl _ (h.lt _ hm)

theorem closeFd_open_of_mem {w : World} {fd : Nat} (hm : fd ∈ w.openFds) :
    (closeFd w fd).openFds = w.openFds.erase fd := by
  simp [closeFd, hm]

theorem closeFd_mem {w : World} (h : WF w) {fd : Nat} (hm : fd ∈ w.openFds) (x : Nat) :
    x ∈ (closeFd w fd).openFds ↔ x ∈ w.openFds ∧ x ≠ fd := by
  rw [closeFd_open_of_mem hm, h.nodup.mem_erase_iff]
  exact And.comm

theorem closeFd_wf {w : World} (h : WF w) {fd : Nat} (hm : fd ∈ w.openFds) : WF (closeFd w fd) := by
  refine ⟨?_, ?_, ?_⟩
  · rw [closeFd_open_of_mem hm]; exact h.nodup.erase fd
  · intro x hx
    have := (closeFd_mem h hm x).1 hx
    have h2 : (closeFd w fd).nextFd = w.nextFd := by simp [closeFd, hm]
    rw [h2]; exact h.lt _ this.1
  · have hc := h.count
    have hl : (w.openFds.erase fd).length = w.openFds.length - 1 := List.length_erase_of_mem hm
    have hpos : 0 < w.openFds.length := List.length_pos_of_mem hm
    simp [closeFd, hm, hl]; omega

theorem closeFd_quiet {w : World} {fd : Nat} (hm : fd ∈ w.openFds) : Quiet w (closeFd w fd) := by
  refine ⟨?_, ?_, ?_, ?_, ?_⟩ <;> simp [closeFd, hm, live]

@[simp] theorem spawn_open (w : World) (k : Nat) : (spawn w k).openFds = w.openFds := rfl
@[simp] theorem finish_open (w : World) (k : Nat) : (finish w k).openFds = w.openFds := rfl
@[simp] theorem spawn_next (w : World) (k : Nat) : (spawn w k).nextFd = w.nextFd := rfl
@[simp] theorem finish_next (w : World) (k : Nat) : (finish w k).nextFd = w.nextFd := rfl
theorem live_spawn (w : World) (k : Nat) : live (spawn w k) = live w + k := by
  simp [live, spawn]; omega
theorem live_finish (w : World) (k : Nat) : live (finish w k) = live w - k := by
  simp [live, finish]; omega

theorem spawn_wf {w : World} (h : WF w) (k : Nat) : WF (spawn w k) := ⟨h.nodup, h.lt, h.count⟩
theorem finish_wf {w : World} (h : WF w) (k : Nat) : WF (finish w k) := ⟨h.nodup, h.lt, h.count⟩

@[simp] theorem newPort_open (w : World) (f p : Option Nat) : (newPort w f p).1.openFds = w.openFds := rfl
@[simp] theorem newPort_next (w : World) (f p : Option Nat) : (newPort w f p).1.nextFd = w.nextFd := rfl
@[simp] theorem newPort_file (w : World) (f p : Option Nat) : (newPort w f p).2.file = f := rfl
@[simp] theorem newPort_peer (w : World) (f p : Option Nat) : (newPort w f p).2.peer = p := rfl
theorem newPort_wf {w : World} (h : WF w) (f p : Option Nat) : WF (newPort w f p).1 := ⟨h.nodup, h.lt, h.count⟩
theorem newPort_bal (w : World) (f p : Option Nat) : Bal w (newPort w f p).1 :=
  ⟨fun _ => Iff.rfl, ⟨Nat.le_refl _, rfl, rfl, rfl, rfl⟩⟩

/-! ### fd-indexed slices -/

theorem getElem?_growSet {α : Type} (l : List α) (i : Nat) (d v : α) (j : Nat) :
    (growSet l i d v)[j]? =
      if j = i then some v else if j < l.length then l[j]? else if j < i then some d else none := by
  unfold growSet
  by_cases hi : i < l.length
  · simp only [hi, if_true, List.getElem?_set]
    by_cases hji : j = i
    · subst hji; simp [hi]
    · have : ¬ i = j := fun h => hji h.symm
      simp only [this, hji, if_false]
      by_cases hj : j < l.length
      · simp [hj]
      · have hj' : l.length ≤ j := Nat.le_of_not_lt hj
        simp only [hj, if_false, List.getElem?_eq_none hj']
        have : ¬ j < i := by omega
        simp [this]
  · simp only [hi, if_false]
    have hi' : l.length ≤ i := Nat.le_of_not_lt hi
    by_cases hj : j < l.length
    · have hji : j ≠ i := by omega
      simp only [hji, if_false, hj, if_true]
      rw [List.append_assoc, List.getElem?_append_left hj]
    · have hj' : l.length ≤ j := Nat.le_of_not_lt hj
      rw [List.append_assoc, List.getElem?_append_right hj']
      simp only [hj, if_false]
      by_cases hji : j = i
      · subst hji
        simp only [if_true]
        rw [List.getElem?_append_right (by simp)]
        simp
      · simp only [hji, if_false]
        by_cases hlt : j < i
        · simp only [hlt, if_true]
          rw [List.getElem?_append_left (by simp; omega)]
          simp [List.getElem?_replicate]; omega
        · simp only [hlt, if_false]
          apply List.getElem?_eq_none
          simp; omega

@[simp] theorem portAt_setPort (ports : Ports) (i : Nat) (v : Option Port) (j : Nat) :
    portAt (setPort ports i v) j = if j = i then v else portAt ports j := by
  unfold portAt setPort
  rw [getElem?_growSet]
  by_cases hji : j = i
  · subst hji; simp; cases v <;> rfl
  · simp only [hji, if_false]
    by_cases hj : j < ports.length
    · simp [hj]
    · have hj' : ports.length ≤ j := Nat.le_of_not_lt hj
      simp only [hj, if_false, List.getElem?_eq_none hj']
      by_cases hlt : j < i <;> simp [hlt]

@[simp] theorem fopAt_setFop (fops : Fops) (i : Nat) (f : Fop) (j : Nat) :
    fopAt (setFop fops i f) j = if j = i then f else fopAt fops j := by
  unfold fopAt setFop
  rw [getElem?_growSet]
  by_cases hji : j = i
  · subst hji; simp
  · simp only [hji, if_false]
    by_cases hj : j < fops.length
    · simp [hj]
    · have hj' : fops.length ≤ j := Nat.le_of_not_lt hj
      simp only [hj, if_false, List.getElem?_eq_none hj']
      by_cases hlt : j < i <;> simp [hlt]

@[simp] theorem fopAt_nil (j : Nat) : fopAt [] j = Fop.none := by simp [fopAt]

theorem fopAt_cons_zero (f : Fop) (rest : Fops) : fopAt (f :: rest) 0 = f := by simp [fopAt]
theorem fopAt_cons_succ (f : Fop) (rest : Fops) (j : Nat) : fopAt (f :: rest) (j + 1) = fopAt rest j := by
  simp [fopAt]

/-! ### the search of `releaseReplacedPort` -/

theorem firstIdx_some {o : Port} : ∀ {ports : Ports} {k i : Nat},
    firstIdx o ports k = some i → k ≤ i ∧ portAt ports (i - k) = some o
  | [], _, _, h => by simp [firstIdx] at h
  | q :: rest, k, i, h => by
    unfold firstIdx at h
    by_cases hq : q = some o
    · simp only [hq, if_true, Option.some.injEq] at h
      subst h
      simp [portAt, hq]
    · simp only [hq, if_false] at h
      have := firstIdx_some (ports := rest) h
      refine ⟨by omega, ?_⟩
      have h2 : i - k = (i - (k + 1)) + 1 := by omega
      rw [h2]
      simpa [portAt] using this.2

theorem firstIdx_none {o : Port} : ∀ {ports : Ports} {k : Nat},
    firstIdx o ports k = none → ∀ j, portAt ports j ≠ some o
  | [], _, _, j => by simp [portAt]
  | q :: rest, k, h, j => by
    unfold firstIdx at h
    by_cases hq : q = some o
    · simp [hq] at h
    · simp only [hq, if_false] at h
      cases j with
      | zero =>
        intro hp
        apply hq
        simp only [portAt, List.getElem?_cons_zero] at hp
        cases q with
        | none => simp at hp
        | some p => simp at hp; simp [hp]
      | succ j =>
        have := firstIdx_none (ports := rest) h j
        simpa [portAt] using this

theorem firstIdx_isSome_of_portAt {o : Port} : ∀ {ports : Ports} (k : Nat) {j : Nat},
    portAt ports j = some o → ∃ i, firstIdx o ports k = some i := by
  intro ports k j hj
  cases h : firstIdx o ports k with
  | some i => exact ⟨i, rfl⟩
  | none => exact absurd hj (firstIdx_none h j)

end C40

namespace C40

/-- A section that starts `k` goroutines and joins them at its end. -/
theorem Quiet.bracket {u v : World} {k : Nat} (h : Quiet (spawn u k) v) : Quiet u (finish v k) := by
  refine ⟨h.next, ?_, h.bad, h.panics, h.hung⟩
  rw [live_finish, h.live, live_spawn]; omega

theorem Bal.bracket {u v : World} {k : Nat} (h : Bal (spawn u k) v) : Bal u (finish v k) :=
  ⟨h.mem, h.quiet.bracket⟩

theorem spawn_quiet_of {u v : World} {k : Nat} (h : Quiet u v) : Quiet (spawn u k) (spawn v k) := by
  refine ⟨h.next, ?_, h.bad, h.panics, h.hung⟩
  rw [live_spawn, live_spawn, h.live]

end C40
