import ElvProofs.C40.Release
/-!
C40 — one redirection preserves the frame invariant (`redirOp.exec`), for any
source evaluation that is itself balanced.
-/
namespace C40

/-- What the evaluation of a redirection source delivers. -/
inductive SrcOK (w w' : World) : (Outcome ⊕ (Port × Bool)) → Prop
  /-- an exception -/
  | fail (o : Outcome) : WF w' → Bal w w' → SrcOK w w' (.inl o)
  /-- a port the form does not own (an existing port, a closed port, a file object) -/
  | shared (np : Port) : WF w' → Bal w w' →
      (∀ x, np.peer = some x → x ∉ w'.openFds ∧ x < w'.nextFd) → SrcOK w w' (.inr (np, false))
  /-- a port on a file opened just now -/
  | opened (np : Port) (fd : Nat) : WF w' → Quiet w w' → np.file = some fd → np.peer = none →
      w.nextFd ≤ fd → (∀ x, x ∈ w'.openFds ↔ (x = fd ∨ x ∈ w.openFds)) → SrcOK w w' (.inr (np, true))

/-- `redirOp.exec` after the source has been evaluated. -/
def finishRedir (ports : Ports) (fops : Fops) (dst : Nat) (s : World × (Outcome ⊕ (Port × Bool))) :
    World × Ports × Fops × Outcome :=
  let oldPort := portAt ports dst
  let oldFop := fopAt fops dst
  let fops0 := setFop fops dst Fop.none
  match s.2 with
  | Sum.inl o =>
    let rel := release s.1 ports fops0 oldPort oldFop
    (rel.1, ports, rel.2, o)
  | Sum.inr (np, owned) =>
    let ports' := setPort ports dst (some np)
    let fops' := if owned then setFop fops0 dst ⟨true, false⟩ else fops0
    let rel := release s.1 ports' fops' oldPort oldFop
    (rel.1, ports', rel.2, .ok)

def dstOf (dst? : Option Nat) (mode : Mode) : Nat :=
  match dst? with
  | some d => d
  | none => mode.defaultDst

theorem execRedir_eq (cfg : Cfg) (w : World) (ports : Ports) (fops : Fops) (dst? : Option Nat)
    (mode : Mode) (src : Src) :
    execRedir cfg w ports fops (.mk dst? mode src) =
      finishRedir ports fops (dstOf dst? mode) (execSrc cfg w ports src) := by
  simp only [execRedir, finishRedir, dstOf]
  cases dst? <;> rfl

section
variable {w : World} {ports : Ports} {fops : Fops} {B : Nat → Prop}

/-- the entry being redirected gives up its descriptor -/
theorem unown_dst (h : FormInv w ports fops B) (dst : Nat) :
    FlagOK ports (setFop fops dst Fop.none) ∧
    OwnInv (ownerFd ports (setFop fops dst Fop.none)) (ownerFd ports fops dst) w.openFds B := by
  constructor
  · intro j hj
    rw [fopAt_setFop] at hj
    by_cases hjd : j = dst
    · simp [hjd, Fop.none] at hj
    · simp only [hjd, if_false] at hj
      exact h.flag j hj
  · apply h.own.unown dst
    intro i
    rw [ownerFd_setFop]
    simp [Fop.none]

theorem ownerFd_dst_eq (ports : Ports) (fops : Fops) (dst : Nat) :
    ownerFd ports fops dst = if (fopAt fops dst).file then (portAt ports dst).bind (·.file) else none := rfl

theorem old_flag (h : FormInv w ports fops B) (dst : Nat) :
    (fopAt fops dst).file = true → ∃ o fd, portAt ports dst = some o ∧ o.file = some fd :=
  h.flag dst

/-- an entry ≠ dst that holds the old port does not own its file -/
theorem other_holder_free (h : FormInv w ports fops B) {dst i : Nat} {o : Port}
    (hof : (fopAt fops dst).file = true) (hod : portAt ports dst = some o)
    (hi : portAt ports i = some o) (hne : i ≠ dst) : ownerFd ports fops i = none := by
  obtain ⟨o', fd0, ho', hfd0⟩ := h.flag dst hof
  have : o' = o := by rw [hod] at ho'; exact (Option.some.inj ho').symm
  subst this
  have hd : ownerFd ports fops dst = some fd0 := ownerFd_of hof hod hfd0
  cases hc : ownerFd ports fops i with
  | none => rfl
  | some fd =>
    exfalso
    obtain ⟨_, p, hp, hpf⟩ := ownerFd_some hc
    have : p = o' := by rw [hi] at hp; exact (Option.some.inj hp).symm
    subst this
    have : fd = fd0 := by rw [hfd0] at hpf; exact (Option.some.inj hpf).symm
    subst this
    exact hne (h.own.inj i dst fd hc hd)

theorem redir_step (h : FormInv w ports fops B) (dst : Nat) (s : World × (Outcome ⊕ (Port × Bool)))
    (hs : SrcOK w s.1 s.2) :
    FormInv (finishRedir ports fops dst s).1 (finishRedir ports fops dst s).2.1
      (finishRedir ports fops dst s).2.2.1 B ∧ Quiet w (finishRedir ports fops dst s).1 := by
  obtain ⟨w', res⟩ := s
  obtain ⟨hflag0, hown0⟩ := unown_dst h dst
  cases hs with
  | fail o hwf' hbal =>
    -- the table is unchanged
    simp only [finishRedir]
    have hown1 := hown0.congr_open hbal.mem
    obtain ⟨r1, r2, r3, r4, r5⟩ := release_spec (oldPort := portAt ports dst) (oldFop := fopAt fops dst)
      hwf' hflag0 hown1 (ownerFd_dst_eq ports fops dst) (old_flag h dst)
      (by
        intro i o hof hod hi
        rw [ownerFd_setFop]
        by_cases hid : i = dst
        · simp [hid, Fop.none]
        · simp only [hid, if_false]
          exact other_holder_free h hof hod hi hid)
    refine ⟨⟨r1, ?_, r2, r3⟩, hbal.quiet.trans r4⟩
    intro i p x hp hx
    have := h.portsOK i p x hp hx
    exact ⟨fun hm => this.1 ((hbal.mem x).1 (r5 x hm)), Nat.lt_of_lt_of_le this.2 (hbal.quiet.trans r4).next⟩
  | shared np hwf' hbal hpeer =>
    simp only [finishRedir, if_false, Bool.false_eq_true]
    have hflag1 : FlagOK (setPort ports dst (some np)) (setFop fops dst Fop.none) := by
      intro j hj
      have hj' := hj
      rw [fopAt_setFop] at hj
      by_cases hjd : j = dst
      · simp [hjd, Fop.none] at hj
      · simp only [hjd, if_false] at hj
        rw [portAt_setPort]; simp only [hjd, if_false]
        exact h.flag j hj
    have hown1 : OwnInv (ownerFd (setPort ports dst (some np)) (setFop fops dst Fop.none))
        (ownerFd ports fops dst) w'.openFds B := by
      apply (hown0.congr_open hbal.mem).limbo_none_congr
      intro i
      rw [ownerFd_setPort, fopAt_setFop]
      by_cases hid : i = dst
      · subst hid; simp [Fop.none, ownerFd_setFop]
      · simp [hid]
    obtain ⟨r1, r2, r3, r4, r5⟩ := release_spec (oldPort := portAt ports dst) (oldFop := fopAt fops dst)
      hwf' hflag1 hown1 (ownerFd_dst_eq ports fops dst) (old_flag h dst)
      (by
        intro i o hof hod hi
        rw [ownerFd_setPort, fopAt_setFop]
        by_cases hid : i = dst
        · simp [hid, Fop.none]
        · simp only [hid, if_false]
          rw [portAt_setPort] at hi
          simp only [hid, if_false] at hi
          rw [ownerFd_setFop]; simp only [hid, if_false]
          exact other_holder_free h hof hod hi hid)
    refine ⟨⟨r1, ?_, r2, r3⟩, hbal.quiet.trans r4⟩
    intro i p x hp hx
    rw [portAt_setPort] at hp
    by_cases hid : i = dst
    · simp only [hid, if_true, Option.some.injEq] at hp
      subst hp
      have := hpeer x hx
      exact ⟨fun hm => this.1 (r5 x hm), Nat.lt_of_lt_of_le this.2 r4.next⟩
    · simp only [hid, if_false] at hp
      have := h.portsOK i p x hp hx
      exact ⟨fun hm => this.1 ((hbal.mem x).1 (r5 x hm)), Nat.lt_of_lt_of_le this.2 (hbal.quiet.trans r4).next⟩
  | opened np fdn hwf' hq hfile hpeer hge hmem =>
    simp only [finishRedir, if_true]
    have hfresh : fdn ∉ w.openFds := fun hm => Nat.lt_irrefl _ (Nat.lt_of_lt_of_le (h.wf.lt _ hm) hge)
    have hflag1 : FlagOK (setPort ports dst (some np)) (setFop (setFop fops dst Fop.none) dst ⟨true, false⟩) := by
      intro j hj
      rw [fopAt_setFop] at hj
      by_cases hjd : j = dst
      · subst hjd
        exact ⟨np, fdn, by simp, hfile⟩
      · simp only [hjd, if_false] at hj
        rw [portAt_setPort]; simp only [hjd, if_false]
        exact hflag0 j hj
    have hown1 : OwnInv (ownerFd (setPort ports dst (some np)) (setFop (setFop fops dst Fop.none) dst ⟨true, false⟩))
        (ownerFd ports fops dst) w'.openFds B := by
      have := hown0.addFresh (own' := ownerFd (setPort ports dst (some np)) (setFop (setFop fops dst Fop.none) dst ⟨true, false⟩))
        dst fdn (by rw [ownerFd_setFop]; simp [Fop.none]) hfresh
        (by
          intro i
          rw [ownerFd_setPort, fopAt_setFop]
          by_cases hid : i = dst
          · subst hid; simp [hfile]
          · simp only [hid, if_false]
            rw [ownerFd_setFop]; simp [hid])
      exact this.congr_open (fun x => by rw [hmem x, List.mem_cons])
    obtain ⟨r1, r2, r3, r4, r5⟩ := release_spec (oldPort := portAt ports dst) (oldFop := fopAt fops dst)
      hwf' hflag1 hown1 (ownerFd_dst_eq ports fops dst) (old_flag h dst)
      (by
        intro i o hof hod hi
        by_cases hid : i = dst
        · -- the new port cannot be the old one: its file was opened just now
          exfalso
          subst hid
          rw [portAt_setPort] at hi
          simp only [if_true, Option.some.injEq] at hi
          subst hi
          obtain ⟨o', fd0, ho', hfd0⟩ := h.flag i hof
          have : o' = np := by rw [hod] at ho'; exact (Option.some.inj ho').symm
          subst this
          have h1 : fd0 = fdn := by rw [hfile] at hfd0; exact (Option.some.inj hfd0).symm
          subst h1
          have : fd0 ∈ w.openFds :=
            (h.own.split fd0).2 (Or.inr (Or.inl ⟨i, ownerFd_of hof hod hfile⟩))
          exact hfresh this
        · rw [ownerFd_setPort]
          simp only [hid, if_false]
          rw [portAt_setPort] at hi
          simp only [hid, if_false] at hi
          rw [ownerFd_setFop]; simp only [hid, if_false]
          rw [ownerFd_setFop]; simp only [hid, if_false]
          exact other_holder_free h hof hod hi hid)
    refine ⟨⟨r1, ?_, r2, r3⟩, hq.trans r4⟩
    intro i p x hp hx
    rw [portAt_setPort] at hp
    by_cases hid : i = dst
    · simp only [hid, if_true, Option.some.injEq] at hp
      subst hp
      rw [hpeer] at hx; simp at hx
    · simp only [hid, if_false] at hp
      have := h.portsOK i p x hp hx
      refine ⟨fun hm => ?_, Nat.lt_of_lt_of_le this.2 (hq.trans r4).next⟩
      rcases (hmem x).1 (r5 x hm) with he | hm'
      · subst he; omega
      · exact this.1 hm'

end

end C40
