import ElvProofs.C40.Redir
/-!
C40 — the structural induction over the op tree: every `exec` of the model is
balanced (for trees without background pipelines, on the code with the
pipe-failure cleanup).
-/
namespace C40

/-- what an `exec` delivers: a well-formed world balanced with the initial one -/
def Res (w w' : World) : Prop := WF w' ∧ Bal w w'

theorem Res.refl {w : World} (h : WF w) : Res w w := ⟨h, Bal.refl w⟩
theorem Res.trans {a b c : World} (h1 : Res a b) (h2 : Res b c) : Res a c := ⟨h2.1, h1.2.trans h2.2⟩

theorem Res.bracket {u v : World} {k : Nat} (h : Res (spawn u k) v) : Res u (finish v k) :=
  ⟨finish_wf h.1 k, h.2.bracket⟩

theorem PortsOK.spawn {w : World} {ports : Ports} (h : PortsOK w ports) (k : Nat) : PortsOK (spawn w k) ports := h
theorem PortsOK.finish {w : World} {ports : Ports} (h : PortsOK w ports) (k : Nat) : PortsOK (finish w k) ports := h

theorem waitEof_eq {w : World} {ports : Ports} (hp : PortsOK w ports) : waitEof w ports = w := by
  unfold waitEof eofReady
  cases h0 : portAt ports 0 with
  | none => simp
  | some q =>
    cases hq : q.peer with
    | none => simp [hq]
    | some x =>
      have := (hp 0 q x h0 hq).1
      simp [hq, this]

theorem iter_res {w : World} {ports : Ports} (hw : WF w) (hp : PortsOK w ports) :
    Res w (iterEnd (iterBegin w) ports) := by
  unfold iterEnd iterBegin
  rw [waitEof_eq (hp.spawn 3)]
  exact Res.bracket (Res.refl (spawn_wf hw 3))

theorem only_res {w : World} {ports : Ports} (hw : WF w) (hp : PortsOK w ports) :
    Res w (finish (waitEof (spawn w 1) ports) 1) := by
  rw [waitEof_eq (hp.spawn 1)]
  exact Res.bracket (Res.refl (spawn_wf hw 1))

/-- `DummyInputPort` in entry 0 keeps the table fine. -/
theorem PortsOK.setDummy {w : World} {ports : Ports} (h : PortsOK w ports) :
    PortsOK w (setPort ports 0 (some dummyInput)) := by
  intro i p x hp hx
  rw [portAt_setPort] at hp
  by_cases hi : i = 0
  · simp only [hi, if_true, Option.some.injEq] at hp
    subst hp; simp [dummyInput] at hx
  · simp only [hi, if_false] at hp
    exact h i p x hp hx

/-- Output capture around a balanced body is balanced. -/
theorem captureWith_res {w : World} {ports : Ports} {pipeOk : Bool}
    {body : World → Ports → World × Outcome} (hw : WF w) (hp : PortsOK w ports)
    (hbody : ∀ w1 ports1, WF w1 → PortsOK w1 ports1 → Res w1 (body w1 ports1).1) :
    Res w (captureWith w ports pipeOk body).1 := by
  unfold captureWith
  cases pipeOk with
  | false => exact Res.refl hw
  | true =>
    simp only [if_true]
    -- the two ends of the pipe
    have hw1 : WF (openFd w).1 := openFd_wf hw
    have hw2 : WF (openFd (openFd w).1).1 := openFd_wf hw1
    have hr : (openFd w).2 = w.nextFd := rfl
    have hwr : (openFd (openFd w).1).2 = w.nextFd + 1 := rfl
    rw [hr, hwr]
    let u := (openFd (openFd w).1).1
    have hu_open : u.openFds = (w.nextFd + 1) :: w.nextFd :: w.openFds := rfl
    have hu_next : u.nextFd = w.nextFd + 2 := rfl
    let np := newPort (spawn u 2) (some (w.nextFd + 1)) none
    have hnp_wf : WF np.1 := newPort_wf (spawn_wf hw2 2) _ _
    have hnp_ports : PortsOK np.1 (setPort ports 1 (some np.2)) := by
      intro i p x hpi hx
      rw [portAt_setPort] at hpi
      by_cases hi : i = 1
      · simp only [hi, if_true, Option.some.injEq] at hpi
        subst hpi; simp [np] at hx
      · simp only [hi, if_false] at hpi
        have := hp i p x hpi hx
        refine ⟨?_, by show x < w.nextFd + 2; omega⟩
        show x ∉ (w.nextFd + 1) :: w.nextFd :: w.openFds
        simp only [List.mem_cons, not_or]
        exact ⟨by omega, by omega, this.1⟩
    obtain ⟨hres_wf, hres_bal⟩ := hbody np.1 (setPort ports 1 (some np.2)) hnp_wf hnp_ports
    generalize hres : body np.1 (setPort ports 1 (some np.2)) = res at hres_wf hres_bal
    show Res w (finish (closeFd (if (closeFd res.1 (w.nextFd + 1)).openFds.contains (w.nextFd + 1) = true then
      { closeFd res.1 (w.nextFd + 1) with hung := true } else closeFd res.1 (w.nextFd + 1)) w.nextFd) 2, res.2).1
    have hmem_res : ∀ x, x ∈ res.1.openFds ↔ (x = w.nextFd + 1 ∨ x = w.nextFd ∨ x ∈ w.openFds) := by
      intro x
      rw [hres_bal.mem x]
      show x ∈ (w.nextFd + 1) :: w.nextFd :: w.openFds ↔ _
      simp [List.mem_cons]
    have hwr_mem : w.nextFd + 1 ∈ res.1.openFds := (hmem_res _).2 (Or.inl rfl)
    have hw5 : WF (closeFd res.1 (w.nextFd + 1)) := closeFd_wf hres_wf hwr_mem
    have hnot : ¬ (w.nextFd + 1 ∈ (closeFd res.1 (w.nextFd + 1)).openFds) := by
      intro hm
      exact ((closeFd_mem hres_wf hwr_mem _).1 hm).2 rfl
    have hcont : (closeFd res.1 (w.nextFd + 1)).openFds.contains (w.nextFd + 1) = false := by
      simpa using hnot
    rw [hcont]
    simp only [Bool.false_eq_true, if_false]
    have hr_mem : w.nextFd ∈ (closeFd res.1 (w.nextFd + 1)).openFds := by
      rw [closeFd_mem hres_wf hwr_mem]
      exact ⟨(hmem_res _).2 (Or.inr (Or.inl rfl)), by omega⟩
    have hw7 : WF (closeFd (closeFd res.1 (w.nextFd + 1)) w.nextFd) := closeFd_wf hw5 hr_mem
    refine ⟨finish_wf hw7 2, ?_, ?_⟩
    · intro x
      show x ∈ (closeFd (closeFd res.1 (w.nextFd + 1)) w.nextFd).openFds ↔ _
      rw [closeFd_mem hw5 hr_mem, closeFd_mem hres_wf hwr_mem, hmem_res]
      have hfresh := openFd_fresh hw
      constructor
      · rintro ⟨⟨h1 | h1 | h1, h2⟩, h3⟩
        · exact absurd h1 h2
        · exact absurd h1 h3
        · exact h1
      · intro hx
        have hlt := hw.lt x hx
        exact ⟨⟨Or.inr (Or.inr hx), by omega⟩, by omega⟩
    · -- quiet: two opens, (spawn 2 … finish 2) around quiet steps
      have q1 : Quiet w u := (openFd_quiet w).trans (openFd_quiet _)
      have q2 : Quiet (spawn u 2) res.1 := (newPort_bal (spawn u 2) _ _).quiet.trans hres_bal.quiet
      have q3 : Quiet (spawn u 2) (closeFd (closeFd res.1 (w.nextFd + 1)) w.nextFd) :=
        (q2.trans (closeFd_quiet hwr_mem)).trans (closeFd_quiet hr_mem)
      exact q1.trans q3.bracket

/-- the read end handed to the next form of a pipeline -/
def InOK (w : World) : Option Port → Prop
  | none => True
  | some p => ∃ fd x, p.file = some fd ∧ fd ∈ w.openFds ∧ p.peer = some x ∧ x ∉ w.openFds ∧ x < w.nextFd

def inFd : Option Port → Option Nat
  | none => none
  | some p => p.file

/-- `newFm.ports` of a stage before the output pipe is installed -/
def stagePorts (ports : Ports) : Option Port → Ports
  | some p => setPort ports 0 (some p)
  | none => ports

/-- `fops` of a stage before the output pipe is installed -/
def stageFops : Option Port → Fops
  | some _ => setFop [] 0 ⟨true, false⟩
  | none => []

/-- The frame of a pipeline stage satisfies the frame invariant: it owns the
read end it was handed (entry 0) and, if given, the write end `wfd` of the pipe
to the next form (entry 1). -/
theorem stage_formInv_last {w : World} {ports : Ports} {nextIn : Option Port}
    (hw : WF w) (hp : PortsOK w ports) (hin : InOK w nextIn) :
    FormInv w (stagePorts ports nextIn) (stageFops nextIn)
      (fun fd => fd ∈ w.openFds ∧ inFd nextIn ≠ some fd) := by
  unfold stagePorts stageFops
  cases nextIn with
  | none =>
    refine ⟨hw, hp, ?_, ?_⟩
    · intro i hi; simp [Fop.none] at hi
    · refine ⟨?_, ?_, ?_, ?_, ?_⟩
      · intro i j fd hi; simp [ownerFd, Fop.none] at hi
      · intro fd; simp [ownerFd, Fop.none, inFd]
      · intro fd i hi; simp [ownerFd, Fop.none] at hi
      · intro fd hl; simp at hl
      · intro fd i hl; simp at hl
  | some p =>
    obtain ⟨fd0, x0, hfile, hmem, hpeer, hx1, hx2⟩ := hin
    have hown : ∀ i, ownerFd (setPort ports 0 (some p)) (setFop [] 0 ⟨true, false⟩) i =
        if i = 0 then some fd0 else none := by
      intro i
      unfold ownerFd
      rw [fopAt_setFop, portAt_setPort]
      by_cases hi : i = 0
      · simp [hi, hfile]
      · simp [hi, Fop.none]
    refine ⟨hw, ?_, ?_, ?_⟩
    · intro i q x hq hx
      rw [portAt_setPort] at hq
      by_cases hi : i = 0
      · simp only [hi, if_true, Option.some.injEq] at hq
        subst hq
        rw [hpeer] at hx
        have : x0 = x := Option.some.inj hx
        subst this
        exact ⟨hx1, hx2⟩
      · simp only [hi, if_false] at hq
        exact hp i q x hq hx
    · intro i hi
      rw [fopAt_setFop] at hi
      by_cases h0 : i = 0
      · subst h0; exact ⟨p, fd0, by simp, hfile⟩
      · simp [h0, Fop.none] at hi
    · refine ⟨?_, ?_, ?_, ?_, ?_⟩
      · intro i j fd hi hj
        rw [hown] at hi hj
        by_cases h0 : i = 0 <;> by_cases h1 : j = 0
        · rw [h0, h1]
        · simp [h1] at hj
        · simp [h0] at hi
        · simp [h0] at hi
      · intro fd
        simp only [inFd, hfile, hown]
        constructor
        · intro hm
          by_cases he : fd = fd0
          · exact Or.inr (Or.inl ⟨0, by simp [he]⟩)
          · exact Or.inl ⟨hm, fun h => he (Option.some.inj h).symm⟩
        · rintro (⟨hm, _⟩ | ⟨i, hi⟩ | hl)
          · exact hm
          · by_cases h0 : i = 0
            · simp only [h0, if_true, Option.some.injEq] at hi
              rw [← hi]; exact hmem
            · simp [h0] at hi
          · simp at hl
      · intro fd i hi hb
        rw [hown] at hi
        by_cases h0 : i = 0
        · simp only [h0, if_true, Option.some.injEq] at hi
          apply hb.2
          simp [inFd, hfile, hi]
        · simp [h0] at hi
      · intro fd hl; simp at hl
      · intro fd i hl; simp at hl

end C40
