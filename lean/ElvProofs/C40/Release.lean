import ElvProofs.C40.Form
/-!
C40 — `releaseReplacedPort`: the descriptor taken from the redirected entry
(in limbo) is handed to the first entry still using the old port, or closed.
-/
namespace C40

theorem release_spec {w : World} {ports : Ports} {fops : Fops} {B : Nat → Prop}
    {oldPort : Option Port} {oldFop : Fop} {limbo : Option Nat}
    (hwf : WF w) (hflag : FlagOK ports fops)
    (hown : OwnInv (ownerFd ports fops) limbo w.openFds B)
    (hlimbo : limbo = if oldFop.file then oldPort.bind (·.file) else none)
    (hold : oldFop.file = true → ∃ o fd, oldPort = some o ∧ o.file = some fd)
    (hfree : ∀ i o, oldFop.file = true → oldPort = some o → portAt ports i = some o →
      ownerFd ports fops i = none) :
    WF (release w ports fops oldPort oldFop).1 ∧
    FlagOK ports (release w ports fops oldPort oldFop).2 ∧
    OwnInv (ownerFd ports (release w ports fops oldPort oldFop).2) none
      (release w ports fops oldPort oldFop).1.openFds B ∧
    Quiet w (release w ports fops oldPort oldFop).1 ∧
    (∀ x, x ∈ (release w ports fops oldPort oldFop).1.openFds → x ∈ w.openFds) := by
  cases hop : oldPort with
  | none =>
    -- nothing was there
    have hl : limbo = none := by
      rw [hlimbo, hop]; cases oldFop.file <;> rfl
    subst hl
    simp only [release]
    exact ⟨hwf, hflag, hown, Quiet.refl w, fun _ h => h⟩
  | some o =>
    subst hop
    cases hfi : firstIdx o ports 0 with
    | some i =>
      have hpi : portAt ports i = some o := by
        have := (firstIdx_some hfi).2
        simpa using this
      simp only [release, hfi]
      -- the new flags
      let nf : Fop := ⟨(fopAt fops i).file || oldFop.file, (fopAt fops i).chan || oldFop.chan⟩
      show WF w ∧ FlagOK ports (setFop fops i nf) ∧
        OwnInv (ownerFd ports (setFop fops i nf)) none w.openFds B ∧ Quiet w w ∧ _
      refine ⟨hwf, ?_, ?_, Quiet.refl w, fun _ h => h⟩
      · -- FlagOK
        intro j hj
        rw [fopAt_setFop] at hj
        by_cases hji : j = i
        · subst hji
          simp only [if_true, nf, Bool.or_eq_true] at hj
          rcases hj with hj | hj
          · exact hflag j hj
          · obtain ⟨o', fd, ho', hfd⟩ := hold hj
            have : o' = o := by simpa using ho'.symm
            subst this
            exact ⟨o', fd, hpi, hfd⟩
        · simp only [hji, if_false] at hj
          exact hflag j hj
      · by_cases hof : oldFop.file = true
        · -- the descriptor in limbo is taken over by entry i
          obtain ⟨o', fd0, ho', hfd0⟩ := hold hof
          have : o' = o := by simpa using ho'.symm
          subst this
          have hl : limbo = some fd0 := by rw [hlimbo]; simp [hof, hfd0]
          subst hl
          have hnone : ownerFd ports fops i = none := hfree i o' hof rfl hpi
          apply hown.reown i hnone
          intro j
          rw [ownerFd_setFop]
          by_cases hji : j = i
          · simp [hji, nf, hof, hpi, hfd0]
          · simp [hji]
        · have hof' : oldFop.file = false := by simpa using hof
          have hl : limbo = none := by rw [hlimbo]; simp [hof']
          subst hl
          apply hown.limbo_none_congr
          intro j
          rw [ownerFd_setFop]
          by_cases hji : j = i
          · subst hji
            simp [nf, hof', ownerFd]
          · simp [hji]
    | none =>
      simp only [release, hfi]
      by_cases hof : oldFop.file = true
      · obtain ⟨o', fd0, ho', hfd0⟩ := hold hof
        have : o' = o := by simpa using ho'.symm
        subst this
        have hl : limbo = some fd0 := by rw [hlimbo]; simp [hof, hfd0]
        subst hl
        have hmem : fd0 ∈ w.openFds := (hown.split fd0).2 (Or.inr (Or.inr rfl))
        rw [closeFop_owned oldFop hof hfd0]
        refine ⟨chanPart_wf (closeFd_wf hwf hmem) _, hflag, ?_, (closeFd_quiet hmem).trans (chanPart_quiet _ _), ?_⟩
        · rw [chanPart_open, closeFd_open_of_mem hmem]
          exact hown.closeLimbo hwf.nodup
        · intro x hx
          rw [chanPart_open] at hx
          exact ((closeFd_mem hwf hmem x).1 hx).1
      · have hof' : oldFop.file = false := by simpa using hof
        have hl : limbo = none := by rw [hlimbo]; simp [hof']
        subst hl
        rw [closeFop_unowned _ oldFop hof']
        refine ⟨chanPart_wf hwf _, hflag, ?_, chanPart_quiet _ _, ?_⟩
        · rw [chanPart_open]; exact hown
        · intro x hx; rwa [chanPart_open] at hx

end C40
