import ElvProofs.C40.Basic
/-!
C40 — the ownership invariant of a form's frame: "each frame owns exactly the
resources recorded for it".

`ownerFd ports fops i` is the descriptor the form must close for table entry
`i` (the `File` flag of `fops[i]` is set and `ports[i]` has that file).  The
invariant `OwnInv` says: no descriptor is owned twice, and the open descriptors
are exactly the ones of the surroundings (`B`), the owned ones, and at most one
descriptor "in limbo" (taken from an entry that is being redirected and not
yet released).
-/
namespace C40

def ownerFd (ports : Ports) (fops : Fops) (i : Nat) : Option Nat :=
  if (fopAt fops i).file then (portAt ports i).bind (·.file) else none

/-- Read ends of pipes in the table have their write ends closed (and those
descriptor numbers will not be handed out again). -/
def PortsOK (w : World) (ports : Ports) : Prop :=
  ∀ i p x, portAt ports i = some p → p.peer = some x → x ∉ w.openFds ∧ x < w.nextFd

theorem PortsOK.of_bal {w w' : World} {ports : Ports} (h : PortsOK w ports) (hb : Bal w w') :
    PortsOK w' ports := fun i p x hp hx =>
  ⟨fun hm => (h i p x hp hx).1 ((hb.mem x).1 hm), Nat.lt_of_lt_of_le (h i p x hp hx).2 hb.quiet.next⟩

/-- A `File` flag is only set where there is a port with a file. -/
def FlagOK (ports : Ports) (fops : Fops) : Prop :=
  ∀ i, (fopAt fops i).file = true → ∃ p fd, portAt ports i = some p ∧ p.file = some fd

structure OwnInv (own : Nat → Option Nat) (limbo : Option Nat) (opn : List Nat) (B : Nat → Prop) : Prop where
  inj : ∀ i j fd, own i = some fd → own j = some fd → i = j
  split : ∀ fd, fd ∈ opn ↔ (B fd ∨ (∃ i, own i = some fd) ∨ limbo = some fd)
  disjB : ∀ fd i, own i = some fd → ¬ B fd
  limboB : ∀ fd, limbo = some fd → ¬ B fd
  limboOwn : ∀ fd i, limbo = some fd → own i ≠ some fd

/-- the entry `d` gives up what it owns: that descriptor is in limbo -/
theorem OwnInv.unown {own own' : Nat → Option Nat} {opn : List Nat} {B : Nat → Prop}
    (h : OwnInv own none opn B) (d : Nat) (hown : ∀ i, own' i = if i = d then none else own i) :
    OwnInv own' (own d) opn B := by
  refine ⟨?_, ?_, ?_, ?_, ?_⟩
  · intro i j fd hi hj
    rw [hown] at hi hj
    by_cases hid : i = d
    · simp [hid] at hi
    · by_cases hjd : j = d
      · simp [hjd] at hj
      · simp only [hid, hjd, if_false] at hi hj
        exact h.inj i j fd hi hj
  · intro fd
    rw [h.split fd]
    constructor
    · rintro (hb | ⟨i, hi⟩ | hl)
      · exact Or.inl hb
      · by_cases hid : i = d
        · subst hid; exact Or.inr (Or.inr hi)
        · refine Or.inr (Or.inl ⟨i, ?_⟩)
          rw [hown]; simp [hid, hi]
      · simp at hl
    · rintro (hb | ⟨i, hi⟩ | hl)
      · exact Or.inl hb
      · rw [hown] at hi
        by_cases hid : i = d
        · simp [hid] at hi
        · simp only [hid, if_false] at hi
          exact Or.inr (Or.inl ⟨i, hi⟩)
      · exact Or.inr (Or.inl ⟨d, hl⟩)
  · intro fd i hi
    rw [hown] at hi
    by_cases hid : i = d
    · simp [hid] at hi
    · simp only [hid, if_false] at hi
      exact h.disjB fd i hi
  · intro fd hl
    exact h.disjB fd d hl
  · intro fd i hl hi
    rw [hown] at hi
    by_cases hid : i = d
    · simp [hid] at hi
    · simp only [hid, if_false] at hi
      exact hid (h.inj i d fd hi hl)

/-- the descriptor in limbo is taken over by entry `i` (which owned nothing) -/
theorem OwnInv.reown {own own' : Nat → Option Nat} {opn : List Nat} {B : Nat → Prop} {fd0 : Nat}
    (h : OwnInv own (some fd0) opn B) (i0 : Nat) (hnone : own i0 = none)
    (hown : ∀ i, own' i = if i = i0 then some fd0 else own i) :
    OwnInv own' none opn B := by
  refine ⟨?_, ?_, ?_, ?_, ?_⟩
  · intro i j fd hi hj
    rw [hown] at hi hj
    by_cases hid : i = i0 <;> by_cases hjd : j = i0
    · rw [hid, hjd]
    · simp only [hid, if_true, hjd, if_false, Option.some.injEq] at hi hj
      subst hi
      exact absurd hj (h.limboOwn _ j rfl)
    · simp only [hid, if_false, hjd, if_true, Option.some.injEq] at hi hj
      subst hj
      exact absurd hi (h.limboOwn _ i rfl)
    · simp only [hid, hjd, if_false] at hi hj
      exact h.inj i j fd hi hj
  · intro fd
    rw [h.split fd]
    constructor
    · rintro (hb | ⟨i, hi⟩ | hl)
      · exact Or.inl hb
      · have hid : i ≠ i0 := by
          intro hh; rw [hh, hnone] at hi; simp at hi
        refine Or.inr (Or.inl ⟨i, ?_⟩)
        rw [hown]; simp [hid, hi]
      · refine Or.inr (Or.inl ⟨i0, ?_⟩)
        rw [hown]; simp at hl; simp [hl]
    · rintro (hb | ⟨i, hi⟩ | hl)
      · exact Or.inl hb
      · rw [hown] at hi
        by_cases hid : i = i0
        · simp only [hid, if_true, Option.some.injEq] at hi
          exact Or.inr (Or.inr (by rw [hi]))
        · simp only [hid, if_false] at hi
          exact Or.inr (Or.inl ⟨i, hi⟩)
      · simp at hl
  · intro fd i hi
    rw [hown] at hi
    by_cases hid : i = i0
    · simp only [hid, if_true, Option.some.injEq] at hi
      exact h.limboB fd (by rw [hi])
    · simp only [hid, if_false] at hi
      exact h.disjB fd i hi
  · intro fd hl; simp at hl
  · intro fd i hl; simp at hl

/-- nothing was in limbo -/
theorem OwnInv.limbo_none_congr {own own' : Nat → Option Nat} {opn : List Nat} {B : Nat → Prop} {l : Option Nat}
    (h : OwnInv own l opn B) (hown : ∀ i, own' i = own i) : OwnInv own' l opn B := by
  have : own' = own := funext hown
  rw [this]; exact h

/-- the descriptor in limbo is closed -/
theorem OwnInv.closeLimbo {own : Nat → Option Nat} {opn : List Nat} {B : Nat → Prop} {fd0 : Nat}
    (h : OwnInv own (some fd0) opn B) (hnd : opn.Nodup) : OwnInv own none (opn.erase fd0) B := by
  refine ⟨h.inj, ?_, h.disjB, ?_, ?_⟩
  · intro fd
    rw [hnd.mem_erase_iff, h.split fd]
    constructor
    · rintro ⟨hne, hb | ho | hl⟩
      · exact Or.inl hb
      · exact Or.inr (Or.inl ho)
      · simp at hl; exact absurd hl.symm hne
    · rintro (hb | ⟨i, hi⟩ | hl)
      · exact ⟨fun he => h.limboB fd (by rw [he]) hb, Or.inl hb⟩
      · exact ⟨fun he => h.limboOwn fd i (by rw [he]) hi, Or.inr (Or.inl ⟨i, hi⟩)⟩
      · simp at hl
  · intro fd hl; simp at hl
  · intro fd i hl; simp at hl

/-- a freshly opened descriptor becomes owned by entry `d` (which owned nothing) -/
theorem OwnInv.addFresh {own own' : Nat → Option Nat} {opn : List Nat} {B : Nat → Prop} {l : Option Nat}
    (h : OwnInv own l opn B) (d fdn : Nat) (hnone : own d = none) (hfresh : fdn ∉ opn)
    (hown : ∀ i, own' i = if i = d then some fdn else own i) :
    OwnInv own' l (fdn :: opn) B := by
  have hnB : ¬ B fdn := fun hb => hfresh ((h.split fdn).2 (Or.inl hb))
  have hnO : ∀ i, own i ≠ some fdn := fun i hi => hfresh ((h.split fdn).2 (Or.inr (Or.inl ⟨i, hi⟩)))
  have hnL : l ≠ some fdn := fun hl => hfresh ((h.split fdn).2 (Or.inr (Or.inr hl)))
  refine ⟨?_, ?_, ?_, ?_, ?_⟩
  · intro i j fd hi hj
    rw [hown] at hi hj
    by_cases hid : i = d <;> by_cases hjd : j = d
    · rw [hid, hjd]
    · simp only [hid, if_true, hjd, if_false, Option.some.injEq] at hi hj
      subst hi; exact absurd hj (hnO j)
    · simp only [hid, if_false, hjd, if_true, Option.some.injEq] at hi hj
      subst hj; exact absurd hi (hnO i)
    · simp only [hid, hjd, if_false] at hi hj
      exact h.inj i j fd hi hj
  · intro fd
    rw [List.mem_cons, h.split fd]
    constructor
    · rintro (he | hb | ⟨i, hi⟩ | hl)
      · refine Or.inr (Or.inl ⟨d, ?_⟩); rw [hown]; simp [he]
      · exact Or.inl hb
      · have hid : i ≠ d := by intro hh; rw [hh, hnone] at hi; simp at hi
        refine Or.inr (Or.inl ⟨i, ?_⟩); rw [hown]; simp [hid, hi]
      · exact Or.inr (Or.inr hl)
    · rintro (hb | ⟨i, hi⟩ | hl)
      · exact Or.inr (Or.inl hb)
      · rw [hown] at hi
        by_cases hid : i = d
        · simp only [hid, if_true, Option.some.injEq] at hi
          exact Or.inl hi.symm
        · simp only [hid, if_false] at hi
          exact Or.inr (Or.inr (Or.inl ⟨i, hi⟩))
      · exact Or.inr (Or.inr (Or.inr hl))
  · intro fd i hi
    rw [hown] at hi
    by_cases hid : i = d
    · simp only [hid, if_true, Option.some.injEq] at hi
      rw [← hi]; exact hnB
    · simp only [hid, if_false] at hi
      exact h.disjB fd i hi
  · exact h.limboB
  · intro fd i hl hi
    rw [hown] at hi
    by_cases hid : i = d
    · simp only [hid, if_true, Option.some.injEq] at hi
      rw [← hi] at hl; exact hnL hl
    · simp only [hid, if_false] at hi
      exact h.limboOwn fd i hl hi

/-- the open set is replaced by one with the same members -/
theorem OwnInv.congr_open {own : Nat → Option Nat} {opn opn' : List Nat} {B : Nat → Prop} {l : Option Nat}
    (h : OwnInv own l opn B) (hm : ∀ fd, fd ∈ opn' ↔ fd ∈ opn) : OwnInv own l opn' B :=
  ⟨h.inj, fun fd => (hm fd).trans (h.split fd), h.disjB, h.limboB, h.limboOwn⟩

end C40
