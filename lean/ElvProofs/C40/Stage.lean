import ElvProofs.C40.Exec
/-!
C40 — the frame of a pipeline stage that also owns the write end of the pipe to
the next form.
-/
namespace C40

/-- A descriptor opened by the surroundings joins the surroundings' set. -/
theorem FormInv.extendB {w w' : World} {ports : Ports} {fops : Fops} {B : Nat → Prop} {fdn : Nat}
    (h : FormInv w ports fops B) (hwf' : WF w') (hge : w.nextFd ≤ fdn) (hnext : w.nextFd ≤ w'.nextFd)
    (hmem : ∀ x, x ∈ w'.openFds ↔ (x = fdn ∨ x ∈ w.openFds)) :
    FormInv w' ports fops (fun fd => B fd ∨ fd = fdn) := by
  have hfresh : fdn ∉ w.openFds := fun hm => Nat.lt_irrefl _ (Nat.lt_of_lt_of_le (h.wf.lt _ hm) hge)
  refine ⟨hwf', ?_, h.flag, ?_⟩
  · intro i p x hp hx
    have := h.portsOK i p x hp hx
    refine ⟨fun hm => ?_, Nat.lt_of_lt_of_le this.2 hnext⟩
    rcases (hmem x).1 hm with he | hm'
    · subst he; omega
    · exact this.1 hm'
  · refine ⟨h.own.inj, ?_, ?_, ?_, ?_⟩
    · intro fd
      rw [hmem fd, h.own.split fd]
      constructor
      · rintro (he | hb | ho | hl)
        · exact Or.inl (Or.inr he)
        · exact Or.inl (Or.inl hb)
        · exact Or.inr (Or.inl ho)
        · exact Or.inr (Or.inr hl)
      · rintro ((hb | he) | ho | hl)
        · exact Or.inr (Or.inl hb)
        · exact Or.inl he
        · exact Or.inr (Or.inr (Or.inl ho))
        · exact Or.inr (Or.inr (Or.inr hl))
    · intro fd i hi hb
      rcases hb with hb | he
      · exact h.own.disjB fd i hi hb
      · subst he
        exact hfresh ((h.own.split fd).2 (Or.inr (Or.inl ⟨i, hi⟩)))
    · intro fd hl; simp at hl
    · intro fd i hl; simp at hl

/-- A descriptor opened just now is installed in entry `d` and owned by the form. -/
theorem FormInv.addOwned {w w' : World} {ports : Ports} {fops : Fops} {B : Nat → Prop}
    (h : FormInv w ports fops B) (d : Nat) (hd : ownerFd ports fops d = none)
    (np : Port) (fdn : Nat) (hfile : np.file = some fdn) (hpeer : np.peer = none)
    (hwf' : WF w') (hge : w.nextFd ≤ fdn) (hnext : w.nextFd ≤ w'.nextFd)
    (hmem : ∀ x, x ∈ w'.openFds ↔ (x = fdn ∨ x ∈ w.openFds)) (f : Fop) (hf : f.file = true) :
    FormInv w' (setPort ports d (some np)) (setFop fops d f) B := by
  have hfresh : fdn ∉ w.openFds := fun hm => Nat.lt_irrefl _ (Nat.lt_of_lt_of_le (h.wf.lt _ hm) hge)
  have hown : ∀ i, ownerFd (setPort ports d (some np)) (setFop fops d f) i =
      if i = d then some fdn else ownerFd ports fops i := by
    intro i
    unfold ownerFd
    rw [fopAt_setFop, portAt_setPort]
    by_cases hi : i = d
    · simp [hi, hf, hfile]
    · simp [hi]
  refine ⟨hwf', ?_, ?_, ?_⟩
  · intro i p x hp hx
    rw [portAt_setPort] at hp
    by_cases hi : i = d
    · simp only [hi, if_true, Option.some.injEq] at hp
      subst hp; rw [hpeer] at hx; simp at hx
    · simp only [hi, if_false] at hp
      have := h.portsOK i p x hp hx
      refine ⟨fun hm => ?_, Nat.lt_of_lt_of_le this.2 hnext⟩
      rcases (hmem x).1 hm with he | hm'
      · subst he; omega
      · exact this.1 hm'
  · intro i hi
    rw [fopAt_setFop] at hi
    rw [portAt_setPort]
    by_cases hid : i = d
    · simp only [hid, if_true]
      exact ⟨np, fdn, rfl, hfile⟩
    · simp only [hid, if_false] at hi ⊢
      exact h.flag i hi
  · have := h.own.addFresh (own' := ownerFd (setPort ports d (some np)) (setFop fops d f)) d fdn hd hfresh hown
    exact this.congr_open (fun x => by rw [hmem x, List.mem_cons])

theorem FormInv.spawn {w : World} {ports : Ports} {fops : Fops} {B : Nat → Prop}
    (h : FormInv w ports fops B) (k : Nat) : FormInv (spawn w k) ports fops B :=
  ⟨spawn_wf h.wf k, h.portsOK, h.flag, h.own⟩

/-! ### `os.Pipe` and the two ports built on it -/

theorem mkPipe_out (w : World) : (mkPipe w).2.1.file = some (w.nextFd + 1) ∧ (mkPipe w).2.1.peer = none := ⟨rfl, rfl⟩
theorem mkPipe_in (w : World) :
    (mkPipe w).2.2.file = some w.nextFd ∧ (mkPipe w).2.2.peer = some (w.nextFd + 1) := ⟨rfl, rfl⟩
theorem mkPipe_open (w : World) : (mkPipe w).1.openFds = (w.nextFd + 1) :: w.nextFd :: w.openFds := rfl
theorem mkPipe_next (w : World) : (mkPipe w).1.nextFd = w.nextFd + 2 := rfl
theorem mkPipe_world (w : World) : (mkPipe w).1 =
    (newPort (newPort (openFd (openFd w).1).1 (some (w.nextFd + 1)) none).1 (some w.nextFd) (some (w.nextFd + 1))).1 := rfl
theorem mkPipe_wf {w : World} (h : WF w) : WF (mkPipe w).1 := by
  rw [mkPipe_world]
  exact newPort_wf (newPort_wf (openFd_wf (openFd_wf h)) _ _) _ _
theorem mkPipe_quiet (w : World) : Quiet w (mkPipe w).1 := by
  rw [mkPipe_world]
  exact ((openFd_quiet w).trans (openFd_quiet _)).trans
    ((newPort_bal (openFd (openFd w).1).1 (some (w.nextFd + 1)) none).quiet.trans (newPort_bal _ (some w.nextFd) (some (w.nextFd + 1))).quiet)

/-- The frame of a non-last form: it owns its input read end (if any) and the
write end of the new pipe; the new read end belongs to the surroundings (it is
handed to the next form). -/
theorem stage_formInv_mid {w : World} {ports : Ports} {nextIn : Option Port}
    (hw : WF w) (hp : PortsOK w ports) (hin : InOK w nextIn) :
    FormInv (spawn (mkPipe w).1 1)
      (setPort (stagePorts ports nextIn) 1 (some (mkPipe w).2.1))
      (setFop (stageFops nextIn) 1 ⟨true, true⟩)
      (fun fd => (fd ∈ w.openFds ∧ inFd nextIn ≠ some fd) ∨ fd = w.nextFd) := by
  apply FormInv.spawn
  have h0 := stage_formInv_last hw hp hin
  -- the read end of the new pipe joins the surroundings
  have h1 := h0.extendB (w' := (openFd w).1) (fdn := w.nextFd) (openFd_wf hw) (Nat.le_refl _) (Nat.le_succ _)
    (by intro x; simp [List.mem_cons])
  -- the write end is installed in entry 1 and owned
  have hd : ownerFd (stagePorts ports nextIn) (stageFops nextIn) 1 = none := by
    apply ownerFd_none_of_flag
    cases nextIn <;> simp [stageFops, Fop.none]
  exact h1.addOwned 1 hd (mkPipe w).2.1 (w.nextFd + 1) (mkPipe_out w).1 (mkPipe_out w).2
    (mkPipe_wf hw) (by simp) (by rw [mkPipe_next]; simp) (by
      intro x; rw [mkPipe_open]; simp [List.mem_cons]) ⟨true, true⟩ rfl

end C40
