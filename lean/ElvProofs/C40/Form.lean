import ElvProofs.C40.Own
/-!
C40 — the frame of one form: the invariant `FormInv`, the stage epilogue
(`closeLoop`) and `releaseReplacedPort`.
-/
namespace C40

structure FormInv (w : World) (ports : Ports) (fops : Fops) (B : Nat → Prop) : Prop where
  wf : WF w
  portsOK : PortsOK w ports
  flag : FlagOK ports fops
  own : OwnInv (ownerFd ports fops) none w.openFds B

theorem ownerFd_setFop (ports : Ports) (fops : Fops) (d : Nat) (f : Fop) (i : Nat) :
    ownerFd ports (setFop fops d f) i =
      if i = d then (if f.file then (portAt ports d).bind (·.file) else none) else ownerFd ports fops i := by
  unfold ownerFd
  rw [fopAt_setFop]
  by_cases h : i = d
  · subst h; simp
  · simp [h]

theorem ownerFd_setPort (ports : Ports) (fops : Fops) (d : Nat) (v : Option Port) (i : Nat) :
    ownerFd (setPort ports d v) fops i =
      if i = d then (if (fopAt fops d).file then v.bind (·.file) else none) else ownerFd ports fops i := by
  unfold ownerFd
  rw [portAt_setPort]
  by_cases h : i = d
  · subst h; simp
  · simp [h]

theorem ownerFd_some {ports : Ports} {fops : Fops} {i fd : Nat} (h : ownerFd ports fops i = some fd) :
    (fopAt fops i).file = true ∧ ∃ p, portAt ports i = some p ∧ p.file = some fd := by
  unfold ownerFd at h
  by_cases hf : (fopAt fops i).file = true
  · simp only [hf, if_true] at h
    cases hp : portAt ports i with
    | none => simp [hp] at h
    | some p => simp [hp] at h; exact ⟨hf, p, rfl, h⟩
  · simp [hf] at h

theorem ownerFd_of {ports : Ports} {fops : Fops} {i fd : Nat} {p : Port}
    (hf : (fopAt fops i).file = true) (hp : portAt ports i = some p) (hfd : p.file = some fd) :
    ownerFd ports fops i = some fd := by
  simp [ownerFd, hf, hp, hfd]

theorem ownerFd_none_of_flag {ports : Ports} {fops : Fops} {i : Nat}
    (hf : (fopAt fops i).file = false) : ownerFd ports fops i = none := by
  simp [ownerFd, hf]

/-! ### the `Chan` half of `formOwnedPort.close` touches no descriptor -/

def chanPart (w : World) (c : Bool) : World :=
  if c then { w with chanCloses := w.chanCloses + 1 } else w

@[simp] theorem chanPart_open (w : World) (c : Bool) : (chanPart w c).openFds = w.openFds := by
  cases c <;> rfl
theorem chanPart_wf {w : World} (h : WF w) (c : Bool) : WF (chanPart w c) := by
  cases c
  · exact h
  · exact ⟨h.nodup, h.lt, h.count⟩
theorem chanPart_quiet (w : World) (c : Bool) : Quiet w (chanPart w c) := by
  cases c
  · exact Quiet.refl w
  · exact ⟨Nat.le_refl _, rfl, rfl, rfl, rfl⟩

theorem closeFop_owned {w : World} {p : Port} {fd : Nat} (fop : Fop) (hf : fop.file = true)
    (hfd : p.file = some fd) : closeFop w (some p) fop = chanPart (closeFd w fd) fop.chan := by
  simp [closeFop, hf, hfd, chanPart]

theorem closeFop_unowned {w : World} (p : Option Port) (fop : Fop) (hf : fop.file = false) :
    closeFop w p fop = chanPart w fop.chan := by
  simp [closeFop, hf, chanPart]

/-! ### the stage epilogue -/

theorem closeLoop_spec (ports : Ports) (fops : Fops) (B : Nat → Prop)
    (hflag : FlagOK ports fops)
    (hinj : ∀ i j fd, ownerFd ports fops i = some fd → ownerFd ports fops j = some fd → i = j)
    (hdisj : ∀ fd i, ownerFd ports fops i = some fd → ¬ B fd) :
    ∀ (rest : Fops) (k : Nat) (w : World),
      (∀ j, fopAt rest j = fopAt fops (k + j)) → WF w →
      (∀ fd, fd ∈ w.openFds ↔ (B fd ∨ ∃ i, k ≤ i ∧ ownerFd ports fops i = some fd)) →
      WF (closeLoop w ports rest k) ∧ (∀ fd, fd ∈ (closeLoop w ports rest k).openFds ↔ B fd) ∧
        Quiet w (closeLoop w ports rest k)
  | [], k, w, hrest, hwf, hsplit => by
    refine ⟨hwf, ?_, Quiet.refl w⟩
    intro fd
    show fd ∈ w.openFds ↔ B fd
    rw [hsplit fd]
    constructor
    · rintro (hb | ⟨i, hki, hi⟩)
      · exact hb
      · exfalso
        have h1 := (ownerFd_some hi).1
        have h2 := hrest (i - k)
        have h3 : k + (i - k) = i := by omega
        rw [h3, fopAt_nil] at h2
        rw [← h2] at h1
        simp [Fop.none] at h1
    · exact Or.inl
  | f :: rest, k, w, hrest, hwf, hsplit => by
    have hf : f = fopAt fops k := by
      have := hrest 0
      rw [fopAt_cons_zero] at this
      simpa using this
    have hrest' : ∀ j, fopAt rest j = fopAt fops (k + 1 + j) := by
      intro j
      have := hrest (j + 1)
      rw [fopAt_cons_succ] at this
      rw [this]; congr 1; omega
    have hcl : closeLoop w ports (f :: rest) k = closeLoop (closeFop w (portAt ports k) f) ports rest (k + 1) := rfl
    rw [hcl]
    by_cases hfile : f.file = true
    · -- the entry owns a descriptor: it is open and gets closed
      obtain ⟨p, fd0, hp, hfd0⟩ := hflag k (hf ▸ hfile)
      have hown : ownerFd ports fops k = some fd0 := ownerFd_of (hf ▸ hfile) hp hfd0
      have hmem : fd0 ∈ w.openFds := (hsplit fd0).2 (Or.inr ⟨k, Nat.le_refl _, hown⟩)
      rw [hp, closeFop_owned f hfile hfd0]
      have hwf1 : WF (chanPart (closeFd w fd0) f.chan) := chanPart_wf (closeFd_wf hwf hmem) _
      have hq1 : Quiet w (chanPart (closeFd w fd0) f.chan) :=
        (closeFd_quiet hmem).trans (chanPart_quiet _ _)
      have hsplit1 : ∀ fd, fd ∈ (chanPart (closeFd w fd0) f.chan).openFds ↔
          (B fd ∨ ∃ i, k + 1 ≤ i ∧ ownerFd ports fops i = some fd) := by
        intro fd
        rw [chanPart_open, closeFd_mem hwf hmem, hsplit fd]
        constructor
        · rintro ⟨hb | ⟨i, hki, hi⟩, hne⟩
          · exact Or.inl hb
          · refine Or.inr ⟨i, ?_, hi⟩
            rcases Nat.lt_or_ge k i with hlt | hge
            · exact hlt
            · have : i = k := by omega
              subst this
              rw [hown] at hi
              exact absurd (Option.some.inj hi).symm hne
        · rintro (hb | ⟨i, hki, hi⟩)
          · exact ⟨Or.inl hb, fun he => hdisj fd0 k hown (he ▸ hb)⟩
          · refine ⟨Or.inr ⟨i, by omega, hi⟩, fun he => ?_⟩
            subst he
            have := hinj i k fd hi hown
            omega
      obtain ⟨r1, r2, r3⟩ := closeLoop_spec ports fops B hflag hinj hdisj rest (k + 1) _ hrest' hwf1 hsplit1
      exact ⟨r1, r2, hq1.trans r3⟩
    · have hfile' : f.file = false := by simpa using hfile
      rw [closeFop_unowned _ f hfile']
      have hwf1 : WF (chanPart w f.chan) := chanPart_wf hwf _
      have hsplit1 : ∀ fd, fd ∈ (chanPart w f.chan).openFds ↔
          (B fd ∨ ∃ i, k + 1 ≤ i ∧ ownerFd ports fops i = some fd) := by
        intro fd
        rw [chanPart_open, hsplit fd]
        constructor
        · rintro (hb | ⟨i, hki, hi⟩)
          · exact Or.inl hb
          · refine Or.inr ⟨i, ?_, hi⟩
            rcases Nat.lt_or_ge k i with hlt | hge
            · exact hlt
            · have : i = k := by omega
              subst this
              have := (ownerFd_some hi).1
              rw [← hf, hfile'] at this
              simp at this
        · rintro (hb | ⟨i, hki, hi⟩)
          · exact Or.inl hb
          · exact Or.inr ⟨i, by omega, hi⟩
      obtain ⟨r1, r2, r3⟩ := closeLoop_spec ports fops B hflag hinj hdisj rest (k + 1) _ hrest' hwf1 hsplit1
      exact ⟨r1, r2, (chanPart_quiet _ _).trans r3⟩

/-- When the form ends, everything it owns is closed: exactly the surroundings' descriptors stay open. -/
theorem closeLoop_formInv {w : World} {ports : Ports} {fops : Fops} {B : Nat → Prop}
    (h : FormInv w ports fops B) :
    WF (closeLoop w ports fops 0) ∧ (∀ fd, fd ∈ (closeLoop w ports fops 0).openFds ↔ B fd) ∧
      Quiet w (closeLoop w ports fops 0) := by
  apply closeLoop_spec ports fops B h.flag h.own.inj h.own.disjB fops 0 w
  · intro j; simp
  · exact h.wf
  · intro fd
    rw [h.own.split fd]
    constructor
    · rintro (hb | ⟨i, hi⟩ | hl)
      · exact Or.inl hb
      · exact Or.inr ⟨i, Nat.zero_le _, hi⟩
      · simp at hl
    · rintro (hb | ⟨i, _, hi⟩)
      · exact Or.inl hb
      · exact Or.inr (Or.inl ⟨i, hi⟩)

end C40
