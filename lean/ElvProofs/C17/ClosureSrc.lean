/-
Helper lemmas for `closure[def]` / `closure[body]` (C17 round 2): the lambda
nodes collected by `lambdasOf` are nodes of the tree, so C01's range theorem
applies to them and to their `Chunk` child.
-/
import ElvModel.C17.ClosureSrc
import ElvProofs.C01
namespace C17
open Go

mutual
theorem lambdasOf_desc : ∀ (n m : C01.Node), m ∈ lambdasOf n → C01_Desc n m
  | .mk k a b t f cs, m, h => by
    simp only [lambdasOf, List.mem_append] at h
    rcases h with h | h
    · split at h
      · simp only [List.mem_singleton] at h
        subst h; exact .self _
      · simp at h
    · obtain ⟨c, hc, hd⟩ := lambdasOfList_desc cs m h
      exact .child hc hd
theorem lambdasOfList_desc : ∀ (cs : List C01.Node) (m : C01.Node), m ∈ lambdasOfList cs → ∃ c ∈ cs, C01_Desc c m
  | [], m, h => by simp [lambdasOfList] at h
  | c :: cs, m, h => by
    simp only [lambdasOfList, List.mem_append] at h
    rcases h with h | h
    · exact ⟨c, by simp, lambdasOf_desc c m h⟩
    · obtain ⟨c', hc', hd⟩ := lambdasOfList_desc cs m h
      exact ⟨c', by simp [hc'], hd⟩
end

theorem desc_trans {a b c : C01.Node} (h1 : C01_Desc a b) (h2 : C01_Desc b c) : C01_Desc a c := by
  induction h1 with
  | self n => exact h2
  | child hc _ ih => exact .child hc (ih h2)

/-- Slicing the source by the range of a node that is as C01 says gives the node's text. -/
theorem closureSrcSlice_ok (src : Bytes) (m : C01.Node) (h : C01_NodeOk src m) :
    closureSrcSlice src m = .ok m.text := by
  obtain ⟨h1, h2, h3, _⟩ := h
  unfold closureSrcSlice slice
  have : (0 : Int) ≤ (m.frm : Int) ∧ (m.frm : Int) ≤ (m.to : Int) ∧ (m.to : Int) ≤ (src.length : Int) :=
    ⟨by omega, by omega, by omega⟩
  simp only [this, and_self, if_true, Int.toNat_natCast, h3]

theorem closureDefBody_ok (src : Bytes) (t lam : C01.Node) (hall : ∀ m, C01_Desc t m → C01_NodeOk src m)
    (hl : lam ∈ lambdasOf t) : ∃ r, closureDefBody src lam = .ok r ∧ r.1 = lam.text := by
  have hd := lambdasOf_desc t lam hl
  unfold closureDefBody
  simp only [bind, Res.bind, closureSrcSlice_ok src lam (hall lam hd)]
  cases hc : lam.childrenOf .chunk with
  | nil => exact ⟨_, rfl, rfl⟩
  | cons c cs =>
    have hmem : c ∈ lam.children := by
      have : c ∈ lam.childrenOf .chunk := by rw [hc]; simp
      unfold C01.Node.childrenOf at this
      exact (List.mem_filter.mp this).1
    have hdc : C01_Desc t c := desc_trans hd (.child hmem (.self c))
    simp only [closureSrcSlice_ok src c (hall c hdc)]
    exact ⟨_, rfl, rfl⟩

end C17
