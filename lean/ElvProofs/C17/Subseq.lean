/-
Helper lemmas for `strutil.HasSubseq` (C17): the repaired loop never slices
out of range; the loop as found does.
-/
import ElvModel.C17.Model
import ElvProofs.Lemmas.Utf8
namespace C17
open Go

theorem findOffset_bound (n : Nat) (p : Nat → Bool) :
    findOffset n p = -1 ∨ (0 ≤ findOffset n p ∧ findOffset n p < n) := by
  unfold findOffset
  cases h : (List.range n).find? p with
  | none => exact Or.inl rfl
  | some i =>
    have hm := List.mem_of_find?_eq_some h
    rw [List.mem_range] at hm
    right
    simp only
    omega

theorem indexRune_bound (s : Bytes) (r : Nat) :
    indexRune s r = -1 ∨ (0 ≤ indexRune s r ∧ indexRune s r < s.length) := by
  unfold indexRune
  split
  · exact findOffset_bound _ _
  · split
    · cases h : (runes s).find? (fun x => x.2.1 == RuneError) with
      | none => exact Or.inl rfl
      | some x =>
        have hm := List.mem_of_find?_eq_some h
        have := (runes_mem hm).2.1
        right
        simp only
        omega
    · split
      · exact Or.inl rfl
      · exact findOffset_bound _ _

theorem hasSubseqLoop_fixed_ok : ∀ (ps : List Rune) (s : Bytes), ∃ b, hasSubseqLoop true ps s = .ok b
  | [], _ => ⟨true, rfl⟩
  | p :: ps, s => by
    unfold hasSubseqLoop
    simp only
    split
    · exact ⟨false, rfl⟩
    · rename_i hne
      have hb := indexRune_bound s p
      rcases hb with hb | ⟨h0, h1⟩
      · exact absurd hb hne
      · generalize indexRune s p = i at h0 h1
        have hs1 : slice s i s.length = .ok (s.drop i.toNat) := by
          unfold slice
          have hlen : s.length - i.toNat = (s.drop i.toNat).length := by simp
          rw [if_pos ⟨h0, Int.le_of_lt h1, Int.le_refl _⟩]
          simp only [Int.toNat_natCast]
          rw [hlen, List.take_length]
        have hle := decodeRune_size_le (s.drop i.toNat)
        rw [List.length_drop] at hle
        have hs2 : ∃ s', slice s (i + ((decodeRune (s.drop i.toNat)).2 : Int)) s.length = .ok s' := by
          unfold slice
          rw [if_pos ⟨by omega, by omega, by omega⟩]
          exact ⟨_, rfl⟩
        obtain ⟨s', hs'⟩ := hs2
        simp only [if_true, bind, Res.bind, hs1, pure, hs']
        exact hasSubseqLoop_fixed_ok ps s'

end C17
