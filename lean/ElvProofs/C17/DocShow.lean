/-
Helper lemmas for the `doc:find` part of C17 (round 2), part 2:
`matchedBlock.Show` on separated ranges, `match`, and the whole `findIn`.
-/
import ElvProofs.C17.DocMerge
namespace C17
open Go

/-! ### `strings.Index` / `strings.LastIndex` stay inside the string -/

theorem strIndex_bound {s sub : Bytes} {m : Nat} (h : C41.strIndex s sub = some m) : m + sub.length ≤ s.length := by
  induction s generalizing m with
  | nil =>
    unfold C41.strIndex at h
    split at h
    · rename_i hp
      have : sub = [] := by simpa using hp
      subst this
      injection h with h; subst h; simp
    · simp at h
  | cons b t ih =>
    unfold C41.strIndex at h
    split at h
    · rename_i hp
      injection h with h; subst h
      have := (List.isPrefixOf_iff_prefix.mp hp).length_le
      omega
    · simp only [Option.map_eq_some_iff] at h
      obtain ⟨m', hm', rfl⟩ := h
      have := ih hm'
      simp only [List.length_cons]
      omega

theorem strLastIndex_bound {s sub : Bytes} {m : Nat} (h : C41.strLastIndex s sub = some m) :
    m + sub.length ≤ s.length := by
  induction s generalizing m with
  | nil =>
    unfold C41.strLastIndex at h
    split at h
    · rename_i he
      injection h with h; subst h
      have : sub = [] := by simpa using he
      subst this; simp
    · simp at h
  | cons b t ih =>
    unfold C41.strLastIndex at h
    split at h
    · rename_i i hi
      injection h with h; subst h
      have := ih hi
      simp only [List.length_cons]
      omega
    · split at h
      · rename_i hp
        injection h with h; subst h
        have := (List.isPrefixOf_iff_prefix.mp hp).length_le
        omega
      · simp at h

theorem slice_ok_len {α} (l : List α) (i j : Int) (h0 : 0 ≤ i) (h1 : i ≤ j) (h2 : j ≤ l.length) :
    ∃ r, slice l i j = .ok r ∧ (r.length : Int) = j - i := by
  unfold slice
  refine ⟨(l.drop i.toNat).take (j.toNat - i.toNat), by simp [h0, h1, h2], ?_⟩
  simp only [List.length_take, List.length_drop]
  omega

/-! ### the four helpers -/

theorem firstSentenceStart_ok (s : Bytes) (fr : Int) (h0 : 0 ≤ fr) (h1 : fr ≤ s.length) :
    ∃ r, firstSentenceStart s fr = .ok r ∧ fr ≤ r ∧ r ≤ s.length := by
  obtain ⟨t, ht, hl⟩ := slice_ok_len s fr s.length h0 h1 (Int.le_refl _)
  unfold firstSentenceStart
  simp only [bind, Res.bind, ht]
  cases hi : C41.strIndex t dotSpace with
  | none => exact ⟨_, rfl, h1, Int.le_refl _⟩
  | some i =>
    have := strIndex_bound hi
    have hd : dotSpace.length = 2 := rfl
    exact ⟨_, rfl, by omega, by omega⟩

theorem firstLineEnd_ok (s : Bytes) (fr : Int) (h0 : 0 ≤ fr) (h1 : fr ≤ s.length) :
    ∃ r, firstLineEnd s fr = .ok r ∧ fr ≤ r ∧ r ≤ s.length := by
  obtain ⟨t, ht, hl⟩ := slice_ok_len s fr s.length h0 h1 (Int.le_refl _)
  unfold firstLineEnd
  simp only [bind, Res.bind, ht]
  cases hi : C41.strIndex t newline with
  | none => exact ⟨_, rfl, h1, Int.le_refl _⟩
  | some i =>
    have := strIndex_bound hi
    have hd : newline.length = 1 := rfl
    exact ⟨_, rfl, by omega, by omega⟩

theorem lastSentenceStart_ok (s : Bytes) (upto : Int) (h0 : 0 ≤ upto) (h1 : upto ≤ s.length) :
    ∃ r, lastSentenceStart s upto = .ok r ∧ 0 ≤ r ∧ r ≤ upto := by
  obtain ⟨t, ht, hl⟩ := slice_ok_len s 0 upto (Int.le_refl _) h0 h1
  unfold lastSentenceStart
  simp only [bind, Res.bind, ht]
  cases hi : C41.strLastIndex t dotSpace with
  | none => exact ⟨_, rfl, Int.le_refl _, h0⟩
  | some i =>
    have := strLastIndex_bound hi
    have hd : dotSpace.length = 2 := rfl
    exact ⟨_, rfl, by omega, by omega⟩

theorem lastLineStart_ok (s : Bytes) (upto : Int) (h0 : 0 ≤ upto) (h1 : upto ≤ s.length) :
    ∃ r, lastLineStart s upto = .ok r ∧ 0 ≤ r ∧ r ≤ upto := by
  obtain ⟨t, ht, hl⟩ := slice_ok_len s 0 upto (Int.le_refl _) h0 h1
  unfold lastLineStart
  simp only [bind, Res.bind, ht]
  cases hi : C41.strLastIndex t newline with
  | none => exact ⟨_, rfl, Int.le_refl _, h0⟩
  | some i =>
    have := strLastIndex_bound hi
    have hd : newline.length = 1 := rfl
    exact ⟨_, rfl, by omega, by omega⟩

/-! ### the loop of `Show` -/

/-- What the loop keeps: `0 ≤ lastTo ≤ lastLineTo/lastSentenceTo ≤ len(Text)`. -/
def ShowSt.Ok (n : Int) (st : ShowSt) : Prop := 0 ≤ st.lastTo ∧ st.lastTo ≤ st.lastEnd ∧ st.lastEnd ≤ n

theorem showLoop_ok (n : Int) (step : ShowSt → Ranging → Res ShowSt)
    (hstep : ∀ st m, st.Ok n → st.lastTo ≤ m.from_ → m.from_ ≤ m.to → m.to ≤ n →
      ∃ st', step st m = .ok st' ∧ st'.Ok n ∧ st'.lastTo = m.to) :
    ∀ (ms : List Ranging) (lo : Int) (st : ShowSt), Sep n lo ms → st.Ok n → st.lastTo ≤ lo →
      ∃ st', showLoop step ms st = .ok st' ∧ st'.Ok n
  | [], _, st, _, hst, _ => ⟨st, rfl, hst⟩
  | m :: ms, lo, st, hsep, hst, hlo => by
    obtain ⟨h1, h2, h3, h4⟩ := hsep
    obtain ⟨st1, hs1, hok1, hto1⟩ := hstep st m hst (by omega) h2 h3
    obtain ⟨st2, hs2, hok2⟩ := showLoop_ok n step hstep ms (m.to + 1) st1 h4 hok1 (by omega)
    exact ⟨st2, by simp [showLoop, bind, Res.bind, hs1, hs2], hok2⟩

theorem showTextStep_ok (styled : Bytes → Bytes) (text : Bytes) (st : ShowSt) (m : Ranging)
    (hst : st.Ok text.length) (h1 : st.lastTo ≤ m.from_) (h2 : m.from_ ≤ m.to) (h3 : m.to ≤ text.length) :
    ∃ st', showTextStep styled text st m = .ok st' ∧ st'.Ok text.length ∧ st'.lastTo = m.to := by
  obtain ⟨a0, a1, a2⟩ := hst
  obtain ⟨sf, hsf, hsf0, hsf1⟩ := lastSentenceStart_ok text m.from_ (by omega) (by omega)
  obtain ⟨q, hq⟩ := slice_ok text m.from_ m.to (by omega) h2 h3
  obtain ⟨le, hle, hle0, hle1⟩ := firstSentenceStart_ok text m.to (by omega) h3
  unfold showTextStep
  simp only [bind, Res.bind, hsf]
  by_cases hc : st.lastEnd < sf
  · obtain ⟨x, hx⟩ := slice_ok text st.lastTo st.lastEnd a0 a1 a2
    obtain ⟨y, hy⟩ := slice_ok text sf m.from_ hsf0 hsf1 (by omega)
    simp only [hc, if_true, hx, hy, pure, hq, hle]
    exact ⟨_, rfl, ⟨by simp only; omega, by simp only; omega, by simp only; omega⟩, rfl⟩
  · obtain ⟨x, hx⟩ := slice_ok text st.lastTo m.from_ a0 h1 (by omega)
    simp only [hc, if_false, hx, pure, hq, hle]
    exact ⟨_, rfl, ⟨by simp only; omega, by simp only; omega, by simp only; omega⟩, rfl⟩

theorem showCodeStep_ok (styled : Bytes → Bytes) (text : Bytes) (st : ShowSt) (m : Ranging)
    (hst : st.Ok text.length) (h1 : st.lastTo ≤ m.from_) (h2 : m.from_ ≤ m.to) (h3 : m.to ≤ text.length) :
    ∃ st', showCodeStep styled text st m = .ok st' ∧ st'.Ok text.length ∧ st'.lastTo = m.to := by
  obtain ⟨a0, a1, a2⟩ := hst
  obtain ⟨sf, hsf, hsf0, hsf1⟩ := lastLineStart_ok text m.from_ (by omega) (by omega)
  obtain ⟨q, hq⟩ := slice_ok text m.from_ m.to (by omega) h2 h3
  obtain ⟨le, hle, hle0, hle1⟩ := firstLineEnd_ok text m.to (by omega) h3
  unfold showCodeStep
  simp only [bind, Res.bind, hsf]
  by_cases hc : st.lastEnd < sf
  · obtain ⟨x, hx⟩ := slice_ok text st.lastTo st.lastEnd a0 a1 a2
    obtain ⟨y, hy⟩ := slice_ok text sf m.from_ hsf0 hsf1 (by omega)
    simp only [hc, if_true, hx, hy, pure, hq, hle]
    exact ⟨_, rfl, ⟨by simp only; omega, by simp only; omega, by simp only; omega⟩, rfl⟩
  · obtain ⟨x, hx⟩ := slice_ok text st.lastTo m.from_ a0 h1 (by omega)
    simp only [hc, if_false, hx, pure, hq, hle]
    exact ⟨_, rfl, ⟨by simp only; omega, by simp only; omega, by simp only; omega⟩, rfl⟩

/-- `Show` on ordered, non-overlapping matches inside the text: every slice is in range. -/
theorem showBlock_ok (styled : Bytes → Bytes) (b : MatchedBlock) (h : Sep b.block.text.length 0 b.isMatches) :
    ∃ out, showBlock styled b = .ok out := by
  have hinit : ShowSt.Ok b.block.text.length ⟨[], 0, 0⟩ := ⟨Int.le_refl _, Int.le_refl _, by simp⟩
  unfold showBlock
  simp only [bind, Res.bind]
  cases hcode : b.block.code with
  | true =>
    obtain ⟨st, hst, a0, a1, a2⟩ := showLoop_ok b.block.text.length _
      (fun st m => showCodeStep_ok styled b.block.text st m) b.isMatches 0 ⟨[], 0, 0⟩ h hinit (Int.le_refl _)
    obtain ⟨x, hx⟩ := slice_ok b.block.text st.lastTo st.lastEnd a0 a1 a2
    simp only [if_true, hst, hx]
    exact ⟨_, rfl⟩
  | false =>
    obtain ⟨st, hst, a0, a1, a2⟩ := showLoop_ok b.block.text.length _
      (fun st m => showTextStep_ok styled b.block.text st m) b.isMatches 0 ⟨[], 0, 0⟩ h hinit (Int.le_refl _)
    obtain ⟨x, hx⟩ := slice_ok b.block.text st.lastTo st.lastEnd a0 a1 a2
    simp only [Bool.false_eq_true, if_false, hst, hx]
    exact ⟨_, rfl⟩

theorem showAll_ok (styled : Bytes → Bytes) : ∀ (ms : List MatchedBlock),
    (∀ b ∈ ms, Sep b.block.text.length 0 b.isMatches) → ∃ out, showAll styled ms = .ok out
  | [], _ => ⟨[], rfl⟩
  | b :: rest, h => by
    obtain ⟨s, hs⟩ := showBlock_ok styled b (h b (by simp))
    obtain ⟨tl, htl⟩ := showAll_ok styled rest (fun b' hb' => h b' (by simp [hb']))
    exact ⟨s :: tl, by simp [showAll, bind, Res.bind, hs, htl]⟩

/-! ### `match` -/

/-- `bMatches` has one entry per block and every recorded range lies inside its block's text. -/
def BMOk (bs : List Block) (bm : List (List Ranging)) : Prop :=
  bm.length = bs.length ∧
  ∀ k b rs, getI bs k = some b → getI bm k = some rs → ∀ r ∈ rs, r.Valid b.text.length

theorem matchQuery_ok (q : Bytes) (bs : List Block) : ∀ (rest : List Block) (i : Int) (bm : List (List Ranging)),
    0 ≤ i → (∀ k b, getI rest k = some b → getI bs (i + k) = some b) → BMOk bs bm →
    ∃ r, matchQuery q rest i bm = .ok r ∧ ∀ bm', r = some bm' → BMOk bs bm'
  | [], _, _, _, _, _ => ⟨none, rfl, fun _ h => by simp at h⟩
  | b :: rest, i, bm, hi, hsub, hbm => by
    unfold matchQuery
    cases hidx : C41.strIndex b.text q with
    | none =>
      simp only
      refine matchQuery_ok q bs rest (i + 1) bm (by omega) (fun k b' hk => ?_) hbm
      have hk0 := (getI_bounds hk).1
      have := hsub (k + 1) b' (by rw [getI_cons_succ b rest k hk0]; exact hk)
      rw [show i + 1 + k = i + (k + 1) by omega]; exact this
    | some fr =>
      simp only
      have hb : getI bs i = some b := by
        have := hsub 0 b (getI_cons_zero b rest)
        simpa using this
      have hib := getI_bounds hb
      obtain ⟨cur, hcur⟩ := getI_exists bm i hi (by rw [hbm.1]; exact hib.2)
      obtain ⟨bm', hset, hl'⟩ := setIdx_ok bm i (cur ++ [⟨fr, fr + q.length⟩]) hi (by rw [hbm.1]; exact hib.2)
      simp only [bind, Res.bind, index_of_getI hcur, hset]
      refine ⟨_, rfl, fun bm'' he => ?_⟩
      simp only [Option.some.injEq] at he
      subst he
      refine ⟨by rw [hl', hbm.1], fun k b' rs hk1 hk2 r hr => ?_⟩
      rw [getI_setIdx hset k] at hk2
      by_cases hki : k = i
      · simp only [hki, if_true, Option.some.injEq] at hk2
        subst hk2
        rw [hki, hb] at hk1
        simp only [Option.some.injEq] at hk1
        subst hk1
        rcases List.mem_append.mp hr with hr | hr
        · exact hbm.2 i b cur hb hcur r hr
        · simp only [List.mem_singleton] at hr
          subst hr
          have := strIndex_bound hidx
          unfold Ranging.Valid
          simp only
          omega
      · simp only [hki, if_false] at hk2
        exact hbm.2 k b' rs hk1 hk2 r hr

theorem matchQueries_ok (bs : List Block) : ∀ (qs : List Bytes) (bm : List (List Ranging)), BMOk bs bm →
    ∃ r, matchQueries bs qs bm = .ok r ∧ ∀ bm', r = some bm' → BMOk bs bm'
  | [], bm, h => ⟨some bm, rfl, fun _ he => by simp only [Option.some.injEq] at he; subst he; exact h⟩
  | q :: qs, bm, h => by
    obtain ⟨r, hr, hok⟩ := matchQuery_ok q bs bs 0 bm (Int.le_refl _) (fun k b hk => by simpa using hk) h
    unfold matchQueries
    simp only [bind, Res.bind, hr]
    cases r with
    | none => exact ⟨none, rfl, fun _ he => by simp at he⟩
    | some bm' => exact matchQueries_ok bs qs bm' (hok bm' rfl)

theorem sortAndMergeMatches_ok (sort : List Ranging → List Ranging) (hsort : SortContract sort) (n : Int)
    (rs : List Ranging) (hne : rs ≠ []) (hvalid : ∀ r ∈ rs, r.Valid n) :
    ∃ out, sortAndMergeMatches sort rs = .ok out ∧ Sep n 0 out ∧ out ≠ [] ∧ out.length ≤ rs.length := by
  obtain ⟨hperm, hsorted⟩ := hsort rs
  have hne' : sort rs ≠ [] := by
    intro he
    rw [he] at hperm
    exact hne (List.Perm.eq_nil hperm.symm)
  obtain ⟨out, h1, h2, h3, h4⟩ := mergeSorted_ok n (sort rs) hne' (fun r hr => hvalid r (hperm.mem_iff.mp hr)) hsorted
  exact ⟨out, h1, h2, h3, by rw [← hperm.length_eq]; exact h4⟩

theorem collectMatched_ok (sort : List Ranging → List Ranging) (hsort : SortContract sort)
    (bs : List Block) (bm : List (List Ranging)) (hbm : BMOk bs bm) :
    ∀ (rest : List Block) (i : Int), 0 ≤ i → (∀ k b, getI rest k = some b → getI bs (i + k) = some b) →
    ∃ out, collectMatched sort bm rest i = .ok out ∧ ∀ b ∈ out, Sep b.block.text.length 0 b.isMatches
  | [], _, _, _ => ⟨[], rfl, fun _ h => by simp at h⟩
  | b :: rest, i, hi, hsub => by
    have hb : getI bs i = some b := by
      have := hsub 0 b (getI_cons_zero b rest)
      simpa using this
    have hib := getI_bounds hb
    obtain ⟨cur, hcur⟩ := getI_exists bm i hi (by rw [hbm.1]; exact hib.2)
    obtain ⟨tl, htl, hsep⟩ := collectMatched_ok sort hsort bs bm hbm rest (i + 1) (by omega) (fun k b' hk => by
      have hk0 := (getI_bounds hk).1
      have := hsub (k + 1) b' (by rw [getI_cons_succ b rest k hk0]; exact hk)
      rw [show i + 1 + k = i + (k + 1) by omega]; exact this)
    unfold collectMatched
    simp only [bind, Res.bind, index_of_getI hcur]
    by_cases hc : cur.length > 0
    · have hne : cur ≠ [] := by intro he; rw [he] at hc; simp at hc
      obtain ⟨ms, hms, hs, _, _⟩ := sortAndMergeMatches_ok sort hsort b.text.length cur hne (hbm.2 i b cur hb hcur)
      simp only [hc, if_true, hms, htl]
      refine ⟨_, rfl, fun b' hb' => ?_⟩
      rcases List.mem_cons.mp hb' with h | h
      · subst h; exact hs
      · exact hsep b' h
    · simp only [hc, if_false]
      exact ⟨tl, htl, hsep⟩

/-- `findIn` of `doc:find` from the rendered blocks on: no index, no slice out of range. -/
theorem docFindIn_ok (sort : List Ranging → List Ranging) (hsort : SortContract sort) (styled : Bytes → Bytes)
    (bs : List Block) (qs : List Bytes) : ∃ r, docFindIn sort styled bs qs = .ok r := by
  have h0 : BMOk bs (List.replicate bs.length []) := by
    refine ⟨by simp, fun k b rs _ hk r hr => ?_⟩
    have := getI_mem hk
    simp only [List.mem_replicate] at this
    rw [this.2] at hr
    simp at hr
  obtain ⟨r, hr, hok⟩ := matchQueries_ok bs qs _ h0
  unfold docFindIn matchBlocks
  simp only [bind, Res.bind, hr]
  cases r with
  | none => exact ⟨none, rfl⟩
  | some bm =>
    obtain ⟨ms, hms, hsep⟩ := collectMatched_ok sort hsort bs bm (hok bm rfl) bs 0 (Int.le_refl _)
      (fun k b hk => by simpa using hk)
    obtain ⟨out, hout⟩ := showAll_ok styled ms hsep
    simp only [hms, hout]
    exact ⟨_, rfl⟩

theorem insertByFrom_perm (x : Ranging) : ∀ l, (insertByFrom x l).Perm (x :: l)
  | [] => .refl _
  | y :: ys => by
    unfold insertByFrom
    split
    · exact ((insertByFrom_perm x ys).cons y).trans (List.Perm.swap x y ys)
    · exact .refl _

theorem insertByFrom_sorted (x : Ranging) : ∀ l, l.Pairwise (fun a b : Ranging => a.from_ ≤ b.from_) →
    (insertByFrom x l).Pairwise (fun a b : Ranging => a.from_ ≤ b.from_)
  | [], _ => by simp [insertByFrom]
  | y :: ys, h => by
    unfold insertByFrom
    rw [List.pairwise_cons] at h
    split
    · rename_i hle
      rw [List.pairwise_cons]
      refine ⟨fun z hz => ?_, insertByFrom_sorted x ys h.2⟩
      rcases List.mem_cons.mp ((insertByFrom_perm x ys).mem_iff.mp hz) with hz | hz
      · rw [hz]; exact hle
      · exact h.1 z hz
    · rename_i hnle
      rw [List.pairwise_cons]
      refine ⟨fun z hz => ?_, List.pairwise_cons.mpr h⟩
      rcases List.mem_cons.mp hz with hz | hz
      · rw [hz]; omega
      · have := h.1 z hz; omega

theorem foldl_insert_contract : ∀ (rs acc : List Ranging), acc.Pairwise (fun a b : Ranging => a.from_ ≤ b.from_) →
    (rs.foldl (fun acc x => insertByFrom x acc) acc).Perm (rs.reverse ++ acc) ∧
    (rs.foldl (fun acc x => insertByFrom x acc) acc).Pairwise (fun a b : Ranging => a.from_ ≤ b.from_)
  | [], acc, h => ⟨by simp, h⟩
  | x :: rs, acc, h => by
    obtain ⟨h1, h2⟩ := foldl_insert_contract rs (insertByFrom x acc) (insertByFrom_sorted x acc h)
    refine ⟨?_, h2⟩
    simp only [List.foldl_cons, List.reverse_cons, List.append_assoc, List.singleton_append]
    exact h1.trans (List.Perm.append_left _ (insertByFrom_perm x acc))

/-- The stable sort the driver uses satisfies `sort.Slice`'s contract. -/
theorem stableSortByFrom_contract : SortContract stableSortByFrom := by
  intro rs
  obtain ⟨h1, h2⟩ := foldl_insert_contract rs [] List.Pairwise.nil
  refine ⟨?_, h2⟩
  unfold stableSortByFrom
  exact h1.trans (by simpa using List.reverse_perm rs)

end C17
