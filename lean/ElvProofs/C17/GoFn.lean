/-
Helper lemmas for the `goFn` part of C17: `goFn.Call` never panics, and the
argument vector it builds satisfies the precondition of `reflect.Value.Call`.
-/
import ElvModel.C17.Model
namespace C17
open Go

theorem index_ok_of_lt {α} (l : List α) (i : Nat) (h : i < l.length) :
    index l (i : Int) = .ok l[i] := by
  unfold index
  simp [h]

/-! ### no panic -/

theorem argLoop_no_panic (b : GoFn) : ∀ (args : List Arg) (i : Nat) (acc : List InVal),
    (b.variadicArg.isSome = true ∨ b.inputs = true ∨ i + args.length ≤ b.normalArgs.length) →
    ∃ r, argLoop b i args acc = .ok r
  | [], i, acc, _ => ⟨_, rfl⟩
  | a :: rest, i, acc, h => by
    unfold argLoop
    by_cases hi : i < b.normalArgs.length
    · simp only [hi, if_true, index_ok_of_lt _ _ hi]
      split
      · exact argLoop_no_panic b rest (i + 1) _ (by
          rcases h with h | h | h
          · exact Or.inl h
          · exact Or.inr (Or.inl h)
          · right; right; simp only [List.length_cons] at h; omega)
      · exact ⟨_, rfl⟩
    · simp only [hi, if_false]
      cases hv : b.variadicArg with
      | some typ =>
        simp only
        split
        · exact argLoop_no_panic b rest (i + 1) _ (Or.inl (by simp [hv]))
        · exact ⟨_, rfl⟩
      | none =>
        simp only
        cases hin : b.inputs with
        | true => exact ⟨_, rfl⟩
        | false =>
          exfalso
          rcases h with h | h | h
          · simp [hv] at h
          · simp [hin] at h
          · simp only [List.length_cons] at h; omega

theorem goFnArityErr_none {b : GoFn} {nargs : Int} (h : goFnArityErr b nargs = none) :
    (b.variadicArg.isSome = true → (b.normalArgs.length : Int) ≤ nargs) ∧
    (b.variadicArg.isSome = false → b.inputs = true →
      nargs = b.normalArgs.length ∨ nargs = b.normalArgs.length + 1) ∧
    (b.variadicArg.isSome = false → b.inputs = false → nargs = b.normalArgs.length) := by
  unfold goFnArityErr at h
  refine ⟨fun hv => ?_, fun hv hin => ?_, fun hv hin => ?_⟩
  · simp [hv] at h; omega
  · simp [hv, hin] at h; omega
  · simp [hv, hin] at h; omega

theorem goFnCall_no_panic (b : GoFn) (args : List Arg) (nopts : Nat) (bad : Bool) :
    ∃ r, goFnCall b args nopts bad = .ok r := by
  unfold goFnCall
  simp only
  split
  · exact ⟨_, rfl⟩
  · rename_i harity
    obtain ⟨hA, hB, hC⟩ := goFnArityErr_none harity
    split
    · exact ⟨_, rfl⟩
    · split
      · exact ⟨_, rfl⟩
      · -- the loop
        have hloop : (b.variadicArg.isSome = true ∨ b.inputs = true ∨
            0 + args.length ≤ b.normalArgs.length) := by
          cases hv : b.variadicArg.isSome with
          | true => exact Or.inl rfl
          | false =>
            cases hin : b.inputs with
            | true => exact Or.inr (Or.inl rfl)
            | false =>
              right; right
              have := hC hv hin
              omega
        obtain ⟨r, hr⟩ := argLoop_no_panic b args 0 _ hloop
        rw [hr]
        cases r with
        | error e => exact ⟨_, rfl⟩
        | ok in2 =>
          simp only
          split
          · rename_i hin
            split
            · exact ⟨_, rfl⟩
            · rename_i hne
              -- args is not empty here
              have hpos : 0 < args.length := by
                cases hv : b.variadicArg.isSome with
                | true => have := hA hv; omega
                | false => have := hB hv hin; omega
              have : ((args.length : Int) - 1) = ((args.length - 1 : Nat) : Int) := by omega
              rw [this, index_ok_of_lt _ _ (by omega)]
              simp only
              split <;> exact ⟨_, rfl⟩
          · exact ⟨_, rfl⟩

/-! ### the loop, structurally -/

/-- `argLoop` with the remaining parameter types made explicit. -/
def argLoopS (v : Option PTy) (inp : Bool) : List PTy → Nat → List Arg → List InVal → CallRes
  | _, _, [], acc => .ok (.ok acc)
  | t :: ts, i, a :: rest, acc =>
    if a.scans t then argLoopS v inp ts (i + 1) rest (acc ++ [.scanned t a.id])
    else .ok (.error (.wrongArgType i))
  | [], i, a :: rest, acc =>
    match v with
    | some t =>
      if a.scans t then argLoopS v inp [] (i + 1) rest (acc ++ [.scanned t a.id])
      else .ok (.error (.wrongArgType i))
    | none => if inp then .ok (.ok acc) else .panic "impossible"

theorem argLoop_eq_S (b : GoFn) : ∀ (args : List Arg) (i : Nat) (acc : List InVal),
    argLoop b i args acc = argLoopS b.variadicArg b.inputs (b.normalArgs.drop i) i args acc
  | [], i, acc => by
    unfold argLoop
    cases h : b.normalArgs.drop i <;> simp [argLoopS]
  | a :: rest, i, acc => by
    unfold argLoop
    by_cases hi : i < b.normalArgs.length
    · rw [List.drop_eq_getElem_cons hi]
      simp only [hi, if_true, index_ok_of_lt _ _ hi, argLoopS]
      split
      · exact argLoop_eq_S b rest (i + 1) _
      · rfl
    · have hd : b.normalArgs.drop i = [] := List.drop_eq_nil_of_le (by omega)
      have hd' : b.normalArgs.drop (i + 1) = [] := List.drop_eq_nil_of_le (by omega)
      simp only [hi, if_false, hd, argLoopS]
      cases hv : b.variadicArg with
      | some typ =>
        simp only
        split
        · rw [argLoop_eq_S b rest (i + 1) _, hd', hv]
        · rfl
      | none => rfl

/-! ### `callOK` peeling -/

theorem callOK_cons_false (p : PTy) (sig : List PTy) (x : InVal) (xs : List InVal) :
    callOK false (p :: sig) (x :: xs) = (assignable x p && callOK false sig xs) := by
  cases sig with
  | nil =>
    cases xs with
    | nil => simp [callOK]
    | cons y ys => simp [callOK]
  | cons q ps => simp [callOK]

theorem callOK_cons_true (p : PTy) (sig : List PTy) (hs : sig ≠ []) (x : InVal) (xs : List InVal) :
    callOK true (p :: sig) (x :: xs) = (assignable x p && callOK true sig xs) := by
  cases sig with
  | nil => exact absurd rfl hs
  | cons q ps => simp [callOK]

theorem assignable_scanned (t : PTy) (a : Nat) : assignable (.scanned t a) t = true := by
  simp [assignable]

/-- variadic: after the fixed parameters, every further argument has the element type. -/
theorem argLoopS_variadic_tail (e : PTy) (inp : Bool) : ∀ (args : List Arg) (i : Nat) (acc ins : List InVal),
    argLoopS (some e) inp [] i args acc = .ok (.ok ins) →
    ∃ sc, ins = acc ++ sc ∧ sc.all (assignable · e) = true
  | [], i, acc, ins, h => by
    simp only [argLoopS, Res.ok.injEq, Except.ok.injEq] at h
    exact ⟨[], by simp [h], rfl⟩
  | a :: rest, i, acc, ins, h => by
    simp only [argLoopS] at h
    split at h
    · obtain ⟨sc, h1, h2⟩ := argLoopS_variadic_tail e inp rest (i + 1) _ ins h
      exact ⟨.scanned e a.id :: sc, by simp [h1], by simp [h2, assignable_scanned]⟩
    · simp at h

theorem argLoopS_variadic (e : PTy) (inp : Bool) : ∀ (ts : List PTy) (args : List Arg) (i : Nat) (acc ins : List InVal),
    ts.length ≤ args.length →
    argLoopS (some e) inp ts i args acc = .ok (.ok ins) →
    ∃ sc, ins = acc ++ sc ∧ callOK true (ts ++ [.slice e]) sc = true
  | [], args, i, acc, ins, _, h => by
    obtain ⟨sc, h1, h2⟩ := argLoopS_variadic_tail e inp args i acc ins h
    exact ⟨sc, h1, by simpa [callOK] using h2⟩
  | t :: ts, [], i, acc, ins, hl, _ => by simp at hl
  | t :: ts, a :: rest, i, acc, ins, hl, h => by
    simp only [argLoopS] at h
    split at h
    · obtain ⟨sc, h1, h2⟩ := argLoopS_variadic e inp ts rest (i + 1) _ ins
        (by simp only [List.length_cons] at hl; omega) h
      refine ⟨.scanned t a.id :: sc, by simp [h1], ?_⟩
      rw [List.cons_append, callOK_cons_true _ _ (by simp), assignable_scanned, h2]
      rfl
    · simp at h

theorem argLoopS_fixed : ∀ (ts : List PTy) (args : List Arg) (i : Nat) (acc ins : List InVal),
    ts.length = args.length →
    argLoopS none false ts i args acc = .ok (.ok ins) →
    ∃ sc, ins = acc ++ sc ∧ callOK false ts sc = true
  | [], [], i, acc, ins, _, h => by
    simp only [argLoopS, Res.ok.injEq, Except.ok.injEq] at h
    exact ⟨[], by simp [h], by simp [callOK]⟩
  | [], _ :: _, i, acc, ins, hl, _ => by simp at hl
  | _ :: _, [], i, acc, ins, hl, _ => by simp at hl
  | t :: ts, a :: rest, i, acc, ins, hl, h => by
    simp only [argLoopS] at h
    split at h
    · obtain ⟨sc, h1, h2⟩ := argLoopS_fixed ts rest (i + 1) _ ins
        (by simp only [List.length_cons] at hl; omega) h
      refine ⟨.scanned t a.id :: sc, by simp [h1], ?_⟩
      rw [callOK_cons_false, assignable_scanned, h2]
      rfl
    · simp at h

theorem argLoopS_inputs : ∀ (ts : List PTy) (args : List Arg) (i : Nat) (acc ins : List InVal),
    (args.length = ts.length ∨ args.length = ts.length + 1) →
    argLoopS none true ts i args acc = .ok (.ok ins) →
    ∃ sc, ins = acc ++ sc ∧ ∀ x, assignable x .inputs = true → callOK false (ts ++ [.inputs]) (sc ++ [x]) = true
  | [], [], i, acc, ins, _, h => by
    simp only [argLoopS, Res.ok.injEq, Except.ok.injEq] at h
    exact ⟨[], by simp [h], fun x hx => by simp [callOK, hx]⟩
  | [], a :: rest, i, acc, ins, _, h => by
    simp only [argLoopS, if_true, Res.ok.injEq, Except.ok.injEq] at h
    exact ⟨[], by simp [h], fun x hx => by simp [callOK, hx]⟩
  | t :: ts, [], i, acc, ins, hl, _ => by
    simp only [List.length_nil, List.length_cons] at hl; omega
  | t :: ts, a :: rest, i, acc, ins, hl, h => by
    simp only [argLoopS] at h
    split at h
    · obtain ⟨sc, h1, h2⟩ := argLoopS_inputs ts rest (i + 1) _ ins
        (by simp only [List.length_cons] at hl; omega) h
      refine ⟨.scanned t a.id :: sc, by simp [h1], fun x hx => ?_⟩
      rw [List.cons_append, List.cons_append, callOK_cons_false, assignable_scanned, h2 x hx]
      rfl
    · simp at h

/-! ### `NewGoFn` -/

/-- The parameter types consumed by the frame / options prefix. -/
def prefixTys (b : GoFn) : List PTy :=
  (if b.frame then [.frame] else []) ++ (if b.rawOptions then [.rawOptions] else []) ++
    (if b.options.isSome then [.options] else [])

theorem stripHead_spec (p : PTy) (s : List PTy) :
    s = (if (stripHead p s).1 then [p] else []) ++ (stripHead p s).2 := by
  cases s with
  | nil => simp [stripHead]
  | cons q r =>
    unfold stripHead
    by_cases h : q = p <;> simp [h]

theorem scanParams_spec (variadic : Bool) : ∀ (rest ns : List PTy) (v : Option PTy) (inp : Bool),
    scanParams variadic rest = .ok (ns, v, inp) →
    (variadic = false → v = none ∧ ((inp = true ∧ rest = ns ++ [.inputs]) ∨ (inp = false ∧ rest = ns))) ∧
    (variadic = true → inp = false ∧ ((rest = [] ∧ ns = [] ∧ v = none) ∨ ∃ e, v = some e ∧ rest = ns ++ [.slice e]))
  | [], ns, v, inp, h => by
    simp only [scanParams, Res.ok.injEq, Prod.mk.injEq] at h
    obtain ⟨rfl, rfl, rfl⟩ := h
    simp
  | [p], ns, v, inp, h => by
    cases variadic with
    | true =>
      cases p <;> simp [scanParams, elemOf, bind, Res.bind] at h
      obtain ⟨rfl, rfl, rfl⟩ := h
      simp
    | false =>
      by_cases hp : p = .inputs
      · simp [scanParams, hp] at h
        obtain ⟨rfl, rfl, rfl⟩ := h
        simp [hp]
      · simp [scanParams, hp] at h
        obtain ⟨rfl, rfl, rfl⟩ := h
        simp
  | p :: q :: rest, ns, v, inp, h => by
    simp only [scanParams, bind, Res.bind] at h
    cases hr : scanParams variadic (q :: rest) with
    | ok r =>
      obtain ⟨ns', v', inp'⟩ := r
      rw [hr] at h
      simp only [Res.ok.injEq, Prod.mk.injEq] at h
      obtain ⟨rfl, rfl, rfl⟩ := h
      obtain ⟨h1, h2⟩ := scanParams_spec variadic (q :: rest) ns' v' inp' hr
      refine ⟨fun hv => ?_, fun hv => ?_⟩
      · obtain ⟨hv1, hv2⟩ := h1 hv
        refine ⟨hv1, ?_⟩
        rcases hv2 with ⟨hi, hq⟩ | ⟨hi, hq⟩
        · exact Or.inl ⟨hi, by rw [hq]; rfl⟩
        · exact Or.inr ⟨hi, by rw [hq]⟩
      · obtain ⟨hv1, hv2⟩ := h2 hv
        refine ⟨hv1, ?_⟩
        rcases hv2 with ⟨hq, _, _⟩ | ⟨e, he, hq⟩
        · simp at hq
        · exact Or.inr ⟨e, he, by rw [hq]; rfl⟩
    | exc e => rw [hr] at h; simp at h
    | panic w => rw [hr] at h; simp at h

theorem newGoFn_spec (sig : List PTy) (variadic : Bool) (b : GoFn) (h : newGoFn sig variadic = .ok b) :
    ∃ rest, sig = prefixTys b ++ rest ∧
      scanParams variadic rest = .ok (b.normalArgs, b.variadicArg, b.inputs) := by
  unfold newGoFn at h
  simp only at h
  split at h
  · simp at h
  · split at h
    · rename_i ns v i hsp
      simp only [Res.ok.injEq] at h
      subst h
      refine ⟨_, ?_, hsp⟩
      have e1 := stripHead_spec .frame sig
      have e2 := stripHead_spec .rawOptions (stripHead .frame sig).2
      have e3 := stripHead_spec .options (stripHead .rawOptions (stripHead .frame sig).2).2
      simp only [prefixTys]
      conv => lhs; rw [e1, e2, e3]
      cases (stripHead .options (stripHead .rawOptions (stripHead .frame sig).2).2).1 <;> simp
    · simp at h
    · simp at h

theorem callOK_prefix (v : Bool) (b : GoFn) (restSig : List PTy) (hne : restSig ≠ [] ∨ v = false)
    (sc : List InVal) :
    callOK v (prefixTys b ++ restSig) (prefixIns b ++ sc) = callOK v restSig sc := by
  have cons : ∀ (p : PTy) (x : InVal) (sig : List PTy) (xs : List InVal), sig ≠ [] ∨ v = false →
      assignable x p = true → callOK v (p :: sig) (x :: xs) = callOK v sig xs := by
    intro p x sig xs hs ha
    cases v with
    | false => rw [callOK_cons_false, ha]; rfl
    | true =>
      rcases hs with hs | hs
      · rw [callOK_cons_true _ _ hs, ha]; rfl
      · simp at hs
  unfold prefixTys prefixIns
  cases b.frame <;> cases b.rawOptions <;> cases b.options.isSome <;>
    simp only [if_true, if_false, List.nil_append, List.cons_append, List.append_nil, Bool.false_eq_true] <;>
    (repeat rw [cons _ _ _ _ (by first | exact Or.inl (List.cons_ne_nil _ _) | exact hne) (by simp [assignable])])

/-- The vector `goFn.Call` passes to `reflect.Value.Call` has the number and
the types of values the function's signature asks for. -/
theorem goFn_reflect_precondition (sig : List PTy) (variadic : Bool) (b : GoFn)
    (hwf : variadic = true → ∃ init e, sig = init ++ [.slice e])
    (hnew : newGoFn sig variadic = .ok b) (args : List Arg) (nopts : Nat) (bad : Bool)
    (ins : List InVal) (hcall : goFnCall b args nopts bad = .ok (.ok ins)) :
    callOK variadic sig ins = true := by
  obtain ⟨rest, hsig, hsp⟩ := newGoFn_spec sig variadic b hnew
  obtain ⟨hF, hT⟩ := scanParams_spec variadic rest _ _ _ hsp
  unfold goFnCall at hcall
  simp only at hcall
  split at hcall
  · simp at hcall
  · rename_i harity
    obtain ⟨hA, hB, hC⟩ := goFnArityErr_none harity
    split at hcall
    · simp at hcall
    · split at hcall
      · simp at hcall
      · rw [argLoop_eq_S, List.drop_zero] at hcall
        split at hcall
        · rename_i in2 hloop
          cases variadic with
          | true =>
            obtain ⟨hinp, hcases⟩ := hT rfl
            rcases hcases with ⟨hr, _, _⟩ | ⟨e, hv, hr⟩
            · -- impossible: a variadic function's last parameter is a slice
              exfalso
              obtain ⟨init, e, hs⟩ := hwf rfl
              rw [hr, List.append_nil] at hsig
              have hmem : PTy.slice e ∈ prefixTys b := by rw [← hsig, hs]; simp
              unfold prefixTys at hmem
              cases b.frame <;> cases b.rawOptions <;> cases b.options.isSome <;> simp at hmem
            · rw [hv, hinp] at hloop
              rw [hinp] at hcall
              simp only [Bool.false_eq_true, if_false, Res.ok.injEq, Except.ok.injEq] at hcall
              subst hcall
              have hlen : b.normalArgs.length ≤ args.length := by
                have := hA (by simp [hv]); omega
              obtain ⟨sc, h1, h2⟩ := argLoopS_variadic e false b.normalArgs args 0 _ _ hlen hloop
              rw [hsig, hr, h1, callOK_prefix _ _ _ (Or.inl (by simp))]
              exact h2
          | false =>
            obtain ⟨hv, hcases⟩ := hF rfl
            rcases hcases with ⟨hinp, hr⟩ | ⟨hinp, hr⟩
            · rw [hv, hinp] at hloop
              rw [hinp] at hcall
              simp only [if_true] at hcall
              have hlen := hB (by simp [hv]) hinp
              obtain ⟨sc, h1, h2⟩ := argLoopS_inputs b.normalArgs args 0 _ _ (by omega) hloop
              rw [hsig, hr]
              split at hcall
              · simp only [Res.ok.injEq, Except.ok.injEq] at hcall
                subst hcall
                rw [h1, List.append_assoc, callOK_prefix _ _ _ (Or.inr rfl)]
                exact h2 _ (by simp [assignable])
              · split at hcall
                · split at hcall
                  · simp only [Res.ok.injEq, Except.ok.injEq] at hcall
                    subst hcall
                    rw [h1, List.append_assoc, callOK_prefix _ _ _ (Or.inr rfl)]
                    exact h2 _ (by simp [assignable])
                  · simp at hcall
                · simp at hcall
                · simp at hcall
            · rw [hv, hinp] at hloop
              rw [hinp] at hcall
              simp only [Bool.false_eq_true, if_false, Res.ok.injEq, Except.ok.injEq] at hcall
              subst hcall
              have hlen := hC (by simp [hv]) hinp
              obtain ⟨sc, h1, h2⟩ := argLoopS_fixed b.normalArgs args 0 _ _ (by omega) hloop
              rw [hsig, hr, h1, callOK_prefix _ _ _ (Or.inr rfl)]
              exact h2
        · rename_i hnot
          -- the loop returned an exception or a panic: not `.ok (.ok ins)`
          cases hl : argLoopS b.variadicArg b.inputs b.normalArgs 0 args (prefixIns b) with
          | ok r =>
            cases r with
            | ok in2 => exact absurd hl (hnot in2)
            | error e => rw [hl] at hcall; simp at hcall
          | exc e => rw [hl] at hcall; simp at hcall
          | panic w => rw [hl] at hcall; simp at hcall

end C17
