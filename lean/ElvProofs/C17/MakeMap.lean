/-
Helper lemmas for `makeMap`'s pair handling (C17, strengthening after seeded
change C17-makemap-unchecked-pair-length).

`StepSpec`: what one call of the callback can do — keep the state (an error
is pending), record an error, or associate a pair whose `vals.Collect` result
has EXACTLY two entries.  No hypothesis relates `ops.len` to `ops.collect`.
-/
import ElvModel.C17.MakeMap
namespace C17
open Go

theorem assocPair_two {V} (acc : List (V × V)) (k x : V) :
    assocPair acc [k, x] = .ok (acc ++ [(k, x)], none) := by
  simp [assocPair, Go.index, Res.bind]

/-- a list of length two is `[k, x]` -/
theorem length_two {V} (l : List V) (h : l.length = 2) : ∃ k x, l = [k, x] := by
  match l, h with
  | [k, x], _ => exact ⟨k, x, rfl⟩

/-- One call of the guarded callback. -/
inductive StepSpec {V} (ops : IterOps V) (st : MMState V) (v : V) : Res (MMState V) → Prop
  | pending (e : String) (h : st.2 = some e) : StepSpec ops st v (.ok st)
  | error (e : String) (h : st.2 = none) : StepSpec ops st v (.ok (st.1, some e))
  | pair (k x : V) (h : st.2 = none) (hc : ops.collect v = .ok [k, x]) :
      StepSpec ops st v (.ok (st.1 ++ [(k, x)], none))

theorem makeMapStep_spec {V} (ops : IterOps V) (st : MMState V) (v : V) :
    StepSpec ops st v (makeMapStep ops true st v) := by
  unfold makeMapStep
  cases hst : st.2 with
  | some e => simpa using StepSpec.pending e hst
  | none =>
    simp only [Option.isSome_none, Bool.false_eq_true, if_false]
    split
    · exact .error _ hst
    · split
      · exact .error _ hst
      · split
        · exact .error _ hst
        · rename_i elems hc
          split
          · exact .error _ hst
          · rename_i hl
            have hl2 : elems.length = 2 := by
              apply Classical.byContradiction
              intro hne
              exact hl ⟨trivial, hne⟩
            obtain ⟨k, x, rfl⟩ := length_two elems hl2
            rw [assocPair_two]
            exact .pair k x hst hc

/-- The loop from a state with a pending error keeps it. -/
theorem makeMapLoop_pending {V} (ops : IterOps V) (vs : List V) (acc : List (V × V)) (e : String) :
    makeMapLoop ops true vs (acc, some e) = .ok (acc, some e) := by
  induction vs with
  | nil => rfl
  | cons v vs ih =>
    simp only [makeMapLoop, makeMapStep, Option.isSome_some, if_true, Res.bind]
    exact ih

/-- The loop from an error-free state: either it ends with an error, or every
input collected to exactly two entries and these are the pairs appended, in
order. -/
theorem makeMapLoop_spec {V} (ops : IterOps V) (vs : List V) (acc : List (V × V)) :
    (∃ acc' e, makeMapLoop ops true vs (acc, none) = .ok (acc', some e)) ∨
    (∃ ps, makeMapLoop ops true vs (acc, none) = .ok (acc ++ ps, none) ∧
      vs.map ops.collect = ps.map (fun p => .ok [p.1, p.2])) := by
  induction vs generalizing acc with
  | nil => exact .inr ⟨[], by simp [makeMapLoop], rfl⟩
  | cons v vs ih =>
    have hs := makeMapStep_spec ops (acc, none) v
    simp only [makeMapLoop]
    generalize makeMapStep ops true (acc, none) v = r at hs
    cases hs with
    | pending e h => simp at h
    | error e h =>
      left
      exact ⟨acc, e, by simp only [Res.bind]; exact makeMapLoop_pending ops vs acc e⟩
    | pair k x h hc =>
      simp only [Res.bind]
      rcases ih (acc ++ [(k, x)]) with ⟨acc', e, he⟩ | ⟨ps, hp, hf⟩
      · exact .inl ⟨acc', e, he⟩
      · right
        refine ⟨(k, x) :: ps, ?_, by simp [hc, hf]⟩
        rw [hp]; simp

end C17
