/-
Helper lemmas for the `Closure.Call` part of C17: the slot arithmetic of the
call prologue never indexes out of range.
-/
import ElvModel.C17.Model
import ElvProofs.C17.GoFn
namespace C17
open Go

/-- Loop rule: an invariant kept by every iteration in range holds after the
loop, and the loop does not panic. -/
theorem forRange_ok {σ} (P : σ → Prop) (f : Int → σ → Res σ) : ∀ (n : Nat) (a : Int) (s : σ), P s →
    (∀ i s, a ≤ i → i < a + n → P s → ∃ s', f i s = .ok s' ∧ P s') →
    ∃ s', forRange f n a s = .ok s' ∧ P s'
  | 0, _, s, hP, _ => ⟨s, rfl, hP⟩
  | n + 1, a, s, hP, hstep => by
    obtain ⟨s1, h1, hP1⟩ := hstep a s (Int.le_refl _) (by omega) hP
    obtain ⟨s2, h2, hP2⟩ := forRange_ok P f n (a + 1) s1 hP1
      (fun i s hi1 hi2 hp => hstep i s (by omega) (by omega) hp)
    exact ⟨s2, by simp [forRange, bind, Res.bind, h1, h2], hP2⟩

theorem forLoop_ok {σ} (P : σ → Prop) (f : Int → σ → Res σ) (a b : Int) (s : σ) (hP : P s)
    (hstep : ∀ i s, a ≤ i → i < b → P s → ∃ s', f i s = .ok s' ∧ P s') :
    ∃ s', forLoop a b f s = .ok s' ∧ P s' := by
  unfold forLoop
  exact forRange_ok P f _ a s hP (fun i s h1 h2 hp => hstep i s h1 (by omega) hp)

theorem setIdx_ok {α} (s : List α) (i : Int) (v : α) (h0 : 0 ≤ i) (h1 : i < s.length) :
    ∃ s', setIdx s i v = .ok s' ∧ s'.length = s.length := by
  unfold setIdx
  exact ⟨s.set i.toNat v, by simp [h0, h1], by simp⟩

theorem index_ok_int {α} (l : List α) (i : Int) (h0 : 0 ≤ i) (h1 : i < l.length) :
    ∃ a, index l i = .ok a := by
  have : i = ((i.toNat : Nat) : Int) := by omega
  rw [this]
  exact ⟨_, index_ok_of_lt l i.toNat (by omega)⟩

theorem slice_ok {α} (l : List α) (i j : Int) (h0 : 0 ≤ i) (h1 : i ≤ j) (h2 : j ≤ l.length) :
    ∃ r, slice l i j = .ok r := by
  unfold slice
  exact ⟨(l.drop i.toNat).take (j.toNat - i.toNat), by simp [h0, h1, h2]⟩

/-- A step `a := args[g i]; slots[i] = val a` succeeds when both indices are in range. -/
theorem bindStep_ok (args : List Nat) (s : List Slot) (i j : Int) (N : Nat)
    (hl : s.length = N) (hi0 : 0 ≤ i) (hi1 : i < N) (hj0 : 0 ≤ j) (hj1 : j < args.length) :
    ∃ s', (do let a ← index args j; setIdx s i (.val a)) = Res.ok s' ∧ s'.length = N := by
  obtain ⟨a, ha⟩ := index_ok_int args j hj0 hj1
  obtain ⟨s', hs, hl'⟩ := setIdx_ok s i (.val a) hi0 (by omega)
  exact ⟨s', by simp [bind, Res.bind, ha, hs], by omega⟩

theorem closArityErr_none {c : Closure} {nargs : Int} (h : closArityErr c nargs = none) :
    (c.restArg ≠ -1 → (c.nArgs : Int) - 1 ≤ nargs) ∧ (c.restArg = -1 → nargs = c.nArgs) := by
  unfold closArityErr at h
  refine ⟨fun hr => ?_, fun hr => ?_⟩
  · simp [hr] at h; omega
  · simp [hr] at h; omega

theorem bindArgs_ok (c : Closure) (args : List Nat) (s0 : List Slot) (N : Nat)
    (hN : s0.length = N) (hsize : c.nArgs ≤ N)
    (hrest : -1 ≤ c.restArg ∧ c.restArg < c.nArgs)
    (harity : closArityErr c args.length = none) :
    ∃ s, bindArgs c args s0 = .ok s ∧ s.length = N := by
  obtain ⟨hA, hB⟩ := closArityErr_none harity
  unfold bindArgs
  simp only
  by_cases hr : c.restArg = -1
  · simp only [hr, if_true]
    have hlen := hB hr
    exact forLoop_ok (fun s => s.length = N) _ 0 c.nArgs s0 hN (fun i s h0 h1 hl =>
      bindStep_ok args s i i N hl h0 (by omega) h0 (by omega))
  · simp only [hr, if_false]
    have hlen := hA hr
    have hr0 : 0 ≤ c.restArg := by omega
    obtain ⟨s1, h1, hl1⟩ := forLoop_ok (fun s => s.length = N)
      (fun i s => do let a ← index args i; setIdx s i (.val a)) 0 c.restArg s0 hN (fun i s h0 h1 hl =>
      bindStep_ok args s i i N hl h0 (by omega) h0 (by omega))
    obtain ⟨rest, hrs⟩ := slice_ok args c.restArg (c.restArg + ((args.length : Int) - c.nArgs) + 1)
      hr0 (by omega) (by omega)
    obtain ⟨s2, h2, hl2⟩ := setIdx_ok s1 c.restArg (.list rest) hr0 (by omega)
    obtain ⟨s3, h3, hl3⟩ := forLoop_ok (fun s => s.length = N)
      (fun i s => do let a ← index args (i + ((args.length : Int) - c.nArgs)); setIdx s i (.val a))
      (c.restArg + 1) c.nArgs s2 (by omega) (fun i s h0 h1 hl =>
      bindStep_ok args s i (i + ((args.length : Int) - c.nArgs)) N hl (by omega) (by omega) (by omega) (by omega))
    refine ⟨s3, ?_, hl3⟩
    simp only [bind, Res.bind] at h1 h3 ⊢
    simp only [h1, hrs, h2, h3]

theorem bindOpts_ok (c : Closure) (opts : List (Nat × Nat)) (s0 : List Slot) (N : Nat)
    (hN : s0.length = N) (hsize : c.nArgs + c.optNames.length ≤ N)
    (hdef : c.optDefaults.length = c.optNames.length) :
    ∃ s, bindOpts c opts s0 = .ok s ∧ s.length = N := by
  unfold bindOpts
  refine forLoop_ok (fun s => s.length = N) _ 0 c.optNames.length s0 hN (fun i s h0 h1 hl => ?_)
  obtain ⟨name, hname⟩ := index_ok_int c.optNames i h0 h1
  simp only [bind, Res.bind, hname]
  cases lookupOpt opts name with
  | some v =>
    obtain ⟨s', hs, hl'⟩ := setIdx_ok s ((c.nArgs : Int) + i) (.val v) (by omega) (by omega)
    exact ⟨s', by simp only [pure, hs], by omega⟩
  | none =>
    obtain ⟨v, hv⟩ := index_ok_int c.optDefaults i h0 (by omega)
    obtain ⟨s', hs, hl'⟩ := setIdx_ok s ((c.nArgs : Int) + i) (.val v) (by omega) (by omega)
    exact ⟨s', by simp only [hv, hs], by omega⟩

theorem bindNew_ok (c : Closure) (s0 : List Slot) (N : Nat)
    (hN : s0.length = N) (hsize : c.nArgs + c.optNames.length + c.nNew ≤ N) :
    ∃ s, bindNew c s0 = .ok s ∧ s.length = N := by
  unfold bindNew
  refine forLoop_ok (fun s => s.length = N) _ 0 c.nNew s0 hN (fun i s h0 h1 hl => ?_)
  obtain ⟨s', hs, hl'⟩ := setIdx_ok s ((c.nArgs : Int) + c.optNames.length + i) (.fresh i.toNat)
    (by omega) (by omega)
  exact ⟨s', hs, by omega⟩

/-- `Closure.Call`'s prologue never panics on a closure the compiler can
produce (`-1 ≤ RestArg < len(ArgNames)`, one default per option), and the
namespace it builds has exactly `len(ArgNames)+len(OptNames)+len(newLocal)` slots. -/
theorem closureCall_no_panic (c : Closure) (args : List Nat) (opts : List (Nat × Nat))
    (hrest : -1 ≤ c.restArg ∧ c.restArg < c.nArgs)
    (hdef : c.optDefaults.length = c.optNames.length) :
    ∃ r, closureCall c args opts = .ok r ∧
      ∀ slots, r = .ok slots → slots.length = c.nArgs + c.optNames.length + c.nNew := by
  unfold closureCall
  split
  · exact ⟨_, rfl, fun _ h => by simp at h⟩
  · rename_i harity
    simp only
    split
    · exact ⟨_, rfl, fun _ h => by simp at h⟩
    · obtain ⟨u, hu, _⟩ := forLoop_ok (fun (u : List Unit) => u.length = c.nArgs + c.optNames.length + c.nNew)
        (fun i (u : List Unit) => setIdx u i ()) 0 c.nArgs (List.replicate (c.nArgs + c.optNames.length + c.nNew) ())
        (by simp) (fun i s h0 h1 hl => by
          obtain ⟨s', hs, hl'⟩ := setIdx_ok s i () h0 (by omega)
          exact ⟨s', hs, by omega⟩)
      obtain ⟨s1, h1, hl1⟩ := bindArgs_ok c args (List.replicate (c.nArgs + c.optNames.length + c.nNew) .unset)
        (c.nArgs + c.optNames.length + c.nNew) (by simp) (by omega) hrest harity
      obtain ⟨s2, h2, hl2⟩ := bindOpts_ok c opts s1 _ hl1 (by omega) hdef
      obtain ⟨s3, h3, hl3⟩ := bindNew_ok c s2 _ hl2 (by omega)
      refine ⟨.ok s3, by simp [bind, Res.bind, hu, h1, h2, h3], fun slots h => ?_⟩
      simp only [Except.ok.injEq] at h
      rw [← h]; exact hl3

end C17
