/-
Helper lemmas for the `doc:find` part of C17 (round 2), part 1:
`sortAndMergeMatches` returns ordered, non-overlapping ranges inside the text.
-/
import ElvModel.C17.DocMatch
import ElvProofs.C17.Closure
namespace C17
open Go

/-! ### lists indexed by Go ints -/

/-- `l[i]` as an option, for a Go `int` index. -/
def getI {α} (l : List α) (i : Int) : Option α := if 0 ≤ i then l[i.toNat]? else none

theorem getI_bounds {α} {l : List α} {i : Int} {a : α} (h : getI l i = some a) : 0 ≤ i ∧ i < l.length := by
  unfold getI at h
  split at h
  · obtain ⟨hlt, _⟩ := List.getElem?_eq_some_iff.mp h
    omega
  · simp at h

theorem getI_exists {α} (l : List α) (i : Int) (h0 : 0 ≤ i) (h1 : i < l.length) : ∃ a, getI l i = some a := by
  have hlt : i.toNat < l.length := by omega
  exact ⟨l[i.toNat], by simp [getI, h0, hlt]⟩

theorem getI_mem {α} {l : List α} {i : Int} {a : α} (h : getI l i = some a) : a ∈ l := by
  unfold getI at h
  split at h
  · exact List.mem_of_getElem? h
  · simp at h

theorem index_of_getI {α} {l : List α} {i : Int} {a : α} (h : getI l i = some a) : index l i = .ok a := by
  unfold getI at h
  unfold index
  split at h
  · rename_i h0
    simp [h0, h]
  · simp at h

theorem getI_setIdx {α} {l l' : List α} {i : Int} {v : α} (h : setIdx l i v = .ok l') (k : Int) :
    getI l' k = if k = i then some v else getI l k := by
  unfold setIdx at h
  split at h
  · rename_i hb
    simp only [Res.ok.injEq] at h
    subst h
    by_cases hk : k = i
    · subst hk
      have hlt : k.toNat < l.length := by omega
      simp [getI, hb.1, hlt]
    · simp only [hk, if_false]
      unfold getI
      by_cases h0 : 0 ≤ k
      · simp only [h0, if_true]
        have : i.toNat ≠ k.toNat := by omega
        simp [List.getElem?_set_ne this]
      · simp [h0]
  · simp at h

theorem getI_cons_zero {α} (x : α) (l : List α) : getI (x :: l) 0 = some x := by simp [getI]

theorem getI_cons_succ {α} (x : α) (l : List α) (k : Int) (hk : 0 ≤ k) : getI (x :: l) (k + 1) = getI l k := by
  unfold getI
  have h1 : 0 ≤ k + 1 := by omega
  have h2 : (k + 1).toNat = k.toNat + 1 := by omega
  simp [hk, h1, h2]

theorem getI_take {α} (l : List α) (n : Nat) (k : Int) :
    getI (l.take n) k = if k < n then getI l k else none := by
  unfold getI
  by_cases h0 : 0 ≤ k
  · simp only [h0, if_true]
    by_cases hk : k < n
    · have : k.toNat < n := by omega
      simp [hk, this]
    · have : ¬ k.toNat < n := by omega
      simp [hk, List.getElem?_take, this]
  · simp [h0]

/-- Loop rule with an invariant that depends on the loop variable. -/
theorem forRange_ok_idx {σ} (P : Int → σ → Prop) (f : Int → σ → Res σ) : ∀ (n : Nat) (a : Int) (s : σ), P a s →
    (∀ i s, a ≤ i → i < a + n → P i s → ∃ s', f i s = .ok s' ∧ P (i + 1) s') →
    ∃ s', forRange f n a s = .ok s' ∧ P (a + n) s'
  | 0, a, s, hP, _ => ⟨s, rfl, by simpa using hP⟩
  | n + 1, a, s, hP, hstep => by
    obtain ⟨s1, h1, hP1⟩ := hstep a s (Int.le_refl _) (by omega) hP
    obtain ⟨s2, h2, hP2⟩ := forRange_ok_idx P f n (a + 1) s1 hP1
      (fun i s hi1 hi2 hp => hstep i s (by omega) (by omega) hp)
    refine ⟨s2, by simp [forRange, bind, Res.bind, h1, h2], ?_⟩
    have : a + 1 + (n : Int) = a + ((n + 1 : Nat) : Int) := by omega
    rw [← this]; exact hP2

/-! ### the merge loop -/

/-- Invariant of `for j := 1; j < len(rs); j++` in `sortAndMergeMatches`. -/
structure MInv (n : Int) (orig : List Ranging) (j : Int) (st : List Ranging × Int) : Prop where
  len : st.1.length = orig.length
  ib : 0 ≤ st.2 ∧ st.2 < j
  /-- nothing at or after `j-1` has been overwritten with a different value -/
  tail : ∀ k, j - 1 ≤ k → getI st.1 k = getI orig k
  valid : ∀ k r, k ≤ st.2 → getI st.1 k = some r → r.Valid n
  /-- the merged ranges are strictly separated -/
  adj : ∀ k a b, k + 1 ≤ st.2 → getI st.1 k = some a → getI st.1 (k + 1) = some b → a.to < b.from_
  /-- the current merged range ends where the last raw match ends (this is what
  makes the test against `rs[j-1].To` a test against the merged range) -/
  last : ∀ ri rp, getI st.1 st.2 = some ri → getI orig (j - 1) = some rp → ri.to = rp.to ∧ ri.from_ ≤ rp.from_

theorem mergeStep_inv (n : Int) (orig : List Ranging)
    (hvalid : ∀ k r, getI orig k = some r → r.Valid n)
    (hsorted : ∀ k a b, getI orig k = some a → getI orig (k + 1) = some b → a.from_ ≤ b.from_)
    (j : Int) (st : List Ranging × Int) (hj1 : 1 ≤ j) (hj : j < orig.length) (h : MInv n orig j st) :
    ∃ st', mergeStep j st = .ok st' ∧ MInv n orig (j + 1) st' := by
  obtain ⟨rs, i⟩ := st
  obtain ⟨hlen, ⟨hi0, hij⟩, htail, hval, hadj, hlast⟩ := h
  simp only at hlen hi0 hij htail hval hadj hlast
  obtain ⟨oj, hoj⟩ := getI_exists orig j (by omega) hj
  obtain ⟨op, hop⟩ := getI_exists orig (j - 1) (by omega) (by omega)
  have hrj : getI rs j = some oj := by rw [htail j (by omega)]; exact hoj
  have hrp : getI rs (j - 1) = some op := by rw [htail (j - 1) (by omega)]; exact hop
  obtain ⟨ri, hri⟩ := getI_exists rs i hi0 (by omega)
  have hs : op.from_ ≤ oj.from_ := hsorted (j - 1) op oj hop (by rw [show j - 1 + 1 = j by omega]; exact hoj)
  obtain ⟨hl1, hl2⟩ := hlast ri op hri hop
  have hvj := hvalid j oj hoj
  have hvi := hval i ri (Int.le_refl _) hri
  unfold Ranging.Valid at hvj hvi
  unfold mergeStep
  simp only [index_of_getI hrj, index_of_getI hrp, bind, Res.bind]
  by_cases hc : oj.from_ > op.to
  · simp only [hc, if_true]
    obtain ⟨rs', hset, hl'⟩ := setIdx_ok rs (i + 1) oj (by omega) (by omega)
    have hg := getI_setIdx hset
    refine ⟨(rs', i + 1), by simp [hset], ?_⟩
    refine ⟨by simpa [hlen] using hl', ⟨by simp only; omega, by simp only; omega⟩, ?_, ?_, ?_, ?_⟩
    · intro k hk
      simp only at hk ⊢
      rw [hg k]
      by_cases hki : k = i + 1
      · have : k = j := by omega
        simp only [hki, if_true]
        rw [← hki, this]; exact hoj.symm
      · simp only [hki, if_false]
        exact htail k (by omega)
    · intro k r hk hr
      simp only at hk hr
      rw [hg k] at hr
      by_cases hki : k = i + 1
      · simp only [hki, if_true, Option.some.injEq] at hr
        subst hr; exact hvalid j oj hoj
      · simp only [hki, if_false] at hr
        exact hval k r (by omega) hr
    · intro k a b hk ha hb
      simp only at hk ha hb
      rw [hg k] at ha
      rw [hg (k + 1)] at hb
      have hk0 := (getI_bounds (by rw [hg k]; exact ha) : 0 ≤ k ∧ _).1
      by_cases hki : k = i
      · have h1 : ¬ k = i + 1 := by omega
        have h2 : k + 1 = i + 1 := by omega
        simp only [h1, if_false] at ha
        simp only [h2, if_true, Option.some.injEq] at hb
        subst hb
        rw [hki, hri] at ha
        simp only [Option.some.injEq] at ha
        subst ha
        omega
      · have h1 : ¬ k = i + 1 := by omega
        have h2 : ¬ k + 1 = i + 1 := by omega
        simp only [h1, if_false] at ha
        simp only [h2, if_false] at hb
        exact hadj k a b (by omega) ha hb
    · intro ri' rp' h1 h2
      simp only at h1 h2
      rw [hg (i + 1)] at h1
      simp only [if_true, Option.some.injEq] at h1
      rw [show j + 1 - 1 = j by omega, hoj] at h2
      simp only [Option.some.injEq] at h2
      subst h1; subst h2
      exact ⟨rfl, Int.le_refl _⟩
  · simp only [hc, if_false, index_of_getI hri]
    obtain ⟨rs', hset, hl'⟩ := setIdx_ok rs i { ri with to := oj.to } hi0 (by omega)
    have hg := getI_setIdx hset
    refine ⟨(rs', i), by simp [hset], ?_⟩
    refine ⟨by simpa [hlen] using hl', ⟨by simp only; omega, by simp only; omega⟩, ?_, ?_, ?_, ?_⟩
    · intro k hk
      simp only at hk ⊢
      rw [hg k]
      have hki : ¬ k = i := by omega
      simp only [hki, if_false]
      exact htail k (by omega)
    · intro k r hk hr
      simp only at hk hr
      rw [hg k] at hr
      by_cases hki : k = i
      · simp only [hki, if_true, Option.some.injEq] at hr
        subst hr
        unfold Ranging.Valid
        simp only
        omega
      · simp only [hki, if_false] at hr
        exact hval k r (by omega) hr
    · intro k a b hk ha hb
      simp only at hk ha hb
      rw [hg k] at ha
      rw [hg (k + 1)] at hb
      have h1 : ¬ k = i := by omega
      simp only [h1, if_false] at ha
      by_cases hki : k + 1 = i
      · simp only [hki, if_true, Option.some.injEq] at hb
        subst hb
        simp only
        exact hadj k a ri (by omega) ha (by rw [hki]; exact hri)
      · simp only [hki, if_false] at hb
        exact hadj k a b (by omega) ha hb
    · intro ri' rp' h1 h2
      simp only at h1 h2
      rw [hg i] at h1
      simp only [if_true, Option.some.injEq] at h1
      rw [show j + 1 - 1 = j by omega, hoj] at h2
      simp only [Option.some.injEq] at h2
      subst h1; subst h2
      exact ⟨rfl, by show ri.from_ ≤ oj.from_; omega⟩

/-- Index-wise separation gives `Sep`. -/
theorem sep_of_getI (n : Int) : ∀ (l : List Ranging) (lo : Int),
    (∀ k r, getI l k = some r → r.Valid n) →
    (∀ k a b, getI l k = some a → getI l (k + 1) = some b → a.to < b.from_) →
    (∀ r, getI l 0 = some r → lo ≤ r.from_) → Sep n lo l
  | [], _, _, _, _ => trivial
  | x :: l, lo, hv, ha, h0 => by
    have hx := hv 0 x (getI_cons_zero x l)
    unfold Ranging.Valid at hx
    refine ⟨h0 x (getI_cons_zero x l), hx.2.1, hx.2.2, ?_⟩
    refine sep_of_getI n l (x.to + 1) (fun k r hr => ?_) (fun k a b h1 h2 => ?_) (fun r hr => ?_)
    · have hk := (getI_bounds hr).1
      exact hv (k + 1) r (by rw [getI_cons_succ x l k hk]; exact hr)
    · have hk := (getI_bounds h1).1
      exact ha (k + 1) a b (by rw [getI_cons_succ x l k hk]; exact h1)
        (by rw [getI_cons_succ x l (k + 1) (by omega)]; exact h2)
    · have := ha 0 x r (getI_cons_zero x l) (by rw [show (0 : Int) + 1 = 0 + 1 from rfl, getI_cons_succ x l 0 (Int.le_refl _)]; exact hr)
      omega

theorem getI_of_getElem {α} (l : List α) (k : Nat) (h : k < l.length) : getI l (k : Int) = some l[k] := by
  simp [getI, h]

/-- The merge loop on a non-empty slice sorted by `From` whose ranges lie in a
text of `n` bytes: no panic, and the result is ordered and non-overlapping. -/
theorem mergeSorted_ok (n : Int) (sorted : List Ranging) (hne : sorted ≠ [])
    (hvalid : ∀ r ∈ sorted, r.Valid n) (hsorted : sorted.Pairwise fun a b => a.from_ ≤ b.from_) :
    ∃ out, mergeSorted sorted = .ok out ∧ Sep n 0 out ∧ out ≠ [] ∧ out.length ≤ sorted.length := by
  have hlen : 1 ≤ sorted.length := by
    cases sorted with
    | nil => exact absurd rfl hne
    | cons a t => simp
  have hv : ∀ k r, getI sorted k = some r → r.Valid n := fun k r h => hvalid r (getI_mem h)
  have hs : ∀ k a b, getI sorted k = some a → getI sorted (k + 1) = some b → a.from_ ≤ b.from_ := by
    intro k a b h1 h2
    obtain ⟨hk0, hk1⟩ := getI_bounds h1
    obtain ⟨_, hk2⟩ := getI_bounds h2
    have e1 : k = ((k.toNat : Nat) : Int) := by omega
    have e2 : k + 1 = (((k.toNat + 1 : Nat)) : Int) := by omega
    rw [e1, getI_of_getElem sorted k.toNat (by omega)] at h1
    rw [e2, getI_of_getElem sorted (k.toNat + 1) (by omega)] at h2
    simp only [Option.some.injEq] at h1 h2
    subst h1; subst h2
    exact (List.pairwise_iff_getElem.mp hsorted) k.toNat (k.toNat + 1) (by omega) (by omega) (by omega)
  obtain ⟨o0, ho0⟩ := getI_exists sorted 0 (Int.le_refl _) (by omega)
  have hinit : MInv n sorted 1 (sorted, 0) := by
    refine ⟨rfl, ⟨Int.le_refl _, by simp⟩, fun k _ => rfl, ?_, ?_, ?_⟩
    · intro k r _ hr; exact hv k r hr
    · intro k a b hk ha _
      have := (getI_bounds ha).1
      simp only at hk
      omega
    · intro ri rp h1 h2
      simp only at h1 h2
      rw [show (1 : Int) - 1 = 0 by decide] at h2
      rw [h1] at h2
      simp only [Option.some.injEq] at h2
      subst h2
      exact ⟨rfl, Int.le_refl _⟩
  unfold mergeSorted forLoop
  obtain ⟨st, hloop, hinv⟩ := forRange_ok_idx (MInv n sorted) mergeStep ((sorted.length : Int) - 1).toNat 1 (sorted, 0) hinit
    (fun j st h1 h2 hI => mergeStep_inv n sorted hv hs j st h1 (by omega) hI)
  have hend : (1 : Int) + (((sorted.length : Int) - 1).toNat : Int) = sorted.length := by omega
  rw [hend] at hinv
  obtain ⟨rs, i⟩ := st
  obtain ⟨hl, ⟨hi0, hij⟩, _, hval, hadj, _⟩ := hinv
  simp only at hl hi0 hij hval hadj
  simp only [bind, Res.bind, hloop]
  have hsl : slice rs 0 (i + 1) = .ok (rs.take (i + 1).toNat) := by
    unfold slice
    have : (0 : Int) ≤ 0 ∧ (0 : Int) ≤ i + 1 ∧ i + 1 ≤ (rs.length : Int) := ⟨Int.le_refl _, by omega, by omega⟩
    simp [this]
  refine ⟨rs.take (i + 1).toNat, hsl, ?_, ?_, ?_⟩
  · refine sep_of_getI n _ 0 (fun k r hr => ?_) (fun k a b h1 h2 => ?_) (fun r hr => ?_)
    · rw [getI_take] at hr
      split at hr
      · exact hval k r (by omega) hr
      · simp at hr
    · rw [getI_take] at h1 h2
      split at h1
      · split at h2
        · exact hadj k a b (by omega) h1 h2
        · simp at h2
      · simp at h1
    · rw [getI_take] at hr
      split at hr
      · exact (hval 0 r hi0 hr).1
      · simp at hr
  · intro he
    have : (rs.take (i + 1).toNat).length = 0 := by rw [he]; rfl
    rw [List.length_take] at this
    omega
  · rw [List.length_take]; omega

end C17
