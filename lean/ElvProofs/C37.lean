import ElvModel.C37.Model
open Go C37

theorem C37_no_panic (src : Bytes) (f t : Int) (h0 : 0 ≤ f) (h1 : f ≤ t) (h2 : t ≤ src.length) :
    ∃ d, getContextDetails src f t = .ok d := by
  unfold getContextDetails slice
  simp [bind, Res.bind, h0, h1, h2, Int.le_trans h0 h1, Int.le_trans h1 h2]
  exact ⟨_, rfl⟩
