import ElvModel.C37.Model
import ElvModel.C37.Spec
import ElvProofs.C37.Core
import ElvProofs.C37.SpecSound
open Go C37 C37.Spec

/-!
# C37 — error positions point at the right lines and columns

All theorems are about the executable model `C37.getContextDetails` (tied to
`diag.NewContext` by `./check C37`) and are stated against the independent
spec vocabulary of `ElvModel/C37/Spec.lean` (`newlines`, `lineStart`,
`lineEnd`, `adjTo`, `sub`), for EVERY source `src : Bytes` and every range
`0 ≤ f ≤ t ≤ |src|` — unbounded in the source length.  `f.toNat`/`t.toNat`
are just the offsets as naturals (`0 ≤ f`).
-/

/-- No slice expression of `getContextDetails` panics for an in-range range. -/
theorem C37_no_panic (src : Bytes) (f t : Int) (h0 : 0 ≤ f) (h1 : f ≤ t) (h2 : t ≤ src.length) :
    ∃ d, getContextDetails src f t = .ok d := by
  unfold getContextDetails slice
  simp [bind, Res.bind, h0, h1, h2, Int.le_trans h0 h1, Int.le_trans h1 h2]
  exact ⟨_, rfl⟩

example : getContextDetails [97, 10, 98] 1 3 ≠ .panic "slice bounds out of range" := by decide
/-- outside the precondition the slices do panic (so the hypotheses matter) -/
example : getContextDetails [97, 10, 98] 2 4 = .panic "slice bounds out of range" := by decide

/-! ## The spec vocabulary means what it says -/

/-- `lineStart s (k+1)` (for a line that exists) lies inside `s`, exactly `k`
newlines precede it, and for `k > 0` the byte just before it is a newline. -/
theorem C37_spec_lineStart (s : Bytes) (k : Nat) (h : k ≤ newlines s) :
    lineStart s (k + 1) ≤ s.length ∧
    newlines (sub s 0 (lineStart s (k + 1))) = k ∧
    (0 < k → s[lineStart s (k + 1) - 1]? = some 10) := by
  simpa [lineStart, sub] using afterNL_spec s k h

/-- `lineEnd s p` is the first offset `≥ p` holding a newline, or `|s|`. -/
theorem C37_spec_lineEnd (s : Bytes) (p : Nat) (h : p ≤ s.length) :
    p ≤ lineEnd s p ∧ lineEnd s p ≤ s.length ∧
    newlines (sub s p (lineEnd s p)) = 0 ∧
    (lineEnd s p < s.length → s[lineEnd s p]? = some 10) :=
  lineEnd_spec s p h

example : lineStart [97, 10, 10, 98, 99, 10] 3 = 3 ∧ lineEnd [97, 10, 10, 98, 99, 10] 3 = 5 := by decide

/-! ## Start position -/

/-- The start line is 1 + the number of newlines before `from`, and the start
column counts bytes from the first byte of that line: line/column identify the
first byte of the range. -/
theorem C37_start (src : Bytes) (f t : Int) (h0 : 0 ≤ f) (h1 : f ≤ t) (h2 : t ≤ src.length)
    (d : Details) (hd : getContextDetails src f t = .ok d) :
    d.startLine = 1 + newlines (sub src 0 f.toNat) ∧ 1 ≤ d.startCol ∧
    (lineStart src d.startLine.toNat : Int) + d.startCol - 1 = f := by
  obtain ⟨before, body0, after, rfl, rfl, rfl, rfl⟩ := transfer src f t h0 h1 h2 d hd
  have := start_core before body0 after
  simp only [Int.toNat_natCast]
  rw [List.append_assoc, sub_prefix, ← List.append_assoc]
  exact this

/-! ## End position -/

/-- With `t' = to − 1` if the range ends in a newline, else `to`: the end line
is 1 + the number of newlines before `t'` and `lineStart endLine + endCol = t'`,
i.e. (line, column) denote byte `t' − 1`, the last counted byte. -/
theorem C37_end (src : Bytes) (f t : Int) (h0 : 0 ≤ f) (h1 : f ≤ t) (h2 : t ≤ src.length)
    (d : Details) (hd : getContextDetails src f t = .ok d) :
    let t' := adjTo src f.toNat t.toNat
    d.endLine = 1 + newlines (sub src 0 t') ∧ 0 ≤ d.endCol ∧
    (lineStart src d.endLine.toNat : Int) + d.endCol = t' := by
  obtain ⟨before, body0, after, rfl, rfl, rfl, rfl⟩ := transfer src f t h0 h1 h2 d hd
  obtain ⟨_, e1, e2, e3⟩ := end_core before body0 after
  simp only [Int.toNat_natCast]
  rw [adjTo_eq, (sub_to_adj before body0 after).1]
  refine ⟨e1, e2, ?_⟩
  rw [e3]; simp

/-- Ranges that are empty after the adjustment: same line, `endCol = startCol − 1`. -/
theorem C37_end_empty (src : Bytes) (f t : Int) (h0 : 0 ≤ f) (h1 : f ≤ t) (h2 : t ≤ src.length)
    (d : Details) (hd : getContextDetails src f t = .ok d)
    (he : adjTo src f.toNat t.toNat = f.toNat) :
    d.endLine = d.startLine ∧ d.endCol = d.startCol - 1 := by
  obtain ⟨before, body0, after, rfl, rfl, rfl, rfl⟩ := transfer src f t h0 h1 h2 d hd
  simp only [Int.toNat_natCast] at he
  rw [adjTo_eq] at he
  have hnil : (if endsNL body0 then body0.dropLast else body0) = [] :=
    List.length_eq_zero_iff.mp (by omega)
  obtain ⟨h1, h2, _⟩ := describe_core before body0 after
  have := h2.mpr hnil
  have hec : (detailsOf before body0 after).endCol
      = if (detailsOf before body0 after).startLine = (detailsOf before body0 after).endLine
        then (detailsOf before body0 after).startCol + (detailsOf before body0 after).body.length - 1
        else (lastLine (detailsOf before body0 after).body).length := rfl
  have hb : (detailsOf before body0 after).body
      = (if endsNL body0 then body0.dropLast else body0) := (end_core before body0 after).1
  refine ⟨this.1.symm, ?_⟩
  rw [hec, if_pos this.1, hb, hnil]; simp

/-- A range whose last counted byte is itself a newline ends at column 0 (of
the line after that newline). -/
theorem C37_end_after_newline (src : Bytes) (f t : Int) (h0 : 0 ≤ f) (h1 : f ≤ t)
    (h2 : t ≤ src.length) (d : Details) (hd : getContextDetails src f t = .ok d)
    (hn : endsInNL src f.toNat (adjTo src f.toNat t.toNat) = true) :
    d.endCol = 0 := by
  obtain ⟨before, body0, after, rfl, rfl, rfl, rfl⟩ := transfer src f t h0 h1 h2 d hd
  simp only [Int.toNat_natCast] at hn
  rw [adjTo_eq] at hn
  apply end_after_newline_core
  have hpre : ∃ rest, before ++ body0 ++ after
      = before ++ (if endsNL body0 then body0.dropLast else body0) ++ rest := by
    rcases endsNL_cases body0 with ⟨h, b, rfl⟩ | h
    · exact ⟨10 :: after, by simp [h]⟩
    · exact ⟨after, by simp [h]⟩
  obtain ⟨rest, hrest⟩ := hpre
  rw [hrest, endsInNL_eq] at hn
  exact hn

/-! ## Context text -/

/-- `head ++ body ++ tail` is exactly the source text from the first byte of
the start line to the end of the line containing the adjusted end `t'` (the
next newline at or after `t'`, or the end of the source); `body` is the range
up to `t'`; head and tail contain no newline.  When a trailing newline was
stripped, the tail is empty and the text ends at `t'` (the stripped newline is
the line terminator: `lineEnd src t' = t'`). -/
theorem C37_context (src : Bytes) (f t : Int) (h0 : 0 ≤ f) (h1 : f ≤ t) (h2 : t ≤ src.length)
    (d : Details) (hd : getContextDetails src f t = .ok d) :
    let t' := adjTo src f.toNat t.toNat
    slice src (lineStart src d.startLine.toNat) (lineEnd src t') = .ok (d.head ++ d.body ++ d.tail) ∧
    d.body = sub src f.toNat t' ∧
    (∀ x ∈ d.head, x ≠ 10) ∧ (∀ x ∈ d.tail, x ≠ 10) ∧
    (endsInNL src f.toNat t.toNat = true → d.tail = [] ∧ lineEnd src t' = t') := by
  obtain ⟨before, body0, after, rfl, rfl, rfl, rfl⟩ := transfer src f t h0 h1 h2 d hd
  obtain ⟨c1, c2, c3⟩ := context_core before body0 after
  have hb := (end_core before body0 after).1
  simp only [Int.toNat_natCast]
  rw [adjTo_eq, (sub_to_adj before body0 after).2]
  refine ⟨c1, hb, c2, c3, ?_⟩
  rw [endsInNL_eq]
  intro h
  obtain ⟨_, b, rfl⟩ | h' := endsNL_cases body0
  · refine ⟨by simp [detailsOf, h], ?_⟩
    have e : before ++ (b ++ [10]) ++ after = (before ++ b) ++ 10 :: after := by simp
    have := lineEnd_append (before ++ b) (10 :: after)
    simp only [List.length_append] at this
    simp only [h, if_true, List.dropLast_concat]
    rw [e, this]; simp [lineEnd]
  · rw [h] at h'; cases h'

/-! ## Range description -/

/-- `describeRange` uses the one-position format `l:c` exactly when the adjusted
range is empty (then it is on one line), `l:c-c` when the adjusted range is
non-empty and contains no newline (start and end on one line), and `l:c-l:c`
otherwise; the numbers are the `Details` fields characterised above. -/
theorem C37_describe (src : Bytes) (f t : Int) (h0 : 0 ≤ f) (h1 : f ≤ t) (h2 : t ≤ src.length)
    (d : Details) (hd : getContextDetails src f t = .ok d) :
    let t' := adjTo src f.toNat t.toNat
    (d.startLine = d.endLine ↔ newlines (sub src f.toNat t') = 0) ∧
    ((d.startLine = d.endLine ∧ d.endCol < d.startCol) ↔ t' = f.toNat) ∧
    describeRange d =
      if t' = f.toNat then s!"{d.startLine}:{d.startCol}"
      else if newlines (sub src f.toNat t') = 0 then s!"{d.startLine}:{d.startCol}-{d.endCol}"
      else s!"{d.startLine}:{d.startCol}-{d.endLine}:{d.endCol}" := by
  obtain ⟨before, body0, after, rfl, rfl, rfl, rfl⟩ := transfer src f t h0 h1 h2 d hd
  obtain ⟨d1, d2, d3⟩ := describe_core before body0 after
  have hsub := (sub_to_adj before body0 after).2
  simp only [Int.toNat_natCast, adjTo_eq, hsub]
  have hiff : before.length + (if endsNL body0 then body0.dropLast else body0).length = before.length
      ↔ (if endsNL body0 then body0.dropLast else body0) = [] := by
    rw [← List.length_eq_zero_iff]; omega
  refine ⟨d1, d2.trans hiff.symm, ?_⟩
  rw [d3]
  by_cases e : (if endsNL body0 then body0.dropLast else body0) = []
  · rw [if_pos e, if_pos (hiff.mpr e)]
  · rw [if_neg e, if_neg (fun x => e (hiff.mp x))]

/-! ## Non-vacuity: concrete multi-line sources, evaluated on the executable model -/

/-- source "ab\ncé\n\nxyz" (11 bytes; é = c3 a9), range [4,9) = "é\n\nx":
lines 2..4, columns in bytes. -/
example :
    getContextDetails [97, 98, 10, 99, 0xc3, 0xa9, 10, 10, 120, 121, 122] 4 9 =
      .ok { startLine := 2, startCol := 2, endLine := 4, endCol := 1,
            body := [0xc3, 0xa9, 10, 10, 120], head := [99], tail := [121, 122] } := by decide
example : lineStart [97, 98, 10, 99, 0xc3, 0xa9, 10, 10, 120, 121, 122] 2 + 2 - 1 = 4 := by decide
example : adjTo [97, 98, 10, 99, 0xc3, 0xa9, 10, 10, 120, 121, 122] 4 9 = 9 ∧
    lineStart [97, 98, 10, 99, 0xc3, 0xa9, 10, 10, 120, 121, 122] 4 + 1 = 9 ∧
    lineEnd [97, 98, 10, 99, 0xc3, 0xa9, 10, 10, 120, 121, 122] 9 = 11 := by decide

/-- same source, range [3,7) = "cé\n": trailing newline stripped, tail empty. -/
example :
    getContextDetails [97, 98, 10, 99, 0xc3, 0xa9, 10, 10, 120, 121, 122] 3 7 =
      .ok { startLine := 2, startCol := 1, endLine := 2, endCol := 3,
            body := [99, 0xc3, 0xa9], head := [], tail := [] } := by decide
example : adjTo [97, 98, 10, 99, 0xc3, 0xa9, 10, 10, 120, 121, 122] 3 7 = 6 ∧
    lineEnd [97, 98, 10, 99, 0xc3, 0xa9, 10, 10, 120, 121, 122] 6 = 6 := by decide

/-- same source, range [6,8) = "\n\n": the last counted byte is a newline ⇒
end is line 3 column 0. -/
example :
    getContextDetails [97, 98, 10, 99, 0xc3, 0xa9, 10, 10, 120, 121, 122] 6 8 =
      .ok { startLine := 2, startCol := 4, endLine := 3, endCol := 0,
            body := [10], head := [99, 0xc3, 0xa9], tail := [] } := by decide
example : endsInNL [97, 98, 10, 99, 0xc3, 0xa9, 10, 10, 120, 121, 122] 6
    (adjTo [97, 98, 10, 99, 0xc3, 0xa9, 10, 10, 120, 121, 122] 6 8) = true := by decide

/-- same source, range [7,8) = "\n" on the blank line: empty after adjustment ⇒
`endCol = startCol − 1 = 0`, one-position format. -/
example :
    getContextDetails [97, 98, 10, 99, 0xc3, 0xa9, 10, 10, 120, 121, 122] 7 8 =
      .ok { startLine := 3, startCol := 1, endLine := 3, endCol := 0,
            body := [], head := [], tail := [] } := by decide
example : adjTo [97, 98, 10, 99, 0xc3, 0xa9, 10, 10, 120, 121, 122] 7 8 = 7 := by decide

/-- the three formats of `describeRange` all occur. -/
example :
    (getContextDetails [97, 98, 10, 99, 100] 4 4).bind (fun d => .ok (describeRange d)) = .ok "2:2" ∧
    (getContextDetails [97, 98, 10, 99, 100] 3 5).bind (fun d => .ok (describeRange d)) = .ok "2:1-2" ∧
    (getContextDetails [97, 98, 10, 99, 100] 1 4).bind (fun d => .ok (describeRange d)) = .ok "1:2-2:1" := by
  decide
