/-
C06 — Lists are immutable sequences that behave like arrays at every length.

Model: ElvModel/C06/Model.lean (pkg/persistent/vector/vector.go after
fixes/C06-subvector-bounds.patch).  Specification: ElvModel/C06/Spec.lean —
`Vec.toList` reads the elements out of the representation (leaves left to
right, then the tail; a slice is the segment of its parent).  Invariant:
`WF w` (ElvProofs/C06/ToList.lean) = `∃ l, VReps w l`, where `VReps`
(Iface.lean) / `Reps` (Vec.lean) / `RepF` (Rep.lean) say that the count,
height, root and tail fit together: leaves are full, the tree holds exactly
`treeSize` elements, children right of the last non-empty one are nil, the
height is the least one that fits, the tail holds the rest; a slice has
`0 ≤ begin ≤ end ≤ parent length`.

Every theorem below holds for EVERY length and every element type: the
lengths where the tail is pushed into the tree, where the tree gains a level
(`Conj`) or loses one (`Pop`) are cases of the proofs (`vConj_spec`,
`vPop_spec`, `pushTail_spec`, `popTail_spec`), not samples.  The branching
constants come from the Go source (`Gen.C06Consts`) and are used only
through `C06_constants`, so the proofs are generic in `chunkBits ≥ 1`.
Each `.ok` conclusion is also the panic-freedom statement for that operation
(type assertions, array indexing, nil dereference, method call on a nil
interface are explicit `panic` outcomes of the model).
-/
import ElvProofs.C06.History
import ElvProofs.C06.Iter
import ElvProofs.C06.ToList
open Go C06
open Gen.C06Consts

/-- The facts about the generated constants that all proofs rest on (and the
only ones). -/
theorem C06_constants :
    nodeSize = 2 ^ chunkBits ∧ chunkMask = nodeSize - 1 ∧ tailMaxLen = nodeSize ∧ 1 ≤ chunkBits :=
  ⟨nodeSize_eq, chunkMask_eq, tailMaxLen_eq, chunkBits_pos⟩

/-- The abstraction relation used in the helper files is exactly
"well formed, and `toList` is that list". -/
theorem C06_abstraction {α : Type} (w : Vec α) (l : List α) :
    VReps w l ↔ (WF w ∧ w.toList = l) :=
  ⟨fun h => ⟨⟨l, h⟩, vreps_toList h⟩, fun ⟨h1, h2⟩ => h2 ▸ h1.vreps⟩

/-- `Empty` is well formed and is the empty list. -/
theorem C06_empty {α : Type} :
    WF (.vec (empty : Vector α)) ∧ (Vec.vec (empty : Vector α)).toList = [] :=
  (C06_abstraction _ _).mp reps_empty

/-- Every list of every length is the `toList` of a well-formed vector (built
by `Conj` from `Empty`): the hypotheses `WF w` below are satisfiable at every
length. -/
theorem C06_every_list_represented {α : Type} (l : List α) : ∃ w : Vec α, WF w ∧ w.toList = l :=
  let ⟨v, h⟩ := exists_reps l; ⟨.vec v, (C06_abstraction _ _).mp h⟩

-- non-vacuity of the hypothesis `WF w` of every theorem below, at a length of height 3,
-- and for a slice of a slice
example : ∃ w : Vec Nat, WF w ∧ w.toList = List.range 32801 := C06_every_list_represented _
example : ∃ w : Vec Nat, WF w ∧ (∃ v b e, w = .sub v b e) ∧ w.toList = [3, 4] := by
  obtain ⟨v, hv⟩ := exists_reps (List.range 10)
  obtain ⟨h1, h2⟩ := vSubVector_ok hv (i := 2) (j := 7) (by decide)
  obtain ⟨w', h3, h4⟩ := vreps_subVector_ok h2 (i := 1) (j := 3) (by decide)
  simp only [Vec.SubVector] at h3
  split at h3
  · cases h3; exact absurd h4 id
  · simp only [Res.ok.injEq] at h3
    have := (C06_abstraction _ _).mp h4
    refine ⟨w', this.1, ?_, this.2⟩
    rw [← h3]; unfold vSubVector; split
    · rename_i hh; rw [← h3] at h4; unfold vSubVector at h4; rw [if_pos hh] at h4; exact absurd h4 id
    · exact ⟨_, _, _, rfl⟩

/-- `Len` is the length. -/
theorem C06_len {α : Type} {w : Vec α} (H : WF w) : w.Len = .ok (w.toList.length : Int) :=
  vreps_len H.vreps

/-- `Index` never panics and is `toList[i]?`: the element when `0 ≤ i < len`,
`(nil,false)` for every other `i` — for whole lists and slices alike. -/
theorem C06_index {α : Type} {w : Vec α} (H : WF w) (i : Int) :
    w.Index i = .ok (if 0 ≤ i then (w.toList[i.toNat]?).map Slot.val else none) :=
  vreps_index H.vreps i

/-- `Conj` never panics, preserves `WF`, and is append — at every length. -/
theorem C06_conj {α : Type} {w : Vec α} (H : WF w) (x : α) :
    ∃ w', w.Conj x = .ok w' ∧ WF w' ∧ w'.toList = w.toList ++ [x] :=
  let ⟨w', h1, h2⟩ := vreps_conj H.vreps x
  ⟨w', h1, (C06_abstraction _ _).mp h2⟩

/-- `Assoc`: no value (`nil`) for `i < 0` or `i > len`, `Conj` at `i = len`,
replacement of exactly position `i` otherwise; never panics. -/
theorem C06_assoc {α : Type} {w : Vec α} (H : WF w) (i : Int) (x : α) :
    (i < 0 ∨ i > w.toList.length → w.Assoc i x = .ok .nil) ∧
    (i = w.toList.length →
      ∃ w', w.Assoc i x = .ok w' ∧ WF w' ∧ w'.toList = w.toList ++ [x]) ∧
    (0 ≤ i → i < w.toList.length →
      ∃ w', w.Assoc i x = .ok w' ∧ WF w' ∧ w'.toList = w.toList.set i.toNat x) :=
  ⟨vreps_assoc_nil H.vreps i x,
   fun h => let ⟨w', h1, h2⟩ := vreps_assoc_end H.vreps i x h; ⟨w', h1, (C06_abstraction _ _).mp h2⟩,
   fun h0 h => let ⟨w', h1, h2⟩ := vreps_assoc_set H.vreps i x h0 h
     ⟨w', h1, (C06_abstraction _ _).mp h2⟩⟩

/-- `Pop`: `dropLast`, no value on the empty list; never panics — at every
length, including those where the last leaf becomes the tail and where the
tree loses a level. -/
theorem C06_pop {α : Type} {w : Vec α} (H : WF w) :
    (w.toList = [] → w.Pop = .ok .nil) ∧
    (w.toList ≠ [] → ∃ w', w.Pop = .ok w' ∧ WF w' ∧ w'.toList = w.toList.dropLast) :=
  ⟨fun h => vreps_pop_nil (h ▸ H.vreps),
   fun h => let ⟨w', h1, h2⟩ := vreps_pop H.vreps h; ⟨w', h1, (C06_abstraction _ _).mp h2⟩⟩

/-- `SubVector(i,j)`: the segment `toList[i:j]` when `0 ≤ i ≤ j ≤ len`, no
value otherwise — for whole lists and for slices of slices alike (the second
part is what fixes/C06-subvector-bounds.patch establishes). -/
theorem C06_subvector {α : Type} {w : Vec α} (H : WF w) (i j : Int) :
    (0 ≤ i ∧ i ≤ j ∧ j ≤ w.toList.length →
      ∃ w', w.SubVector i j = .ok w' ∧ WF w' ∧
        w'.toList = (w.toList.drop i.toNat).take (j.toNat - i.toNat)) ∧
    (¬ (0 ≤ i ∧ i ≤ j ∧ j ≤ w.toList.length) → w.SubVector i j = .ok .nil) :=
  ⟨fun h => let ⟨w', h1, h2⟩ := vreps_subVector_ok H.vreps h; ⟨w', h1, (C06_abstraction _ _).mp h2⟩,
   vreps_subVector_nil H.vreps⟩

/-- The iterator (`Iterator(); HasElem(); Elem(); Next()` loop, path stack and
all) never panics, never runs out of fuel, and yields exactly `toList`, in
order — for whole lists and slices. -/
theorem C06_iterator {α : Type} {w : Vec α} (H : WF w) :
    w.iterate = .ok (w.toList.map Slot.val) := vreps_iterate H.vreps

/-- Histories.  Run any list of operations, each applied to any earlier
version and appending its result to the store, on the model and on plain
lists (`specHist`; `none` = "no value").  If the stores correspond before
(`Sim`: each version is `nil` exactly where the plain run has no value, and
otherwise well formed with that `toList`), then the model run does not panic,
the stores correspond after, and the old stores are prefixes of the new ones:
every result equals the plain-list result, out-of-range requests have no
value, and no operation changes a previously obtained list. -/
theorem C06_history_refines {α : Type} (ops : List (Op α)) {cs : List (Vec α)}
    {as as' : List (Option (List α))} (h : Sim cs as) (hs : specHist ops as = some as') :
    ∃ cs', runHist ops cs = .ok cs' ∧ Sim cs' as' ∧ cs <+: cs' ∧ as <+: as' :=
  hist_refines ops h hs

example : Sim [Vec.vec (empty : Vector Nat)] [some []] := ⟨reps_empty, trivial⟩
example : specHist [Op.conj 0 (1 : Nat), .conj 1 2, .sub 2 0 1, .sub 3 0 2, .pop 0, .assoc 2 1 7]
    [some []] = some [some [], some [1], some [1, 2], some [1], none, none, some [1, 7]] := by
  decide

/-- Persistence, stated on its own (it is structural in a pure model: a
version is a value).  After any history the version stored at position `k`
is the same value as before, hence still well formed with the same `toList`,
`Len`, `Index` and iteration. -/
theorem C06_ops_preserve_old {α : Type} (ops : List (Op α)) {cs cs' : List (Vec α)}
    (hrun : runHist ops cs = .ok cs') (k : Nat) (w : Vec α) (hk : cs[k]? = some w) :
    cs'[k]? = some w := by
  have hpre : cs <+: cs' := runHist_prefix ops hrun
  obtain ⟨t, rfl⟩ := hpre
  have hlt : k < cs.length := by
    rcases Nat.lt_or_ge k cs.length with h | h
    · exact h
    · rw [List.getElem?_eq_none h] at hk; exact absurd hk (by simp)
  rw [List.getElem?_append_left hlt]; exact hk

/-- The property at full strength, over the model. -/
def C06_full : Prop := ∀ (α : Type),
  -- the empty list
  (WF (.vec (empty : Vector α)) ∧ (Vec.vec (empty : Vector α)).toList = []) ∧
  -- every sequence of appends, pops, replacements, slicings (also of slices):
  -- results equal the plain-array results, out-of-range = no value, nothing
  -- panics, earlier versions stay in the store unchanged
  (∀ (ops : List (Op α)) (cs : List (Vec α)) (as as' : List (Option (List α))),
    Sim cs as → specHist ops as = some as' →
    ∃ cs', runHist ops cs = .ok cs' ∧ Sim cs' as' ∧ cs <+: cs' ∧ as <+: as') ∧
  -- what can be observed of any version: length, indexing (out of range
  -- rejected), iteration
  (∀ (w : Vec α), WF w →
    w.Len = .ok (w.toList.length : Int) ∧
    (∀ i : Int, w.Index i = .ok (if 0 ≤ i then (w.toList[i.toNat]?).map Slot.val else none)) ∧
    w.iterate = .ok (w.toList.map Slot.val))

theorem C06_full_holds : C06_full := fun _ =>
  ⟨C06_empty, fun ops _ _ _ h hs => hist_refines ops h hs,
   fun _ H => ⟨C06_len H, C06_index H, C06_iterator H⟩⟩

/-- The unfixed `(*subVector).SubVector` accepts an out-of-range request:
`[0..10][2:5]` sliced `0:6` is a 6-element view of the parent (witness
replayed on the real code from harness/corpus/C06.txt). -/
theorem C06_unfixed_subvector_counterexample :
    let v : Vector Nat := ⟨10, 0, none, (List.range 10).map Slot.val⟩
    ¬ ((0 : Int) ≤ 0 ∧ (0 : Int) ≤ 6 ∧ (6 : Int) ≤ 5 - 2) ∧
    (match subSubVectorUnfixed v 2 5 0 6 with | .sub _ 2 8 => true | _ => false) = true := by
  refine ⟨by decide, rfl⟩

/-- The unfixed `(*subVector).Assoc` panics on `i = MaxInt` (`s.begin+i`
overflows, the parent returns nil, `.SubVector` is called on nil). -/
theorem C06_unfixed_assoc_counterexample :
    let v : Vector Nat := ⟨10, 0, none, (List.range 10).map Slot.val⟩
    (subAssocUnfixed v 2 5 (2 ^ 63 - 1) 7).isPanic = true := by
  rfl
