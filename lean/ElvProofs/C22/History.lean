import ElvProofs.C22.Reach
/-!
C22, step 5: consequences of a well-formed history, as pure list lemmas; the
"top level only ever receives completed namespaces" invariant.
-/
namespace C22

theorem WF.suffix {l l' : List Ev} (h : WF l) (hs : l' <:+ l) : WF l' := by
  obtain ⟨t, rfl⟩ := hs
  induction t with
  | nil => exact h
  | cons a t ih => exact ih h.1

/-- once installed, a key keeps its namespace until an evaluation of it fails -/
theorem live_stable (k : Key) (t : Nat) (l' : List Ev) : ∀ mid : List Ev, WF (mid ++ l') →
    (∀ t', Ev.failed k t' ∉ mid) → live l' k = some t → live (mid ++ l') k = some t := by
  intro mid
  induction mid with
  | nil => intro _ _ h; exact h
  | cons e mid ih =>
    intro hwf hnf hl
    have ih' := ih hwf.1 (fun t' hm => hnf t' (List.mem_cons_of_mem _ hm)) hl
    have hw := hwf.2
    cases e with
    | start k' t' =>
      simp only [List.cons_append, live]
      by_cases e : k' = k
      · subst e
        have : live (mid ++ l') k' = none := hw
        rw [ih'] at this; cases this
      · simp [e]; exact ih'
    | failed k' t' =>
      simp only [List.cons_append, live]
      by_cases e : k' = k
      · subst e; exact absurd List.mem_cons_self (hnf t')
      · simp [e]; exact ih'
    | done _ _ => exact ih'
    | hit _ _ => exact ih'
    | got _ _ _ _ _ => exact ih'
    | def_ _ => exact ih'
    | caught _ => exact ih'

theorem countDone_le_one {l : List Ev} (h : WF l) (k : Key) : countDone l k ≤ 1 := by
  induction l with
  | nil => simp [countDone]
  | cons e l ih =>
    have ih' := ih h.1
    have hw := h.2
    unfold countDone at ih' ⊢
    rw [List.countP_cons]
    cases e with
    | done k' t' =>
      by_cases e : k' = k
      · subst e
        have : countDone l k' = 0 := hw.2
        unfold countDone at this
        simp [this]
      · simp [e]; exact ih'
    | start _ _ => simpa using ih'
    | failed _ _ => simpa using ih'
    | hit _ _ => simpa using ih'
    | got _ _ _ _ _ => simpa using ih'
    | def_ _ => simpa using ih'
    | caught _ => simpa using ih'

/-- in a history where no evaluation of `k` fails, whatever was handed out for `k` is what is installed at the end -/
theorem got_live_final {l : List Ev} (h : WF l) (k : Key) (hnf : ∀ t', Ev.failed k t' ∉ l)
    (b : Option Nat) (sp : Str) (t n : Nat) (hm : Ev.got b sp k t n ∈ l) : live l k = some t := by
  obtain ⟨pre, post, rfl⟩ := List.append_of_mem hm
  have hsuf : (Ev.got b sp k t n :: post) <:+ (pre ++ Ev.got b sp k t n :: post) := ⟨pre, rfl⟩
  have hw := (h.suffix hsuf).2
  have h1 : live (Ev.got b sp k t n :: post) k = some t := hw
  exact live_stable k t _ pre h (fun t' hm' => hnf t' (List.mem_append_left _ hm')) h1

theorem countStarts_cons_start (l : List Ev) (k k' : Key) (t' : Nat) :
    countStarts (.start k' t' :: l) k = countStarts l k + (if k' = k then 1 else 0) := by
  unfold countStarts
  rw [List.countP_cons]
  by_cases e : k' = k <;> simp [e]

theorem countStarts_cons_other (l : List Ev) (k : Key) (e : Ev) (h : ∀ k' t', e ≠ .start k' t') :
    countStarts (e :: l) k = countStarts l k := by
  unfold countStarts
  rw [List.countP_cons]
  cases e with
  | start k' t' => exact absurd rfl (h k' t')
  | _ => simp

theorem countStarts_pos_live {l : List Ev} (k : Key) (hnf : ∀ t', Ev.failed k t' ∉ l)
    (hp : 0 < countStarts l k) : live l k ≠ none := by
  induction l with
  | nil => simp [countStarts] at hp
  | cons e l ih =>
    have hnf' : ∀ t', Ev.failed k t' ∉ l := fun t' hm => hnf t' (List.mem_cons_of_mem _ hm)
    cases e with
    | start k' t' =>
      by_cases e : k' = k
      · subst e; simp [live]
      · rw [countStarts_cons_start] at hp
        simp only [e, if_false, Nat.add_zero] at hp
        simp only [live, e, if_false]; exact ih hnf' hp
    | failed k' t' =>
      by_cases e : k' = k
      · subst e; exact absurd List.mem_cons_self (hnf t')
      · rw [countStarts_cons_other _ _ _ (by intro _ _ h; cases h)] at hp
        simp only [live, e, if_false]; exact ih hnf' hp
    | done _ _ => rw [countStarts_cons_other _ _ _ (by intro _ _ h; cases h)] at hp; exact ih hnf' hp
    | hit _ _ => rw [countStarts_cons_other _ _ _ (by intro _ _ h; cases h)] at hp; exact ih hnf' hp
    | got _ _ _ _ _ => rw [countStarts_cons_other _ _ _ (by intro _ _ h; cases h)] at hp; exact ih hnf' hp
    | def_ _ => rw [countStarts_cons_other _ _ _ (by intro _ _ h; cases h)] at hp; exact ih hnf' hp
    | caught _ => rw [countStarts_cons_other _ _ _ (by intro _ _ h; cases h)] at hp; exact ih hnf' hp

theorem countStarts_le_one {l : List Ev} (h : WF l) (k : Key) (hnf : ∀ t', Ev.failed k t' ∉ l) :
    countStarts l k ≤ 1 := by
  induction l with
  | nil => simp [countStarts]
  | cons e l ih =>
    have hnf' : ∀ t', Ev.failed k t' ∉ l := fun t' hm => hnf t' (List.mem_cons_of_mem _ hm)
    have ih' := ih h.1 hnf'
    have hw := h.2
    cases e with
    | start k' t' =>
      rw [countStarts_cons_start]
      by_cases e : k' = k
      · subst e
        have hl : live l k' = none := hw
        have : countStarts l k' = 0 := by
          cases hc : countStarts l k' with
          | zero => rfl
          | succ m => exact absurd hl (countStarts_pos_live k' hnf' (by omega))
        simp [this]
      · simp [e]; exact ih'
    | failed _ _ => rw [countStarts_cons_other _ _ _ (by intro _ _ h; cases h)]; exact ih'
    | done _ _ => rw [countStarts_cons_other _ _ _ (by intro _ _ h; cases h)]; exact ih'
    | hit _ _ => rw [countStarts_cons_other _ _ _ (by intro _ _ h; cases h)]; exact ih'
    | got _ _ _ _ _ => rw [countStarts_cons_other _ _ _ (by intro _ _ h; cases h)]; exact ih'
    | def_ _ => rw [countStarts_cons_other _ _ _ (by intro _ _ h; cases h)]; exact ih'
    | caught _ => rw [countStarts_cons_other _ _ _ (by intro _ _ h; cases h)]; exact ih'

/-! ### the log only grows -/

theorem Step.log_suffix {s s' : St} (h : Step s s') : s.log <:+ s'.log := by
  cases h <;> exact List.suffix_cons _ _

theorem Steps.log_suffix {s s' : St} (h : Steps s s') : s.log <:+ s'.log := by
  induction h with
  | refl => exact List.suffix_refl _
  | tail _ st ih => exact ih.trans st.log_suffix

/-! ### what is installed is in progress or completed; top-level code receives completed namespaces -/

structure InvL (s : St) : Prop where
  openOrDone : ∀ k t, mget s.mods k = some t → (k, t) ∈ s.stack ∨ Ev.done k t ∈ s.log
  topDone : ∀ sp k t n l, (Ev.got none sp k t n :: l) <:+ s.log → Ev.done k t ∈ l

theorem InvL.emit {s : St} (inv : InvL s) (e : Ev) (h : ∀ sp k t n, e ≠ .got none sp k t n) :
    InvL (s.emit e) := by
  refine ⟨?_, ?_⟩
  · intro k t hm
    rcases inv.openOrDone k t hm with h1 | h1
    · exact .inl h1
    · exact .inr (List.mem_cons_of_mem _ h1)
  · intro sp k t n l hs
    rcases List.suffix_cons_iff.mp hs with h1 | h1
    · injection h1 with h1 _; exact absurd h1.symm (h sp k t n)
    · exact inv.topDone sp k t n l h1

theorem InvL.step {s s' : St} (inv0 : Inv s) (inv : InvL s) (st : Step s s') : InvL s' := by
  cases st with
  | start k h =>
    refine ⟨?_, ?_⟩
    · intro k' t' hm
      by_cases e : k = k'
      · subst e
        simp only at hm
        rw [mget_mset_same] at hm; injection hm with hm; subst hm
        exact .inl List.mem_cons_self
      · simp only at hm
        rw [mget_mset_other _ _ _ _ e] at hm
        rcases inv.openOrDone k' t' hm with h1 | h1
        · exact .inl (List.mem_cons_of_mem _ h1)
        · exact .inr (List.mem_cons_of_mem _ h1)
    · intro sp k' t n l hs
      rcases List.suffix_cons_iff.mp hs with h1 | h1
      · cases h1
      · exact inv.topDone sp k' t n l h1
  | done k t rest h =>
    refine ⟨?_, ?_⟩
    · intro k' t' hm
      rcases inv.openOrDone k' t' hm with h1 | h1
      · rw [h] at h1
        rcases List.mem_cons.mp h1 with h2 | h2
        · injection h2 with a b; subst a; subst b; exact .inr List.mem_cons_self
        · exact .inl h2
      · exact .inr (List.mem_cons_of_mem _ h1)
    · intro sp k' t' n l hs
      rcases List.suffix_cons_iff.mp hs with h1 | h1
      · cases h1
      · exact inv.topDone sp k' t' n l h1
  | failed k t rest h =>
    have hhead : (k, t) ∈ s.stack := by rw [h]; exact List.mem_cons_self
    refine ⟨?_, ?_⟩
    · intro k' t' hm
      by_cases e : k = k'
      · subst e; simp only at hm; rw [mget_mdel_same] at hm; cases hm
      · simp only at hm
        rw [mget_mdel_other _ _ _ e] at hm
        rcases inv.openOrDone k' t' hm with h1 | h1
        · rw [h] at h1
          rcases List.mem_cons.mp h1 with h2 | h2
          · injection h2 with a b; exact absurd a.symm e
          · exact .inl h2
        · exact .inr (List.mem_cons_of_mem _ h1)
    · intro sp k' t' n l hs
      rcases List.suffix_cons_iff.mp hs with h1 | h1
      · cases h1
      · exact inv.topDone sp k' t' n l h1
  | hit k t h => exact inv.emit _ (by intro _ _ _ _ e; cases e)
  | def_ b => exact inv.emit _ (by intro _ _ _ _ e; cases e)
  | caught b => exact inv.emit _ (by intro _ _ _ _ e; cases e)
  | got b sp k t n h hb =>
    refine ⟨?_, ?_⟩
    · intro k' t' hm
      rcases inv.openOrDone k' t' hm with h1 | h1
      · exact .inl h1
      · exact .inr (List.mem_cons_of_mem _ h1)
    · intro sp' k' t' n' l hs
      rcases List.suffix_cons_iff.mp hs with h1 | h1
      · have h1 : Ev.got none sp' k' t' n' :: l = Ev.got b sp k t n :: s.log := h1
        injection h1 with h1 h2
        injection h1 with hb' hsp hk ht hn
        subst hk; subst ht; subst h2
        -- top level: nothing is in progress, so the namespace received is a completed one
        have hstack : s.stack = [] := by
          cases hs' : s.stack with
          | nil => rfl
          | cons a r => rw [hs'] at hb; rw [← hb'] at hb; simp at hb
        have hlive : live s.log k' = some t' := by
          have hwf := inv0.wf
          cases hl : s.log with
          | nil => rw [hl] at h; simp at h
          | cons e l' =>
            rw [hl] at h hwf
            simp only [List.head?_cons, Option.some.injEq] at h
            rcases h with rfl | rfl
            · simpa [live] using hwf.2
            · simpa [live] using hwf.2.1
        have hm : mget s.mods k' = some t' := by rw [inv0.coherent]; exact hlive
        rcases inv.openOrDone k' t' hm with h3 | h3
        · rw [hstack] at h3; cases h3
        · exact h3
      · exact inv.topDone sp' k' t' n' l h1

theorem InvL.steps {s s' : St} (inv0 : Inv s) (inv : InvL s) (st : Steps s s') : InvL s' := by
  induction st with
  | refl => exact inv
  | tail a h ih => exact InvL.step (inv0.steps a) ih h

theorem InvL.empty : InvL St.empty :=
  ⟨(by intro k t h; cases h), (by
    intro sp k t n l h
    have := List.IsSuffix.length_le h
    simp [St.empty] at this)⟩

theorem run_invL (w : World) (ops : List Op) : InvL (run w ops) :=
  InvL.steps Inv.empty InvL.empty (run_steps w ops).1

end C22
