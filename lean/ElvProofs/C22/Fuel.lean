import ElvProofs.C22.Inv
/-!
C22, step 4: termination of the import recursion.

Measure: `missing w s` = how many of the keys that can ever be evaluated
(`allKeys w`: files with code, bundled modules) are NOT in the cache.  A nested
evaluation starts only for a key that is absent, installs it first, and nothing
that runs inside removes an entry that was there before (`Keeps`).  So the
nesting depth of evaluations is bounded by `missing`, and `missing + 1` levels
of fuel are never exhausted.
-/
namespace C22

def absent (s : St) (k : Key) : Bool := (mget s.mods k).isNone

def missing (w : World) (s : St) : Nat := (allKeys w).countP (absent s)

/-- entries present before are present (unchanged) after -/
def Keeps (s s' : St) : Prop := ∀ k t, mget s.mods k = some t → mget s'.mods k = some t

theorem Keeps.refl (s : St) : Keeps s s := fun _ _ h => h
theorem Keeps.trans {a b c : St} (h1 : Keeps a b) (h2 : Keeps b c) : Keeps a c :=
  fun k t h => h2 k t (h1 k t h)
theorem Keeps.emit (s : St) (e : Ev) : Keeps s (s.emit e) := fun _ _ h => h

def RecKeeps (rec : Rec) : Prop := ∀ cx s sp, Keeps s (rec cx s sp).1

theorem runBody_keeps (rec : Rec) (hrec : RecKeeps rec) (cx : Cx) (acts : List Act) :
    ∀ s, Keeps s (runBody rec cx acts s).1 := by
  induction acts with
  | nil => intro s; exact Keeps.refl s
  | cons a as ih =>
    intro s
    cases a with
    | def_ => simp only [runBody]; exact (Keeps.emit s _).trans (ih _)
    | fail => exact Keeps.refl s
    | failUntil n =>
      simp only [runBody]; split
      · exact Keeps.refl s
      · exact ih s
    | use sp =>
      simp only [runBody]
      have g := hrec cx s sp
      revert g; generalize rec cx s sp = p; obtain ⟨s', r⟩ := p; intro g
      cases r with
      | ok k t => exact g.trans ((Keeps.emit s' _).trans (ih _))
      | err d c => exact g
    | tryUse sp =>
      simp only [runBody]
      have g := hrec cx s sp
      revert g; generalize rec cx s sp = p; obtain ⟨s', r⟩ := p; intro g
      cases r with
      | ok k t => exact g.trans ((Keeps.emit s' _).trans (ih _))
      | err d c =>
        cases c with
        | fuel => exact g
        | nosuch | bad | fail => exact g.trans ((Keeps.emit s' _).trans (ih _))

theorem evalModule_keeps (rec : Rec) (hrec : RecKeeps rec) (key : Key) (base : Option (List Comp))
    (body : List Act) (s : St) (habs : mget s.mods key = none) :
    Keeps s (evalModule rec key base body s).1 := by
  unfold evalModule
  simp only
  have hb := runBody_keeps rec hrec { base := base, tok := some s.next, key := key } body
    ⟨mset s.mods key s.next, s.next + 1, (key, s.next) :: s.stack, .start key s.next :: s.log⟩
  revert hb
  generalize runBody rec { base := base, tok := some s.next, key := key } body
    ⟨mset s.mods key s.next, s.next + 1, (key, s.next) :: s.stack, .start key s.next :: s.log⟩ = p
  obtain ⟨s2, c⟩ := p
  intro hb
  have h1 : ∀ k t, mget s.mods k = some t → mget s2.mods k = some t := by
    intro k t h
    apply hb
    have hne : key ≠ k := by intro e; subst e; rw [habs] at h; cases h
    show mget (mset s.mods key s.next) k = some t
    rw [mget_mset_other _ _ _ _ hne]; exact h
  cases c with
  | none => exact h1
  | some c =>
    intro k t h
    have hne : key ≠ k := by intro e; subst e; rw [habs] at h; cases h
    show mget (mdel s2.mods key) k = some t
    rw [mget_mdel_other _ _ _ hne]; exact h1 k t h

theorem useFromFile_keeps (w : World) (rec : Rec) (hrec : RecKeeps rec) (s : St) (p : List Comp) :
    Keeps s (useFromFile w rec s p).1 := by
  unfold useFromFile
  simp only
  split
  · exact Keeps.emit s _
  · rename_i hn
    split
    · exact Keeps.refl s
    · exact Keeps.refl s
    · exact evalModule_keeps rec hrec _ _ _ s hn

theorem useLib_keeps (w : World) (rec : Rec) (hrec : RecKeeps rec) (sp : Str) (ds : List (List Comp)) :
    ∀ s, Keeps s (useLib w rec sp ds s).1 := by
  induction ds with
  | nil => intro s; exact Keeps.refl s
  | cons d ds ih =>
    intro s
    simp only [useLib]
    have g := useFromFile_keeps w rec hrec s (joinClean d sp)
    revert g; generalize useFromFile w rec s (joinClean d sp) = p; obtain ⟨s', r⟩ := p; intro g
    split
    · rename_i s'' heq
      injection heq with h1 h2; subst h1
      exact g.trans (ih s')
    · exact g

theorem useStep_keeps (w : World) (cwd : List Comp) (rec : Rec) (hrec : RecKeeps rec) :
    RecKeeps (useStep w cwd rec) := by
  intro cx s sp
  unfold useStep
  split
  · exact useFromFile_keeps w rec hrec s _
  · split
    · exact Keeps.emit s _
    · rename_i hn
      split
      · exact evalModule_keeps rec hrec _ _ _ s hn
      · exact useLib_keeps w rec hrec sp _ s

theorem useSpec_keeps (w : World) (cwd : List Comp) : ∀ f, RecKeeps (useSpec w cwd f)
  | 0 => fun _ s _ => Keeps.refl s
  | f + 1 => useStep_keeps w cwd _ (useSpec_keeps w cwd f)

/-! ### the measure -/

theorem countP_le_of_imp {α} (p q : α → Bool) (l : List α) (h : ∀ x, x ∈ l → p x = true → q x = true) :
    l.countP p ≤ l.countP q := by
  induction l with
  | nil => simp
  | cons a l ih =>
    have ih' := ih (fun x hx => h x (List.mem_cons_of_mem _ hx))
    have ha := h a List.mem_cons_self
    simp only [List.countP_cons]
    cases hp : p a <;> cases hq : q a <;> simp <;> try omega
    rw [hp, hq] at ha; simp at ha

theorem countP_lt_of_imp {α} (p q : α → Bool) (l : List α) (h : ∀ x, x ∈ l → p x = true → q x = true)
    (a : α) (ha : a ∈ l) (hq : q a = true) (hp : p a = false) : l.countP p < l.countP q := by
  induction l with
  | nil => cases ha
  | cons b l ih =>
    have hle := countP_le_of_imp p q l (fun x hx => h x (List.mem_cons_of_mem _ hx))
    simp only [List.countP_cons]
    rcases List.mem_cons.mp ha with rfl | ha'
    · simp [hp, hq]; omega
    · have := ih (fun x hx => h x (List.mem_cons_of_mem _ hx)) ha'
      have hb := h b List.mem_cons_self
      cases hpb : p b <;> cases hqb : q b <;> simp <;> try omega
      rw [hpb, hqb] at hb; simp at hb

theorem missing_le_of_keeps (w : World) {s s' : St} (h : Keeps s s') : missing w s' ≤ missing w s := by
  apply countP_le_of_imp
  intro k _ hk
  simp only [absent, Option.isNone_iff_eq_none] at hk ⊢
  cases hm : mget s.mods k with
  | none => rfl
  | some t => rw [h k t hm] at hk; cases hk

theorem missing_lt_of_install (w : World) (s s1 : St) (key : Key) (t : Nat) (hk : key ∈ allKeys w)
    (habs : mget s.mods key = none) (h1 : s1.mods = mset s.mods key t) : missing w s1 < missing w s := by
  apply countP_lt_of_imp _ _ _ _ key hk
  · simp [absent, habs]
  · simp [absent, h1, mget_mset_same]
  · intro k _ hk'
    simp only [absent, Option.isNone_iff_eq_none, h1] at hk' ⊢
    by_cases e : key = k
    · subst e; exact habs
    · rw [mget_mset_other _ _ _ _ e] at hk'; exact hk'

theorem mem_allKeys_file (w : World) (p : List Comp) (body : List Act)
    (h : assoc p w.files = some (.code body)) : pathStr p ∈ allKeys w := by
  unfold allKeys
  apply List.mem_append_left
  rw [List.mem_filterMap]
  refine ⟨(p, .code body), ?_, rfl⟩
  generalize w.files = l at h
  induction l with
  | nil => cases h
  | cons a l ih =>
    obtain ⟨p', f⟩ := a
    simp only [assoc] at h
    split at h
    · rename_i e; subst e; injection h with h; subst h; exact List.mem_cons_self
    · exact List.mem_cons_of_mem _ (ih h)

theorem mem_allKeys_bundled (w : World) (sp : Str) (body : List Act)
    (h : assoc sp w.bundled = some body) : sp ∈ allKeys w := by
  unfold allKeys
  apply List.mem_append_right
  rw [List.mem_map]
  refine ⟨(sp, body), ?_, rfl⟩
  generalize w.bundled = l at h
  induction l with
  | nil => cases h
  | cons a l ih =>
    obtain ⟨p', f⟩ := a
    simp only [assoc] at h
    split at h
    · rename_i e; subst e; injection h with h; subst h; exact List.mem_cons_self
    · exact List.mem_cons_of_mem _ (ih h)

/-! ### no fuel exhaustion -/

/-- `rec` does not run out of fuel from states with fewer than `n` keys missing -/
def NF (w : World) (rec : Rec) (n : Nat) : Prop :=
  ∀ cx s sp, missing w s < n → ∀ d, (rec cx s sp).2 ≠ .err d .fuel

theorem runBody_nf (w : World) (rec : Rec) (n : Nat) (hk : RecKeeps rec) (hnf : NF w rec n) (cx : Cx)
    (acts : List Act) : ∀ s, missing w s < n → (runBody rec cx acts s).2 ≠ some .fuel := by
  induction acts with
  | nil => intro s _ h; cases h
  | cons a as ih =>
    intro s hm
    cases a with
    | def_ => simp only [runBody]; exact ih _ hm
    | fail => intro h; cases h
    | failUntil k =>
      simp only [runBody]; split
      · intro h; cases h
      · exact ih s hm
    | use sp =>
      simp only [runBody]
      have g := hk cx s sp
      have g2 := hnf cx s sp hm
      revert g g2; generalize rec cx s sp = p; obtain ⟨s', r⟩ := p; intro g g2
      have hm' : missing w s' < n := Nat.lt_of_le_of_lt (missing_le_of_keeps w g) hm
      cases r with
      | ok k t => exact ih _ hm'
      | err d c =>
        intro h; simp only at h; injection h with h; subst h; exact g2 d rfl
    | tryUse sp =>
      simp only [runBody]
      have g := hk cx s sp
      have g2 := hnf cx s sp hm
      revert g g2; generalize rec cx s sp = p; obtain ⟨s', r⟩ := p; intro g g2
      have hm' : missing w s' < n := Nat.lt_of_le_of_lt (missing_le_of_keeps w g) hm
      cases r with
      | ok k t => exact ih _ hm'
      | err d c =>
        cases c with
        | fuel => exact absurd rfl (g2 d)
        | nosuch | bad | fail => exact ih _ hm'

theorem evalModule_nf (w : World) (rec : Rec) (n : Nat) (hk : RecKeeps rec) (hnf : NF w rec n)
    (key : Key) (base : Option (List Comp)) (body : List Act) (s : St)
    (habs : mget s.mods key = none) (hkey : key ∈ allKeys w) (hm : missing w s < n + 1) :
    ∀ d, (evalModule rec key base body s).2 ≠ .err d .fuel := by
  unfold evalModule
  simp only
  have hlt : missing w ⟨mset s.mods key s.next, s.next + 1, (key, s.next) :: s.stack, .start key s.next :: s.log⟩ < n :=
    Nat.lt_of_lt_of_le (missing_lt_of_install w s _ key s.next hkey habs rfl) (Nat.le_of_lt_succ hm)
  have hb := runBody_nf w rec n hk hnf { base := base, tok := some s.next, key := key } body _ hlt
  revert hb
  generalize runBody rec { base := base, tok := some s.next, key := key } body
    ⟨mset s.mods key s.next, s.next + 1, (key, s.next) :: s.stack, .start key s.next :: s.log⟩ = p
  obtain ⟨s2, c⟩ := p
  intro hb d
  cases c with
  | none => intro h; cases h
  | some c =>
    intro h; simp only at h; injection h with _ h; subst h; exact hb rfl

theorem useFromFile_nf (w : World) (rec : Rec) (n : Nat) (hk : RecKeeps rec) (hnf : NF w rec n)
    (s : St) (p : List Comp) (hm : missing w s < n + 1) :
    ∀ d, (useFromFile w rec s p).2 ≠ .err d .fuel := by
  unfold useFromFile
  simp only
  split
  · intro d h; cases h
  · rename_i hn
    split
    · intro d h; cases h
    · intro d h; cases h
    · rename_i body hf
      exact evalModule_nf w rec n hk hnf _ _ _ s hn (mem_allKeys_file w p body hf) hm

theorem useLib_nf (w : World) (rec : Rec) (n : Nat) (hk : RecKeeps rec) (hnf : NF w rec n) (sp : Str)
    (ds : List (List Comp)) : ∀ s, missing w s < n + 1 → ∀ d, (useLib w rec sp ds s).2 ≠ .err d .fuel := by
  induction ds with
  | nil => intro s _ d h; cases h
  | cons dir ds ih =>
    intro s hm
    simp only [useLib]
    have g := useFromFile_keeps w rec hk s (joinClean dir sp)
    have g2 := useFromFile_nf w rec n hk hnf s (joinClean dir sp) hm
    revert g g2; generalize useFromFile w rec s (joinClean dir sp) = p; obtain ⟨s', r⟩ := p; intro g g2
    split
    · rename_i s'' heq
      injection heq with h1 h2; subst h1
      exact ih s' (Nat.lt_of_le_of_lt (missing_le_of_keeps w g) hm)
    · exact g2

theorem useStep_nf (w : World) (cwd : List Comp) (rec : Rec) (n : Nat) (hk : RecKeeps rec)
    (hnf : NF w rec n) : NF w (useStep w cwd rec) (n + 1) := by
  intro cx s sp hm
  unfold useStep
  split
  · exact useFromFile_nf w rec n hk hnf s _ hm
  · split
    · intro d h; cases h
    · rename_i hn
      split
      · rename_i body hb
        exact evalModule_nf w rec n hk hnf _ _ _ s hn (mem_allKeys_bundled w sp body hb) hm
      · exact useLib_nf w rec n hk hnf sp _ s hm

theorem useSpec_nf (w : World) (cwd : List Comp) : ∀ f, NF w (useSpec w cwd f) f
  | 0 => fun _ _ _ h => absurd h (Nat.not_lt_zero _)
  | f + 1 => useStep_nf w cwd _ f (useSpec_keeps w cwd f) (useSpec_nf w cwd f)

theorem missing_lt_enough (w : World) (s : St) : missing w s < enough w := by
  unfold missing enough
  exact Nat.lt_succ_of_le (List.countP_le_length)

end C22
