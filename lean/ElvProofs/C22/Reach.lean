import ElvProofs.C22.Inv
/-!
C22, step 3: the states of a history are reachable by guarded steps from the
empty state, hence satisfy the invariants; token-level invariants.
-/
namespace C22

theorem initSt_steps (w : World) : Steps St.empty (initSt w) ∧ (initSt w).stack = [] := by
  unfold initSt
  suffices h : ∀ (l : List Str) (s : St), Steps St.empty s → s.stack = [] →
      Steps St.empty (l.foldl (fun s k =>
        match mget s.mods k with
        | some _ => s
        | none => { mods := mset s.mods k s.next, next := s.next + 1, stack := s.stack,
                    log := .done k s.next :: .start k s.next :: s.log }) s) ∧
      (l.foldl (fun s k =>
        match mget s.mods k with
        | some _ => s
        | none => { mods := mset s.mods k s.next, next := s.next + 1, stack := s.stack,
                    log := .done k s.next :: .start k s.next :: s.log }) s).stack = [] from
    h _ _ (.refl _) rfl
  intro l
  induction l with
  | nil => intro s h1 h2; exact ⟨h1, h2⟩
  | cons k l ih =>
    intro s h1 h2
    simp only [List.foldl_cons]
    apply ih
    · split
      · exact h1
      · rename_i hn
        have a := Step.start s k hn
        have b := Step.done ⟨mset s.mods k s.next, s.next + 1, (k, s.next) :: s.stack, .start k s.next :: s.log⟩
          k s.next s.stack rfl
        exact (h1.tail a).tail b
    · split
      · exact h2
      · exact h2

theorem runOp_steps (w : World) (s : St) (o : Op) (hs : s.stack = []) :
    Steps s (runOp w s o).1 ∧ (runOp w s o).1.stack = [] := by
  have := runBody_good (useSpec w o.cwd (enough w)) (useSpec_good w o.cwd _) (topCx o) o.acts s
    (by rw [hs]; rfl)
  exact ⟨this.1, by rw [← hs]; exact this.2⟩

theorem run_steps (w : World) (ops : List Op) :
    Steps St.empty (run w ops) ∧ (run w ops).stack = [] := by
  unfold run
  suffices h : ∀ (ops : List Op) (s : St), Steps St.empty s → s.stack = [] →
      Steps St.empty (ops.foldl (fun s o => (runOp w s o).1) s) ∧
      (ops.foldl (fun s o => (runOp w s o).1) s).stack = [] from
    h ops _ (initSt_steps w).1 (initSt_steps w).2
  intro ops
  induction ops with
  | nil => intro s h1 h2; exact ⟨h1, h2⟩
  | cons o ops ih =>
    intro s h1 h2
    simp only [List.foldl_cons]
    have := runOp_steps w s o h2
    exact ih _ (h1.trans this.1) this.2

theorem run_inv (w : World) (ops : List Op) : Inv (run w ops) :=
  Inv.empty.steps (run_steps w ops).1

/-! ### token-level invariants -/

structure InvT (s : St) : Prop where
  tokLt : ∀ k t, (k, t) ∈ s.stack → t < s.next
  evLt : ∀ k t, (Ev.done k t ∈ s.log ∨ Ev.failed k t ∈ s.log) → t < s.next
  nodupTok : (s.stack.map Prod.snd).Nodup
  openClean : ∀ k t, (k, t) ∈ s.stack → ∀ k', Ev.done k' t ∉ s.log ∧ Ev.failed k' t ∉ s.log
  excl : ∀ k k' t, Ev.done k t ∈ s.log → Ev.failed k' t ∈ s.log → False

theorem InvT.emit {s : St} (inv : InvT s) (e : Ev) (h1 : ∀ k t, e ≠ .done k t) (h2 : ∀ k t, e ≠ .failed k t) :
    InvT (s.emit e) := by
  have hd : ∀ k t, Ev.done k t ∈ (s.emit e).log → Ev.done k t ∈ s.log := by
    intro k t h
    simp only [St.emit, List.mem_cons] at h
    rcases h with h | h
    · exact absurd h.symm (h1 k t)
    · exact h
  have hf : ∀ k t, Ev.failed k t ∈ (s.emit e).log → Ev.failed k t ∈ s.log := by
    intro k t h
    simp only [St.emit, List.mem_cons] at h
    rcases h with h | h
    · exact absurd h.symm (h2 k t)
    · exact h
  refine ⟨inv.tokLt, ?_, inv.nodupTok, ?_, ?_⟩
  · intro k t h
    rcases h with h | h
    · exact inv.evLt k t (.inl (hd k t h))
    · exact inv.evLt k t (.inr (hf k t h))
  · intro k t hm k'
    exact ⟨fun h => (inv.openClean k t hm k').1 (hd _ _ h), fun h => (inv.openClean k t hm k').2 (hf _ _ h)⟩
  · intro k k' t a b
    exact inv.excl k k' t (hd _ _ a) (hf _ _ b)

theorem InvT.step {s s' : St} (inv : InvT s) (st : Step s s') : InvT s' := by
  cases st with
  | start k h =>
    refine ⟨?_, ?_, ?_, ?_, ?_⟩
    · intro k' t' hm
      simp only [List.mem_cons, Prod.mk.injEq] at hm
      rcases hm with ⟨_, rfl⟩ | hm
      · exact Nat.lt_succ_self _
      · exact Nat.lt_succ_of_lt (inv.tokLt k' t' hm)
    · intro k' t' hm
      simp only [List.mem_cons, reduceCtorEq, false_or] at hm
      exact Nat.lt_succ_of_lt (inv.evLt k' t' hm)
    · simp only [List.map_cons, List.nodup_cons]
      refine ⟨?_, inv.nodupTok⟩
      intro hmem
      rw [List.mem_map] at hmem
      obtain ⟨⟨k', t'⟩, hm, hh⟩ := hmem
      simp only at hh
      have := inv.tokLt k' t' hm
      omega
    · intro k' t' hm k''
      simp only [List.mem_cons, Prod.mk.injEq, reduceCtorEq, false_or] at hm ⊢
      rcases hm with ⟨_, rfl⟩ | hm
      · constructor
        · intro hd; have := inv.evLt k'' _ (.inl hd); omega
        · intro hd; have := inv.evLt k'' _ (.inr hd); omega
      · exact inv.openClean k' t' hm k''
    · intro k1 k2 t a b
      simp only [List.mem_cons, reduceCtorEq, false_or] at a b
      exact inv.excl k1 k2 t a b
  | done k t rest h =>
    have hhead : (k, t) ∈ s.stack := by rw [h]; exact List.mem_cons_self
    have hnd := inv.nodupTok
    rw [h] at hnd
    simp only [List.map_cons, List.nodup_cons] at hnd
    have hne : ∀ k' t', (k', t') ∈ rest → t' ≠ t := by
      intro k' t' hm e; subst e
      exact hnd.1 (List.mem_map.mpr ⟨(k', t'), hm, rfl⟩)
    have hsub : ∀ k' t', (k', t') ∈ rest → (k', t') ∈ s.stack := by
      intro k' t' hm; rw [h]; exact List.mem_cons_of_mem _ hm
    refine ⟨?_, ?_, hnd.2, ?_, ?_⟩
    · intro k' t' hm; exact inv.tokLt k' t' (hsub _ _ hm)
    · intro k' t' hm
      simp only [List.mem_cons, reduceCtorEq, false_or] at hm
      rcases hm with (hm | hm) | hm
      · injection hm with h1 h2; subst h1; subst h2; exact inv.tokLt _ _ hhead
      · exact inv.evLt k' t' (.inl hm)
      · exact inv.evLt k' t' (.inr hm)
    · intro k' t' hm k''
      simp only [List.mem_cons, reduceCtorEq, false_or]
      refine ⟨?_, (inv.openClean k' t' (hsub _ _ hm) k'').2⟩
      intro hd
      rcases hd with hd | hd
      · injection hd with h1 h2; exact hne k' t' hm h2
      · exact (inv.openClean k' t' (hsub _ _ hm) k'').1 hd
    · intro k1 k2 t1 a b
      simp only [List.mem_cons, reduceCtorEq, false_or] at a b
      rcases a with a | a
      · injection a with h1 h2; subst h1; subst h2
        exact (inv.openClean _ _ hhead k2).2 b
      · exact inv.excl k1 k2 t1 a b
  | failed k t rest h =>
    have hhead : (k, t) ∈ s.stack := by rw [h]; exact List.mem_cons_self
    have hnd := inv.nodupTok
    rw [h] at hnd
    simp only [List.map_cons, List.nodup_cons] at hnd
    have hne : ∀ k' t', (k', t') ∈ rest → t' ≠ t := by
      intro k' t' hm e; subst e
      exact hnd.1 (List.mem_map.mpr ⟨(k', t'), hm, rfl⟩)
    have hsub : ∀ k' t', (k', t') ∈ rest → (k', t') ∈ s.stack := by
      intro k' t' hm; rw [h]; exact List.mem_cons_of_mem _ hm
    refine ⟨?_, ?_, hnd.2, ?_, ?_⟩
    · intro k' t' hm; exact inv.tokLt k' t' (hsub _ _ hm)
    · intro k' t' hm
      simp only [List.mem_cons, reduceCtorEq, false_or] at hm
      rcases hm with hm | hm | hm
      · exact inv.evLt k' t' (.inl hm)
      · injection hm with h1 h2; subst h1; subst h2; exact inv.tokLt _ _ hhead
      · exact inv.evLt k' t' (.inr hm)
    · intro k' t' hm k''
      simp only [List.mem_cons, reduceCtorEq, false_or]
      refine ⟨(inv.openClean k' t' (hsub _ _ hm) k'').1, ?_⟩
      intro hd
      rcases hd with hd | hd
      · injection hd with h1 h2; exact hne k' t' hm h2
      · exact (inv.openClean k' t' (hsub _ _ hm) k'').2 hd
    · intro k1 k2 t1 a b
      simp only [List.mem_cons, reduceCtorEq, false_or] at a b
      rcases b with b | b
      · injection b with h1 h2; subst h1; subst h2
        exact (inv.openClean _ _ hhead k1).1 a
      · exact inv.excl k1 k2 t1 a b
  | hit k t h => exact inv.emit _ (by intro _ _ e; cases e) (by intro _ _ e; cases e)
  | got b sp k t n h hb => exact inv.emit _ (by intro _ _ e; cases e) (by intro _ _ e; cases e)
  | def_ b => exact inv.emit _ (by intro _ _ e; cases e) (by intro _ _ e; cases e)
  | caught b => exact inv.emit _ (by intro _ _ e; cases e) (by intro _ _ e; cases e)

theorem InvT.steps {s s' : St} (inv : InvT s) (st : Steps s s') : InvT s' := by
  induction st with
  | refl => exact inv
  | tail _ h ih => exact ih.step h

theorem InvT.empty : InvT St.empty :=
  ⟨(by intro k t h; cases h), (by intro k t h; rcases h with h | h <;> cases h), List.nodup_nil,
   (by intro k t h; cases h), (by intro k k' t h; cases h)⟩

theorem run_invT (w : World) (ops : List Op) : InvT (run w ops) :=
  InvT.empty.steps (run_steps w ops).1

end C22
