import ElvModel.C22.Spec
/-!
C22: what `filepath.Clean(dir + "/" + spec)` means — walking from `dir`.
-/
namespace C22

theorem foldl_cleanStep_walk (sp : Str) : ∀ stk : List Comp,
    (sp.foldl cleanStep stk).reverse = walk stk.reverse sp := by
  induction sp with
  | nil => intro stk; rfl
  | cons c cs ih =>
    intro stk
    simp only [List.foldl_cons, walk, cleanStep]
    split
    · exact ih stk
    · split
      · rw [ih]; congr 1
        cases stk with
        | nil => rfl
        | cons a r => simp
      · rw [ih]; simp

theorem foldl_cleanStep_plain (d : List Comp) (h : ∀ c ∈ d, Plain c) : ∀ stk : List Comp,
    d.foldl cleanStep stk = d.reverse ++ stk := by
  induction d with
  | nil => intro stk; rfl
  | cons c d ih =>
    intro stk
    have hc := h c List.mem_cons_self
    have : cleanStep stk c = c :: stk := by
      unfold cleanStep
      simp [hc.1, hc.2.1, hc.2.2]
    simp only [List.foldl_cons, this]
    rw [ih (fun x hx => h x (List.mem_cons_of_mem _ hx))]
    simp

theorem foldl_cleanStep_pathStr (d : List Comp) (h : ∀ c ∈ d, Plain c) :
    (pathStr d).foldl cleanStep [] = d.reverse := by
  unfold pathStr
  split
  · rename_i e; subst e; simp [cleanStep]
  · simp only [List.foldl_cons]
    have : cleanStep [] "" = [] := by simp [cleanStep]
    rw [this, foldl_cleanStep_plain d h]; simp

/-- a clean path is a fixed point of `Clean` -/
theorem cleanAbs_pathStr (d : List Comp) (h : ∀ c ∈ d, Plain c) : cleanAbs (pathStr d) = d := by
  unfold cleanAbs; rw [foldl_cleanStep_pathStr d h]; simp

/-- `Clean(dir + "/" + spec)` is the walk from `dir` along `spec` -/
theorem joinClean_walk (d : List Comp) (h : ∀ c ∈ d, Plain c) (sp : Str) :
    joinClean d sp = walk d sp := by
  unfold joinClean cleanAbs
  rw [List.foldl_append, foldl_cleanStep_pathStr d h, foldl_cleanStep_walk]; simp

theorem walk_plain_result (sp : Str) : ∀ d : List Comp, (∀ c ∈ d, Plain c) → ∀ c ∈ walk d sp, Plain c := by
  induction sp with
  | nil => intro d h; exact h
  | cons c cs ih =>
    intro d h
    simp only [walk]
    split
    · exact ih d h
    · rename_i h1
      split
      · exact ih _ (fun x hx => h x ((List.dropLast_sublist d).subset hx))
      · rename_i h2
        apply ih
        intro x hx
        rcases List.mem_append.mp hx with hx | hx
        · exact h x hx
        · simp only [List.mem_singleton] at hx; subst hx
          exact ⟨fun e => h1 (.inl e), fun e => h1 (.inr e), h2⟩

end C22
