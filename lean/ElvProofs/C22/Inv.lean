import ElvProofs.C22.Trace
import ElvModel.C22.Spec
/-!
C22, step 2: invariants of guarded steps.
-/
namespace C22

/-! ### the cache as a finite map -/

theorem mget_mdel_same (m : Mods) (k : Key) : mget (mdel m k) k = none := by
  induction m with
  | nil => rfl
  | cons p m ih =>
    obtain ⟨k', v⟩ := p
    by_cases h : k' = k
    · simp [mdel, h] at ih ⊢; exact ih
    · simp [mdel, h, mget, assoc] at ih ⊢; exact ih

theorem mget_mdel_other (m : Mods) (k k' : Key) (h : k ≠ k') : mget (mdel m k) k' = mget m k' := by
  induction m with
  | nil => rfl
  | cons p m ih =>
    obtain ⟨k1, v⟩ := p
    by_cases h1 : k1 = k
    · subst h1
      simp [mdel, mget, assoc, h] at ih ⊢; exact ih
    · by_cases h2 : k1 = k'
      · subst h2; simp [mdel, mget, assoc, h1]
      · simp [mdel, mget, assoc, h1, h2] at ih ⊢; exact ih

theorem mget_mset_same (m : Mods) (k : Key) (v : Nat) : mget (mset m k v) k = some v := by
  simp [mset, mget, assoc]

theorem mget_mset_other (m : Mods) (k k' : Key) (v : Nat) (h : k ≠ k') :
    mget (mset m k v) k' = mget m k' := by
  simp only [mset, mget, assoc, h, if_false]
  exact mget_mdel_other m k k' h

structure Inv (s : St) : Prop where
  stackIn : ∀ k t, (k, t) ∈ s.stack → mget s.mods k = some t
  nodup : (s.stack.map Prod.fst).Nodup
  coherent : ∀ k, mget s.mods k = live s.log k
  doneIn : ∀ k t, Ev.done k t ∈ s.log → mget s.mods k = some t
  openNotDone : ∀ k t, (k, t) ∈ s.stack → Ev.done k t ∉ s.log
  wf : WF s.log

theorem countDone_zero_of {l : List Ev} {k : Key} (h : ∀ t, Ev.done k t ∉ l) : countDone l k = 0 := by
  unfold countDone
  rw [List.countP_eq_zero]
  intro e he
  cases e <;> simp
  rename_i k' t
  intro hk; subst hk; exact h t he

theorem Inv.step {s s' : St} (inv : Inv s) (st : Step s s') : Inv s' := by
  cases st with
  | start k h =>
    refine ⟨?_, ?_, ?_, ?_, ?_, ?_⟩
    · intro k' t' hm
      simp only [List.mem_cons, Prod.mk.injEq] at hm
      rcases hm with ⟨rfl, rfl⟩ | hm
      · exact mget_mset_same _ _ _
      · have := inv.stackIn k' t' hm
        have hne : k ≠ k' := by intro e; subst e; rw [h] at this; cases this
        rw [mget_mset_other _ _ _ _ hne]; exact this
    · simp only [List.map_cons, List.nodup_cons]
      refine ⟨?_, inv.nodup⟩
      intro hmem
      rw [List.mem_map] at hmem
      obtain ⟨⟨k', t'⟩, hm, rfl⟩ := hmem
      have := inv.stackIn k' t' hm
      simp only at h
      rw [h] at this; cases this
    · intro k'
      simp only [live]
      by_cases e : k = k'
      · subst e; simp [mget_mset_same]
      · simp [e, mget_mset_other _ _ _ _ e]; exact inv.coherent k'
    · intro k' t' hm
      simp only [List.mem_cons] at hm
      rcases hm with hm | hm
      · cases hm
      · have := inv.doneIn k' t' hm
        have hne : k ≠ k' := by intro e; subst e; rw [h] at this; cases this
        rw [mget_mset_other _ _ _ _ hne]; exact this
    · intro k' t' hm hd
      simp only [List.mem_cons, Prod.mk.injEq] at hm hd
      rcases hd with hd | hd
      · cases hd
      · rcases hm with ⟨rfl, rfl⟩ | hm
        · have := inv.doneIn _ _ hd; rw [h] at this; cases this
        · exact inv.openNotDone k' t' hm hd
    · exact ⟨inv.wf, by show live s.log k = none; rw [← inv.coherent k]; exact h⟩
  | done k t rest h =>
    have hhead : (k, t) ∈ s.stack := by rw [h]; exact List.mem_cons_self
    have hnd := inv.nodup
    rw [h] at hnd
    simp only [List.map_cons, List.nodup_cons] at hnd
    refine ⟨?_, hnd.2, ?_, ?_, ?_, ?_⟩
    · intro k' t' hm
      exact inv.stackIn k' t' (by rw [h]; exact List.mem_cons_of_mem _ hm)
    · intro k'; simp only [live]; exact inv.coherent k'
    · intro k' t' hm
      simp only [List.mem_cons] at hm
      rcases hm with hm | hm
      · injection hm with h1 h2; subst h1; subst h2; exact inv.stackIn _ _ hhead
      · exact inv.doneIn k' t' hm
    · intro k' t' hm hd
      simp only [List.mem_cons] at hd
      rcases hd with hd | hd
      · injection hd with h1 h2; subst h1; subst h2
        exact hnd.1 (List.mem_map.mpr ⟨(k', t'), hm, rfl⟩)
      · exact inv.openNotDone k' t' (by rw [h]; exact List.mem_cons_of_mem _ hm) hd
    · refine ⟨inv.wf, (?_ : live s.log k = some t ∧ countDone s.log k = 0)⟩
      refine ⟨?_, ?_⟩
      · rw [← inv.coherent k]; exact inv.stackIn _ _ hhead
      · apply countDone_zero_of
        intro t0 h0
        have h1 := inv.doneIn k t0 h0
        rw [inv.stackIn _ _ hhead] at h1
        injection h1 with h1; subst h1
        exact inv.openNotDone _ _ hhead h0
  | failed k t rest h =>
    have hhead : (k, t) ∈ s.stack := by rw [h]; exact List.mem_cons_self
    have hnd := inv.nodup
    rw [h] at hnd
    simp only [List.map_cons, List.nodup_cons] at hnd
    have hne : ∀ k' t', (k', t') ∈ rest → k ≠ k' := by
      intro k' t' hm e; subst e
      exact hnd.1 (List.mem_map.mpr ⟨(k, t'), hm, rfl⟩)
    have hnotdone : ∀ t', Ev.done k t' ∉ s.log := by
      intro t0 h0
      have h1 := inv.doneIn k t0 h0
      rw [inv.stackIn _ _ hhead] at h1
      injection h1 with h1; subst h1
      exact inv.openNotDone _ _ hhead h0
    refine ⟨?_, hnd.2, ?_, ?_, ?_, ?_⟩
    · intro k' t' hm
      rw [mget_mdel_other _ _ _ (hne k' t' hm)]
      exact inv.stackIn k' t' (by rw [h]; exact List.mem_cons_of_mem _ hm)
    · intro k'
      simp only [live]
      by_cases e : k = k'
      · subst e; simp [mget_mdel_same]
      · simp [e, mget_mdel_other _ _ _ e]; exact inv.coherent k'
    · intro k' t' hm
      simp only [List.mem_cons] at hm
      rcases hm with hm | hm
      · cases hm
      · have hk : k ≠ k' := by intro e; subst e; exact hnotdone t' hm
        rw [mget_mdel_other _ _ _ hk]; exact inv.doneIn k' t' hm
    · intro k' t' hm hd
      simp only [List.mem_cons] at hd
      rcases hd with hd | hd
      · cases hd
      · exact inv.openNotDone k' t' (by rw [h]; exact List.mem_cons_of_mem _ hm) hd
    · refine ⟨inv.wf, (?_ : live s.log k = some t ∧ Ev.done k t ∉ s.log)⟩
      refine ⟨?_, hnotdone t⟩
      rw [← inv.coherent k]; exact inv.stackIn _ _ hhead
  | hit k t h =>
    refine ⟨inv.stackIn, inv.nodup, ?_, ?_, ?_, ?_⟩
    · intro k'; simp only [St.emit, live]; exact inv.coherent k'
    · intro k' t' hm
      simp only [St.emit, List.mem_cons] at hm
      rcases hm with hm | hm
      · cases hm
      · exact inv.doneIn k' t' hm
    · intro k' t' hm hd
      simp only [St.emit, List.mem_cons] at hd
      rcases hd with hd | hd
      · cases hd
      · exact inv.openNotDone k' t' hm hd
    · exact ⟨inv.wf, by show live s.log k = some t; rw [← inv.coherent k]; exact h⟩
  | got b sp k t n h hb =>
    refine ⟨inv.stackIn, inv.nodup, ?_, ?_, ?_, ?_⟩
    · intro k'; simp only [St.emit, live]; exact inv.coherent k'
    · intro k' t' hm
      simp only [St.emit, List.mem_cons] at hm
      rcases hm with hm | hm
      · cases hm
      · exact inv.doneIn k' t' hm
    · intro k' t' hm hd
      simp only [St.emit, List.mem_cons] at hd
      rcases hd with hd | hd
      · cases hd
      · exact inv.openNotDone k' t' hm hd
    · refine ⟨inv.wf, (?_ : live s.log k = some t)⟩
      have hwf := inv.wf
      cases hl : s.log with
      | nil => rw [hl] at h; simp at h
      | cons e l =>
        rw [hl] at h hwf
        simp only [List.head?_cons, Option.some.injEq] at h
        rcases h with rfl | rfl
        · simpa [live] using hwf.2
        · simpa [live] using hwf.2.1
  | def_ b =>
    refine ⟨inv.stackIn, inv.nodup, ?_, ?_, ?_, ⟨inv.wf, trivial⟩⟩
    · intro k'; simp only [St.emit, live]; exact inv.coherent k'
    · intro k' t' hm
      simp only [St.emit, List.mem_cons] at hm
      rcases hm with hm | hm
      · cases hm
      · exact inv.doneIn k' t' hm
    · intro k' t' hm hd
      simp only [St.emit, List.mem_cons] at hd
      rcases hd with hd | hd
      · cases hd
      · exact inv.openNotDone k' t' hm hd
  | caught b =>
    refine ⟨inv.stackIn, inv.nodup, ?_, ?_, ?_, ⟨inv.wf, trivial⟩⟩
    · intro k'; simp only [St.emit, live]; exact inv.coherent k'
    · intro k' t' hm
      simp only [St.emit, List.mem_cons] at hm
      rcases hm with hm | hm
      · cases hm
      · exact inv.doneIn k' t' hm
    · intro k' t' hm hd
      simp only [St.emit, List.mem_cons] at hd
      rcases hd with hd | hd
      · cases hd
      · exact inv.openNotDone k' t' hm hd

theorem Inv.steps {s s' : St} (inv : Inv s) (st : Steps s s') : Inv s' := by
  induction st with
  | refl => exact inv
  | tail _ h ih => exact ih.step h

theorem Inv.empty : Inv St.empty :=
  ⟨(by intro k t h; cases h), List.nodup_nil, fun _ => rfl, (by intro k t h; cases h),
   (by intro k t h; cases h), trivial⟩

end C22
