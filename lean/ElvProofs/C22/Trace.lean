import ElvModel.C22.Model
/-!
C22, step 1: every run of the model is a sequence of guarded primitive
transitions (`Step`).  The guards are exactly what the code checks locally
(`modules[k]` absent before an evaluation starts, present for a cache hit) or
what the call structure gives (the evaluation that completes / fails is the
innermost one in progress).  All history theorems are then invariants of
`Step`, proved without looking at the recursive functions again.
-/
namespace C22

inductive Step : St → St → Prop
  | start (s : St) (k : Key) (h : mget s.mods k = none) :
      Step s ⟨mset s.mods k s.next, s.next + 1, (k, s.next) :: s.stack, .start k s.next :: s.log⟩
  | done (s : St) (k : Key) (t : Nat) (rest : List (Key × Nat)) (h : s.stack = (k, t) :: rest) :
      Step s ⟨s.mods, s.next, rest, .done k t :: s.log⟩
  | failed (s : St) (k : Key) (t : Nat) (rest : List (Key × Nat)) (h : s.stack = (k, t) :: rest) :
      Step s ⟨mdel s.mods k, s.next, rest, .failed k t :: s.log⟩
  | hit (s : St) (k : Key) (t : Nat) (h : mget s.mods k = some t) : Step s (s.emit (.hit k t))
  | got (s : St) (b : Option Nat) (sp : Str) (k : Key) (t n : Nat)
      (h : s.log.head? = some (.hit k t) ∨ s.log.head? = some (.done k t))
      (hb : b = (s.stack.head?).map Prod.snd) :
      Step s (s.emit (.got b sp k t n))
  | def_ (s : St) (b : Option Nat) : Step s (s.emit (.def_ b))
  | caught (s : St) (b : Option Nat) : Step s (s.emit (.caught b))

inductive Steps : St → St → Prop
  | refl (s : St) : Steps s s
  | tail {a b c : St} : Steps a b → Step b c → Steps a c

theorem Steps.trans {a b c : St} (h1 : Steps a b) (h2 : Steps b c) : Steps a c := by
  induction h2 with
  | refl => exact h1
  | tail _ st ih => exact .tail ih st

theorem Steps.one {a b : St} (h : Step a b) : Steps a b := .tail (.refl a) h

/-- what a call of `use` guarantees -/
structure Good (s s' : St) (r : R) : Prop where
  steps : Steps s s'
  stack : s'.stack = s.stack
  head : ∀ k t, r = .ok k t → s'.log.head? = some (.hit k t) ∨ s'.log.head? = some (.done k t)

def RecOK (rec : Rec) : Prop := ∀ cx s sp, Good s (rec cx s sp).1 (rec cx s sp).2

theorem runBody_good (rec : Rec) (hrec : RecOK rec) (cx : Cx) (acts : List Act) :
    ∀ s : St, cx.tok = (s.stack.head?).map Prod.snd →
      Steps s (runBody rec cx acts s).1 ∧ (runBody rec cx acts s).1.stack = s.stack := by
  induction acts with
  | nil => intro s _; exact ⟨.refl s, rfl⟩
  | cons a as ih =>
    intro s hcx
    cases a with
    | def_ =>
      simp only [runBody]
      have := ih (s.emit (.def_ cx.tok)) hcx
      exact ⟨(Steps.one (.def_ s cx.tok)).trans this.1, this.2⟩
    | fail => exact ⟨.refl s, rfl⟩
    | failUntil n =>
      simp only [runBody]
      split
      · exact ⟨.refl s, rfl⟩
      · exact ih s hcx
    | use sp =>
      simp only [runBody]
      have g := hrec cx s sp
      revert g
      generalize rec cx s sp = p
      obtain ⟨s', r⟩ := p
      intro g
      cases r with
      | ok k t =>
        simp only
        have hst : (s'.emit (.got cx.tok sp k t (seenDefs s'.log t))).stack = s.stack := g.stack
        have hcx' : cx.tok = ((s'.emit (.got cx.tok sp k t (seenDefs s'.log t))).stack.head?).map Prod.snd := by
          rw [hst]; exact hcx
        have := ih _ hcx'
        refine ⟨(g.steps.trans (Steps.one (.got s' cx.tok sp k t _ (g.head k t rfl) ?_))).trans this.1, ?_⟩
        · rw [g.stack]; exact hcx
        · rw [this.2]; exact hst
      | err d c => exact ⟨g.steps, g.stack⟩
    | tryUse sp =>
      simp only [runBody]
      have g := hrec cx s sp
      revert g
      generalize rec cx s sp = p
      obtain ⟨s', r⟩ := p
      intro g
      cases r with
      | ok k t =>
        simp only
        have hst : (s'.emit (.got cx.tok sp k t (seenDefs s'.log t))).stack = s.stack := g.stack
        have hcx' : cx.tok = ((s'.emit (.got cx.tok sp k t (seenDefs s'.log t))).stack.head?).map Prod.snd := by
          rw [hst]; exact hcx
        have := ih _ hcx'
        refine ⟨(g.steps.trans (Steps.one (.got s' cx.tok sp k t _ (g.head k t rfl) ?_))).trans this.1, ?_⟩
        · rw [g.stack]; exact hcx
        · rw [this.2]; exact hst
      | err d c =>
        cases c with
        | fuel => exact ⟨g.steps, g.stack⟩
        | nosuch | bad | fail =>
          simp only
          have hst : (s'.emit (.caught cx.tok)).stack = s.stack := g.stack
          have := ih (s'.emit (.caught cx.tok)) (by rw [hst]; exact hcx)
          exact ⟨(g.steps.trans (Steps.one (.caught s' cx.tok))).trans this.1, by rw [this.2]; exact hst⟩

theorem evalModule_good (rec : Rec) (hrec : RecOK rec) (key : Key) (base : Option (List Comp))
    (body : List Act) (s : St) (habs : mget s.mods key = none) :
    Good s (evalModule rec key base body s).1 (evalModule rec key base body s).2 := by
  unfold evalModule
  simp only
  have hb := runBody_good rec hrec { base := base, tok := some s.next, key := key } body
    ⟨mset s.mods key s.next, s.next + 1, (key, s.next) :: s.stack, .start key s.next :: s.log⟩ rfl
  revert hb
  generalize runBody rec { base := base, tok := some s.next, key := key } body
    ⟨mset s.mods key s.next, s.next + 1, (key, s.next) :: s.stack, .start key s.next :: s.log⟩ = p
  obtain ⟨s2, c⟩ := p
  intro hb
  obtain ⟨hsteps, hstack⟩ := hb
  simp only at hsteps hstack
  have h0 := Steps.one (Step.start s key habs)
  cases c with
  | none =>
    simp only [hstack, List.drop_succ_cons, List.drop_zero]
    refine ⟨(h0.trans hsteps).trans (Steps.one ?_), rfl, ?_⟩
    · have := Step.done s2 key s.next s.stack hstack
      exact this
    · intro k t h; injection h with h1 h2; subst h1; subst h2; right; rfl
  | some c =>
    simp only [hstack, List.drop_succ_cons, List.drop_zero]
    refine ⟨(h0.trans hsteps).trans (Steps.one ?_), rfl, ?_⟩
    · exact Step.failed s2 key s.next s.stack hstack
    · intro k t h; cases h

theorem useFromFile_good (w : World) (rec : Rec) (hrec : RecOK rec) (s : St) (p : List Comp) :
    Good s (useFromFile w rec s p).1 (useFromFile w rec s p).2 := by
  unfold useFromFile
  simp only
  split
  · rename_i t ht
    exact ⟨Steps.one (.hit s _ t ht), rfl, by intro k t' h; injection h with h1 h2; subst h1; subst h2; left; rfl⟩
  · rename_i hn
    split
    · exact ⟨.refl s, rfl, by intro k t h; cases h⟩
    · exact ⟨.refl s, rfl, by intro k t h; cases h⟩
    · exact evalModule_good rec hrec _ _ _ s hn

theorem useLib_good (w : World) (rec : Rec) (hrec : RecOK rec) (sp : Str) (ds : List (List Comp)) :
    ∀ s, Good s (useLib w rec sp ds s).1 (useLib w rec sp ds s).2 := by
  induction ds with
  | nil => intro s; exact ⟨.refl s, rfl, by intro k t h; cases h⟩
  | cons d ds ih =>
    intro s
    simp only [useLib]
    have g := useFromFile_good w rec hrec s (joinClean d sp)
    revert g
    generalize useFromFile w rec s (joinClean d sp) = p
    obtain ⟨s', r⟩ := p
    intro g
    split
    · rename_i s'' heq
      injection heq with h1 h2
      subst h1
      have g2 := ih s'
      exact ⟨g.steps.trans g2.steps, by rw [g2.stack, g.stack], g2.head⟩
    · exact g

theorem useStep_good (w : World) (cwd : List Comp) (rec : Rec) (hrec : RecOK rec) :
    RecOK (useStep w cwd rec) := by
  intro cx s sp
  unfold useStep
  split
  · exact useFromFile_good w rec hrec s _
  · split
    · rename_i t ht
      exact ⟨Steps.one (.hit s _ t ht), rfl, by intro k t' h; injection h with h1 h2; subst h1; subst h2; left; rfl⟩
    · rename_i hn
      split
      · exact evalModule_good rec hrec _ _ _ s hn
      · exact useLib_good w rec hrec sp _ s

theorem useSpec_good (w : World) (cwd : List Comp) : ∀ f, RecOK (useSpec w cwd f)
  | 0 => fun _ s _ => ⟨.refl s, rfl, by intro k t h; cases h⟩
  | f + 1 => useStep_good w cwd _ (useSpec_good w cwd f)

end C22
