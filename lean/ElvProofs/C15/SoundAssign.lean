/-
C15 static-scope soundness: triples that track the resolver's scope through
declarations (`TrF`), lvalues, assignment, `del`.
-/
import ElvProofs.C15.SoundCall
set_option linter.unusedSimpArgs false
set_option linter.unusedVariables false
namespace C15

variable {α β : Type}

/-- `m` takes a state whose scope chain agrees with `sc` to one that agrees
with `sc'`; where declarations are not allowed (`decl = false`) the scope
chain stays the one of `s0`, also when an exception is thrown. -/
def TrF (decl : Bool) (s0 : St) (sc sc' : SScope) (m : M α) (R : α → Prop) : Prop :=
  Tr (fun s => Agree s.scope sc ∧ (decl = false → s.scope = s0.scope)) m
    (fun a s' => (Agree s'.scope sc' ∧ (decl = false → s'.scope = s0.scope)) ∧ R a)
    (fun s' => decl = false → s'.scope = s0.scope)

namespace TrF
variable {decl : Bool} {s0 : St} {sc sc1 sc2 : SScope}

theorem bind {m : M α} {f : α → M β} {R : α → Prop} {R' : β → Prop}
    (h1 : TrF decl s0 sc sc1 m R) (h2 : ∀ a, R a → TrF decl s0 sc1 sc2 (f a) R') :
    TrF decl s0 sc sc2 (m >>= f) R' := by
  refine Tr.bind h1 ?_
  intro a s hs ⟨hp, hr⟩
  exact h2 a hr s hs hp

theorem ofKeeps {m : M α} {R : α → Prop} (h : ∀ s1, Agree s1.scope sc → Keeps s1 R m) :
    TrF decl s0 sc sc m R := by
  intro s hs ⟨hag, hd⟩
  refine wp_mono (h s hag s hs rfl) ?_ ?_
  · intro a s' ⟨h1, h2, h3⟩
    exact ⟨h1, ⟨by rw [h2]; exact hag, fun hf => h2.trans (hd hf)⟩, h3⟩
  · intro e s' ⟨h1, h2, h3⟩
    exact ⟨h1, h2, fun hf => h3.trans (hd hf)⟩

theorem pure {a : α} {R : α → Prop} (h : R a) : TrF decl s0 sc sc (Pure.pure a : M α) R :=
  Tr.pure (fun s _ hp => ⟨hp, h⟩)

theorem mono {m : M α} {R R' : α → Prop} (h : TrF decl s0 sc sc1 m R) (hr : ∀ a, R a → R' a) :
    TrF decl s0 sc sc1 m R' :=
  Tr.conseq h (fun _ _ h => h) (fun a s _ ⟨h1, h2⟩ => ⟨h1, hr a h2⟩) (fun _ h => h)

/-- After `getSt` the current state is the one obtained. -/
theorem getSt_bind {f : St → M β} {R' : β → Prop}
    (h : ∀ t, StWf t → Agree t.scope sc → (decl = false → t.scope = s0.scope) →
      Tr (fun s => s = t) (f t)
        (fun a s' => (Agree s'.scope sc1 ∧ (decl = false → s'.scope = s0.scope)) ∧ R' a)
        (fun s' => decl = false → s'.scope = s0.scope)) :
    TrF decl s0 sc sc1 (getSt >>= f) R' := by
  intro s hs hp
  rw [wp_bind, wp_getSt]
  exact h s hs hp.1 hp.2 s hs rfl

/-- Back from "the state is `t`" to the scope-tracking form. -/
theorem atState {t : St} {m : M α} {R : α → Prop} (hag : Agree t.scope sc)
    (hd : decl = false → t.scope = s0.scope) (h : TrF decl s0 sc sc1 m R) :
    Tr (fun s => s = t) m
      (fun a s' => (Agree s'.scope sc1 ∧ (decl = false → s'.scope = s0.scope)) ∧ R a)
      (fun s' => decl = false → s'.scope = s0.scope) :=
  Tr.conseq h (fun s _ he => by subst he; exact ⟨hag, hd⟩) (fun _ _ _ h => h) (fun _ h => h)

/-- `var`: the new variable is declared in both scopes. -/
theorem declare (x : String) {v : Value} (hv : VWf v) :
    TrF true s0 sc (sc.declare x) (declare x v) (fun _ => True) := by
  intro s hs ⟨hag, _⟩
  show FM.wp (C15.declare x v s) _ _
  unfold C15.declare
  split
  · trivial
  · rename_i f rest hsc
    rw [hsc] at hag
    exact ⟨(hs.pushHeap hv).setScope _, ⟨agree_declare hag x _, fun h => by cases h⟩, trivial⟩

theorem undeclare {x : String} {sc' : SScope} (hu : sc.undeclare x = some sc') :
    TrF true s0 sc sc' (undeclare x) (fun _ => True) := by
  intro s hs ⟨hag, _⟩
  show FM.wp (C15.undeclare x s) _ _
  unfold C15.undeclare
  split
  · trivial
  · rename_i f rest hsc
    rw [hsc] at hag
    obtain ⟨hag', a, ha⟩ := agree_undeclare hag hu
    simp only [ha]
    exact ⟨hs.setScope _, ⟨hag', fun h => by cases h⟩, trivial⟩

theorem declareAll {names : List String} {vals : List Value} (hv : VsWf vals)
    (hl : names.length = vals.length) :
    TrF true s0 sc (sc.declareAll names) (declareAll names vals) (fun _ => True) := by
  induction names generalizing vals sc with
  | nil => exact pure trivial
  | cons x xs ih =>
    cases vals with
    | nil => simp at hl
    | cons v vs =>
      unfold C15.declareAll
      exact bind (declare x hv.head) (fun _ _ => ih hv.tail (by simpa using hl))

end TrF

/-! ### lvalues -/

variable {s0 : St} {sc : SScope}

theorem Keeps.evalIdx (hag : Agree s0.scope sc) {idx : List Expr} (h : rExprs sc idx = true) :
    Keeps s0 VsWf (evalIdx idx) := by
  induction idx with
  | nil => exact Keeps.pure VsWf.nil
  | cons e es ih =>
    simp only [rExprs, Bool.and_eq_true] at h
    unfold C15.evalIdx
    refine Keeps.bind (Keeps.recExpr hag h.1) (fun vs hvs => ?_)
    refine Keeps.bind (Keeps.one hvs) (fun v hv => ?_)
    exact Keeps.bind (ih h.2) (fun vs' hvs' => Keeps.pure (VsWf.cons hv hvs'))

def RefWf (r : Ref) : Prop := VsWf r.idx ∧ VWf r.snapshot

theorem Keeps.derefLVals (hag : Agree s0.scope sc) {lvs : List LVal} (h : rLVals sc lvs = true) :
    Keeps s0 (fun rs => ∀ r, r ∈ rs → RefWf r) (derefLVals lvs) := by
  induction lvs with
  | nil => exact Keeps.pure (by intro r hr; cases hr)
  | cons lv lvs ih =>
    obtain ⟨x, rest, idx⟩ := lv
    simp only [rLVals, Bool.and_eq_true] at h
    unfold C15.derefLVals
    refine Keeps.bind (R := RefWf) ?_ (fun r hr => Keeps.bind (ih h.2) (fun rs hrs => Keeps.pure ?_))
    · unfold derefLVal
      refine Keeps.bind (Keeps.lookupVar hag (assignable_has h.1.1)) (fun a _ => ?_)
      refine Keeps.bind (Keeps.evalIdx hag h.1.2) (fun ix hix => ?_)
      refine Keeps.bind (Keeps.readAddr a) (fun v hv => ?_)
      refine Keeps.bind (Keeps.liftE (checkPath_ok hv ix)) (fun _ _ => ?_)
      exact Keeps.pure ⟨hix, hv⟩
    · intro r' hr'
      cases hr' with
      | head => exact hr
      | tail _ h' => exact hrs _ h'

theorem Keeps.assignRef (cfg : Cfg) (tmp : Bool) {r : Ref} (hr : RefWf r) {v : Value} (hv : VWf v) :
    Keeps s0 (fun _ => True) (assignRef cfg tmp r v) := by
  unfold C15.assignRef
  refine Keeps.bind (Keeps.readAddr r.addr) (fun cur hcur => ?_)
  dsimp only
  have hbase : VWf (if cfg.staleElem = true then r.snapshot else cur) := by
    split
    · exact hr.2
    · exact hcur
  refine Keeps.bind (Keeps.liftE (assocPath_wf hbase hr.1 hv)) (fun new hnew => ?_)
  refine Keeps.bind (Keeps.writeAddr r.addr hnew) (fun _ _ => ?_)
  split
  · refine Keeps.modify (fun s hs => ⟨⟨hs.heap, hs.out, hs.inp, ?_⟩, rfl⟩)
    intro d hd
    cases hd with
    | head => exact hcur
    | tail _ h' => exact hs.defers d h'
  · exact Keeps.pure trivial

theorem Keeps.assignRefs (cfg : Cfg) (tmp : Bool) {rs : List Ref} (hrs : ∀ r, r ∈ rs → RefWf r)
    {vs : List Value} (hvs : VsWf vs) : Keeps s0 (fun _ => True) (assignRefs cfg tmp rs vs) := by
  induction rs generalizing vs with
  | nil => unfold C15.assignRefs; exact Keeps.pure trivial
  | cons r rs ih =>
    cases vs with
    | nil => unfold C15.assignRefs; exact Keeps.pure trivial
    | cons v vs =>
      unfold C15.assignRefs
      exact Keeps.bind (Keeps.assignRef cfg tmp (hrs r List.mem_cons_self) hvs.head)
        (fun _ _ => ih (fun r' h' => hrs r' (List.mem_cons_of_mem _ h')) hvs.tail)

/-- `del x[k]` -/
theorem Keeps.delElem (hag : Agree s0.scope sc) {x : String} {rest : Bool} {i : Expr} {is : List Expr}
    (hx : sc.assignable x = true) (hi : rExprs sc (i :: is) = true) :
    Keeps s0 (fun _ => True) (delLVal (.mk x rest (i :: is))) := by
  unfold delLVal
  dsimp only [LVal.idx, LVal.name]
  refine Keeps.bind (Keeps.lookupVar hag (assignable_has hx)) (fun a _ => ?_)
  refine Keeps.bind (Keeps.evalIdx hag hi) (fun ix hix => ?_)
  refine Keeps.bind (Keeps.readAddr a) (fun v hv => ?_)
  refine Keeps.bind (Keeps.liftE (dissocPath_wf hv hix)) (fun v' hv' => ?_)
  exact Keeps.writeAddr a hv'

theorem TrF.delLVals {decl : Bool} {lvs : List LVal} {sc' : SScope} (h : rDelLVals sc decl lvs = some sc') :
    TrF decl s0 sc sc' (delLVals lvs) (fun _ => True) := by
  induction lvs generalizing sc with
  | nil =>
    simp only [rDelLVals, Option.some.injEq] at h
    subst h
    exact TrF.pure trivial
  | cons lv lvs ih =>
    obtain ⟨x, rest, idx⟩ := lv
    unfold C15.delLVals
    cases idx with
    | nil =>
      simp only [rDelLVals] at h
      cases decl with
      | false => simp at h
      | true =>
        simp only [if_true] at h
        cases hu : sc.undeclare x with
        | none => rw [hu] at h; cases h
        | some sc1 =>
          rw [hu] at h
          refine TrF.bind (R := fun _ => True) (sc1 := sc1) ?_ (fun _ _ => ih h)
          exact TrF.undeclare hu
    | cons i is =>
      simp only [rDelLVals] at h
      split at h
      · rename_i hc
        simp only [Bool.and_eq_true] at hc
        exact TrF.bind (TrF.ofKeeps (fun s1 hag => Keeps.delElem hag hc.1 hc.2)) (fun _ _ => ih h)
      · cases h

end C15
