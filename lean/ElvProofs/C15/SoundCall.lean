/-
C15 static-scope soundness: calling a function value, function bodies.
-/
import ElvProofs.C15.SoundBuiltin
import ElvProofs.C15.Sem
set_option linter.unusedSimpArgs false
set_option linter.unusedVariables false
namespace C15

variable {s0 : St}

theorem Keeps.bindParams {names : List String} {vals : List Value} (hv : VsWf vals)
    (hl : names.length = vals.length) :
    Keeps s0 (fun fr => fr.map Prod.fst = names) (bindParams names vals) := by
  induction names generalizing vals with
  | nil => exact Keeps.pure rfl
  | cons x xs ih =>
    cases vals with
    | nil => simp at hl
    | cons v vs =>
      unfold C15.bindParams
      refine Keeps.bind Keeps.getSt (fun s hs => ?_)
      dsimp only
      refine Keeps.bind (Keeps.modify (fun t ht => ⟨ht.pushHeap hv.head, rfl⟩)) (fun _ _ => ?_)
      refine Keeps.bind (ih hv.tail (by simpa using hl)) (fun f hf => Keeps.pure ?_)
      simp [hf]

theorem Keeps.throwC_bind {α β : Type} {k : String} (h : k ≠ vnf) (f : α → M β) {R' : β → Prop} :
    Keeps s0 R' ((throwE ⟨k, []⟩ : M α) >>= f) :=
  Keeps.bind (R := fun _ => False) (Keeps.throwC h) (fun a h => h.elim)

theorem keeps_callValue {f : Value} (hf : VWf f) {args : List Value} (ha : VsWf args) (on : List String)
    {ov : List Value} (ho : VsWf ov) : Keeps s0 (fun _ => True) (callValue f args on ov) := by
  unfold callValue
  split
  · exact keeps_callBuiltin ha on ho
  · cases hf with
    | closure hlen hod hbody =>
      obtain ⟨sc', hag', hres⟩ := hbody
      rename_i id pos rest post onames odefs body env isFn
      dsimp only
      split
      · exact Keeps.throwC_bind (by decide) _
      · rename_i harity
        split
        · exact Keeps.throwC_bind (by decide) _
        · have hopt := optValues_wf (names := onames) hod on ho
          refine Keeps.bind (Keeps.bindParams ?_ ?_) (fun frame hfr => ?_)
          · refine ((VsWf.append (ha.take _) ?_).append (ha.drop _)).append hopt.1
            cases rest with
            | none => exact VsWf.nil
            | some r => exact VsWf.single (VWf.list ((ha.drop _).take _))
          · simp only [Bool.or_eq_true, Bool.and_eq_true, decide_eq_true_eq, bne_iff_ne, ne_eq, not_or, not_and,
              Nat.not_lt] at harity
            cases rest with
            | none =>
              have := harity.1 rfl
              simp only [List.length_append, List.length_take, List.length_drop, hopt.2, Option.toList,
                List.length_nil, hlen]
              simp at this
              omega
            | some r =>
              simp only [List.length_append, List.length_take, List.length_drop, hopt.2, Option.toList,
                List.length_cons, List.length_nil, hlen]
              omega
          · refine Keeps.bind (Keeps.recBody (sc' := (pos ++ rest.toList ++ post ++ onames).reverse :: sc')
              ⟨?_, hag'⟩ hres) (fun _ _ => Keeps.pure trivial)
            intro x
            rw [hfr]
            simp
            constructor <;> (intro h; rcases h with h | h | h | h <;> simp [h])
  · exact Keeps.throwC (by decide)

/-! ### Function bodies -/

theorem wp_runDefers (ds : List (Nat × Value)) (s : St) {Q : Unit → St → Prop} {QE : Exc → St → Prop} :
    wp (runDefers ds) s Q QE ↔ Q () (applyDefers ds s) := by
  induction ds generalizing s with
  | nil => exact Iff.rfl
  | cons d ds ih =>
    obtain ⟨a, v⟩ := d
    simp only [runDefers, wp_bind, writeAddr, wp_modifySt, ih, applyDefers]

theorem applyDefers_wf {ds : List (Nat × Value)} (hd : ∀ d, d ∈ ds → VWf d.2) {s : St} (hs : StWf s) :
    StWf (applyDefers ds s) := by
  induction ds generalizing s with
  | nil => exact hs
  | cons d ds ih =>
    obtain ⟨a, v⟩ := d
    exact ih (fun d h => hd d (List.mem_cons_of_mem _ h)) (hs.setHeap a (hd (a, v) List.mem_cons_self))

/-- A function body runs in its own scope and gives the caller's scope back. -/
theorem wp_runBody {c : Chunk} {frame : Frame} {env : Scope} (isFn : Bool) {s : St} (hs : StWf s)
    {sc : SScope} (hag : Agree (frame :: env) sc) (hr : rChunk sc c = true) :
    wp (runBody c frame env isFn) s (fun _ s' => StWf s' ∧ s'.scope = s.scope)
      (fun e s' => StWf s' ∧ EWf e ∧ s'.scope = s.scope) := by
  unfold runBody
  simp only [wp_bind, wp_getSt, wp_modifySt, wp_attempt, wp_rec, wp_runDefers]
  refine ⟨(sc, true), ⟨⟨hs.heap, hs.out, hs.inp, by intro d h; cases h⟩, hag, by rw [← rChunk_eq]; exact hr⟩, ?_⟩
  intro r s' ⟨h1, h2, h3⟩
  have hd := applyDefers_wf h1.defers h1
  have hfin : StWf { applyDefers s'.defers s' with scope := s.scope, defers := s.defers } :=
    ⟨hd.heap, hd.out, hd.inp, hs.defers⟩
  cases r with
  | ok vs => exact ⟨hfin, rfl⟩
  | error e =>
    dsimp only
    split
    · exact ⟨hfin, rfl⟩
    · exact ⟨hfin, h2, rfl⟩

end C15
