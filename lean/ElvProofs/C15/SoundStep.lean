/-
C15 static-scope soundness: every `step` satisfies its specification; hence
(by `run_sound`) every run does.
-/
import ElvProofs.C15.SoundForm
set_option linter.unusedSimpArgs false
set_option linter.unusedVariables false
namespace C15

variable {s0 : St} {sc : SScope}

namespace TrF
variable {d : Bool} {sc' : SScope}

theorem recForm {f : Form} (h : rForm sc d f = some sc') : TrF d s0 sc sc' (C15.rec (.form f)) VsWf := by
  intro s hs ⟨hag, hd⟩
  rw [wp_rec]
  refine ⟨(sc, d), ⟨hs, hag, by rw [h]; rfl⟩, ?_⟩
  intro r s' ⟨h1, h2, h3⟩
  cases r with
  | ok vs => exact ⟨h1, ⟨h3.2 vs rfl sc' h, fun hf => (h3.1 hf).trans (hd hf)⟩, h2⟩
  | error e => exact ⟨h1, h2, fun hf => (h3.1 hf).trans (hd hf)⟩

theorem recPipeline {p : Pipeline} (h : rPipes sc d [p] = some sc') :
    TrF d s0 sc sc' (C15.rec (.pipeline p)) VsWf := by
  intro s hs ⟨hag, hd⟩
  rw [wp_rec]
  refine ⟨(sc, d), ⟨hs, hag, by rw [h]; rfl⟩, ?_⟩
  intro r s' ⟨h1, h2, h3⟩
  cases r with
  | ok vs => exact ⟨h1, ⟨h3.2 vs rfl sc' h, fun hf => (h3.1 hf).trans (hd hf)⟩, h2⟩
  | error e => exact ⟨h1, h2, fun hf => (h3.1 hf).trans (hd hf)⟩

theorem recPipes {ps : List Pipeline} (h : rPipes sc d ps = some sc') :
    TrF d s0 sc sc' (C15.rec (.pipes ps)) VsWf := by
  intro s hs ⟨hag, hd⟩
  rw [wp_rec]
  refine ⟨(sc, d), ⟨hs, hag, by rw [h]; rfl⟩, ?_⟩
  intro r s' ⟨h1, h2, h3⟩
  cases r with
  | ok vs => exact ⟨h1, ⟨h3.2 vs rfl sc' h, fun hf => (h3.1 hf).trans (hd hf)⟩, h2⟩
  | error e => exact ⟨h1, h2, fun hf => (h3.1 hf).trans (hd hf)⟩

end TrF

/-- resolving a chunk = resolving its first pipeline, then the rest -/
theorem rPipes_cons (sc : SScope) (d : Bool) (p : Pipeline) (ps : List Pipeline) :
    rPipes sc d (p :: ps) = (rPipes sc d [p]).bind (fun sc1 => rPipes sc1 d ps) := by
  obtain ⟨fs⟩ := p
  cases fs with
  | nil => simp only [rPipes]; split <;> simp
  | cons f fs =>
    cases fs with
    | nil =>
      simp only [rPipes]
      cases rForm sc d f <;> simp
    | cons g gs => simp only [rPipes]; split <;> simp

/-- From a scope-keeping triple to the postcondition of a request whose `PostScope` is "scope unchanged". -/
theorem post_of_keeps {c : Call} {g : SScope × Bool} {s : St} {m : M (List Value)} {R : List Value → Prop}
    (hs : StWf s) (hk : Keeps s R m) (hR : ∀ vs, R vs → VsWf vs)
    (hps : ∀ r s', s'.scope = s.scope → (∀ vs, r = .ok vs → R vs) → PostScope c g.1 g.2 s r s') :
    wp m s (fun vs s' => Post c g s (.ok vs) s') (fun e s' => Post c g s (.error e) s') := by
  refine wp_mono (hk s hs rfl) ?_ ?_
  · intro vs s' ⟨h1, h2, h3⟩
    exact ⟨h1, hR vs h3, hps _ _ h2 (fun vs' he => by cases he; exact h3)⟩
  · intro e s' ⟨h1, h2, h3⟩
    exact ⟨h1, h2, hps _ _ h3 (fun vs' he => by cases he)⟩

theorem post_of_trF {c : Call} {d : Bool} {sc' : SScope} {s : St} {m : M (List Value)}
    (hs : StWf s) (hag : Agree s.scope sc) (hk : TrF d s sc sc' m VsWf)
    (hps : ∀ r s', (d = false → s'.scope = s.scope) → (∀ vs, r = .ok vs → Agree s'.scope sc') →
      PostScope c sc d s r s') :
    wp m s (fun vs s' => Post c (sc, d) s (.ok vs) s') (fun e s' => Post c (sc, d) s (.error e) s') := by
  refine wp_mono (hk s hs ⟨hag, fun _ => rfl⟩) ?_ ?_
  · intro vs s' ⟨h1, h2, h3⟩
    exact ⟨h1, h3, hps _ _ h2.2 (fun _ _ => h2.1)⟩
  · intro e s' ⟨h1, h2, h3⟩
    exact ⟨h1, h2, hps _ _ h3 (fun vs' he => by cases he)⟩

/-- `pipelineResult`: the exceptions of the commands are well-formed, so is the result. -/
theorem Keeps.pipelineResult {excs : List Value} (h : VsWf excs) : Keeps s0 (fun _ => True) (pipelineResult excs) := by
  unfold C15.pipelineResult
  split
  · exact Keeps.pure trivial
  · rename_i k p heq
    have hm : Value.exc k p ∈ List.filter _ excs := heq ▸ List.mem_singleton.mpr rfl
    exact Keeps.throw (EWf.ofExcValue (h _ (List.mem_filter.mp hm).1))
  · exact Keeps.throw ⟨(by decide : "pipeline" ≠ vnf), h⟩

theorem excOf_wf {r : Except Exc (List Value)} (h : EOk VsWf r) : VWf (excOf r) := by
  cases r with
  | ok _ => exact VWf.ok
  | error e => exact EWf.toValue h

/-- How a loop reacts to the outcome of one run of its body / function. -/
theorem Keeps.loopReact {r : Except Exc Unit} (hr : EOk (fun _ => True) r) {next : M (List Value)}
    (hn : Keeps s0 VsWf next) :
    Keeps s0 VsWf (match (generalizing := false) r with
      | .ok _ => next
      | .error e =>
        if e.kind == "continue" then next
        else if e.kind == "break" then Pure.pure []
        else throwE e) := by
  cases r with
  | ok _ => exact hn
  | error e =>
    dsimp only
    split
    · exact hn
    · split
      · exact Keeps.pure VsWf.nil
      · exact Keeps.throw hr

theorem Keeps.loopReact' {r : Except Exc (List Value)} (hr : EOk VsWf r) {next : M (List Value)}
    (hn : Keeps s0 VsWf next) :
    Keeps s0 VsWf (match (generalizing := false) r with
      | .ok _ => next
      | .error e =>
        if e.kind == "continue" then next
        else if e.kind == "break" then Pure.pure []
        else throwE e) := by
  cases r with
  | ok _ => exact hn
  | error e =>
    dsimp only
    split
    · exact hn
    · split
      · exact Keeps.pure VsWf.nil
      · exact Keeps.throw hr

theorem rPipes_multi_nil (sc : SScope) (d : Bool) :
    rPipes sc d [.mk []] = some sc := by
  simp [rPipes, rForms]

theorem rPipes_multi_cons (sc : SScope) (d : Bool) (f g : Form) (gs : List Form) :
    rPipes sc d [.mk (f :: g :: gs)] = if rForms sc (f :: g :: gs) then some sc else none := by
  simp only [rPipes]

theorem rPipes_single (sc : SScope) (d : Bool) (f : Form) :
    rPipes sc d [.mk [f]] = rForm sc d f := by
  simp only [rPipes]
  cases rForm sc d f <;> rfl

/-- The specification of one step of every request. -/
theorem step_sound (cfg : Cfg) (c : Call) (g : SScope × Bool) (s : St) (hp : Pre c g s) :
    wp (step cfg c) s (fun vs s' => Post c g s (.ok vs) s') (fun e s' => Post c g s (.error e) s') := by
  obtain ⟨sc, d⟩ := g
  obtain ⟨hs, hc⟩ := hp
  cases c with
  | expr e =>
    obtain ⟨hag, he⟩ := hc
    exact post_of_keeps hs (keeps_evalExpr hag e he) (fun _ h => h) (fun _ _ h _ => h)
  | exprs es =>
    obtain ⟨hag, he⟩ := hc
    cases es with
    | nil => exact post_of_keeps hs (Keeps.pure VsWf.nil) (fun _ h => h) (fun _ _ h _ => h)
    | cons e es =>
      simp only [rExprs, Bool.and_eq_true] at he
      refine post_of_keeps hs ?_ (fun _ h => h) (fun _ _ h _ => h)
      exact Keeps.bind (Keeps.recExpr hag he.1) (fun a ha =>
        Keeps.bind (Keeps.recExprs hag he.2) (fun b hb => Keeps.pure (ha.append hb)))
  | exprsEach es =>
    obtain ⟨hag, he⟩ := hc
    cases es with
    | nil =>
      exact post_of_keeps (R := fun vs => VsWf vs ∧ vs.length = 0) hs (Keeps.pure ⟨VsWf.nil, rfl⟩)
        (fun _ h => h.1) (fun r s' h hr => ⟨h, fun vs he => (hr vs he).2⟩)
    | cons e es =>
      simp only [rExprs, Bool.and_eq_true] at he
      refine post_of_keeps (R := fun vs => VsWf vs ∧ vs.length = es.length + 1) hs ?_
        (fun _ h => h.1) (fun r s' h hr => ⟨h, fun vs he => (hr vs he).2⟩)
      exact Keeps.bind (Keeps.recExpr hag he.1) (fun a ha =>
        Keeps.bind (Keeps.recExprsEach hag he.2) (fun b hb =>
          Keeps.pure ⟨VsWf.cons (VWf.list ha) hb.1, by simp [hb.2]⟩))
  | form f =>
    obtain ⟨hag, hf⟩ := hc
    obtain ⟨sc', hsc'⟩ := Option.isSome_iff_exists.mp hf
    refine post_of_trF hs hag (sc' := sc') ?_ ?_
    · exact TrF.bind (trF_evalForm cfg hsc') (fun _ _ => TrF.pure VsWf.nil)
    · intro r s' h1 h2
      exact ⟨h1, fun vs he sc'' hsc'' => by rw [hsc'] at hsc''; cases hsc''; exact h2 vs he⟩
  | pipeline p =>
    obtain ⟨hag, hf⟩ := hc
    obtain ⟨fs⟩ := p
    have hmulti : ∀ fs : List Form, rForms sc fs = true → rPipes sc d [.mk fs] = some sc →
        wp (do let t ← getSt; C15.rec (.stages fs t.inp true [])) s
          (fun vs s' => Post (.pipeline (.mk fs)) (sc, d) s (.ok vs) s')
          (fun e s' => Post (.pipeline (.mk fs)) (sc, d) s (.error e) s') := by
      intro fs hfs hres
      refine post_of_keeps hs ?_ (fun _ h => h) ?_
      · exact Keeps.bind Keeps.getSt (fun t ht => Keeps.recStages hag hfs ht.1.inp true VsWf.nil)
      · intro r s' h _
        refine ⟨fun _ => h, fun vs _ sc'' hsc'' => ?_⟩
        rw [hres] at hsc''
        cases hsc''
        rw [h]; exact hag
    cases fs with
    | nil => exact hmulti [] (by simp [rForms]) (rPipes_multi_nil sc d)
    | cons f fs =>
      cases fs with
      | nil =>
        rw [rPipes_single] at hf
        obtain ⟨sc', hsc'⟩ := Option.isSome_iff_exists.mp hf
        refine post_of_trF hs hag (sc' := sc') (TrF.recForm hsc') ?_
        intro r s' h1 h2
        refine ⟨h1, fun vs he sc'' hsc'' => ?_⟩
        rw [rPipes_single, hsc'] at hsc''
        cases hsc''
        exact h2 vs he
      | cons g gs =>
        rw [rPipes_multi_cons] at hf
        have hfs : rForms sc (f :: g :: gs) = true := by
          split at hf
          · assumption
          · cases hf
        exact hmulti (f :: g :: gs) hfs (by rw [rPipes_multi_cons, if_pos hfs])
  | pipes ps =>
    obtain ⟨hag, hf⟩ := hc
    cases ps with
    | nil =>
      refine post_of_keeps hs (Keeps.pure VsWf.nil) (fun _ h => h) ?_
      intro r s' h _
      refine ⟨fun _ => h, fun vs _ sc'' hsc'' => ?_⟩
      simp only [rPipes, Option.some.injEq] at hsc''
      subst hsc''
      rw [h]; exact hag
    | cons p ps =>
      obtain ⟨sc', hsc'⟩ := Option.isSome_iff_exists.mp hf
      have hsplit := hsc'
      rw [rPipes_cons] at hsplit
      cases h1 : rPipes sc d [p] with
      | none => rw [h1] at hsplit; cases hsplit
      | some sc1 =>
        rw [h1] at hsplit
        refine post_of_trF hs hag (sc' := sc') ?_ ?_
        · exact TrF.bind (TrF.recPipeline h1) (fun _ _ => TrF.recPipes hsplit)
        · intro r s' h1' h2
          exact ⟨h1', fun vs he sc'' hsc'' => by rw [hsc'] at hsc''; cases hsc''; exact h2 vs he⟩
  | body c frame env isFn =>
    obtain ⟨hag, hr⟩ := hc
    show wp (do runBody c frame env isFn; Pure.pure []) s _ _
    rw [wp_bind]
    refine wp_mono (wp_runBody isFn hs hag hr) ?_ ?_
    · intro _ s' ⟨h1, h2⟩; exact ⟨h1, VsWf.nil, h2⟩
    · intro e s' ⟨h1, h2, h3⟩; exact ⟨h1, h2, h3⟩
  | call f args on ov =>
    obtain ⟨hf, ha, ho⟩ := hc
    refine post_of_keeps hs ?_ (fun _ h => h) (fun _ _ h _ => h)
    exact Keeps.bind (keeps_callValue hf ha on ho) (fun _ _ => Keeps.pure VsWf.nil)
  | logicArgs k args last =>
    obtain ⟨hag, hargs, hlast⟩ := hc
    refine post_of_keeps hs ?_ (fun _ h => h) (fun _ _ h _ => h)
    cases args with
    | nil => exact Keeps.bind (Keeps.emit (VsWf.single hlast)) (fun _ _ => Keeps.pure VsWf.nil)
    | cons e es =>
      simp only [rExprs, Bool.and_eq_true] at hargs
      refine Keeps.bind (Keeps.recExpr hag hargs.1) (fun vs hvs => ?_)
      split
      · rename_i v hv
        exact Keeps.bind (Keeps.emit (VsWf.single (hvs _ (List.mem_of_find?_eq_some hv))))
          (fun _ _ => Keeps.pure VsWf.nil)
      · dsimp only
        refine Keeps.recLogicArgs hag k hargs.2 ?_
        split
        · exact hlast
        · exact hvs _ (List.mem_of_getLast? (by assumption))
        · exact hlast
  | ifChain conds bodies els =>
    obtain ⟨hag, hconds, hbodies, hels⟩ := hc
    refine post_of_keeps hs ?_ (fun _ h => h) (fun _ _ h _ => h)
    have helse : Keeps s VsWf (do runOptBlock els; Pure.pure []) :=
      Keeps.bind (Keeps.runOptBlock hag hels) (fun _ _ => Keeps.pure VsWf.nil)
    cases conds with
    | nil => exact helse
    | cons c cs =>
      cases bodies with
      | nil => exact helse
      | cons b bs =>
        simp only [rExprs, rBlocks, Bool.and_eq_true] at hconds hbodies
        refine Keeps.bind (Keeps.recExpr hag hconds.1) (fun vs hvs => ?_)
        split
        · exact Keeps.bind (Keeps.runBlock hag hbodies.1) (fun _ _ => Keeps.pure VsWf.nil)
        · exact Keeps.recIfChain hag hconds.2 hbodies.2 hels
  | whileLoop cond body els it =>
    obtain ⟨hag, hcond, hbody, hels⟩ := hc
    refine post_of_keeps hs ?_ (fun _ h => h) (fun _ _ h _ => h)
    refine Keeps.bind (Keeps.recExpr hag hcond) (fun vs hvs => ?_)
    split
    · refine Keeps.bind (Keeps.attempt (Keeps.runBlock hag hbody)) (fun r hr => ?_)
      exact Keeps.loopReact hr (Keeps.recWhileLoop hag true hcond hbody hels)
    · dsimp only
      split
      · exact Keeps.bind (Keeps.runOptBlock hag hels) (fun _ _ => Keeps.pure VsWf.nil)
      · exact Keeps.pure VsWf.nil
  | forLoop a items body els it =>
    obtain ⟨hag, hitems, hbody, hels⟩ := hc
    refine post_of_keeps hs ?_ (fun _ h => h) (fun _ _ h _ => h)
    cases items with
    | nil =>
      simp only [step]
      split
      · exact Keeps.bind (Keeps.runOptBlock hag hels) (fun _ _ => Keeps.pure VsWf.nil)
      · exact Keeps.pure VsWf.nil
    | cons v vs =>
      refine Keeps.bind (Keeps.writeAddr a hitems.head) (fun _ _ => ?_)
      refine Keeps.bind (Keeps.attempt (Keeps.runBlock hag hbody)) (fun r hr => ?_)
      exact Keeps.loopReact hr (Keeps.recForLoop hag a hitems.tail true hbody hels)
  | eachLoop f items =>
    obtain ⟨hf, hitems⟩ := hc
    refine post_of_keeps hs ?_ (fun _ h => h) (fun _ _ h _ => h)
    cases items with
    | nil => exact Keeps.pure VsWf.nil
    | cons v vs =>
      refine Keeps.bind (Keeps.attempt (Keeps.recCall hf (VsWf.single hitems.head) VsWf.nil)) (fun r hr => ?_)
      exact Keeps.loopReact' hr (Keeps.recEachLoop hf hitems.tail)
  | keepIfLoop f items =>
    obtain ⟨hf, hitems⟩ := hc
    refine post_of_keeps hs ?_ (fun _ h => h) (fun _ _ h _ => h)
    cases items with
    | nil => exact Keeps.pure VsWf.nil
    | cons v vs =>
      refine Keeps.bind Keeps.getSt (fun t ht => ?_)
      refine Keeps.bind (Keeps.modify (fun u hu => ⟨hu.setOut VsWf.nil, rfl⟩)) (fun _ _ => ?_)
      refine Keeps.bind (Keeps.attempt (Keeps.recCall hf (VsWf.single hitems.head) VsWf.nil)) (fun r hr => ?_)
      refine Keeps.bind Keeps.getSt (fun t' ht' => ?_)
      refine Keeps.bind (Keeps.modify (fun u hu => ⟨hu.setOut ht.1.out, rfl⟩)) (fun _ _ => ?_)
      refine Keeps.bind (Keeps.liftE hr) (fun _ _ => ?_)
      split
      · dsimp only
        split
        · exact Keeps.bind (Keeps.emit (VsWf.single hitems.head))
            (fun _ _ => Keeps.recKeepIfLoop hf hitems.tail)
        · exact Keeps.recKeepIfLoop hf hitems.tail
      · exact Keeps.throwC (by decide)
      · exact Keeps.throwC (by decide)
  | stages fs input first excs =>
    obtain ⟨hag, hfs, hinput, hexcs⟩ := hc
    refine post_of_keeps hs ?_ (fun _ h => h) (fun _ _ h _ => h)
    cases fs with
    | nil => exact Keeps.bind (Keeps.pipelineResult hexcs) (fun _ _ => Keeps.pure VsWf.nil)
    | cons f fs =>
      simp only [rForms, Bool.and_eq_true] at hfs
      refine Keeps.bind Keeps.getSt (fun t ht => ?_)
      dsimp only
      refine Keeps.bind (Keeps.modify (fun u hu => ⟨⟨hu.heap, ?_, ?_, hu.defers⟩, rfl⟩)) (fun _ _ => ?_)
      · dsimp only; split
        · exact hu.out
        · exact VsWf.nil
      · dsimp only; split
        · exact hu.inp
        · exact hinput
      refine Keeps.bind (Keeps.attempt (Keeps.recFormNoDecl hag hfs.1)) (fun r hr => ?_)
      refine Keeps.bind Keeps.getSt (fun t' ht' => ?_)
      refine Keeps.bind (Keeps.modify (fun u hu => ⟨⟨hu.heap, ?_, ?_, hu.defers⟩, rfl⟩)) (fun _ _ => ?_)
      · dsimp only; split
        · exact hu.out
        · exact ht.1.out
      · dsimp only; split
        · exact hu.inp
        · exact ht.1.inp
      exact Keeps.recStages hag hfs.2 ht'.1.out false (hexcs.append (VsWf.single (excOf_wf hr)))
  | mapPairs ks vs =>
    obtain ⟨hag, hks, hvs⟩ := hc
    refine post_of_keeps hs ?_ (fun _ h => h) (fun _ _ h _ => h)
    cases ks with
    | nil => exact Keeps.pure VsWf.nil
    | cons k ks =>
      cases vs with
      | nil => exact Keeps.pure VsWf.nil
      | cons v vs =>
        simp only [rExprs, Bool.and_eq_true] at hks hvs
        refine Keeps.bind (Keeps.recExpr hag hks.1) (fun kv hkv => ?_)
        refine Keeps.bind (Keeps.recExpr hag hvs.1) (fun vv hvv => ?_)
        dsimp only
        split
        · exact Keeps.throwC_bind (by decide) _
        · exact Keeps.bind (Keeps.recMapPairs hag hks.2 hvs.2)
            (fun rest hrest => Keeps.pure ((interleave_wf hkv hvv).append hrest))
  | compoundFrom acc es =>
    obtain ⟨hag, hacc, hes⟩ := hc
    refine post_of_keeps hs ?_ (fun _ h => h) (fun _ _ h _ => h)
    cases es with
    | nil => exact Keeps.pure hacc
    | cons e es =>
      simp only [rExprs, Bool.and_eq_true] at hes
      refine Keeps.bind (Keeps.recExpr hag hes.1) (fun us hus => ?_)
      refine Keeps.bind (Keeps.liftE (outer_wf acc us)) (fun acc' hacc' => ?_)
      exact Keeps.recCompoundFrom hag hacc' hes.2

/-! ### Whole programs -/

theorem initSt_wf : StWf initSt := by
  refine ⟨?_, VsWf.nil, VsWf.nil, by intro d h; cases h⟩
  exact VsWf.cons (VWf.bool _) (VsWf.cons (VWf.bool _) (VsWf.cons VWf.nil (VsWf.single VWf.ok)))

theorem agree_init : Agree initSt.scope initSScope := by
  refine ⟨frameAgree_nil, ⟨?_, trivial⟩⟩
  intro x
  simp

/-- A run of an accepted program from the initial state keeps the invariant. -/
theorem program_sound (cfg : Cfg) (n : Nat) (p : Chunk) (h : accepts p = true) :
    Holds (.pipes p.pipes) (initSScope, true) initSt (run cfg n (.pipes p.pipes) initSt) :=
  run_sound cfg (step_sound cfg) n _ _ _ ⟨initSt_wf, agree_init, h⟩

end C15
