/-
C15 helper lemmas: the static scope of the resolver and the dynamic scope of
the interpreter agree on which names are found, and stay in agreement under
declaration and deletion.
-/
import ElvProofs.C15.Basic
namespace C15

/-- The names of a dynamic scope chain. -/
def sscopeOf (sc : Scope) : SScope := sc.map (fun f => f.map Prod.fst)

theorem frame_find_isSome (f : Frame) (x : String) :
    (Frame.find f x).isSome = (f.map Prod.fst).contains x := by
  induction f with
  | nil => rfl
  | cons p f ih =>
    have hcomm : (x == p.1) = (p.1 == x) := BEq.comm
    unfold Frame.find at ih ⊢
    rw [List.find?_cons, List.map_cons, List.contains_cons, hcomm]
    cases h : (p.1 == x) with
    | true => simp
    | false => simpa using ih

/-- A name is found at run time iff the static scope has it. -/
theorem find_isSome_eq_has (sc : Scope) (x : String) :
    (sc.find x).isSome = (sscopeOf sc).has x := by
  induction sc with
  | nil => rfl
  | cons f rest ih =>
    have hf := frame_find_isSome f x
    show (match Frame.find f x with
        | some a => some a
        | none => Scope.find rest x).isSome =
      ((f.map Prod.fst) :: sscopeOf rest).any (·.contains x)
    rw [List.any_cons, ← hf]
    cases h : Frame.find f x with
    | some a => simp
    | none =>
      simp only [Option.isSome_none, Bool.false_or]
      exact ih

theorem map_fst_filter (f : Frame) (x : String) :
    (f.filter (fun p => p.1 != x)).map Prod.fst = (f.map Prod.fst).filter (· != x) := by
  induction f with
  | nil => rfl
  | cons p f ih =>
    simp only [List.filter, List.map]
    cases h : (p.1 != x) <;> simp [h, ih]

/-- Declaring a variable at run time and in the resolver keep the scopes in agreement. -/
theorem sscopeOf_declare (f : Frame) (rest : Scope) (x : String) (a : Nat) :
    sscopeOf (((x, a) :: f.filter (fun p => p.1 != x)) :: rest) = (sscopeOf (f :: rest)).declare x := by
  simp [sscopeOf, SScope.declare, map_fst_filter]

theorem sscopeOf_undeclare (f : Frame) (rest : Scope) (x : String)
    (h : (f.map Prod.fst).contains x = true) :
    (sscopeOf (f :: rest)).undeclare x = some (sscopeOf (f.filter (fun p => p.1 != x) :: rest)) := by
  show (if (f.map Prod.fst).contains x = true then
      some (((f.map Prod.fst).filter (· != x)) :: sscopeOf rest) else none) = _
  rw [if_pos h]
  simp [sscopeOf, map_fst_filter]

end C15
