/-
C15 static-scope soundness: the specification of every evaluator request
(`Pre`/`Post`: well-formed state, the code resolves against a static scope that
agrees with the dynamic one; afterwards the state is well-formed, results are
well-formed — in particular no exception of class "variable-not-found" — and
the scope chain is what the resolver predicts), a weakest-precondition
calculus over the free monad, and the generic soundness theorem: if every
`step` satisfies its specification assuming the specification of the requests
it makes, every `run` satisfies it (one induction on the fuel and on the
computation tree).
-/
import ElvProofs.C15.Vals
set_option linter.unusedSimpArgs false
set_option linter.unusedVariables false
namespace C15

/-- Well-formed state: every value in a variable, on the ports, or saved by `tmp` is well-formed. -/
structure StWf (s : St) : Prop where
  heap : VsWf s.heap
  out : VsWf s.out
  inp : VsWf s.inp
  defers : ∀ d, d ∈ s.defers → VWf d.2

/-- Static side of the precondition of a request: `sc` is the resolver's scope, `decl` whether declarations are allowed. -/
def PreC : Call → SScope → Bool → St → Prop
  | .expr e, sc, _, s => Agree s.scope sc ∧ rExpr sc e = true
  | .exprs es, sc, _, s => Agree s.scope sc ∧ rExprs sc es = true
  | .exprsEach es, sc, _, s => Agree s.scope sc ∧ rExprs sc es = true
  | .form f, sc, decl, s => Agree s.scope sc ∧ (rForm sc decl f).isSome = true
  | .pipeline p, sc, decl, s => Agree s.scope sc ∧ (rPipes sc decl [p]).isSome = true
  | .pipes ps, sc, decl, s => Agree s.scope sc ∧ (rPipes sc decl ps).isSome = true
  | .body c frame env _, sc, _, _ => Agree (frame :: env) sc ∧ rChunk sc c = true
  | .call f args _ ov, _, _, _ => VWf f ∧ VsWf args ∧ VsWf ov
  | .logicArgs _ args last, sc, _, s => Agree s.scope sc ∧ rExprs sc args = true ∧ VWf last
  | .ifChain conds bodies els, sc, _, s =>
    Agree s.scope sc ∧ rExprs sc conds = true ∧ rBlocks sc bodies = true ∧ rOptBlock sc els = true
  | .whileLoop cond body els _, sc, _, s =>
    Agree s.scope sc ∧ rExpr sc cond = true ∧ rBlock sc body = true ∧ rOptBlock sc els = true
  | .forLoop _ items body els _, sc, _, s =>
    Agree s.scope sc ∧ VsWf items ∧ rBlock sc body = true ∧ rOptBlock sc els = true
  | .eachLoop f items, _, _, _ => VWf f ∧ VsWf items
  | .keepIfLoop f items, _, _, _ => VWf f ∧ VsWf items
  | .stages fs input _ excs, sc, _, s => Agree s.scope sc ∧ rForms sc fs = true ∧ VsWf input ∧ VsWf excs
  | .mapPairs ks vs, sc, _, s => Agree s.scope sc ∧ rExprs sc ks = true ∧ rExprs sc vs = true
  | .compoundFrom acc es, sc, _, s => Agree s.scope sc ∧ VsWf acc ∧ rExprs sc es = true

def Pre (c : Call) (g : SScope × Bool) (s : St) : Prop := StWf s ∧ PreC c g.1 g.2 s

/-- What a request does to the scope chain. -/
def PostScope : Call → SScope → Bool → St → Except Exc (List Value) → St → Prop
  | .form f, sc, decl, s, r, s' =>
    (decl = false → s'.scope = s.scope) ∧
      (∀ vs, r = .ok vs → ∀ sc', rForm sc decl f = some sc' → Agree s'.scope sc')
  | .pipeline p, sc, decl, s, r, s' =>
    (decl = false → s'.scope = s.scope) ∧
      (∀ vs, r = .ok vs → ∀ sc', rPipes sc decl [p] = some sc' → Agree s'.scope sc')
  | .pipes ps, sc, decl, s, r, s' =>
    (decl = false → s'.scope = s.scope) ∧
      (∀ vs, r = .ok vs → ∀ sc', rPipes sc decl ps = some sc' → Agree s'.scope sc')
  | .exprsEach es, _, _, s, r, s' => s'.scope = s.scope ∧ (∀ vs, r = .ok vs → vs.length = es.length)
  | _, _, _, s, _, s' => s'.scope = s.scope

def ResWf : Except Exc (List Value) → Prop
  | .ok vs => VsWf vs
  | .error e => EWf e

def Post (c : Call) (g : SScope × Bool) (s : St) (r : Except Exc (List Value)) (s' : St) : Prop :=
  StWf s' ∧ ResWf r ∧ PostScope c g.1 g.2 s r s'

/-! ### Weakest preconditions over the free monad -/

/-- `t` is safe: every request it makes satisfies its precondition (for some
static scope), and — assuming the requests keep their postconditions — it ends
in `Q` (normally) or `QE` (with an exception), or leaves the modelled fragment. -/
def FM.wp {α} : FM α → (α → St → Prop) → (Exc → St → Prop) → Prop
  | .ret a s, Q, _ => Q a s
  | .exc e s, _, QE => QE e s
  | .unsupported _, _, _ => True
  | .call c s k, Q, QE => ∃ g, Pre c g s ∧ ∀ r s', Post c g s r s' → (k r s').wp Q QE

def wp {α} (m : M α) (s : St) (Q : α → St → Prop) (QE : Exc → St → Prop) : Prop := (m s).wp Q QE

theorem FM.wp_mono {α} {t : FM α} {Q Q' : α → St → Prop} {QE QE' : Exc → St → Prop}
    (h : t.wp Q QE) (hq : ∀ a s, Q a s → Q' a s) (he : ∀ e s, QE e s → QE' e s) : t.wp Q' QE' := by
  induction t with
  | ret a s => exact hq _ _ h
  | exc e s => exact he _ _ h
  | unsupported w => trivial
  | call c s k ih =>
    obtain ⟨g, hp, hk⟩ := h
    exact ⟨g, hp, fun r s' hpost => ih r s' (hk r s' hpost)⟩

theorem FM.wp_bind {α β} (t : FM α) (f : α → St → FM β) (Q : β → St → Prop) (QE : Exc → St → Prop) :
    (t.bind f).wp Q QE ↔ t.wp (fun a s => (f a s).wp Q QE) QE := by
  induction t with
  | ret a s => exact Iff.rfl
  | exc e s => exact Iff.rfl
  | unsupported w => exact Iff.rfl
  | call c s k ih =>
    simp only [FM.bind, FM.wp]
    constructor
    · rintro ⟨g, hp, hk⟩; exact ⟨g, hp, fun r s' hpost => (ih r s').mp (hk r s' hpost)⟩
    · rintro ⟨g, hp, hk⟩; exact ⟨g, hp, fun r s' hpost => (ih r s').mpr (hk r s' hpost)⟩

theorem FM.wp_attempt {α} (t : FM α) (Q : Except Exc α → St → Prop) (QE : Exc → St → Prop) :
    t.attempt.wp Q QE ↔ t.wp (fun a s => Q (.ok a) s) (fun e s => Q (.error e) s) := by
  induction t with
  | ret a s => exact Iff.rfl
  | exc e s => exact Iff.rfl
  | unsupported w => exact Iff.rfl
  | call c s k ih =>
    simp only [FM.attempt, FM.wp]
    constructor
    · rintro ⟨g, hp, hk⟩; exact ⟨g, hp, fun r s' hpost => (ih r s').mp (hk r s' hpost)⟩
    · rintro ⟨g, hp, hk⟩; exact ⟨g, hp, fun r s' hpost => (ih r s').mpr (hk r s' hpost)⟩

variable {α β : Type} {Q : α → St → Prop} {QE : Exc → St → Prop} {s : St}

theorem wp_mono {m : M α} {Q' : α → St → Prop} {QE' : Exc → St → Prop} (h : wp m s Q QE)
    (hq : ∀ a s, Q a s → Q' a s) (he : ∀ e s, QE e s → QE' e s) : wp m s Q' QE' := FM.wp_mono h hq he

@[simp] theorem wp_pure (a : α) : wp (pure a : M α) s Q QE ↔ Q a s := Iff.rfl

@[simp] theorem wp_bind (m : M α) (f : α → M β) (Q : β → St → Prop) :
    wp (m >>= f) s Q QE ↔ wp m s (fun a s' => wp (f a) s' Q QE) QE := FM.wp_bind _ _ _ _

@[simp] theorem wp_throw (e : Exc) : wp (throwE e : M α) s Q QE ↔ QE e s := Iff.rfl
@[simp] theorem wp_unsupported (w : String) : wp (unsupported w : M α) s Q QE ↔ True := Iff.rfl
@[simp] theorem wp_getSt {Q : St → St → Prop} : wp getSt s Q QE ↔ Q s s := Iff.rfl
@[simp] theorem wp_modifySt (f : St → St) {Q : Unit → St → Prop} : wp (modifySt f) s Q QE ↔ Q () (f s) := Iff.rfl

@[simp] theorem wp_attempt (m : M α) (Q : Except Exc α → St → Prop) :
    wp (attempt m) s Q QE ↔ wp m s (fun a s' => Q (.ok a) s') (fun e s' => Q (.error e) s') :=
  FM.wp_attempt _ _ _

@[simp] theorem wp_rec (c : Call) {Q : List Value → St → Prop} :
    wp (rec c) s Q QE ↔ ∃ g, Pre c g s ∧ ∀ r s', Post c g s r s' →
      (match r with
        | .ok vs => Q vs s'
        | .error e => QE e s') := by
  show (∃ g, Pre c g s ∧ ∀ r s', Post c g s r s' → FM.wp _ Q QE) ↔ _
  constructor
  · rintro ⟨g, hp, hk⟩
    refine ⟨g, hp, fun r s' hpost => ?_⟩
    have := hk r s' hpost
    cases r <;> exact this
  · rintro ⟨g, hp, hk⟩
    refine ⟨g, hp, fun r s' hpost => ?_⟩
    have := hk r s' hpost
    cases r <;> exact this

@[simp] theorem wp_liftE (r : Except Exc α) :
    wp (liftE r) s Q QE ↔ (match r with
      | .ok a => Q a s
      | .error e => QE e s) := by
  cases r <;> exact Iff.rfl

@[simp] theorem wp_rethrow (r : Except Exc α) :
    wp (rethrow r) s Q QE ↔ (match r with
      | .ok a => Q a s
      | .error e => QE e s) := wp_liftE r

theorem wp_ite {c : Prop} [Decidable c] {a b : M α} :
    wp (if c then a else b) s Q QE ↔ (if c then wp a s Q QE else wp b s Q QE) := by
  split <;> exact Iff.rfl

/-- Sequencing with an intermediate assertion. -/
theorem wp_seq {m : M α} {f : α → M β} {Q : β → St → Prop} (R : α → St → Prop)
    (h1 : wp m s R QE) (h2 : ∀ a s', R a s' → wp (f a) s' Q QE) : wp (m >>= f) s Q QE :=
  (wp_bind m f Q).mpr (wp_mono h1 h2 (fun _ _ h => h))

/-! ### Generic soundness -/

/-- What `Post` says about an outcome. -/
def Holds (c : Call) (g : SScope × Bool) (s : St) : Res (List Value) → Prop
  | .ok vs s' => Post c g s (.ok vs) s'
  | .exc e s' => Post c g s (.error e) s'
  | .oof => True
  | .unsupported _ => True

theorem interp_wp {ev : Call → St → Res (List Value)} (hev : ∀ c g s, Pre c g s → Holds c g s (ev c s))
    (t : FM α) (h : t.wp Q QE) :
    match interp ev t with
    | .ok a s' => Q a s'
    | .exc e s' => QE e s'
    | .oof => True
    | .unsupported _ => True := by
  induction t with
  | ret a s => exact h
  | exc e s => exact h
  | unsupported w => trivial
  | call c s k ih =>
    obtain ⟨g, hp, hk⟩ := h
    have hc := hev c g s hp
    simp only [interp]
    cases hr : ev c s with
    | ok vs s' => rw [hr] at hc; exact ih _ _ (hk _ _ hc)
    | exc e s' => rw [hr] at hc; exact ih _ _ (hk _ _ hc)
    | oof => trivial
    | unsupported w => trivial

/-- If one step of every request satisfies its specification, so does every run. -/
theorem run_sound (cfg : Cfg)
    (hstep : ∀ c g s, Pre c g s →
      wp (step cfg c) s (fun vs s' => Post c g s (.ok vs) s') (fun e s' => Post c g s (.error e) s')) :
    ∀ n c g s, Pre c g s → Holds c g s (run cfg n c s) := by
  intro n
  induction n with
  | zero => intro c g s _; trivial
  | succ n ih =>
    intro c g s hp
    have := interp_wp (ev := run cfg n) ih (step cfg c s) (hstep c g s hp)
    show Holds c g s (interp (run cfg n) (step cfg c s))
    cases hr : interp (run cfg n) (step cfg c s) with
    | ok vs s' => rw [hr] at this; exact this
    | exc e s' => rw [hr] at this; exact this
    | oof => trivial
    | unsupported w => trivial

end C15
