/-
C15 static-scope soundness: expressions.
-/
import ElvProofs.C15.Hoare
set_option linter.unusedSimpArgs false
set_option linter.unusedVariables false
namespace C15

variable {s0 : St} {sc : SScope}

theorem agree_of_eq {s : St} (hag : Agree s0.scope sc) (hp : s.scope = s0.scope) : Agree s.scope sc := by
  rw [hp]; exact hag

namespace Keeps

theorem recExpr (hag : Agree s0.scope sc) {e : Expr} (h : rExpr sc e = true) : Keeps s0 VsWf (C15.rec (.expr e)) :=
  Keeps.rec (.expr e) sc false (fun s _ hp => ⟨agree_of_eq hag hp, h⟩) (fun _ _ _ h => h)

theorem recExprs (hag : Agree s0.scope sc) {es : List Expr} (h : rExprs sc es = true) :
    Keeps s0 VsWf (C15.rec (.exprs es)) :=
  Keeps.rec (.exprs es) sc false (fun s _ hp => ⟨agree_of_eq hag hp, h⟩) (fun _ _ _ h => h)

theorem recExprsEach (hag : Agree s0.scope sc) {es : List Expr} (h : rExprs sc es = true) :
    Keeps s0 (fun vs => VsWf vs ∧ vs.length = es.length) (C15.rec (.exprsEach es)) := by
  intro s hs hp
  rw [wp_rec]
  refine ⟨(sc, false), ⟨hs, agree_of_eq hag hp, h⟩, ?_⟩
  intro r s' ⟨h1, h2, h3⟩
  have hsc := h3.1.trans hp
  cases r with
  | ok vs => exact ⟨h1, hsc, h2, h3.2 vs rfl⟩
  | error e => exact ⟨h1, h2, hsc⟩

theorem recMapPairs (hag : Agree s0.scope sc) {ks vs : List Expr} (h1 : rExprs sc ks = true)
    (h2 : rExprs sc vs = true) : Keeps s0 VsWf (C15.rec (.mapPairs ks vs)) :=
  Keeps.rec (.mapPairs ks vs) sc false (fun s _ hp => ⟨agree_of_eq hag hp, h1, h2⟩) (fun _ _ _ h => h)

theorem recCompoundFrom (hag : Agree s0.scope sc) {acc : List Value} (ha : VsWf acc) {es : List Expr}
    (h : rExprs sc es = true) : Keeps s0 VsWf (C15.rec (.compoundFrom acc es)) :=
  Keeps.rec (.compoundFrom acc es) sc false (fun s _ hp => ⟨agree_of_eq hag hp, ha, h⟩) (fun _ _ _ h => h)

/-- A chunk in which declarations are not allowed (captures). -/
theorem recPipesNoDecl (hag : Agree s0.scope sc) {ps : List Pipeline} (h : (rPipes sc false ps).isSome = true) :
    Keeps s0 VsWf (C15.rec (.pipes ps)) :=
  Keeps.rec (.pipes ps) sc false (fun s _ hp => ⟨agree_of_eq hag hp, h⟩) (fun _ _ _ h => h.1 rfl)

theorem recBody {c : Chunk} {frame : Frame} {env : Scope} {isFn : Bool} {sc' : SScope}
    (hag : Agree (frame :: env) sc') (h : rChunk sc' c = true) : Keeps s0 VsWf (C15.rec (.body c frame env isFn)) :=
  Keeps.rec (.body c frame env isFn) sc' false (fun s _ hp => ⟨hag, h⟩) (fun _ _ _ h => h)

theorem recCall {f : Value} {args : List Value} {on : List String} {ov : List Value} (hf : VWf f)
    (ha : VsWf args) (ho : VsWf ov) : Keeps s0 VsWf (C15.rec (.call f args on ov)) :=
  Keeps.rec (.call f args on ov) [] false (fun s _ hp => ⟨hf, ha, ho⟩) (fun _ _ _ h => h)

end Keeps

theorem rChunk_mk (sc : SScope) (ps : List Pipeline) : rChunk sc (.mk ps) = (rPipes sc true ps).isSome := by
  simp [rChunk]
theorem rChunkNoDecl_eq (sc : SScope) (c : Chunk) : rChunkNoDecl sc c = (rPipes sc false c.pipes).isSome := by
  cases c; simp [rChunkNoDecl, Chunk.pipes]
theorem rChunk_eq (sc : SScope) (c : Chunk) : rChunk sc c = (rPipes sc true c.pipes).isSome := by
  cases c; simp [rChunk, Chunk.pipes]
theorem rBlock_eq (sc : SScope) (c : Chunk) : rBlock sc c = rChunk ([] :: sc) c := by
  cases c; simp [rBlock, rChunk]

theorem EWf.toValue {e : Exc} (h : EWf e) : VWf e.toValue := VWf.exc h.1 h.2

/-- Every expression form keeps the scope chain and yields well-formed values. -/
theorem keeps_evalExpr (hag : Agree s0.scope sc) (e : Expr) (h : rExpr sc e = true) :
    Keeps s0 VsWf (evalExpr e) := by
  cases e with
  | lit s => exact Keeps.pure (VsWf.single (VWf.str s))
  | var x =>
    simp only [rExpr] at h
    exact Keeps.bind (Keeps.getVar hag h) (fun v hv => Keeps.pure (VsWf.single hv))
  | explode x =>
    simp only [rExpr] at h
    exact Keeps.bind (Keeps.getVar hag h) (fun v hv => Keeps.liftE (elements_wf hv))
  | list es =>
    simp only [rExpr] at h
    exact Keeps.bind (Keeps.recExprs hag h) (fun vs hvs => Keeps.pure (VsWf.single (VWf.list hvs)))
  | map ks vs =>
    simp only [rExpr, Bool.and_eq_true] at h
    refine Keeps.bind (Keeps.recMapPairs hag h.1 h.2) (fun kv hkv => ?_)
    have := uninterleave_wf hkv
    exact Keeps.pure (VsWf.single (mapOfPairs_wf this.1 this.2))
  | lambda pos rest post on od body =>
    simp only [rExpr, Bool.and_eq_true, beq_iff_eq] at h
    obtain ⟨⟨hlen, hod⟩, hbody⟩ := h
    refine Keeps.bind (Keeps.recExprsEach hag hod) (fun ps hps => ?_)
    refine Keeps.bind (Keeps.oneEach hps.1) (fun defs hdefs => ?_)
    refine Keeps.bind Keeps.freshId (fun id _ => ?_)
    refine Keeps.bind Keeps.getSt (fun t ht => ?_)
    refine Keeps.pure (VsWf.single (VWf.closure ?_ hdefs.1 ⟨sc, agree_of_eq hag ht.2, hbody⟩))
    rw [hdefs.2, hps.2, hlen]
  | capture c =>
    simp only [rExpr, rChunkNoDecl_eq] at h
    refine Keeps.bind Keeps.getSt (fun s hs => ?_)
    refine Keeps.bind (Keeps.modify (fun t ht => ⟨ht.setOut VsWf.nil, rfl⟩)) (fun _ _ => ?_)
    refine Keeps.bind (Keeps.attempt (Keeps.recPipesNoDecl hag h)) (fun r hr => ?_)
    refine Keeps.bind Keeps.getSt (fun s' hs' => ?_)
    refine Keeps.bind (Keeps.modify (fun t ht => ⟨ht.setOut hs.1.out, rfl⟩)) (fun _ _ => ?_)
    refine Keeps.bind (Keeps.liftE hr) (fun _ _ => ?_)
    exact Keeps.pure hs'.1.out
  | excCapture c =>
    simp only [rExpr, rChunkNoDecl_eq] at h
    refine Keeps.bind (Keeps.attempt (Keeps.recPipesNoDecl hag h)) (fun r hr => ?_)
    cases r with
    | ok _ => exact Keeps.pure (VsWf.single VWf.ok)
    | error e => exact Keeps.pure (VsWf.single (EWf.toValue hr))
  | braced es =>
    simp only [rExpr] at h
    exact Keeps.recExprs hag h
  | index e idx =>
    simp only [rExpr, Bool.and_eq_true] at h
    refine Keeps.bind (Keeps.recExpr hag h.1) (fun cs hcs => ?_)
    refine Keeps.bind (Keeps.recExprs hag h.2) (fun is his => ?_)
    dsimp only
    split
    · exact Keeps.bind (R := fun _ => True) Keeps.unsupp (fun _ _ => Keeps.liftE (indexAll_wf hcs is))
    · exact Keeps.liftE (indexAll_wf hcs is)
  | compound es =>
    cases es with
    | nil => exact Keeps.pure VsWf.nil
    | cons e es =>
      simp only [rExpr, rExprs, Bool.and_eq_true] at h
      exact Keeps.bind (Keeps.recExpr hag h.1) (fun vs hvs => Keeps.recCompoundFrom hag hvs h.2)

end C15
