/-
C15 helper lemmas: the number of values of a compound expression.
-/
import ElvModel.C15.Model
namespace C15

theorem concatRow_length (l : Value) : ∀ (rs xs : List Value), concatRow l rs = .ok xs → xs.length = rs.length
  | [], xs, h => by simp [concatRow] at h; subst h; rfl
  | r :: rs, xs, h => by
    simp only [concatRow, bind, Except.bind] at h
    cases hc : concat l r with
    | error e => rw [hc] at h; cases h
    | ok x =>
      rw [hc] at h
      cases hr : concatRow l rs with
      | error e => rw [hr] at h; cases h
      | ok ys =>
        rw [hr] at h
        simp only [pure, Except.pure] at h
        cases h
        simp [concatRow_length l rs ys hr]

theorem outer_length : ∀ (ls rs xs : List Value), outer ls rs = .ok xs → xs.length = ls.length * rs.length
  | [], rs, xs, h => by simp [outer] at h; subst h; simp
  | l :: ls, rs, xs, h => by
    simp only [outer, bind, Except.bind] at h
    cases hc : concatRow l rs with
    | error e => rw [hc] at h; cases h
    | ok row =>
      rw [hc] at h
      cases hr : outer ls rs with
      | error e => rw [hr] at h; cases h
      | ok rest =>
        rw [hr] at h
        simp only [pure, Except.pure] at h
        cases h
        simp [concatRow_length l rs row hc, outer_length ls rs rest hr, Nat.add_mul]
        omega

/-- Product of the numbers of values of the parts. -/
def lenProd : List (List Value) → Nat
  | [] => 1
  | p :: ps => p.length * lenProd ps

theorem compoundFrom_length : ∀ (parts : List (List Value)) (acc xs : List Value),
    compoundFrom acc parts = .ok xs → xs.length = acc.length * lenProd parts
  | [], acc, xs, h => by simp [compoundFrom] at h; subst h; simp [lenProd]
  | p :: ps, acc, xs, h => by
    simp only [compoundFrom, bind, Except.bind] at h
    cases ho : outer acc p with
    | error e => rw [ho] at h; cases h
    | ok acc' =>
      rw [ho] at h
      rw [compoundFrom_length ps acc' xs h, outer_length acc p acc' ho, lenProd, Nat.mul_assoc]

end C15
