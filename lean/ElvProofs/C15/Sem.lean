/-
C15 helper lemmas: semantic equations of single constructs, obtained by
unfolding one level of `run`.
-/
import ElvProofs.C15.Basic
set_option linter.unusedSimpArgs false
namespace C15
variable {ev : Call → St → Res (List Value)}

theorem den_runBlock (c : Chunk) (s : St) :
    den ev (runBlock c) s = (ev (.body c [] s.scope false) s).bind (fun _ s' => .ok () s') := by
  unfold runBlock
  simp only [den_bind, den_getSt, Res.bind, den_rec]
  cases ev (.body c [] s.scope false) s <;> rfl

theorem den_ite {α} (c : Prop) [Decidable c] (a b : M α) (s : St) :
    den ev (if c then a else b) s = if c then den ev a s else den ev b s := by
  split <;> rfl

/-- Effect of the `tmp` restores on a state. -/
def applyDefers : List (Nat × Value) → St → St
  | [], s => s
  | (a, v) :: rest, s => applyDefers rest { s with heap := s.heap.set a v }

theorem den_runDefers (ds : List (Nat × Value)) (s : St) :
    den ev (runDefers ds) s = .ok () (applyDefers ds s) := by
  induction ds generalizing s with
  | nil => rfl
  | cons d ds ih =>
    obtain ⟨a, v⟩ := d
    simp only [runDefers, den_bind, writeAddr, den_modifySt, Res.bind, ih, applyDefers]

/-- State in which a function body starts: a new scope holding the parameters
on top of the closed-over chain; no pending `tmp` restores. -/
def enter (frame : Frame) (env : Scope) (s : St) : St := { s with scope := frame :: env, defers := [] }

/-- State after a function body that finished in state `t` (called from state
`s`): the `tmp` restores have run, the caller's scope and restores are current. -/
def leave (s t : St) : St := { applyDefers t.defers t with scope := s.scope, defers := s.defers }

/-- Semantic equation of a function body. -/
theorem body_eq (cfg : Cfg) (n : Nat) (c : Chunk) (frame : Frame) (env : Scope) (isFn : Bool) (s : St) :
    run cfg (n + 1) (.body c frame env isFn) s =
      match run cfg n (.pipes c.pipes) (enter frame env s) with
      | .ok _ t => .ok [] (leave s t)
      | .exc e t => if isFn = true ∧ e.kind = "return" then .ok [] (leave s t) else .exc e (leave s t)
      | .oof => .oof
      | .unsupported w => .unsupported w := by
  rw [run_succ]
  simp only [step, runBody, den_bind, den_getSt, den_modifySt, Res.bind, den_attempt, den_rec, enter]
  cases run cfg n (.pipes c.pipes) { s with scope := frame :: env, defers := [] } with
  | ok a t => simp [Res.attempt, den_getSt, den_runDefers, den_modifySt, den_pure, leave, Res.bind, den_bind]
  | exc e t =>
    by_cases hc : isFn = true ∧ e.kind = "return"
    · simp [Res.attempt, den_getSt, den_runDefers, den_modifySt, den_pure, leave, Res.bind, den_bind, hc]
    · simp [Res.attempt, den_getSt, den_runDefers, den_modifySt, den_throw, leave, Res.bind, den_bind, hc]
  | oof => rfl
  | unsupported w => rfl

/-- How a loop reacts to the outcome of one run of its body. -/
inductive LoopNext where
  | next (s : St)      -- go on with the next iteration from state s
  | stop (s : St)      -- the loop ends normally in state s
  | throw (e : Exc) (s : St)
  | oof
  | unsupported (w : String)

/-- language.md "Exception and Flow Commands": loops capture `break` and `continue`. -/
def loopReact : Res (List Value) → LoopNext
  | .ok _ s => .next s
  | .exc e s => if e.kind = "continue" then .next s else if e.kind = "break" then .stop s else .throw e s
  | .oof => .oof
  | .unsupported w => .unsupported w

/-- Semantic equation of one `for` iteration. -/
theorem forLoop_cons_eq (cfg : Cfg) (n a : Nat) (v : Value) (vs : List Value) (body : Chunk)
    (els : Option Chunk) (it : Bool) (s : St) :
    run cfg (n + 1) (.forLoop a (v :: vs) body els it) s =
      match loopReact (run cfg n (.body body [] s.scope false) { s with heap := s.heap.set a v }) with
      | .next s' => run cfg n (.forLoop a vs body els true) s'
      | .stop s' => .ok [] s'
      | .throw e s' => .exc e s'
      | .oof => .oof
      | .unsupported w => .unsupported w := by
  rw [run_succ]
  simp only [step, den_bind, writeAddr, den_modifySt, Res.bind, den_attempt, den_runBlock]
  cases run cfg n (.body body [] s.scope false) { s with heap := s.heap.set a v } with
  | ok r t => simp [Res.attempt, Res.bind, loopReact, den_rec]
  | exc e t =>
    by_cases h1 : e.kind = "continue"
    · simp [Res.attempt, Res.bind, loopReact, den_rec, h1]
    · by_cases h2 : e.kind = "break"
      · simp [Res.attempt, Res.bind, loopReact, den_pure, h1, h2]
      · simp [Res.attempt, Res.bind, loopReact, den_throw, h1, h2]
  | oof => rfl
  | unsupported w => rfl

/-- Semantic equation of `while` when the condition holds. -/
theorem whileLoop_true_eq (cfg : Cfg) (n : Nat) (cond : Expr) (body : Chunk) (els : Option Chunk)
    (it : Bool) (s s1 : St) (vs : List Value)
    (hc : run cfg n (.expr cond) s = .ok vs s1) (ht : allTrue vs = true) :
    run cfg (n + 1) (.whileLoop cond body els it) s =
      match loopReact (run cfg n (.body body [] s1.scope false) s1) with
      | .next s' => run cfg n (.whileLoop cond body els true) s'
      | .stop s' => .ok [] s'
      | .throw e s' => .exc e s'
      | .oof => .oof
      | .unsupported w => .unsupported w := by
  rw [run_succ]
  simp only [step, den_bind, den_rec, hc, Res.bind, ht, if_true, den_attempt, den_runBlock]
  cases run cfg n (.body body [] s1.scope false) s1 with
  | ok r t => simp [Res.attempt, Res.bind, loopReact, den_rec]
  | exc e t =>
    by_cases h1 : e.kind = "continue"
    · simp [Res.attempt, Res.bind, loopReact, den_rec, h1]
    · by_cases h2 : e.kind = "break"
      · simp [Res.attempt, Res.bind, loopReact, den_pure, h1, h2]
      · simp [Res.attempt, Res.bind, loopReact, den_throw, h1, h2]
  | oof => rfl
  | unsupported w => rfl

/-- What happens after the protected part of a `try` with a finally-block. -/
def finallyThen (pending : Except Exc Unit) (fin : Res (List Value)) : Res (List Value) :=
  match fin with
  | .ok _ s2 => (match pending with
    | .ok _ => .ok [] s2
    | .error e => .exc e s2)
  | .exc e s2 => .exc e s2
  | .oof => .oof
  | .unsupported w => .unsupported w

theorem try_finally_eq (cfg : Cfg) (n : Nat) (body : Chunk) (cv : Option String) (cb eb : Option Chunk)
    (fb : Chunk) (s : St) :
    run cfg (n + 1) (.form (.tryF body cv cb eb (some fb))) s =
      match den (run cfg n) (tryProtected body cv cb eb) s with
      | .ok pending s1 => finallyThen pending (run cfg n (.body fb [] s1.scope false) s1)
      | .exc e s1 => .exc e s1
      | .oof => .oof
      | .unsupported w => .unsupported w := by
  rw [run_succ]
  simp only [step, evalForm, den_bind, Res.bind]
  cases den (run cfg n) (tryProtected body cv cb eb) s with
  | ok pending s1 =>
    simp only [den_bind, den_runBlock, Res.bind]
    cases run cfg n (.body fb [] s1.scope false) s1 with
    | ok r s2 =>
      cases pending with
      | ok u => simp [finallyThen, Res.bind, rethrow, liftE, den_pure]
      | error e => simp [finallyThen, Res.bind, rethrow, liftE, den_throw]
    | exc e s2 => simp [finallyThen, Res.bind]
    | oof => rfl
    | unsupported w => rfl
  | exc e s1 => rfl
  | oof => rfl
  | unsupported w => rfl

/-- never an exception -/
def NoExc {α} (r : Res α) : Prop := ∀ e s, r ≠ .exc e s

theorem noexc_bind {α β} {r : Res α} {f : α → St → Res β} (h1 : NoExc r) (h2 : ∀ a s, NoExc (f a s)) :
    NoExc (r.bind f) := by
  intro e s
  cases r with
  | ok a s1 => exact h2 a s1 e s
  | exc e1 s1 => exact absurd rfl (h1 e1 s1)
  | oof => simp [Res.bind]
  | unsupported w => simp [Res.bind]

theorem noexc_attempt {α} (r : Res α) : NoExc r.attempt := by
  intro e s; cases r <;> simp [Res.attempt]

theorem noexc_ok {α} (a : α) (s : St) : NoExc (Res.ok a s) := by intro e s'; simp

theorem noexc_declare (x : String) (v : Value) (s : St) : NoExc (den ev (declare x v) s) := by
  intro e s'
  simp only [den, declare]
  split <;> simp [interp]

theorem noexc_catchVarAddr (cv : Option String) (s : St) : NoExc (den ev (catchVarAddr cv) s) := by
  cases cv with
  | none => exact noexc_ok _ _
  | some v =>
    simp only [catchVarAddr, den_bind, den_getSt, Res.bind]
    cases s.scope.find v with
    | some a => exact noexc_ok _ _
    | none =>
      simp only [den_bind]
      exact noexc_bind (noexc_declare _ _ _) (fun a s1 => noexc_ok _ _)

theorem noexc_storeCaught (cv : Option Nat) (e : Exc) (s : St) : NoExc (den ev (storeCaught cv e) s) := by
  cases cv <;> exact noexc_ok _ _

/-- The protected part never propagates an exception: whatever the try-,
catch- and else-blocks throw is pending until the finally-block has run. -/
theorem tryProtected_no_exc (body : Chunk) (cv : Option String) (cb eb : Option Chunk) (s : St) :
    NoExc (den ev (tryProtected body cv cb eb) s) := by
  unfold tryProtected
  simp only [den_bind, den_attempt]
  refine noexc_bind (noexc_attempt _) (fun r s1 => noexc_bind (noexc_catchVarAddr _ _) (fun a s2 => ?_))
  cases r <;> cases cb <;> cases eb <;>
    first
    | exact noexc_ok _ _
    | (simp only [den_attempt]; exact noexc_attempt _)
    | (simp only [den_bind, den_attempt]; exact noexc_bind (noexc_storeCaught _ _ _) (fun _ _ => noexc_attempt _))

theorem logic_stop_eq (cfg : Cfg) (n : Nat) (k : LKind) (e : Expr) (es : List Expr) (last v : Value)
    (vs : List Value) (s s1 : St)
    (he : run cfg n (.expr e) s = .ok vs s1) (hv : vs.find? (logicStop k) = some v) :
    run cfg (n + 1) (.logicArgs k (e :: es) last) s = .ok [] { s1 with out := s1.out ++ [v] } := by
  rw [run_succ]
  simp only [step, den_bind, den_rec, he, Res.bind]
  simp [hv, emit, den_modifySt, den_bind, den_pure, Res.bind]

theorem logic_none_eq (cfg : Cfg) (n : Nat) (k : LKind) (last : Value) (s : St) :
    run cfg (n + 1) (.logicArgs k [] last) s = .ok [] { s with out := s.out ++ [last] } := by
  rw [run_succ]
  simp [step, emit, den_modifySt, den_bind, den_pure, Res.bind]

theorem var_use_eq (cfg : Cfg) (n : Nat) (x : String) (s : St) :
    run cfg (n + 1) (.expr (.var x)) s =
      match s.scope.find x with
      | none => .exc Exc.varNotFound s
      | some a => match s.heap[a]? with
        | some v => .ok [v] s
        | none => .unsupported "dangling variable location" := by
  rw [run_succ]
  simp only [step, evalExpr, getVar, den_bind]
  simp only [den, lookupVar, readAddr]
  cases s.scope.find x with
  | none => rfl
  | some a =>
    simp only [interp, Res.bind]
    cases s.heap[a]? <;> rfl

theorem lambda_eq (cfg : Cfg) (n : Nat) (pos : List String) (rest : Option String) (post : List String)
    (body : Chunk) (s : St) :
    run cfg (n + 2) (.expr (.lambda pos rest post [] [] body)) s =
      .ok [.closure s.nextId pos rest post [] [] body s.scope false] { s with nextId := s.nextId + 1 } := by
  rw [run_succ]
  simp only [step, evalExpr, den_bind, den_rec]
  have : run cfg (n + 1) (.exprsEach []) s = .ok [] s := by rw [run_succ]; rfl
  rw [this]
  simp [Res.bind, oneEach, den_pure, den_bind, freshId, den, interp, getSt]
  rfl

theorem call_closure_eq (cfg : Cfg) (n id : Nat) (body : Chunk) (env : Scope) (isFn : Bool) (s : St) :
    run cfg (n + 1) (.call (.closure id [] none [] [] [] body env isFn) [] [] []) s =
      (run cfg n (.body body [] env isFn) s).bind (fun _ s' => .ok [] s') := by
  rw [run_succ]
  simp [step, callValue, den_bind, den_pure, Res.bind, bindParams, optValues, den_rec, den_ite]
  cases run cfg n (.body body [] env isFn) s <;> rfl

theorem exprs_nil_eq (cfg : Cfg) (n : Nat) (s : St) : run cfg (n + 1) (.exprs []) s = .ok [] s := by
  rw [run_succ]; rfl
theorem exprsEach_nil_eq (cfg : Cfg) (n : Nat) (s : St) : run cfg (n + 1) (.exprsEach []) s = .ok [] s := by
  rw [run_succ]; rfl
theorem pipes_nil_eq (cfg : Cfg) (n : Nat) (s : St) : run cfg (n + 1) (.pipes []) s = .ok [] s := by
  rw [run_succ]; rfl

/-- `put $x` in a scope where `x` is bound to location `a` and `put` is the builtin. -/
theorem put_var_eq (cfg : Cfg) (n : Nat) (x : String) (a : Nat) (v : Value) (s : St)
    (hx : s.scope.find x = some a) (hv : s.heap[a]? = some v) (hput : s.scope.find "put~" = none) :
    run cfg (n + 4) (.form (.cmd (.lit "put") [.var x] [] [])) s = .ok [] { s with out := s.out ++ [v] } := by
  have e1 : run cfg (n + 3) (.exprs [.var x]) s = .ok [v] s := by
    rw [run_succ]
    simp only [step, den_bind, den_rec, var_use_eq, hx, hv, Res.bind, exprs_nil_eq, den_pure]
    rfl
  have e2 : run cfg (n + 3) (.call (.builtin "put") [v] [] []) s = .ok [] { s with out := s.out ++ [v] } := by
    rfl
  rw [run_succ]
  have hs : ("put" ++ "~") = "put~" := by decide
  simp only [step, evalForm, resolveHead, den_bind, den_getSt, Res.bind, hs, hput]
  have hb : builtinNames.contains "put" = true := by decide
  simp only [hb, if_true, den_pure, den_bind, Res.bind, den_rec, e1, exprsEach_nil_eq, oneEach, e2]
theorem pipeline_single_eq (cfg : Cfg) (n : Nat) (f : Form) (s : St) :
    run cfg (n + 1) (.pipeline (.mk [f])) s = run cfg n (.form f) s := by
  rw [run_succ]; simp only [step, den_rec]

theorem pipes_cons_eq (cfg : Cfg) (n : Nat) (p : Pipeline) (ps : List Pipeline) (s : St) :
    run cfg (n + 1) (.pipes (p :: ps)) s =
      (run cfg n (.pipeline p) s).bind (fun _ s' => run cfg n (.pipes ps) s') := by
  rw [run_succ]; simp only [step, den_bind, den_rec]

/-- The upvalue law: a function that refers to a variable of an outer scope
reads, when it is CALLED, the value the variable holds at that moment —
whatever was assigned to the location since the function was created. -/
theorem upvalue_law (cfg : Cfg) (n id : Nat) (x : String) (env : Scope) (a : Nat) (v : Value) (s : St)
    (hx : env.find x = some a) (hv : s.heap[a]? = some v) (hput : env.find "put~" = none) :
    run cfg (n + 8) (.call (.closure id [] none [] [] [] (.mk [.mk [.cmd (.lit "put") [.var x] [] []]]) env false)
        [] [] []) s = .ok [] { s with out := s.out ++ [v] } := by
  rw [call_closure_eq, body_eq]
  have hf : run cfg (n + 4) (.form (.cmd (.lit "put") [.var x] [] [])) (enter [] env s) =
      .ok [] { enter [] env s with out := (enter [] env s).out ++ [v] } :=
    put_var_eq cfg n x a v (enter [] env s) (by simp [enter, Scope.find, Frame.find, hx])
      (by simpa [enter] using hv) (by simp [enter, Scope.find, Frame.find, hput])
  simp only [Chunk.pipes, pipes_cons_eq, pipeline_single_eq, hf, Res.bind, pipes_nil_eq]
  simp [leave, enter, applyDefers]


/-- Semantic equation of compounding: the next part is evaluated and combined
(`outer`) with the combinations so far. -/
theorem compoundFrom_cons_eq (cfg : Cfg) (n : Nat) (acc : List Value) (e : Expr) (es : List Expr) (s : St) :
    run cfg (n + 1) (.compoundFrom acc (e :: es)) s =
      (run cfg n (.expr e) s).bind (fun us s1 =>
        match outer acc us with
        | .ok acc' => run cfg n (.compoundFrom acc' es) s1
        | .error x => .exc x s1) := by
  rw [run_succ]
  simp only [step, den_bind, den_rec]
  cases run cfg n (.expr e) s with
  | ok us s1 =>
    simp only [Res.bind]
    cases outer acc us with
    | ok acc' => simp [liftE, den_pure, den_rec, Res.bind]
    | error x => simp [liftE, den_throw, Res.bind]
  | exc x s1 => rfl
  | oof => rfl
  | unsupported w => rfl

theorem compoundFrom_nil_eq (cfg : Cfg) (n : Nat) (acc : List Value) (s : St) :
    run cfg (n + 1) (.compoundFrom acc []) s = .ok acc s := by
  rw [run_succ]; rfl

end C15
