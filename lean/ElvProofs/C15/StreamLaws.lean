/-
C15 helper lemmas: the laws the builtin documentation states for the pure
value-stream / container builtins of `ElvModel/C15/Builtins.lean`.
-/
import ElvModel.C15.Interp
set_option linter.unusedSimpArgs false
set_option linter.unusedVariables false
namespace C15

/-- No two neighbours of the list are equal (as `eq` tests it). -/
def NoAdj : List Value → Bool
  | a :: b :: rest => !veq a b && NoAdj (b :: rest)
  | _ => true

theorem NoAdj.tail {a : Value} {l : List Value} (h : NoAdj (a :: l) = true) : NoAdj l = true := by
  cases l with
  | nil => rfl
  | cons b rest =>
    simp only [NoAdj, Bool.and_eq_true] at h
    exact h.2

theorem noAdj_compactFrom (p : Value) (vs : List Value) : NoAdj (p :: compactFrom p vs) = true := by
  induction vs generalizing p with
  | nil => rfl
  | cons v vs ih =>
    unfold compactFrom
    split
    · exact ih p
    · rename_i h
      simp only [NoAdj, Bool.and_eq_true, Bool.not_eq_true']
      exact ⟨by simpa using h, ih v⟩

theorem compactFrom_of_noAdj {p : Value} {vs : List Value} (h : NoAdj (p :: vs) = true) :
    compactFrom p vs = vs := by
  induction vs generalizing p with
  | nil => rfl
  | cons v vs ih =>
    simp only [NoAdj, Bool.and_eq_true, Bool.not_eq_true'] at h
    unfold compactFrom
    rw [if_neg (by rw [h.1]; decide), ih h.2]

theorem compact_noAdj (vs : List Value) : NoAdj (compact vs) = true := by
  cases vs with
  | nil => rfl
  | cons v vs => exact noAdj_compactFrom v vs

theorem compact_of_noAdj {vs : List Value} (h : NoAdj vs = true) : compact vs = vs := by
  cases vs with
  | nil => rfl
  | cons v vs =>
    show v :: compactFrom v vs = v :: vs
    rw [compactFrom_of_noAdj h]

theorem compact_idem (vs : List Value) : compact (compact vs) = compact vs :=
  compact_of_noAdj (compact_noAdj vs)

theorem compactFrom_sublist (p : Value) (vs : List Value) : List.Sublist (compactFrom p vs) vs := by
  induction vs generalizing p with
  | nil => exact List.Sublist.slnil
  | cons v vs ih =>
    unfold compactFrom
    split
    · exact List.Sublist.cons _ (ih p)
    · exact List.Sublist.cons_cons _ (ih v)

theorem compact_sublist (vs : List Value) : List.Sublist (compact vs) vs := by
  cases vs with
  | nil => exact List.Sublist.slnil
  | cons v vs => exact List.Sublist.cons_cons _ (compactFrom_sublist v vs)

theorem compact_head (v : Value) (vs : List Value) : (compact (v :: vs)).head? = some v := rfl

theorem compact_eq_nil {vs : List Value} : compact vs = [] ↔ vs = [] := by
  cases vs with
  | nil => exact ⟨fun _ => rfl, fun _ => rfl⟩
  | cons v vs =>
    constructor
    · intro h; cases h
    · intro h; cases h

/-- One step of `compact` on the first two values: the second is dropped iff it equals the first. -/
theorem compact_cons_cons (v w : Value) (rest : List Value) :
    compact (v :: w :: rest) = if veq v w then compact (v :: rest) else v :: compact (w :: rest) := by
  show v :: compactFrom v (w :: rest) = _
  unfold compactFrom
  split <;> rfl

/-- a key that is not in the map: nothing is removed -/
theorem mapDel_absent {m : List (Value × Value)} {k : Value} (h : mapGet m k = none) : mapDel m k = m := by
  unfold mapGet at h
  unfold mapDel
  rw [List.filter_eq_self]
  intro kv hkv
  cases hf : m.find? (fun kv => veq kv.1 k) with
  | some x => rw [hf] at h; cases h
  | none =>
    have := List.find?_eq_none.mp hf kv hkv
    simpa using this

end C15
