/-
C15 helper lemmas: the pure value-stream / container builtins of
`ElvModel/C15/Builtins.lean` preserve well-formedness of values and only raise
well-formed exceptions (needed by static-scope soundness).
-/
import ElvProofs.C15.Vals
set_option linter.unusedSimpArgs false
set_option linter.unusedVariables false
namespace C15

/-- Outcome of a pure builtin: well-formed outputs or a well-formed exception. -/
def PWf : PRes → Prop
  | .vals vs => VsWf vs
  | .err e => EWf e
  | .unsup _ => True

theorem PWf.bool (b : Bool) : PWf (.vals [.bool b]) := VsWf.single (VWf.bool b)
theorem PWf.errC {k : String} (h : k ≠ vnf) : PWf (.err ⟨k, []⟩) := EWf.const h

theorem mem_compactFrom {p : Value} {vs : List Value} {x : Value} (h : x ∈ compactFrom p vs) : x ∈ vs := by
  induction vs generalizing p with
  | nil => cases h
  | cons v vs ih =>
    unfold compactFrom at h
    split at h
    · exact List.mem_cons_of_mem _ (ih h)
    · cases h with
      | head => exact List.mem_cons_self
      | tail _ h => exact List.mem_cons_of_mem _ (ih h)

theorem compact_wf {vs : List Value} (h : VsWf vs) : VsWf (compact vs) := by
  cases vs with
  | nil => exact VsWf.nil
  | cons v vs =>
    intro x hx
    cases hx with
    | head => exact h.head
    | tail _ hx => exact h.tail _ (mem_compactFrom hx)

theorem makeMapPair_ok {x k v : Value} (hx : VWf x) (h : makeMapPair x = .ok (k, v)) : VWf k ∧ VWf v := by
  unfold makeMapPair at h
  split at h
  · cases h
    cases hx with
    | list h => exact ⟨h _ (by simp), h _ (by simp)⟩
  · cases h
  · dsimp only at h
    split at h
    · cases h
    · split at h
      · cases h; exact ⟨VWf.str _, VWf.str _⟩
      · cases h
  · cases h

theorem makeMapPair_err {x : Value} {e : Exc} (h : makeMapPair x = .error (some e)) : EWf e := by
  unfold makeMapPair at h
  split at h
  · cases h
  · cases h; exact EWf.const (by decide)
  · dsimp only at h
    split at h
    · cases h
    · split at h
      · cases h
      · cases h; exact EWf.const (by decide)
  · cases h; exact EWf.const (by decide)
theorem makeMapFrom_wf {acc : List (Value × Value)} (h1 : ∀ kv, kv ∈ acc → VWf kv.1)
    (h2 : ∀ kv, kv ∈ acc → VWf kv.2) {xs : List Value} (hx : VsWf xs) : PWf (makeMapFrom acc xs) := by
  induction xs generalizing acc with
  | nil => exact VsWf.single (VWf.map h1 h2)
  | cons x xs ih =>
    unfold makeMapFrom
    split
    · rename_i k v hkv
      have := makeMapPair_ok hx.head hkv
      have hp := mapPut_wf h1 h2 this.1 this.2
      exact ih hp.1 hp.2 hx.tail
    · rename_i e he
      exact makeMapPair_err he
    · trivial

theorem makeMap_wf {xs : List Value} (hx : VsWf xs) : PWf (makeMap xs) :=
  makeMapFrom_wf (by intro kv h; cases h) (by intro kv h; cases h) hx

theorem liftR_wf {r : Except Exc Value} (h : RWf r) : PWf (liftR r) := by
  cases r with
  | ok v => exact VsWf.single h
  | error e => exact h

theorem hasKey_wf (c k : Value) : PWf (hasKey c k) := by
  unfold hasKey
  dsimp only
  repeat' split
  all_goals first | exact PWf.bool _ | trivial

theorem hasValue_wf (c v : Value) : PWf (hasValue c v) := by
  unfold hasValue
  repeat' split
  all_goals first | exact PWf.bool _ | trivial | exact PWf.errC (by decide)

theorem keysOf_wf {c : Value} (hc : VWf c) : PWf (keysOf c) := by
  unfold keysOf
  split
  · cases hc with
    | map h1 h2 =>
      intro x hx
      obtain ⟨kv, hkv, rfl⟩ := List.mem_map.mp hx
      exact h1 _ hkv
  · split
    · trivial
    · exact PWf.errC (by decide)

theorem assocB_wf {c k v : Value} (hc : VWf c) (hk : VWf k) (hv : VWf v) : PWf (assocB c k v) := by
  unfold assocB
  split
  · trivial
  · exact liftR_wf (assocValue_wf hc hk hv)

theorem dissocB_wf {c : Value} (hc : VWf c) (k : Value) : PWf (dissocB c k) := by
  unfold dissocB
  split
  · cases hc with
    | map h1 h2 =>
      refine VsWf.single (VWf.map ?_ ?_) <;> intro kv hkv
      · exact h1 _ (List.mem_filter.mp hkv).1
      · exact h2 _ (List.mem_filter.mp hkv).1
  · split
    · trivial
    · exact PWf.errC (by decide)

theorem conjB_wf {l : Value} (hl : VWf l) {more : List Value} (hm : VsWf more) : PWf (conjB l more) := by
  unfold conjB
  split
  · cases hl with
    | list h => exact VsWf.single (VWf.list (VsWf.append h hm))
  · trivial
  · exact PWf.errC (by decide)

theorem isB_wf (args : List Value) : PWf (isB args) := by
  unfold isB
  split
  · exact PWf.bool _
  · trivial

theorem argBuiltin_wf (name : String) {args : List Value} (ha : VsWf args) : PWf (argBuiltin name args) := by
  unfold argBuiltin
  split
  all_goals first
    | exact hasKey_wf _ _
    | exact hasValue_wf _ _
    | exact keysOf_wf ha.head
    | exact assocB_wf ha.head ha.tail.head ha.tail.tail.head
    | exact dissocB_wf ha.head _
    | exact conjB_wf ha.head ha.tail
    | exact isB_wf _
    | exact PWf.errC (by decide)
    | trivial

theorem replicate_wf (n : Nat) {v : Value} (hv : VWf v) : VsWf (List.replicate n v) := by
  intro x hx
  rw [(List.mem_replicate.mp hx).2]
  exact hv

end C15
