/-
C15 helper lemmas about fuel: a terminating evaluation has a least sufficient
fuel; a `for` loop costs one level of fuel per element (fuel bounds the
nesting depth of evaluation, and an iteration is nested in the previous one).
-/
import ElvProofs.C15.Sem
set_option linter.unusedSimpArgs false
set_option linter.unusedVariables false
namespace C15

theorem run_eq_of_le (cfg : Cfg) {n m : Nat} (h : n ≤ m) (c : Call) (s : St)
    (hfin : run cfg n c s ≠ .oof) : run cfg m c s = run cfg n c s :=
  Res.eq_of_le (run_mono cfg h c s) hfin

/-- If some fuel suffices, there is a least sufficient fuel `n₀`: below it the
evaluation runs out of fuel, from it on the result is always the same. -/
theorem run_least_fuel (cfg : Cfg) (c : Call) (s : St) (h : ∃ n, run cfg n c s ≠ .oof) :
    ∃ n₀, run cfg n₀ c s ≠ .oof ∧ (∀ m, m < n₀ → run cfg m c s = .oof) ∧
      (∀ m, n₀ ≤ m → run cfg m c s = run cfg n₀ c s) := by
  obtain ⟨n, hn⟩ := h
  -- strong induction: the least `k ≤ n` with a finished result
  have key : ∀ k, run cfg k c s ≠ .oof →
      ∃ n₀, run cfg n₀ c s ≠ .oof ∧ ∀ m, m < n₀ → run cfg m c s = .oof := by
    intro k
    induction k using Nat.strongRecOn with
    | ind k ih =>
      intro hk
      by_cases hex : ∃ j, j < k ∧ run cfg j c s ≠ .oof
      · obtain ⟨j, hj, hjn⟩ := hex
        exact ih j hj hjn
      · refine ⟨k, hk, fun m hm => ?_⟩
        exact Classical.byContradiction (fun hne => hex ⟨m, hm, hne⟩)
  obtain ⟨n₀, h1, h2⟩ := key n hn
  exact ⟨n₀, h1, h2, fun m hm => run_eq_of_le cfg hm c s h1⟩

theorem forLoop_nil_eq (cfg : Cfg) (n a : Nat) (body : Chunk) (els : Option Chunk) (it : Bool) (s : St) :
    run cfg (n + 1) (.forLoop a [] body els it) s =
      match it, els with
      | false, some c => (run cfg n (.body c [] s.scope false) s).bind (fun _ s' => .ok [] s')
      | _, _ => .ok [] s := by
  rw [run_succ]
  cases it <;> cases els <;> simp [step, runOptBlock, den_bind, den_pure, Res.bind, den_runBlock]
  rename_i c
  cases run cfg n (.body c [] s.scope false) s <;> rfl

/-- Fuel accounting for `for`: if, from every state satisfying `I`, one run of
the body finishes with fuel `b` and re-establishes `I` when the loop goes on
(and so does the else-block), the loop over `items` finishes with fuel
`b + items.length + 1`: one level per element, not one level per step. -/
theorem forLoop_fuel (cfg : Cfg) (a : Nat) (body : Chunk) (els : Option Chunk) (I : St → Prop) (b : Nat)
    (hbody : ∀ v s, I s →
      match loopReact (run cfg b (.body body [] s.scope false) { s with heap := s.heap.set a v }) with
      | .next s' => I s'
      | .oof => False
      | _ => True)
    (hels : ∀ c s, els = some c → I s → run cfg b (.body c [] s.scope false) s ≠ .oof) :
    ∀ (items : List Value) (it : Bool) (s : St), I s →
      run cfg (b + items.length + 1) (.forLoop a items body els it) s ≠ .oof := by
  intro items
  induction items with
  | nil =>
    intro it s hI
    rw [forLoop_nil_eq]
    cases it <;> cases hels' : els <;> simp
    rename_i c
    have := hels c s hels' hI
    cases hr : run cfg b (.body c [] s.scope false) s <;> simp_all [Res.bind]
  | cons v vs ih =>
    intro it s hI
    have hlen : b + (v :: vs).length + 1 = (b + vs.length + 1) + 1 := by simp; omega
    rw [hlen, forLoop_cons_eq]
    have hb := hbody v s hI
    have hne : run cfg b (.body body [] s.scope false) { s with heap := s.heap.set a v } ≠ .oof := by
      intro h0; rw [h0] at hb; exact hb
    rw [run_eq_of_le cfg (by omega : b ≤ b + vs.length + 1) _ _ hne]
    cases hr : loopReact (run cfg b (.body body [] s.scope false) { s with heap := s.heap.set a v }) with
    | next s' => rw [hr] at hb; exact ih true s' hb
    | stop s' => simp
    | throw e s' => simp
    | oof => rw [hr] at hb; exact hb.elim
    | unsupported w => simp

/-- executable test for "finished" (used by non-vacuity examples) -/
def Res.finished {α} : Res α → Bool
  | .oof => false
  | _ => true

theorem Res.ne_oof_of_finished {α} {r : Res α} (h : r.finished = true) : r ≠ .oof := by
  intro h0; rw [h0] at h; cases h

end C15
