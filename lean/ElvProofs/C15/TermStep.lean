/-
C15 fuel sufficiency: every step of a request of the class only makes smaller
requests of the class; hence fuel `size + 1` suffices.
-/
import ElvProofs.C15.TermInert
set_option linter.unusedSimpArgs false
set_option linter.unusedVariables false
namespace C15

variable {α β : Type}

/-- From a state without function variables, `m` only makes requests of the
class smaller than `b`, keeps the state without function variables, and returns
a result satisfying `R`. -/
def TT (b : Nat) (R : α → Prop) (m : M α) : Prop :=
  ∀ s, TildeFree s.scope →
    (m s).twp b (fun a s' => TildeFree s'.scope ∧ R a) (fun _ s' => TildeFree s'.scope)

namespace TT
variable {b : Nat}

theorem bind {m : M α} {f : α → M β} {R : α → Prop} {R' : β → Prop} (h1 : TT b R m)
    (h2 : ∀ a, R a → TT b R' (f a)) : TT b R' (m >>= f) := by
  intro s hs
  exact (FM.twp_bind _ _ _ _).mpr
    (FM.twp_mono (h1 s hs) (fun a s' h => h2 a h.2 s' h.1) (fun _ _ h => h))

theorem pure {a : α} {R : α → Prop} (h : R a) : TT b R (Pure.pure a : M α) := fun s hs => ⟨hs, h⟩
theorem throw {e : Exc} {R : α → Prop} : TT b R (throwE e : M α) := fun s hs => hs
theorem unsupp {w : String} {R : α → Prop} : TT b R (unsupported w : M α) := fun s hs => trivial

theorem mono {m : M α} {R R' : α → Prop} (h : TT b R m) (hr : ∀ a, R a → R' a) : TT b R' m :=
  fun s hs => FM.twp_mono (h s hs) (fun a s' h => ⟨h.1, hr a h.2⟩) (fun _ _ h => h)

theorem ofInert {m : M α} (h : Inert m) : TT b (fun _ => True) m := by
  intro s hs
  have := h s
  cases hm : m s with
  | ret a s' => rw [hm] at this; exact ⟨by rw [show s'.scope = s.scope from this]; exact hs, trivial⟩
  | exc e s' => rw [hm] at this; show TildeFree s'.scope; rw [show s'.scope = s.scope from this]; exact hs
  | unsupported w => trivial
  | call c s' k => rw [hm] at this; exact this.elim

theorem attempt {m : M α} {R : α → Prop} (h : TT b R m) :
    TT b (fun r => ∀ a, r = Except.ok a → R a) (attempt m) := by
  intro s hs
  exact (FM.twp_attempt _ _ _).mpr
    (FM.twp_mono (h s hs) (fun a s' h => ⟨h.1, fun a' he => by cases he; exact h.2⟩)
      (fun e s' h => ⟨h, fun a' he => by cases he⟩))

theorem getSt : TT b (fun t => TildeFree t.scope) getSt := fun s hs => ⟨hs, hs⟩

theorem modify {f : St → St} (h : ∀ s, TildeFree s.scope → TildeFree (f s).scope) :
    TT b (fun _ => True) (modifySt f) := fun s hs => ⟨h s hs, trivial⟩

/-- A smaller request of the class. -/
theorem rec (c : Call) (hin : InT c) (hsz : csz c < b) : TT b (TVals c) (C15.rec c) := by
  intro s hs
  refine ⟨⟨⟨hs, hin⟩, hsz⟩, ?_⟩
  intro r s' hp
  cases r with
  | ok vs => exact ⟨hp.1, hp.2 vs rfl⟩
  | error e => exact hp.1

theorem rec' (c : Call) (hin : InT c) (hsz : csz c < b) : TT b (fun _ => True) (C15.rec c) :=
  mono (rec c hin hsz) (fun _ _ => trivial)

theorem declare {x : String} (hx : isTilde x = false) (v : Value) : TT b (fun _ => True) (declare x v) := by
  intro s hs
  show FM.twp b (C15.declare x v s) _ _
  unfold C15.declare
  split
  · trivial
  · rename_i f rest hsc
    rw [hsc] at hs
    exact ⟨hs.declare hx _, trivial⟩

theorem undeclare (x : String) : TT b (fun _ => True) (undeclare x) := by
  intro s hs
  show FM.twp b (C15.undeclare x s) _ _
  unfold C15.undeclare
  split
  · trivial
  · rename_i f rest hsc
    split
    · rw [hsc] at hs
      exact ⟨hs.undeclare x, trivial⟩
    · exact hs

theorem declareAll {names : List String} (h : names.all (fun x => !isTilde x) = true) (vals : List Value) :
    TT b (fun _ => True) (declareAll names vals) := by
  induction names generalizing vals with
  | nil => exact pure trivial
  | cons x xs ih =>
    cases vals with
    | nil => exact pure trivial
    | cons v vs =>
      simp only [List.all_cons, Bool.and_eq_true, Bool.not_eq_true'] at h
      unfold C15.declareAll
      exact bind (declare h.1 v) (fun _ _ => ih (by simpa using h.2) vs)

end TT

theorem tChunk_eq (c : Chunk) : tChunk c = tPipes c.pipes := by cases c; simp [tChunk, Chunk.pipes]
theorem cSz_eq (c : Chunk) : cSz c = psSz c.pipes := by cases c; simp [cSz, Chunk.pipes]

variable {b : Nat}

theorem TT.runBlock {c : Chunk} (h : tChunk c = true) (hb : cSz c + 1 < b) : TT b (fun _ => True) (runBlock c) := by
  unfold C15.runBlock
  refine TT.bind TT.getSt (fun t ht => ?_)
  exact TT.bind (TT.rec' (.body c [] t.scope false) ⟨h, ht.push⟩ hb) (fun _ _ => TT.pure trivial)

theorem TT.runOptBlock {c : Option Chunk} (h : tOpt c = true) (hb : oSz c < b + 1) :
    TT b (fun _ => True) (runOptBlock c) := by
  cases c with
  | none => exact TT.pure trivial
  | some c =>
    simp only [tOpt] at h
    simp only [oSz] at hb
    exact TT.runBlock h (by omega)

theorem TT.evalIdx {idx : List Expr} (h : tExprs idx = true) (hb : esSz idx ≤ b) :
    TT b (fun _ => True) (evalIdx idx) := by
  induction idx with
  | nil => exact TT.pure trivial
  | cons e es ih =>
    simp only [tExprs, Bool.and_eq_true] at h
    simp only [esSz] at hb
    unfold C15.evalIdx
    refine TT.bind (TT.rec' (.expr e) h.1 (by simp only [csz]; omega)) (fun vs _ => ?_)
    refine TT.bind (TT.ofInert (Inert.one vs)) (fun v _ => ?_)
    exact TT.bind (ih h.2 (by omega)) (fun _ _ => TT.pure trivial)

theorem TT.derefLVals {lvs : List LVal} (h : tLVals lvs = true) (hb : lvsSz lvs ≤ b) :
    TT b (fun _ => True) (derefLVals lvs) := by
  induction lvs with
  | nil => exact TT.pure trivial
  | cons lv lvs ih =>
    obtain ⟨x, rest, idx⟩ := lv
    simp only [tLVals, Bool.and_eq_true] at h
    simp only [lvsSz] at hb
    unfold C15.derefLVals
    refine TT.bind (R := fun _ => True) ?_ (fun r _ => TT.bind (ih h.2 (by omega)) (fun _ _ => TT.pure trivial))
    unfold derefLVal
    refine TT.bind (TT.ofInert (Inert.lookupVar _)) (fun a _ => ?_)
    refine TT.bind (TT.evalIdx h.1.2 (by simp only [LVal.idx]; omega)) (fun ix _ => ?_)
    refine TT.bind (TT.ofInert (Inert.readAddr a)) (fun v _ => ?_)
    exact TT.bind (TT.ofInert (Inert.liftE _)) (fun _ _ => TT.pure trivial)

theorem TT.delLVals {lvs : List LVal} (h : tLVals lvs = true) (hb : lvsSz lvs ≤ b) :
    TT b (fun _ => True) (delLVals lvs) := by
  induction lvs with
  | nil => exact TT.pure trivial
  | cons lv lvs ih =>
    obtain ⟨x, rest, idx⟩ := lv
    simp only [tLVals, Bool.and_eq_true] at h
    simp only [lvsSz] at hb
    unfold C15.delLVals
    refine TT.bind (R := fun _ => True) ?_ (fun _ _ => ih h.2 (by omega))
    unfold delLVal
    cases idx with
    | nil => exact TT.undeclare x
    | cons i is =>
      dsimp only [LVal.idx, LVal.name]
      refine TT.bind (TT.ofInert (Inert.lookupVar _)) (fun a _ => ?_)
      refine TT.bind (TT.evalIdx h.1.2 (by omega)) (fun ix _ => ?_)
      refine TT.bind (TT.ofInert (Inert.readAddr a)) (fun v _ => ?_)
      refine TT.bind (TT.ofInert (Inert.liftE _)) (fun v' _ => ?_)
      exact TT.ofInert (Inert.writeAddr a v')

/-- A literal head is a builtin command (there are no function variables). -/
theorem TT.resolveHeadLit (name : String) :
    TT b (fun f => f = .builtin name) (resolveHead (.lit name)) := by
  unfold C15.resolveHead
  dsimp only
  refine TT.bind TT.getSt (fun t ht => ?_)
  rw [ht.find_none name]
  dsimp only
  split
  · exact TT.pure rfl
  · exact TT.unsupp

theorem TT.catchVarAddr {cv : Option String} (h : tName cv = true) : TT b (fun _ => True) (catchVarAddr cv) := by
  cases cv with
  | none => exact TT.pure trivial
  | some v =>
    simp only [tName, Bool.not_eq_true'] at h
    unfold C15.catchVarAddr
    refine TT.bind TT.getSt (fun t ht => ?_)
    split
    · exact TT.pure trivial
    · exact TT.bind (TT.declare h .nil) (fun _ _ => TT.pure trivial)

/-! ### Expressions -/

theorem tvals_other {e : Expr} {vs : List Value} (h1 : ∀ s, e ≠ .lit s) (h2 : litList e = none) :
    TVals (.expr e) vs := by
  refine ⟨fun s he => absurd he (h1 s), fun ss he => ?_⟩
  rw [h2] at he; cases he

theorem tt_evalExpr (e : Expr) (h : tExpr e = true) : TT (eSz e) (TVals (.expr e)) (evalExpr e) := by
  cases e with
  | lit s =>
    refine TT.pure ⟨fun _ _ => rfl, fun ss he => ?_⟩
    simp [litList] at he
  | var x =>
    exact TT.bind (TT.ofInert (Inert.getVar x)) (fun v _ => TT.pure (tvals_other (by intro s h; cases h) rfl))
  | explode x =>
    refine TT.mono (TT.bind (TT.ofInert (Inert.getVar x)) (fun v _ => TT.ofInert (Inert.liftE _)))
      (fun _ _ => tvals_other (by intro s h; cases h) rfl)
  | list es =>
    simp only [tExpr] at h
    refine TT.bind (TT.rec (.exprs es) h (by simp only [csz, eSz]; omega)) (fun vs hvs => TT.pure ?_)
    refine ⟨fun s he => (by cases he), fun ss he => ⟨vs, rfl, hvs ss he⟩⟩
  | map ks vs =>
    simp only [tExpr, Bool.and_eq_true] at h
    refine TT.bind (TT.rec' (.mapPairs ks vs) h (by simp only [csz, eSz]; omega)) (fun kv _ => ?_)
    exact TT.pure (tvals_other (by intro s h; cases h) rfl)
  | lambda pos rest post on od body => simp [tExpr] at h
  | capture c =>
    simp only [tExpr, tChunk_eq] at h
    refine TT.mono (R := fun _ => True) ?_ (fun _ _ => tvals_other (by intro s h; cases h) rfl)
    refine TT.bind TT.getSt (fun s _ => ?_)
    refine TT.bind (TT.ofInert (Inert.modify (fun _ => rfl))) (fun _ _ => ?_)
    refine TT.bind (TT.attempt (TT.rec' (.pipes c.pipes) h (by simp only [csz, eSz, cSz_eq]; omega))) (fun r _ => ?_)
    refine TT.bind TT.getSt (fun s' _ => ?_)
    refine TT.bind (TT.ofInert (Inert.modify (fun _ => rfl))) (fun _ _ => ?_)
    exact TT.bind (TT.ofInert (Inert.liftE _)) (fun _ _ => TT.pure trivial)
  | excCapture c =>
    simp only [tExpr, tChunk_eq] at h
    refine TT.mono (R := fun _ => True) ?_ (fun _ _ => tvals_other (by intro s h; cases h) rfl)
    refine TT.bind (TT.attempt (TT.rec' (.pipes c.pipes) h (by simp only [csz, eSz, cSz_eq]; omega))) (fun r _ => ?_)
    cases r <;> exact TT.pure trivial
  | braced es =>
    simp only [tExpr] at h
    exact TT.mono (TT.rec' (.exprs es) h (by simp only [csz, eSz]; omega))
      (fun _ _ => tvals_other (by intro s h; cases h) rfl)
  | index e idx =>
    simp only [tExpr, Bool.and_eq_true] at h
    refine TT.mono (R := fun _ => True) ?_ (fun _ _ => tvals_other (by intro s h; cases h) rfl)
    refine TT.bind (TT.rec' (.expr e) h.1 (by simp only [csz, eSz]; omega)) (fun cs _ => ?_)
    refine TT.bind (TT.rec' (.exprs idx) h.2 (by simp only [csz, eSz]; omega)) (fun is _ => ?_)
    dsimp only
    split
    · exact TT.bind (R := fun _ => True) TT.unsupp (fun _ _ => TT.ofInert (Inert.liftE _))
    · exact TT.ofInert (Inert.liftE _)
  | compound es =>
    refine TT.mono (R := fun _ => True) ?_ (fun _ _ => tvals_other (by intro s h; cases h) rfl)
    cases es with
    | nil => exact TT.pure trivial
    | cons e es =>
      simp only [tExpr, tExprs, Bool.and_eq_true] at h
      refine TT.bind (TT.rec' (.expr e) h.1 (by simp only [csz, eSz, esSz]; omega)) (fun vs _ => ?_)
      exact TT.rec' (.compoundFrom vs es) h.2 (by simp only [csz, eSz, esSz]; omega)

/-! ### Command forms -/

theorem tLVals_names {lvs : List LVal} (h : tLVals lvs = true) :
    (lvs.map LVal.name).all (fun x => !isTilde x) = true := by
  induction lvs with
  | nil => rfl
  | cons lv lvs ih =>
    obtain ⟨x, rest, idx⟩ := lv
    simp only [tLVals, Bool.and_eq_true] at h
    simp only [List.map_cons, List.all_cons, LVal.name, Bool.and_eq_true]
    exact ⟨h.1.1, ih h.2⟩

theorem tt_tryProtected {body : Chunk} {cv : Option String} {cb eb : Option Chunk} (hbody : tChunk body = true)
    (hcv : tName cv = true) (hcb : tOpt cb = true) (heb : tOpt eb = true)
    (h1 : cSz body + 1 < b) (h2 : oSz cb < b + 1) (h3 : oSz eb < b + 1) :
    TT b (fun _ => True) (tryProtected body cv cb eb) := by
  unfold tryProtected
  refine TT.bind (TT.attempt (TT.runBlock hbody h1)) (fun r _ => ?_)
  refine TT.bind (TT.catchVarAddr hcv) (fun cv' _ => ?_)
  cases r with
  | error e =>
    cases cb with
    | some cb =>
      exact TT.bind (TT.ofInert (Inert.storeCaught cv' e))
        (fun _ _ => TT.mono (TT.attempt (TT.runOptBlock (c := some cb) hcb h2)) (fun _ _ => trivial))
    | none => exact TT.pure trivial
  | ok u =>
    cases eb with
    | some eb => exact TT.mono (TT.attempt (TT.runOptBlock (c := some eb) heb h3)) (fun _ _ => trivial)
    | none => exact TT.pure trivial

theorem tt_evalForm (cfg : Cfg) (f : Form) (h : tForm f = true) :
    TT (fSz f) (fun _ => True) (evalForm cfg f) := by
  cases f with
  | cmd head args on ov =>
    cases head with
    | lit name =>
      simp only [tForm, tHead, Bool.and_eq_true, bne_iff_ne, ne_eq] at h
      refine TT.bind (TT.resolveHeadLit name) (fun f hf => ?_)
      refine TT.bind (TT.rec' (.exprs args) h.1.2 (by simp only [csz, fSz]; omega)) (fun a _ => ?_)
      refine TT.bind (TT.rec' (.exprsEach ov) h.2 (by simp only [csz, fSz]; omega)) (fun ps _ => ?_)
      refine TT.bind (TT.ofInert (Inert.oneEach ps)) (fun o _ => ?_)
      exact TT.bind (TT.rec' (.call f a on o) ⟨name, hf, h.1.1.1, h.1.1.2⟩ (by simp only [csz, fSz]; omega))
        (fun _ _ => TT.pure trivial)
    | _ => simp [tForm, tHead] at h
  | declare names =>
    simp only [tForm] at h
    exact TT.declareAll h _
  | assign k lvs rhs =>
    simp only [tForm, Bool.and_eq_true] at h
    cases k with
    | var =>
      refine TT.bind (TT.rec' (.exprs rhs) h.2 (by simp only [csz, fSz]; omega)) (fun vs _ => ?_)
      refine TT.bind (TT.ofInert (Inert.liftE _)) (fun vals _ => ?_)
      exact TT.declareAll (tLVals_names h.1) vals
    | set =>
      refine TT.bind (TT.derefLVals h.1 (by simp only [fSz]; omega)) (fun refs _ => ?_)
      refine TT.bind (TT.rec' (.exprs rhs) h.2 (by simp only [csz, fSz]; omega)) (fun vs _ => ?_)
      refine TT.bind (TT.ofInert (Inert.liftE _)) (fun vals _ => ?_)
      exact TT.ofInert (Inert.assignRefs cfg _ refs vals)
    | tmp =>
      refine TT.bind (TT.derefLVals h.1 (by simp only [fSz]; omega)) (fun refs _ => ?_)
      refine TT.bind (TT.rec' (.exprs rhs) h.2 (by simp only [csz, fSz]; omega)) (fun vs _ => ?_)
      refine TT.bind (TT.ofInert (Inert.liftE _)) (fun vals _ => ?_)
      exact TT.ofInert (Inert.assignRefs cfg _ refs vals)
  | del lvs =>
    simp only [tForm] at h
    exact TT.delLVals h (by simp only [fSz]; omega)
  | logic k args =>
    simp only [tForm] at h
    exact TT.bind (TT.rec' (.logicArgs k args _) h (by simp only [csz, fSz]; omega)) (fun _ _ => TT.pure trivial)
  | ifF conds bodies els =>
    simp only [tForm, Bool.and_eq_true] at h
    exact TT.bind (TT.rec' (.ifChain conds bodies els) ⟨h.1.1, h.1.2, h.2⟩ (by simp only [csz, fSz]; omega))
      (fun _ _ => TT.pure trivial)
  | whileF cond body els => simp [tForm] at h
  | forF v iter body els =>
    simp only [tForm, Bool.and_eq_true, Bool.not_eq_true'] at h
    obtain ⟨⟨⟨hv, hlit⟩, hbody⟩, hels⟩ := h
    obtain ⟨ss, hss⟩ := Option.isSome_iff_exists.mp hlit
    have hiter : tExpr iter = true := by
      cases iter <;> simp [litList] at hss
      rename_i es
      simp only [tExpr]
      clear hlit
      induction es generalizing ss with
      | nil => rfl
      | cons e es ih =>
        cases e <;> simp [allLits, litOf] at hss
        rename_i s
        cases hes : allLits es with
        | none => rw [hes] at hss; simp at hss
        | some ss' => simp only [tExprs, tExpr, Bool.true_and]; exact ih ss' hes
    have hlen : litLen iter = ss.length := by simp [litLen, hss]
    have hrest : ∀ a : Nat, TT (fSz (.forF v iter body els)) (fun _ => True) (do
        let vs ← C15.rec (.expr iter)
        let c ← one vs
        let items ← liftE (elements c)
        let _ ← C15.rec (.forLoop a items body els false)
        Pure.pure ()) := by
      intro a
      refine TT.bind (TT.rec (.expr iter) hiter (by simp only [csz, fSz]; omega)) (fun vs hvs => ?_)
      obtain ⟨l, rfl, hl⟩ := hvs.2 ss hss
      refine TT.bind (TT.pure (R := fun c => c = Value.list l) rfl) (fun c hc => ?_)
      subst hc
      refine TT.bind (TT.pure (R := fun items => items = l) rfl) (fun items hi => ?_)
      subst hi
      exact TT.bind (TT.rec' (.forLoop a items body els false) ⟨hbody, hels⟩
        (by simp only [csz, fSz]; omega)) (fun _ _ => TT.pure trivial)
    refine TT.bind TT.getSt (fun t ht => ?_)
    dsimp only
    split
    · exact TT.bind (TT.pure (R := fun _ => True) trivial) (fun a _ => hrest a)
    · exact TT.bind (TT.declare hv .nil) (fun a _ => hrest a)
  | tryF body cv cb eb fin =>
    simp only [tForm, Bool.and_eq_true] at h
    obtain ⟨⟨⟨⟨hcv, hbody⟩, hcb⟩, heb⟩, hfin⟩ := h
    refine TT.bind (tt_tryProtected hbody hcv hcb heb (by simp only [fSz]; omega) (by simp only [fSz]; omega)
      (by simp only [fSz]; omega)) (fun pending _ => ?_)
    cases fin with
    | some fb =>
      exact TT.bind (TT.runOptBlock (c := some fb) hfin (by simp only [fSz]; omega))
        (fun _ _ => TT.ofInert (Inert.liftE _))
    | none => exact TT.ofInert (Inert.liftE _)
  | fnF name lam => simp [tForm] at h

/-! ### Every step -/

theorem twp_of_TT {c : Call} {m : M (List Value)} {s : St} (h : TT (csz c) (TVals c) m)
    (hs : TildeFree s.scope) :
    (m s).twp (csz c) (fun vs s' => TPost c (.ok vs) s') (fun e s' => TPost c (.error e) s') :=
  FM.twp_mono (h s hs) (fun vs s' h => ⟨h.1, fun vs' he => by cases he; exact h.2⟩)
    (fun e s' h => ⟨h, fun vs' he => by cases he⟩)

theorem TT.loopReact {r : Except Exc Unit} {next : M (List Value)} (hn : TT b (fun _ => True) next) :
    TT b (fun _ => True) (match (generalizing := false) r with
      | .ok _ => next
      | .error e =>
        if e.kind == "continue" then next
        else if e.kind == "break" then Pure.pure []
        else throwE e) := by
  cases r with
  | ok _ => exact hn
  | error e =>
    dsimp only
    split
    · exact hn
    · split
      · exact TT.pure trivial
      · exact TT.throw

theorem step_total (cfg : Cfg) (c : Call) (s : St) (hp : TPre c s) :
    (step cfg c s).twp (csz c) (fun vs s' => TPost c (.ok vs) s') (fun e s' => TPost c (.error e) s') := by
  obtain ⟨hs, hin⟩ := hp
  refine twp_of_TT ?_ hs
  cases c with
  | expr e => exact tt_evalExpr e hin
  | exprs es =>
    cases es with
    | nil =>
      refine TT.pure ?_
      intro ss he
      simp only [allLits, Option.some.injEq] at he
      subst he; rfl
    | cons e es =>
      have hin' : tExpr e = true ∧ tExprs es = true := by simpa [InT, tExprs] using hin
      refine TT.bind (TT.rec (.expr e) hin'.1 (by simp only [csz, esSz]; omega)) (fun a ha => ?_)
      refine TT.bind (TT.rec (.exprs es) hin'.2 (by simp only [csz, esSz]; omega)) (fun b' hb' => TT.pure ?_)
      intro ss he
      simp only [allLits] at he
      cases hl : litOf e with
      | none => rw [hl] at he; simp at he
      | some s0 =>
        cases hes : allLits es with
        | none => rw [hl, hes] at he; simp at he
        | some ss' =>
          rw [hl, hes] at he
          simp only [Option.some.injEq] at he
          subst he
          have he' : e = .lit s0 := by cases e <;> simp [litOf] at hl; rw [hl]
          simp only [List.length_append, List.length_cons, ha.1 s0 he', hb' ss' hes]
          omega
  | exprsEach es =>
    cases es with
    | nil => exact TT.pure trivial
    | cons e es =>
      have hin' : tExpr e = true ∧ tExprs es = true := by simpa [InT, tExprs] using hin
      refine TT.bind (TT.rec' (.expr e) hin'.1 (by simp only [csz, esSz]; omega)) (fun a _ => ?_)
      exact TT.bind (TT.rec' (.exprsEach es) hin'.2 (by simp only [csz, esSz]; omega)) (fun _ _ => TT.pure trivial)
  | form f => exact TT.bind (tt_evalForm cfg f hin) (fun _ _ => TT.pure trivial)
  | pipeline p =>
    obtain ⟨fs⟩ := p
    have hmulti : TT (fsSz fs + 1) (fun _ => True)
        (do let t ← getSt; C15.rec (.stages fs t.inp true [])) :=
      TT.bind TT.getSt (fun t _ => TT.rec' (.stages fs t.inp true []) hin (by simp only [csz]; omega))
    cases fs with
    | nil => exact hmulti
    | cons f fs =>
      cases fs with
      | nil =>
        have hf : tForm f = true := by simpa [InT, tForms] using hin
        exact TT.rec' (.form f) hf (by simp only [csz, fsSz]; omega)
      | cons g gs => exact hmulti
  | pipes ps =>
    cases ps with
    | nil => exact TT.pure trivial
    | cons p ps =>
      obtain ⟨fs⟩ := p
      have hin' : tForms fs = true ∧ tPipes ps = true := by simpa [InT, tPipes] using hin
      refine TT.bind (TT.rec' (.pipeline (.mk fs)) hin'.1 (by simp only [csz, psSz]; omega)) (fun _ _ => ?_)
      exact TT.rec' (.pipes ps) hin'.2 (by simp only [csz, psSz]; omega)
  | body c frame env isFn =>
    obtain ⟨hc, htf⟩ := hin
    refine TT.bind (R := fun _ => True) ?_ (fun _ _ => TT.pure trivial)
    unfold runBody
    refine TT.bind TT.getSt (fun s0 hs0 => ?_)
    refine TT.bind (TT.modify (fun _ _ => htf)) (fun _ _ => ?_)
    refine TT.bind (TT.attempt (TT.rec' (.pipes c.pipes) (show tPipes c.pipes = true by rw [← tChunk_eq]; exact hc)
      (by simp only [csz, cSz_eq]; omega))) (fun r _ => ?_)
    refine TT.bind TT.getSt (fun t _ => ?_)
    refine TT.bind (TT.ofInert (Inert.runDefers _)) (fun _ _ => ?_)
    refine TT.bind (TT.modify (fun _ _ => hs0)) (fun _ _ => ?_)
    cases r with
    | ok _ => exact TT.pure trivial
    | error e =>
      dsimp only
      split
      · exact TT.pure trivial
      · exact TT.throw
  | call f args on ov =>
    obtain ⟨name, rfl, h1, h2⟩ := hin
    exact TT.bind (TT.ofInert (Inert.callBuiltin h1 h2 args on ov)) (fun _ _ => TT.pure trivial)
  | logicArgs k args last =>
    cases args with
    | nil => exact TT.bind (TT.ofInert (Inert.emit _)) (fun _ _ => TT.pure trivial)
    | cons e es =>
      have hin' : tExpr e = true ∧ tExprs es = true := by simpa [InT, tExprs] using hin
      refine TT.bind (TT.rec' (.expr e) hin'.1 (by simp only [csz, esSz]; omega)) (fun vs _ => ?_)
      split
      · exact TT.bind (TT.ofInert (Inert.emit _)) (fun _ _ => TT.pure trivial)
      · exact TT.rec' (.logicArgs k es _) hin'.2 (by simp only [csz, esSz]; omega)
  | ifChain conds bodies els =>
    obtain ⟨hconds, hbodies, hels⟩ := hin
    have helse : TT (csz (.ifChain conds bodies els)) (fun _ => True)
        (do runOptBlock els; Pure.pure [] : M (List Value)) :=
      TT.bind (TT.runOptBlock hels (by simp only [csz]; omega)) (fun _ _ => TT.pure trivial)
    cases conds with
    | nil => exact helse
    | cons c cs =>
      cases bodies with
      | nil => exact helse
      | cons b' bs =>
        simp only [tExprs, tChunks, Bool.and_eq_true] at hconds hbodies
        refine TT.bind (TT.rec' (.expr c) hconds.1 (by simp only [csz, esSz]; omega)) (fun vs _ => ?_)
        split
        · exact TT.bind (TT.runBlock hbodies.1 (by simp only [csz, csSz]; omega)) (fun _ _ => TT.pure trivial)
        · exact TT.rec' (.ifChain cs bs els) ⟨hconds.2, hbodies.2, hels⟩ (by simp only [csz, esSz, csSz]; omega)
  | whileLoop cond body els it => exact hin.elim
  | forLoop a items body els it =>
    obtain ⟨hbody, hels⟩ := hin
    cases items with
    | nil =>
      simp only [step]
      split
      · exact TT.bind (TT.runOptBlock hels (by simp only [csz]; omega)) (fun _ _ => TT.pure trivial)
      · exact TT.pure trivial
    | cons v vs =>
      refine TT.bind (TT.ofInert (Inert.writeAddr a v)) (fun _ _ => ?_)
      refine TT.bind (TT.attempt (TT.runBlock hbody (by simp only [csz, List.length_cons]; omega))) (fun r _ => ?_)
      exact TT.loopReact (TT.rec' (.forLoop a vs body els true) ⟨hbody, hels⟩
        (by simp only [csz, List.length_cons]; omega))
  | eachLoop f items => exact hin.elim
  | keepIfLoop f items => exact hin.elim
  | stages fs input first excs =>
    cases fs with
    | nil => exact TT.bind (TT.ofInert (Inert.pipelineResult excs)) (fun _ _ => TT.pure trivial)
    | cons f fs =>
      have hin' : tForm f = true ∧ tForms fs = true := by simpa [InT, tForms] using hin
      refine TT.bind TT.getSt (fun t _ => ?_)
      dsimp only
      refine TT.bind (TT.ofInert (Inert.modify (fun _ => rfl))) (fun _ _ => ?_)
      refine TT.bind (TT.attempt (TT.rec' (.form f) hin'.1 (by simp only [csz, fsSz]; omega))) (fun r _ => ?_)
      refine TT.bind TT.getSt (fun t' _ => ?_)
      refine TT.bind (TT.ofInert (Inert.modify (fun _ => rfl))) (fun _ _ => ?_)
      exact TT.rec' (.stages fs _ false _) hin'.2 (by simp only [csz, fsSz]; omega)
  | mapPairs ks vs =>
    obtain ⟨hks, hvs⟩ := hin
    cases ks with
    | nil => exact TT.pure trivial
    | cons k ks =>
      cases vs with
      | nil => exact TT.pure trivial
      | cons v vs =>
        simp only [tExprs, Bool.and_eq_true] at hks hvs
        refine TT.bind (TT.rec' (.expr k) hks.1 (by simp only [csz, esSz]; omega)) (fun kv _ => ?_)
        refine TT.bind (TT.rec' (.expr v) hvs.1 (by simp only [csz, esSz]; omega)) (fun vv _ => ?_)
        dsimp only
        split
        · exact TT.bind (R := fun _ => True) TT.throw (fun _ _ => TT.bind
            (TT.rec' (.mapPairs ks vs) ⟨hks.2, hvs.2⟩ (by simp only [csz, esSz]; omega)) (fun _ _ => TT.pure trivial))
        · exact TT.bind (TT.rec' (.mapPairs ks vs) ⟨hks.2, hvs.2⟩ (by simp only [csz, esSz]; omega))
            (fun _ _ => TT.pure trivial)
  | compoundFrom acc es =>
    cases es with
    | nil => exact TT.pure trivial
    | cons e es =>
      have hin' : tExpr e = true ∧ tExprs es = true := by simpa [InT, tExprs] using hin
      refine TT.bind (TT.rec' (.expr e) hin'.1 (by simp only [csz, esSz]; omega)) (fun us _ => ?_)
      refine TT.bind (TT.ofInert (Inert.liftE _)) (fun acc' _ => ?_)
      exact TT.rec' (.compoundFrom acc' es) hin'.2 (by simp only [csz, esSz]; omega)

/-! ### Whole programs -/

theorem tildeFree_init : TildeFree initSt.scope := by
  intro f hf p hp
  simp only [initSt, List.mem_cons, List.mem_nil_iff, or_false] at hf
  rcases hf with rfl | rfl
  · cases hp
  · simp only [List.mem_cons, List.mem_nil_iff, or_false] at hp
    rcases hp with rfl | rfl | rfl | rfl <;> decide

/-- A program of the class finishes (or leaves the modelled fragment) with any fuel above its size. -/
theorem program_total (cfg : Cfg) (p : Chunk) (h : tChunk p = true) (n : Nat) (hn : cSz p < n) :
    TGood (.pipes p.pipes) (run cfg n (.pipes p.pipes) initSt) :=
  run_total cfg (step_total cfg) n _ _ ⟨tildeFree_init, show tPipes p.pipes = true by rw [← tChunk_eq]; exact h⟩
    (by simp only [csz, ← cSz_eq]; exact hn)

end C15
