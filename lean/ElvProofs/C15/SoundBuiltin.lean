/-
C15 static-scope soundness: builtin commands and function calls.
-/
import ElvProofs.C15.SoundExpr
import ElvProofs.C15.PureWf
set_option linter.unusedSimpArgs false
set_option linter.unusedVariables false
namespace C15

variable {s0 : St}

macro "vswf" : tactic => `(tactic| first
  | assumption
  | exact VsWf.nil
  | exact VsWf.single (by first | assumption | constructor)
  | exact VsWf.tail (by assumption)
  | exact VsWf.take (by assumption) _
  | exact VsWf.drop (by assumption) _
  | exact VsWf.map_of (fun _ => by constructor))

namespace Keeps

theorem noOpts (on : List String) : Keeps s0 (fun _ => True) (noOpts on) := by
  unfold C15.noOpts
  split
  · exact pure trivial
  · exact throwC (by decide)

theorem numArgs (vs : List Value) : Keeps s0 (fun _ => True) (numArgs vs) := by
  induction vs with
  | nil => exact pure trivial
  | cons v vs ih =>
    unfold C15.numArgs
    split
    · exact bind ih (fun _ _ => pure trivial)
    · exact throwC (by decide)
    · exact unsupp

theorem intArg (v : Value) : Keeps s0 (fun _ => True) (intArg v) := by
  unfold C15.intArg
  repeat' split
  all_goals first | exact pure trivial | exact throwC (by decide) | exact unsupp

theorem inputsOf {args : List Value} (h : VsWf args) : Keeps s0 VsWf (inputsOf args) := by
  unfold C15.inputsOf
  split
  · exact takeInput
  · exact liftE (elements_wf h.head)
  · exact throwC (by decide)

theorem orderVals (rev : Bool) (vs : List Value) : Keeps s0 VsWf (orderVals rev vs) := by
  unfold C15.orderVals
  dsimp only
  repeat' split
  all_goals first
    | exact throwC (by decide)
    | exact unsupp
    | exact pure (VsWf.reverse (VsWf.map_of (fun _ => by constructor)))
    | exact pure (VsWf.map_of (fun _ => by constructor))

theorem liftP {r : PRes} (h : PWf r) : Keeps s0 VsWf (liftP r) := by
  cases r with
  | vals vs => exact pure h
  | err e => exact throw h
  | unsup w => exact unsupp

/-- The pure builtins of `ElvModel/C15/Builtins.lean`. -/
theorem callPure (name : String) {args : List Value} (ha : VsWf args) (on : List String) :
    Keeps s0 (fun _ => True) (callPure name args on) := by
  unfold C15.callPure
  refine bind (noOpts on) (fun _ _ => ?_)
  split
  · exact bind (inputsOf ha) (fun vs hvs => emit (compact_wf hvs))
  · exact bind (inputsOf ha) (fun vs hvs => bind (liftP (makeMap_wf hvs)) (fun o ho => emit ho))
  · split
    · exact bind (intArg _) (fun n _ => emit (replicate_wf _ ha.tail.head))
    · exact throwC (by decide)
  · exact bind (liftP (argBuiltin_wf name ha)) (fun o ho => emit ho)

theorem recEachLoop {f : Value} {items : List Value} (hf : VWf f) (hi : VsWf items) :
    Keeps s0 VsWf (C15.rec (.eachLoop f items)) :=
  Keeps.rec (.eachLoop f items) [] false (fun s _ hp => ⟨hf, hi⟩) (fun _ _ _ h => h)

theorem recKeepIfLoop {f : Value} {items : List Value} (hf : VWf f) (hi : VsWf items) :
    Keeps s0 VsWf (C15.rec (.keepIfLoop f items)) :=
  Keeps.rec (.keepIfLoop f items) [] false (fun s _ hp => ⟨hf, hi⟩) (fun _ _ _ h => h)

end Keeps

theorem EWf.ofExcValue {k : String} {p : List Value} (h : VWf (.exc k p)) : EWf ⟨k, p⟩ := by
  cases h with
  | exc h1 h2 => exact ⟨h1, h2⟩

theorem EWf.fail {v : Value} (h : VWf v) : EWf (Exc.fail v) := ⟨(by decide : "fail" ≠ vnf), VsWf.single h⟩

macro "kb1" : tactic => `(tactic| first
  | intro _ _
  | exact Keeps.pure (R := fun _ => True) trivial
  | exact Keeps.unsupp (R := fun _ => True)
  | exact Keeps.unsupp
  | exact Keeps.throwC (R := fun _ => True) (by decide)
  | exact Keeps.throwC (by decide)
  | exact Keeps.noOpts _
  | exact Keeps.numArgs _
  | exact Keeps.intArg _
  | exact Keeps.takeInput
  | exact Keeps.inputsOf (by vswf)
  | exact Keeps.orderVals _ _
  | exact Keeps.callPure _ (by assumption) _
  | exact Keeps.emit (rangeVals_wf _ _ _)
  | exact Keeps.emit (by vswf)
  | exact Keeps.liftE (lengthOf_ok _)
  | exact Keeps.throw (EWf.ofExcValue (VsWf.head (by assumption)))
  | exact Keeps.throw (EWf.fail (VsWf.head (by assumption)))
  | exact Keeps.recEachLoop (VsWf.head (by assumption)) (by assumption)
  | exact Keeps.recKeepIfLoop (VsWf.head (by assumption)) (by assumption)
  | apply Keeps.bind
  | split
  | dsimp only)

attribute [local irreducible] noOpts numArgs intArg inputsOf orderVals emit takeInput liftE throwE
  unsupported C15.rec lengthOf rangeVals Keeps callPure in
theorem keeps_callBuiltinBody {name : String} {args : List Value} (ha : VsWf args) (on : List String)
    {ov : List Value} (ho : VsWf ov) : Keeps s0 (fun _ => True) (callBuiltinBody name args on ov) := by
  unfold callBuiltinBody
  split
  all_goals (repeat' kb1)

theorem Keeps.precheck (name : String) (args : List Value) (on : List String) :
    Keeps s0 (fun _ => True) (precheck name args on) := by
  unfold C15.precheck
  split
  · exact Keeps.throwC (by decide)
  · split
    · exact Keeps.throwC (by decide)
    · exact Keeps.pure trivial

theorem keeps_callBuiltin {name : String} {args : List Value} (ha : VsWf args) (on : List String)
    {ov : List Value} (ho : VsWf ov) : Keeps s0 (fun _ => True) (callBuiltin name args on ov) := by
  unfold callBuiltin
  exact Keeps.bind (Keeps.precheck name args on) (fun _ _ => keeps_callBuiltinBody ha on ho)

end C15
