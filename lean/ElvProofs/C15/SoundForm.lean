/-
C15 static-scope soundness: command forms.
-/
import ElvProofs.C15.SoundAssign
set_option linter.unusedSimpArgs false
set_option linter.unusedVariables false
namespace C15

variable {s0 : St} {sc : SScope}

theorem ite_some {α} {c : Prop} [Decidable c] {a b : α} (h : (if c then some a else none) = some b) :
    c ∧ a = b := by
  split at h
  · exact ⟨‹_›, Option.some.inj h⟩
  · cases h

theorem ite_some' {α} {c : Prop} [Decidable c] {x : Option α} {b : α} (h : (if c then x else none) = some b) :
    c ∧ x = some b := by
  split at h
  · exact ⟨‹_›, h⟩
  · cases h

namespace Keeps

theorem runBlock (hag : Agree s0.scope sc) {c : Chunk} (h : rBlock sc c = true) :
    Keeps s0 (fun _ => True) (runBlock c) := by
  unfold C15.runBlock
  refine Keeps.bind Keeps.getSt (fun s hs => ?_)
  exact Keeps.bind (Keeps.recBody (sc' := [] :: sc) ⟨frameAgree_nil, agree_of_eq hag hs.2⟩
    (by rw [← rBlock_eq]; exact h)) (fun _ _ => Keeps.pure trivial)

theorem runOptBlock (hag : Agree s0.scope sc) {c : Option Chunk} (h : rOptBlock sc c = true) :
    Keeps s0 (fun _ => True) (runOptBlock c) := by
  cases c with
  | none => exact Keeps.pure trivial
  | some c => exact runBlock hag (by simpa [rOptBlock] using h)

theorem recLogicArgs (hag : Agree s0.scope sc) (k : LKind) {args : List Expr} (h : rExprs sc args = true)
    {last : Value} (hl : VWf last) : Keeps s0 VsWf (C15.rec (.logicArgs k args last)) :=
  Keeps.rec (.logicArgs k args last) sc false (fun s _ hp => ⟨agree_of_eq hag hp, h, hl⟩) (fun _ _ _ h => h)

theorem recIfChain (hag : Agree s0.scope sc) {conds : List Expr} {bodies : List Chunk} {els : Option Chunk}
    (h1 : rExprs sc conds = true) (h2 : rBlocks sc bodies = true) (h3 : rOptBlock sc els = true) :
    Keeps s0 VsWf (C15.rec (.ifChain conds bodies els)) :=
  Keeps.rec (.ifChain conds bodies els) sc false (fun s _ hp => ⟨agree_of_eq hag hp, h1, h2, h3⟩)
    (fun _ _ _ h => h)

theorem recWhileLoop (hag : Agree s0.scope sc) {cond : Expr} {body : Chunk} {els : Option Chunk} (it : Bool)
    (h1 : rExpr sc cond = true) (h2 : rBlock sc body = true) (h3 : rOptBlock sc els = true) :
    Keeps s0 VsWf (C15.rec (.whileLoop cond body els it)) :=
  Keeps.rec (.whileLoop cond body els it) sc false (fun s _ hp => ⟨agree_of_eq hag hp, h1, h2, h3⟩)
    (fun _ _ _ h => h)

theorem recForLoop (hag : Agree s0.scope sc) (a : Nat) {items : List Value} (hi : VsWf items) {body : Chunk}
    {els : Option Chunk} (it : Bool) (h2 : rBlock sc body = true) (h3 : rOptBlock sc els = true) :
    Keeps s0 VsWf (C15.rec (.forLoop a items body els it)) :=
  Keeps.rec (.forLoop a items body els it) sc false (fun s _ hp => ⟨agree_of_eq hag hp, hi, h2, h3⟩)
    (fun _ _ _ h => h)

theorem recStages (hag : Agree s0.scope sc) {fs : List Form} (h : rForms sc fs = true) {input : List Value}
    (hi : VsWf input) (first : Bool) {excs : List Value} (he : VsWf excs) :
    Keeps s0 VsWf (C15.rec (.stages fs input first excs)) :=
  Keeps.rec (.stages fs input first excs) sc false (fun s _ hp => ⟨agree_of_eq hag hp, h, hi, he⟩)
    (fun _ _ _ h => h)

theorem recFormNoDecl (hag : Agree s0.scope sc) {f : Form} (h : (rForm sc false f).isSome = true) :
    Keeps s0 VsWf (C15.rec (.form f)) :=
  Keeps.rec (.form f) sc false (fun s _ hp => ⟨agree_of_eq hag hp, h⟩) (fun _ _ _ h => h.1 rfl)

theorem resolveHead (hag : Agree s0.scope sc) {head : Expr}
    (h : (match head with
      | .lit _ => true
      | e => rExpr sc e) = true) : Keeps s0 VWf (resolveHead head) := by
  have hother : ∀ e : Expr, rExpr sc e = true →
      Keeps s0 VWf (do
        let v ← C15.one (← C15.rec (.expr e))
        if isCallable v then Pure.pure v else throwE Exc.badValue) := by
    intro e he
    refine Keeps.bind (Keeps.recExpr hag he) (fun vs hvs => ?_)
    refine Keeps.bind (Keeps.one hvs) (fun v hv => ?_)
    split
    · exact Keeps.pure hv
    · exact Keeps.throwC (by decide)
  cases head with
  | lit name =>
    unfold C15.resolveHead
    dsimp only
    refine Keeps.bind Keeps.getSt (fun s hs => ?_)
    split
    · exact Keeps.readAddr _
    · split
      · exact Keeps.pure (VWf.builtin _)
      · exact Keeps.unsupp
  | _ => exact hother _ h

theorem storeCaught (cv : Option Nat) {e : Exc} (he : EWf e) : Keeps s0 (fun _ => True) (storeCaught cv e) := by
  cases cv with
  | none => exact Keeps.pure trivial
  | some a => exact Keeps.writeAddr a (EWf.toValue he)

end Keeps

theorem TrF.catchVarAddr {decl : Bool} {cv : Option String} {sc1 : SScope}
    (h : (match cv with
      | none => some sc
      | some v =>
        if sc.has v then (if sc.assignable v then some sc else none)
        else if decl then some (sc.declare v) else none) = some sc1) :
    TrF decl s0 sc sc1 (catchVarAddr cv) (fun _ => True) := by
  cases cv with
  | none =>
    simp only [Option.some.injEq] at h
    subst h
    exact TrF.pure trivial
  | some v =>
    dsimp only at h
    unfold C15.catchVarAddr
    by_cases hv : sc.has v = true
    · rw [if_pos hv] at h
      obtain ⟨_, rfl⟩ := ite_some h
      refine TrF.ofKeeps (fun s1 hag => ?_)
      refine Keeps.bind Keeps.getSt (fun t ht => ?_)
      obtain ⟨a, ha⟩ := agree_find_some (agree_of_eq hag ht.2) hv
      rw [ha]
      exact Keeps.pure trivial
    · rw [if_neg hv] at h
      obtain ⟨hd, rfl⟩ := ite_some h
      subst hd
      refine TrF.getSt_bind (fun t ht hag hd => ?_)
      have hnone := agree_find_none hag (by simpa using hv)
      rw [hnone]
      refine TrF.atState hag hd ?_
      exact TrF.bind (TrF.declare v VWf.nil) (fun a _ => TrF.pure trivial)

theorem trF_tryProtected {decl : Bool} {body : Chunk} {cv : Option String} {cb eb : Option Chunk}
    {sc1 : SScope} (hbody : rBlock sc body = true)
    (hcv : (match cv with
      | none => some sc
      | some v =>
        if sc.has v then (if sc.assignable v then some sc else none)
        else if decl then some (sc.declare v) else none) = some sc1)
    (hcb : rOptBlock sc1 cb = true) (heb : rOptBlock sc1 eb = true) :
    TrF decl s0 sc sc1 (tryProtected body cv cb eb) (EOk (fun _ => True)) := by
  unfold tryProtected
  refine TrF.bind (TrF.ofKeeps (fun s1 hag => Keeps.attempt (Keeps.runBlock hag hbody))) (fun r hr => ?_)
  refine TrF.bind (TrF.catchVarAddr hcv) (fun cv' _ => ?_)
  refine TrF.ofKeeps (fun s1 hag => ?_)
  cases r with
  | error e =>
    cases cb with
    | some cb =>
      exact Keeps.bind (Keeps.storeCaught cv' hr)
        (fun _ _ => Keeps.attempt (Keeps.runBlock hag (by simpa [rOptBlock] using hcb)))
    | none => exact Keeps.pure hr
  | ok u =>
    cases eb with
    | some eb => exact Keeps.attempt (Keeps.runBlock hag (by simpa [rOptBlock] using heb))
    | none => exact Keeps.pure trivial

/-- Every command form: the scope chain afterwards is the one the resolver computed. -/
theorem trF_evalForm (cfg : Cfg) {decl : Bool} {f : Form} {sc' : SScope} (h : rForm sc decl f = some sc') :
    TrF decl s0 sc sc' (evalForm cfg f) (fun _ => True) := by
  cases f with
  | cmd head args on ov =>
    have hkey : ((match (generalizing := false) head with
        | .lit _ => true
        | e => rExpr sc e) && rExprs sc args && rExprs sc ov) = true ∧ sc = sc' := by
      cases head <;> (simp only [rForm] at h; exact ite_some h)
    obtain ⟨hc, rfl⟩ := hkey
    simp only [Bool.and_eq_true] at hc
    refine TrF.ofKeeps (fun s1 hag => ?_)
    refine Keeps.bind (Keeps.resolveHead hag hc.1.1) (fun f hf => ?_)
    refine Keeps.bind (Keeps.recExprs hag hc.1.2) (fun a ha => ?_)
    refine Keeps.bind (Keeps.recExprsEach hag hc.2) (fun ps hps => ?_)
    refine Keeps.bind (Keeps.oneEach hps.1) (fun o ho => ?_)
    exact Keeps.bind (Keeps.recCall hf ha ho.1) (fun _ _ => Keeps.pure trivial)
  | declare names =>
    simp only [rForm] at h
    obtain ⟨hd, rfl⟩ := ite_some h
    subst hd
    exact TrF.declareAll (VsWf.map_of (fun _ => VWf.nil)) (by simp)
  | assign k lvs rhs =>
    cases k with
    | var =>
      simp only [rForm] at h
      obtain ⟨hc, rfl⟩ := ite_some h
      simp only [Bool.and_eq_true] at hc
      obtain ⟨⟨⟨hd, hrhs⟩, _⟩, _⟩ := hc
      subst hd
      refine TrF.bind (TrF.ofKeeps (fun s1 hag => Keeps.recExprs hag hrhs)) (fun vs hvs => ?_)
      refine TrF.bind (TrF.ofKeeps (fun s1 hag => Keeps.liftE (distribute_wf hvs))) (fun vals hvals => ?_)
      exact TrF.declareAll hvals.1 (by simp [hvals.2])
    | set =>
      simp only [rForm] at h
      obtain ⟨hc, rfl⟩ := ite_some h
      simp only [Bool.and_eq_true] at hc
      refine TrF.ofKeeps (fun s1 hag => ?_)
      refine Keeps.bind (Keeps.derefLVals hag hc.1.1.2) (fun refs hrefs => ?_)
      refine Keeps.bind (Keeps.recExprs hag hc.1.2) (fun vs hvs => ?_)
      refine Keeps.bind (Keeps.liftE (distribute_wf hvs)) (fun vals hvals => ?_)
      exact Keeps.assignRefs cfg _ hrefs hvals.1
    | tmp =>
      simp only [rForm] at h
      obtain ⟨hc, rfl⟩ := ite_some h
      simp only [Bool.and_eq_true] at hc
      refine TrF.ofKeeps (fun s1 hag => ?_)
      refine Keeps.bind (Keeps.derefLVals hag hc.1.1.2) (fun refs hrefs => ?_)
      refine Keeps.bind (Keeps.recExprs hag hc.1.2) (fun vs hvs => ?_)
      refine Keeps.bind (Keeps.liftE (distribute_wf hvs)) (fun vals hvals => ?_)
      exact Keeps.assignRefs cfg _ hrefs hvals.1
  | del lvs =>
    simp only [rForm] at h
    exact TrF.delLVals h
  | logic k args =>
    simp only [rForm] at h
    obtain ⟨hc, rfl⟩ := ite_some h
    refine TrF.ofKeeps (fun s1 hag => ?_)
    refine Keeps.bind (Keeps.recLogicArgs hag k hc ?_) (fun _ _ => Keeps.pure trivial)
    cases k <;> constructor
  | ifF conds bodies els =>
    simp only [rForm] at h
    obtain ⟨hc, rfl⟩ := ite_some h
    simp only [Bool.and_eq_true] at hc
    refine TrF.ofKeeps (fun s1 hag => ?_)
    exact Keeps.bind (Keeps.recIfChain hag hc.1.1.2 hc.1.2 hc.2) (fun _ _ => Keeps.pure trivial)
  | whileF cond body els =>
    simp only [rForm] at h
    obtain ⟨hc, rfl⟩ := ite_some h
    simp only [Bool.and_eq_true] at hc
    refine TrF.ofKeeps (fun s1 hag => ?_)
    exact Keeps.bind (Keeps.recWhileLoop hag false hc.1.1 hc.1.2 hc.2) (fun _ _ => Keeps.pure trivial)
  | forF v iter body els =>
    simp only [rForm] at h
    by_cases hv : sc.has v = true
    · rw [if_pos hv] at h
      obtain ⟨hc, rfl⟩ := ite_some h
      simp only [Bool.and_eq_true] at hc
      refine TrF.ofKeeps (fun s1 hag => ?_)
      refine Keeps.bind Keeps.getSt (fun t ht => ?_)
      obtain ⟨a, ha⟩ := agree_find_some (agree_of_eq hag ht.2) hv
      rw [ha]
      refine Keeps.bind (Keeps.pure (R := fun _ => True) trivial) (fun a _ => ?_)
      refine Keeps.bind (Keeps.recExpr hag hc.1.1.2) (fun vs hvs => ?_)
      refine Keeps.bind (Keeps.one hvs) (fun c hc' => ?_)
      refine Keeps.bind (Keeps.liftE (elements_wf hc')) (fun items hitems => ?_)
      exact Keeps.bind (Keeps.recForLoop hag a hitems false hc.1.2 hc.2) (fun _ _ => Keeps.pure trivial)
    · rw [if_neg hv] at h
      obtain ⟨hd, h⟩ := ite_some' h
      subst hd
      obtain ⟨hc, rfl⟩ := ite_some h
      simp only [Bool.and_eq_true] at hc
      refine TrF.getSt_bind (fun t ht hag hd => ?_)
      have hnone := agree_find_none hag (by simpa using hv)
      rw [hnone]
      refine TrF.atState hag hd ?_
      refine TrF.bind (TrF.declare v VWf.nil) (fun a _ => ?_)
      refine TrF.ofKeeps (fun s1 hag => ?_)
      refine Keeps.bind (Keeps.recExpr hag hc.1.1) (fun vs hvs => ?_)
      refine Keeps.bind (Keeps.one hvs) (fun c hc' => ?_)
      refine Keeps.bind (Keeps.liftE (elements_wf hc')) (fun items hitems => ?_)
      exact Keeps.bind (Keeps.recForLoop hag a hitems false hc.1.2 hc.2) (fun _ _ => Keeps.pure trivial)
  | tryF body cv cb eb fin =>
    simp only [rForm] at h
    split at h
    · cases h
    · split at h
      · cases h
      · rename_i hb
        simp only [Bool.not_eq_true', Bool.not_eq_false] at hb
        split at h
        · cases h
        · rename_i sc1 hcv
          obtain ⟨hc, rfl⟩ := ite_some h
          simp only [Bool.and_eq_true] at hc
          refine TrF.bind (trF_tryProtected (by simpa using hb) hcv hc.1.1 hc.1.2) (fun pending hp => ?_)
          refine TrF.ofKeeps (fun s1 hag => ?_)
          cases fin with
          | some fb =>
            exact Keeps.bind (Keeps.runBlock hag (by simpa [rOptBlock] using hc.2)) (fun _ _ => Keeps.liftE hp)
          | none => exact Keeps.liftE hp
  | fnF name lam =>
    cases lam with
    | lambda pos rest post on od body =>
      simp only [rForm] at h
      obtain ⟨hd, h⟩ := ite_some' h
      subst hd
      obtain ⟨hc, rfl⟩ := ite_some h
      refine TrF.bind (TrF.declare _ (VWf.builtin "nop")) (fun a _ => ?_)
      refine TrF.ofKeeps (fun s1 hag => ?_)
      have hlam : rExpr (sc.declare (name ++ "~")) (.lambda pos rest post on od body) = true := by
        simp only [rExpr]; exact hc
      refine Keeps.bind (Keeps.recExpr hag hlam) (fun vs hvs => ?_)
      refine Keeps.bind (Keeps.one hvs) (fun v hv => ?_)
      cases hv with
      | closure h1 h2 h3 => exact Keeps.writeAddr a (VWf.closure h1 h2 h3)
      | _ => exact Keeps.unsupp
    | _ => simp [rForm] at h

end C15
