/-
C15 fuel sufficiency: computations that make no request and leave the scope
chain alone (`Inert`), and the triples (`TT`) of the total-correctness calculus.
-/
import ElvProofs.C15.Term
set_option linter.unusedSimpArgs false
set_option linter.unusedVariables false
namespace C15

variable {α β : Type}

/-- `t` makes no request and ends with the scope chain `sc`. -/
def FM.inert (sc : Scope) : FM α → Prop
  | .ret _ s' => s'.scope = sc
  | .exc _ s' => s'.scope = sc
  | .unsupported _ => True
  | .call _ _ _ => False

/-- `m` makes no request to the evaluator and keeps the scope chain. -/
def Inert (m : M α) : Prop := ∀ s, (m s).inert s.scope

namespace Inert

theorem pure (a : α) : Inert (Pure.pure a : M α) := fun _ => rfl
theorem throw (e : Exc) : Inert (throwE e : M α) := fun _ => rfl
theorem unsupp (w : String) : Inert (unsupported w : M α) := fun _ => trivial
theorem getSt : Inert getSt := fun _ => rfl
theorem modify {f : St → St} (h : ∀ s, (f s).scope = s.scope) : Inert (modifySt f) := fun s => h s
theorem liftE (r : Except Exc α) : Inert (liftE r) := by
  intro s; cases r <;> rfl

theorem bind {m : M α} {f : α → M β} (h1 : Inert m) (h2 : ∀ a, Inert (f a)) : Inert (m >>= f) := by
  intro s
  have := h1 s
  show ((m s).bind fun a => f a).inert s.scope
  cases hm : m s with
  | ret a s' =>
    rw [hm] at this
    have h := h2 a s'
    rw [this] at h
    exact h
  | exc e s' => rw [hm] at this; exact this
  | unsupported w => trivial
  | call c s' k => rw [hm] at this; exact this.elim

theorem attempt {m : M α} (h : Inert m) : Inert (attempt m) := by
  intro s
  have := h s
  show ((m s).attempt).inert s.scope
  cases hm : m s with
  | ret a s' => rw [hm] at this; exact this
  | exc e s' => rw [hm] at this; exact this
  | unsupported w => trivial
  | call c s' k => rw [hm] at this; exact this.elim

theorem lookupVar (x : String) : Inert (lookupVar x) := by
  intro s
  show (match s.scope.find x with
    | some a => FM.ret a s
    | none => FM.exc Exc.varNotFound s).inert s.scope
  cases s.scope.find x <;> rfl

theorem readAddr (a : Nat) : Inert (readAddr a) := by
  intro s
  show (match s.heap[a]? with
    | some v => FM.ret v s
    | none => FM.unsupported "dangling variable location").inert s.scope
  cases s.heap[a]? <;> first | rfl | trivial

theorem writeAddr (a : Nat) (v : Value) : Inert (writeAddr a v) := modify (fun _ => rfl)
theorem emit (vs : List Value) : Inert (emit vs) := modify (fun _ => rfl)
theorem takeInput : Inert takeInput := fun _ => rfl
theorem freshId : Inert freshId := fun _ => rfl

theorem getVar (x : String) : Inert (getVar x) := bind (lookupVar x) (fun a => readAddr a)

theorem one (vs : List Value) : Inert (one vs) := by
  unfold C15.one
  split
  · exact pure _
  · exact throw _

theorem oneEach (ps : List Value) : Inert (oneEach ps) := by
  induction ps with
  | nil => exact pure _
  | cons p ps ih =>
    unfold C15.oneEach
    exact bind (one _) (fun v => bind ih (fun vs => pure _))

theorem noOpts (on : List String) : Inert (noOpts on) := by
  unfold C15.noOpts
  split
  · exact pure _
  · exact throw _

theorem numArgs (vs : List Value) : Inert (numArgs vs) := by
  induction vs with
  | nil => exact pure _
  | cons v vs ih =>
    unfold C15.numArgs
    split
    · exact bind ih (fun _ => pure _)
    · exact throw _
    · exact unsupp _

theorem intArg (v : Value) : Inert (intArg v) := by
  unfold C15.intArg
  repeat' split
  all_goals first | exact pure _ | exact throw _ | exact unsupp _

theorem inputsOf (args : List Value) : Inert (inputsOf args) := by
  unfold C15.inputsOf
  split
  · exact takeInput
  · exact liftE _
  · exact throw _

theorem orderVals (rev : Bool) (vs : List Value) : Inert (orderVals rev vs) := by
  unfold C15.orderVals
  dsimp only
  repeat' split
  all_goals first | exact pure _ | exact throw _ | exact unsupp _

theorem liftP (r : PRes) : Inert (liftP r) := by
  cases r with
  | vals vs => exact pure _
  | err e => exact throw _
  | unsup w => exact unsupp _

/-- The pure builtins make no request. -/
theorem callPure (name : String) (args : List Value) (on : List String) : Inert (callPure name args on) := by
  unfold C15.callPure
  refine bind (noOpts on) (fun _ => ?_)
  split
  · exact bind (inputsOf _) (fun vs => emit _)
  · exact bind (inputsOf _) (fun vs => bind (liftP _) (fun o => emit o))
  · split
    · exact bind (intArg _) (fun n => emit _)
    · exact throw _
  · exact bind (liftP _) (fun o => emit o)

theorem runDefers (ds : List (Nat × Value)) : Inert (runDefers ds) := by
  induction ds with
  | nil => exact pure _
  | cons d ds ih =>
    obtain ⟨a, v⟩ := d
    unfold C15.runDefers
    exact bind (writeAddr a v) (fun _ => ih)

theorem storeCaught (cv : Option Nat) (e : Exc) : Inert (storeCaught cv e) := by
  cases cv with
  | none => exact pure _
  | some a => exact writeAddr a _

theorem pipelineResult (excs : List Value) : Inert (pipelineResult excs) := by
  unfold C15.pipelineResult
  split
  · exact pure _
  · exact throw _
  · exact throw _

theorem assignRef (cfg : Cfg) (tmp : Bool) (r : Ref) (v : Value) : Inert (assignRef cfg tmp r v) := by
  unfold C15.assignRef
  refine bind (readAddr _) (fun cur => ?_)
  dsimp only
  refine bind (liftE _) (fun new => bind (writeAddr _ _) (fun _ => ?_))
  split
  · exact modify (fun _ => rfl)
  · exact pure _

theorem assignRefs (cfg : Cfg) (tmp : Bool) (rs : List Ref) (vs : List Value) :
    Inert (assignRefs cfg tmp rs vs) := by
  induction rs generalizing vs with
  | nil => unfold C15.assignRefs; exact pure _
  | cons r rs ih =>
    cases vs with
    | nil => unfold C15.assignRefs; exact pure _
    | cons v vs =>
      unfold C15.assignRefs
      exact bind (assignRef cfg tmp r v) (fun _ => ih vs)

end Inert

macro "inert1" : tactic => `(tactic| first
  | intro _
  | exact Inert.pure _
  | exact Inert.unsupp _
  | exact Inert.throw _
  | exact Inert.noOpts _
  | exact Inert.numArgs _
  | exact Inert.intArg _
  | exact Inert.takeInput
  | exact Inert.inputsOf _
  | exact Inert.orderVals _ _
  | exact Inert.callPure _ _ _
  | exact Inert.emit _
  | exact Inert.liftE _
  | apply Inert.bind
  | split
  | dsimp only)

attribute [local irreducible] noOpts numArgs intArg inputsOf orderVals emit takeInput liftE throwE
  unsupported C15.rec lengthOf rangeVals Inert callPure in
/-- Builtin commands other than `each` and `keep-if` make no request. -/
theorem Inert.callBuiltinBody {name : String} (h1 : name ≠ "each") (h2 : name ≠ "keep-if") (args : List Value)
    (on : List String) (ov : List Value) : Inert (callBuiltinBody name args on ov) := by
  unfold C15.callBuiltinBody
  split
  all_goals first | exact absurd rfl h1 | exact absurd rfl h2 | skip
  all_goals (repeat' inert1)

theorem Inert.precheck (name : String) (args : List Value) (on : List String) : Inert (precheck name args on) := by
  unfold C15.precheck
  split
  · exact Inert.throw _
  · split
    · exact Inert.throw _
    · exact Inert.pure _

theorem Inert.callBuiltin {name : String} (h1 : name ≠ "each") (h2 : name ≠ "keep-if") (args : List Value)
    (on : List String) (ov : List Value) : Inert (callBuiltin name args on ov) := by
  unfold C15.callBuiltin
  exact Inert.bind (Inert.precheck name args on) (fun _ => Inert.callBuiltinBody h1 h2 args on ov)

end C15
