/-
C15 static-scope soundness: Hoare triples over the interpreter monad with the
state invariant (`StWf`) and the exception invariant (`EWf`) built in, and the
triples of the primitive operations.
-/
import ElvProofs.C15.Spec
set_option linter.unusedSimpArgs false
set_option linter.unusedVariables false
namespace C15

/-- From a well-formed state satisfying `P`, `m` ends in a well-formed state
with `Qs`, or throws a well-formed exception in a well-formed state with `Es`
(requests to the evaluator meet their preconditions and are assumed to keep
their postconditions). -/
def Tr {α} (P : St → Prop) (m : M α) (Qs : α → St → Prop) (Es : St → Prop) : Prop :=
  ∀ s, StWf s → P s → wp m s (fun a s' => StWf s' ∧ Qs a s') (fun e s' => StWf s' ∧ EWf e ∧ Es s')

/-- `m` keeps the scope chain of `s0` and returns a result satisfying `R`. -/
def Keeps {α} (s0 : St) (R : α → Prop) (m : M α) : Prop :=
  Tr (fun s => s.scope = s0.scope) m (fun a s' => s'.scope = s0.scope ∧ R a) (fun s' => s'.scope = s0.scope)

variable {α β : Type}

theorem Tr.bind {P : St → Prop} {m : M α} {f : α → M β} {Q1 : α → St → Prop} {Q2 : β → St → Prop}
    {Es : St → Prop} (h1 : Tr P m Q1 Es) (h2 : ∀ a, Tr (Q1 a) (f a) Q2 Es) : Tr P (m >>= f) Q2 Es := by
  intro s hs hp
  refine wp_seq _ (h1 s hs hp) ?_
  intro a s' ⟨hs', hq⟩
  exact h2 a s' hs' hq

theorem Tr.conseq {P P' : St → Prop} {m : M α} {Q Q' : α → St → Prop} {Es Es' : St → Prop}
    (h : Tr P m Q Es) (hp : ∀ s, StWf s → P' s → P s) (hq : ∀ a s, StWf s → Q a s → Q' a s)
    (he : ∀ s, Es s → Es' s) : Tr P' m Q' Es' := by
  intro s hs hp'
  refine wp_mono (h s hs (hp s hs hp')) ?_ ?_
  · intro a s' ⟨h1, h2⟩; exact ⟨h1, hq a s' h1 h2⟩
  · intro e s' ⟨h1, h2, h3⟩; exact ⟨h1, h2, he s' h3⟩

theorem Tr.pure {P : St → Prop} {a : α} {Q : α → St → Prop} {Es : St → Prop}
    (h : ∀ s, StWf s → P s → Q a s) : Tr P (pure a : M α) Q Es := by
  intro s hs hp; exact ⟨hs, h s hs hp⟩

theorem Tr.throw {P : St → Prop} {e : Exc} {Q : α → St → Prop} {Es : St → Prop} (he : EWf e)
    (h : ∀ s, StWf s → P s → Es s) : Tr P (throwE e : M α) Q Es := by
  intro s hs hp; exact ⟨hs, he, h s hs hp⟩

/-- A precondition that does not mention the state can be assumed. -/
theorem Tr.assume {P : St → Prop} {m : M α} {Q : α → St → Prop} {Es : St → Prop} {p : Prop}
    (h : p → Tr P m Q Es) : Tr (fun s => p ∧ P s) m Q Es := by
  intro s hs hp; exact h hp.1 s hs hp.2

/-! ### Scope-keeping computations -/

namespace Keeps
variable {s0 : St}

theorem bind {m : M α} {f : α → M β} {R : α → Prop} {R' : β → Prop}
    (h1 : Keeps s0 R m) (h2 : ∀ a, R a → Keeps s0 R' (f a)) : Keeps s0 R' (m >>= f) := by
  refine Tr.bind h1 ?_
  intro a s hs ⟨hsc, hr⟩
  exact h2 a hr s hs hsc

theorem pure {a : α} {R : α → Prop} (h : R a) : Keeps s0 R (Pure.pure a : M α) :=
  Tr.pure (fun s _ hp => ⟨hp, h⟩)

theorem throw {e : Exc} {R : α → Prop} (he : EWf e) : Keeps s0 R (throwE e : M α) :=
  Tr.throw he (fun s _ hp => hp)

theorem throwC {k : String} {R : α → Prop} (h : k ≠ vnf) : Keeps s0 R (throwE ⟨k, []⟩ : M α) :=
  throw (EWf.const h)

theorem unsupp {w : String} {R : α → Prop} : Keeps s0 R (unsupported w : M α) := by
  intro s hs hp; trivial

theorem mono {m : M α} {R R' : α → Prop} (h : Keeps s0 R m) (hr : ∀ a, R a → R' a) : Keeps s0 R' m :=
  Tr.conseq h (fun _ _ h => h) (fun a s _ ⟨h1, h2⟩ => ⟨h1, hr a h2⟩) (fun _ h => h)

theorem liftE {r : Except Exc α} {R : α → Prop} (h : EOk R r) : Keeps s0 R (liftE r) := by
  intro s hs hp
  cases r with
  | ok a => exact ⟨hs, hp, h⟩
  | error e => exact ⟨hs, h, hp⟩

theorem getSt : Keeps s0 (fun t => StWf t ∧ t.scope = s0.scope) getSt := by
  intro s hs hp; exact ⟨hs, hp, hs, hp⟩

theorem modify {f : St → St} (h : ∀ s, StWf s → StWf (f s) ∧ (f s).scope = s.scope) :
    Keeps s0 (fun _ => True) (modifySt f) := by
  intro s hs hp
  have := h s hs
  exact ⟨this.1, this.2.trans hp, trivial⟩

theorem attempt {m : M α} {R : α → Prop} (h : Keeps s0 R m) :
    Keeps s0 (EOk R) (attempt m) := by
  intro s hs hp
  rw [wp_attempt]
  refine wp_mono (h s hs hp) ?_ ?_
  · intro a s' ⟨h1, h2, h3⟩; exact ⟨h1, h2, h3⟩
  · intro e s' ⟨h1, h2, h3⟩; exact ⟨h1, h3, h2⟩

/-- A request that leaves the scope chain alone. -/
theorem rec (c : Call) (sc : SScope) (d : Bool)
    (hpre : ∀ s, StWf s → s.scope = s0.scope → PreC c sc d s)
    (hpost : ∀ s r s', PostScope c sc d s r s' → s'.scope = s.scope) : Keeps s0 VsWf (rec c) := by
  intro s hs hp
  rw [wp_rec]
  refine ⟨(sc, d), ⟨hs, hpre s hs hp⟩, ?_⟩
  intro r s' ⟨h1, h2, h3⟩
  have hsc := (hpost s r s' h3).trans hp
  cases r with
  | ok vs => exact ⟨h1, hsc, h2⟩
  | error e => exact ⟨h1, h2, hsc⟩

theorem ite {c : Prop} [Decidable c] {a b : M α} {R : α → Prop} (ha : c → Keeps s0 R a)
    (hb : ¬c → Keeps s0 R b) : Keeps s0 R (if c then a else b) := by
  split
  · exact ha ‹_›
  · exact hb ‹_›

end Keeps

/-! ### State updates that keep the state well-formed -/

theorem StWf.setHeap {s : St} (h : StWf s) (a : Nat) {v : Value} (hv : VWf v) :
    StWf { s with heap := s.heap.set a v } := ⟨VsWf.set h.heap a hv, h.out, h.inp, h.defers⟩

theorem StWf.pushHeap {s : St} (h : StWf s) {v : Value} (hv : VWf v) :
    StWf { s with heap := s.heap ++ [v] } := ⟨h.heap.append (VsWf.single hv), h.out, h.inp, h.defers⟩

theorem StWf.setOut {s : St} (h : StWf s) {o : List Value} (ho : VsWf o) : StWf { s with out := o } :=
  ⟨h.heap, ho, h.inp, h.defers⟩

theorem StWf.setInp {s : St} (h : StWf s) {o : List Value} (ho : VsWf o) : StWf { s with inp := o } :=
  ⟨h.heap, h.out, ho, h.defers⟩

theorem StWf.setScope {s : St} (h : StWf s) (sc : Scope) : StWf { s with scope := sc } :=
  ⟨h.heap, h.out, h.inp, h.defers⟩

/-! ### Primitive operations -/

namespace Keeps
variable {s0 : St}

theorem readAddr (a : Nat) : Keeps s0 VWf (readAddr a) := by
  intro s hs hp
  show FM.wp (match s.heap[a]? with
    | some v => FM.ret v s
    | none => FM.unsupported "dangling variable location") _ _
  cases h : s.heap[a]? with
  | none => trivial
  | some v => exact ⟨hs, hp, hs.heap.getElem? h⟩

theorem writeAddr (a : Nat) {v : Value} (hv : VWf v) : Keeps s0 (fun _ => True) (writeAddr a v) :=
  modify (fun s hs => ⟨hs.setHeap a hv, rfl⟩)

theorem emit {vs : List Value} (h : VsWf vs) : Keeps s0 (fun _ => True) (emit vs) :=
  modify (fun s hs => ⟨hs.setOut (hs.out.append h), rfl⟩)

theorem takeInput : Keeps s0 VsWf takeInput := by
  intro s hs hp; exact ⟨hs.setInp VsWf.nil, hp, hs.inp⟩

theorem freshId : Keeps s0 (fun _ => True) freshId := by
  intro s hs hp; exact ⟨⟨hs.heap, hs.out, hs.inp, hs.defers⟩, hp, trivial⟩

/-- A variable the resolver found is found. -/
theorem lookupVar {sc : SScope} (hag : Agree s0.scope sc) {x : String} (hx : sc.has x = true) :
    Keeps s0 (fun _ => True) (lookupVar x) := by
  intro s hs hp
  obtain ⟨a, ha⟩ := agree_find_some hag hx
  show FM.wp (match s.scope.find x with
    | some a => FM.ret a s
    | none => FM.exc Exc.varNotFound s) _ _
  rw [hp, ha]
  exact ⟨hs, hp, trivial⟩

theorem getVar {sc : SScope} (hag : Agree s0.scope sc) {x : String} (hx : sc.has x = true) :
    Keeps s0 VWf (getVar x) := by
  unfold C15.getVar
  exact bind (lookupVar hag hx) (fun a _ => readAddr a)

theorem one {vs : List Value} (h : VsWf vs) : Keeps s0 VWf (one vs) := by
  unfold C15.one
  split
  · exact pure h.head
  · exact throwC (by decide)

theorem oneEach {ps : List Value} (h : VsWf ps) :
    Keeps s0 (fun vs => VsWf vs ∧ vs.length = ps.length) (oneEach ps) := by
  induction ps with
  | nil => exact pure ⟨VsWf.nil, rfl⟩
  | cons p ps ih =>
    unfold C15.oneEach
    refine bind (one (unwrapList_wf h.head)) (fun v hv => bind (ih h.tail) (fun vs hvs => pure ?_))
    exact ⟨VsWf.cons hv hvs.1, by simp [hvs.2]⟩

end Keeps

end C15
