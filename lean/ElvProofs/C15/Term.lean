/-
C15 fuel sufficiency for a syntactic class of programs: the class (`tChunk`:
no `while`, no function values — no lambda, no `fn`, command heads are literal
names other than `each`/`keep-if` —, `for` over a literal list of literals, no
declared name ending in `~`), a size measure linear in the AST (`cSz`), and a
total-correctness calculus over the free monad: if every request a `step`
makes is smaller than the request it serves, fuel `size + 1` is enough.
-/
import ElvProofs.C15.Sem
set_option linter.unusedSimpArgs false
set_option linter.unusedVariables false
namespace C15

/-! ### Names of function variables -/

def isTilde (x : String) : Bool := x.toList.getLast? == some '~'

theorem isTilde_append (name : String) : isTilde (name ++ "~") = true := by
  unfold isTilde
  rw [String.toList_append]
  simp

/-- No variable of the scope chain is a function variable (`name~`). -/
def TildeFree (sc : Scope) : Prop := ∀ f, f ∈ sc → ∀ p, p ∈ f → isTilde p.1 = false

theorem TildeFree.find_none {sc : Scope} (h : TildeFree sc) (name : String) : sc.find (name ++ "~") = none := by
  induction sc with
  | nil => rfl
  | cons f rest ih =>
    have hf : Frame.find f (name ++ "~") = none := by
      unfold Frame.find
      have : f.find? (fun p => p.1 == name ++ "~") = none := by
        rw [List.find?_eq_none]
        intro p hp hpe
        have h1 := h f List.mem_cons_self p hp
        have h2 : p.1 = name ++ "~" := by simpa using hpe
        rw [h2, isTilde_append] at h1
        cases h1
      rw [this]; rfl
    show (match Frame.find f (name ++ "~") with
      | some a => some a
      | none => Scope.find rest (name ++ "~")) = none
    rw [hf]
    exact ih (fun g hg => h g (List.mem_cons_of_mem _ hg))

theorem TildeFree.push {sc : Scope} (h : TildeFree sc) : TildeFree ([] :: sc) := by
  intro f hf
  cases hf with
  | head => intro p hp; cases hp
  | tail _ h' => exact h f h'

theorem TildeFree.declare {f : Frame} {rest : Scope} (h : TildeFree (f :: rest)) {x : String}
    (hx : isTilde x = false) (a : Nat) : TildeFree (((x, a) :: f.filter (fun p => p.1 != x)) :: rest) := by
  intro g hg
  cases hg with
  | head =>
    intro p hp
    cases hp with
    | head => exact hx
    | tail _ h' => exact h f List.mem_cons_self p (List.mem_filter.mp h').1
  | tail _ h' => exact h g (List.mem_cons_of_mem _ h')

theorem TildeFree.undeclare {f : Frame} {rest : Scope} (h : TildeFree (f :: rest)) (x : String) :
    TildeFree (f.filter (fun p => p.1 != x) :: rest) := by
  intro g hg
  cases hg with
  | head => intro p hp; exact h f List.mem_cons_self p (List.mem_filter.mp hp).1
  | tail _ h' => exact h g (List.mem_cons_of_mem _ h')

/-! ### The class -/

def litOf : Expr → Option String
  | .lit s => some s
  | _ => none

def allLits : List Expr → Option (List String)
  | [] => some []
  | e :: es => match litOf e, allLits es with
    | some s, some ss => some (s :: ss)
    | _, _ => none

/-- a list literal of string literals `[a b c]` -/
def litList : Expr → Option (List String)
  | .list es => allLits es
  | _ => none

def litLen (e : Expr) : Nat := match litList e with
  | some ss => ss.length
  | none => 0

def tHead : Expr → Bool
  | .lit name => name != "each" && name != "keep-if"
  | _ => false

def tName (x : Option String) : Bool := match x with
  | some v => !isTilde v
  | none => true

mutual
def tExpr : Expr → Bool
  | .lit _ => true
  | .var _ => true
  | .explode _ => true
  | .list es => tExprs es
  | .map ks vs => tExprs ks && tExprs vs
  | .lambda _ _ _ _ _ _ => false
  | .capture c => tChunk c
  | .excCapture c => tChunk c
  | .braced es => tExprs es
  | .index e idx => tExpr e && tExprs idx
  | .compound es => tExprs es
def tExprs : List Expr → Bool
  | [] => true
  | e :: es => tExpr e && tExprs es
def tLVals : List LVal → Bool
  | [] => true
  | .mk x _ idx :: lvs => !isTilde x && tExprs idx && tLVals lvs
def tChunk : Chunk → Bool
  | .mk ps => tPipes ps
def tChunks : List Chunk → Bool
  | [] => true
  | c :: cs => tChunk c && tChunks cs
def tOpt : Option Chunk → Bool
  | none => true
  | some c => tChunk c
def tPipes : List Pipeline → Bool
  | [] => true
  | .mk fs :: ps => tForms fs && tPipes ps
def tForms : List Form → Bool
  | [] => true
  | f :: fs => tForm f && tForms fs
/-- Command forms of the class: no `while`, no `fn`; heads are literal names. -/
def tForm : Form → Bool
  | .cmd head args _ ov => tHead head && tExprs args && tExprs ov
  | .declare names => names.all (fun x => !isTilde x)
  | .assign _ lvs rhs => tLVals lvs && tExprs rhs
  | .del lvs => tLVals lvs
  | .logic _ args => tExprs args
  | .ifF conds bodies els => tExprs conds && tChunks bodies && tOpt els
  | .whileF _ _ _ => false
  | .forF v iter body els => !isTilde v && (litList iter).isSome && tChunk body && tOpt els
  | .tryF body cv cb eb fin => tName cv && tChunk body && tOpt cb && tOpt eb && tOpt fin
  | .fnF _ _ => false
end

/-! ### Size (linear in the AST) -/

mutual
def eSz : Expr → Nat
  | .lit _ => 0
  | .var _ => 0
  | .explode _ => 0
  | .list es => esSz es + 1
  | .map ks vs => esSz ks + esSz vs + 2
  | .lambda _ _ _ _ _ _ => 0
  | .capture c => cSz c + 1
  | .excCapture c => cSz c + 1
  | .braced es => esSz es + 1
  | .index e idx => eSz e + esSz idx + 1
  | .compound es => esSz es + 2
def esSz : List Expr → Nat
  | [] => 0
  | e :: es => eSz e + esSz es + 1
def lvsSz : List LVal → Nat
  | [] => 0
  | .mk _ _ idx :: lvs => esSz idx + lvsSz lvs + 1
def cSz : Chunk → Nat
  | .mk ps => psSz ps
def csSz : List Chunk → Nat
  | [] => 0
  | c :: cs => cSz c + csSz cs + 2
def oSz : Option Chunk → Nat
  | none => 0
  | some c => cSz c + 2
def psSz : List Pipeline → Nat
  | [] => 0
  | .mk fs :: ps => fsSz fs + 2 + psSz ps
def fsSz : List Form → Nat
  | [] => 0
  | f :: fs => fSz f + fsSz fs + 1
def fSz : Form → Nat
  | .cmd _ args _ ov => esSz args + esSz ov + 1
  | .declare _ => 0
  | .assign _ lvs rhs => lvsSz lvs + esSz rhs + 1
  | .del lvs => lvsSz lvs + 1
  | .logic _ args => esSz args + 2
  | .ifF conds bodies els => esSz conds + csSz bodies + oSz els + 2
  | .whileF _ _ _ => 0
  | .forF _ iter body els => eSz iter + litLen iter + cSz body + oSz els + 4
  | .tryF body _ cb eb fin => cSz body + oSz cb + oSz eb + oSz fin + 3
  | .fnF _ _ => 0
end

/-- Size of a request: the fuel it needs is at most `csz c + 1`. -/
def csz : Call → Nat
  | .expr e => eSz e
  | .exprs es => esSz es
  | .exprsEach es => esSz es
  | .form f => fSz f
  | .pipeline (.mk fs) => fsSz fs + 1
  | .pipes ps => psSz ps
  | .body c _ _ _ => cSz c + 1
  | .call _ _ _ _ => 0
  | .logicArgs _ args _ => esSz args + 1
  | .ifChain conds bodies els => esSz conds + csSz bodies + oSz els + 1
  | .whileLoop _ _ _ _ => 0
  | .forLoop _ items body els _ => items.length + cSz body + oSz els + 2
  | .eachLoop _ _ => 0
  | .keepIfLoop _ _ => 0
  | .stages fs _ _ _ => fsSz fs
  | .mapPairs ks vs => esSz ks + esSz vs + 1
  | .compoundFrom _ es => esSz es + 1

/-- Requests of the class. -/
def InT : Call → Prop
  | .expr e => tExpr e = true
  | .exprs es => tExprs es = true
  | .exprsEach es => tExprs es = true
  | .form f => tForm f = true
  | .pipeline (.mk fs) => tForms fs = true
  | .pipes ps => tPipes ps = true
  | .body c frame env _ => tChunk c = true ∧ TildeFree (frame :: env)
  | .call f _ _ _ => ∃ name, f = .builtin name ∧ name ≠ "each" ∧ name ≠ "keep-if"
  | .logicArgs _ args _ => tExprs args = true
  | .ifChain conds bodies els => tExprs conds = true ∧ tChunks bodies = true ∧ tOpt els = true
  | .whileLoop _ _ _ _ => False
  | .forLoop _ _ body els _ => tChunk body = true ∧ tOpt els = true
  | .eachLoop _ _ => False
  | .keepIfLoop _ _ => False
  | .stages fs _ _ _ => tForms fs = true
  | .mapPairs ks vs => tExprs ks = true ∧ tExprs vs = true
  | .compoundFrom _ es => tExprs es = true

def TPre (c : Call) (s : St) : Prop := TildeFree s.scope ∧ InT c

/-- What the class needs to know about results: a literal yields one value, a
literal list of literals one list of as many elements. -/
def TVals : Call → List Value → Prop
  | .expr e, vs => (∀ s, e = .lit s → vs.length = 1) ∧
      (∀ ss, litList e = some ss → ∃ l, vs = [.list l] ∧ l.length = ss.length)
  | .exprs es, vs => ∀ ss, allLits es = some ss → vs.length = ss.length
  | _, _ => True

def TPost (c : Call) (r : Except Exc (List Value)) (s' : St) : Prop :=
  TildeFree s'.scope ∧ ∀ vs, r = .ok vs → TVals c vs

/-! ### Total correctness over the free monad -/

/-- Every request of `t` is of the class and smaller than `b`; assuming the
postconditions of the requests, `t` ends in `Q` / `QE`. -/
def FM.twp {α} (b : Nat) : FM α → (α → St → Prop) → (Exc → St → Prop) → Prop
  | .ret a s, Q, _ => Q a s
  | .exc e s, _, QE => QE e s
  | .unsupported _, _, _ => True
  | .call c s k, Q, QE => (TPre c s ∧ csz c < b) ∧ ∀ r s', TPost c r s' → (k r s').twp b Q QE

theorem FM.twp_mono {α} {b : Nat} {t : FM α} {Q Q' : α → St → Prop} {QE QE' : Exc → St → Prop}
    (h : t.twp b Q QE) (hq : ∀ a s, Q a s → Q' a s) (he : ∀ e s, QE e s → QE' e s) : t.twp b Q' QE' := by
  induction t with
  | ret a s => exact hq _ _ h
  | exc e s => exact he _ _ h
  | unsupported w => trivial
  | call c s k ih => exact ⟨h.1, fun r s' hp => ih r s' (h.2 r s' hp)⟩

theorem FM.twp_bind {α β} {b : Nat} (t : FM α) (f : α → St → FM β) (Q : β → St → Prop)
    (QE : Exc → St → Prop) : (t.bind f).twp b Q QE ↔ t.twp b (fun a s => (f a s).twp b Q QE) QE := by
  induction t with
  | ret a s => exact Iff.rfl
  | exc e s => exact Iff.rfl
  | unsupported w => exact Iff.rfl
  | call c s k ih =>
    simp only [FM.bind, FM.twp]
    constructor
    · rintro ⟨hp, hk⟩; exact ⟨hp, fun r s' hpost => (ih r s').mp (hk r s' hpost)⟩
    · rintro ⟨hp, hk⟩; exact ⟨hp, fun r s' hpost => (ih r s').mpr (hk r s' hpost)⟩

theorem FM.twp_attempt {α} {b : Nat} (t : FM α) (Q : Except Exc α → St → Prop) (QE : Exc → St → Prop) :
    t.attempt.twp b Q QE ↔ t.twp b (fun a s => Q (.ok a) s) (fun e s => Q (.error e) s) := by
  induction t with
  | ret a s => exact Iff.rfl
  | exc e s => exact Iff.rfl
  | unsupported w => exact Iff.rfl
  | call c s k ih =>
    simp only [FM.attempt, FM.twp]
    constructor
    · rintro ⟨hp, hk⟩; exact ⟨hp, fun r s' hpost => (ih r s').mp (hk r s' hpost)⟩
    · rintro ⟨hp, hk⟩; exact ⟨hp, fun r s' hpost => (ih r s').mpr (hk r s' hpost)⟩

/-- finished, and with the postcondition -/
def TGood (c : Call) : Res (List Value) → Prop
  | .ok vs s' => TPost c (.ok vs) s'
  | .exc e s' => TPost c (.error e) s'
  | .oof => False
  | .unsupported _ => True

theorem interp_twp {α} {b : Nat} {ev : Call → St → Res (List Value)} {Q : α → St → Prop}
    {QE : Exc → St → Prop} (hev : ∀ c s, TPre c s → csz c < b → TGood c (ev c s)) (t : FM α)
    (h : t.twp b Q QE) :
    match interp ev t with
    | .ok a s' => Q a s'
    | .exc e s' => QE e s'
    | .oof => False
    | .unsupported _ => True := by
  induction t with
  | ret a s => exact h
  | exc e s => exact h
  | unsupported w => trivial
  | call c s k ih =>
    obtain ⟨⟨hp, hb⟩, hk⟩ := h
    have hc := hev c s hp hb
    simp only [interp]
    cases hr : ev c s with
    | ok vs s' => rw [hr] at hc; exact ih _ _ (hk _ _ hc)
    | exc e s' => rw [hr] at hc; exact ih _ _ (hk _ _ hc)
    | oof => rw [hr] at hc; exact hc
    | unsupported w => trivial

/-- If every step only makes smaller requests of the class, fuel `csz c + 1` suffices. -/
theorem run_total (cfg : Cfg)
    (hstep : ∀ c s, TPre c s →
      (step cfg c s).twp (csz c) (fun vs s' => TPost c (.ok vs) s') (fun e s' => TPost c (.error e) s')) :
    ∀ n c s, TPre c s → csz c < n → TGood c (run cfg n c s) := by
  intro n
  induction n with
  | zero => intro c s _ h; cases h
  | succ n ih =>
    intro c s hp hn
    have := interp_twp (ev := run cfg n) (b := csz c)
      (fun c' s' hp' hb' => ih c' s' hp' (by omega)) (step cfg c s) (hstep c s hp)
    show TGood c (interp (run cfg n) (step cfg c s))
    cases hr : interp (run cfg n) (step cfg c s) with
    | ok vs s' => rw [hr] at this; exact this
    | exc e s' => rw [hr] at this; exact this
    | oof => rw [hr] at this; exact this
    | unsupported w => trivial

end C15
