/-
C15 helper lemmas: the definedness order on outcomes, monotonicity of
`interp`/`run` in the fuel, and the denotation of the free-monad combinators
(`interp` is a monad morphism).
-/
import ElvModel.C15.Model
namespace C15

/-- `r'` is at least as defined as `r`: `r` ran out of fuel, or they are equal. -/
def Res.le {α} (r r' : Res α) : Prop := r = .oof ∨ r = r'

theorem Res.le_refl {α} (r : Res α) : r.le r := Or.inr rfl

theorem Res.le_trans {α} {a b c : Res α} (h1 : a.le b) (h2 : b.le c) : a.le c := by
  cases h1 with
  | inl h => exact Or.inl h
  | inr h => subst h; exact h2

theorem Res.eq_of_le {α} {a b : Res α} (h : a.le b) (hne : a ≠ .oof) : b = a := by
  cases h with
  | inl h => exact absurd h hne
  | inr h => exact h.symm

/-- `interp` is monotone in the evaluator it consults. -/
theorem interp_mono {α} {ev ev' : Call → St → Res (List Value)}
    (h : ∀ c s, (ev c s).le (ev' c s)) (t : FM α) : (interp ev t).le (interp ev' t) := by
  induction t with
  | ret a s => exact Res.le_refl _
  | exc e s => exact Res.le_refl _
  | unsupported w => exact Res.le_refl _
  | call c s k ih =>
    simp only [interp]
    cases h c s with
    | inl h0 => rw [h0]; exact Or.inl rfl
    | inr h1 =>
      rw [← h1]
      cases ev c s with
      | ok vs s' => exact ih _ _
      | exc e s' => exact ih _ _
      | oof => exact Or.inl rfl
      | unsupported w => exact Res.le_refl _

theorem run_le_succ (cfg : Cfg) (n : Nat) : ∀ c s, (run cfg n c s).le (run cfg (n + 1) c s) := by
  induction n with
  | zero => intro c s; exact Or.inl rfl
  | succ n ih =>
    intro c s
    show (interp (run cfg n) (step cfg c s)).le (interp (run cfg (n + 1)) (step cfg c s))
    exact interp_mono ih _

theorem run_mono (cfg : Cfg) {n m : Nat} (h : n ≤ m) (c : Call) (s : St) :
    (run cfg n c s).le (run cfg m c s) := by
  induction h with
  | refl => exact Res.le_refl _
  | step _ ih => exact Res.le_trans ih (run_le_succ cfg _ c s)

/-! ### Denotation of the combinators -/

/-- Sequencing of outcomes. -/
def Res.bind {α β} (r : Res α) (f : α → St → Res β) : Res β :=
  match r with
  | .ok a s => f a s
  | .exc e s => .exc e s
  | .oof => .oof
  | .unsupported w => .unsupported w

/-- An exception becomes a value. -/
def Res.attempt {α} : Res α → Res (Except Exc α)
  | .ok a s => .ok (.ok a) s
  | .exc e s => .ok (.error e) s
  | .oof => .oof
  | .unsupported w => .unsupported w

variable {ev : Call → St → Res (List Value)}

theorem interp_bind {α β} (t : FM α) (f : α → St → FM β) :
    interp ev (t.bind f) = (interp ev t).bind (fun a s => interp ev (f a s)) := by
  induction t with
  | ret a s => rfl
  | exc e s => rfl
  | unsupported w => rfl
  | call c s k ih =>
    simp only [FM.bind, interp]
    cases ev c s with
    | ok vs s' => exact ih _ _
    | exc e s' => exact ih _ _
    | oof => rfl
    | unsupported w => rfl

theorem interp_attempt {α} (t : FM α) : interp ev t.attempt = (interp ev t).attempt := by
  induction t with
  | ret a s => rfl
  | exc e s => rfl
  | unsupported w => rfl
  | call c s k ih =>
    simp only [FM.attempt, interp]
    cases ev c s with
    | ok vs s' => exact ih _ _
    | exc e s' => exact ih _ _
    | oof => rfl
    | unsupported w => rfl

/-- The meaning of a computation given the meaning `ev` of its constituents. -/
def den {α} (ev : Call → St → Res (List Value)) (m : M α) (s : St) : Res α := interp ev (m s)

theorem den_pure {α} (a : α) (s : St) : den ev (pure a : M α) s = .ok a s := rfl

theorem den_bind {α β} (m : M α) (f : α → M β) (s : St) :
    den ev (m >>= f) s = (den ev m s).bind (fun a s' => den ev (f a) s') := by
  show interp ev ((m s).bind fun a => f a) = _
  exact interp_bind _ _

theorem den_rec (c : Call) (s : St) : den ev (rec c) s = ev c s := by
  show interp ev (FM.call c s _) = _
  simp only [interp]
  cases ev c s <;> rfl

theorem den_attempt {α} (m : M α) (s : St) : den ev (attempt m) s = (den ev m s).attempt :=
  interp_attempt _

theorem den_throw {α} (e : Exc) (s : St) : den ev (throwE e : M α) s = .exc e s := rfl
theorem den_getSt (s : St) : den ev getSt s = .ok s s := rfl
theorem den_modifySt (f : St → St) (s : St) : den ev (modifySt f) s = .ok () (f s) := rfl

theorem run_succ (cfg : Cfg) (n : Nat) (c : Call) (s : St) :
    run cfg (n + 1) c s = den (run cfg n) (step cfg c) s := rfl

end C15
