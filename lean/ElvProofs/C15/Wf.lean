/-
C15 helper lemmas for static-scope soundness: agreement of the dynamic scope
chain with the resolver's static scope (`Agree`), well-formed values (`VWf`:
every function value inside resolves against the names of the scope chain it
closes over; no exception value of class "variable-not-found"), well-formed
states, and preservation of well-formedness by the pure value operations.
-/
import ElvProofs.C15.Scope
set_option linter.unusedSimpArgs false
set_option linter.unusedVariables false
namespace C15

/-- The cause class of the run-time error the resolver is to exclude. -/
def vnf : String := "variable-not-found"

/-! ### Agreement of dynamic and static scope -/

/-- A frame and a static frame declare the same names. -/
def FrameAgree (f : Frame) (sf : List String) : Prop := ∀ x, x ∈ sf ↔ x ∈ f.map Prod.fst

/-- Frame by frame, the scope chain has exactly the names the resolver assumes. -/
def Agree : Scope → SScope → Prop
  | [], [] => True
  | f :: rest, sf :: srest => FrameAgree f sf ∧ Agree rest srest
  | _, _ => False

theorem frameAgree_contains {f : Frame} {sf : List String} (h : FrameAgree f sf) (x : String) :
    sf.contains x = (f.map Prod.fst).contains x := by
  have := h x
  rw [Bool.eq_iff_iff]; simpa using this

theorem agree_has {scope : Scope} {sc : SScope} (h : Agree scope sc) (x : String) :
    (sscopeOf scope).has x = sc.has x := by
  induction scope generalizing sc with
  | nil => cases sc with
    | nil => rfl
    | cons _ _ => exact h.elim
  | cons f rest ih =>
    cases sc with
    | nil => exact h.elim
    | cons sf srest =>
      have ih' := ih h.2
      simp only [sscopeOf, SScope.has, List.map_cons, List.any_cons] at ih' ⊢
      rw [ih', frameAgree_contains h.1]

theorem agree_find {scope : Scope} {sc : SScope} (h : Agree scope sc) (x : String) :
    (scope.find x).isSome = sc.has x := by
  rw [find_isSome_eq_has, agree_has h]

theorem agree_find_some {scope : Scope} {sc : SScope} (h : Agree scope sc) {x : String}
    (hx : sc.has x = true) : ∃ a, scope.find x = some a := by
  have := agree_find h x
  rw [hx] at this
  exact Option.isSome_iff_exists.mp this

theorem agree_find_none {scope : Scope} {sc : SScope} (h : Agree scope sc) {x : String}
    (hx : sc.has x = false) : scope.find x = none := by
  have := agree_find h x
  rw [hx] at this
  cases hf : scope.find x with
  | none => rfl
  | some a => rw [hf] at this; cases this

theorem assignable_has {sc : SScope} {x : String} (h : sc.assignable x = true) : sc.has x = true := by
  unfold SScope.assignable at h
  split at h
  · rename_i f hf
    have h1 := List.find?_some hf
    have h2 := List.mem_of_find?_eq_some hf
    simp only [SScope.has, List.any_eq_true]
    exact ⟨f, h2, h1⟩
  · cases h

theorem frameAgree_declare {f : Frame} {sf : List String} (h : FrameAgree f sf) (x : String) (a : Nat) :
    FrameAgree ((x, a) :: f.filter (fun p => p.1 != x)) (x :: sf.filter (· != x)) := by
  intro y
  have := h y
  simp only [List.mem_cons, List.mem_filter, List.map_cons, map_fst_filter]
  rw [this]

theorem agree_declare {f : Frame} {rest : Scope} {sc : SScope} (h : Agree (f :: rest) sc) (x : String)
    (a : Nat) : Agree (((x, a) :: f.filter (fun p => p.1 != x)) :: rest) (sc.declare x) := by
  cases sc with
  | nil => exact h.elim
  | cons sf srest => exact ⟨frameAgree_declare h.1 x a, h.2⟩

theorem agree_undeclare {f : Frame} {rest : Scope} {sc sc' : SScope} (h : Agree (f :: rest) sc) {x : String}
    (hu : sc.undeclare x = some sc') :
    Agree (f.filter (fun p => p.1 != x) :: rest) sc' ∧ ∃ a, Frame.find f x = some a := by
  cases sc with
  | nil => cases hu
  | cons sf srest =>
    have hf := h.1
    have hr := h.2
    simp only [SScope.undeclare] at hu
    split at hu
    · rename_i hc
      cases hu
      refine ⟨⟨?_, hr⟩, ?_⟩
      · intro y
        have := hf y
        simp only [List.mem_filter, map_fst_filter]
        rw [this]
      · have h1 := frame_find_isSome f x
        rw [← frameAgree_contains hf, hc] at h1
        exact Option.isSome_iff_exists.mp h1
    · cases hu

theorem agree_push {scope : Scope} {sc : SScope} (h : Agree scope sc) {f : Frame} {sf : List String}
    (hf : FrameAgree f sf) : Agree (f :: scope) (sf :: sc) := ⟨hf, h⟩

theorem frameAgree_nil : FrameAgree [] [] := by intro x; simp


/-! ### Well-formed values -/

/-- A value is well-formed: every function value in it has as many option
defaults as options, and its body resolves against (the names of) the scope
chain it closes over plus its parameters; no exception value in it is of
class "variable-not-found". -/
inductive VWf : Value → Prop
  | str (s : String) : VWf (.str s)
  | num (q : Rat) : VWf (.num q)
  | bool (b : Bool) : VWf (.bool b)
  | nil : VWf .nil
  | ok : VWf .ok
  | builtin (n : String) : VWf (.builtin n)
  | list {vs : List Value} : (∀ v, v ∈ vs → VWf v) → VWf (.list vs)
  | map {kvs : List (Value × Value)} : (∀ kv, kv ∈ kvs → VWf kv.1) → (∀ kv, kv ∈ kvs → VWf kv.2) → VWf (.map kvs)
  | closure {id : Nat} {pos : List String} {rest : Option String} {post on : List String} {od : List Value}
      {body : Chunk} {env : Scope} {isFn : Bool} :
      on.length = od.length → (∀ d, d ∈ od → VWf d) →
      (∃ sc, Agree env sc ∧ rChunk ((pos ++ rest.toList ++ post ++ on).reverse :: sc) body = true) →
      VWf (.closure id pos rest post on od body env isFn)
  | exc {k : String} {p : List Value} : k ≠ vnf → (∀ v, v ∈ p → VWf v) → VWf (.exc k p)

def VsWf (vs : List Value) : Prop := ∀ v, v ∈ vs → VWf v

/-- An exception in flight is well-formed: not "variable not found", payload well-formed. -/
def EWf (e : Exc) : Prop := e.kind ≠ vnf ∧ VsWf e.payload

theorem VsWf.nil : VsWf [] := by intro v h; cases h
theorem VsWf.cons {v : Value} {vs : List Value} (h1 : VWf v) (h2 : VsWf vs) : VsWf (v :: vs) := by
  intro x hx
  cases hx with
  | head => exact h1
  | tail _ h => exact h2 _ h
theorem VsWf.head {v : Value} {vs : List Value} (h : VsWf (v :: vs)) : VWf v := h _ (List.mem_cons_self)
theorem VsWf.tail {v : Value} {vs : List Value} (h : VsWf (v :: vs)) : VsWf vs :=
  fun x hx => h x (List.mem_cons_of_mem _ hx)
theorem VsWf.append {a b : List Value} (h1 : VsWf a) (h2 : VsWf b) : VsWf (a ++ b) := by
  intro x hx
  rcases List.mem_append.mp hx with h | h
  · exact h1 _ h
  · exact h2 _ h
theorem VsWf.left {a b : List Value} (h : VsWf (a ++ b)) : VsWf a :=
  fun x hx => h x (List.mem_append_left _ hx)
theorem VsWf.right {a b : List Value} (h : VsWf (a ++ b)) : VsWf b :=
  fun x hx => h x (List.mem_append_right _ hx)
theorem VsWf.single {v : Value} (h : VWf v) : VsWf [v] := VsWf.cons h VsWf.nil
theorem VsWf.take {a : List Value} (h : VsWf a) (n : Nat) : VsWf (a.take n) :=
  fun x hx => h x (List.mem_of_mem_take hx)
theorem VsWf.drop {a : List Value} (h : VsWf a) (n : Nat) : VsWf (a.drop n) :=
  fun x hx => h x (List.mem_of_mem_drop hx)
theorem VsWf.reverse {a : List Value} (h : VsWf a) : VsWf a.reverse :=
  fun x hx => h x (List.mem_reverse.mp hx)
theorem VsWf.set {a : List Value} (h : VsWf a) (n : Nat) {v : Value} (hv : VWf v) : VsWf (a.set n v) := by
  intro x hx
  rcases List.mem_or_eq_of_mem_set hx with h1 | h1
  · exact h _ h1
  · exact h1 ▸ hv
theorem VsWf.getElem? {a : List Value} (h : VsWf a) {n : Nat} {v : Value} (hv : a[n]? = some v) : VWf v :=
  h _ (List.mem_of_getElem? hv)
theorem VsWf.map_of {α} {l : List α} {f : α → Value} (h : ∀ a, VWf (f a)) : VsWf (l.map f) := by
  intro x hx
  obtain ⟨a, _, rfl⟩ := List.mem_map.mp hx
  exact h a

theorem EWf.const {k : String} (h : k ≠ vnf) : EWf ⟨k, []⟩ := ⟨h, VsWf.nil⟩

/-- Outcome of a pure value operation: a result satisfying `P`, or a well-formed exception. -/
def EOk {α} (P : α → Prop) : Except Exc α → Prop
  | .ok a => P a
  | .error e => EWf e

abbrev RWf : Except Exc Value → Prop := EOk VWf
abbrev RsWf : Except Exc (List Value) → Prop := EOk VsWf

theorem EOk_bind {α β} {P : α → Prop} {Q : β → Prop} {x : Except Exc α} {f : α → Except Exc β}
    (hx : EOk P x) (hf : ∀ a, P a → EOk Q (f a)) : EOk Q (x >>= f) := by
  cases x with
  | error e => exact hx
  | ok a => exact hf a hx

theorem EOk_mono {α} {P Q : α → Prop} {x : Except Exc α} (hx : EOk P x) (h : ∀ a, P a → Q a) : EOk Q x := by
  cases x with
  | error e => exact hx
  | ok a => exact h a hx

theorem EOk_err {α} {P : α → Prop} {x : Except Exc α} (hx : EOk P x) {e : Exc} (h : x = .error e) : EWf e := by
  subst h; exact hx

theorem EOk_ok {α} {P : α → Prop} {x : Except Exc α} (hx : EOk P x) {a : α} (h : x = .ok a) : P a := by
  subst h; exact hx

/-- closes goals `EOk P (.ok a)` with trivial `P a`, and `EOk P (.error <constant>)` -/
macro "eok_triv" : tactic =>
  `(tactic| first
    | exact (True.intro : EOk (fun _ => True) (Except.ok _))
    | exact (EWf.const (by decide) : EWf _)
    | exact VWf.str _
    | exact VWf.nil)

end C15
