/-
C15 helper lemmas: the pure value operations preserve well-formedness of
values and only raise well-formed exceptions (never "variable not found").
-/
import ElvProofs.C15.Wf
set_option linter.unusedSimpArgs false
set_option linter.unusedVariables false
namespace C15

theorem EOk.okI {α} {P : α → Prop} {a : α} (h : P a) : EOk P (.ok a) := h
theorem EOk.errI {α} {P : α → Prop} {k : String} (h : k ≠ vnf) : EOk P (.error ⟨k, []⟩) := EWf.const h

/-- closes goals `EOk P (.ok a)` with trivial `P a`, and `EOk P (.error <constant>)` -/
macro "eok_triv" : tactic =>
  `(tactic| first
    | exact EOk.errI (by decide)
    | exact EOk.okI True.intro
    | exact EOk.okI (VWf.str _)
    | exact EOk.okI VWf.nil)

macro "eok_split" : tactic => `(tactic| repeat' (first | split | dsimp only))

theorem parseIdx_ok (v : Value) : EOk (fun _ => True) (parseIdx v) := by
  unfold parseIdx
  eok_split
  all_goals eok_triv

theorem resolveIdx_ok (n : Nat) (i : Idx) : EOk (fun _ => True) (resolveIdx n i) := by
  unfold resolveIdx
  eok_split
  all_goals eok_triv

theorem indexList_wf {vs : List Value} (hvs : VsWf vs) (idx : Value) : RWf (indexList vs idx) := by
  unfold indexList
  refine EOk_bind (parseIdx_ok idx) (fun i _ => EOk_bind (resolveIdx_ok _ i) (fun r _ => ?_))
  cases r with
  | inl p =>
    dsimp only
    cases h3 : vs[p]? with
    | none => eok_triv
    | some v => exact hvs.getElem? h3
  | inr lh =>
    obtain ⟨l, h⟩ := lh
    exact VWf.list ((hvs.drop l).take (h - l))

theorem indexString_wf (s : String) (idx : Value) : RWf (indexString s idx) := by
  unfold indexString
  dsimp only
  refine EOk_bind (parseIdx_ok idx) (fun i _ => EOk_bind (resolveIdx_ok _ i) (fun r _ => ?_))
  eok_split
  all_goals eok_triv

theorem mapGet_wf {m : List (Value × Value)} (h2 : ∀ kv, kv ∈ m → VWf kv.2) {k v : Value}
    (h : mapGet m k = some v) : VWf v := by
  unfold mapGet at h
  cases hf : m.find? (fun kv => veq kv.1 k) with
  | none => rw [hf] at h; cases h
  | some kv =>
    rw [hf] at h
    cases h
    exact h2 _ (List.mem_of_find?_eq_some hf)

theorem indexValue_wf {c : Value} (hc : VWf c) (idx : Value) : RWf (indexValue c idx) := by
  unfold indexValue
  split
  · cases hc with | list h => exact indexList_wf h idx
  · exact indexString_wf _ _
  · cases hc with
    | map h1 h2 =>
      split
      · rename_i v hv; exact mapGet_wf h2 hv
      · eok_triv
  · split <;> eok_triv
  · split <;> eok_triv
  · split <;> eok_triv
  · eok_triv

theorem mapPut_wf {m : List (Value × Value)} (h1 : ∀ kv, kv ∈ m → VWf kv.1) (h2 : ∀ kv, kv ∈ m → VWf kv.2)
    {k v : Value} (hk : VWf k) (hv : VWf v) :
    (∀ kv, kv ∈ mapPut m k v → VWf kv.1) ∧ (∀ kv, kv ∈ mapPut m k v → VWf kv.2) := by
  unfold mapPut mapDel
  constructor <;> intro kv hkv <;> rcases List.mem_append.mp hkv with h | h
  · exact h1 _ (List.mem_filter.mp h).1
  · simp only [List.mem_singleton] at h; subst h; exact hk
  · exact h2 _ (List.mem_filter.mp h).1
  · simp only [List.mem_singleton] at h; subst h; exact hv

theorem assocValue_wf {c : Value} (hc : VWf c) {idx v : Value} (hi : VWf idx) (hv : VWf v) :
    RWf (assocValue c idx v) := by
  unfold assocValue
  split
  · cases hc with
    | list h =>
      refine EOk_bind (parseIdx_ok idx) (fun i _ => EOk_bind (resolveIdx_ok _ i) (fun r _ => ?_))
      cases r with
      | inl p => exact VWf.list (VsWf.set h p hv)
      | inr _ => eok_triv
  · cases hc with
    | map h1 h2 =>
      have := mapPut_wf h1 h2 hi hv
      exact VWf.map this.1 this.2
  · dsimp only
    refine EOk_bind (parseIdx_ok idx) (fun i _ => EOk_bind (resolveIdx_ok _ i) (fun r _ => ?_))
    repeat' (first | split | dsimp only | (refine EOk_bind (P := fun _ => True) ?_ (fun _ _ => ?_)))
    all_goals eok_triv
  · eok_triv

theorem assocPath_wf {c : Value} (hc : VWf c) {idx : List Value} (hi : VsWf idx) {v : Value} (hv : VWf v) :
    RWf (assocPath c idx v) := by
  induction idx generalizing c with
  | nil => exact hv
  | cons i is ih =>
    cases is with
    | nil => exact assocValue_wf hc hi.head hv
    | cons j js =>
      unfold assocPath
      refine EOk_bind (indexValue_wf hc i) (fun inner hin => ?_)
      exact EOk_bind (ih hin hi.tail) (fun inner' hin' => assocValue_wf hc hi.head hin')

theorem dissocValue_wf {c : Value} (hc : VWf c) (idx : Value) : RWf (dissocValue c idx) := by
  unfold dissocValue
  split
  · cases hc with
    | map h1 h2 =>
      refine VWf.map ?_ ?_ <;> intro kv hkv
      · exact h1 _ (List.mem_filter.mp hkv).1
      · exact h2 _ (List.mem_filter.mp hkv).1
  · eok_triv

theorem dissocPath_wf {c : Value} (hc : VWf c) {idx : List Value} (hi : VsWf idx) :
    RWf (dissocPath c idx) := by
  induction idx generalizing c with
  | nil => exact hc
  | cons i is ih =>
    cases is with
    | nil => exact dissocValue_wf hc i
    | cons j js =>
      unfold dissocPath
      refine EOk_bind (indexValue_wf hc i) (fun inner hin => ?_)
      exact EOk_bind (ih hin hi.tail) (fun inner' hin' => assocValue_wf hc hi.head hin')

theorem checkPath_ok {c : Value} (hc : VWf c) (idx : List Value) : EOk (fun _ => True) (checkPath c idx) := by
  induction idx generalizing c with
  | nil => exact True.intro
  | cons i is ih =>
    cases is with
    | nil => exact True.intro
    | cons j js =>
      unfold checkPath
      exact EOk_bind (indexValue_wf hc i) (fun inner hin => ih hin)

theorem elements_wf {v : Value} (hv : VWf v) : RsWf (elements v) := by
  unfold elements
  split
  · cases hv with | list h => exact h
  · exact VsWf.map_of (fun c => VWf.str _)
  · eok_triv

theorem lengthOf_ok (v : Value) : EOk (fun _ => True) (lengthOf v) := by
  unfold lengthOf
  split <;> eok_triv

theorem concat_wf (a b : Value) : RWf (concat a b) := by
  unfold concat
  split <;> eok_triv

theorem concatRow_wf (l : Value) (rs : List Value) : RsWf (concatRow l rs) := by
  induction rs with
  | nil => exact VsWf.nil
  | cons r rs ih =>
    unfold concatRow
    exact EOk_bind (concat_wf l r) (fun x hx => EOk_bind ih (fun xs hxs => VsWf.cons hx hxs))

theorem outer_wf (ls rs : List Value) : RsWf (outer ls rs) := by
  induction ls with
  | nil => exact VsWf.nil
  | cons l ls ih =>
    unfold outer
    exact EOk_bind (concatRow_wf l rs) (fun x hx => EOk_bind ih (fun xs hxs => VsWf.append hx hxs))

theorem mapPutAll_wf {acc : List (Value × Value)} (h1 : ∀ kv, kv ∈ acc → VWf kv.1)
    (h2 : ∀ kv, kv ∈ acc → VWf kv.2) {ks vs : List Value} (hk : VsWf ks) (hv : VsWf vs) :
    (∀ kv, kv ∈ mapOfPairs.mapPutAll acc ks vs → VWf kv.1) ∧
      (∀ kv, kv ∈ mapOfPairs.mapPutAll acc ks vs → VWf kv.2) := by
  induction ks generalizing acc vs with
  | nil => exact ⟨h1, h2⟩
  | cons k ks ih =>
    cases vs with
    | nil => exact ⟨h1, h2⟩
    | cons v vs =>
      have := mapPut_wf h1 h2 hk.head hv.head
      exact ih this.1 this.2 hk.tail hv.tail

theorem mapOfPairs_wf {ks vs : List Value} (hk : VsWf ks) (hv : VsWf vs) : VWf (.map (mapOfPairs ks vs)) := by
  have := mapPutAll_wf (acc := []) (by intro kv h; cases h) (by intro kv h; cases h) hk hv
  exact VWf.map this.1 this.2

theorem uninterleave_wf : ∀ {l : List Value}, VsWf l → VsWf (uninterleave l).1 ∧ VsWf (uninterleave l).2
  | [], _ => ⟨VsWf.nil, VsWf.nil⟩
  | [_], _ => ⟨VsWf.nil, VsWf.nil⟩
  | a :: b :: rest, h => by
    have ih := uninterleave_wf (l := rest) h.tail.tail
    simp only [uninterleave]
    exact ⟨VsWf.cons h.head ih.1, VsWf.cons h.tail.head ih.2⟩

theorem interleave_wf : ∀ {a b : List Value}, VsWf a → VsWf b → VsWf (interleave a b)
  | [], _, _, _ => by simp only [interleave]; exact VsWf.nil
  | _ :: _, [], _, _ => by simp only [interleave]; exact VsWf.nil
  | x :: xs, y :: ys, h1, h2 => by
    simp only [interleave]
    exact VsWf.cons h1.head (VsWf.cons h2.head (interleave_wf h1.tail h2.tail))

theorem mapM_index_wf {c : Value} (hc : VWf c) (is : List Value) :
    RsWf (is.mapM (fun i => indexValue c i)) := by
  induction is with
  | nil => exact VsWf.nil
  | cons i is ih =>
    rw [List.mapM_cons]
    exact EOk_bind (indexValue_wf hc i) (fun v hv => EOk_bind ih (fun vs hvs => VsWf.cons hv hvs))

theorem indexAll_wf {cs : List Value} (hc : VsWf cs) (idx : List Value) : RsWf (indexAll cs idx) := by
  unfold indexAll
  suffices H : ∀ (acc : List Value), VsWf acc →
      RsWf (cs.foldlM (fun acc c => do
        let row ← idx.mapM (fun i => indexValue c i)
        pure (acc ++ row)) acc) from H [] VsWf.nil
  induction cs with
  | nil => intro acc ha; exact ha
  | cons c cs ih =>
    intro acc ha
    rw [List.foldlM_cons]
    refine EOk_bind (P := VsWf) ?_ (fun acc' ha' => ih hc.tail acc' ha')
    exact EOk_bind (mapM_index_wf hc.head idx) (fun row hrow => ha.append hrow)

theorem distribute_wf {rests : List Bool} {vals : List Value} (hv : VsWf vals) :
    EOk (fun out => VsWf out ∧ out.length = rests.length) (distribute rests vals) := by
  unfold distribute
  dsimp only
  cases hr : rests.findIdx? id with
  | none =>
    dsimp only
    split
    · rename_i h; exact ⟨hv, by simpa using h⟩
    · eok_triv
  | some r =>
    dsimp only
    split
    · eok_triv
    · rename_i hlen
      refine ⟨?_, ?_⟩
      · exact ((hv.take r).append (VsWf.single (VWf.list ((hv.drop r).take _)))).append (hv.drop _)
      · have hr' : r < rests.length := by
          have := List.findIdx?_eq_some_iff_getElem.mp hr
          exact this.1
        simp only [List.length_append, List.length_take, List.length_drop, List.length_cons, List.length_nil]
        omega

theorem unwrapList_wf {v : Value} (h : VWf v) : VsWf (unwrapList v) := by
  unfold unwrapList
  split
  · cases h with | list h => exact h
  · exact VsWf.single h

theorem optValues_wf {names : List String} {defaults : List Value} (hd : VsWf defaults) (gn : List String)
    {gv : List Value} (hg : VsWf gv) :
    VsWf (optValues names defaults gn gv) ∧
      (optValues names defaults gn gv).length = min names.length defaults.length := by
  unfold optValues
  refine ⟨?_, by simp⟩
  intro x hx
  obtain ⟨⟨n, d⟩, hnd, rfl⟩ := List.mem_map.mp hx
  dsimp only
  split
  · rename_i p hp
    have := List.mem_of_find?_eq_some hp
    have := List.mem_reverse.mp this
    exact hg _ (List.of_mem_zip this).2
  · exact hd _ (List.of_mem_zip hnd).2

theorem rangeVals_wf (a b st : Rat) : VsWf (rangeVals a b st) := by
  unfold rangeVals
  split
  · exact VsWf.nil
  · exact VsWf.map_of (fun _ => VWf.num _)

end C15
