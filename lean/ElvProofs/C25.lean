/-
C25 — the history survives a crash at any point.

Model: ElvModel/C25/Model.lean — the sequential store of C24 run as a program
on a durable medium: every API call is ONE `db.Update` (dirty-page writes,
then the atomic meta-page commit, then the acknowledgement) or one `db.View`;
the process may be killed between any two events (`Sys.crash s cs k`), `durable`
is what a reopen reads.  Atomicity and durability of the commit are ASSUMED of
bbolt + fsync (see the header of the model); what is proved is that, given
them and the structure of pkg/store (`C25_api_one_transaction`, regenerated
from the source at every check), the property holds for every history, every
crash point, every number of page writes per transaction and every number of
successive lives of the process.

`conc st` is the store that holds the specification state `st` (C24's
sequential log + the directory bucket).  Hypothesis `counter + #calls < 2^63`:
bbolt's uint64 sequence stays inside Go's `int` (as in C24).
-/
import ElvProofs.C25.Store
open Go C24 C24.Spec C25

/-! ### the structure facts (what the extractor of harness/c25 re-reads from the source) -/

/-- Every exported method of the store is exactly one write transaction or
exactly one read transaction (`Close`: none) — never two, never a `View`
followed by an `Update`; the calls of the model are classified accordingly; the
options of `dbWithDefaultOptions`, through which `NewStore` opens the file,
leave syncing on. -/
theorem C25_api_one_transaction :
    (∀ a : Api, a.txns = (1, 0) ∨ a.txns = (0, 1) ∨ a = .Close) ∧
    (∀ (F : Type) (c : Call F), (mutates c = true ∧ c.api.txns = (1, 0)) ∨ (mutates c = false ∧ c.api.txns = (0, 1))) ∧
    (openCalls.lookup newStoreOpensVia = some defaultOpts ∧ defaultOpts = ⟨false, false, false⟩) := by
  refine ⟨?_, ?_, by decide⟩
  · intro a; cases a <;> simp [Api.txns]
  · intro F c
    cases c with
    | cmd op => cases op <;> simp [mutates, Call.api, Api.txns]
    | addDir d f => simp [mutates, Call.api, Api.txns]
    | addDirRaw d x => simp [mutates, Call.api, Api.txns]
    | delDir d => simp [mutates, Call.api, Api.txns]
    | dirs bl => simp [mutates, Call.api, Api.txns]

example : mutates (Call.cmd (.add [1]) : Call Nat) = true ∧ mutates (Call.dirs [] : Call Nat) = false := by decide

/-- The calls that are a `View` leave the store as it is. -/
theorem C25_view_calls_read_only (o : ScoreOps) (s : Store) (c : Call o.F) (h : mutates c = false) :
    (call o s c).1 = s := call_readOnly o s c h

/-! ### a crash at any point -/

/-- For every committed state `s` of the store, every history `cs` of API
calls, every number of page writes per transaction and EVERY crash point `k`:
with `a` the number of acknowledgements that got out and `j = progress` —
`a ≤ j ≤ a + 1`, `j ≤ #cs` — the reopened store is exactly the store after the
first `j` calls run one after the other without a crash (a prefix of the
attempted operations that contains every acknowledged one), and the
acknowledged results are exactly the results of the first `a` calls. -/
theorem C25_crash_reopens_to_prefix (o : ScoreOps) (pages : Store → Call o.F → Nat) (s : Store)
    (cs : List (Call o.F)) (k : Nat) :
    (acks ((elvish o pages).crash s cs k)).length ≤ progress ((elvish o pages).crash s cs k) ∧
    progress ((elvish o pages).crash s cs k) ≤ (acks ((elvish o pages).crash s cs k)).length + 1 ∧
    progress ((elvish o pages).crash s cs k) ≤ cs.length ∧
    durable s ((elvish o pages).crash s cs k) =
      ((elvish o pages).run s (cs.take (progress ((elvish o pages).crash s cs k)))).1 ∧
    acks ((elvish o pages).crash s cs k) =
      ((elvish o pages).run s (cs.take (acks ((elvish o pages).crash s cs k)).length)).2 := by
  obtain ⟨h1, h2, h3⟩ := crash_prefix (elvish o pages) (elvish_synced o pages) (elvish_readOnly o pages) cs s k
  obtain ⟨b1, b2⟩ := progress_bounds ((elvish o pages).crash s cs k)
  exact ⟨b1, b2, h1, h2, h3⟩

/-- non-vacuity: a kill between the commit and the acknowledgement of the second
`AddCmd` — one acknowledgement got out, the reopened store holds both commands -/
example :
    let es := (elvish unitOps (fun _ _ => 2)).crash Store.fresh [.cmd (.add [1]), .cmd (.add [2]), .cmd (.add [3])] 10
    (acks es).length = 1 ∧ progress es = 2 ∧
      (durable Store.fresh es).cmd.kvs = [(marshalSeq 1, [1]), (marshalSeq 2, [2])] := by decide

/-- The same against the SPECIFICATION (C24's sequential log): on a store
holding a well-formed specification state, the reopened store holds the
specification state after a prefix `j ≥ a` of the attempted calls (the
abstraction function `absLog` reads the log back from the reopened bucket),
and what was acknowledged is what the specification returns. -/
theorem C25_reopened_is_spec_prefix (o : ScoreOps) (pages : Store → Call o.F → Nat) (st : C25.Spec.St)
    (cs : List (Call o.F)) (k : Nat) (h : st.log.WF) (hc : st.log.counter + cs.length < two63) :
    let es := (elvish o pages).crash (conc st) cs k
    (acks es).length ≤ progress es ∧ progress es ≤ cs.length ∧
    durable (conc st) es = conc (C25.Spec.run o st (cs.take (progress es))).1 ∧
    absLog (durable (conc st) es).cmd = (C25.Spec.run o st (cs.take (progress es))).1.log ∧
    acks es = (C25.Spec.run o st (cs.take (acks es).length)).2 := by
  intro es
  obtain ⟨b1, _, h1, h2, h3⟩ := C25_crash_reopens_to_prefix o pages (conc st) cs k
  have hlen : ∀ n, st.log.counter + (cs.take n).length < two63 := by
    intro n
    simp only [List.length_take]
    omega
  have hd : durable (conc st) es = conc (C25.Spec.run o st (cs.take (progress es))).1 := by
    show durable (conc st) ((elvish o pages).crash (conc st) cs k) = _
    rw [h2, run_conc o pages _ st h (hlen _)]
  refine ⟨b1, h1, hd, ?_, ?_⟩
  · rw [hd]
    have hwf := run_WF o (cs.take (progress es)) st h
    have hcnt := (issued_run o (cs.take (progress es)) st).2.1
    have := hlen (progress es)
    exact absLog_conc _ (wf_bound hwf (by omega))
  · rw [run_conc o pages _ st h (hlen _)] at h3
    exact h3

/-- on a fresh database in particular -/
theorem C25_fresh_database (o : ScoreOps) (pages : Store → Call o.F → Nat) (cs : List (Call o.F)) (k : Nat)
    (hc : cs.length < two63) :
    let es := (elvish o pages).crash Store.fresh cs k
    ∃ j, (acks es).length ≤ j ∧ j ≤ cs.length ∧
      durable Store.fresh es = conc (C25.Spec.run o C25.Spec.St.fresh (cs.take j)).1 ∧
      acks es = (C25.Spec.run o C25.Spec.St.fresh (cs.take (acks es).length)).2 := by
  intro es
  have h := C25_reopened_is_spec_prefix o pages C25.Spec.St.fresh cs k Log.WF_empty
    (by simpa [C25.Spec.St.fresh, Log.empty] using hc)
  exact ⟨progress es, h.1, h.2.1, h.2.2.1, h.2.2.2.2⟩

/-! ### sequence numbers across crashes -/

/-- Any number of lives of the process — each runs a history on what the
previous one left behind and is killed at an arbitrary point — followed by a
continuation `cont` after the last reopen: the sequence numbers that were
ACKNOWLEDGED in all the lives, followed by the numbers handed out after the
last reopen, strictly increase.  So a number handed out after a reopen is
larger than every number ever acknowledged before; all of them lie above the
counter the first life started from. -/
theorem C25_seq_above_every_acknowledged (o : ScoreOps) (pages : Store → Call o.F → Nat) :
    ∀ (lives : List (List (Call o.F) × Nat)) (st : C25.Spec.St) (cont : List (Call o.F)), st.log.WF →
      st.log.counter + (lives.map (·.1.length)).sum + cont.length < two63 →
      (issued (((elvish o pages).lives (conc st) lives).2 ++
        ((elvish o pages).run ((elvish o pages).lives (conc st) lives).1 cont).2)).Pairwise (· < ·) ∧
      ∀ n ∈ issued (((elvish o pages).lives (conc st) lives).2 ++
        ((elvish o pages).run ((elvish o pages).lives (conc st) lives).1 cont).2), (st.log.counter : Int) < n
  | [], st, cont, h, hc => by
    simp only [List.map_nil, List.sum_nil, Nat.add_zero] at hc
    simp only [Sys.lives, List.nil_append, run_conc o pages cont st h hc]
    obtain ⟨_, _, i3, i4⟩ := issued_run o cont st
    exact ⟨i3, fun n hn => (i4 n hn).1⟩
  | (cs, k) :: lives, st, cont, h, hc => by
    simp only [List.map_cons, List.sum_cons] at hc
    obtain ⟨b1, b2, hd, _, ha⟩ := C25_reopened_is_spec_prefix o pages st cs k h (by omega)
    simp only [Sys.lives]
    rw [hd]
    -- the state the next life starts from
    have hwf := run_WF o (cs.take (progress ((elvish o pages).crash (conc st) cs k))) st h
    obtain ⟨c1, c2, _, _⟩ := issued_run o (cs.take (progress ((elvish o pages).crash (conc st) cs k))) st
    have hl := List.length_take_le (progress ((elvish o pages).crash (conc st) cs k)) cs
    obtain ⟨ih1, ih2⟩ := C25_seq_above_every_acknowledged o pages lives _ cont hwf (by omega)
    -- the numbers acknowledged in this life
    obtain ⟨_, _, a3, a4⟩ := issued_run o (cs.take (acks ((elvish o pages).crash (conc st) cs k)).length) st
    have hmono := counter_take_mono o cs st _ _ b1
    rw [List.append_assoc, issued_append, ha]
    refine ⟨List.pairwise_append.2 ⟨a3, ih1, ?_⟩, ?_⟩
    · intro x hx y hy
      have := (a4 x hx).2
      have := ih2 y hy
      omega
    · intro n hn
      rcases List.mem_append.1 hn with hn | hn
      · exact (a4 n hn).1
      · have := ih2 n hn
        omega

/-- non-vacuity: two lives killed right after a commit that was never
acknowledged, then a continuation — acknowledged 1, 3; after the reopen 5 -/
example :
    let S := elvish unitOps (fun _ _ => 1)
    let r := S.lives Store.fresh [([.cmd (.add [1]), .cmd (.add [2])], 9), ([.cmd (.add [3]), .cmd (.add [4])], 8)]
    issued (r.2 ++ (S.run r.1 [.cmd (.add [5])]).2) = [1, 3, 5] := by decide

/-! ### the structure facts are needed -/

/-- If `AddCmd` took its number in one `Update` and stored the text in a second
one, a kill between the two would leave a store that is the state after NO
prefix of the history (the counter moved, the command is missing). -/
theorem C25_needs_single_update (t : Bytes) :
    ∃ k, ∀ j, durable Store.fresh ((splitAddCmdEvents t).take k) ≠
      ((elvish unitOps (fun _ _ => 0)).run Store.fresh ([Call.cmd (.add t)].take j)).1 := by
  refine ⟨2, ?_⟩
  intro j
  match j with
  | 0 => simp [splitAddCmdEvents, durable, Sys.run, Store.fresh, Bucket.nextSequence, Bucket.empty]
  | j + 1 =>
    simp [splitAddCmdEvents, durable, Sys.run, elvish, call, C24.step, addCmd, Bucket.put, marshalSeq,
      Store.fresh, Bucket.nextSequence, Bucket.empty, seekPre, seekPost, dropKey, maxKeySize]

/-- If the database were opened with `NoSync` (the call returns before the meta
page is on the medium), an ACKNOWLEDGED operation could be lost. -/
theorem C25_needs_sync :
    let S : Sys Store (Call unitOps.F) (Ret unitOps.F) := { elvish unitOps (fun _ _ => 0) with synced := false }
    let es := S.crash Store.fresh [.cmd (.add [1])] 1
    (acks es).length = 1 ∧ durable Store.fresh es = Store.fresh ∧
      ∀ j, 1 ≤ j → (S.run Store.fresh ([Call.cmd (.add [1])].take j)).1 ≠ Store.fresh := by
  refine ⟨by decide, by decide, ?_⟩
  intro j hj
  match j with
  | j + 1 =>
    simp [Sys.run, elvish, call, C24.step, addCmd, Bucket.put, marshalSeq,
      Store.fresh, Bucket.nextSequence, Bucket.empty, seekPre, seekPost, dropKey, maxKeySize]
